//go:build verif

// Package putfake builds the REAL putsvc.Service over recording fakes (shared by the /verif
// harnesses): chain view, containers, quotas, payments, key storage, max object size and a
// local storage that records every object handed to it. The local node is every container
// node, so nothing leaves the process; Remote counts attempts to use the transport/clients.
package putfake

import (
	"context"
	"crypto/ecdsa"
	"errors"
	"sync"

	iec "github.com/nspcc-dev/neofs-node/internal/ec"
	isessions "github.com/nspcc-dev/neofs-node/internal/sessions"
	clientcore "github.com/nspcc-dev/neofs-node/pkg/core/client"
	putsvc "github.com/nspcc-dev/neofs-node/pkg/services/object/put"
	objutil "github.com/nspcc-dev/neofs-node/pkg/services/object/util"
	"github.com/nspcc-dev/neofs-node/pkg/util/state/session"
	apistatus "github.com/nspcc-dev/neofs-sdk-go/client/status"
	"github.com/nspcc-dev/neofs-sdk-go/container"
	cid "github.com/nspcc-dev/neofs-sdk-go/container/id"
	"github.com/nspcc-dev/neofs-sdk-go/netmap"
	"github.com/nspcc-dev/neofs-sdk-go/object"
	oid "github.com/nspcc-dev/neofs-sdk-go/object/id"
	sessionv2 "github.com/nspcc-dev/neofs-sdk-go/session/v2"
	"github.com/nspcc-dev/neofs-sdk-go/user"
	"go.uber.org/zap"
)

// ---- environment of one case ----------------------------------------------------

type ECRule struct{ D, P int }

// World is the chain view, the policy and the recording local storage of one fake node.
// Every public key counts as local, so whatever the service "sends" lands in Stored.
type World struct {
	Epoch     uint64
	MaxSize   uint64
	Rules     []ECRule // EC rules of the container policy
	RepN      int      // number of REP rules (each REP 1)
	CnrFound  bool
	LockState int // 0 unlocked, 1 locked, 2 error
	SplitOK   bool
	TombOK    bool
	QuotaErr  bool
	QuotaHard uint64
	// local storage
	mu       sync.Mutex
	Stored   []object.Object
	PutCalls int
	FailPut  map[int]bool // Put call numbers (from 0) that fail
	// remote sends (must stay empty: every node is local)
	Remote int
}

func (w *World) CurrentEpoch() uint64        { return w.Epoch }
func (w *World) CurrentBlock() uint32        { return 0 }
func (w *World) CurrentEpochDuration() uint64 { return 240 }

// putsvc.NeoFSNetwork: every key is local, so that everything that is "sent" lands in the
// recording local storage
func (w *World) GetContainerNodes(cid.ID) (putsvc.ContainerNodes, error) {
	if !w.CnrFound {
		return nil, apistatus.ErrContainerNotFound
	}
	return w, nil
}
func (w *World) IsLocalNodePublicKey([]byte) bool              { return true }
func (w *World) GetEpochBlock(uint64) (uint32, error)          { return 0, errors.New("fake") }
func (w *World) GetEpochBlockByTime(uint32) (uint32, error)    { return 0, errors.New("fake") }

func nodeInfo(i int) netmap.NodeInfo {
	var n netmap.NodeInfo
	k := make([]byte, 33)
	k[0] = 2
	k[32] = byte(i + 1)
	n.SetPublicKey(k)
	n.SetNetworkEndpoints("localhost:1")
	return n
}

// putsvc.ContainerNodes
func (w *World) lists() [][]netmap.NodeInfo {
	var res [][]netmap.NodeInfo
	k := 0
	for i := 0; i < w.RepN; i++ {
		res = append(res, []netmap.NodeInfo{nodeInfo(k)})
		k++
	}
	for _, r := range w.Rules {
		var l []netmap.NodeInfo
		for j := 0; j < r.D+r.P; j++ {
			l = append(l, nodeInfo(k))
			k++
		}
		res = append(res, l)
	}
	return res
}
func (w *World) Unsorted() [][]netmap.NodeInfo                      { return w.lists() }
func (w *World) SortForObject(oid.ID) ([][]netmap.NodeInfo, error) { return w.lists(), nil }
func (w *World) PrimaryCounts() []uint {
	res := make([]uint, w.RepN)
	for i := range res {
		res[i] = 1
	}
	return res
}
func (w *World) ECRules() []iec.Rule {
	var res []iec.Rule
	for _, r := range w.Rules {
		res = append(res, iec.Rule{DataPartNum: uint8(r.D), ParityPartNum: uint8(r.P)})
	}
	return res
}

// container source
func (w *World) Get(cid.ID) (container.Container, error) {
	if !w.CnrFound {
		return container.Container{}, apistatus.ErrContainerNotFound
	}
	var pp netmap.PlacementPolicy
	var reps []netmap.ReplicaDescriptor
	for i := 0; i < w.RepN; i++ {
		var rd netmap.ReplicaDescriptor
		rd.SetNumberOfObjects(1)
		reps = append(reps, rd)
	}
	pp.SetReplicas(reps)
	var ecs []netmap.ECRule
	for _, r := range w.Rules {
		ecs = append(ecs, netmap.NewECRule(uint32(r.D), uint32(r.P)))
	}
	pp.SetECRules(ecs)
	var c container.Container
	c.SetPlacementPolicy(pp)
	return c, nil
}

// max size, quota, payments
func (w *World) MaxObjectSize() uint64 { return w.MaxSize }
func (w *World) AvailableQuotasLeft(cid.ID, user.ID) (uint64, uint64, error) {
	if w.QuotaErr {
		return 0, 0, errors.New("fake quota error")
	}
	return w.QuotaHard, w.QuotaHard, nil
}
func (w *World) UnpaidSince(cid.ID) (int64, error) { return -1, nil }

// local storage
func (w *World) Put(_ context.Context, obj *object.Object, _ []byte) error {
	w.mu.Lock()
	defer w.mu.Unlock()
	n := w.PutCalls
	w.PutCalls++
	if w.FailPut[n] {
		return errors.New("fake storage failure")
	}
	var cp object.Object
	obj.CopyTo(&cp)
	w.Stored = append(w.Stored, cp)
	return nil
}
func (w *World) IsLocked(context.Context, oid.Address) (bool, error) {
	switch w.LockState {
	case 1:
		return true, nil
	case 2:
		return false, errors.New("fake lock error")
	}
	return false, nil
}

// verifiers
type splitVerifier struct{ w *World }

func (s splitVerifier) VerifySplit(context.Context, cid.ID, oid.ID, []object.MeasuredObject) error {
	if !s.w.SplitOK {
		return errors.New("fake split failure")
	}
	return nil
}

type tombVerifier struct{ w *World }

func (s tombVerifier) VerifyTombStoneWithoutPayload(context.Context, object.Object) error {
	if !s.w.TombOK {
		return errors.New("fake tomb failure")
	}
	return nil
}

// transport / clients: nothing may leave the node in this harness
type transport struct{ w *World }

func (t transport) SendReplicationRequestToNode(context.Context, []byte, netmap.NodeInfo) ([]byte, error) {
	t.w.Remote++
	return nil, errors.New("no remote nodes in this harness")
}

type clients struct{ w *World }

func (c clients) Get(context.Context, netmap.NodeInfo) (clientcore.MultiAddressClient, error) {
	c.w.Remote++
	return nil, errors.New("no remote nodes in this harness")
}

type postPlacement struct{}

func (postPlacement) HandlePostPlacement(*object.Object, []netmap.NodeInfo) {}

// session keys held by the node (trusted path)
// TokenStore holds private session keys of the node by account (trusted PUT with a session).
type TokenStore struct {
	Keys map[user.ID]*ecdsa.PrivateKey
}

func (t TokenStore) GetToken(u user.ID) *session.PrivateToken {
	if k, ok := t.Keys[u]; ok {
		return session.NewPrivateToken(k, 1<<40)
	}
	return nil
}
func (t TokenStore) FindTokenBySubjects([]sessionv2.Target) *session.PrivateToken { return nil }

// NewWorld returns a world with one REP 1 rule, no EC rules, max object size 64, epoch 10.
func NewWorld() *World {
	return &World{Epoch: 10, MaxSize: 64, RepN: 1, CnrFound: true, SplitOK: true, TombOK: true, QuotaHard: ^uint64(0), FailPut: map[int]bool{}}
}

// NewService builds the real putsvc.Service over the fakes of w.
func NewService(w *World, nodeKey *ecdsa.PrivateKey, ts TokenStore) *putsvc.Service {
	return putsvc.NewService(transport{w}, w, nil, w, w,
		putsvc.WithSessionsCache(isessions.NewObjectSessionsCache(64)),
		putsvc.WithLogger(zap.NewNop()),
		putsvc.WithKeyStorage(objutil.NewKeyStorage(nodeKey, ts, w)),
		putsvc.WithObjectStorage(w),
		putsvc.WithMaxSizeSource(w),
		putsvc.WithContainerSource(w),
		putsvc.WithNetworkState(w),
		putsvc.WithClientConstructor(clients{w}),
		putsvc.WithSplitChainVerifier(splitVerifier{w}),
		putsvc.WithTombstoneVerifier(tombVerifier{w}),
		putsvc.WithPostPlacementReplicator(postPlacement{}),
	)
}

// Options of New.
type Options struct {
	NodeKey       *ecdsa.PrivateKey // the node's own key (required)
	MaxObjectSize uint64            // 0 = keep the default (64)
	Epoch         uint64            // 0 = keep the default (10)
}

// Recorder is the world behind the service: Stored lists every object handed to the local
// storage (in order), PutCalls counts the calls, Remote counts transport/client uses.
type Recorder = World

// New returns the real putsvc.Service over a fresh world (REP 1, the local node is the only
// container node) and the recorder.
func New(opts Options) (*putsvc.Service, *Recorder) {
	w := NewWorld()
	if opts.MaxObjectSize != 0 {
		w.MaxSize = opts.MaxObjectSize
	}
	if opts.Epoch != 0 {
		w.Epoch = opts.Epoch
	}
	return NewService(w, opts.NodeKey, TokenStore{}), w
}

// Reset forgets what was recorded.
func (w *World) Reset() {
	w.mu.Lock()
	defer w.mu.Unlock()
	w.Stored, w.PutCalls, w.Remote = nil, 0, 0
}
