//go:build verif

package main

// C42: upgrade of older metabase formats.  A database is written by the current
// code from a random history, observed, rewritten into the older format directly
// with bbolt (base58 associate values, homomorphic-hash index keys, version 10; for
// version 9 also: no per-container counters, the old global counters and the
// container volume bucket), and opened again by the current code: once undisturbed
// and once per poll of the init context with the context cancelled at that poll and
// a second, undisturbed open afterwards.

import (
	"bufio"
	"bytes"
	"context"
	"encoding/binary"
	"encoding/json"
	"io"
	"os"
	"path/filepath"
	"sort"
	"strconv"
	"time"

	"github.com/mr-tron/base58"
	"github.com/nspcc-dev/bbolt"
	"github.com/nspcc-dev/neofs-node/pkg/local_object_storage/blobstor/common"
	meta "github.com/nspcc-dev/neofs-node/pkg/local_object_storage/metabase"
	cid "github.com/nspcc-dev/neofs-sdk-go/container/id"
	"github.com/nspcc-dev/neofs-sdk-go/object"
	oid "github.com/nspcc-dev/neofs-sdk-go/object/id"
	"go.uber.org/zap"
)

const c42Epoch = 5

// object IDs of this check start with a non-zero byte: the base58 form of an ID with
// nine or more leading zero bytes can be 32 characters long, which the migration
// takes for an already converted value (see notes/C42.md).
func id42(n int) oid.ID {
	var id oid.ID
	id[0] = 0xA5
	id[30] = byte(n >> 8)
	id[31] = byte(n)
	return id
}

func un42(id oid.ID) int {
	if id[0] != 0xA5 {
		return -1
	}
	return int(id[30])<<8 | int(id[31])
}

type O42 struct {
	C     int               `json:"c"`
	ID    int               `json:"id"`
	T     int               `json:"t"`
	Size  uint64            `json:"sz"`
	Exp   int64             `json:"exp"`
	Assoc int               `json:"as"`
	Attrs map[string]string `json:"attrs,omitempty"`
	Mark  bool              `json:"mark,omitempty"` // MarkGarbage after the put
}

func build42(o *O42) *object.Object {
	res := object.New(mkCID(o.C), owner)
	res.SetID(id42(o.ID))
	res.SetPayloadChecksum(zeroSum)
	res.SetPayloadSize(o.Size)
	res.SetType(types[o.T])
	var attrs []object.Attribute
	if o.Exp >= 0 {
		attrs = append(attrs, object.NewAttribute(object.AttributeExpirationEpoch, strconv.FormatInt(o.Exp, 10)))
	}
	if o.Assoc > 0 {
		attrs = append(attrs, object.NewAttribute(object.AttributeAssociatedObject, id42(o.Assoc).EncodeToString()))
	}
	ks := make([]string, 0, len(o.Attrs))
	for k := range o.Attrs {
		ks = append(ks, k)
	}
	sort.Strings(ks)
	for _, k := range ks {
		attrs = append(attrs, object.NewAttribute(k, o.Attrs[k]))
	}
	res.SetAttributes(attrs...)
	return res
}

type Obs42 struct {
	OK       bool        `json:"ok"` // Init succeeded
	Exists   [][]int     `json:"exists"`
	Locked   [][]int     `json:"locked"`
	Assoc    [][]int     `json:"assoc"` // per container, per id: associated ID read back from the index (0 none, -1 undecodable)
	All      [][]int     `json:"all"`   // unfiltered select, ordered
	ByA      [][]int     `json:"bya"`   // select A == "x"
	ByTrap   [][]int     `json:"bytrap"`
	Total    [7]uint64   `json:"total"`
	Cnt      [][7]uint64 `json:"cnt"`
	Recount  [][7]uint64 `json:"recount"`
	Bad      int         `json:"bad"`      // index inconsistencies found by the dump
	HomoKeys []int       `json:"homo"`     // per container: homomorphic-hash entries left (ID->attribute index)
	B58Keys  []int       `json:"b58"`      // per container: associate values that are not 32 raw bytes
	RawKeys  []int       `json:"raw"`      // per container: associate values that are 32 raw bytes
	Version  uint64      `json:"version"`  // stored version after close
	OldKeys  int         `json:"oldkeys"`  // v9 leftovers after close: old counters, container volume bucket
}

const trapAttr = "$Object:homomorphicHashX"

type allContainers struct{}

func (allContainers) Exists(cid.ID) (bool, error) { return true, nil }

// cntCtx counts the polls of Done() and reports cancellation from the cancelAt-th poll on.
type cntCtx struct {
	context.Context
	n        *int
	cancelAt int
	closed   chan struct{}
}

func (c *cntCtx) Done() <-chan struct{} {
	*c.n++
	if c.cancelAt > 0 && *c.n >= c.cancelAt {
		return c.closed
	}
	return nil
}

func (c *cntCtx) Err() error {
	if c.cancelAt > 0 && *c.n >= c.cancelAt {
		return context.Canceled
	}
	return nil
}

func open42(path string, es *epochState, ctx context.Context) (*meta.DB, error) {
	opts := []meta.Option{
		meta.WithPath(path),
		meta.WithPermissions(0o600),
		meta.WithEpochState(es),
		meta.WithMaxBatchDelay(time.Microsecond),
		meta.WithLogger(zap.NewNop()),
		meta.WithContainers(allContainers{}),
		meta.WithBoltDBOptions(&bbolt.Options{NoSync: true, NoFreelistSync: true, Timeout: 5 * time.Second}),
	}
	if ctx != nil {
		opts = append(opts, meta.WithInitContext(ctx))
	}
	db := meta.New(opts...)
	if err := db.Open(false); err != nil {
		return db, err
	}
	return db, db.Init(common.ID{})
}

func observe42(db *meta.DB, nID int, full bool) *Obs42 {
	o := &Obs42{OK: true}
	lay := meta.VerifGetLayout()
	tot, err := db.ObjectCounters()
	must(err)
	o.Total = cnt7(tot)
	for c := 1; c <= 3; c++ {
		d, err := db.VerifDumpContainer(mkCID(c))
		must(err)
		if d.Present && !d.Consistent {
			o.Bad++
		}
		o.Bad += d.Unknown
		o.Cnt = append(o.Cnt, cnt7(d.Counters))
		rc, _, err := db.VerifRecount(mkCID(c))
		must(err)
		o.Recount = append(o.Recount, cnt7(rc))
		homo, b58, raw := 0, 0, 0
		assoc := make([]int, nID)
		for _, a := range d.Attrs {
			switch a.Key {
			case lay.HomomorphicAttr:
				homo++
			case lay.AssociateAttr:
				id := un42(a.ID)
				v := -1
				if len(a.Val) == 32 {
					raw++
					v = un42(oid.ID(a.Val))
				} else {
					b58++
				}
				if id >= 1 && id <= nID {
					assoc[id-1] = v
				}
			}
		}
		o.HomoKeys = append(o.HomoKeys, homo)
		o.B58Keys = append(o.B58Keys, b58)
		o.RawKeys = append(o.RawKeys, raw)
		o.Assoc = append(o.Assoc, assoc)
		var ex, lk []int
		for i := 1; i <= nID; i++ {
			addr := oid.NewAddress(mkCID(c), id42(i))
			ok, err := db.Exists(addr, false)
			cl := viewClass(err)
			if err == nil && !ok {
				cl = vAbsent
			}
			ex = append(ex, cl)
			if full || i <= 40 {
				l, err := db.IsLocked(addr)
				must(err)
				if l {
					lk = append(lk, 1)
				} else {
					lk = append(lk, 0)
				}
			}
		}
		o.Exists = append(o.Exists, ex)
		o.Locked = append(o.Locked, lk)
		sel := func(fs object.SearchFilters) []int {
			ids := []int{}
			addrs, err := db.Select(mkCID(c), fs)
			must(err)
			for _, a := range addrs {
				ids = append(ids, un42(a.Object()))
			}
			sort.Ints(ids)
			return ids
		}
		o.All = append(o.All, sel(nil))
		var fa object.SearchFilters
		fa.AddFilter("A", "x", object.MatchStringEqual)
		o.ByA = append(o.ByA, sel(fa))
		var ft object.SearchFilters
		ft.AddFilter(trapAttr, "v", object.MatchStringEqual)
		o.ByTrap = append(o.ByTrap, sel(ft))
	}
	return o
}

func copyFile(dst, src string) {
	in, err := os.Open(src)
	must(err)
	defer in.Close()
	out, err := os.Create(dst)
	must(err)
	_, err = io.Copy(out, in)
	must(err)
	must(out.Close())
}

func le64(v uint64) []byte {
	b := make([]byte, 8)
	binary.LittleEndian.PutUint64(b, v)
	return b
}

// downgrade rewrites a current-format database into format version ver (9 or 10).
func downgrade(path string, ver uint64, perturb bool) {
	lay := meta.VerifGetLayout()
	bdb, err := bbolt.Open(path, 0o600, &bbolt.Options{NoSync: true, NoFreelistSync: true, Timeout: 5 * time.Second})
	must(err)
	defer bdb.Close()
	must(bdb.Update(func(tx *bbolt.Tx) error {
		var names [][]byte
		must(tx.ForEach(func(name []byte, _ *bbolt.Bucket) error {
			if name[0] == lay.MetadataPrefix {
				names = append(names, bytes.Clone(name))
			}
			return nil
		}))
		p2 := append(append([]byte{lay.PrefixAttrIDPlain}, lay.AssociateAttr...), 0)
		for _, name := range names {
			b := tx.Bucket(name)
			var del, put [][]byte
			c := b.Cursor()
			for k, _ := c.First(); k != nil; k, _ = c.Next() {
				switch {
				case k[0] == 0 && len(k) == 33: // object ID: add the homomorphic hash indexes
					id := k[1:]
					h := make([]byte, 64)
					for j := range h {
						h[j] = 0x40 + (id[31]+byte(j))%50
					}
					put = append(put, bytes.Join([][]byte{{lay.PrefixAttrIDPlain}, []byte(lay.HomomorphicAttr), {0}, h, {0}, id}, nil))
					put = append(put, bytes.Join([][]byte{{lay.PrefixIDAttr}, id, []byte(lay.HomomorphicAttr), {0}, h}, nil))
				case bytes.HasPrefix(k, p2) && len(k) == len(p2)+32+1+32: // attribute->ID index of the associate attribute
					val, id := k[len(p2):len(p2)+32], k[len(k)-32:]
					del = append(del, bytes.Clone(k))
					put = append(put, bytes.Join([][]byte{p2, []byte(base58.Encode(val)), {0}, id}, nil))
				case k[0] == lay.PrefixIDAttr && len(k) > 33 && bytes.HasPrefix(k[33:], append([]byte(lay.AssociateAttr), 0)):
					id := k[1:33]
					val := k[33+len(lay.AssociateAttr)+1:]
					if len(val) == 32 {
						del = append(del, bytes.Clone(k))
						put = append(put, bytes.Join([][]byte{{lay.PrefixIDAttr}, id, []byte(lay.AssociateAttr), {0}, []byte(base58.Encode(val))}, nil))
					}
				}
			}
			for _, k := range del {
				must(b.Delete(k))
			}
			for _, k := range put {
				must(b.Put(k, nil))
			}
			if ver == 9 {
				for _, p := range lay.CounterPrefixes {
					must(b.Delete([]byte{p}))
				}
			} else if perturb { // "GC mark double counting": the garbage counter of version 10 may be too high
				// a version 10 database that came from version 9 holds all seven counters (forced resync writes
				// them all); only then does a non-forced resync leave them alone
				for _, p := range lay.CounterPrefixes {
					if len(b.Get([]byte{p})) != 8 {
						must(b.Put([]byte{p}, le64(0)))
					}
				}
				gk := []byte{lay.CounterPrefixes[5]}
				var cur uint64
				if v := b.Get(gk); len(v) == 8 {
					cur = binary.LittleEndian.Uint64(v)
				}
				must(b.Put(gk, le64(cur+3)))
			}
		}
		info, err := tx.CreateBucketIfNotExists(lay.InfoBucket)
		must(err)
		must(info.Put(lay.VersionKey, le64(ver)))
		if ver == 9 {
			must(info.Put(lay.OldPhyCounterKey, le64(7)))
			must(info.Put(lay.OldLogicCounterKey, le64(5)))
			vb, err := tx.CreateBucketIfNotExists([]byte{lay.ContainerVolumePrefix})
			must(err)
			cn := mkCID(1)
			must(vb.Put(cn[:], le64(123)))
		}
		return nil
	}))
}

// afterClose reads what only a closed database shows: stored version and v9 leftovers.
func afterClose(path string, o *Obs42) {
	lay := meta.VerifGetLayout()
	bdb, err := bbolt.Open(path, 0o600, &bbolt.Options{ReadOnly: true, Timeout: 5 * time.Second})
	must(err)
	defer bdb.Close()
	must(bdb.View(func(tx *bbolt.Tx) error {
		if info := tx.Bucket(lay.InfoBucket); info != nil {
			if v := info.Get(lay.VersionKey); len(v) == 8 {
				o.Version = binary.LittleEndian.Uint64(v)
			}
			if info.Get(lay.OldPhyCounterKey) != nil {
				o.OldKeys++
			}
			if info.Get(lay.OldLogicCounterKey) != nil {
				o.OldKeys++
			}
		}
		if tx.Bucket([]byte{lay.ContainerVolumePrefix}) != nil {
			o.OldKeys++
		}
		return nil
	}))
}

// rawCounts scans a closed database: per container homomorphic / base58 / raw associate entries.
func rawCounts(path string) (homo, b58, raw [3]int) {
	lay := meta.VerifGetLayout()
	bdb, err := bbolt.Open(path, 0o600, &bbolt.Options{ReadOnly: true, Timeout: 5 * time.Second})
	must(err)
	defer bdb.Close()
	ph := append([]byte{lay.PrefixAttrIDPlain}, lay.HomomorphicAttr...)
	pa := append(append([]byte{lay.PrefixAttrIDPlain}, lay.AssociateAttr...), 0)
	must(bdb.View(func(tx *bbolt.Tx) error {
		for c := 1; c <= 3; c++ {
			cn := mkCID(c)
			b := tx.Bucket(append([]byte{lay.MetadataPrefix}, cn[:]...))
			if b == nil {
				continue
			}
			cur := b.Cursor()
			for k, _ := cur.First(); k != nil; k, _ = cur.Next() {
				switch {
				case bytes.HasPrefix(k, append(bytes.Clone(ph), 0)):
					homo[c-1]++
				case bytes.HasPrefix(k, pa):
					if len(k) == len(pa)+32+1+32 {
						raw[c-1]++
					} else {
						b58[c-1]++
					}
				}
			}
		}
		return nil
	}))
	return
}

type Step42 struct {
	K       int    `json:"k"`     // the init context reports cancellation at the k-th poll
	Err1    bool   `json:"err1"`  // the interrupted Init failed
	Homo    [3]int `json:"homo"`  // entries left after the interrupted Init
	B58     [3]int `json:"b58"`
	Raw     [3]int `json:"raw"`
	Version uint64 `json:"version"` // version stored after the interrupted Init
	Obs     *Obs42 `json:"obs"`     // after the second, undisturbed Init
}

type Case42 struct {
	I        int      `json:"i"`
	Ver      uint64   `json:"ver"`
	Perturb  bool     `json:"perturb"`
	NID      int      `json:"nid"`
	Objs     []*O42   `json:"objs,omitempty"`
	NObjs    int      `json:"nobjs"`
	PutErrs  int      `json:"puterrs"`
	Before   *Obs42   `json:"before"`
	Homo0    [3]int   `json:"homo0"` // entries in the downgraded database
	B580     [3]int   `json:"b580"`
	After    *Obs42   `json:"after"`
	Polls    int      `json:"polls"`
	Resumed  []Step42 `json:"resumed"`
}

func gen42(r *rng, big int) ([]*O42, int) {
	var objs []*O42
	if big > 0 {
		nreg := []int{400, 300}
		nas := []int{big * 13 / 22, big * 9 / 22}
		id := 0
		for ci := 0; ci < 2; ci++ {
			base := id
			for k := 0; k < nreg[ci]; k++ {
				id++
				objs = append(objs, &O42{C: ci + 1, ID: id, T: 0, Size: 1, Exp: -1})
			}
			for k := 0; k < nas[ci]; k++ {
				id++
				o := &O42{C: ci + 1, ID: id, Exp: -1}
				if k%2 == 0 {
					o.T, o.Assoc = 2, base+1+k%(nreg[ci]/2)
				} else {
					o.T, o.Assoc = 1, base+nreg[ci]/2+1+k%(nreg[ci]/2)
				}
				objs = append(objs, o)
			}
		}
		return objs, id
	}
	n := 3 + r.n(12)
	nID := 16
	used := map[[2]int]bool{}
	var regs [4][]int
	for len(objs) < n {
		c := 1 + r.n(3)
		if r.p(50) {
			c = 1
		}
		id := 1 + r.n(nID)
		if used[[2]int{c, id}] {
			continue
		}
		o := &O42{C: c, ID: id, Exp: -1}
		k := r.n(100)
		switch {
		case k < 50 || len(regs[c]) == 0:
			o.T, o.Size = 0, sizeOf(r)
			o.Attrs = map[string]string{}
			if r.p(60) {
				o.Attrs["A"] = []string{"x", "y"}[r.n(2)]
			}
			if r.p(40) {
				o.Attrs["N"] = strconv.Itoa(r.n(30))
			}
			if r.p(25) {
				o.Attrs[trapAttr] = "v"
			}
			if r.p(20) {
				o.Exp = int64(r.n(10))
			}
			if r.p(12) {
				o.Mark = true
			}
		case k < 75:
			o.T = 2
			o.Assoc = regs[c][r.n(len(regs[c]))]
			if r.p(50) {
				o.Exp = int64(r.n(10))
			}
		default:
			o.T = 1
			o.Assoc = regs[c][r.n(len(regs[c]))]
		}
		used[[2]int{c, id}] = true
		objs = append(objs, o)
		if o.T == 0 {
			regs[c] = append(regs[c], id)
		}
	}
	return objs, nID
}

func runCase42(i int, seed uint64, big int) *Case42 {
	r := caseRng(seed, 42, i)
	cs := &Case42{I: i, Ver: 10}
	if r.p(35) {
		cs.Ver = 9
	}
	cs.Perturb = cs.Ver == 10 && r.p(40)
	objs, nID := gen42(r, big)
	cs.NID, cs.NObjs = nID, len(objs)
	if big == 0 {
		cs.Objs = objs
	}
	dir, err := os.MkdirTemp(tmpBase(), "verif-c42-")
	must(err)
	defer os.RemoveAll(dir)
	es := &epochState{}
	es.e.Store(c42Epoch)
	cur := filepath.Join(dir, "cur.db")
	db, err := open42(cur, es, nil)
	must(err)
	if big > 0 {
		for off := 0; off < len(objs); off += 500 {
			var batch []*object.Object
			for _, o := range objs[off:min(off+500, len(objs))] {
				batch = append(batch, build42(o))
			}
			if err := db.PutBatch(batch); err != nil {
				cs.PutErrs++
			}
		}
	} else {
		for _, o := range objs {
			if err := db.Put(build42(o)); err != nil {
				cs.PutErrs++
				continue
			}
			if o.Mark {
				_, err := db.MarkGarbage(mkCID(o.C), []oid.ID{id42(o.ID)}, meta.GarbageMarkDefault)
				must(err)
			}
		}
	}
	full := big == 0
	cs.Before = observe42(db, nID, full)
	must(db.Close())
	afterClose(cur, cs.Before)

	old := filepath.Join(dir, "old.db")
	copyFile(old, cur)
	downgrade(old, cs.Ver, cs.Perturb)
	cs.Homo0, cs.B580, _ = rawCounts(old)

	// undisturbed upgrade, counting the polls of the init context
	up := filepath.Join(dir, "up.db")
	copyFile(up, old)
	polls := 0
	db, err = open42(up, es, &cntCtx{Context: context.Background(), n: &polls, closed: make(chan struct{})})
	if err == nil {
		cs.After = observe42(db, nID, full)
	} else {
		cs.After = &Obs42{}
	}
	must(db.Close())
	afterClose(up, cs.After)
	cs.Polls = polls

	closed := make(chan struct{})
	close(closed)
	for k := 1; k <= polls && k <= 14; k++ {
		p := filepath.Join(dir, "int"+strconv.Itoa(k)+".db")
		copyFile(p, old)
		n := 0
		db, err := open42(p, es, &cntCtx{Context: context.Background(), n: &n, cancelAt: k, closed: closed})
		st := Step42{K: k, Err1: err != nil}
		_ = db.Close()
		st.Homo, st.B58, st.Raw = rawCounts(p)
		tmp := &Obs42{}
		afterClose(p, tmp)
		st.Version = tmp.Version
		db, err = open42(p, es, nil)
		if err == nil {
			st.Obs = observe42(db, nID, full)
		} else {
			st.Obs = &Obs42{}
		}
		must(db.Close())
		afterClose(p, st.Obs)
		cs.Resumed = append(cs.Resumed, st)
		_ = os.Remove(p)
	}
	return cs
}

func c42Main(n, big int) {
	seed := seedEnv()
	w := bufio.NewWriterSize(os.Stdout, 1<<20)
	enc := json.NewEncoder(w)
	for i := 0; i < n; i++ {
		must(enc.Encode(runCase42(i, seed, 0)))
	}
	if big > 0 {
		must(enc.Encode(runCase42(1000, seed, big)))
	}
	must(w.Flush())
}

func c42Replay() {}
