//go:build verif

package main

func c42Main(n, big int) {}
func c42Replay()         {}
