//go:build verif

package main

import (
	"bufio"
	"bytes"
	"encoding/json"
	"fmt"
	"os"
	"path/filepath"
	"sort"
	"sync"
	"time"

	"github.com/nspcc-dev/bbolt"
	"github.com/nspcc-dev/neofs-node/pkg/local_object_storage/blobstor/common"
	"github.com/nspcc-dev/neofs-node/pkg/local_object_storage/blobstor/fstree"
	meta "github.com/nspcc-dev/neofs-node/pkg/local_object_storage/metabase"
	"github.com/nspcc-dev/neofs-node/pkg/local_object_storage/shard"
	cid "github.com/nspcc-dev/neofs-sdk-go/container/id"
	oid "github.com/nspcc-dev/neofs-sdk-go/object/id"
	"go.uber.org/zap"
)

// permStorage enumerates the blobs of the wrapped storage in a given order.
type permStorage struct {
	common.Storage
	order []oid.Address
}

func (p *permStorage) Iterate(h func(oid.Address, []byte) error, eh func(oid.Address, error) error) error {
	m := map[oid.Address][]byte{}
	var seen []oid.Address
	err := p.Storage.Iterate(func(a oid.Address, d []byte) error {
		m[a] = bytes.Clone(d)
		seen = append(seen, a)
		return nil
	}, eh)
	if err != nil {
		return err
	}
	for _, a := range p.order {
		if d, ok := m[a]; ok {
			delete(m, a)
			if err := h(a, d); err != nil {
				return err
			}
		}
	}
	for _, a := range seen { // blobs the order does not name (never in generated cases): directory order
		if d, ok := m[a]; ok {
			if err := h(a, d); err != nil {
				return err
			}
		}
	}
	return nil
}

type PermRes struct {
	Ord     []int    `json:"ord"`
	OK      bool     `json:"ok"`
	Cnrs    []DCnr   `json:"cnrs"`
	Exists  [][]int  `json:"exists"`  // at the query epoch
	ExistsI [][]int  `json:"existsi"` // ignoreExpiration
	Locked  [][]int  `json:"locked"`
	Garbage [][]int  `json:"garbage"` // GetGarbage(10000): bins [cnr, ids...]
	All     []int    `json:"all"`     // Exists at the query epoch for the address of every blob, in blob-list order
	Remain  [][2]int `json:"remain,omitempty"`
	IterErrs int     `json:"itererrs"`
	GCRun   bool     `json:"gcrun,omitempty"` // Remain = blobs left after the shard's GC passes
}

type HOp struct {
	K  string `json:"k"` // put | epoch
	O  *Obj   `json:"o,omitempty"`
	E  uint64 `json:"e,omitempty"`
	OK bool   `json:"ok,omitempty"`
}

type C18Case struct {
	I       int       `json:"i"`
	Profile string    `json:"profile"`
	E       uint64    `json:"e"` // epoch during the rebuild
	Q       uint64    `json:"q"` // epoch of the queries afterwards
	Blobs   []*Obj    `json:"blobs"`
	Hist    []HOp     `json:"hist,omitempty"`
	Perms   []PermRes `json:"perms"`
}

type noPayments struct{}

func (noPayments) UnpaidSince(cid.ID) (int64, error) { return -1, nil }
func (noPayments) PaymentsDisabled() bool            { return true }

type env18 struct {
	dir string
	fst *fstree.FSTree
	sh  *shard.Shard
	mb  *meta.DB
	es  *epochState
}

func openEnv18() *env18 {
	dir, err := os.MkdirTemp(tmpBase(), "verif-resync-")
	must(err)
	e := &env18{dir: dir, es: &epochState{}}
	e.fst = fstree.New(fstree.WithPath(filepath.Join(dir, "blob")), fstree.WithDepth(1), fstree.WithNoSync(true))
	e.sh = shard.New(
		shard.WithLogger(zap.NewNop()),
		shard.WithBlobstor(e.fst),
		shard.WithMetaBaseOptions(
			meta.WithPath(filepath.Join(dir, "meta")),
			meta.WithPermissions(0o600),
			meta.WithEpochState(e.es),
			meta.WithLogger(zap.NewNop()),
			meta.WithMaxBatchDelay(time.Microsecond),
			meta.WithBoltDBOptions(&bbolt.Options{NoSync: true, NoFreelistSync: true, Timeout: 5 * time.Second}),
		),
		shard.WithWriteCache(false),
		shard.WithGCRemoverSleepInterval(24*time.Hour), // GC passes are driven through the hook
		shard.WithContainerPayments(noPayments{}),
	)
	must(e.sh.Open())
	must(e.sh.Init())
	e.mb = shard.VerifCrashMetabase(e.sh)
	return e
}

func (e *env18) close() {
	_ = e.sh.Close()
	_ = os.RemoveAll(e.dir)
}

func addrOf(o *Obj) oid.Address { return oid.NewAddress(mkCID(o.C), mkOID(o.ID)) }

func (e *env18) putBlobs(blobs []*Obj) {
	if len(blobs) > 64 {
		// large sets through fstree.PutBatch: a single Put waits for the combined-write timer
		batch := map[oid.Address][]byte{}
		flush := func() {
			if len(batch) > 0 {
				must(e.fst.PutBatch(batch))
				batch = map[oid.Address][]byte{}
			}
		}
		for _, o := range blobs {
			ok, err := e.fst.Exists(addrOf(o))
			must(err)
			if !ok {
				batch[addrOf(o)] = build(o).Marshal()
			}
			if len(batch) == 100 {
				flush()
			}
		}
		flush()
		return
	}
	for _, o := range blobs {
		ok, err := e.fst.Exists(addrOf(o))
		must(err)
		if !ok {
			must(e.fst.Put(addrOf(o), build(o).Marshal()))
		}
	}
}

func (e *env18) remaining() [][2]int {
	res := [][2]int{}
	must(e.fst.IterateAddresses(func(a oid.Address) error {
		res = append(res, [2]int{unCID(a.Container()), unOID(a.Object())})
		return nil
	}, false))
	sort.Slice(res, func(i, j int) bool {
		if res[i][0] != res[j][0] {
			return res[i][0] < res[j][0]
		}
		return res[i][1] < res[j][1]
	})
	return res
}

func (e *env18) observeAll(pr *PermRes, blobs []*Obj) {
	pr.All = make([]int, 0, len(blobs))
	for _, o := range blobs {
		ok, err := e.mb.Exists(addrOf(o), false)
		cl := viewClass(err)
		if err == nil && !ok {
			cl = vAbsent
		}
		pr.All = append(pr.All, cl)
	}
}

func (e *env18) observe(pr *PermRes) {
	for c := 1; c <= nCnr; c++ {
		pr.Cnrs = append(pr.Cnrs, dumpCnr(e.mb, c))
		var ex, exi, lk []int
		for i := 1; i <= nOID; i++ {
			addr := oid.NewAddress(mkCID(c), mkOID(i))
			ok, err := e.mb.Exists(addr, false)
			cl := viewClass(err)
			if err == nil && !ok {
				cl = vAbsent
			}
			ex = append(ex, cl)
			ok, err = e.mb.Exists(addr, true)
			cl = viewClass(err)
			if err == nil && !ok {
				cl = vAbsent
			}
			exi = append(exi, cl)
			l, err := e.mb.IsLocked(addr)
			must(err)
			if l {
				lk = append(lk, 1)
			} else {
				lk = append(lk, 0)
			}
		}
		pr.Exists = append(pr.Exists, ex)
		pr.ExistsI = append(pr.ExistsI, exi)
		pr.Locked = append(pr.Locked, lk)
	}
	bins, err := e.mb.GetGarbage(10000)
	must(err)
	pr.Garbage = [][]int{}
	for _, b := range bins {
		x := []int{unCID(b.Container)}
		for _, id := range b.Objects {
			x = append(x, unOID(id))
		}
		pr.Garbage = append(pr.Garbage, x)
	}
}

func (e *env18) runPerm(c *C18Case, ord []int, gc bool) PermRes {
	pr := PermRes{Ord: ord}
	order := make([]oid.Address, len(ord))
	for k, ix := range ord {
		order[k] = addrOf(c.Blobs[ix])
	}
	e.es.e.Store(c.E)
	iterErrs := 0
	err := e.mb.ResyncFromBlobstor(&permStorage{Storage: e.fst, order: order}, func(a oid.Address, err error) error {
		iterErrs++
		if os.Getenv("VERIF_DEBUG") != "" {
			fmt.Fprintln(os.Stderr, "iteration error:", a, err)
		}
		return nil
	})
	if err != nil && os.Getenv("VERIF_DEBUG") != "" {
		fmt.Fprintln(os.Stderr, "resync error:", err)
	}
	pr.OK = err == nil
	pr.IterErrs = iterErrs
	e.es.e.Store(c.Q)
	e.observe(&pr)
	e.observeAll(&pr, c.Blobs)
	if gc {
		for k := 0; k < 8; k++ {
			e.sh.VerifRemoveGarbage()
			bins, err := e.mb.GetGarbage(10)
			must(err)
			if len(bins) == 0 {
				break
			}
		}
		pr.Remain = e.remaining()
		pr.GCRun = true
		e.putBlobs(c.Blobs)
	}
	return pr
}

func allPerms(n int) [][]int {
	var res [][]int
	cur := make([]int, 0, n)
	used := make([]bool, n)
	var rec func()
	rec = func() {
		if len(cur) == n {
			res = append(res, append([]int(nil), cur...))
			return
		}
		for i := 0; i < n; i++ {
			if !used[i] {
				used[i] = true
				cur = append(cur, i)
				rec()
				cur = cur[:len(cur)-1]
				used[i] = false
			}
		}
	}
	rec()
	return res
}

func somePerms(r *rng, n, k int) [][]int {
	id := make([]int, n)
	rev := make([]int, n)
	for i := range id {
		id[i] = i
		rev[i] = n - 1 - i
	}
	res := [][]int{id, rev}
	for j := 0; j < k; j++ {
		p := append([]int(nil), id...)
		for i := n - 1; i > 0; i-- {
			x := r.n(i + 1)
			p[i], p[x] = p[x], p[i]
		}
		res = append(res, p)
	}
	return res
}

// largePerms: the blob list as generated, reversed, and nRot rotations (compact forms the driver
// writes as Coq expressions instead of literals).  The first rotations bring the group members that
// neither the list order nor the reversed order reads as the (B+1)-th blob to that position.
func largePerms(r *rng, c *C18Case, nRot int) [][]int {
	n := len(c.Blobs)
	B := meta.VerifResyncConsts()["resync_batch_size"]
	id := make([]int, n)
	rev := make([]int, n)
	for i := range id {
		id[i] = i
		rev[i] = n - 1 - i
	}
	res := [][]int{id, rev}
	for j := 0; j < nRot; j++ {
		k := 0
		if j < 3 && n > B {
			want := 1 + (c.I+[]int{1, 2, 4}[j])%5
			for ix, o := range c.Blobs {
				if o.C == 1 && o.ID == want {
					k = ((ix-B)%n + n) % n // position of blob ix in the rotation by k is ix-k (mod n)
				}
			}
		}
		if k == 0 {
			k = 1 + r.n(n-1)
		}
		p := make([]int, 0, n)
		p = append(p, id[k:]...)
		p = append(p, id[:k]...)
		res = append(res, p)
	}
	return res
}

func runCase18(c *C18Case, perms [][]int, gcPerms map[int]bool) {
	e := openEnv18()
	defer e.close()
	e.putBlobs(c.Blobs)
	for k, p := range perms {
		c.Perms = append(c.Perms, e.runPerm(c, p, gcPerms[k]))
	}
}

// ---------------------------------------------------------------- generators

func expOf(r *rng) int64 {
	if r.p(50) {
		return -1
	}
	return int64(r.n(10))
}

func sizeOf(r *rng) uint64 {
	switch r.n(8) {
	case 0:
		return 0
	default:
		return uint64(1 + r.n(9))
	}
}

// flat: regular / tombstone / lock / link objects without family relations.
// mode 0 repairs the blob set so that the premise of C18_order_independent holds,
// mode 1 leaves it as drawn, mode 2 forces a lock and a tombstone on one target.
func genFlat(r *rng, maxN int) []*Obj {
	n := 1 + r.n(maxN)
	mode := r.n(3)
	var blobs []*Obj
	used := map[[2]int]bool{}
	for len(blobs) < n {
		c := 1
		if r.p(20) {
			c = 2
		}
		id := 1 + r.n(8)
		if used[[2]int{c, id}] {
			continue
		}
		used[[2]int{c, id}] = true
		o := &Obj{C: c, ID: id, Exp: expOf(r), ECR: -1, ECI: -1}
		switch k := r.n(100); {
		case k < 42:
			o.T, o.Size = 0, sizeOf(r)
		case k < 66:
			o.T = 1
		case k < 92:
			o.T = 2
		default:
			o.T, o.Size = 3, sizeOf(r)
		}
		blobs = append(blobs, o)
	}
	// targets: mostly regular blobs of the same container, sometimes IDs without a blob
	for _, o := range blobs {
		if o.T != 1 && o.T != 2 {
			continue
		}
		var cands []int
		for _, x := range blobs {
			if x.C == o.C && x.ID != o.ID && (x.T == 0 || (mode == 1 && r.p(15))) {
				cands = append(cands, x.ID)
			}
		}
		if len(cands) > 0 && r.p(80) {
			o.Assoc = cands[r.n(len(cands))]
		} else {
			o.Assoc = 1 + r.n(10)
			if o.Assoc == o.ID {
				o.Assoc = 1 + o.ID%10
			}
			if mode != 1 {
				for _, x := range blobs { // keep the target a non-blob
					if x.C == o.C && x.ID == o.Assoc {
						o.Assoc = 9 + r.n(2)
					}
				}
			}
		}
	}
	type key [2]int
	switch mode {
	case 0:
		tomb := map[key]bool{}
		for _, o := range blobs {
			if o.T == 1 {
				tomb[key{o.C, o.Assoc}] = true
			}
		}
		for _, o := range blobs {
			if o.T == 2 && tomb[key{o.C, o.Assoc}] { // a lock of a tombstoned target becomes a tombstone too
				o.T = 1
			}
			if tomb[key{o.C, o.ID}] && r.p(70) {
				o.Exp = -1
			}
		}
	case 2:
		var regs []*Obj
		for _, o := range blobs {
			if o.T == 0 {
				regs = append(regs, o)
			}
		}
		var lk, ts *Obj
		for _, o := range blobs {
			if o.T == 2 && lk == nil {
				lk = o
			}
			if o.T == 1 && ts == nil {
				ts = o
			}
		}
		if lk != nil && ts != nil && lk.C == ts.C {
			if len(regs) > 0 && regs[0].C == lk.C {
				lk.Assoc, ts.Assoc = regs[0].ID, regs[0].ID
			} else {
				ts.Assoc = lk.Assoc
			}
		}
	}
	return blobs
}

// hist: the blob set is what a normal operation history leaves behind: every
// object the real metabase accepted (Put) while the epoch advances.  Locks carry
// expirations, so tombstones of formerly locked objects are accepted later on.
func genHist(r *rng, maxN int) ([]*Obj, []HOp, uint64) {
	dir, err := os.MkdirTemp(tmpBase(), "verif-resync-h-")
	must(err)
	defer os.RemoveAll(dir)
	es := &epochState{}
	db := meta.New(
		meta.WithPath(filepath.Join(dir, "meta.db")),
		meta.WithPermissions(0o600),
		meta.WithEpochState(es),
		meta.WithMaxBatchDelay(time.Microsecond),
		meta.WithLogger(zap.NewNop()),
		meta.WithBoltDBOptions(&bbolt.Options{NoSync: true, NoFreelistSync: true, Timeout: time.Second}),
	)
	must(db.Open(false))
	must(db.Init(common.ID{}))
	defer db.Close()
	epoch := uint64(1)
	es.e.Store(epoch)
	var blobs []*Obj
	var hist []HOp
	used := map[int]bool{}
	var regs []int
	n := 2 + r.n(maxN)
	for step := 0; step < 4*n && len(blobs) < n; step++ {
		if r.p(30) {
			epoch += uint64(1 + r.n(2))
			es.e.Store(epoch)
			hist = append(hist, HOp{K: "epoch", E: epoch})
			continue
		}
		id := 1 + r.n(8)
		if used[id] {
			continue
		}
		o := &Obj{C: 1, ID: id, Exp: -1, ECR: -1, ECI: -1}
		k := r.n(100)
		switch {
		case k < 40 || len(regs) == 0:
			o.T, o.Size = 0, sizeOf(r)
			if r.p(30) {
				o.Exp = int64(epoch) + int64(r.n(4))
			}
		case k < 70:
			o.T = 2
			o.Assoc = regs[r.n(len(regs))]
			o.Exp = int64(epoch) + int64(r.n(2))
		default:
			o.T = 1
			o.Assoc = regs[r.n(len(regs))]
			if r.p(50) {
				o.Exp = int64(epoch) + 3
			}
		}
		err := db.Put(build(o))
		hist = append(hist, HOp{K: "put", O: o, OK: err == nil})
		if err == nil {
			used[id] = true
			blobs = append(blobs, o)
			if o.T == 0 {
				regs = append(regs, id)
			}
		}
	}
	if r.p(60) {
		epoch += uint64(r.n(3))
	}
	return blobs, hist, epoch
}

// full: split chains (children carrying the parent header, link object),
// EC parts, tombstones and locks of parents and children.
func genFull(r *rng, maxN int) []*Obj {
	c := 1
	par := &Obj{C: c, ID: 1, T: 0, Size: uint64(10 + r.n(5)), Exp: -1, ECR: -1, ECI: -1}
	if r.p(20) {
		par.Exp = int64(r.n(10))
	}
	var pool []*Obj
	ec := r.p(25)
	for id := 3; id <= 5; id++ {
		o := &Obj{C: c, ID: id, T: 0, Size: sizeOf(r), Exp: par.Exp, ECR: -1, ECI: -1}
		if ec {
			o.ECR, o.ECI = 0, id-3
			o.Par = par
		} else {
			if id > 3 {
				o.First = 3
			}
			if id == 5 || r.p(50) {
				if r.p(85) {
					o.Par = par
				} else {
					o.ParID = 1
				}
			}
		}
		pool = append(pool, o)
	}
	if !ec {
		pool = append(pool, &Obj{C: c, ID: 6, T: 3, Size: sizeOf(r), Exp: -1, First: 3, Par: par, ECR: -1, ECI: -1})
	}
	pool = append(pool, &Obj{C: c, ID: 7, T: 0, Size: sizeOf(r), Exp: expOf(r), ECR: -1, ECI: -1})
	tgt := 1
	if r.p(30) {
		tgt = 3 + r.n(5)
	}
	pool = append(pool, &Obj{C: c, ID: 8, T: 1, Exp: expOf(r), Assoc: tgt, ECR: -1, ECI: -1})
	if r.p(35) {
		lt := []int{1, 3, 7}[r.n(3)]
		pool = append(pool, &Obj{C: c, ID: 9, T: 2, Exp: expOf(r), Assoc: lt, ECR: -1, ECI: -1})
	}
	if r.p(25) {
		pool = append(pool, &Obj{C: c, ID: 2, T: 0, Size: par.Size, Exp: par.Exp, ECR: -1, ECI: -1}) // unrelated
	}
	for _, o := range pool { // a child carrying the parent's header names the parent's ID as well
		if o.Par != nil {
			o.ParID = o.Par.ID
		}
	}
	// random subset, the tombstone preferably kept
	n := 2 + r.n(maxN-1)
	for len(pool) > n {
		k := r.n(len(pool))
		if pool[k].T == 1 && r.p(80) {
			continue
		}
		pool = append(pool[:k], pool[k+1:]...)
	}
	return pool
}

// large: more blobs than one batch of the rebuild (the batch size is read from the compiled code):
// B+k blobs, k small; tiny regular fillers (a few tombstones / locks of fillers, never both on one
// target) and a group X, T(X), Y, L(Y), Z(expiring) whose members sit at and around the batch
// boundary of the enumeration (0-based positions B-2 .. B+1, last, and k-2 .. k = the boundary of
// the reversed order).  The set satisfies the premises of the theorems, so the order-free reference applies.
func genLarge(r *rng, i int) []*Obj {
	B := meta.VerifResyncConsts()["resync_batch_size"]
	k := []int{1, 2, 3, 5}[i%4]
	if i >= 4 {
		k = 1 + r.n(9)
	}
	n := B + k
	group := []*Obj{
		{C: 1, ID: 1, T: 0, Size: 3, Exp: -1, ECR: -1, ECI: -1},           // X
		{C: 1, ID: 2, T: 1, Exp: -1, Assoc: 1, ECR: -1, ECI: -1},          // T(X)
		{C: 1, ID: 3, T: 0, Size: 2, Exp: -1, ECR: -1, ECI: -1},           // Y
		{C: 1, ID: 4, T: 2, Exp: 9, Assoc: 3, ECR: -1, ECI: -1},           // L(Y), live at the query epoch
		{C: 1, ID: 5, T: 0, Size: 1, Exp: int64(2 + 7*r.n(2)), ECR: -1, ECI: -1}, // Z, expired or not at q = 5
	}
	if n < len(group)+4 {
		n = len(group) + 4
	}
	pos := map[int]*Obj{}
	place := func(o *Obj, p int) bool {
		if p < 0 || p >= n || pos[p] != nil {
			return false
		}
		pos[p] = o
		return true
	}
	cands := []int{B - 2, B - 1, B, B + 1, n - 1, k - 2, k - 1, k, 0, n - 1 - B}
	first := group[i%len(group)]  // exactly the (B+1)-th blob read in list order
	second := group[(i+3)%len(group)] // exactly the (B+1)-th blob read in reversed order
	placed := map[*Obj]bool{}
	if place(first, B) {
		placed[first] = true
	}
	if place(second, n-1-B) {
		placed[second] = true
	}
	for _, o := range group {
		for tries := 0; !placed[o]; tries++ {
			p := cands[r.n(len(cands))]
			if tries > 20 {
				p = r.n(n)
			}
			if place(o, p) {
				placed[o] = true
			}
		}
	}
	var blobs []*Obj
	var tombable, lockable []int // regular fillers of container 1
	nextID := 21
	for p := 0; p < n; p++ {
		if o := pos[p]; o != nil {
			blobs = append(blobs, o)
			continue
		}
		o := &Obj{C: 1, ID: nextID, T: 0, Size: uint64(r.n(2)), Exp: -1, ECR: -1, ECI: -1}
		nextID++
		switch {
		case r.p(2) && len(tombable) > 0:
			o.T, o.Size = 1, 0
			x := r.n(len(tombable))
			o.Assoc = tombable[x]
			tombable = append(tombable[:x], tombable[x+1:]...)
		case r.p(2) && len(lockable) > 0:
			o.T, o.Size = 2, 0
			o.Assoc = lockable[r.n(len(lockable))]
		case r.p(5):
			o.C = 2
		default:
			if o.ID%3 == 0 {
				tombable = append(tombable, o.ID)
			} else if o.ID%3 == 1 {
				lockable = append(lockable, o.ID)
			}
		}
		blobs = append(blobs, o)
	}
	return blobs
}

func genCase18(seed uint64, profile string, i int, maxN int) *C18Case {
	streams := map[string]uint64{"flat": 1, "hist": 2, "full": 3, "big": 4, "corpus": 5, "large": 6}
	r := caseRng(seed, streams[profile], i)
	c := &C18Case{I: i, Profile: profile}
	switch profile {
	case "flat":
		c.Blobs = genFlat(r, maxN)
		c.Q = uint64(2 + r.n(8))
	case "hist":
		c.Blobs, c.Hist, c.Q = genHist(r, maxN)
	case "full":
		c.Blobs = genFull(r, maxN)
		c.Q = uint64(2 + r.n(8))
	case "corpus": // the minimal inputs of the known order-dependent classes, replayed first on every run
		X := &Obj{C: 1, ID: 1, T: 0, Size: 3, Exp: -1, ECR: -1, ECI: -1}
		L := &Obj{C: 1, ID: 2, T: 2, Exp: 2, Assoc: 1, ECR: -1, ECI: -1}
		T := &Obj{C: 1, ID: 3, T: 1, Exp: -1, Assoc: 1, ECR: -1, ECI: -1}
		c.Q = 5
		switch i % 5 {
		case 0, 1: // expired lock + tombstone (rebuilt at epoch 0 / at the real epoch, fixed below)
			c.Blobs = []*Obj{X, L, T}
		case 2: // tombstoned and expired
			c.Blobs = []*Obj{{C: 1, ID: 1, T: 0, Size: 3, Exp: 2, ECR: -1, ECI: -1}, T}
		case 3: // child with the parent's header and the parent's tombstone
			par := &Obj{C: 1, ID: 1, T: 0, Size: 10, Exp: -1, ECR: -1, ECI: -1}
			c.Blobs = []*Obj{{C: 1, ID: 4, T: 0, Size: 5, Exp: -1, ParID: 1, First: 3, Par: par, ECR: -1, ECI: -1}, {C: 1, ID: 8, T: 1, Exp: -1, Assoc: 1, ECR: -1, ECI: -1}}
		case 4: // tombstone before / after its plain target, a lock elsewhere: must be order-independent
			c.Blobs = []*Obj{X, T, {C: 1, ID: 5, T: 0, Size: 1, Exp: -1, ECR: -1, ECI: -1}, {C: 1, ID: 6, T: 2, Exp: 9, Assoc: 5, ECR: -1, ECI: -1}}
		}
		c.E = c.Q
		if i%5 == 0 || i%5 == 3 {
			c.E = 0
		}
		return c
	case "large":
		c.Blobs = genLarge(r, i)
		c.Q = 5
	case "big": // more blobs than one resync batch: regular objects, a few tombstones and locks
		n := maxN
		for id := 1; id <= n; id++ {
			o := &Obj{C: 1, ID: id, T: 0, Size: 1, Exp: -1, ECR: -1, ECI: -1}
			if id > 10 && id%97 == 0 {
				o.T, o.Size, o.Assoc = 1, 0, 1+r.n(10)
			} else if id > 10 && id%89 == 0 {
				o.T, o.Size, o.Assoc = 2, 0, 11+r.n(10)
			}
			c.Blobs = append(c.Blobs, o)
		}
		c.Q = 5
	}
	// the production caller rebuilds at epoch 0; the other half at the real epoch
	if r.p(50) {
		c.E = 0
	} else {
		c.E = c.Q
	}
	return c
}

func c18Run(cases []*C18Case, seed uint64, maxAll, nRand int, fixedPerms [][][]int) {
	var wg sync.WaitGroup
	sem := make(chan struct{}, 8)
	for k := range cases {
		wg.Add(1)
		sem <- struct{}{}
		go func(k int) {
			defer wg.Done()
			defer func() { <-sem }()
			c := cases[k]
			var perms [][]int
			if fixedPerms != nil {
				perms = fixedPerms[k]
			} else if c.Profile == "large" {
				perms = largePerms(caseRng(seed, 98, c.I), c, nRand)
			} else if len(c.Blobs) <= maxAll {
				perms = allPerms(len(c.Blobs))
			} else {
				perms = somePerms(caseRng(seed, 99, c.I), len(c.Blobs), nRand)
			}
			gc := map[int]bool{0: true, len(perms) - 1: true}
			if len(perms) > 4 {
				gc[len(perms)/3] = true
				gc[2*len(perms)/3] = true
			}
			if c.Profile == "big" || len(c.Blobs) > 64 {
				gc = map[int]bool{}
			}
			runCase18(c, perms, gc)
		}(k)
	}
	wg.Wait()
	w := bufio.NewWriterSize(os.Stdout, 1<<20)
	enc := json.NewEncoder(w)
	for _, c := range cases {
		must(enc.Encode(c))
	}
	must(w.Flush())
}

func c18Main(profile string, n, maxAll, nRand int) {
	seed := seedEnv()
	maxN := 6
	if profile == "big" {
		maxN = maxAll // number of blobs
		maxAll = 0
	}
	var cases []*C18Case
	for i := 0; i < n; i++ {
		sz := maxN
		if profile != "big" && i%4 == 3 {
			sz = 9 // above the all-permutations bound: random orders
		}
		cases = append(cases, genCase18(seed, profile, i, sz))
	}
	c18Run(cases, seed, maxAll, nRand, nil)
}

// c18replay: stdin = JSON lines {"e":..,"q":..,"blobs":[..],"perms":[[..],..]}
func c18Replay() {
	type in struct {
		E     uint64  `json:"e"`
		Q     uint64  `json:"q"`
		Blobs []*Obj  `json:"blobs"`
		Perms [][]int `json:"perms"`
	}
	var cases []*C18Case
	var perms [][][]int
	dec := json.NewDecoder(bufio.NewReaderSize(os.Stdin, 1<<20))
	for dec.More() {
		var x in
		must(dec.Decode(&x))
		cases = append(cases, &C18Case{I: len(cases), Profile: "replay", E: x.E, Q: x.Q, Blobs: x.Blobs})
		perms = append(perms, x.Perms)
	}
	c18Run(cases, 0, 0, 0, perms)
}
