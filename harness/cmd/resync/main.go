//go:build verif

// Differential harness for C18 (rebuilding the metabase from blobs in any
// enumeration order) and C42 (upgrade of older metabase formats).
//
// Real components only: a real fstree holds the blobs, a permuting wrapper of
// common.Storage decides the enumeration order, meta.DB.ResyncFromBlobstor of a
// real shard's metabase rebuilds, the shard's own GC pass reclaims.  For C42
// older-format databases are written directly with bbolt and opened by the
// current code (with and without cancelling the init context).
//
// Built inside /repo's module through `go build -overlay` (see /verif/lib/vlib.py).
package main

import (
	"encoding/json"
	"errors"
	"fmt"
	"os"
	"sort"
	"strconv"
	"sync/atomic"

	"github.com/nspcc-dev/neo-go/pkg/util"
	iec "github.com/nspcc-dev/neofs-node/internal/ec"
	ierrors "github.com/nspcc-dev/neofs-node/internal/errors"
	meta "github.com/nspcc-dev/neofs-node/pkg/local_object_storage/metabase"
	"github.com/nspcc-dev/neofs-sdk-go/checksum"
	apistatus "github.com/nspcc-dev/neofs-sdk-go/client/status"
	cid "github.com/nspcc-dev/neofs-sdk-go/container/id"
	"github.com/nspcc-dev/neofs-sdk-go/object"
	oid "github.com/nspcc-dev/neofs-sdk-go/object/id"
	"github.com/nspcc-dev/neofs-sdk-go/user"
)

// ---------------------------------------------------------------- universe (same conventions as harness/cmd/meta)

const (
	nCnr = 2
	nOID = 10
)

func mkOID(n int) oid.ID {
	var id oid.ID
	id[31] = byte(n)
	id[30] = byte(n >> 8)
	return id
}

func unOID(id oid.ID) int {
	for i := 0; i < 30; i++ {
		if id[i] != 0 {
			return -1
		}
	}
	return int(id[30])<<8 | int(id[31])
}

func mkCID(n int) cid.ID {
	var id cid.ID
	id[31] = byte(n)
	return id
}

func unCID(id cid.ID) int {
	for i := 0; i < 31; i++ {
		if id[i] != 0 {
			return -1
		}
	}
	return int(id[31])
}

func mkSplit(n int) *object.SplitID {
	b := make([]byte, 16)
	b[15] = byte(n)
	return object.NewSplitIDFromV2(b)
}

// the blobs are unmarshalled by the rebuild, which validates the owner's checksum
var owner = func() user.ID {
	var h util.Uint160
	for i := range h {
		h[i] = byte(i + 1)
	}
	return user.NewFromScriptHash(h)
}()

type epochState struct{ e atomic.Uint64 }

func (s *epochState) CurrentEpoch() uint64 { return s.e.Load() }

// Obj is an abstract object header. T: 0 regular, 1 tombstone, 2 lock, 3 link.
type Obj struct {
	C     int               `json:"c"`
	ID    int               `json:"id"`
	T     int               `json:"t"`
	Size  uint64            `json:"sz"`
	Exp   int64             `json:"exp"` // -1: none
	Assoc int               `json:"as"`  // 0: none
	ParID int               `json:"pid"` // parent ID without header (0: none); ignored when Par != nil
	First int               `json:"fi"`  // 0: none
	Split int               `json:"sp"`  // 0: none
	ECR   int               `json:"er"`  // -1: none
	ECI   int               `json:"ei"`  // -1: none
	Par   *Obj              `json:"par"`
	Attrs map[string]string `json:"attrs,omitempty"` // extra user attributes (C42)
}

var types = []object.Type{object.TypeRegular, object.TypeTombstone, object.TypeLock, object.TypeLink}

func typeIdx(t object.Type) int {
	for i, x := range types {
		if x == t {
			return i
		}
	}
	return 9
}

var zeroSum = checksum.NewSHA256([32]byte{})

func build(o *Obj) *object.Object {
	res := object.New(mkCID(o.C), owner)
	res.SetID(mkOID(o.ID))
	res.SetPayloadChecksum(zeroSum)
	res.SetPayloadSize(o.Size)
	res.SetType(types[o.T])
	var attrs []object.Attribute
	if o.Exp >= 0 {
		attrs = append(attrs, object.NewAttribute(object.AttributeExpirationEpoch, strconv.FormatInt(o.Exp, 10)))
	}
	if o.Assoc > 0 {
		attrs = append(attrs, object.NewAttribute(object.AttributeAssociatedObject, mkOID(o.Assoc).EncodeToString()))
	}
	if o.ECR >= 0 {
		attrs = append(attrs, object.NewAttribute(iec.AttributeRuleIdx, strconv.Itoa(o.ECR)))
	}
	if o.ECI >= 0 {
		attrs = append(attrs, object.NewAttribute(iec.AttributePartIdx, strconv.Itoa(o.ECI)))
	}
	if len(o.Attrs) > 0 {
		ks := make([]string, 0, len(o.Attrs))
		for k := range o.Attrs {
			ks = append(ks, k)
		}
		sort.Strings(ks)
		for _, k := range ks {
			attrs = append(attrs, object.NewAttribute(k, o.Attrs[k]))
		}
	}
	res.SetAttributes(attrs...)
	if o.First > 0 {
		res.SetFirstID(mkOID(o.First))
	}
	if o.Split > 0 {
		res.SetSplitID(mkSplit(o.Split))
	}
	if o.Par != nil {
		res.SetParent(build(o.Par))
	} else if o.ParID > 0 {
		res.SetParentID(mkOID(o.ParID))
	}
	return res
}

// view classes
const (
	vAbsent   = 0 // Exists: (false, nil)
	vOK       = 1
	vNotFound = 2
	vRemoved  = 3
	vExpired  = 4
	vSplit    = 5
	vECParent = 6
	vOther    = 7
)

func viewClass(err error) int {
	var parts iec.ErrParts
	var si *object.SplitInfoError
	switch {
	case err == nil:
		return vOK
	case errors.Is(err, apistatus.ErrObjectAlreadyRemoved):
		return vRemoved
	case errors.Is(err, meta.ErrObjectIsExpired):
		return vExpired
	case errors.As(err, &parts):
		return vECParent
	case errors.As(err, &si):
		return vSplit
	case errors.Is(err, ierrors.ErrParentObject):
		return vOther
	case errors.Is(err, apistatus.ErrObjectNotFound):
		return vNotFound
	default:
		return vOther
	}
}

// ---------------------------------------------------------------- dump of a container bucket (same projection as harness/cmd/meta)

type DObj struct {
	ID    int    `json:"id"`
	T     int    `json:"t"`
	Size  uint64 `json:"sz"`
	Exp   int64  `json:"exp"`
	Assoc int    `json:"as"`
	ParID int    `json:"pid"`
	First int    `json:"fi"`
	Split int    `json:"sp"`
	ECR   int    `json:"er"`
	ECI   int    `json:"ei"`
	Phy   bool   `json:"phy"`
	Root  bool   `json:"root"`
}

type DCnr struct {
	C       int       `json:"c"`
	Present bool      `json:"present"`
	CGC     bool      `json:"cgc"`
	Objs    []DObj    `json:"objs"`
	Garb    [][2]int  `json:"garb"` // id, mark (0 default, 1 redundant, other: 2)
	Cnt     [7]uint64 `json:"cnt"`
	Bad     int       `json:"bad"` // inconsistencies found by the dump (0 expected)
}

func cnt7(c meta.ObjectCounters) [7]uint64 {
	return [7]uint64{c.Phy, c.Root, c.TS, c.Lock, c.Link, c.GC, c.Payload}
}

func must(err error) {
	if err != nil {
		fmt.Fprintln(os.Stderr, "harness internal error:", err)
		os.Exit(3)
	}
}

func dumpCnr(db *meta.DB, c int) DCnr {
	d, err := db.VerifDumpContainer(mkCID(c))
	must(err)
	res := DCnr{C: c, Present: d.Present, CGC: d.CGC, Objs: []DObj{}, Garb: [][2]int{}}
	if !d.Consistent && d.Present {
		res.Bad++
		if os.Getenv("VERIF_DEBUG") != "" {
			fmt.Fprintln(os.Stderr, "inconsistent:", d.Why)
		}
	}
	res.Bad += d.Unknown
	byID := map[oid.ID]*DObj{}
	var order []oid.ID
	for _, id := range d.IDs {
		byID[id] = &DObj{ID: unOID(id), T: 9, Exp: -1, ECR: -1, ECI: -1}
		order = append(order, id)
	}
	for _, a := range d.Attrs {
		o := byID[a.ID]
		if o == nil {
			res.Bad++ // attribute without ID key
			continue
		}
		switch a.Key {
		case object.FilterType:
			var t object.Type
			if t.DecodeString(string(a.Val)) {
				o.T = typeIdx(t)
			}
		case object.FilterPayloadSize:
			o.Size, _ = strconv.ParseUint(string(a.Val), 10, 64)
		case object.AttributeExpirationEpoch:
			v, err := strconv.ParseUint(string(a.Val), 10, 63)
			if err == nil {
				o.Exp = int64(v)
			} else {
				res.Bad++
			}
		case object.AttributeAssociatedObject:
			if len(a.Val) == 32 {
				o.Assoc = unOID(oid.ID(a.Val))
			} else {
				res.Bad++
			}
		case object.FilterParentID:
			if len(a.Val) == 32 {
				o.ParID = unOID(oid.ID(a.Val))
			} else {
				res.Bad++
			}
		case object.FilterFirstSplitObject:
			if len(a.Val) == 32 {
				o.First = unOID(oid.ID(a.Val))
			} else {
				res.Bad++
			}
		case object.FilterSplitID:
			if len(a.Val) == 16 {
				o.Split = int(a.Val[15])
			} else {
				res.Bad++
			}
		case iec.AttributeRuleIdx:
			o.ECR, _ = strconv.Atoi(string(a.Val))
		case iec.AttributePartIdx:
			o.ECI, _ = strconv.Atoi(string(a.Val))
		case object.FilterPhysical:
			o.Phy = string(a.Val) == "1"
		case object.FilterRoot:
			o.Root = string(a.Val) == "1"
		}
	}
	for _, id := range order {
		res.Objs = append(res.Objs, *byID[id])
	}
	for _, g := range d.Garbage {
		m := 2
		if len(g.Mark) == 0 {
			m = 0
		} else if len(g.Mark) == 1 && g.Mark[0] == byte(meta.GarbageMarkRedundant) {
			m = 1
		}
		res.Garb = append(res.Garb, [2]int{unOID(g.ID), m})
	}
	res.Cnt = cnt7(d.Counters)
	return res
}

// ---------------------------------------------------------------- PRNG

type rng struct{ s uint64 }

func (r *rng) next() uint64 {
	r.s += 0x9e3779b97f4a7c15
	z := r.s
	z = (z ^ (z >> 30)) * 0xbf58476d1ce4e5b9
	z = (z ^ (z >> 27)) * 0x94d049bb133111eb
	return z ^ (z >> 31)
}
func (r *rng) n(k int) int    { return int(r.next() % uint64(k)) }
func (r *rng) p(pct int) bool { return r.n(100) < pct }

func caseRng(seed uint64, stream uint64, i int) *rng {
	r0 := &rng{s: seed}
	r1 := &rng{s: (uint64(i) + 1) * 0xD1342543DE82EF95}
	r2 := &rng{s: stream * 0x2545F4914F6CDD1D}
	r := &rng{s: r0.next() ^ r1.next() ^ r2.next()}
	r.next()
	return r
}

func tmpBase() string {
	if st, err := os.Stat("/dev/shm"); err == nil && st.IsDir() {
		return "/dev/shm"
	}
	return ""
}

func seedEnv() uint64 {
	s, _ := strconv.ParseUint(os.Getenv("VERIF_SEED"), 10, 64)
	return s
}

func main() {
	if len(os.Args) < 2 {
		fmt.Fprintln(os.Stderr, "usage: resync consts | c18 <profile> <n> <maxall> <nrand> | c18replay | c42 <n> <big> | c42replay")
		os.Exit(2)
	}
	switch os.Args[1] {
	case "consts":
		out := map[string]any{}
		for k, v := range meta.VerifResyncConsts() {
			out[k] = v
		}
		out["migrations"] = meta.VerifMigrations()
		must(json.NewEncoder(os.Stdout).Encode(out))
	case "c18":
		n, _ := strconv.Atoi(os.Args[3])
		maxAll, _ := strconv.Atoi(os.Args[4])
		nRand, _ := strconv.Atoi(os.Args[5])
		c18Main(os.Args[2], n, maxAll, nRand)
	case "c18replay":
		c18Replay()
	case "c42":
		n, _ := strconv.Atoi(os.Args[2])
		big, _ := strconv.Atoi(os.Args[3])
		c42Main(n, big)
	case "c42replay":
		c42Replay()
	default:
		fmt.Fprintln(os.Stderr, "unknown command")
		os.Exit(2)
	}
}
