//go:build verif

// Differential harness for the S256 family (C05): runs internal/signed256 and
// the decimal readers of pkg/core/object on generated inputs and prints the
// projected observables, one JSON object per line.
package main

import (
	"bytes"
	"encoding/hex"
	"encoding/json"
	"fmt"
	"math/big"
	"os"
	"strconv"
	"strings"

	"github.com/nspcc-dev/neofs-node/internal/signed256"
	objectcore "github.com/nspcc-dev/neofs-node/pkg/core/object"
)

// ---- PRNG (splitmix64), the only source of randomness ----
type rng struct{ s uint64 }

func (r *rng) next() uint64 {
	r.s += 0x9e3779b97f4a7c15
	z := r.s
	z = (z ^ (z >> 30)) * 0xbf58476d1ce4e5b9
	z = (z ^ (z >> 27)) * 0x94d049bb133111eb
	return z ^ (z >> 31)
}
func (r *rng) intn(n int) int { return int(r.next() % uint64(n)) }

var rnd *rng

// ---- observables ----
type strCase struct {
	K     string `json:"k"` // "str"
	S     string `json:"s"` // input, hex
	PdOk  bool   `json:"pd_ok"`
	PdEnc string `json:"pd_enc"` // EncodeBytes, hex
	PdStr string `json:"pd_str"` // String(), hex
	RtOk  bool   `json:"rt_ok"`  // DecodeBytes(EncodeBytes(z)) accepted
	RtStr string `json:"rt_str"` // its String(), hex
	SpOk  bool   `json:"sp_ok"`
	SpNeg bool   `json:"sp_neg"`
	SpDig string `json:"sp_dig"` // hex
	PnOk  bool   `json:"pn_ok"`  // ParseNormalizedDecimal(split(s))
	PnEnc string `json:"pn_enc"`
	Class string `json:"class"` // generator class, histogram only
}

type pairCase struct {
	K     string `json:"k"` // "pair"
	A     string `json:"a"`
	B     string `json:"b"`
	Both  bool   `json:"both"`  // both parsed by ParseDecimal
	Cmp   int    `json:"cmp"`   // Int.Cmp
	BCmp  int    `json:"bcmp"`  // bytes.Compare of encodings
	CisOk bool   `json:"cis_ok"`
	Cis   int    `json:"cis"` // compareIntStrings
	CndOk bool   `json:"cnd_ok"`
	Cnd   int    `json:"cnd"` // compareNormalizedDigits on the split digits (same sign class only)
	Class string `json:"class"`
}

type decCase struct {
	K     string `json:"k"` // "dec"
	B     string `json:"b"`
	Ok    bool   `json:"ok"`
	Str   string `json:"str"`
	ReEnc string `json:"reenc"`
	Class string `json:"class"`
}

func hx(b []byte) string { return hex.EncodeToString(b) }

func runStr(s, class string) strCase {
	c := strCase{K: "str", S: hx([]byte(s)), Class: class}
	z, err := signed256.ParseDecimal(s)
	if err == nil {
		c.PdOk = true
		e := z.EncodeBytes()
		c.PdEnc = hx(e[:])
		c.PdStr = hx([]byte(z.String()))
		if d, err := signed256.DecodeBytes(e[:]); err == nil {
			c.RtOk = true
			c.RtStr = hx([]byte(d.String()))
		}
	}
	neg, dig, err := objectcore.VerifSplitIntString(s)
	if err == nil {
		c.SpOk, c.SpNeg, c.SpDig = true, neg, hx([]byte(dig))
		if n, err := signed256.ParseNormalizedDecimal(neg, dig); err == nil {
			c.PnOk = true
			e := n.EncodeBytes()
			c.PnEnc = hx(e[:])
		}
	}
	return c
}

func sgn(x int) int {
	switch {
	case x < 0:
		return -1
	case x > 0:
		return 1
	}
	return 0
}

func runPair(a, b, class string) pairCase {
	c := pairCase{K: "pair", A: hx([]byte(a)), B: hx([]byte(b)), Class: class}
	za, ea := signed256.ParseDecimal(a)
	zb, eb := signed256.ParseDecimal(b)
	if ea == nil && eb == nil {
		c.Both = true
		c.Cmp = sgn(za.Cmp(&zb))
		xa, xb := za.EncodeBytes(), zb.EncodeBytes()
		c.BCmp = sgn(bytes.Compare(xa[:], xb[:]))
	}
	if v, err := objectcore.VerifCompareIntStrings(a, b); err == nil {
		c.CisOk, c.Cis = true, sgn(v)
	}
	na, da, e1 := objectcore.VerifSplitIntString(a)
	nb, db, e2 := objectcore.VerifSplitIntString(b)
	if e1 == nil && e2 == nil && !na && !nb {
		c.CndOk, c.Cnd = true, sgn(objectcore.VerifCompareNormalizedDigits(da, db))
	}
	return c
}

func runDec(b []byte, class string) decCase {
	c := decCase{K: "dec", B: hx(b), Class: class}
	z, err := signed256.DecodeBytes(b)
	if err == nil {
		c.Ok = true
		c.Str = hx([]byte(z.String()))
		e := z.EncodeBytes()
		c.ReEnc = hx(e[:])
	}
	return c
}

// ---- generators ----
var two256 = new(big.Int).Lsh(big.NewInt(1), 256)

func boundaryInts() []*big.Int {
	var res []*big.Int
	add := func(x *big.Int) {
		for _, d := range []int64{-2, -1, 0, 1, 2} {
			v := new(big.Int).Add(x, big.NewInt(d))
			res = append(res, v, new(big.Int).Neg(v))
		}
	}
	add(big.NewInt(0))
	for _, k := range []uint{7, 8, 15, 16, 31, 32, 63, 64, 65, 127, 128, 192, 248, 255, 256} {
		add(new(big.Int).Lsh(big.NewInt(1), k))
	}
	for _, k := range []int64{18, 19, 20, 38, 57, 76, 77, 78} { // chunk borders of the decimal reader
		add(new(big.Int).Exp(big.NewInt(10), big.NewInt(k), nil))
	}
	return res
}

func randInt() *big.Int {
	bits := rnd.intn(259)
	v := new(big.Int)
	for i := 0; i < bits; i += 64 {
		v.Lsh(v, 64)
		v.Or(v, new(big.Int).SetUint64(rnd.next()))
	}
	if bits > 0 {
		v.Rsh(v, uint((64-bits%64)%64))
	}
	switch rnd.intn(8) {
	case 0: // near the upper end
		v = new(big.Int).Sub(two256, big.NewInt(int64(rnd.intn(4))))
	case 1: // bytes of 0x00 / 0xFF
		bs := make([]byte, 1+rnd.intn(32))
		for i := range bs {
			bs[i] = []byte{0, 0xff, 1, 0x80, 0x7f}[rnd.intn(5)]
		}
		v.SetBytes(bs)
	}
	if rnd.intn(2) == 0 {
		v.Neg(v)
	}
	return v
}

// decorate prints v the way a user might: optional '+', leading zeros.
func decorate(v *big.Int) string {
	s := v.String()
	neg := strings.HasPrefix(s, "-")
	s = strings.TrimPrefix(s, "-")
	switch rnd.intn(6) {
	case 0:
		s = strings.Repeat("0", 1+rnd.intn(3)) + s
	case 1:
		s = strings.Repeat("0", 70+rnd.intn(20)) + s
	}
	if neg {
		return "-" + s
	}
	if rnd.intn(4) == 0 {
		return "+" + s
	}
	return s
}

const malAlphabet = "+-0123456789_ .aE\x00\xff"

func malform(s string) string {
	b := []byte(s)
	for n := 1 + rnd.intn(2); n > 0; n-- {
		switch rnd.intn(5) {
		case 0: // insert
			p := rnd.intn(len(b) + 1)
			ch := malAlphabet[rnd.intn(len(malAlphabet))]
			b = append(b[:p], append([]byte{ch}, b[p:]...)...)
		case 1: // sign in front
			b = append([]byte{"+-"[rnd.intn(2)]}, b...)
		case 2: // replace
			if len(b) > 0 {
				b[rnd.intn(len(b))] = malAlphabet[rnd.intn(len(malAlphabet))]
			}
		case 3: // truncate
			if len(b) > 0 {
				b = b[:rnd.intn(len(b))]
			}
		case 4: // sign after first char / at the end
			p := min(len(b), 1+rnd.intn(2))
			b = append(b[:p], append([]byte{"+-"[rnd.intn(2)]}, b[p:]...)...)
		}
	}
	return string(b)
}

func fixedStrings() []string {
	max := new(big.Int).Sub(two256, big.NewInt(1)).String()
	res := []string{"", "+", "-", "++", "--", "+-", "-+", "-+5", "++5", "+-5", "--5", "+5", "-5", "5", "0", "-0", "+0", "00", "-00", "+00",
		"0+5", "0-5", "5+", "5-", " 5", "5 ", "1_000", "0x10", "1e3", "1.0", "٣", "\x00", "5\x00",
		max, "-" + max, "+" + max, "0" + max, "-0" + max, "++" + max, "-+" + max,
		strings.Repeat("9", 77), strings.Repeat("9", 78), strings.Repeat("9", 79), "1" + strings.Repeat("0", 77), "1" + strings.Repeat("0", 78),
		strings.Repeat("0", 100), "-" + strings.Repeat("0", 100), strings.Repeat("0", 100) + "7",
		"18446744073709551615", "18446744073709551616", "99999999999999999999", "099999999999999999999", "100000000000000000000"}
	// 78-digit strings around the limit, and ones with a bad character in each 19-char chunk
	for _, d := range []int64{1, 2, 10} {
		res = append(res, new(big.Int).Add(two256, big.NewInt(d-1)).String(), "-"+new(big.Int).Add(two256, big.NewInt(d-1)).String())
	}
	for _, p := range []int{0, 1, 18, 19, 20, 38, 57, 58, 76, 77} {
		b := []byte(max)
		b[p] = 'x'
		res = append(res, string(b))
		b[p] = '+'
		res = append(res, string(b))
	}
	return res
}

func gen(n int) {
	enc := json.NewEncoder(os.Stdout)
	bi := boundaryInts()
	for _, s := range fixedStrings() {
		_ = enc.Encode(runStr(s, "fixed"))
	}
	for _, v := range bi {
		_ = enc.Encode(runStr(v.String(), "boundary"))
	}
	for i := 0; i < n; i++ {
		v := randInt()
		switch rnd.intn(3) {
		case 0:
			_ = enc.Encode(runStr(v.String(), "plain"))
		case 1:
			_ = enc.Encode(runStr(decorate(v), "decorated"))
		default:
			_ = enc.Encode(runStr(malform(decorate(v)), "malformed"))
		}
	}
	// pairs: every boundary value against its neighbours in the sorted boundary list and a few others
	for i, a := range bi {
		partners := []int{i, (i + 1) % len(bi), (i + 2) % len(bi), (i + 7) % len(bi), rnd.intn(len(bi))}
		if os.Getenv("VERIF_TIER") != "thorough" {
			partners = []int{(i + 2) % len(bi), rnd.intn(len(bi))} // i+2 = the next boundary value of the same sign
		}
		for _, j := range partners {
			_ = enc.Encode(runPair(a.String(), bi[j].String(), "boundary"))
		}
	}
	fs := fixedStrings()
	for i := 0; i < len(fs); i++ {
		_ = enc.Encode(runPair(fs[i], fs[rnd.intn(len(fs))], "fixed"))
	}
	for i := 0; i < n; i++ {
		a := randInt()
		var b *big.Int
		class := "random"
		switch rnd.intn(4) {
		case 0:
			b = randInt()
		case 1: // close neighbours
			b = new(big.Int).Add(a, big.NewInt(int64(rnd.intn(5)-2)))
			class = "near"
		case 2: // same magnitude prefix, other length
			b = new(big.Int).Quo(a, big.NewInt(int64(1+rnd.intn(300))))
			class = "scaled"
		default:
			b = new(big.Int).Neg(a)
			class = "negated"
		}
		sa, sb := decorate(a), decorate(b)
		if rnd.intn(10) == 0 {
			sb = malform(sb)
			class = "malformed"
		}
		_ = enc.Encode(runPair(sa, sb, class))
	}
	// decoding of arbitrary bytes
	for i := 0; i < n/2+20; i++ {
		ln := 33
		class := "len33"
		if rnd.intn(8) == 0 {
			ln = []int{0, 1, 32, 34, 64}[rnd.intn(5)]
			class = "badlen"
		}
		b := make([]byte, ln)
		mode := rnd.intn(4)
		for j := range b {
			switch mode {
			case 0:
				b[j] = byte(rnd.next())
			case 1:
				b[j] = 0xff
			case 2:
				b[j] = 0
			default:
				b[j] = []byte{0, 0xff, 1, 0xfe}[rnd.intn(4)]
			}
		}
		if ln > 0 {
			switch rnd.intn(5) {
			case 0, 1:
				b[0] = 0
			case 2, 3:
				b[0] = 1
			case 4:
				b[0] = byte(2 + rnd.intn(254))
				class = "badsign"
			}
		}
		_ = enc.Encode(runDec(b, class))
	}
}

func consts() {
	mx, mn := signed256.Max(), signed256.Min()
	_ = json.NewEncoder(os.Stdout).Encode(map[string]any{
		"encoded_len": signed256.EncodedLen,
		"max":         mx.String(),
		"min":         mn.String(),
	})
}

func main() {
	seed, _ := strconv.ParseUint(os.Getenv("VERIF_SEED"), 10, 64)
	rnd = &rng{s: seed*0x9e3779b97f4a7c15 + 5}
	if len(os.Args) < 2 {
		fmt.Fprintln(os.Stderr, "usage: s256 consts | gen <n> | str <hex> | pair <hex> <hex> | dec <hex>")
		os.Exit(2)
	}
	enc := json.NewEncoder(os.Stdout)
	switch os.Args[1] {
	case "consts":
		consts()
	case "gen":
		n, _ := strconv.Atoi(os.Args[2])
		gen(n)
	case "str":
		b, _ := hex.DecodeString(os.Args[2])
		_ = enc.Encode(runStr(string(b), "replay"))
	case "pair":
		a, _ := hex.DecodeString(os.Args[2])
		b, _ := hex.DecodeString(os.Args[3])
		_ = enc.Encode(runPair(string(a), string(b), "replay"))
	case "dec":
		b, _ := hex.DecodeString(os.Args[2])
		_ = enc.Encode(runDec(b, "replay"))
	default:
		fmt.Fprintln(os.Stderr, "unknown command")
		os.Exit(2)
	}
}
