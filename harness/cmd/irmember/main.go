//go:build verif

// Differential harness for the membership getters used by every alphabet check (C35):
// Server.IsAlphabet / IsActive / AlphabetIndex / InnerRingIndex over the real indexer.
package main

import (
	"encoding/json"
	"os"
	"strconv"

	"github.com/nspcc-dev/neo-go/pkg/crypto/keys"
	"github.com/nspcc-dev/neofs-node/pkg/innerring"
)

type rng struct{ s uint64 }

func (r *rng) next() uint64 {
	r.s += 0x9e3779b97f4a7c15
	z := r.s
	z = (z ^ (z >> 30)) * 0xbf58476d1ce4e5b9
	z = (z ^ (z >> 27)) * 0x94d049bb133111eb
	return z ^ (z >> 31)
}
func (r *rng) n(k int) int { return int(r.next() % uint64(k)) }

type out struct {
	Own       int   `json:"own"`
	IR        []int `json:"ir"`
	Alpha     []int `json:"alpha"`
	FailIR    bool  `json:"fail_ir"`
	FailAlpha bool  `json:"fail_alpha"`
	IsAlpha   bool  `json:"is_alpha"`
	IsActive  bool  `json:"is_active"`
	AlphaIdx  int   `json:"alpha_idx"`
	IRIdx     int   `json:"ir_idx"`
	IRSize    int   `json:"ir_size"`
}

type seqStep struct {
	Reset     bool  `json:"reset"`
	IR        []int `json:"ir"`
	Alpha     []int `json:"alpha"`
	FailIR    bool  `json:"fail_ir"`
	FailAlpha bool  `json:"fail_alpha"`
	IsAlpha   bool  `json:"is_alpha"`
	IsActive  bool  `json:"is_active"`
	AlphaIdx  int   `json:"alpha_idx"`
	IRIdx     int   `json:"ir_idx"`
	IRSize    int   `json:"ir_size"`
}

type seqOut struct {
	Kind  string    `json:"kind"`
	Own   int       `json:"own"`
	Steps []seqStep `json:"steps"`
}

// histories on ONE indexer instance: lookups whose chain answers change or fail, with and
// without a reset in between (a reset is what a chain restart does); the first steps of the
// fixed histories are the ones a cache of a partial result would get wrong
func seqMain(g *rng, univ []*keys.PublicKey, n int) {
	const U = 6
	enc := json.NewEncoder(os.Stdout)
	pick := func() ([]int, keys.PublicKeys) {
		ln := g.n(U + 1)
		idx := []int{}
		var ks keys.PublicKeys
		for j := 0; j < ln; j++ {
			i := g.n(U)
			idx = append(idx, i)
			ks = append(ks, univ[i])
		}
		return idx, ks
	}
	for c := 0; c < n; c++ {
		own := g.n(U)
		ln := 2 + g.n(5)
		var steps []innerring.VerifMemberStep
		var rec []seqStep
		for i := 0; i < ln; i++ {
			var st innerring.VerifMemberStep
			var r seqStep
			r.IR, st.IR = pick()
			r.Alpha, st.Alpha = pick()
			switch {
			case c%4 == 0 && i == 0: // fresh node: inner ring answers, committee lookup fails
				st.FailAlpha = true
			case c%4 == 1 && i == 0: // member first ...
				r.Alpha, st.Alpha = append(r.Alpha, own), append(st.Alpha, univ[own])
			case c%4 == 1 && i == 1: // ... then removed, restart, committee lookup fails
				st.Reset, st.FailAlpha = true, true
			default:
				st.Reset = g.n(3) == 0
				st.FailIR = g.n(6) == 0
				st.FailAlpha = g.n(5) == 0
			}
			r.Reset, r.FailIR, r.FailAlpha = st.Reset, st.FailIR, st.FailAlpha
			steps = append(steps, st)
			rec = append(rec, r)
		}
		obs := innerring.VerifMembershipSeq(univ[own], steps)
		for i := range rec {
			rec[i].IsAlpha, rec[i].IsActive, rec[i].AlphaIdx, rec[i].IRIdx, rec[i].IRSize = obs[i].IsAlphabet, obs[i].IsActive, obs[i].AlphaIdx, obs[i].IRIdx, obs[i].IRSize
		}
		_ = enc.Encode(seqOut{Kind: "seq", Own: own, Steps: rec})
	}
}

func main() {
	seed, _ := strconv.ParseUint(os.Getenv("VERIF_SEED"), 10, 64)
	n := 600
	if os.Getenv("VERIF_TIER") == "thorough" {
		n = 6000
	}
	g := &rng{s: seed}
	const U = 6
	univ := make([]*keys.PublicKey, U)
	for i := range univ {
		k, _ := keys.NewPrivateKey()
		univ[i] = k.PublicKey()
	}
	pick := func() ([]int, keys.PublicKeys) {
		ln := g.n(U + 1)
		var idx []int
		var ks keys.PublicKeys
		for j := 0; j < ln; j++ {
			i := g.n(U) // duplicates allowed: first position counts
			idx = append(idx, i)
			ks = append(ks, univ[i])
		}
		if idx == nil {
			idx = []int{}
		}
		return idx, ks
	}
	seqMain(g, univ, n/3)
	enc := json.NewEncoder(os.Stdout)
	for c := 0; c < n; c++ {
		o := out{Own: g.n(U), FailIR: g.n(8) == 0, FailAlpha: g.n(8) == 0}
		var irk, ak keys.PublicKeys
		o.IR, irk = pick()
		o.Alpha, ak = pick()
		o.IsAlpha, o.IsActive, o.AlphaIdx, o.IRIdx, o.IRSize = innerring.VerifMembership(univ[o.Own], irk, ak, o.FailIR, o.FailAlpha)
		_ = enc.Encode(o)
	}
}
