//go:build verif

package main

import (
	"context"
	"crypto/ecdsa"
	"time"

	aclsvc "github.com/nspcc-dev/neofs-node/pkg/services/object/acl/v2"
	cidtest "github.com/nspcc-dev/neofs-sdk-go/container/id/test"
	neofscrypto "github.com/nspcc-dev/neofs-sdk-go/crypto"
	"github.com/nspcc-dev/neofs-sdk-go/object"
	protoobject "github.com/nspcc-dev/neofs-sdk-go/proto/object"
	protosession "github.com/nspcc-dev/neofs-sdk-go/proto/session"
	usertest "github.com/nspcc-dev/neofs-sdk-go/user/test"
	"github.com/nspcc-dev/neofs-sdk-go/version"
)

// putStreamCases drives multi-message PUT streams through the real Server.Put and a real
// putsvc.Service: a correctly signed init message and first chunk, then a last chunk that is
// fine / unsigned / signed over another body / sent while maintenance was switched on.
// Every stream message is a request of its own and must pass the checks; nothing may be
// stored when one of them is refused.
func putStreamCases(cl protoobject.ObjectServiceClient, r *rec, c *cfg, _ ecdsa.PrivateKey) []result1 {
	var out []result1
	signer := usertest.User()
	for _, sc := range []string{"ok", "unsigned_chunk", "badsig_chunk", "maintenance_chunk", "unsigned_first_chunk"} {
		*c = cfg{basic: true, sticky: true, eacl: aclsvc.ErrNotMatched}
		putRec.Reset()
		r.take()
		cnr := cidtest.ID()
		obj := object.New(cnr, signer.ID)
		pld := []byte("0123456789abcdef0123456789abcdef0123456789abcdef")
		obj.SetPayload(pld)
		obj.SetPayloadSize(uint64(len(pld)))
		if err := obj.SetVerificationFields(signer); err != nil {
			panic(err)
		}
		mo := obj.ProtoMessage()
		mh := func() *protosession.RequestMetaHeader {
			return &protosession.RequestMetaHeader{Version: version.Current().ProtoMessage(), Ttl: 2}
		}
		initReq := &protoobject.PutRequest{Body: &protoobject.PutRequest_Body{ObjectPart: &protoobject.PutRequest_Body_Init_{Init: &protoobject.PutRequest_Body_Init{
			ObjectId: mo.ObjectId, Signature: mo.Signature, Header: mo.Header}}}, MetaHeader: mh()}
		initReq.VerifyHeader, _ = neofscrypto.SignRequestWithBuffer(signer, initReq, nil)
		chunk := func(b []byte, sign, corrupt bool) *protoobject.PutRequest {
			req := &protoobject.PutRequest{Body: &protoobject.PutRequest_Body{ObjectPart: &protoobject.PutRequest_Body_Chunk{Chunk: append([]byte(nil), b...)}}, MetaHeader: mh()}
			if sign {
				req.VerifyHeader, _ = neofscrypto.SignRequestWithBuffer(signer, req, nil)
			}
			if corrupt {
				req.Body.GetObjectPart().(*protoobject.PutRequest_Body_Chunk).Chunk[0] ^= 1
			}
			return req
		}
		res := result1{Method: "PutStream", Scenario: sc, Base: sc, Effects: []string{}}
		if sc == "ok" {
			res.Base = "ok"
		} else {
			res.Base = "badsig" // a refused stream message: counted as a failing scenario
		}
		ctx, cancel := context.WithTimeout(context.Background(), 20*time.Second)
		st, err := cl.Put(ctx)
		if err == nil {
			_ = st.Send(initReq)
			switch sc {
			case "unsigned_first_chunk":
				_ = st.Send(chunk(pld[:16], false, false))
			default:
				_ = st.Send(chunk(pld[:16], true, false))
			}
			switch sc {
			case "ok", "unsigned_first_chunk":
				_ = st.Send(chunk(pld[16:], true, false))
			case "unsigned_chunk":
				_ = st.Send(chunk(pld[16:], false, false))
			case "badsig_chunk":
				_ = st.Send(chunk(pld[16:], true, true))
			case "maintenance_chunk":
				c.maint = true
				res.Base = "maintenance"
				_ = st.Send(chunk(pld[16:], true, false))
			}
			resp, err := st.CloseAndRecv()
			res.RPCErr = err != nil
			res.Code = resp.GetMetaHeader().GetStatus().GetCode()
		} else {
			res.RPCErr = true
		}
		cancel()
		for _, x := range r.take() {
			if len(x) > 6 && x[:6] == "PANIC:" {
				res.Effects = append(res.Effects, x)
			}
		}
		// the effect that matters here: an object reached the local storage
		for range putRec.Stored {
			res.Effects = append(res.Effects, "storage.Put(object stored)")
		}
		if putRec.Remote > 0 {
			res.Effects = append(res.Effects, "transport")
		}
		out = append(out, res)
	}
	return out
}
