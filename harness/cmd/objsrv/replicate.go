//go:build verif

package main

import (
	"context"
	"encoding/json"
	"os"
	"strconv"

	objectsvc "github.com/nspcc-dev/neofs-node/pkg/services/object"
	cid "github.com/nspcc-dev/neofs-sdk-go/container/id"
	cidtest "github.com/nspcc-dev/neofs-sdk-go/container/id/test"
	neofscrypto "github.com/nspcc-dev/neofs-sdk-go/crypto"
	neofscryptotest "github.com/nspcc-dev/neofs-sdk-go/crypto/test"
	neofsecdsa "github.com/nspcc-dev/neofs-sdk-go/crypto/ecdsa"
	"github.com/nspcc-dev/neofs-sdk-go/object"
	oidtest "github.com/nspcc-dev/neofs-sdk-go/object/id/test"
	objecttest "github.com/nspcc-dev/neofs-sdk-go/object/test"
	protoobject "github.com/nspcc-dev/neofs-sdk-go/proto/object"
	"github.com/nspcc-dev/neofs-sdk-go/proto/refs"
	"go.uber.org/zap"
)

// splitmix64: the single PRNG of the harness
type rng struct{ s uint64 }

func (r *rng) next() uint64 {
	r.s += 0x9e3779b97f4a7c15
	z := r.s
	z = (z ^ (z >> 30)) * 0xbf58476d1ce4e5b9
	z = (z ^ (z >> 27)) * 0x94d049bb133111eb
	return z ^ (z >> 31)
}
func (r *rng) n(k int) int { return int(r.next() % uint64(k)) }

// repCase is one Replicate scenario in model terms (see coq/Prog/C31Model.v)
type repCase struct {
	Kind        string `json:"kind"` // "replicate"
	Scheme      int    `json:"scheme"`       // 0,1,2 supported; 3 unsupported
	SigOK       bool   `json:"sig_ok"`       // signature verifies for (key, object ID)
	ServerInCur bool   `json:"server_in_cur"`
	ClientInCur bool   `json:"client_in_cur"`
	ClientInPrv bool   `json:"client_in_prev"`
	CnrMissing  bool   `json:"cnr_missing"`
	ObjOK       bool   `json:"obj_ok"` // object message decodes
	Maint       bool   `json:"maint"`
	// observed
	Code   uint32 `json:"code"`
	Stored bool   `json:"stored"`
	Err    bool   `json:"err"`
}

func replicateCases(srv *objectsvc.Server, r *rec, c *cfg, seed uint64, n int) []repCase {
	g := &rng{s: seed}
	var out []repCase
	signers := []neofscrypto.Signer{}
	k := neofscryptotest.Signer()
	signers = append(signers, neofsecdsa.Signer(k.ECDSAPrivateKey), neofsecdsa.SignerRFC6979(k.ECDSAPrivateKey), neofsecdsa.SignerWalletConnect(k.ECDSAPrivateKey))
	other := neofscryptotest.Signer()
	own := []byte("own-node-key")
	maint := c.maint
	// small dense universe: two containers and an epoch that advances now and then, so that
	// anything the server remembers about (container, sender) from an earlier request collides
	// with a later request whose membership facts differ
	cnrs := []cid.ID{cidtest.ID(), cidtest.ID()}
	epoch := uint64(0)
	for i := 0; i < n; i++ {
		rc := repCase{Kind: "replicate", Maint: maint}
		rc.Scheme = g.n(10)
		if rc.Scheme > 3 {
			rc.Scheme = rc.Scheme % 3
		}
		rc.SigOK = g.n(4) != 0
		rc.ServerInCur = g.n(4) != 0
		rc.ClientInCur = g.n(2) == 0
		rc.ClientInPrv = g.n(2) == 0
		rc.CnrMissing = g.n(12) == 0
		rc.ObjOK = g.n(5) != 0
		signer := signers[rc.Scheme%3]
		if g.n(3) == 0 {
			epoch++
		}
		cnr, id := cnrs[g.n(len(cnrs))], oidtest.ID()
		obj := objecttest.Object()
		obj.SetType(object.TypeRegular)
		obj.SetContainerID(cnr)
		obj.SetID(id)
		mo := obj.ProtoMessage()
		if !rc.ObjOK {
			// header that cannot be decoded into an object (bad owner length)
			mo.Header.OwnerId = &refs.OwnerID{Value: []byte{1, 2, 3}}
		}
		var sig []byte
		if rc.SigOK {
			sig, _ = signer.Sign(id[:])
		} else {
			switch g.n(3) {
			case 0: // signature by another key
				sig, _ = neofsecdsa.Signer(other.ECDSAPrivateKey).Sign(id[:])
				if rc.Scheme%3 == 1 {
					sig, _ = neofsecdsa.SignerRFC6979(other.ECDSAPrivateKey).Sign(id[:])
				} else if rc.Scheme%3 == 2 {
					sig, _ = neofsecdsa.SignerWalletConnect(other.ECDSAPrivateKey).Sign(id[:])
				}
			case 1: // signature over another ID
				o2 := oidtest.ID()
				sig, _ = signer.Sign(o2[:])
			default: // flipped byte
				sig, _ = signer.Sign(id[:])
				sig[len(sig)/2] ^= 0x10
			}
		}
		key := neofscrypto.PublicKeyBytes(signer.Public())
		req := &protoobject.ReplicateRequest{Object: mo, Signature: &refs.Signature{Key: key, Sign: sig}}
		switch rc.Scheme {
		case 0:
			req.Signature.Scheme = refs.SignatureScheme_ECDSA_SHA512
		case 1:
			req.Signature.Scheme = refs.SignatureScheme_ECDSA_RFC6979_SHA256
		case 2:
			req.Signature.Scheme = refs.SignatureScheme_ECDSA_RFC6979_SHA256_WALLET_CONNECT
		default:
			req.Signature.Scheme = 3 + refs.SignatureScheme(g.n(3))
		}
		*c = cfg{maint: maint, ownKey: own, cnrMissing: rc.CnrMissing, epoch: epoch}
		filler := func() []byte { return []byte("node-" + strconv.Itoa(g.n(1000))) }
		c.cnrNodes = [][]byte{filler()}
		if rc.ServerInCur {
			c.cnrNodes = append(c.cnrNodes, own)
		}
		if rc.ClientInCur {
			c.cnrNodes = append(c.cnrNodes, key)
		}
		c.cnrNodes = append(c.cnrNodes, filler())
		c.prevNodes = [][]byte{filler()}
		if rc.ClientInPrv {
			c.prevNodes = append(c.prevNodes, key)
		}
		r.take()
		resp, err := srv.Replicate(context.Background(), req)
		rc.Err = err != nil
		rc.Code = resp.GetStatus().GetCode()
		for _, x := range r.take() {
			if x == "storage.VerifyAndStoreObjectLocally" {
				rc.Stored = true
			}
		}
		out = append(out, rc)
	}
	return out
}

func replicateMain() {
	seed, _ := strconv.ParseUint(os.Getenv("VERIF_SEED"), 10, 64)
	n := 400
	if os.Getenv("VERIF_TIER") == "thorough" {
		n = 4000
	}
	r := &rec{}
	c := &cfg{}
	e := env{r, c}
	srv := objectsvc.New(handlers{e}, fsChain{e}, storage{e}, nil, neofscryptotest.Signer().ECDSAPrivateKey, metrics{}, aclChecker{e}, infoExt{e}, clients{e}, zap.NewNop())
	enc := json.NewEncoder(os.Stdout)
	for _, m := range []bool{false, true} {
		c.maint = m
		for _, rc := range replicateCases(srv, r, c, seed*2+uint64(len(os.Args)), n/2) {
			_ = enc.Encode(rc)
		}
	}
}
