//go:build verif

// Differential harness for C29, C45 and C31: the real object Server behind a real gRPC
// server (bufconn, the node's buffered codec and service descriptor) is called with
// requests that fail exactly one check; recording fakes show every storage / network /
// data effect. Replicate is driven with generated key/membership/signature scenarios.
package main

import (
	"context"
	"crypto/ecdsa"
	"encoding/json"
	"errors"
	"fmt"
	"io"
	"net"
	"os"
	"slices"
	"sort"
	"strings"
	"strconv"
	"sync"
	"time"

	"github.com/nspcc-dev/neo-go/pkg/core/block"
	"github.com/nspcc-dev/neo-go/pkg/core/transaction"
	"github.com/nspcc-dev/neo-go/pkg/neorpc/result"
	"github.com/nspcc-dev/neo-go/pkg/vm/vmstate"
	"github.com/nspcc-dev/neo-go/pkg/smartcontract/trigger"
	iec "github.com/nspcc-dev/neofs-node/internal/ec"
	clientcore "github.com/nspcc-dev/neofs-node/pkg/core/client"
	objectcore "github.com/nspcc-dev/neofs-node/pkg/core/object"
	objectsvc "github.com/nspcc-dev/neofs-node/pkg/services/object"
	aclsvc "github.com/nspcc-dev/neofs-node/pkg/services/object/acl/v2"
	"github.com/nspcc-dev/neofs-node/pkg/services/object/common"
	deletesvc "github.com/nspcc-dev/neofs-node/pkg/services/object/delete"
	getsvc "github.com/nspcc-dev/neofs-node/pkg/services/object/get"
	putsvc "github.com/nspcc-dev/neofs-node/pkg/services/object/put"
	"github.com/nspcc-dev/neofs-node/internal/zzverif/lib/putfake"
	"github.com/nspcc-dev/neofs-sdk-go/bearer"
	"github.com/nspcc-dev/neofs-sdk-go/client"
	apistatus "github.com/nspcc-dev/neofs-sdk-go/client/status"
	"github.com/nspcc-dev/neofs-sdk-go/container"
	"github.com/nspcc-dev/neofs-sdk-go/container/acl"
	cid "github.com/nspcc-dev/neofs-sdk-go/container/id"
	cidtest "github.com/nspcc-dev/neofs-sdk-go/container/id/test"
	neofscrypto "github.com/nspcc-dev/neofs-sdk-go/crypto"
	neofscryptotest "github.com/nspcc-dev/neofs-sdk-go/crypto/test"
	"github.com/nspcc-dev/neofs-sdk-go/netmap"
	"github.com/nspcc-dev/neofs-sdk-go/object"
	oid "github.com/nspcc-dev/neofs-sdk-go/object/id"
	oidtest "github.com/nspcc-dev/neofs-sdk-go/object/id/test"
	objecttest "github.com/nspcc-dev/neofs-sdk-go/object/test"
	protoacl "github.com/nspcc-dev/neofs-sdk-go/proto/acl"
	protoobject "github.com/nspcc-dev/neofs-sdk-go/proto/object"
	iprotobuf "github.com/nspcc-dev/neofs-sdk-go/proto/protobuf"
	"github.com/nspcc-dev/neofs-sdk-go/proto/refs"
	protosession "github.com/nspcc-dev/neofs-sdk-go/proto/session"
	protostatus "github.com/nspcc-dev/neofs-sdk-go/proto/status"
	"github.com/nspcc-dev/neofs-sdk-go/session"
	sessionv2 "github.com/nspcc-dev/neofs-sdk-go/session/v2"
	"github.com/nspcc-dev/neofs-sdk-go/stat"
	"github.com/nspcc-dev/neofs-sdk-go/user"
	usertest "github.com/nspcc-dev/neofs-sdk-go/user/test"
	"github.com/nspcc-dev/neofs-sdk-go/version"
	"go.uber.org/zap"
	"google.golang.org/grpc"
	"google.golang.org/grpc/credentials/insecure"
	"google.golang.org/grpc/test/bufconn"
)

// ---- recording fakes ----------------------------------------------------------

type rec struct {
	mu  sync.Mutex
	log []string
}

func (r *rec) add(s string) { r.mu.Lock(); r.log = append(r.log, s); r.mu.Unlock() }
func (r *rec) take() []string {
	r.mu.Lock()
	defer r.mu.Unlock()
	l := r.log
	r.log = nil
	return l
}

type cfg struct {
	maint      bool
	infoErr    error
	basic      bool
	sticky     bool
	eacl       error
	tokenErr   error
	cnrNodes   [][]byte // current epoch
	prevNodes  [][]byte // previous epoch only
	ownKey     []byte
	cnrMissing bool
	storeErr   error
	epoch      uint64
}

type env struct {
	r *rec
	c *cfg
}

type handlers struct{ env }

func (h handlers) Get(context.Context, getsvc.Prm) error      { h.r.add("handlers.Get"); return errors.New("fake") }
func (h handlers) Put(ctx context.Context) (*putsvc.Streamer, error) {
	h.r.add("handlers.Put(create-stream)")
	if putSvc != nil {
		return putSvc.Put(ctx) // real putsvc.Service over recording fakes (harness/lib/putfake)
	}
	return new(putsvc.Streamer), nil
}

var (
	putSvc *putsvc.Service
	putRec *putfake.Recorder
)
func (h handlers) Head(context.Context, getsvc.HeadPrm) error     { h.r.add("handlers.Head"); return errors.New("fake") }
func (h handlers) Delete(context.Context, deletesvc.Prm) error    { h.r.add("handlers.Delete"); return errors.New("fake") }
func (h handlers) GetRange(context.Context, getsvc.RangePrm) error { h.r.add("handlers.GetRange"); return errors.New("fake") }

type fsChain struct{ env }

func (f fsChain) ForEachContainerNodePublicKey(_ cid.ID, fn func([]byte) bool) error {
	f.r.add("chain.ForEachContainerNodePublicKey")
	if f.c.cnrMissing {
		return apistatus.ErrContainerNotFound
	}
	for _, k := range f.c.cnrNodes {
		if !fn(k) {
			break
		}
	}
	return nil
}
func (f fsChain) ForEachContainerNodePublicKeyInLastTwoEpochs(_ cid.ID, fn func([]byte) bool) error {
	f.r.add("chain.ForEachContainerNodePublicKeyInLastTwoEpochs")
	if f.c.cnrMissing {
		return apistatus.ErrContainerNotFound
	}
	for _, k := range append(slices.Clone(f.c.cnrNodes), f.c.prevNodes...) {
		if !fn(k) {
			break
		}
	}
	return nil
}
func (f fsChain) SelectContainerNodes(cid.ID) ([][]netmap.NodeInfo, []uint, []iec.Rule, error) {
	f.r.add("chain.SelectContainerNodes")
	return nil, nil, nil, errors.New("fake")
}
func (f fsChain) Get(cid.ID) (container.Container, error) {
	f.r.add("chain.GetContainer")
	return container.Container{}, nil
}
func (f fsChain) IsOwnPublicKey(k []byte) bool { return string(k) == string(f.c.ownKey) }
func (f fsChain) CurrentEpoch() uint64         { return 10 + f.c.epoch }
func (f fsChain) CurrentBlock() uint32         { return 100 }
func (f fsChain) CurrentEpochDuration() uint64 { return 240 }
func (f fsChain) LocalNodeUnderMaintenance() bool {
	f.r.add("chain.LocalNodeUnderMaintenance")
	return f.c.maint
}
func (f fsChain) InvokeContainedScript(*transaction.Transaction, *block.Header, *trigger.Type, *bool) (*result.Invoke, error) {
	f.r.add("chain.InvokeContainedScript")
	return &result.Invoke{State: vmstate.Fault.String()}, nil
}

type storage struct{ env }

func (s storage) SearchObjects(context.Context, cid.ID, []objectcore.SearchFilter, []string, *objectcore.SearchCursor, uint16) ([]client.SearchResultItem, []byte, error) {
	s.r.add("storage.SearchObjects")
	return nil, nil, nil
}
func (s storage) VerifyAndStoreObjectLocally(context.Context, object.Object) error {
	s.r.add("storage.VerifyAndStoreObjectLocally")
	return s.c.storeErr
}
func (s storage) GetSessionPrivateKey(user.ID) (ecdsa.PrivateKey, error) {
	s.r.add("storage.GetSessionPrivateKey")
	return ecdsa.PrivateKey{}, apistatus.ErrSessionTokenNotFound
}
func (s storage) GetSessionV2PrivateKey([]sessionv2.Target) (ecdsa.PrivateKey, error) {
	s.r.add("storage.GetSessionV2PrivateKey")
	return ecdsa.PrivateKey{}, apistatus.ErrSessionTokenNotFound
}

type aclChecker struct{ env }

func (a aclChecker) CheckBasicACL(aclsvc.RequestInfo) bool { a.r.add("acl.CheckBasicACL"); return a.c.basic }
func (a aclChecker) CheckEACL(context.Context, any, cid.ID, oid.ID, aclsvc.RequestInfo) error {
	a.r.add("acl.CheckEACL")
	return a.c.eacl
}
func (a aclChecker) StickyBitCheck(aclsvc.RequestInfo, user.ID) bool {
	a.r.add("acl.StickyBitCheck")
	return a.c.sticky
}

type infoExt struct{ env }

func (x infoExt) info(op acl.Op) (aclsvc.RequestInfo, error) {
	x.r.add("acl.RequestToInfo")
	var ri aclsvc.RequestInfo
	ri.Operation = op
	var policy netmap.PlacementPolicy
	policy.SetReplicas([]netmap.ReplicaDescriptor{{}})
	ri.Container.SetPlacementPolicy(policy)
	return ri, x.c.infoErr
}
func (x infoExt) PutRequestToInfo(context.Context, *protoobject.PutRequest, *protoobject.PutRequest_Body_Init, cid.ID, acl.Op, common.RequestTokens) (aclsvc.RequestInfo, user.ID, error) {
	ri, err := x.info(acl.OpObjectPut)
	return ri, user.ID{}, err
}
func (x infoExt) DeleteRequestToInfo(context.Context, *protoobject.DeleteRequest, cid.ID, common.RequestTokens) (aclsvc.RequestInfo, error) {
	return x.info(acl.OpObjectDelete)
}
func (x infoExt) HeadRequestToInfo(context.Context, *protoobject.HeadRequest, cid.ID, common.RequestTokens) (aclsvc.RequestInfo, error) {
	return x.info(acl.OpObjectHead)
}
func (x infoExt) GetRequestToInfo(context.Context, *protoobject.GetRequest, cid.ID, common.RequestTokens) (aclsvc.RequestInfo, error) {
	return x.info(acl.OpObjectGet)
}
func (x infoExt) RangeRequestToInfo(context.Context, *protoobject.GetRangeRequest, cid.ID, common.RequestTokens) (aclsvc.RequestInfo, error) {
	return x.info(acl.OpObjectRange)
}
func (x infoExt) SearchV2RequestToInfo(context.Context, *protoobject.SearchV2Request, cid.ID, common.RequestTokens) (aclsvc.RequestInfo, error) {
	return x.info(acl.OpObjectSearch)
}
func (x infoExt) VerifySessionTokenMessage(*protosession.SessionTokenV2, sessionv2.Verb, cid.ID) (sessionv2.Token, error) {
	x.r.add("acl.VerifySessionTokenMessage")
	return sessionv2.Token{}, x.c.tokenErr
}
func (x infoExt) VerifySessionV1TokenMessage(*protosession.SessionToken, session.ObjectVerb, cid.ID, oid.ID) (session.Object, error) {
	x.r.add("acl.VerifySessionV1TokenMessage")
	return session.Object{}, x.c.tokenErr
}
func (x infoExt) VerifyBearerTokenMessage(*protoacl.BearerToken) (bearer.Token, error) {
	x.r.add("acl.VerifyBearerTokenMessage")
	return bearer.Token{}, x.c.tokenErr
}

type clients struct{ env }

func (c clients) Get(context.Context, netmap.NodeInfo) (clientcore.MultiAddressClient, error) {
	c.r.add("clients.Get")
	return nil, errors.New("fake")
}

type metrics struct{}

func (metrics) HandleOpExecResult(stat.Method, bool, time.Duration) {}
func (metrics) AddPutPayload(int)                                   {}
func (metrics) AddGetPayload(int)                                   {}

// ---- gRPC plumbing (as cmd/neofs-node/object.go registers the service) -------------

func replaceUnary[REQ any](d *grpc.ServiceDesc, method string, h func(context.Context, *REQ) any) {
	i := slices.IndexFunc(d.Methods, func(md grpc.MethodDesc) bool { return md.MethodName == method })
	d.Methods[i].Handler = func(_ any, ctx context.Context, dec func(any) error, _ grpc.UnaryServerInterceptor) (any, error) {
		req := new(REQ)
		if err := dec(req); err != nil {
			return nil, err
		}
		return h(ctx, req), nil
	}
}

func dial(srv *objectsvc.Server, r *rec) (protoobject.ObjectServiceClient, func()) {
	lis := bufconn.Listen(1 << 20)
	rcv := func(where string) {
		if p := recover(); p != nil {
			r.add("PANIC:" + where)
		}
	}
	gs := grpc.NewServer(grpc.ForceServerCodecV2(iprotobuf.BufferedCodec{}),
		grpc.ChainUnaryInterceptor(func(ctx context.Context, req any, info *grpc.UnaryServerInfo, h grpc.UnaryHandler) (resp any, err error) {
			defer rcv(info.FullMethod)
			return h(ctx, req)
		}),
		grpc.ChainStreamInterceptor(func(s any, ss grpc.ServerStream, info *grpc.StreamServerInfo, h grpc.StreamHandler) (err error) {
			defer rcv(info.FullMethod)
			return h(s, ss)
		}))
	d := protoobject.ObjectService_ServiceDesc
	d.Methods = slices.Clone(protoobject.ObjectService_ServiceDesc.Methods)
	replaceUnary(&d, "Head", func(ctx context.Context, req *protoobject.HeadRequest) any {
		defer rcv("HeadBuffered")
		return srv.HeadBuffered(ctx, req)
	})
	replaceUnary(&d, "SearchV2", func(ctx context.Context, req *protoobject.SearchV2Request) any {
		defer rcv("SearchV2Buffered")
		return srv.SearchV2Buffered(ctx, req)
	})
	gs.RegisterService(&d, srv)
	go func() { _ = gs.Serve(lis) }()
	c, err := grpc.NewClient("localhost:8080",
		grpc.WithContextDialer(func(ctx context.Context, _ string) (net.Conn, error) { return lis.DialContext(ctx) }),
		grpc.WithTransportCredentials(insecure.NewCredentials()))
	if err != nil {
		panic(err)
	}
	return protoobject.NewObjectServiceClient(c), func() { _ = c.Close(); gs.Stop() }
}

// ---- scenarios -----------------------------------------------------------------------

type result1 struct {
	Method   string   `json:"method"`
	Scenario string   `json:"scenario"`
	Base     string   `json:"base"` // scenario without the _ttl1 / _nometa suffix
	Code     uint32   `json:"code"`     // status code of the (first) response; 0 = OK
	RPCErr   bool     `json:"rpc_err"`  // transport-level error instead of a response
	Effects  []string `json:"effects"`  // storage / network / data effects recorded by the fakes
	Calls    []string `json:"calls"`    // everything the fakes saw (distinct, sorted)
	DataMsgs int      `json:"data_msgs"` // response messages carrying header/payload/result data
}

// "ok" comes first on purpose: a served request precedes every refusal, so state kept by the
// server between requests (caches of verdicts, of the maintenance flag, ...) is exercised.
// *_ttl1 variants send the same request with TTL 1 (the "last hop" form of a request).
var scenarios = []string{"ok", "unsigned", "badsig", "maintenance", "bad_token", "info_err", "basic_deny", "eacl_deny",
	"ok_ttl1", "unsigned_ttl1", "badsig_ttl1", "maintenance_ttl1", "basic_deny_ttl1", "eacl_deny_ttl1", "maintenance_nometa"}

func isEffect(s string) bool {
	switch s {
	case "handlers.Get", "handlers.Head", "handlers.Delete", "handlers.GetRange",
		"storage.SearchObjects", "storage.VerifyAndStoreObjectLocally", "clients.Get", "chain.SelectContainerNodes":
		return true
	}
	return len(s) > 6 && s[:6] == "PANIC:"
}

func metaHdr(badToken bool, ttl uint32) *protosession.RequestMetaHeader {
	m := &protosession.RequestMetaHeader{Version: version.Current().ProtoMessage(), Ttl: ttl}
	if badToken {
		m.SessionToken = &protosession.SessionToken{Body: &protosession.SessionToken_Body{Id: []byte{1, 2, 3}}}
	}
	return m
}

func main() {
	if len(os.Args) > 1 && os.Args[1] == "replicate" {
		replicateMain()
		return
	}
	enc := json.NewEncoder(os.Stdout)
	r := &rec{}
	c := &cfg{}
	e := env{r, c}
	signer := usertest.User()
	srvKey := neofscryptotest.Signer().ECDSAPrivateKey
	putSvc, putRec = putfake.New(putfake.Options{NodeKey: &srvKey, MaxObjectSize: 1 << 20, Epoch: 10})
	srv := objectsvc.New(handlers{e}, fsChain{e}, storage{e}, nil, srvKey, metrics{}, aclChecker{e}, infoExt{e}, clients{e}, zap.NewNop())
	cl, stop := dial(srv, r)
	defer stop()
	addr := oid.NewAddress(cidtest.ID(), oidtest.ID())
	ctx, cancel := context.WithTimeout(context.Background(), 60*time.Second)
	defer cancel()

	methods := []string{"Get", "Head", "GetRange", "Delete", "SearchV2", "Put"}
	for _, m := range methods {
		for _, scFull := range scenarios {
			*c = cfg{basic: true, sticky: true, eacl: aclsvc.ErrNotMatched}
			sc, ttl, noMeta := scFull, uint32(2), false
			if strings.HasSuffix(sc, "_ttl1") {
				sc, ttl = strings.TrimSuffix(sc, "_ttl1"), 1
			}
			if strings.HasSuffix(sc, "_nometa") {
				sc, noMeta = strings.TrimSuffix(sc, "_nometa"), true
			}
			switch sc {
			case "maintenance":
				c.maint = true
			case "bad_token":
				c.tokenErr = errors.New("token rejected")
			case "info_err":
				c.infoErr = errors.New("cannot classify")
			case "basic_deny":
				c.basic = false
			case "eacl_deny":
				c.eacl = errors.New("denied by table")
			}
			r.take()
			res := result1{Method: m, Scenario: scFull, Base: sc}
			sign := sc != "unsigned"
			mutate := sc == "badsig"
			mh := metaHdr(sc == "bad_token", ttl)
			if noMeta {
				mh = nil
			}
			var code uint32
			var rpcErr error
			data := 0
			switch m {
			case "Get":
				req := &protoobject.GetRequest{Body: &protoobject.GetRequest_Body{Address: addr.ProtoMessage()}, MetaHeader: mh}
				if sign {
					req.VerifyHeader, _ = neofscrypto.SignRequestWithBuffer(signer, req, nil)
				}
				if mutate {
					req.Body.Raw = true
				}
				st, err := cl.Get(ctx, req)
				rpcErr = err
				if err == nil {
					first := true
					for {
						resp, err := st.Recv()
						if err != nil {
							if !errors.Is(err, io.EOF) && first {
								rpcErr = err
							}
							break
						}
						if first {
							code = resp.GetMetaHeader().GetStatus().GetCode()
							first = false
						}
						if resp.GetBody().GetObjectPart() != nil {
							data++
						}
					}
				}
			case "GetRange":
				req := &protoobject.GetRangeRequest{Body: &protoobject.GetRangeRequest_Body{Address: addr.ProtoMessage(), Range: &protoobject.Range{Offset: 0, Length: 1}}, MetaHeader: mh}
				if sign {
					req.VerifyHeader, _ = neofscrypto.SignRequestWithBuffer(signer, req, nil)
				}
				if mutate {
					req.Body.Range.Length = 2
				}
				st, err := cl.GetRange(ctx, req)
				rpcErr = err
				if err == nil {
					first := true
					for {
						resp, err := st.Recv()
						if err != nil {
							if !errors.Is(err, io.EOF) && first {
								rpcErr = err
							}
							break
						}
						if first {
							code = resp.GetMetaHeader().GetStatus().GetCode()
							first = false
						}
						if resp.GetBody().GetRangePart() != nil {
							data++
						}
					}
				}
			case "Head":
				req := &protoobject.HeadRequest{Body: &protoobject.HeadRequest_Body{Address: addr.ProtoMessage()}, MetaHeader: mh}
				if sign {
					req.VerifyHeader, _ = neofscrypto.SignRequestWithBuffer(signer, req, nil)
				}
				if mutate {
					req.Body.Raw = true
				}
				resp, err := cl.Head(ctx, req)
				rpcErr = err
				code = resp.GetMetaHeader().GetStatus().GetCode()
				if resp.GetBody().GetHead() != nil {
					data++
				}
			case "Delete":
				req := &protoobject.DeleteRequest{Body: &protoobject.DeleteRequest_Body{Address: addr.ProtoMessage()}, MetaHeader: mh}
				if sign {
					req.VerifyHeader, _ = neofscrypto.SignRequestWithBuffer(signer, req, nil)
				}
				if mutate {
					req.Body.Address.ObjectId.Value[0] ^= 1
				}
				resp, err := cl.Delete(ctx, req)
				rpcErr = err
				code = resp.GetMetaHeader().GetStatus().GetCode()
				if resp.GetBody().GetTombstone() != nil {
					data++
				}
			case "SearchV2":
				req := &protoobject.SearchV2Request{Body: &protoobject.SearchV2Request_Body{ContainerId: addr.Container().ProtoMessage(), Version: 1, Count: 10}, MetaHeader: mh}
				if sign {
					req.VerifyHeader, _ = neofscrypto.SignRequestWithBuffer(signer, req, nil)
				}
				if mutate {
					req.Body.Count = 11
				}
				resp, err := cl.SearchV2(ctx, req)
				rpcErr = err
				code = resp.GetMetaHeader().GetStatus().GetCode()
				if len(resp.GetBody().GetResult()) > 0 {
					data++
				}
			case "Put":
				if sc == "ok" {
					continue // the fake stream object cannot accept a header; only refusals are driven
				}
				obj := objecttest.Object()
				obj.SetContainerID(addr.Container())
				mo := obj.ProtoMessage()
				req := &protoobject.PutRequest{Body: &protoobject.PutRequest_Body{ObjectPart: &protoobject.PutRequest_Body_Init_{Init: &protoobject.PutRequest_Body_Init{
					ObjectId: mo.ObjectId, Signature: mo.Signature, Header: mo.Header}}}, MetaHeader: mh}
				if sign {
					req.VerifyHeader, _ = neofscrypto.SignRequestWithBuffer(signer, req, nil)
				}
				if mutate {
					req.Body.GetInit().CopiesNumber = 7
				}
				st, err := cl.Put(ctx)
				rpcErr = err
				if err == nil {
					_ = st.Send(req)
					resp, err := st.CloseAndRecv()
					rpcErr = err
					code = resp.GetMetaHeader().GetStatus().GetCode()
				}
			}
			calls := r.take()
			res.Code = code
			res.RPCErr = rpcErr != nil
			res.DataMsgs = data
			res.Effects = []string{}
			seen := map[string]bool{}
			for _, x := range calls {
				if isEffect(x) {
					res.Effects = append(res.Effects, x)
				}
				if !seen[x] {
					seen[x] = true
					res.Calls = append(res.Calls, x)
				}
			}
			sort.Strings(res.Calls)
			_ = enc.Encode(res)
		}
	}
	for _, line := range proxyCases(srv, r, c) {
		_ = enc.Encode(line)
	}
	for _, line := range putStreamCases(cl, r, c, srvKey) {
		_ = enc.Encode(line)
	}
	// C45 "only": replication is served in maintenance
	*c = cfg{maint: true}
	for _, line := range replicateCases(srv, r, c, 1, 40) {
		_ = enc.Encode(line)
	}
	_ = strconv.Itoa
	_ = fmt.Sprint
	_ = protostatus.Status{}
	_ = refs.SignatureScheme_ECDSA_SHA512
}
