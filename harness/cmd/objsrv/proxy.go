//go:build verif

package main

import (
	"context"
	"errors"

	objectsvc "github.com/nspcc-dev/neofs-node/pkg/services/object"
	aclsvc "github.com/nspcc-dev/neofs-node/pkg/services/object/acl/v2"
	"github.com/nspcc-dev/neofs-sdk-go/container/acl"
	cidtest "github.com/nspcc-dev/neofs-sdk-go/container/id/test"
	"github.com/nspcc-dev/neofs-sdk-go/object"
	protoobject "github.com/nspcc-dev/neofs-sdk-go/proto/object"
	usertest "github.com/nspcc-dev/neofs-sdk-go/user/test"
	"google.golang.org/grpc"
	"google.golang.org/grpc/metadata"
	"google.golang.org/protobuf/proto"
)

type relayStream struct {
	grpc.ServerStream
	msgs  int
	bytes int
}

func (s *relayStream) Context() context.Context           { return context.Background() }
func (s *relayStream) Send(*protoobject.GetResponse) error { s.msgs++; return nil }
func (s *relayStream) SendMsg(m any) error {
	s.msgs++
	return nil
}
func (s *relayStream) SetHeader(metadata.MD) error  { return nil }
func (s *relayStream) SendHeader(metadata.MD) error { return nil }
func (s *relayStream) SetTrailer(metadata.MD)       {}
func (s *relayStream) RecvMsg(any) error            { return nil }

// proxyCases drives the relay of a remote GET stream (header + 2 payload chunks) through the
// real proxy context with the header-time eACL evaluation denying / not matching.
func proxyCases(srv *objectsvc.Server, r *rec, c *cfg) []result1 {
	var out []result1
	signer := usertest.User()
	cnr := cidtest.ID()
	obj := object.New(cnr, signer.ID)
	pld := []byte("0123456789abcdef0123456789abcdef")
	obj.SetPayload(pld)
	obj.SetPayloadSize(uint64(len(pld)))
	if err := obj.SetVerificationFields(signer); err != nil {
		panic(err)
	}
	mo := obj.ProtoMessage()
	enc := func(m *protoobject.GetResponse) []byte {
		b, err := proto.Marshal(m)
		if err != nil {
			panic(err)
		}
		return b
	}
	initMsg := enc(&protoobject.GetResponse{Body: &protoobject.GetResponse_Body{ObjectPart: &protoobject.GetResponse_Body_Init_{
		Init: &protoobject.GetResponse_Body_Init{ObjectId: mo.ObjectId, Signature: mo.Signature, Header: mo.Header}}}})
	ch1 := enc(&protoobject.GetResponse{Body: &protoobject.GetResponse_Body{ObjectPart: &protoobject.GetResponse_Body_Chunk{Chunk: pld[:16]}}})
	ch2 := enc(&protoobject.GetResponse{Body: &protoobject.GetResponse_Body{ObjectPart: &protoobject.GetResponse_Body_Chunk{Chunk: pld[16:]}}})
	for _, deny := range []bool{true, false} {
		for _, payloadOnly := range []bool{false, true} {
			*c = cfg{basic: true, sticky: true, eacl: aclsvc.ErrNotMatched}
			sc := "ok"
			if deny {
				c.eacl = errors.New("denied by header filter")
				sc = "eacl_deny"
			}
			name := "hdr_" + sc
			if payloadOnly {
				name += "_payload_only"
			}
			r.take()
			st := &relayStream{}
			var ri aclsvc.RequestInfo
			ri.Operation = acl.OpObjectGet
			res := result1{Method: "GetProxyRelay", Scenario: name, Base: sc, Effects: []string{}}
			func() {
				defer func() {
					if p := recover(); p != nil {
						res.Effects = append(res.Effects, "PANIC:proxy")
					}
				}()
				err := objectsvc.VerifProxyGet(srv, st, true, payloadOnly, cnr, obj.GetID(), ri, [][]byte{initMsg, ch1, ch2})
				if err != nil {
					res.Code = 2048
				}
			}()
			res.DataMsgs = st.msgs
			for _, x := range r.take() {
				res.Calls = append(res.Calls, x)
			}
			out = append(out, res)
		}
	}
	return out
}
