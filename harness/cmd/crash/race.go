//go:build verif

package main

import (
	"encoding/json"
	"os"
	"sync"

	oid "github.com/nspcc-dev/neofs-sdk-go/object/id"
)

// raceT is the observation of one gated schedule of two concurrent operations.
type raceT struct {
	Race   string `json:"race"`
	WC     bool   `json:"wc"`
	Trace  [][]int `json:"trace"`
	Exists int    `json:"exists"`
	Get    int    `json:"get"`
	Blob   int    `json:"blob"`
	Cache  int    `json:"cache"`
}

// racePutDelete: Put(0) is stopped right after its data write (blob or
// write-cache put), a complete Delete([0]) runs, then the put goes on with its
// metabase update. Both operations hold the shard's mode lock for reading only,
// so the real code admits this schedule.
func racePutDelete(wc bool) (raceT, error) {
	res := raceT{Race: "put-delete", WC: wc}
	dir, err := os.MkdirTemp("", "verif-crash-")
	if err != nil {
		return res, err
	}
	defer os.RemoveAll(dir)
	h := history{WC: wc, Objs: []objT{{K: kRegular}}}
	c := &ctl{}
	e, err := openShard(dir, h, c)
	if err != nil {
		return res, err
	}
	defer e.sh.Close()
	if err := e.prepare(); err != nil {
		return res, err
	}
	var (
		mu      sync.Mutex
		reached = make(chan struct{})
		release = make(chan struct{})
		armed   = true
	)
	c.gate = func(kind, a int, after bool) {
		mu.Lock()
		if !after {
			mu.Unlock()
			return
		}
		res.Trace = append(res.Trace, []int{kind, a})
		hit := armed && (kind == cBlobPut || kind == cWcPut)
		if hit {
			armed = false
		}
		mu.Unlock()
		if hit {
			close(reached)
			<-release
		}
	}
	done := make(chan error, 1)
	go func() { done <- e.sh.Put(e.uni[0].obj, e.uni[0].data) }()
	<-reached
	if err := e.sh.Delete(theCnr, []oid.ID{idOf(0)}); err != nil {
		return res, err
	}
	close(release)
	if err := <-done; err != nil {
		return res, err
	}
	c.gate = nil
	obs := e.observe()[0]
	res.Exists, res.Get, res.Blob, res.Cache = obs[0], obs[1], obs[2], obs[3]
	return res, nil
}

func runRaces(enc *json.Encoder) {
	for _, wc := range []bool{false, true} {
		r, err := racePutDelete(wc)
		if err != nil {
			fatal("race: %v", err)
		}
		_ = enc.Encode(r)
	}
}
