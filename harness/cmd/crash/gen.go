//go:build verif

package main

import (
	"bufio"
	"encoding/json"
	"os"
	"strconv"
	"sync"

	"github.com/nspcc-dev/neofs-node/pkg/local_object_storage/shard"
	oid "github.com/nspcc-dev/neofs-sdk-go/object/id"
)

func runAll09(hs []history, enc *json.Encoder) {
	var (
		wg  sync.WaitGroup
		sem = make(chan struct{}, workers())
		res = make([]case09T, len(hs))
	)
	for i := range hs {
		wg.Add(1)
		sem <- struct{}{}
		go func(i int) {
			defer wg.Done()
			defer func() { <-sem }()
			cs, err := runC09(i, hs[i])
			if err != nil {
				fatal("history %d: %v", i, err)
			}
			res[i] = cs
		}(i)
	}
	wg.Wait()
	for i := range res {
		_ = enc.Encode(res[i])
	}
}

// genUniverse: 4 regular objects, then tombstones and locks aimed at them, with
// small expiration epochs so that expiry, locks and tombstones collide.
func genUniverse(r *rng) []objT {
	objs := []objT{
		{K: kRegular},
		{K: kRegular, X: uint64(1 + r.intn(3))},
		{K: kRegular},
		{K: kRegular},
	}
	if r.intn(2) == 0 {
		objs[3].X = uint64(1 + r.intn(4))
	}
	exp := func(lo, span int) uint64 {
		if r.intn(5) == 0 {
			return 0
		}
		return uint64(lo + r.intn(span))
	}
	objs = append(objs, objT{K: kTomb, T: r.intn(4), X: exp(2, 4)})
	objs = append(objs, objT{K: kLock, T: r.intn(4), X: exp(1, 4)})
	if r.intn(2) == 0 {
		objs = append(objs, objT{K: kTomb, T: r.intn(4), X: exp(1, 3)})
	} else {
		objs = append(objs, objT{K: kLock, T: r.intn(4), X: exp(1, 3)})
	}
	return objs
}

func genC15(r *rng, i int) history {
	h := history{WC: i%3 != 2, Objs: genUniverse(r)}
	n := 8 + r.intn(5)
	var epoch uint64
	nobj := len(h.Objs)
	for len(h.Ops) < n {
		x := r.intn(100)
		switch {
		case x < 36:
			a := r.intn(nobj)
			if r.intn(3) != 0 {
				a = r.intn(4) // regular objects are put more often
			}
			h.Ops = append(h.Ops, opT{Op: "put", A: a, Fail: r.intn(7) == 0})
		case x < 46:
			as := []int{r.intn(nobj)}
			if r.intn(3) == 0 {
				b := r.intn(nobj)
				if b != as[0] {
					as = append(as, b)
				}
			}
			h.Ops = append(h.Ops, opT{Op: "del", As: as})
		case x < 58:
			h.Ops = append(h.Ops, opT{Op: "mark", A: r.intn(nobj), Mk: r.intn(2)})
		case x < 72:
			h.Ops = append(h.Ops, opT{Op: "gc"})
		case x < 82:
			epoch += uint64(1 + r.intn(2))
			h.Ops = append(h.Ops, opT{Op: "epoch", E: epoch})
		default:
			if h.WC {
				h.Ops = append(h.Ops, opT{Op: "flush", A: r.intn(nobj)})
			}
		}
	}
	return h
}

func (e *env) doOpExtra(i int, op opT, res *int) bool {
	switch op.Op {
	case "restart":
		if err := e.restart(true); err != nil {
			fatal("restart: %v", err)
		}
	case "resync":
		mb := shard.VerifCrashMetabase(e.sh)
		ord := make([]oid.Address, len(op.Ord))
		for j, a := range op.Ord {
			ord[j] = addrOf(a)
		}
		e.blob.ord = ord
		saved := e.ep.v.Load()
		if op.E0 {
			e.ep.v.Store(0)
		}
		err := mb.ResyncFromBlobstor(e.blob, nil)
		e.ep.v.Store(saved)
		e.blob.ord = nil
		if err != nil {
			*res = 1
		}
	default:
		return false
	}
	return true
}

// restart closes the shard (clean restart) or abandons the operation in flight
// (process death emulated by a panic out of the wrapped component call: nothing
// after that call has run) and opens a fresh shard on the same directories.
func (e *env) restart(clean bool) error {
	epoch := e.ep.v.Load()
	_ = e.sh.Close()
	n, err := openShard(e.dir, e.h, e.c)
	if err != nil {
		return err
	}
	*e = *n
	e.ep.v.Store(epoch)
	return nil
}

// doOpCut runs one operation of a C09 history; returns false if it was cut.
func (e *env) doOpCut(i int, op opT) (completed bool) {
	e.c.mu.Lock()
	e.c.opn, e.c.cut, e.c.cutAfter = 0, op.Cut, op.CutAfter
	e.c.mu.Unlock()
	defer func() {
		if r := recover(); r != nil {
			if _, ok := r.(cutSentinel); !ok {
				panic(r)
			}
			completed = false
			if err := e.restart(false); err != nil {
				fatal("restart after cut: %v", err)
			}
		}
		e.c.mu.Lock()
		e.c.cut = 0
		e.c.mu.Unlock()
	}()
	e.doOp(i, op)
	return true
}

type hopObsT struct {
	Cut bool    `json:"cut"` // the operation was really cut (it had that many component calls)
	Obs [][]int `json:"obs"` // per address: exists, get, blob has, write-cache has
}

type case09T struct {
	ID   int       `json:"id"`
	H    history   `json:"h"`
	Hops []hopObsT `json:"hops"`
}

// runC09 runs the history on one shard (restarted where the history says so) and
// observes every address after every operation.
func runC09(id int, h history) (case09T, error) {
	cs := case09T{ID: id, H: h}
	dir, err := os.MkdirTemp("", "verif-crash-")
	if err != nil {
		return cs, err
	}
	defer os.RemoveAll(dir)
	e, err := openShard(dir, h, &ctl{})
	if err != nil {
		return cs, err
	}
	if err := e.prepare(); err != nil {
		return cs, err
	}
	for i, op := range h.Ops {
		done := e.doOpCut(i, op)
		cs.Hops = append(cs.Hops, hopObsT{Cut: !done, Obs: e.observe()})
	}
	_ = e.sh.Close()
	return cs, nil
}

func genC09(r *rng, i int) history {
	h := history{WC: i%2 == 0, Objs: genUniverse(r)}
	n := 10 + r.intn(6)
	var epoch uint64
	nobj := len(h.Objs)
	perm := func() []int {
		p := make([]int, nobj)
		for j := range p {
			p[j] = j
		}
		for j := nobj - 1; j > 0; j-- {
			k := r.intn(j + 1)
			p[j], p[k] = p[k], p[j]
		}
		return p
	}
	cut := func(o opT) opT {
		if r.intn(5) == 0 {
			o.Cut = 1 + r.intn(3)
			o.CutAfter = r.intn(2) == 0
		}
		return o
	}
	// something to remove first: two or three stored regular objects
	for _, a := range perm()[:3] {
		if a < 4 {
			h.Ops = append(h.Ops, opT{Op: "put", A: a})
		}
	}
	for len(h.Ops) < n {
		x := r.intn(100)
		switch {
		case x < 30:
			a := r.intn(nobj)
			if r.intn(3) == 0 {
				a = r.intn(4)
			}
			h.Ops = append(h.Ops, cut(opT{Op: "put", A: a, Fail: r.intn(12) == 0}))
		case x < 35:
			h.Ops = append(h.Ops, cut(opT{Op: "del", As: []int{r.intn(nobj)}}))
		case x < 43:
			h.Ops = append(h.Ops, cut(opT{Op: "mark", A: r.intn(4), Mk: r.intn(2)}))
		case x < 60:
			h.Ops = append(h.Ops, cut(opT{Op: "gc"}))
		case x < 74:
			epoch += uint64(1 + r.intn(2))
			h.Ops = append(h.Ops, opT{Op: "epoch", E: epoch})
		case x < 82:
			if h.WC {
				h.Ops = append(h.Ops, cut(opT{Op: "flush", A: r.intn(nobj)}))
			}
		case x < 88:
			h.Ops = append(h.Ops, opT{Op: "restart"})
		default:
			h.Ops = append(h.Ops, opT{Op: "resync", Ord: perm(), E0: r.intn(3) == 0})
		}
	}
	return h
}

func extraCommand(self string, seed uint64, args []string) bool {
	enc := json.NewEncoder(os.Stdout)
	switch args[0] {
	case "race":
		runRaces(enc)
		return true
	case "c09":
		n, _ := strconv.Atoi(args[1])
		r := &rng{s: seed*0x9e3779b97f4a7c15 + 9}
		hs := make([]history, n)
		for i := range hs {
			hs[i] = genC09(r, i)
		}
		runAll09(hs, enc)
		return true
	case "run09":
		sc := bufio.NewScanner(os.Stdin)
		sc.Buffer(make([]byte, 1<<20), 1<<26)
		var hs []history
		for sc.Scan() {
			var h history
			if err := json.Unmarshal(sc.Bytes(), &h); err == nil {
				hs = append(hs, h)
			}
		}
		runAll09(hs, enc)
		return true
	}
	return false
}
