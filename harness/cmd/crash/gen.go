//go:build verif

package main

// genUniverse: 4 regular objects, then tombstones and locks aimed at them, with
// small expiration epochs so that expiry, locks and tombstones collide.
func genUniverse(r *rng) []objT {
	objs := []objT{
		{K: kRegular},
		{K: kRegular, X: uint64(1 + r.intn(3))},
		{K: kRegular},
		{K: kRegular},
	}
	if r.intn(2) == 0 {
		objs[3].X = uint64(1 + r.intn(4))
	}
	exp := func(lo, span int) uint64 {
		if r.intn(5) == 0 {
			return 0
		}
		return uint64(lo + r.intn(span))
	}
	objs = append(objs, objT{K: kTomb, T: r.intn(4), X: exp(2, 4)})
	objs = append(objs, objT{K: kLock, T: r.intn(4), X: exp(1, 4)})
	if r.intn(2) == 0 {
		objs = append(objs, objT{K: kTomb, T: r.intn(4), X: exp(1, 3)})
	} else {
		objs = append(objs, objT{K: kLock, T: r.intn(4), X: exp(1, 3)})
	}
	return objs
}

func genC15(r *rng, i int) history {
	h := history{WC: i%3 != 2, Objs: genUniverse(r)}
	n := 8 + r.intn(5)
	var epoch uint64
	nobj := len(h.Objs)
	for len(h.Ops) < n {
		x := r.intn(100)
		switch {
		case x < 36:
			a := r.intn(nobj)
			if r.intn(3) != 0 {
				a = r.intn(4) // regular objects are put more often
			}
			h.Ops = append(h.Ops, opT{Op: "put", A: a, Fail: r.intn(7) == 0})
		case x < 46:
			as := []int{r.intn(nobj)}
			if r.intn(3) == 0 {
				b := r.intn(nobj)
				if b != as[0] {
					as = append(as, b)
				}
			}
			h.Ops = append(h.Ops, opT{Op: "del", As: as})
		case x < 58:
			h.Ops = append(h.Ops, opT{Op: "mark", A: r.intn(nobj), Mk: r.intn(2)})
		case x < 72:
			h.Ops = append(h.Ops, opT{Op: "gc"})
		case x < 82:
			epoch += uint64(1 + r.intn(2))
			h.Ops = append(h.Ops, opT{Op: "epoch", E: epoch})
		default:
			if h.WC {
				h.Ops = append(h.Ops, opT{Op: "flush", A: r.intn(nobj)})
			}
		}
	}
	return h
}

func (e *env) doOpExtra(i int, op opT, res *int) bool { return false }

func extraCommand(self string, seed uint64, args []string) bool { return false }
