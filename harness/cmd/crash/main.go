//go:build verif

// Crash-consistency harness of the shard (C15, C09). Built inside /repo's module
// through `go build -overlay` (see /verif/lib/vlib.py).
//
// A history (list of shard operations over a small universe of objects) is run
// against a real shard (real bbolt metabase, real FSTree blob storage, real
// write-cache) in a CHILD process. The blob storage is wrapped with
// shard.WithBlobstor, the write-cache through a verif hook; the wrappers count the
// component calls and os.Exit() the child before or after the k-th one. The
// parent then reopens the directories with a fresh shard and reports, for every
// address of the universe, what Exists and a full Get say and what the components
// hold. Only projected observables are printed.
package main

import (
	"bufio"
	"bytes"
	"crypto/sha256"
	"encoding/json"
	"errors"
	"fmt"
	"os"
	"os/exec"
	"path/filepath"
	"strconv"
	"strings"
	"sync"
	"sync/atomic"
	"time"

	"github.com/nspcc-dev/bbolt"
	"github.com/nspcc-dev/neofs-node/pkg/local_object_storage/blobstor/common"
	"github.com/nspcc-dev/neofs-node/pkg/local_object_storage/blobstor/fstree"
	meta "github.com/nspcc-dev/neofs-node/pkg/local_object_storage/metabase"
	"github.com/nspcc-dev/neofs-node/pkg/local_object_storage/shard"
	"github.com/nspcc-dev/neofs-node/pkg/local_object_storage/shard/mode"
	"github.com/nspcc-dev/neofs-node/pkg/local_object_storage/writecache"
	"github.com/nspcc-dev/neofs-sdk-go/checksum"
	apistatus "github.com/nspcc-dev/neofs-sdk-go/client/status"
	cid "github.com/nspcc-dev/neofs-sdk-go/container/id"
	"github.com/nspcc-dev/neofs-sdk-go/object"
	oid "github.com/nspcc-dev/neofs-sdk-go/object/id"
	"github.com/nspcc-dev/neofs-sdk-go/user"
	"go.uber.org/zap"
)

// ---- PRNG (splitmix64), the only source of randomness ----------------------

type rng struct{ s uint64 }

func (r *rng) next() uint64 {
	r.s += 0x9e3779b97f4a7c15
	z := r.s
	z = (z ^ (z >> 30)) * 0xbf58476d1ce4e5b9
	z = (z ^ (z >> 27)) * 0x94d049bb133111eb
	return z ^ (z >> 31)
}
func (r *rng) intn(n int) int { return int(r.next() % uint64(n)) }

// ---- universe ---------------------------------------------------------------

// object kinds
const (
	kRegular = 0
	kTomb    = 1
	kLock    = 2
)

type objT struct {
	K int    `json:"k"` // kind
	T int    `json:"t"` // target address index (tombstone, lock)
	X uint64 `json:"x"` // expiration epoch, 0 = none
}

type opT struct {
	Op   string `json:"op"` // put del mark gc epoch flush resync restart
	A    int    `json:"a,omitempty"`
	As   []int  `json:"as,omitempty"`
	Fail bool   `json:"fail,omitempty"` // put: the metabase refuses the update (injected)
	Mk   int    `json:"mk,omitempty"`   // mark: 0 default (forced), 1 redundant
	E    uint64 `json:"e,omitempty"`
	Ord  []int  `json:"ord,omitempty"` // resync: enumeration order of the blobs
	E0   bool   `json:"e0,omitempty"`  // resync: epoch source returns 0 (as neofs-lancet does)
	// C09: the process dies inside this operation, before (or after) its Cut-th wrapped
	// component call, and restarts (0 = the operation completes)
	Cut      int  `json:"cut,omitempty"`
	CutAfter bool `json:"cut_after,omitempty"`
}

type history struct {
	WC   bool   `json:"wc"`
	Objs []objT `json:"objs"`
	Ops  []opT  `json:"ops"`
}

// crash specification of a child run
type spec struct {
	H     history `json:"h"`
	K     int     `json:"k"`     // 1-based index of the wrapped component call to die at (0 = none)
	After bool    `json:"after"` // die after (true) or before (false) the K-th call
	End   int     `json:"end"`   // if K == 0: die (without closing anything) after this many operations
	Dir   string  `json:"dir"`
}

var theCnr = func() cid.ID {
	var c cid.ID
	h := sha256.Sum256([]byte("verif-crash-container"))
	copy(c[:], h[:])
	return c
}()

var theOwner = func() user.ID {
	var u user.ID
	h := sha256.Sum256([]byte("verif-crash-owner"))
	u[0] = 0x35
	copy(u[1:21], h[:20])
	cs := sha256.Sum256(u[:21])
	cs = sha256.Sum256(cs[:])
	copy(u[21:], cs[:4])
	return u
}()

// OIDs are chosen so that the index order is the byte order of the IDs (the order
// of every metabase iteration).
func idOf(i int) oid.ID {
	var id oid.ID
	h := sha256.Sum256([]byte("verif-crash-object-" + strconv.Itoa(i)))
	copy(id[:], h[:])
	id[0] = byte(i + 1)
	return id
}

func addrOf(i int) oid.Address { return oid.NewAddress(theCnr, idOf(i)) }

type uobj struct {
	obj  *object.Object
	data []byte
}

// index len(objs) is an auxiliary regular object that is stored first and never
// touched: it makes the container's metabase bucket exist.
func mkUniverse(objs []objT) []uobj {
	res := make([]uobj, 0, len(objs)+1)
	mk := func(i int, t objT) uobj {
		o := object.New(theCnr, theOwner)
		o.SetID(idOf(i))
		switch t.K {
		case kTomb:
			o.AssociateDeleted(idOf(t.T))
		case kLock:
			o.AssociateLocked(idOf(t.T))
		default:
			o.SetType(object.TypeRegular)
			h := sha256.Sum256([]byte("payload-" + strconv.Itoa(i)))
			pl := bytes.Repeat(h[:], 2+i%5)
			o.SetPayload(pl)
		}
		if t.X != 0 {
			o.SetAttributes(append(o.Attributes(), object.NewAttribute(object.AttributeExpirationEpoch, strconv.FormatUint(t.X, 10)))...)
		}
		o.SetPayloadSize(uint64(len(o.Payload())))
		o.SetPayloadChecksum(checksum.NewSHA256(sha256.Sum256(o.Payload())))
		return uobj{obj: o, data: o.Marshal()}
	}
	for i, t := range objs {
		res = append(res, mk(i, t))
	}
	res = append(res, mk(len(objs), objT{K: kRegular}))
	return res
}

// ---- component wrappers -------------------------------------------------------

// call kinds (the data steps of the model)
const (
	cBlobPut = 1
	cBlobDel = 2
	cWcPut   = 3
	cWcDel   = 4
)

type ctl struct {
	mu    sync.Mutex
	n     int
	k     int
	after bool
	idx   map[oid.Address]int
	tr    *os.File
	gate  func(kind, a int, after bool) // optional scheduling gate (race runs)
	snap  func(n int, after bool)        // optional: snapshot the directories at this crash point
	// in-process process-death emulation (C09): panic out of the operation
	opn, cut int
	cutAfter bool
}

type cutSentinel struct{}

func (c *ctl) logf(format string, a ...any) {
	if c.tr != nil {
		fmt.Fprintf(c.tr, format, a...)
	}
}

// around runs one wrapped component call.
func (c *ctl) around(kind int, addr oid.Address, f func() error) error {
	a, ok := c.idx[addr]
	if !ok {
		return f() // the auxiliary object
	}
	if c.gate != nil {
		c.gate(kind, a, false)
	}
	c.mu.Lock()
	c.n++
	c.opn++
	n := c.n
	cutHere := c.cut > 0 && c.opn == c.cut
	if c.k == n && !c.after {
		os.Exit(3)
	}
	if cutHere && !c.cutAfter {
		c.cut = 0
		c.mu.Unlock()
		panic(cutSentinel{})
	}
	if c.snap != nil {
		c.snap(n, false)
	}
	c.mu.Unlock()
	err := f()
	c.mu.Lock()
	c.logf("C %d %d\n", kind, a)
	if c.k == n && c.after {
		os.Exit(3)
	}
	if c.snap != nil {
		c.snap(n, true)
	}
	if cutHere && c.cutAfter {
		c.cut = 0
		c.mu.Unlock()
		panic(cutSentinel{})
	}
	c.mu.Unlock()
	if c.gate != nil {
		c.gate(kind, a, true)
	}
	return err
}

type blobW struct {
	common.Storage
	c *ctl
	// resync support: enumeration order of Iterate
	ord []oid.Address
}

func (b *blobW) Put(a oid.Address, d []byte) error {
	return b.c.around(cBlobPut, a, func() error { return b.Storage.Put(a, d) })
}
func (b *blobW) Delete(a oid.Address) error {
	return b.c.around(cBlobDel, a, func() error { return b.Storage.Delete(a) })
}
func (b *blobW) PutBatch(m map[oid.Address][]byte) error {
	// one component call per object, in index order (the FSTree writes them one by one)
	return errors.New("verif: PutBatch is not used by this harness")
}

// Iterate enumerates the stored objects in the order requested by the history
// (objects not mentioned come last in storage order).
func (b *blobW) Iterate(h func(oid.Address, []byte) error, eh func(oid.Address, error) error) error {
	if b.ord == nil {
		return b.Storage.Iterate(h, eh)
	}
	seen := map[oid.Address]bool{}
	for _, a := range b.ord {
		seen[a] = true
		d, err := b.Storage.GetBytes(a)
		if err != nil {
			continue
		}
		if err := h(a, d); err != nil {
			return err
		}
	}
	return b.Storage.Iterate(func(a oid.Address, d []byte) error {
		if seen[a] {
			return nil
		}
		return h(a, d)
	}, eh)
}

type wcW struct {
	writecache.Cache
	c *ctl
}

func (w *wcW) Put(a oid.Address, o *object.Object, d []byte) error {
	return w.c.around(cWcPut, a, func() error { return w.Cache.Put(a, o, d) })
}
func (w *wcW) Delete(a oid.Address) error {
	return w.c.around(cWcDel, a, func() error { return w.Cache.Delete(a) })
}

// ---- shard construction -------------------------------------------------------

type epochSrc struct{ v atomic.Uint64 }

func (e *epochSrc) CurrentEpoch() uint64 { return e.v.Load() }

type noPayments struct{}

func (noPayments) PaymentsDisabled() bool            { return true }
func (noPayments) UnpaidSince(cid.ID) (int64, error) { return -1, nil }

type env struct {
	sh   *shard.Shard
	fst  *fstree.FSTree
	blob *blobW
	wc   *wcW
	ep   *epochSrc
	c    *ctl
	uni  []uobj
	h    history
	dir  string
}

func openShard(dir string, h history, c *ctl) (*env, error) {
	e := &env{ep: &epochSrc{}, c: c, h: h, uni: mkUniverse(h.Objs), dir: dir}
	c.idx = map[oid.Address]int{}
	for i := range h.Objs {
		c.idx[addrOf(i)] = i
	}
	e.fst = fstree.New(fstree.WithPath(filepath.Join(dir, "blob")), fstree.WithDepth(1), fstree.WithNoSync(true))
	e.blob = &blobW{Storage: e.fst, c: c}
	opts := []shard.Option{
		shard.WithLogger(zap.NewNop()),
		shard.WithBlobstor(e.blob),
		shard.WithMetaBaseOptions(
			meta.WithPath(filepath.Join(dir, "meta")),
			meta.WithPermissions(0o600),
			meta.WithEpochState(e.ep),
			meta.WithLogger(zap.NewNop()),
			meta.WithMaxBatchDelay(time.Microsecond),
			meta.WithBoltDBOptions(&bbolt.Options{NoSync: true, NoFreelistSync: true, Timeout: 5 * time.Second}),
		),
		shard.WithWriteCache(h.WC),
		shard.WithGCRemoverSleepInterval(24 * time.Hour), // GC passes are driven through the hook
		shard.WithContainerPayments(noPayments{}),
	}
	if h.WC {
		opts = append(opts, shard.WithWriteCacheOptions(
			writecache.WithPath(filepath.Join(dir, "wc")),
			writecache.WithNoSync(true),
			writecache.VerifCrashManualFlush(),
		))
	}
	// expired objects: what the engine does with them (Shard.Delete per address)
	opts = append(opts, shard.WithExpiredObjectsCallback(func(addrs []oid.Address) {
		for _, a := range addrs {
			_ = e.sh.Delete(a.Container(), []oid.ID{a.Object()})
		}
	}))
	e.sh = shard.New(opts...)
	if h.WC {
		shard.VerifCrashWrapWriteCache(e.sh, func(cc writecache.Cache) writecache.Cache {
			e.wc = &wcW{Cache: cc, c: c}
			return e.wc
		})
	}
	if err := e.sh.Open(); err != nil {
		return nil, err
	}
	if err := e.sh.Init(); err != nil {
		return nil, err
	}
	return e, nil
}

// ---- running operations ---------------------------------------------------------

func (e *env) doOp(i int, op opT) {
	e.c.logf("O %d\n", i)
	res := 0
	switch op.Op {
	case "put":
		u := e.uni[op.A]
		mb := shard.VerifCrashMetabase(e.sh)
		if op.Fail {
			if err := mb.SetMode(mode.ReadOnly); err != nil {
				fatal("inject: %v", err)
			}
		}
		err := e.sh.Put(u.obj, u.data)
		if op.Fail {
			if err := mb.SetMode(mode.ReadWrite); err != nil {
				fatal("inject: %v", err)
			}
		}
		if err != nil {
			res = 1
		}
	case "del":
		ids := make([]oid.ID, len(op.As))
		for j, a := range op.As {
			ids[j] = idOf(a)
		}
		if err := e.sh.Delete(theCnr, ids); err != nil {
			res = 1
		}
	case "mark":
		mk := meta.GarbageMarkDefault
		if op.Mk == 1 {
			mk = meta.GarbageMarkRedundant
		}
		if err := e.sh.MarkGarbage(theCnr, []oid.ID{idOf(op.A)}, mk); err != nil {
			res = 1
		}
	case "gc":
		shard.VerifCrashRemoveGarbage(e.sh)
	case "epoch":
		e.ep.v.Store(op.E)
		shard.VerifCrashHandleEpoch(e.sh, op.E)
		e.c.logf("E %d\n", op.E)
	case "flush":
		if e.wc != nil {
			if err := writecache.VerifCrashFlushSingle(e.wc.Cache, addrOf(op.A)); err != nil {
				res = 1
			}
		}
	default:
		if !e.doOpExtra(i, op, &res) {
			fatal("unknown op %q", op.Op)
		}
	}
	e.c.logf("R %d %d\n", i, res)
}

func fatal(format string, a ...any) {
	fmt.Fprintf(os.Stderr, "crash harness: "+format+"\n", a...)
	os.Exit(2)
}

// child process: run the history, die where told. Never closes anything.
func child(specPath string) {
	raw, err := os.ReadFile(specPath)
	if err != nil {
		fatal("%v", err)
	}
	var sp spec
	if err := json.Unmarshal(raw, &sp); err != nil {
		fatal("%v", err)
	}
	tr, err := os.OpenFile(filepath.Join(sp.Dir, "trace"), os.O_CREATE|os.O_WRONLY|os.O_APPEND, 0o600)
	if err != nil {
		fatal("%v", err)
	}
	c := &ctl{k: sp.K, after: sp.After, tr: tr}
	e, err := openShard(sp.Dir, sp.H, c)
	if err != nil {
		fatal("open: %v", err)
	}
	if err := e.prepare(); err != nil {
		fatal("%v", err)
	}
	for i, op := range sp.H.Ops {
		if sp.K == 0 && i == sp.End {
			os.Exit(3)
		}
		e.doOp(i, op)
	}
	os.Exit(3)
}

// prepare stores the auxiliary object (in the blob storage).
func (e *env) prepare() error {
	aux := e.uni[len(e.h.Objs)]
	if err := e.sh.Put(aux.obj, aux.data); err != nil {
		return fmt.Errorf("aux put: %w", err)
	}
	if e.wc != nil {
		if err := writecache.VerifCrashFlushSingle(e.wc.Cache, aux.obj.Address()); err != nil {
			return fmt.Errorf("aux flush: %w", err)
		}
	}
	return nil
}

func copyTree(src, dst string) error {
	return filepath.Walk(src, func(p string, fi os.FileInfo, err error) error {
		if err != nil {
			return err
		}
		rel, _ := filepath.Rel(src, p)
		if rel == "." {
			return os.MkdirAll(dst, 0o700)
		}
		if strings.HasPrefix(rel, "snap") {
			if fi.IsDir() {
				return filepath.SkipDir
			}
			return nil
		}
		if fi.IsDir() {
			return os.MkdirAll(filepath.Join(dst, rel), 0o700)
		}
		d, err := os.ReadFile(p)
		if err != nil {
			return err
		}
		return os.WriteFile(filepath.Join(dst, rel), d, 0o600)
	})
}

// runSnapshots runs the history once, in this process, and copies the shard's
// directories at every crash point (before and after every wrapped component call,
// and at every operation boundary): the copy is what a process that died at that
// point leaves behind. Every copy is then opened by a fresh shard and observed.
func runSnapshots(h history) ([]pointT, error) {
	dir, err := os.MkdirTemp("", "verif-crash-")
	if err != nil {
		return nil, err
	}
	defer os.RemoveAll(dir)
	work := filepath.Join(dir, "w")
	if err := os.MkdirAll(work, 0o700); err != nil {
		return nil, err
	}
	tr, err := os.OpenFile(filepath.Join(work, "trace"), os.O_CREATE|os.O_WRONLY|os.O_APPEND, 0o600)
	if err != nil {
		return nil, err
	}
	defer tr.Close()
	var (
		pts  []pointT
		dirs []string
		serr error
	)
	take := func(p pointT) {
		d := filepath.Join(dir, "snap"+strconv.Itoa(len(pts)))
		if err := copyTree(work, d); err != nil && serr == nil {
			serr = err
		}
		pts = append(pts, p)
		dirs = append(dirs, d)
	}
	c := &ctl{tr: tr}
	e, err := openShard(work, h, c)
	if err != nil {
		return nil, err
	}
	if err := e.prepare(); err != nil {
		return nil, err
	}
	c.snap = func(n int, after bool) { take(pointT{K: n, After: after}) }
	for i, op := range h.Ops {
		take(pointT{End: i})
		e.doOp(i, op)
	}
	take(pointT{End: len(h.Ops)})
	c.snap = nil
	_ = e.sh.Close()
	if serr != nil {
		return nil, serr
	}
	for i := range pts {
		o, err := reopenObserve(dirs[i], h)
		if err != nil {
			return nil, err
		}
		pts[i].obsT = o
	}
	return pts, nil
}

// ---- observation after the restart ------------------------------------------------

const (
	exFalse = 0
	exTrue  = 1
	exRemoved = 2
	exExpired = 3
	exNotFound = 4
	exOther = 5

	getOK = 0
	getNotFound = 1
	getRemoved = 2
	getExpired = 3
	getMetaNoObject = 4
	getDiffers = 5
	getOther = 6
)

type obsT struct {
	Epoch uint64  `json:"epoch"`
	Trace [][]int `json:"trace"` // wrapped component calls completed before the crash: [kind, address]
	Res   [][]int `json:"res"`   // [op index, 0 ok / 1 error] of the completed operations
	Nops  int     `json:"nops"`  // operations started
	Obs   [][]int `json:"obs"`   // per address: exists, get, blob has, write-cache has
}

func parseTrace(dir string) (o obsT) {
	f, err := os.Open(filepath.Join(dir, "trace"))
	if err != nil {
		return
	}
	defer f.Close()
	o.Trace, o.Res = [][]int{}, [][]int{}
	sc := bufio.NewScanner(f)
	for sc.Scan() {
		fs := strings.Fields(sc.Text())
		if len(fs) < 2 {
			continue
		}
		x, _ := strconv.Atoi(fs[1])
		switch fs[0] {
		case "C":
			y, _ := strconv.Atoi(fs[2])
			o.Trace = append(o.Trace, []int{x, y})
		case "O":
			o.Nops = x + 1
		case "R":
			y, _ := strconv.Atoi(fs[2])
			o.Res = append(o.Res, []int{x, y})
		case "E":
			o.Epoch = uint64(x)
		}
	}
	return
}

func classifyExists(ok bool, err error) int {
	switch {
	case err == nil && ok:
		return exTrue
	case err == nil:
		return exFalse
	case errors.Is(err, apistatus.ErrObjectAlreadyRemoved):
		return exRemoved
	case errors.Is(err, meta.ErrObjectIsExpired):
		return exExpired
	case errors.Is(err, apistatus.ErrObjectNotFound):
		return exNotFound
	}
	return exOther
}

func classifyGet(o *object.Object, err error, want []byte) int {
	switch {
	case err == nil:
		if o != nil && bytes.Equal(o.Marshal(), want) {
			return getOK
		}
		return getDiffers
	case errors.Is(err, shard.ErrMetaWithNoObject):
		return getMetaNoObject
	case errors.Is(err, apistatus.ErrObjectAlreadyRemoved):
		return getRemoved
	case errors.Is(err, meta.ErrObjectIsExpired):
		return getExpired
	case errors.Is(err, apistatus.ErrObjectNotFound):
		return getNotFound
	}
	return getOther
}

func b2i(b bool) int {
	if b {
		return 1
	}
	return 0
}

func (e *env) observe() [][]int {
	res := make([][]int, len(e.h.Objs))
	for i := range e.h.Objs {
		a := addrOf(i)
		ex := classifyExists(e.sh.Exists(a, false))
		o, err := e.sh.Get(a, false)
		g := classifyGet(o, err, e.uni[i].data)
		inBlob, _ := e.fst.Exists(a)
		inWC := false
		if e.wc != nil {
			_, err := e.wc.Cache.GetBytes(a)
			inWC = err == nil
		}
		res[i] = []int{ex, g, b2i(inBlob), b2i(inWC)}
	}
	return res
}

// reopen the directory of a dead child with a fresh shard and observe.
func reopenObserve(dir string, h history) (obsT, error) {
	o := parseTrace(dir)
	e, err := openShard(dir, h, &ctl{})
	if err != nil {
		return o, err
	}
	e.ep.v.Store(o.Epoch)
	o.Obs = e.observe()
	_ = e.sh.Close()
	return o, nil
}

func runChild(self string, sp spec) (obsT, error) {
	dir, err := os.MkdirTemp("", "verif-crash-")
	if err != nil {
		return obsT{}, err
	}
	defer os.RemoveAll(dir)
	sp.Dir = dir
	raw, _ := json.Marshal(sp)
	sf := filepath.Join(dir, "spec.json")
	if err := os.WriteFile(sf, raw, 0o600); err != nil {
		return obsT{}, err
	}
	cmd := exec.Command(self, "child", sf)
	var eb bytes.Buffer
	cmd.Stderr = &eb
	err = cmd.Run()
	var ee *exec.ExitError
	if !errors.As(err, &ee) || ee.ExitCode() != 3 {
		return obsT{}, fmt.Errorf("child: %v: %s", err, eb.String())
	}
	return reopenObserve(dir, sp.H)
}

// ---- cases --------------------------------------------------------------------------

type pointT struct {
	K     int  `json:"k"`
	After bool `json:"after"`
	End   int  `json:"end"`
	obsT
}

type childDiffT struct {
	Point int  `json:"point"`
	Child obsT `json:"child"`
}

type caseT struct {
	ID        int          `json:"id"`
	H         history      `json:"h"`
	Points    []pointT     `json:"points"`
	Children  int          `json:"children"`   // crash points repeated with a real child process
	ChildDiff []childDiffT `json:"child_diff"` // ... whose observation differs from the snapshot's
}

func workers() int {
	n := 8
	if s := os.Getenv("VERIF_WORKERS"); s != "" {
		if v, err := strconv.Atoi(s); err == nil && v > 0 {
			n = v
		}
	}
	return n
}

// runHistory observes every crash point of the history (directory snapshots taken
// by one in-process run) and, for nchild sampled crash points, kills a real child
// process at that point (os.Exit inside the wrapped call) and compares what the
// reopened shard shows with the snapshot of the same point.
func runHistory(self string, id int, h history, r *rng, nchild int, sem chan struct{}) (caseT, error) {
	cs := caseT{ID: id, H: h}
	pts, err := runSnapshots(h)
	if err != nil {
		return cs, err
	}
	cs.Points = pts
	if nchild <= 0 {
		return cs, nil
	}
	pick := map[int]bool{}
	if nchild >= len(pts) {
		for i := range pts {
			pick[i] = true
		}
	}
	for len(pick) < nchild && len(pick) < len(pts) {
		pick[r.intn(len(pts))] = true
	}
	var (
		wg   sync.WaitGroup
		mu   sync.Mutex
		ferr error
	)
	for i := range pts {
		if !pick[i] {
			continue
		}
		wg.Add(1)
		sem <- struct{}{}
		go func(i int) {
			defer wg.Done()
			defer func() { <-sem }()
			p := pts[i]
			o, err := runChild(self, spec{H: h, K: p.K, After: p.After, End: p.End})
			mu.Lock()
			defer mu.Unlock()
			if err != nil {
				if ferr == nil {
					ferr = err
				}
				return
			}
			cs.Children++
			a, _ := json.Marshal(o)
			b, _ := json.Marshal(p.obsT)
			if !bytes.Equal(a, b) {
				cs.ChildDiff = append(cs.ChildDiff, childDiffT{Point: i, Child: o})
			}
		}(i)
	}
	wg.Wait()
	return cs, ferr
}

// runAll runs the histories on a pool of workers; nchild real child processes in
// total are spread over the histories.
func runAll(self string, hs []history, seed uint64, nchild int, enc *json.Encoder) {
	var (
		wg  sync.WaitGroup
		mu  sync.Mutex
		sem = make(chan struct{}, workers())
		hw  = make(chan struct{}, workers())
		res = make([]caseT, len(hs))
	)
	for i := range hs {
		per := 0
		if len(hs) > 0 {
			per = nchild / len(hs)
			if i < nchild%len(hs) {
				per++
			}
		}
		wg.Add(1)
		hw <- struct{}{}
		go func(i, per int) {
			defer wg.Done()
			defer func() { <-hw }()
			r := &rng{s: seed ^ uint64(i+1)*0x2545f4914f6cdd1d}
			cs, err := runHistory(self, i, hs[i], r, per, sem)
			if err != nil {
				fatal("history %d: %v", i, err)
			}
			mu.Lock()
			res[i] = cs
			mu.Unlock()
		}(i, per)
	}
	wg.Wait()
	for i := range res {
		_ = enc.Encode(res[i])
	}
}

func main() {
	if len(os.Args) < 2 {
		fmt.Fprintln(os.Stderr, "usage: crash child <spec> | c15 <histories> <maxpoints> | c09 ... | run (history JSON lines on stdin) | consts")
		os.Exit(2)
	}
	self, _ := os.Executable()
	seed, _ := strconv.ParseUint(os.Getenv("VERIF_SEED"), 10, 64)
	if seed == 0 {
		seed = 1
	}
	enc := json.NewEncoder(os.Stdout)
	switch os.Args[1] {
	case "child":
		child(os.Args[2])
	case "consts":
		d, _ := os.MkdirTemp("", "verif-crash-")
		defer os.RemoveAll(d)
		e, err := openShard(d, history{}, &ctl{})
		if err != nil {
			fatal("%v", err)
		}
		_ = enc.Encode(map[string]int{"rmBatchSize": shard.VerifCrashRmBatchSize(e.sh)})
		_ = e.sh.Close()
	case "c15":
		n, _ := strconv.Atoi(os.Args[2])
		nchild, _ := strconv.Atoi(os.Args[3])
		r := &rng{s: seed*0x9e3779b97f4a7c15 + 15}
		hs := make([]history, n)
		for i := range hs {
			hs[i] = genC15(r, i)
		}
		runAll(self, hs, seed, nchild, enc)
	case "run":
		// replay: histories (JSON, one per line) on stdin, all crash points, children for all
		sc := bufio.NewScanner(os.Stdin)
		sc.Buffer(make([]byte, 1<<20), 1<<26)
		var hs []history
		for sc.Scan() {
			var h history
			if err := json.Unmarshal(sc.Bytes(), &h); err != nil {
				continue
			}
			hs = append(hs, h)
		}
		nchild := 0
		if len(os.Args) > 2 {
			nchild, _ = strconv.Atoi(os.Args[2])
		}
		runAll(self, hs, seed, nchild, enc)
	default:
		if !extraCommand(self, seed, os.Args[1:]) {
			fmt.Fprintln(os.Stderr, "unknown command")
			os.Exit(2)
		}
	}
}
