//go:build verif

// Differential harness for C41 (fast header parsing vs full object decoding).
// Built inside /repo's module through `go build -overlay` (see /verif/lib/vlib.py).
//
// Output: one JSON object per line.
//
//	{"k":"base", "i":.., "bytes":[..], "tail":n, "tailb":b, "valid":bool, "desc":".."}
//	{"k":"case", "base":i, "kind":"..", "sp":[pos,del,[ins..]] | null, "cut":k|-1,
//	 "obs":[..], "ref":[..], "bad":[[num,code,vfrom,vto]..], "fs":[..]|null}
//
// The input of a case is  cut(splice(base.bytes ++ tailb^tail)).
package main

import (
	"bytes"
	"encoding/json"
	"fmt"
	"io"
	"os"
	"path/filepath"
	"strconv"

	objectwire "github.com/nspcc-dev/neofs-node/internal/object"
	"github.com/nspcc-dev/neofs-node/pkg/local_object_storage/blobstor/common"
	"github.com/nspcc-dev/neofs-node/pkg/local_object_storage/blobstor/fstree"
	"github.com/nspcc-dev/neo-go/pkg/util"
	"github.com/nspcc-dev/neofs-sdk-go/checksum"
	cid "github.com/nspcc-dev/neofs-sdk-go/container/id"
	neofscrypto "github.com/nspcc-dev/neofs-sdk-go/crypto"
	"github.com/nspcc-dev/neofs-sdk-go/object"
	oid "github.com/nspcc-dev/neofs-sdk-go/object/id"
	protoobject "github.com/nspcc-dev/neofs-sdk-go/proto/object"
	iprotobuf "github.com/nspcc-dev/neofs-sdk-go/proto/protobuf"
	"github.com/nspcc-dev/neofs-sdk-go/proto/refs"
	"github.com/nspcc-dev/neofs-sdk-go/user"
	"github.com/nspcc-dev/neofs-sdk-go/version"
	"google.golang.org/protobuf/encoding/protowire"
	"google.golang.org/protobuf/proto"
)

// ---- PRNG: every random choice comes from here --------------------------------

type rng struct{ s uint64 }

func newRng() *rng {
	seed, _ := strconv.ParseUint(os.Getenv("VERIF_SEED"), 10, 64)
	return &rng{s: seed*0x9E3779B97F4A7C15 + 0xC41}
}

func (r *rng) next() uint64 {
	r.s += 0x9E3779B97F4A7C15
	z := r.s
	z = (z ^ (z >> 30)) * 0xBF58476D1CE4E5B9
	z = (z ^ (z >> 27)) * 0x94D049BB133111EB
	return z ^ (z >> 31)
}

func (r *rng) intn(n int) int { return int(r.next() % uint64(n)) }
func (r *rng) coin(p int) bool { return r.intn(100) < p }
func (r *rng) bytes(n int) []byte {
	b := make([]byte, n)
	for i := range b {
		b[i] = byte(r.next())
	}
	return b
}

func thorough() bool { return os.Getenv("VERIF_TIER") == "thorough" }

var out = json.NewEncoder(os.Stdout)

func emit(v any) { _ = out.Encode(v) }

func must(err error) {
	if err != nil {
		fmt.Fprintln(os.Stderr, "harness error:", err)
		os.Exit(3)
	}
}

// ---- consts ------------------------------------------------------------------

func consts() {
	emit(map[string]any{
		"w_npfbl":           objectwire.NonPayloadFieldsBufferLength,
		"w_max_header_len":  object.MaxHeaderLen,
		"w_obj_id":          protoobject.FieldObjectID,
		"w_obj_sig":         protoobject.FieldObjectSignature,
		"w_obj_hdr":         protoobject.FieldObjectHeader,
		"w_obj_payload":     protoobject.FieldObjectPayload,
		"w_hdr_version":     protoobject.FieldHeaderVersion,
		"w_hdr_cid":         protoobject.FieldHeaderContainerID,
		"w_hdr_owner":       protoobject.FieldHeaderOwnerID,
		"w_hdr_epoch":       protoobject.FieldHeaderCreationEpoch,
		"w_hdr_paylen":      protoobject.FieldHeaderPayloadLength,
		"w_hdr_payhash":     protoobject.FieldHeaderPayloadHash,
		"w_hdr_type":        protoobject.FieldHeaderObjectType,
		"w_hdr_homohash":    protoobject.FieldHeaderHomomorphicHash,
		"w_hdr_session":     protoobject.FieldHeaderSessionToken,
		"w_hdr_attrs":       protoobject.FieldHeaderAttributes,
		"w_hdr_split":       protoobject.FieldHeaderSplit,
		"w_hdr_sessionv2":   protoobject.FieldHeaderSessionV2,
		"w_split_parent":    protoobject.FieldHeaderSplitParent,
		"w_split_previous":  protoobject.FieldHeaderSplitPrevious,
		"w_split_parsig":    protoobject.FieldHeaderSplitParentSignature,
		"w_split_parhdr":    protoobject.FieldHeaderSplitParentHeader,
		"w_split_children":  protoobject.FieldHeaderSplitChildren,
		"w_split_splitid":   protoobject.FieldHeaderSplitSplitID,
		"w_split_first":     protoobject.FieldHeaderSplitFirst,
		"order":             []string{"w_npfbl", "w_max_header_len", "w_obj_id", "w_obj_sig", "w_obj_hdr", "w_obj_payload", "w_hdr_version", "w_hdr_cid", "w_hdr_owner", "w_hdr_epoch", "w_hdr_paylen", "w_hdr_payhash", "w_hdr_type", "w_hdr_homohash", "w_hdr_session", "w_hdr_attrs", "w_hdr_split", "w_hdr_sessionv2", "w_split_parent", "w_split_previous", "w_split_parsig", "w_split_parhdr", "w_split_children", "w_split_splitid", "w_split_first"},
	})
}

// ---- generic structural scanner (harness-side reference, protowire only) --------

type fld struct {
	num           int
	typ           int
	from, vf, to  int
	u             uint64 // varint value
}

// scan parses all fields of a message the way protobuf-go does structurally
// (any valid number, every wire type incl. groups skipped as a whole).
func scan(b []byte) ([]fld, bool) {
	var res []fld
	off := 0
	for off < len(b) {
		num, typ, n := protowire.ConsumeTag(b[off:])
		if n < 0 || num > protowire.MaxValidNumber {
			return res, false
		}
		m := protowire.ConsumeFieldValue(num, typ, b[off+n:])
		if m < 0 {
			return res, false
		}
		f := fld{num: int(num), typ: int(typ), from: off, vf: off + n, to: off + n + m}
		switch typ {
		case protowire.VarintType:
			f.u, _ = protowire.ConsumeVarint(b[off+n:])
		case protowire.BytesType:
			_, k := protowire.ConsumeVarint(b[off+n:])
			f.vf = off + n + k
		}
		res = append(res, f)
		off = f.to
	}
	return res, true
}

func lastOf(fs []fld, num, typ int) (fld, bool) {
	var r fld
	ok := false
	for _, f := range fs {
		if f.num == num && f.typ == typ {
			r, ok = f, true
		}
	}
	return r, ok
}

func b3(f fld, ok bool, base int) []uint64 {
	if !ok {
		return []uint64{0, 0, 0}
	}
	return []uint64{uint64(f.from + base), uint64(f.vf + base), uint64(f.to + base)}
}

type stable interface {
	MarshaledSize() int
	MarshalStable([]byte)
}

func ms(m stable) []byte {
	b := make([]byte, m.MarshaledSize())
	m.MarshalStable(b)
	return b
}

func encField(num, typ int, val []byte) []byte {
	b := protowire.AppendTag(nil, protowire.Number(num), protowire.Type(typ))
	if typ == 2 {
		b = protowire.AppendVarint(b, uint64(len(val)))
	}
	return append(b, val...)
}

// ---- the fast paths under recover -----------------------------------------------

const (
	stOk    = 0
	stErr   = 1
	stPanic = 2
	stNA    = 3
)

func guard(f func() error) (st uint64) {
	defer func() {
		if r := recover(); r != nil {
			st = stPanic
		}
	}()
	if err := f(); err != nil {
		return stErr
	}
	return stOk
}

func fbs(fs ...iprotobuf.FieldBounds) []uint64 {
	var r []uint64
	for _, f := range fs {
		r = append(r, uint64(f.From), uint64(f.ValueFrom), uint64(f.To))
	}
	return r
}

func zeros(n int) []uint64 { return make([]uint64, n) }

type fastOut struct {
	ehpSt           uint64
	ehpObj          *object.Object
	ehpPrefix       []byte
	npbSt           uint64
	npb             [3]iprotobuf.FieldBounds
	ppbSt           uint64
	ppb             [3]iprotobuf.FieldBounds
	hb              []byte
	plhSt, plh      uint64
	thSt, th        uint64
	pphSt           uint64
	pph             [3]iprotobuf.FieldBounds
	vec             []uint64
}

func u64fn(f func([]byte) (uint64, error), b []byte) (uint64, uint64) {
	var v uint64
	st := guard(func() error { var e error; v, e = f(b); return e })
	if st != stOk {
		v = 0
	}
	return st, v
}

func typfn(b []byte) (uint64, uint64) {
	var v object.Type
	st := guard(func() error { var e error; v, e = objectwire.GetTypeHeader(b); return e })
	if st != stOk {
		return st, 0
	}
	return st, uint64(uint32(v))
}

func b3fn(f func([]byte) (iprotobuf.FieldBounds, iprotobuf.FieldBounds, iprotobuf.FieldBounds, error), b []byte) (uint64, [3]iprotobuf.FieldBounds) {
	var r [3]iprotobuf.FieldBounds
	st := guard(func() error { var e error; r[0], r[1], r[2], e = f(b); return e })
	if st != stOk {
		r = [3]iprotobuf.FieldBounds{}
	}
	return st, r
}

func runFast(x []byte) *fastOut {
	o := &fastOut{}
	// ExtractHeaderAndPayload
	o.ehpSt = guard(func() error {
		var e error
		o.ehpObj, o.ehpPrefix, e = objectwire.ExtractHeaderAndPayload(x)
		return e
	})
	ehp := zeros(5)
	if o.ehpSt == stOk {
		ehp[0] = uint64(len(x) - len(o.ehpPrefix))
		if !o.ehpObj.GetID().IsZero() {
			ehp[1] = 1
		}
		if o.ehpObj.Signature() != nil {
			ehp[2] = 1
		}
		ehp[3] = o.ehpObj.PayloadSize()
		ehp[4] = uint64(uint32(o.ehpObj.Type()))
	}
	o.vec = append(o.vec, o.ehpSt)
	o.vec = append(o.vec, ehp...)
	// bounds
	o.npbSt, o.npb = b3fn(objectwire.GetNonPayloadFieldBounds, x)
	o.vec = append(append(o.vec, o.npbSt), fbs(o.npb[:]...)...)
	o.ppbSt, o.ppb = b3fn(objectwire.GetParentNonPayloadFieldBounds, x)
	o.vec = append(append(o.vec, o.ppbSt), fbs(o.ppb[:]...)...)
	// header-level functions on the header located by GetNonPayloadFieldBounds
	if o.npbSt == stOk {
		o.hb = x[o.npb[2].ValueFrom:o.npb[2].To]
		o.plhSt, o.plh = u64fn(objectwire.GetPayloadLengthHeader, o.hb)
		o.thSt, o.th = typfn(o.hb)
		o.pphSt, o.pph = b3fn(objectwire.GetParentNonPayloadFieldBoundsHeader, o.hb)
	} else {
		o.plhSt, o.thSt, o.pphSt = stNA, stNA, stNA
	}
	o.vec = append(o.vec, o.plhSt, o.plh, o.thSt, o.th, o.pphSt)
	o.vec = append(o.vec, fbs(o.pph[:]...)...)
	// header-level functions on the raw buffer (as if it were a header)
	s1, v1 := u64fn(objectwire.GetPayloadLengthHeader, x)
	s2, v2 := typfn(x)
	s3, v3 := b3fn(objectwire.GetParentNonPayloadFieldBoundsHeader, x)
	o.vec = append(o.vec, s1, v1, s2, v2, s3)
	o.vec = append(o.vec, fbs(v3[:]...)...)
	return o
}

// ---- nested validity oracles (proto.Unmarshal / FromProtoMessage of located values) ---

func nestedCode(num int, val []byte) int {
	var m protoobject.Object
	switch num {
	case protoobject.FieldObjectID:
		m.ObjectId = new(refs.ObjectID)
		if proto.Unmarshal(val, m.ObjectId) != nil {
			return 1
		}
	case protoobject.FieldObjectSignature:
		m.Signature = new(refs.Signature)
		if proto.Unmarshal(val, m.Signature) != nil {
			return 1
		}
	case protoobject.FieldObjectHeader:
		m.Header = new(protoobject.Header)
		if proto.Unmarshal(val, m.Header) != nil {
			return 1
		}
	default:
		return 0
	}
	var o object.Object
	code := 0
	func() {
		defer func() {
			if recover() != nil {
				code = 2
			}
		}()
		if o.FromProtoMessage(&m) != nil {
			code = 2
		}
	}()
	return code
}

func badList(x []byte) [][]int {
	res := [][]int{}
	off := 0
	for off < len(x) {
		num, typ, n := protowire.ConsumeTag(x[off:])
		if n < 0 {
			break
		}
		m := protowire.ConsumeFieldValue(num, typ, x[off+n:])
		if m < 0 {
			break
		}
		if typ == protowire.BytesType && num >= 1 && num <= 3 {
			_, k := protowire.ConsumeVarint(x[off+n:])
			vf, to := off+n+k, off+n+m
			if c := nestedCode(int(num), x[vf:to]); c != 0 {
				res = append(res, []int{int(num), c, vf, to})
			}
		}
		off += n + m
	}
	return res
}

// ---- reference vector: real full decoding, located through the harness scanner ------

func boolU(b bool) uint64 {
	if b {
		return 1
	}
	return 0
}

func cutMarshal(o *object.Object) []byte {
	c := o.CutPayload()
	return c.Marshal()
}

func eqPart(present bool, f fld, base int, x []byte, m stable, isNil bool) bool {
	if !present {
		return isNil
	}
	if isNil {
		return false
	}
	return bytes.Equal(ms(m), x[f.from+base+(f.vf-f.from):f.to+base])
}

func fbEq(fb iprotobuf.FieldBounds, x []byte, m stable, isNil bool) bool {
	if fb.IsMissing() {
		return isNil
	}
	if isNil || fb.From < 0 || fb.ValueFrom < fb.From || fb.To < fb.ValueFrom || fb.To > len(x) {
		return false
	}
	return bytes.Equal(ms(m), x[fb.ValueFrom:fb.To])
}

func refVector(x []byte, fo *fastOut) []uint64 {
	var m protoobject.Object
	var o object.Object
	unm := guard(func() error {
		if err := proto.Unmarshal(x, &m); err != nil {
			return err
		}
		return o.FromProtoMessage(&m)
	})
	// the same through the public API must agree
	var o2 object.Object
	unm2 := guard(func() error { return o2.Unmarshal(x) })
	if unm2 != unm {
		unm = 9
	}
	res := []uint64{unm}
	top, ok := scan(x)
	if unm != stOk || !ok {
		return append(append(res, boolU(ok)), zeros(7+26+1)...)
	}
	idF, hasID := lastOf(top, 1, 2)
	sigF, hasSig := lastOf(top, 2, 2)
	hdrF, hasHdr := lastOf(top, 3, 2)
	payF, hasPay := lastOf(top, 4, 2)
	scanEq := eqPart(hasID, idF, 0, x, m.ObjectId, m.ObjectId == nil) &&
		eqPart(hasSig, sigF, 0, x, m.Signature, m.Signature == nil) &&
		eqPart(hasHdr, hdrF, 0, x, m.Header, m.Header == nil)
	if hasPay {
		scanEq = scanEq && bytes.Equal(m.Payload, x[payF.vf:payF.to])
	} else {
		scanEq = scanEq && len(m.Payload) == 0
	}
	var paylen, typ uint64
	var splitF, parF, psigF, phdrF fld
	var hasSplit, hasPar, hasPsig, hasPhdr bool
	var sp *protoobject.Header_Split
	if hasHdr {
		hb := x[hdrF.vf:hdrF.to]
		hf, hok := scan(hb)
		if !hok {
			scanEq = false
		}
		if f, k := lastOf(hf, protoobject.FieldHeaderPayloadLength, 0); k {
			paylen = f.u
		}
		if f, k := lastOf(hf, protoobject.FieldHeaderObjectType, 0); k {
			typ = uint64(uint32(f.u))
		}
		splitF, hasSplit = lastOf(hf, protoobject.FieldHeaderSplit, 2)
		if hasSplit {
			sb := hb[splitF.vf:splitF.to]
			sf, sok := scan(sb)
			if !sok {
				scanEq = false
			}
			parF, hasPar = lastOf(sf, 1, 2)
			psigF, hasPsig = lastOf(sf, 3, 2)
			phdrF, hasPhdr = lastOf(sf, 4, 2)
		}
		if m.Header != nil {
			sp = m.Header.Split
			scanEq = scanEq && paylen == m.Header.PayloadLength && typ == uint64(uint32(m.Header.ObjectType))
		}
	}
	sbase := hdrF.vf + splitF.vf
	if sp != nil {
		scanEq = scanEq && hasSplit &&
			eqPart(hasPar, parF, sbase, x, sp.Parent, sp.Parent == nil) &&
			eqPart(hasPsig, psigF, sbase, x, sp.ParentSignature, sp.ParentSignature == nil) &&
			eqPart(hasPhdr, phdrF, sbase, x, sp.ParentHeader, sp.ParentHeader == nil)
	} else {
		scanEq = scanEq && !hasPar && !hasPsig && !hasPhdr
	}
	// implementation against the real decoder, directly
	ehpEq := fo.ehpSt == stOk && bytes.Equal(fo.ehpObj.Marshal(), cutMarshal(&o)) && bytes.Equal(fo.ehpPrefix, m.Payload)
	npbEq := fo.npbSt == stOk && fbEq(fo.npb[0], x, m.ObjectId, m.ObjectId == nil) &&
		fbEq(fo.npb[1], x, m.Signature, m.Signature == nil) && fbEq(fo.npb[2], x, m.Header, m.Header == nil)
	var pid *refs.ObjectID
	var psig *refs.Signature
	var phdr *protoobject.Header
	if sp != nil {
		pid, psig, phdr = sp.Parent, sp.ParentSignature, sp.ParentHeader
	}
	ppbEq := fo.ppbSt == stOk && fbEq(fo.ppb[0], x, pid, pid == nil) && fbEq(fo.ppb[1], x, psig, psig == nil) && fbEq(fo.ppb[2], x, phdr, phdr == nil)
	var wantLen, wantTyp uint64
	if m.Header != nil {
		wantLen, wantTyp = m.Header.PayloadLength, uint64(uint32(m.Header.ObjectType))
	}
	plhEq := fo.plhSt == stOk && fo.plh == wantLen
	thEq := fo.thSt == stOk && fo.th == wantTyp
	pphEq := true
	if len(fo.hb) > 0 {
		pphEq = fo.pphSt == stOk && fbEq(fo.pph[0], fo.hb, pid, pid == nil) && fbEq(fo.pph[1], fo.hb, psig, psig == nil) && fbEq(fo.pph[2], fo.hb, phdr, phdr == nil)
	}
	res = append(res, 1, boolU(scanEq), boolU(ehpEq), boolU(npbEq), boolU(ppbEq), boolU(plhEq), boolU(thEq), boolU(pphEq))
	res = append(res, b3(idF, hasID, 0)...)
	res = append(res, b3(sigF, hasSig, 0)...)
	res = append(res, b3(hdrF, hasHdr, 0)...)
	res = append(res, b3(payF, hasPay, 0)...)
	res = append(res, paylen, typ)
	res = append(res, b3(splitF, hasSplit, hdrF.vf)...)
	res = append(res, b3(parF, hasPar, sbase)...)
	res = append(res, b3(psigF, hasPsig, sbase)...)
	res = append(res, b3(phdrF, hasPhdr, sbase)...)
	// the input is exactly what the real encoder produces for the decoded object (canonical at every
	// nesting level): only then re-marshalled parts can be compared with located bytes
	res = append(res, boolU(bytes.Equal(o.Marshal(), x)))
	return res
}

// ---- head.go callers on a real FSTree ---------------------------------------------

type fsEnv struct {
	dir string
	t   *fstree.FSTree
	n   int
}

func newFS() *fsEnv {
	dir, err := os.MkdirTemp("", "verif-c41-")
	must(err)
	t := fstree.New(fstree.WithPath(dir), fstree.WithDepth(1), fstree.WithNoSync(true))
	must(t.Open(false))
	must(t.Init(common.ID{}))
	return &fsEnv{dir: dir, t: t}
}

func (e *fsEnv) close() { _ = e.t.Close(); _ = os.RemoveAll(e.dir) }

func fsEligible(x []byte) bool {
	if len(x) == 0 {
		return true
	}
	if x[0] == 0x7f { // combined-file prefix
		return false
	}
	if len(x) >= 4 && x[0] == 0x28 && x[1] == 0xb5 && x[2] == 0x2f && x[3] == 0xfd { // zstd frame
		return false
	}
	return true
}

// fsVector: [head_st, head_eq, rop_st, rop_n, rop_has, rop_vfrom, rop_to]
func (e *fsEnv) fsVector(x []byte) []uint64 {
	e.n++
	var id oid.ID
	id[0], id[1], id[2], id[3] = byte(e.n>>24), byte(e.n>>16), byte(e.n>>8), byte(e.n)
	id[31] = 1
	var cnr cid.ID
	cnr[0] = 0xC4
	addr := oid.NewAddress(cnr, id)
	p := e.t.VerifTreePath(addr)
	must(os.MkdirAll(filepath.Dir(p), 0o755))
	must(os.WriteFile(p, x, 0o644))
	defer os.Remove(p)

	var full object.Object
	fullOk := guard(func() error { return full.Unmarshal(x) }) == stOk

	var hobj *object.Object
	headSt := guard(func() error { var err error; hobj, err = e.t.Head(addr); return err })
	headEq := headSt == stOk && fullOk && bytes.Equal(hobj.Marshal(), cutMarshal(&full))

	// the payload stream after the header must be the payload (only meaningful when decodable)
	var sobj *object.Object
	var rd io.ReadCloser
	strSt := guard(func() error { var err error; sobj, rd, err = e.t.GetStream(addr); return err })
	if strSt == stOk && fullOk {
		got, err := io.ReadAll(rd)
		_ = rd.Close()
		headEq = headEq && err == nil && bytes.Equal(got, full.Payload()) && bytes.Equal(sobj.Marshal(), cutMarshal(&full))
	} else if strSt == stOk && rd != nil {
		_ = rd.Close()
	}
	if strSt != headSt {
		headSt = 8
	}

	buf := make([]byte, 2*objectwire.NonPayloadFieldsBufferLength)
	var n int
	has, vf, to := uint64(0), uint64(0), uint64(0)
	var rc io.ReadCloser
	ropSt := guard(func() error {
		var err error
		n, rc, err = e.t.ReadObjectParts(buf, addr, common.PayloadRange{}, func(h []byte) error {
			has = 1
			vf = uint64(cap(buf) - cap(h))
			to = vf + uint64(len(h))
			return nil
		})
		return err
	})
	if rc != nil {
		_ = rc.Close()
	}
	if ropSt != stOk {
		n, has, vf, to = 0, 0, 0, 0
	}
	return []uint64{headSt, boolU(headEq), ropSt, uint64(n), has, vf, to}
}

// ---- object generation -----------------------------------------------------------

func rid(g *rng) oid.ID {
	var id oid.ID
	copy(id[:], g.bytes(32))
	id[0] |= 1
	return id
}

func rsig(g *rng) *neofscrypto.Signature {
	s := neofscrypto.NewSignatureFromRawKey(neofscrypto.Scheme(g.intn(3)), g.bytes(1+g.intn(8)), g.bytes(1+g.intn(10)))
	return &s
}

func fillHeader(g *rng, o *object.Object, rich bool) {
	if g.coin(70) {
		v := version.New(2, uint32(g.intn(20)))
		o.SetVersion(&v)
	}
	if g.coin(80) {
		var c cid.ID
		copy(c[:], g.bytes(32))
		c[0] |= 1
		o.SetContainerID(c)
	}
	if g.coin(70) {
		var sh util.Uint160
		copy(sh[:], g.bytes(20))
		o.SetOwner(user.NewFromScriptHash(sh))
	}
	if g.coin(70) {
		o.SetCreationEpoch(g.next() >> uint(g.intn(64)))
	}
	if g.coin(50) {
		o.SetPayloadChecksum(checksum.New(checksum.Type(1+g.intn(2)), g.bytes(1+g.intn(6))))
	}
	if g.coin(60) {
		o.SetType(object.Type(g.intn(5)))
	}
	if g.coin(25) {
		o.SetPayloadHomomorphicHash(checksum.New(checksum.TillichZemor, g.bytes(1+g.intn(6))))
	}
	if rich && g.coin(60) {
		n := 1 + g.intn(3)
		var as []object.Attribute
		for i := 0; i < n; i++ {
			as = append(as, object.NewAttribute(fmt.Sprintf("k%d%c", i, 'a'+byte(g.intn(26))), fmt.Sprintf("v%d", g.intn(1000))))
		}
		o.SetAttributes(as...)
	}
}

// genObject builds a random valid object; payload of plen bytes.
func genObject(g *rng, plen int, forceParent int) (*object.Object, string) {
	var o object.Object
	desc := ""
	if g.coin(85) {
		o.SetID(rid(g))
		desc += "i"
	}
	if g.coin(75) {
		o.SetSignature(rsig(g))
		desc += "s"
	}
	hdr := g.coin(92)
	if hdr {
		desc += "h"
		fillHeader(g, &o, true)
		withParent := forceParent == 1 || (forceParent == 0 && g.coin(45))
		if withParent {
			desc += "P"
			var par object.Object
			if g.coin(80) {
				par.SetID(rid(g))
			}
			if g.coin(70) {
				par.SetSignature(rsig(g))
			}
			if g.coin(90) {
				fillHeader(g, &par, g.coin(50))
				par.SetPayloadSize(g.next() >> uint(30+g.intn(34)))
			}
			o.SetParent(&par)
			if g.coin(20) {
				o.ResetParentID()
			}
		} else if g.coin(30) {
			o.SetParentID(rid(g))
			desc += "p"
		}
		if g.coin(30) {
			o.SetPreviousID(rid(g))
			desc += "v"
		}
		if g.coin(20) {
			o.SetChildren(rid(g), rid(g))
			desc += "c"
		}
		if g.coin(25) {
			o.SetSplitID(object.NewSplitID())
			desc += "u"
		}
		if g.coin(25) {
			o.SetFirstID(rid(g))
			desc += "f"
		}
		if g.coin(85) {
			o.SetPayloadSize(uint64(plen))
		} else {
			o.SetPayloadSize(g.next() >> uint(g.intn(64)))
		}
	}
	if plen > 0 {
		o.SetPayload(g.bytes(plen))
	}
	return &o, fmt.Sprintf("%s/t%d/p%d", desc, o.Type(), plen)
}

// ---- mutations -----------------------------------------------------------------------

type msg struct{ fs []mfld }
type mfld struct {
	num, typ int
	raw      []byte // whole field bytes when kept verbatim
}

func splitFields(b []byte) ([]fld, bool) { return scan(b) }

func compose(b []byte, fs []fld, edit func(i int, f fld, raw []byte) [][]byte) []byte {
	var outb []byte
	for i, f := range fs {
		for _, p := range edit(i, f, b[f.from:f.to]) {
			outb = append(outb, p...)
		}
	}
	return outb
}

func overlong(v uint64, extra int) []byte {
	b := protowire.AppendVarint(nil, v)
	for i := 0; i < extra; i++ {
		b[len(b)-1] |= 0x80
		b = append(b, 0)
	}
	return b
}

func unknownField(g *rng) []byte {
	num := 13 + g.intn(8)
	switch g.intn(6) {
	case 0:
		return encField(num, 0, protowire.AppendVarint(nil, g.next()>>uint(g.intn(64))))
	case 1:
		return encField(num, 1, g.bytes(8))
	case 2:
		return encField(num, 2, g.bytes(g.intn(5)))
	case 3:
		return encField(num, 5, g.bytes(4))
	case 4: // group
		b := protowire.AppendTag(nil, protowire.Number(num), protowire.StartGroupType)
		b = append(b, encField(1, 0, []byte{1})...)
		return protowire.AppendTag(b, protowire.Number(num), protowire.EndGroupType)
	default:
		return encField(num+1000000, 2, g.bytes(2))
	}
}

// mutateMsg applies one structural mutation to the message b (fields re-composed, so that the
// enclosing lengths stay consistent when the caller re-wraps the result).
func mutateMsg(g *rng, b []byte, kind int) ([]byte, string) {
	fs, ok := scan(b)
	if !ok || len(fs) == 0 {
		return append(append([]byte{}, b...), unknownField(g)...), "append-unknown"
	}
	t := g.intn(len(fs))
	same := func(i int, f fld, raw []byte) [][]byte { return [][]byte{raw} }
	switch kind {
	case 0: // wrong wire type, value bytes kept
		nt := (fs[t].typ + 1 + g.intn(5)) % 6
		return compose(b, fs, func(i int, f fld, raw []byte) [][]byte {
			if i != t {
				return same(i, f, raw)
			}
			return [][]byte{protowire.AppendTag(nil, protowire.Number(f.num), protowire.Type(nt)), raw[tagLen(raw):]}
		}), "wrong-type"
	case 1: // overlong (non-minimal) tag or length varint
		return compose(b, fs, func(i int, f fld, raw []byte) [][]byte {
			if i != t {
				return same(i, f, raw)
			}
			tl := tagLen(raw)
			if f.typ == 2 && g.coin(50) {
				return [][]byte{raw[:tl], overlong(uint64(f.to-f.vf), 1+g.intn(3)), b[f.vf:f.to]}
			}
			return [][]byte{overlong(uint64(f.num)<<3|uint64(f.typ), 1+g.intn(9)), raw[tl:]}
		}), "overlong-varint"
	case 2: // length exceeding the buffer / shortened
		return compose(b, fs, func(i int, f fld, raw []byte) [][]byte {
			if i != t || f.typ != 2 {
				return same(i, f, raw)
			}
			ln := uint64(f.to - f.vf)
			var nl uint64
			switch g.intn(4) {
			case 0:
				nl = ln + 1 + uint64(g.intn(3))
			case 1:
				nl = ln + uint64(len(b))
			case 2:
				nl = g.next()
			default:
				if ln > 0 {
					nl = ln - 1
				} else {
					nl = 1
				}
			}
			return [][]byte{raw[:tagLen(raw)], protowire.AppendVarint(nil, nl), b[f.vf:f.to]}
		}), "bad-length"
	case 3: // duplicated field (adjacent or at the end)
		atEnd := g.coin(40)
		r := compose(b, fs, func(i int, f fld, raw []byte) [][]byte {
			if i == t && !atEnd {
				return [][]byte{raw, raw}
			}
			return same(i, f, raw)
		})
		if atEnd {
			r = append(r, b[fs[t].from:fs[t].to]...)
		}
		return r, "duplicate"
	case 4: // permutation: swap two fields
		if len(fs) < 2 {
			return append([]byte{}, b...), "noop"
		}
		u := g.intn(len(fs))
		if u == t {
			u = (t + 1) % len(fs)
		}
		return compose(b, fs, func(i int, f fld, raw []byte) [][]byte {
			switch i {
			case t:
				return [][]byte{b[fs[u].from:fs[u].to]}
			case u:
				return [][]byte{b[fs[t].from:fs[t].to]}
			}
			return same(i, f, raw)
		}), "permute"
	case 5: // unknown field inserted
		pos := g.intn(len(fs) + 1)
		uf := unknownField(g)
		r := compose(b, fs, func(i int, f fld, raw []byte) [][]byte {
			if i == pos {
				return [][]byte{uf, raw}
			}
			return same(i, f, raw)
		})
		if pos == len(fs) {
			r = append(r, uf...)
		}
		return r, "unknown-field"
	case 6: // field dropped
		return compose(b, fs, func(i int, f fld, raw []byte) [][]byte {
			if i == t {
				return nil
			}
			return same(i, f, raw)
		}), "drop-field"
	case 7: // explicit default: zero varint / empty LEN of a small field number
		num := 1 + g.intn(12)
		var z []byte
		if g.coin(50) {
			z = encField(num, 0, []byte{0})
		} else {
			z = encField(num, 2, nil)
		}
		pos := g.intn(len(fs) + 1)
		r := compose(b, fs, func(i int, f fld, raw []byte) [][]byte {
			if i == pos {
				return [][]byte{z, raw}
			}
			return same(i, f, raw)
		})
		if pos == len(fs) {
			r = append(r, z...)
		}
		return r, "explicit-default"
	default: // huge varint value (enum > int32, uint64 max) for a varint field
		return compose(b, fs, func(i int, f fld, raw []byte) [][]byte {
			if i != t || f.typ != 0 {
				return same(i, f, raw)
			}
			vals := []uint64{1 << 31, 1<<32 + 1, 1<<63 + 5, ^uint64(0)}
			return [][]byte{raw[:tagLen(raw)], protowire.AppendVarint(nil, vals[g.intn(len(vals))])}
		}), "huge-varint"
	}
}

func tagLen(raw []byte) int {
	_, n := protowire.ConsumeVarint(raw)
	if n < 0 {
		return 0
	}
	return n
}

// mutateAt applies mutateMsg at nesting level lvl (0 object, 1 header, 2 split), re-wrapping.
func mutateAt(g *rng, x []byte, lvl, kind int) ([]byte, string) {
	if lvl == 0 {
		return mutateMsg(g, x, kind)
	}
	num := protoobject.FieldObjectHeader
	if lvl == 2 {
		num = protoobject.FieldHeaderSplit
	}
	fs, ok := scan(x)
	if !ok {
		return mutateMsg(g, x, kind)
	}
	for _, f := range fs {
		if f.num == num && f.typ == 2 {
			var inner []byte
			var d string
			if lvl == 1 {
				inner, d = mutateMsg(g, x[f.vf:f.to], kind)
			} else {
				return nil, ""
			}
			r := append([]byte{}, x[:f.from]...)
			r = append(r, encField(f.num, 2, inner)...)
			return append(r, x[f.to:]...), "hdr:" + d
		}
	}
	return mutateMsg(g, x, kind)
}

func mutateSplit(g *rng, x []byte, kind int) ([]byte, string) {
	fs, ok := scan(x)
	if !ok {
		return nil, ""
	}
	for _, f := range fs {
		if f.num == protoobject.FieldObjectHeader && f.typ == 2 {
			h := x[f.vf:f.to]
			hf, ok := scan(h)
			if !ok {
				return nil, ""
			}
			for _, s := range hf {
				if s.num == protoobject.FieldHeaderSplit && s.typ == 2 {
					var inner []byte
					d := ""
					if kind == 99 {
						inner, d = nil, "empty-split"
					} else {
						inner, d = mutateMsg(g, h[s.vf:s.to], kind)
					}
					nh := append([]byte{}, h[:s.from]...)
					nh = append(nh, encField(s.num, 2, inner)...)
					nh = append(nh, h[s.to:]...)
					r := append([]byte{}, x[:f.from]...)
					r = append(r, encField(f.num, 2, nh)...)
					return append(r, x[f.to:]...), "split:" + d
				}
			}
		}
	}
	return nil, ""
}

// ---- cases ---------------------------------------------------------------------------

type baseRec struct {
	K     string `json:"k"`
	I     int    `json:"i"`
	Bytes []int  `json:"bytes"`
	Tail  int    `json:"tail"`
	TailB int    `json:"tailb"`
	Valid bool   `json:"valid"`
	Desc  string `json:"desc"`
}

type caseRec struct {
	K    string   `json:"k"`
	Base int      `json:"base"`
	Kind string   `json:"kind"`
	Sp   []any    `json:"sp"`
	Cut  int      `json:"cut"`
	Obs  []string `json:"obs"`
	Ref  []string `json:"ref"`
	Bad  [][]int  `json:"bad"`
	FS   []string `json:"fs"`
	Len  int      `json:"len"`
}

func ints(b []byte) []int {
	r := make([]int, len(b))
	for i, v := range b {
		r[i] = int(v)
	}
	return r
}

func strs(v []uint64) []string {
	r := make([]string, len(v))
	for i, x := range v {
		r[i] = strconv.FormatUint(x, 10)
	}
	return r
}

// diff of y against x as one splice (pos, del, ins)
func diffSplice(x, y []byte) []any {
	p := 0
	for p < len(x) && p < len(y) && x[p] == y[p] {
		p++
	}
	s := 0
	for s < len(x)-p && s < len(y)-p && x[len(x)-1-s] == y[len(y)-1-s] {
		s++
	}
	return []any{p, len(x) - p - s, ints(y[p : len(y)-s])}
}

type runner struct {
	g   *rng
	fs  *fsEnv
	nfs int
}

func (r *runner) emitCase(base int, kind string, sp []any, cut int, x []byte, withFS bool) {
	fo := runFast(x)
	c := caseRec{K: "case", Base: base, Kind: kind, Sp: sp, Cut: cut, Len: len(x)}
	c.Obs = strs(fo.vec)
	c.Ref = strs(refVector(x, fo))
	c.Bad = badList(x)
	if withFS && fsEligible(x) {
		c.FS = strs(r.fs.fsVector(x))
		r.nfs++
	}
	emit(c)
}

func run() {
	g := newRng()
	r := &runner{g: g, fs: newFS()}
	defer r.fs.close()
	nb, nmut, nbig := 6, 40, 1
	if thorough() {
		nb, nmut, nbig = 20, 100, 2
	}
	bi := 0
	// base 0: the empty buffer, carrier of random garbage
	emit(baseRec{K: "base", I: bi, Bytes: []int{}, Valid: false, Desc: "empty"})
	r.emitCase(bi, "empty", nil, -1, nil, true)
	ngarb := 60
	if thorough() {
		ngarb = 400
	}
	for i := 0; i < ngarb; i++ {
		var y []byte
		switch g.intn(3) {
		case 0:
			y = g.bytes(1 + g.intn(24))
		case 1: // tag-shaped garbage
			for k := 0; k < 1+g.intn(5); k++ {
				y = append(y, byte((1+g.intn(5))<<3|g.intn(6)))
				y = append(y, g.bytes(g.intn(4))...)
			}
		default: // long runs of continuation bytes
			y = bytes.Repeat([]byte{byte(0x80 | g.intn(128))}, 1+g.intn(14))
			y = append(y, g.bytes(g.intn(3))...)
		}
		r.emitCase(bi, "garbage", []any{0, 0, ints(y)}, -1, y, g.coin(10))
	}
	bi++
	plens := []int{0, 0, 1, 5, 17, 40}
	for b := 0; b < nb+nbig; b++ {
		big := b >= nb
		plen := plens[g.intn(len(plens))]
		fp := 0
		switch {
		case b%3 == 0:
			fp = 1
		case b%3 == 1:
			fp = 2
		}
		var o *object.Object
		var desc string
		for try := 0; ; try++ {
			if big {
				plen = 8
			}
			o, desc = genObject(g, plen, fp)
			if big || len(o.Marshal()) <= 330 || try > 20 {
				break
			}
		}
		tail, tailb := 0, 0
		var x []byte
		if big {
			tail = objectwire.NonPayloadFieldsBufferLength + g.intn(3000) - 200*(b%2)
			if b%2 == 1 { // file just below / above the buffer size
				tail = objectwire.NonPayloadFieldsBufferLength - 300 + g.intn(200)
			}
			tailb = 1 + g.intn(250)
			pl := append(g.bytes(8), bytes.Repeat([]byte{byte(tailb)}, tail)...)
			o.SetPayload(pl)
			o.SetPayloadSize(uint64(len(pl)))
			x = o.Marshal()
			desc += fmt.Sprintf("/big%d", tail)
		} else {
			x = o.Marshal()
		}
		// sanity: the SDK decodes what it encoded
		var chk object.Object
		must(chk.Unmarshal(x))
		emit(baseRec{K: "base", I: bi, Bytes: ints(x[:len(x)-tail]), Tail: tail, TailB: tailb, Valid: true, Desc: desc})
		r.emitCase(bi, "valid", nil, -1, x, true)
		// header-only form written by WriteWithoutPayload
		var wb bytes.Buffer
		must(objectwire.WriteWithoutPayload(&wb, *o))
		if o.PayloadSize() == uint64(len(o.Payload())) && !bytes.HasPrefix(x, wb.Bytes()) {
			must(fmt.Errorf("WriteWithoutPayload output is not a prefix of Marshal"))
		}
		// truncations
		small := len(x) - tail
		if !big {
			for k := 0; k < len(x); k++ {
				r.emitCase(bi, "trunc", nil, k, x[:k], k%37 == 5 || k == wb.Len())
			}
		} else {
			for k := 0; k < small+3 && k < len(x); k++ {
				r.emitCase(bi, "trunc", nil, k, x[:k], k >= small-12)
			}
			L := objectwire.NonPayloadFieldsBufferLength
			for _, k := range []int{L - 1, L, L + 1, len(x) - 1} {
				if k > 0 && k < len(x) {
					r.emitCase(bi, "trunc", nil, k, x[:k], true)
				}
			}
		}
		// mutations
		nm := nmut
		if big {
			nm = nmut / 3
		}
		for i := 0; i < nm; i++ {
			var y []byte
			var d string
			switch c := g.intn(10); {
			case c < 2: // single byte
				y = append([]byte{}, x...)
				p := g.intn(small)
				if g.coin(50) {
					y[p] ^= 1 << uint(g.intn(8))
				} else {
					y[p] = byte(g.next())
				}
				d = "byte"
			case c < 5:
				y, d = mutateAt(g, x, 0, g.intn(9))
			case c < 8:
				y, d = mutateAt(g, x, 1, g.intn(9))
			default:
				k := g.intn(10)
				if k == 9 {
					k = 99
				}
				y, d = mutateSplit(g, x, k)
				if y == nil {
					y, d = mutateAt(g, x, 1, g.intn(9))
				}
			}
			if bytes.Equal(y, x) {
				continue
			}
			sp := diffSplice(x, y)
			if len(sp[2].([]int)) > 1500 {
				continue // e.g. a duplicated 20 KiB payload: too large a literal for the Coq side
			}
			r.emitCase(bi, "mut:"+d, sp, -1, y, big || g.coin(8))
		}
		bi++
	}
}

func main() {
	if len(os.Args) < 2 {
		fmt.Fprintln(os.Stderr, "usage: wire consts|run")
		os.Exit(2)
	}
	switch os.Args[1] {
	case "consts":
		consts()
	case "run":
		run()
	default:
		fmt.Fprintln(os.Stderr, "unknown command")
		os.Exit(2)
	}
}
