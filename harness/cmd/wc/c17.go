//go:build verif

package main

import (
	"encoding/json"
	"os"
	"sort"
	"sync"
	"time"

	"github.com/nspcc-dev/neofs-node/pkg/local_object_storage/blobstor/common"
	"github.com/nspcc-dev/neofs-node/pkg/local_object_storage/writecache"
	oid "github.com/nspcc-dev/neofs-sdk-go/object/id"
)

type op struct {
	T  string `json:"t"`
	O  int    `json:"o,omitempty"`
	Os []int  `json:"os,omitempty"`
	Ms int    `json:"ms,omitempty"`
	M  string `json:"m,omitempty"` // what the sleep means for the model: "round" | "recover"
}

type obs struct {
	Calls []call  `json:"calls"`
	Size  uint64  `json:"size"`
	Cmap  []int   `json:"cmap"`
	Csum  uint64  `json:"csum"` // sum of the sizes recorded in the counters map
	Dir   []int   `json:"dir"`
	Dsum  uint64  `json:"dsum"` // sum of the sizes of the files in the cache directory
	Infl  []int   `json:"infl"`
	Blob  []int   `json:"blob"`
	Held  bool    `json:"held"` // observed while the main storage blocks its calls (not a quiescent point)
	Pend  [][]int `json:"pend"` // batches of the storage calls in progress (blocked), sorted
}

type c17Case struct {
	ID      int      `json:"id"`
	Kind    string   `json:"kind"` // sched | abort | prop
	Thr     uint64   `json:"thr"`
	Cnt     int      `json:"cnt"`
	Msz     uint64   `json:"msz"`
	Workers int      `json:"workers"`
	ThrObj  *int     `json:"thr_obj,omitempty"`  // threshold := marshalled size of this object (boundary)
	MszObjs []int    `json:"msz_objs,omitempty"` // max batch size := sum of these objects' sizes (boundary)
	Payload []int    `json:"payload"`            // requested payload sizes
	Sizes   []uint64 `json:"sizes"`              // marshalled sizes = what the cache accounts
	Script  []op     `json:"script"`
	Obs     []obs    `json:"obs"`
}

func runC17(cs *c17Case) {
	dir, err := os.MkdirTemp("", "verif-wc-")
	must(err)
	defer os.RemoveAll(dir)

	objs := make([]tobj, len(cs.Payload))
	cs.Sizes = make([]uint64, len(objs))
	idx := map[oid.Address]int{}
	for i, p := range cs.Payload {
		objs[i] = mkObj(uint64(cs.ID)+1000003, i, p)
		cs.Sizes[i] = uint64(len(objs[i].data))
		idx[objs[i].addr] = i
	}
	if cs.ThrObj != nil {
		cs.Thr = cs.Sizes[*cs.ThrObj]
	}
	if len(cs.MszObjs) > 0 {
		cs.Msz = 0
		for _, k := range cs.MszObjs {
			cs.Msz += cs.Sizes[k]
		}
	}
	mainSt := newMainStorage(dir + "/main")
	fs := &failStor{Storage: mainSt, idx: idx, sizes: cs.Sizes, poison: map[int]bool{}, delay: 5 * time.Millisecond}
	newWC := func() writecache.Cache {
		wc := writecache.New(
			writecache.WithPath(dir+"/wc"),
			writecache.WithStorage(fs),
			writecache.WithFlushWorkersCount(cs.Workers),
			writecache.WithMaxFlushBatchThreshold(cs.Thr),
			writecache.WithMaxFlushBatchCount(cs.Cnt),
			writecache.WithMaxFlushBatchSize(cs.Msz),
			writecache.WithNoSync(true),
		)
		must(wc.Open(false))
		must(wc.Init(common.ID{}))
		return wc
	}
	wc := newWC()

	toIdx := func(m map[oid.Address]uint64) ([]int, uint64) {
		r := make([]int, 0, len(m))
		var sum uint64
		for a, sz := range m {
			r = append(r, idx[a])
			sum += sz
		}
		sort.Ints(r)
		return r, sum
	}
	cs.Obs = []obs{}
	for _, o := range cs.Script {
		switch o.T {
		case "put":
			// out-of-space and the like are not expected here
			must(wc.Put(objs[o.O].addr, objs[o.O].obj, objs[o.O].data))
		case "cput":
			var wg sync.WaitGroup
			for _, k := range o.Os {
				wg.Add(1)
				go func() {
					defer wg.Done()
					must(wc.Put(objs[k].addr, objs[k].obj, objs[k].data))
				}()
			}
			wg.Wait()
		case "del":
			_ = wc.Delete(objs[o.O].addr)
		case "poison":
			fs.mu.Lock()
			fs.poison[o.O] = true
			fs.mu.Unlock()
		case "failall":
			fs.mu.Lock()
			fs.failAll = true
			fs.mu.Unlock()
		case "failseq":
			fs.mu.Lock()
			for _, b := range o.Os {
				fs.failSeq = append(fs.failSeq, b != 0)
			}
			fs.mu.Unlock()
		case "hold":
			// the main storage stops answering: workers keep their batches in flight, ticks go on
			fs.hold()
		case "release":
			fs.release()
		case "heal":
			fs.mu.Lock()
			fs.failAll = false
			fs.poison = map[int]bool{}
			fs.failSeq = nil
			fs.mu.Unlock()
		case "restart":
			// a new process on the same directory: counters are rebuilt by initCounters
			quiesce(fs)
			must(wc.Close())
			wc = newWC()
		case "sleep":
			time.Sleep(time.Duration(o.Ms) * time.Millisecond)
		case "obs":
			quiesce(fs)
			var ob obs
			size, m, infl, d, err := writecache.VerifState(wc)
			must(err)
			ob.Size = size
			ob.Cmap, ob.Csum = toIdx(m)
			ob.Dir, ob.Dsum = toIdx(d)
			ob.Infl = []int{}
			for _, a := range infl {
				ob.Infl = append(ob.Infl, idx[a])
			}
			sort.Ints(ob.Infl)
			ob.Blob = []int{}
			for i := range objs {
				if b, err := mainSt.GetBytes(objs[i].addr); err == nil && string(b) == string(objs[i].data) {
					ob.Blob = append(ob.Blob, i)
				}
			}
			ob.Calls = fs.takeCalls()
			ob.Held = fs.isHeld()
			ob.Pend = fs.pending()
			cs.Obs = append(cs.Obs, ob)
		default:
			panic("unknown op " + o.T)
		}
	}
	// let the cache stop cleanly: storage healthy, so Close's goroutines end
	fs.mu.Lock()
	fs.failAll = false
	fs.poison = map[int]bool{}
	fs.failSeq = nil
	fs.mu.Unlock()
	fs.release()
	must(wc.Close())
	must(mainSt.Close())
}

// ---- generators ---------------------------------------------------------------

// distinctPayloads: n payload sizes, pairwise distinct, drawn around the base values.
func distinctPayloads(r *rng, n int, small, big int, nbig int) []int {
	seen := map[int]bool{}
	res := []int{}
	for len(res) < n {
		base := small
		if len(res) < nbig {
			base = big
		}
		v := base + r.intn(40)
		if !seen[v] {
			seen[v] = true
			res = append(res, v)
		}
	}
	// shuffle
	for i := len(res) - 1; i > 0; i-- {
		j := r.intn(i + 1)
		res[i], res[j] = res[j], res[i]
	}
	return res
}

const overheadGuess = 110 // marshalled size - payload size, roughly; only used to place thresholds

func genParams(r *rng, cs *c17Case, small, big int) {
	n := len(cs.Payload)
	if r.chance(1, 3) {
		k := r.intn(n)
		cs.ThrObj = &k
	}
	if r.chance(1, 4) {
		for j := 0; j < 1+r.intn(3); j++ {
			cs.MszObjs = append(cs.MszObjs, r.intn(n))
		}
	}
	// threshold between the small and big payload classes, or on top of an actual size later
	cs.Thr = uint64(overheadGuess + (small+big)/2)
	cs.Cnt = 1 + r.intn(4)
	if r.chance(1, 4) {
		cs.Cnt = 128
	}
	switch r.intn(3) {
	case 0:
		cs.Msz = 8 << 20
	case 1:
		cs.Msz = uint64(2*(overheadGuess+small) + r.intn(small+overheadGuess))
	default:
		cs.Msz = uint64(overheadGuess + small + r.intn(40))
	}
}

// holdEpisode: the main storage blocks while `ticks` scheduler ticks pass and objects keep coming, then
// answers again. Rounds begin while workers still hold batches (objects in flight at the snapshot), the
// scheduler may get stuck handing a batch over (all workers busy) and find a buffered tick afterwards.
// Starts and ends on the x.5 s grid of the observation points; the storage is healthy (sched kind).
func holdEpisode(r *rng, cs *c17Case, n int, ticks int) {
	cs.Script = append(cs.Script, op{T: "hold"}, op{T: "sleep", Ms: 1000, M: "round"}, op{T: "obs"})
	var small []int // objects below the batching threshold (payload classes 200.. / 900..)
	for i, p := range cs.Payload {
		if p < 500 {
			small = append(small, i)
		}
	}
	onlySmall := r.chance(1, 2) // the batching rules are about small objects: often let only such objects arrive
	for k := 1; k < ticks; k++ {
		np := r.intn(4)
		if k == 1 && np == 0 {
			np = 1 + r.intn(3)
		}
		for j := 0; j < np; j++ {
			o := r.intn(n)
			if onlySmall && len(small) > 0 {
				o = small[r.intn(len(small))]
			}
			cs.Script = append(cs.Script, op{T: "put", O: o})
		}
		if r.chance(1, 8) {
			cs.Script = append(cs.Script, op{T: "del", O: r.intn(n)})
		}
		cs.Script = append(cs.Script, op{T: "sleep", Ms: 1000, M: "round"}, op{T: "obs"})
	}
	// everything that was blocked finishes well within 300 ms (5 ms per storage call); next tick 500 ms after the release
	cs.Script = append(cs.Script, op{T: "release"}, op{T: "sleep", Ms: 300}, op{T: "obs"},
		op{T: "sleep", Ms: 700, M: "round"}, op{T: "obs"})
}

// fixed schedules of the class "a round begins while a worker still holds a batch"
func fixedHoldCases(id int) []*c17Case {
	put := func(o int) op { return op{T: "put", O: o} }
	round := []op{{T: "sleep", Ms: 1000, M: "round"}, {T: "obs"}}
	tail := []op{{T: "release"}, {T: "sleep", Ms: 300}, {T: "obs"}, {T: "sleep", Ms: 700, M: "round"}, {T: "obs"},
		{T: "sleep", Ms: 1000, M: "round"}, {T: "obs"}}
	mk := func(workers, cnt int, payload []int, script ...[]op) *c17Case {
		cs := &c17Case{ID: id, Kind: "sched", Workers: workers, Payload: payload, Thr: 600, Cnt: cnt, Msz: 8 << 20}
		id++
		cs.Script = []op{{T: "sleep", Ms: 500}}
		for _, p := range script {
			cs.Script = append(cs.Script, p...)
		}
		return cs
	}
	return []*c17Case{
		// big object held by one of two workers; two small objects arrive; next round starts with the big one in flight
		mk(2, 128, []int{900, 201, 202}, []op{put(0), {T: "obs"}, {T: "hold"}}, round, []op{put(1), put(2)}, round, round, tail),
		// the same with a single worker: the small batch waits at the hand-over, the tick is buffered
		mk(1, 128, []int{900, 201, 202}, []op{put(0), {T: "obs"}, {T: "hold"}}, round, []op{put(1), put(2)}, round, round, tail),
		// more batches than workers: the round is stuck at the hand-over, objects arrive, buffered tick's round
		// starts while the last batch is still being stored
		mk(1, 2, []int{201, 202, 203, 204, 205, 900}, []op{put(0), put(1), put(2), put(5), {T: "obs"}, {T: "hold"}}, round,
			[]op{put(3), put(4)}, round, tail),
		// small batch in flight, small and big objects arrive in two steps
		mk(3, 128, []int{201, 202, 203, 204, 900, 901}, []op{put(0), put(1), {T: "obs"}, {T: "hold"}}, round,
			[]op{put(2), put(4)}, round, []op{put(3), put(5), put(0)}, round, tail),
	}
}

func genSched(r *rng, id int) *c17Case {
	cs := &c17Case{ID: id, Kind: "sched", Workers: 1 + r.intn(4)}
	n := 1 + r.intn(8)
	holdRound := -1
	if r.chance(1, 2) {
		// one of the rounds happens with the main storage blocked for 2-3 ticks
		if n < 3 {
			n += 3
		}
		holdRound = 0
	}
	nbig := r.intn(n + 1)
	if r.chance(1, 5) {
		nbig = n
	}
	if holdRound >= 0 && nbig > n-2 {
		nbig = n - 2
	}
	small, big := 200, 900
	cs.Payload = distinctPayloads(r, n, small, big, nbig)
	genParams(r, cs, small, big)
	rounds := 1 + r.intn(3)
	if holdRound >= 0 {
		holdRound = r.intn(rounds)
		if r.chance(1, 3) {
			cs.Cnt = 128 // batches closed by the end of the round / size only
		}
	}
	cs.Script = append(cs.Script, op{T: "sleep", Ms: 500})
	for k := 0; k < rounds; k++ {
		np := 1 + r.intn(n+2)
		if k == holdRound {
			np = 1 + r.intn(3) // leave objects to arrive while the storage is blocked
		}
		for j := 0; j < np; j++ {
			cs.Script = append(cs.Script, op{T: "put", O: r.intn(n)})
		}
		if r.chance(1, 6) {
			cs.Script = append(cs.Script, op{T: "del", O: r.intn(n)})
		}
		if k == holdRound {
			cs.Script = append(cs.Script, op{T: "obs"})
			holdEpisode(r, cs, n, 2+r.intn(2))
			continue
		}
		if r.chance(1, 6) {
			// ticks of the new cache are at +1s from now: re-align the observation points
			cs.Script = append(cs.Script, op{T: "restart"}, op{T: "sleep", Ms: 500})
		}
		cs.Script = append(cs.Script, op{T: "obs"}, op{T: "sleep", Ms: 1000, M: "round"}, op{T: "obs"})
	}
	return cs
}

func genAbort(r *rng, id int) *c17Case {
	cs := &c17Case{ID: id, Kind: "abort", Workers: 1}
	n := 2 + r.intn(7)
	nbig := r.intn(n + 1)
	small, big := 200, 900
	cs.Payload = distinctPayloads(r, n, small, big, nbig)
	genParams(r, cs, small, big)
	for j := 0; j < n; j++ {
		if r.chance(5, 6) {
			cs.Script = append(cs.Script, op{T: "put", O: j})
		}
	}
	if r.chance(1, 3) {
		cs.Script = append(cs.Script, op{T: "put", O: r.intn(n)})
	}
	if r.chance(1, 3) {
		cs.Script = append(cs.Script, op{T: "failall"})
	} else {
		cs.Script = append(cs.Script, op{T: "poison", O: r.intn(n)})
		if r.chance(1, 3) {
			cs.Script = append(cs.Script, op{T: "poison", O: r.intn(n)})
		}
	}
	cs.Script = append(cs.Script,
		op{T: "obs"},
		op{T: "sleep", Ms: 1500, M: "round"}, op{T: "obs"}, // round 1 (t=1s) done, scheduler in its error back-off (if any call failed)
		op{T: "heal"},
		op{T: "sleep", Ms: 3000}, op{T: "obs"}, // t=4.5s: still in the back-off if a call failed (nothing may have happened)
		op{T: "sleep", Ms: 7000, M: "recover"}, op{T: "obs"}, // t=11.5s: back-off over, round 2 and the buffered tick's round done
		op{T: "sleep", Ms: 1200, M: "round"}, op{T: "obs"}, // tick at 12s
	)
	return cs
}

func genProp(r *rng, id int) *c17Case {
	cs := &c17Case{ID: id, Kind: "prop", Workers: 1 + r.intn(4)}
	n := 2 + r.intn(8)
	small, big := 200, 900
	cs.Payload = make([]int, n)
	for i := range cs.Payload {
		if r.chance(1, 2) {
			cs.Payload[i] = small + r.intn(3) // equal sizes on purpose
		} else {
			cs.Payload[i] = big + r.intn(3)
		}
	}
	genParams(r, cs, small, big)
	phases := 1 + r.intn(3)
	for k := 0; k < phases; k++ {
		np := 1 + r.intn(n+2)
		for j := 0; j < np; j++ {
			switch r.intn(6) {
			case 0:
				o := r.intn(n)
				cs.Script = append(cs.Script, op{T: "cput", Os: []int{o, o, r.intn(n)}})
			case 1:
				cs.Script = append(cs.Script, op{T: "del", O: r.intn(n)})
			default:
				cs.Script = append(cs.Script, op{T: "put", O: r.intn(n)})
			}
		}
		holdPhase := r.chance(2, 5)
		failKind := r.intn(4)
		if holdPhase && r.chance(2, 3) {
			failKind = 3 // mostly a healthy storage that is merely slow: rounds go on instead of the error back-off
		}
		switch failKind {
		case 0:
			cs.Script = append(cs.Script, op{T: "failall"})
		case 1:
			cs.Script = append(cs.Script, op{T: "poison", O: r.intn(n)})
		case 2:
			fsq := []int{}
			for j := 0; j < 1+r.intn(5); j++ {
				fsq = append(fsq, r.intn(2))
			}
			cs.Script = append(cs.Script, op{T: "failseq", Os: fsq})
		}
		if holdPhase {
			// the main storage blocks for a few ticks while objects keep coming (rounds begin with batches in flight),
			// then answers according to the policy of that moment
			cs.Script = append(cs.Script, op{T: "hold"}, op{T: "sleep", Ms: 500 + r.intn(2)*1000}, op{T: "obs"})
			var smallObjs []int
			for i, p := range cs.Payload {
				if p < 500 {
					smallObjs = append(smallObjs, i)
				}
			}
			onlySmall := r.chance(1, 2) && len(smallObjs) > 0
			for j := 0; j < 1+r.intn(2); j++ {
				for i := 0; i < 1+r.intn(3); i++ {
					o := r.intn(n)
					if onlySmall {
						o = smallObjs[r.intn(len(smallObjs))]
					}
					cs.Script = append(cs.Script, op{T: "put", O: o})
				}
				cs.Script = append(cs.Script, op{T: "sleep", Ms: 1000 + r.intn(2)*1000}, op{T: "obs"})
			}
			cs.Script = append(cs.Script, op{T: "release"})
		}
		cs.Script = append(cs.Script, op{T: "sleep", Ms: 500 + r.intn(3)*1000}, op{T: "obs"})
		if r.chance(1, 2) {
			cs.Script = append(cs.Script, op{T: "sleep", Ms: 3000 + r.intn(9000)}, op{T: "obs"})
		}
		if r.chance(2, 3) {
			cs.Script = append(cs.Script, op{T: "heal"})
		}
	}
	// writes stopped; storage accepts writes from now on
	cs.Script = append(cs.Script, op{T: "heal"}, op{T: "release"}, op{T: "obs"})
	for k := 0; k < 3; k++ {
		cs.Script = append(cs.Script, op{T: "sleep", Ms: 11500}, op{T: "obs"})
	}
	return cs
}

func c17Main(args []string) {
	enc := json.NewEncoder(os.Stdout)
	if len(args) > 0 && args[0] == "replay" {
		var cases []*c17Case
		dec := json.NewDecoder(os.Stdin)
		for {
			var c c17Case
			if err := dec.Decode(&c); err != nil {
				break
			}
			cases = append(cases, &c)
		}
		inBubbles(len(cases), func(k int) {
			runC17(cases[k])
			_ = enc.Encode(cases[k])
		})
		return
	}
	seed := envU64("VERIF_SEED", 1)
	nSched, nAbort, nProp := 60, 60, 60
	if os.Getenv("VERIF_TIER") == "thorough" {
		nSched, nAbort, nProp = 1500, 1500, 1500
	}
	if len(args) >= 3 {
		nSched, nAbort, nProp = atoi(args[0]), atoi(args[1]), atoi(args[2])
	}
	r := &rng{s: seed*0x100000001b3 + 17}
	var cases []*c17Case
	cases = append(cases, fixedHoldCases(0)...)
	for i := len(cases); i < nSched; i++ {
		cases = append(cases, genSched(r, len(cases)))
	}
	for i := 0; i < nAbort; i++ {
		cases = append(cases, genAbort(r, len(cases)))
	}
	for i := 0; i < nProp; i++ {
		cases = append(cases, genProp(r, len(cases)))
	}
	inBubbles(len(cases), func(k int) {
		runC17(cases[k])
		_ = enc.Encode(cases[k])
	})
}
