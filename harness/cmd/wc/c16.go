//go:build verif

package main

import (
	"encoding/json"
	"errors"
	"io"
	"os"
	"runtime"
	"sync"
	"sync/atomic"
	"time"

	"github.com/nspcc-dev/neofs-node/pkg/local_object_storage/blobstor/common"
	"github.com/nspcc-dev/neofs-node/pkg/local_object_storage/blobstor/fstree"
	meta "github.com/nspcc-dev/neofs-node/pkg/local_object_storage/metabase"
	"github.com/nspcc-dev/neofs-node/pkg/local_object_storage/shard"
	"github.com/nspcc-dev/neofs-node/pkg/local_object_storage/shard/mode"
	"github.com/nspcc-dev/neofs-node/pkg/local_object_storage/writecache"
	apistatus "github.com/nspcc-dev/neofs-sdk-go/client/status"
	"github.com/nspcc-dev/bbolt"
	"github.com/nspcc-dev/neofs-sdk-go/object"
	oid "github.com/nspcc-dev/neofs-sdk-go/object/id"
)

type epoch0 struct{}

func (epoch0) CurrentEpoch() uint64 { return 0 }

// slowStor widens the windows of the flusher and of the reader's blob access and fails sometimes.
type slowStor struct {
	common.Storage
	mu       sync.Mutex
	r        *rng
	failPct  int
	idx      map[oid.Address]int
	sh       atomic.Pointer[shard.Shard]
	puts     atomic.Int64
	failed   atomic.Int64
	orderBad atomic.Int64 // cache file gone during a flusher's storage.Put while the blob storage does not have the object
}

func (s *slowStor) pause() {
	s.mu.Lock()
	k := s.r.intn(6)
	s.mu.Unlock()
	switch k {
	case 0:
	case 1, 2:
		runtime.Gosched()
	case 3, 4:
		time.Sleep(time.Duration(50+k*100) * time.Microsecond)
	default:
		time.Sleep(2 * time.Millisecond)
	}
}

func (s *slowStor) fail() bool {
	s.mu.Lock()
	defer s.mu.Unlock()
	return s.r.intn(100) < s.failPct
}

func (s *slowStor) cached(a oid.Address) bool {
	sh := s.sh.Load()
	if sh == nil {
		return false
	}
	wc := shard.VerifWCWriteCache(sh)
	if wc == nil {
		return false
	}
	has, known := writecache.VerifHasFile(wc, a)
	return has && known
}

// goneNow: the cache file is certainly absent
func (s *slowStor) goneNow(a oid.Address) bool {
	sh := s.sh.Load()
	if sh == nil {
		return false
	}
	wc := shard.VerifWCWriteCache(sh)
	if wc == nil {
		return false
	}
	has, known := writecache.VerifHasFile(wc, a)
	return known && !has
}

// check samples the core invariant at the flusher: the object was cached when the flush of it started;
// if the cache file is gone now (another flusher finished), the blob storage must have the object.
func (s *slowStor) check(a oid.Address, before bool) {
	if before && s.goneNow(a) {
		if ok, err := s.Storage.Exists(a); err == nil && !ok {
			s.orderBad.Add(1)
		}
	}
}

func (s *slowStor) Put(a oid.Address, d []byte) error {
	s.puts.Add(1)
	before := s.cached(a)
	s.pause()
	if s.fail() {
		s.failed.Add(1)
		s.check(a, before)
		return errInjected
	}
	err := s.Storage.Put(a, d)
	s.pause() // object is in both places now: readers race with the flusher's cache delete
	s.check(a, before)
	return err
}

func (s *slowStor) PutBatch(m map[oid.Address][]byte) error {
	s.puts.Add(1)
	before := map[oid.Address]bool{}
	for a := range m {
		before[a] = s.cached(a)
	}
	s.pause()
	if s.fail() {
		s.failed.Add(1)
		for a := range m {
			s.check(a, before[a])
		}
		return errInjected
	}
	err := s.Storage.PutBatch(m)
	s.pause()
	for a := range m {
		s.check(a, before[a])
	}
	return err
}

func (s *slowStor) Get(a oid.Address) (*object.Object, error) { s.pause(); return s.Storage.Get(a) }
func (s *slowStor) GetBytes(a oid.Address) ([]byte, error)   { s.pause(); return s.Storage.GetBytes(a) }
func (s *slowStor) GetStream(a oid.Address) (*object.Object, io.ReadCloser, error) {
	s.pause()
	return s.Storage.GetStream(a)
}

type badRead struct {
	Obj   int    `json:"obj"`
	API   string `json:"api"`
	Class string `json:"class"` // notfound | differ | error
	Mode  string `json:"mode"`
}

type c16Case struct {
	ID       int       `json:"id"`
	Objects  int       `json:"objects"`
	FailPct  int       `json:"fail_pct"`
	Workers  int       `json:"workers"`
	Reopen   bool      `json:"reopen"`
	Modes    bool      `json:"modes"`
	Explicit bool      `json:"explicit"` // explicit FlushWriteCache calls (otherwise only the background flusher runs: batches)
	DurMs    int       `json:"dur_ms"`
	Reads    int64     `json:"reads"`
	ReadsOK  int64     `json:"reads_ok"`
	FromWC   int64     `json:"reads_while_cached"`
	Bad      []badRead `json:"bad"`
	Acked    int       `json:"acked"`
	CachePut int64     `json:"storage_puts"`
	Failed   int64     `json:"storage_failed"`
	OrderBad int64     `json:"order_bad"`
	Flushes  int64     `json:"explicit_flushes"`
	ModeSw   int64     `json:"mode_switches"`
	Reopens  int64     `json:"reopens"`
	FinalErr string    `json:"final_flush"` // ok | error
	NotInBlob []int    `json:"not_in_blob"`
	LeftInWC  int      `json:"left_in_cache"`
}

func runC16(cs *c16Case, seed uint64) {
	dir, err := os.MkdirTemp("", "verif-wc16-")
	must(err)
	defer os.RemoveAll(dir)
	r := &rng{s: seed ^ uint64(cs.ID)*0x9e3779b97f4a7c15}
	objs := make([]tobj, cs.Objects)
	idx := map[oid.Address]int{}
	for i := range objs {
		pl := 150 + r.intn(100)
		if r.chance(1, 2) {
			pl = 900 + r.intn(200)
		}
		objs[i] = mkObj(uint64(cs.ID)+77000001, i, pl)
		idx[objs[i].addr] = i
	}
	mainSt := fstree.New(fstree.WithPath(dir+"/blob"), fstree.WithDepth(0))
	st := &slowStor{Storage: mainSt, r: &rng{s: r.next()}, failPct: cs.FailPct, idx: idx}
	sh := shard.New(
		shard.WithMetaBaseOptions(meta.WithPath(dir+"/meta"), meta.WithEpochState(epoch0{}), meta.WithMaxBatchDelay(time.Microsecond), meta.WithBoltDBOptions(&bbolt.Options{NoSync: true, NoFreelistSync: true})),
		shard.WithWriteCache(true),
		shard.WithWriteCacheOptions(
			writecache.WithPath(dir+"/wc"),
			writecache.WithFlushWorkersCount(cs.Workers),
			writecache.WithMaxFlushBatchThreshold(700),
			writecache.WithMaxFlushBatchCount(2),
			writecache.WithNoSync(true),
		),
		shard.WithBlobstor(st),
	)
	must(sh.Open())
	must(sh.Init())
	st.sh.Store(sh)

	var (
		gate    sync.RWMutex // reopen excludes running operations
		acked   = make([]atomic.Bool, len(objs))
		stop    atomic.Bool
		wg      sync.WaitGroup
		badMu   sync.Mutex
		curMode atomic.Int32
	)
	modeName := func() string { return mode.Mode(curMode.Load()).String() }
	report := func(i int, api, class string) {
		badMu.Lock()
		if len(cs.Bad) < 20 {
			cs.Bad = append(cs.Bad, badRead{Obj: i, API: api, Class: class, Mode: modeName()})
		}
		badMu.Unlock()
	}
	classify := func(i int, api string, b []byte, err error) {
		atomic.AddInt64(&cs.Reads, 1)
		switch {
		case err == nil && string(b) == string(objs[i].data):
			atomic.AddInt64(&cs.ReadsOK, 1)
		case err == nil:
			report(i, api, "differ")
		case errors.Is(err, apistatus.ErrObjectNotFound):
			report(i, api, "notfound")
		default:
			report(i, api, "error")
		}
	}
	// sub-generators are derived before any goroutine starts (r itself is not shared)
	wrSeed, frSeed, mrSeed := r.next(), r.next(), r.next()
	rdSeeds := []uint64{r.next(), r.next(), r.next()}
	// writer
	wg.Add(1)
	go func() {
		defer wg.Done()
		wr := &rng{s: wrSeed}
		for i := range objs {
			if stop.Load() {
				return
			}
			for {
				gate.RLock()
				err := sh.Put(objs[i].obj, objs[i].data)
				gate.RUnlock()
				if err == nil {
					acked[i].Store(true)
					break
				}
				if os.Getenv("VERIF_DEBUG") != "" {
					println("put error:", err.Error())
				}
				if stop.Load() {
					return
				}
				time.Sleep(3 * time.Millisecond) // read-only at the moment, or blob failure on the direct path
			}
			if wr.chance(1, 3) { // repeated put of the same object
				gate.RLock()
				_ = sh.Put(objs[i].obj, objs[i].data)
				gate.RUnlock()
			}
			time.Sleep(time.Duration(wr.intn(int(cs.DurMs)*1000/len(objs)/2+1)) * time.Microsecond)
		}
	}()
	// readers
	for k := 0; k < 3; k++ {
		rr := &rng{s: rdSeeds[k]}
		wg.Add(1)
		go func() {
			defer wg.Done()
			for !stop.Load() {
				i := rr.intn(len(objs))
				if !acked[i].Load() {
					runtime.Gosched()
					continue
				}
				gate.RLock()
				if st.cached(objs[i].addr) {
					atomic.AddInt64(&cs.FromWC, 1)
				}
				switch rr.intn(3) {
				case 0:
					o, err := sh.Get(objs[i].addr, false)
					var b []byte
					if err == nil {
						b = o.Marshal()
					}
					classify(i, "Get", b, err)
				case 1:
					b, err := sh.GetBytes(objs[i].addr)
					classify(i, "GetBytes", b, err)
				default:
					h, rd, err := sh.GetStream(objs[i].addr, false)
					var b []byte
					if err == nil {
						pl, e2 := io.ReadAll(rd)
						_ = rd.Close()
						if e2 != nil {
							err = e2
						} else {
							o := *h
							o.SetPayload(pl)
							b = o.Marshal()
						}
					}
					classify(i, "GetStream", b, err)
				}
				gate.RUnlock()
				if rr.chance(1, 4) {
					time.Sleep(100 * time.Microsecond)
				}
			}
		}()
	}
	// explicit flushes
	wg.Add(1)
	go func() {
		defer wg.Done()
		fr := &rng{s: frSeed}
		for !stop.Load() && cs.Explicit {
			time.Sleep(time.Duration(5+fr.intn(40)) * time.Millisecond)
			gate.RLock()
			_ = sh.FlushWriteCache(fr.chance(1, 2))
			gate.RUnlock()
			atomic.AddInt64(&cs.Flushes, 1)
		}
	}()
	// mode switches and reopen
	if cs.Modes || cs.Reopen {
		wg.Add(1)
		go func() {
			defer wg.Done()
			mr := &rng{s: mrSeed}
			for !stop.Load() {
				time.Sleep(time.Duration(20+mr.intn(80)) * time.Millisecond)
				if cs.Reopen && mr.chance(1, 3) {
					gate.Lock()
					must(sh.Close())
					must(sh.Open())
					must(sh.Init())
					curMode.Store(int32(mode.ReadWrite))
					gate.Unlock()
					atomic.AddInt64(&cs.Reopens, 1)
					continue
				}
				if cs.Modes {
					m := mode.ReadOnly
					gate.RLock()
					if sh.SetMode(m) == nil {
						curMode.Store(int32(m))
					}
					gate.RUnlock()
					time.Sleep(time.Duration(2+mr.intn(10)) * time.Millisecond)
					gate.RLock()
					if sh.SetMode(mode.ReadWrite) == nil {
						curMode.Store(int32(mode.ReadWrite))
					}
					gate.RUnlock()
					atomic.AddInt64(&cs.ModeSw, 2)
				}
			}
		}()
	}
	time.Sleep(time.Duration(cs.DurMs) * time.Millisecond)
	stop.Store(true)
	wg.Wait()

	// storage accepts writes; a complete explicit flush must leave every acknowledged object in the blob storage
	st.mu.Lock()
	st.failPct = 0
	st.mu.Unlock()
	_ = sh.SetMode(mode.ReadWrite)
	cs.FinalErr = "ok"
	if err := sh.FlushWriteCache(false); err != nil {
		cs.FinalErr = "error"
	}
	cs.NotInBlob = []int{}
	for i := range objs {
		if !acked[i].Load() {
			continue
		}
		cs.Acked++
		b, err := mainSt.GetBytes(objs[i].addr)
		if err != nil || string(b) != string(objs[i].data) {
			cs.NotInBlob = append(cs.NotInBlob, i)
		}
	}
	if wc := shard.VerifWCWriteCache(sh); wc != nil {
		for i := range objs {
			if has, _ := writecache.VerifHasFile(wc, objs[i].addr); has {
				cs.LeftInWC++
			}
		}
	}
	cs.CachePut, cs.Failed, cs.OrderBad = st.puts.Load(), st.failed.Load(), st.orderBad.Load()
	if cs.Bad == nil {
		cs.Bad = []badRead{}
	}
	must(sh.Close())
}

func c16Main(args []string) {
	seed := envU64("VERIF_SEED", 1)
	n, par, dur := 48, 16, 2200
	if os.Getenv("VERIF_TIER") == "thorough" {
		n, par, dur = 320, 16, 2500
	}
	if len(args) >= 3 {
		n, par, dur = atoi(args[0]), atoi(args[1]), atoi(args[2])
	}
	r := &rng{s: seed*0x2545f4914f6cdd1d + 5}
	cases := make([]*c16Case, n)
	for i := range cases {
		cases[i] = &c16Case{ID: i, Objects: 3 + r.intn(6), FailPct: []int{0, 0, 20, 50}[r.intn(4)], Workers: 1 + r.intn(3),
			Reopen: r.chance(1, 3), Modes: r.chance(1, 2), Explicit: r.chance(1, 2), DurMs: dur}
	}
	var wg sync.WaitGroup
	sem := make(chan struct{}, par)
	for _, c := range cases {
		wg.Add(1)
		sem <- struct{}{}
		go func() {
			defer wg.Done()
			runC16(c, seed)
			<-sem
		}()
	}
	wg.Wait()
	enc := json.NewEncoder(os.Stdout)
	for _, c := range cases {
		_ = enc.Encode(c)
	}
}
