//go:build verif

package main

import (
	"encoding/json"
	"fmt"
	"os"
	"strconv"

	"github.com/nspcc-dev/neofs-node/pkg/local_object_storage/writecache"
)

func envU64(k string, def uint64) uint64 {
	if v, err := strconv.ParseUint(os.Getenv(k), 10, 64); err == nil {
		return v
	}
	return def
}

func atoi(s string) int {
	n, err := strconv.Atoi(s)
	must(err)
	return n
}

func main() {
	if len(os.Args) < 2 {
		fmt.Fprintln(os.Stderr, "usage: wc consts | c17 [nsched nabort nprop] | c17 replay <cases.jsonl | c16 ...")
		os.Exit(2)
	}
	args := append([]string{}, os.Args[2:]...)
	switch os.Args[1] {
	case "consts":
		_ = json.NewEncoder(os.Stdout).Encode(writecache.VerifConsts())
	case "c17":
		c17Main(args)
	case "c16":
		c16Main(args)
	default:
		fmt.Fprintln(os.Stderr, "unknown command")
		os.Exit(2)
	}
}
