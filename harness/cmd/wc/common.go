//go:build verif

// Differential harness for the write-cache family (C16, C17). Built inside
// /repo's module through `go build -overlay` (see /verif/lib/vlib.py).
//
// All cases run inside testing/synctest bubbles: the scheduler's 1 s ticker and
// its 10 s error back-off are compile-time constants of the package, so the real
// flush loop is driven with the bubble's virtual clock. File I/O is real.
package main

import (
	"crypto/sha256"
	"encoding/binary"
	"errors"
	"os"
	"sort"
	"sync"
	"testing"
	"testing/synctest"
	"time"

	"github.com/nspcc-dev/neofs-node/pkg/local_object_storage/blobstor/common"
	"github.com/nspcc-dev/neofs-node/pkg/local_object_storage/blobstor/fstree"
	"github.com/nspcc-dev/neofs-sdk-go/checksum"
	cid "github.com/nspcc-dev/neofs-sdk-go/container/id"
	"github.com/nspcc-dev/neofs-sdk-go/object"
	oid "github.com/nspcc-dev/neofs-sdk-go/object/id"
	usertest "github.com/nspcc-dev/neofs-sdk-go/user/test"
)

// ---- PRNG (splitmix64), the only source of randomness ----------------------

type rng struct{ s uint64 }

func (r *rng) next() uint64 {
	r.s += 0x9e3779b97f4a7c15
	z := r.s
	z = (z ^ (z >> 30)) * 0xbf58476d1ce4e5b9
	z = (z ^ (z >> 27)) * 0x94d049bb133111eb
	return z ^ (z >> 31)
}
func (r *rng) intn(n int) int { return int(r.next() % uint64(n)) }
func (r *rng) chance(num, den int) bool {
	return r.intn(den) < num
}

// ---- objects ---------------------------------------------------------------

type tobj struct {
	addr oid.Address
	obj  *object.Object
	data []byte
}

var owner = usertest.ID()

func mkObj(tag uint64, i int, payload int) tobj {
	var buf [16]byte
	binary.LittleEndian.PutUint64(buf[:], tag)
	binary.LittleEndian.PutUint64(buf[8:], uint64(i))
	h := sha256.Sum256(buf[:])
	var c cid.ID
	cs := sha256.Sum256(buf[:8])
	copy(c[:], cs[:])
	var id oid.ID
	copy(id[:], h[:])
	o := object.New(c, owner)
	o.SetID(id)
	o.SetType(object.TypeRegular)
	pl := make([]byte, payload)
	for k := range pl {
		pl[k] = byte(int(h[k%32]) + k)
	}
	o.SetPayload(pl)
	o.SetPayloadSize(uint64(len(pl)))
	o.SetPayloadChecksum(checksum.NewSHA256(sha256.Sum256(pl)))
	return tobj{addr: oid.NewAddress(c, id), obj: o, data: o.Marshal()}
}

// ---- main storage wrapper ----------------------------------------------------

var errInjected = errors.New("injected storage failure")

type call struct {
	Objs  []int `json:"objs"` // object indices, in the order of the scheduler's sorted array
	OK    bool  `json:"ok"`
	Batch bool  `json:"batch"`
	done  bool
}

// failStor wraps the real main storage (an FSTree); Put/PutBatch take some
// virtual time and fail according to the current policy. While the storage is
// held (hold .. release) every call blocks: the flush worker that made it keeps
// its batch in flight for as long as the script wants, scheduler ticks go on.
type failStor struct {
	common.Storage
	mu      sync.Mutex
	idx     map[oid.Address]int
	sizes   []uint64
	failAll bool
	poison  map[int]bool
	failSeq []bool // per-call outcomes consumed first (true = fail)
	delay   time.Duration
	held    bool
	relCh   chan struct{} // closed by release; made inside the bubble
	waiting int           // calls blocked by the hold
	inCall  int
	calls   []*call
	yield   func()
}

func (s *failStor) begin(objs []int, batch bool) (*call, bool) {
	s.mu.Lock()
	sort.Slice(objs, func(a, b int) bool {
		if s.sizes[objs[a]] != s.sizes[objs[b]] {
			return s.sizes[objs[a]] < s.sizes[objs[b]]
		}
		return objs[a] < objs[b]
	})
	c := &call{Objs: objs, Batch: batch}
	s.calls = append(s.calls, c)
	s.inCall++
	if s.held {
		ch := s.relCh
		s.waiting++
		s.mu.Unlock()
		<-ch
		s.mu.Lock()
		s.waiting--
	}
	// the policy at the time the storage answers
	fail := s.failAll
	for _, o := range objs {
		if s.poison[o] {
			fail = true
		}
	}
	if len(s.failSeq) > 0 {
		fail = fail || s.failSeq[0]
		s.failSeq = s.failSeq[1:]
	}
	d := s.delay
	s.mu.Unlock()
	if d > 0 {
		time.Sleep(d)
	}
	return c, fail
}

func (s *failStor) end(c *call, ok bool) {
	s.mu.Lock()
	c.OK = ok
	c.done = true
	s.inCall--
	s.mu.Unlock()
}

// hold makes every storage call from now on block until release.
func (s *failStor) hold() {
	s.mu.Lock()
	if !s.held {
		s.held = true
		s.relCh = make(chan struct{})
	}
	s.mu.Unlock()
}

func (s *failStor) release() {
	s.mu.Lock()
	if s.held {
		s.held = false
		close(s.relCh)
	}
	s.mu.Unlock()
}

func (s *failStor) isHeld() bool {
	s.mu.Lock()
	defer s.mu.Unlock()
	return s.held
}

// pending: the batches of the calls that have begun and not finished (blocked by a hold), canonical order.
func (s *failStor) pending() [][]int {
	s.mu.Lock()
	defer s.mu.Unlock()
	res := [][]int{}
	for _, c := range s.calls {
		if !c.done {
			res = append(res, append([]int{}, c.Objs...))
		}
	}
	sort.Slice(res, func(a, b int) bool {
		x, y := res[a], res[b]
		for i := 0; i < len(x) && i < len(y); i++ {
			if x[i] != y[i] {
				return x[i] < y[i]
			}
		}
		return len(x) < len(y)
	})
	return res
}

func (s *failStor) Put(a oid.Address, data []byte) error {
	c, fail := s.begin([]int{s.idx[a]}, false)
	var err error
	if fail {
		err = errInjected
	} else {
		err = s.Storage.Put(a, data)
	}
	s.end(c, err == nil)
	return err
}

func (s *failStor) PutBatch(m map[oid.Address][]byte) error {
	objs := make([]int, 0, len(m))
	for a := range m {
		objs = append(objs, s.idx[a])
	}
	c, fail := s.begin(objs, true)
	var err error
	if fail {
		err = errInjected
	} else {
		err = s.Storage.PutBatch(m)
	}
	s.end(c, err == nil)
	return err
}

func (s *failStor) takeCalls() []call {
	s.mu.Lock()
	defer s.mu.Unlock()
	// finished calls only; the ones still in progress (blocked by a hold) are reported once they end
	res := make([]call, 0, len(s.calls))
	var rest []*call
	for _, c := range s.calls {
		if c.done {
			res = append(res, *c)
		} else {
			rest = append(rest, c)
		}
	}
	s.calls = rest
	return res
}

func (s *failStor) busy() bool {
	s.mu.Lock()
	defer s.mu.Unlock()
	return s.inCall-s.waiting > 0
}

func newMainStorage(dir string) *fstree.FSTree {
	t := fstree.New(fstree.WithPath(dir), fstree.WithDepth(0))
	must(t.Open(false))
	must(t.Init(common.ID{}))
	return t
}

func must(err error) {
	if err != nil {
		panic(err)
	}
}

// quiesce waits until every goroutine of the bubble is durably blocked and no
// storage call is in progress other than the ones blocked by a hold.
func quiesce(s *failStor) {
	for k := 0; k < 1000; k++ {
		synctest.Wait()
		if !s.busy() {
			return
		}
		time.Sleep(20 * time.Millisecond)
	}
	panic("no quiescence")
}

// inBubbles runs f(k) for k in [0,n) each in a fresh synctest bubble.
func inBubbles(n int, f func(k int)) {
	os.Args = os.Args[:1]
	tests := []testing.InternalTest{{Name: "verif", F: func(t *testing.T) {
		for k := 0; k < n; k++ {
			synctest.Test(t, func(*testing.T) { f(k) })
		}
	}}}
	testing.Main(func(pat, str string) (bool, error) { return true, nil }, tests, nil, nil)
}
