//go:build verif

// C21: differential cases for iec.Encode / Decode / DecodeRange / DecodeIndexes
// (Reed-Solomon erasure coding) and for the multi-rule buffer reuse.
package main

import (
	"crypto/sha256"
	"encoding/hex"
	"encoding/json"
	"math/rand"
	"os"
	"slices"
	"strconv"

	iec "github.com/nspcc-dev/neofs-node/internal/ec"
)

type rsOp struct {
	Kind  string  `json:"kind"` // decode | range | idx
	Mask  []bool  `json:"mask"` // true = part present
	Trunc int     `json:"trunc"` // >=0: this part is cut by one byte (malformed stream)
	From  int     `json:"from"`
	To    int     `json:"to"`
	Idxs  []int   `json:"idxs"`
	OK    bool    `json:"ok"`
	Out   []int   `json:"out"`   // decode: payload
	Parts [][]int `json:"parts"` // range/idx: parts after the call
}

type rsCase struct {
	K        int     `json:"k"`
	M        int     `json:"m"`
	Data     []int   `json:"data"`
	EncOK    bool    `json:"enc_ok"`
	Parts    [][]int `json:"parts"`
	HashesOK bool    `json:"hashes_ok"` // announced sums == hex(sha256(part)) for every part
	NHashes  int     `json:"n_hashes"`
	Ops      []rsOp  `json:"ops"`
}

func seedFromEnv() int64 {
	s, err := strconv.ParseInt(os.Getenv("VERIF_SEED"), 10, 64)
	if err != nil {
		return 1
	}
	return s
}

func toInts(b []byte) []int {
	r := make([]int, len(b))
	for i := range b {
		r[i] = int(b[i])
	}
	return r
}

func toInts2(p [][]byte) [][]int {
	r := make([][]int, len(p))
	for i := range p {
		r[i] = toInts(p[i])
	}
	return r
}

func cloneParts(p [][]byte) [][]byte {
	r := make([][]byte, len(p))
	for i := range p {
		r[i] = slices.Clone(p[i])
	}
	return r
}

func applyMask(parts [][]byte, mask []bool, trunc int) [][]byte {
	r := cloneParts(parts)
	for i := range r {
		if !mask[i] {
			r[i] = nil
		}
	}
	if trunc >= 0 && trunc < len(r) && len(r[trunc]) > 0 {
		r[trunc] = r[trunc][:len(r[trunc])-1]
	}
	return r
}

func safe(f func() error) (err error, panicked bool) {
	defer func() {
		if r := recover(); r != nil {
			panicked = true
		}
	}()
	return f(), false
}

func runOp(rule iec.Rule, dataLen int, parts [][]byte, op *rsOp) {
	in := applyMask(parts, op.Mask, op.Trunc)
	switch op.Kind {
	case "decode":
		var out []byte
		err, p := safe(func() error {
			var e error
			out, e = iec.Decode(rule, uint64(dataLen), in)
			return e
		})
		op.OK = err == nil && !p
		if op.OK {
			op.Out = toInts(out)
		}
	case "range":
		err, p := safe(func() error { return iec.DecodeRange(rule, op.From, op.To, in) })
		op.OK = err == nil && !p
		if op.OK {
			op.Parts = toInts2(in)
		}
	case "idx":
		err, p := safe(func() error { return iec.DecodeIndexes(rule, in, op.Idxs) })
		op.OK = err == nil && !p
		if op.OK {
			op.Parts = toInts2(in)
		}
	}
	if op.Out == nil {
		op.Out = []int{}
	}
	if op.Parts == nil {
		op.Parts = [][]int{}
	}
	if op.Idxs == nil {
		op.Idxs = []int{}
	}
}

// all masks of n parts with exactly `missing` parts absent
func masksWithMissing(n, missing int) [][]bool {
	var res [][]bool
	var rec func(i, left int, cur []bool)
	rec = func(i, left int, cur []bool) {
		if i == n {
			if left == 0 {
				res = append(res, slices.Clone(cur))
			}
			return
		}
		if n-i > left {
			rec(i+1, left, append(cur, true))
		}
		if left > 0 {
			rec(i+1, left-1, append(cur, false))
		}
	}
	rec(0, missing, nil)
	return res
}

func randMask(rnd *rand.Rand, n, missing int) []bool {
	mask := make([]bool, n)
	for i := range mask {
		mask[i] = true
	}
	for _, i := range rnd.Perm(n)[:missing] {
		mask[i] = false
	}
	return mask
}

func randOpKind(rnd *rand.Rand, n int, op *rsOp) {
	switch rnd.Intn(3) {
	case 0:
		op.Kind = "decode"
	case 1:
		op.Kind = "range"
		op.From = rnd.Intn(n)
		op.To = op.From + rnd.Intn(n-op.From)
	default:
		op.Kind = "idx"
		cnt := rnd.Intn(n + 1)
		op.Idxs = rnd.Perm(n)[:cnt]
	}
}

func rsCases(thorough bool) {
	rnd := rand.New(rand.NewSource(seedFromEnv()))
	enc := json.NewEncoder(os.Stdout)
	maxBig := 1024
	nBig := 1
	if thorough {
		maxBig = 4096
		nBig = 3
	}
	var rules [][2]int
	for k := 1; k <= 8; k++ {
		for m := 0; m <= 4; m++ {
			rules = append(rules, [2]int{k, m})
		}
	}
	if thorough {
		// beyond the box proved in Coq (tie only): rules the protocol also allows
		rules = append(rules, [2]int{10, 3}, [2]int{12, 4}, [2]int{16, 4}, [2]int{20, 6})
	}
	for _, km := range rules {
		{
			k, m := km[0], km[1]
			n := k + m
			rule := iec.Rule{DataPartNum: uint8(k), ParityPartNum: uint8(m)}
			lens := []int{0, 1, k + 1, 2*k + 1, 1 + rnd.Intn(64)}
			if thorough || (k+m)%3 == 0 {
				for range nBig {
					lens = append(lens, 65+rnd.Intn(maxBig-64))
				}
			}
			if thorough {
				lens = append(lens, k-1, k, 4096, 4095, 3*k-1, 1+rnd.Intn(300), 1+rnd.Intn(300))
			} else if rnd.Intn(2) == 0 {
				lens = append(lens, k-1)
			} else {
				lens = append(lens, k)
			}
			slices.Sort(lens)
			lens = slices.Compact(lens)
			for _, ln := range lens {
				if ln < 0 {
					continue
				}
				data := make([]byte, ln)
				rnd.Read(data)
				c := rsCase{K: k, M: m, Data: toInts(data), Ops: []rsOp{}}
				parts, sums, err := iec.Encode(rule, slices.Clone(data))
				c.EncOK = err == nil
				if err != nil {
					c.Parts = [][]int{}
					_ = enc.Encode(c)
					continue
				}
				parts = cloneParts(parts)
				c.Parts = toInts2(parts)
				c.NHashes = len(sums)
				c.HashesOK = len(sums) == len(parts)
				for i := range parts {
					h := sha256.Sum256(parts[i])
					if i >= len(sums) || sums[i] != hex.EncodeToString(h[:]) {
						c.HashesOK = false
					}
				}
				small := n <= 4 && ln <= k+1 || thorough && n <= 8 && ln <= 2*k+1
				if small {
					// every erasure pattern with up to m parts missing, plus those with m+1 (must fail)
					for miss := 0; miss <= m+1 && miss <= n; miss++ {
						for _, mask := range masksWithMissing(n, miss) {
							op := rsOp{Kind: "decode", Mask: mask, Trunc: -1}
							runOp(rule, ln, parts, &op)
							c.Ops = append(c.Ops, op)
							op2 := rsOp{Mask: mask, Trunc: -1}
							randOpKind(rnd, n, &op2)
							if op2.Kind != "decode" {
								runOp(rule, ln, parts, &op2)
								c.Ops = append(c.Ops, op2)
							}
						}
					}
				} else {
					cnt := 4
					if thorough {
						cnt = 8
					}
					for range cnt {
						miss := rnd.Intn(m + 1)
						op := rsOp{Mask: randMask(rnd, n, miss), Trunc: -1}
						randOpKind(rnd, n, &op)
						runOp(rule, ln, parts, &op)
						c.Ops = append(c.Ops, op)
					}
					if m+1 <= n {
						op := rsOp{Mask: randMask(rnd, n, m+1), Trunc: -1}
						randOpKind(rnd, n, &op)
						runOp(rule, ln, parts, &op)
						c.Ops = append(c.Ops, op)
					}
				}
				// malformed stream: one present part is one byte short
				if ln > 0 && n > 1 {
					op := rsOp{Mask: randMask(rnd, n, rnd.Intn(m+1)), Trunc: rnd.Intn(n)}
					randOpKind(rnd, n, &op)
					runOp(rule, ln, parts, &op)
					c.Ops = append(c.Ops, op)
				}
				_ = enc.Encode(c)
			}
		}
	}
}

// extraCommand dispatches the subcommands added after C22 (kept out of main.go).
func extraCommand(args []string) bool {
	switch args[0] {
	case "rs":
		rsCases(os.Getenv("VERIF_TIER") == "thorough")
	case "multi":
		multiCases(os.Getenv("VERIF_TIER") == "thorough")
	case "putmod":
		putmodCases(os.Getenv("VERIF_TIER") == "thorough")
	default:
		return false
	}
	return true
}
