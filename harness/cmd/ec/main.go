//go:build verif

// Differential harness for the EC family (C22, later C21). Built inside
// /repo's module through `go build -overlay` (see /verif/lib/vlib.py).
package main

import (
	"encoding/json"
	"fmt"
	"os"
	"strconv"

	iec "github.com/nspcc-dev/neofs-node/internal/ec"
)

type nodeSeqCase struct {
	P   int   `json:"p"`
	T   int   `json:"t"`
	N   int   `json:"n"`
	Seq []int `json:"seq"`
}

func nodeSeq(maxT, maxN int) {
	enc := json.NewEncoder(os.Stdout)
	for t := 1; t <= maxT; t++ {
		for p := 0; p < t+2; p++ { // p >= t is outside the contract but total in Go
			for n := 0; n <= maxN; n++ {
				c := nodeSeqCase{P: p, T: t, N: n, Seq: []int{}}
				for i := range iec.NodeSequenceForPart(p, t, n) {
					c.Seq = append(c.Seq, i)
				}
				_ = enc.Encode(c)
			}
		}
	}
}

// nodeSeqSample adds pseudo-random larger triples (t <= 64, n <= 400) from VERIF_SEED
func nodeSeqSample(count int) {
	enc := json.NewEncoder(os.Stdout)
	seed, _ := strconv.ParseUint(os.Getenv("VERIF_SEED"), 10, 64)
	st := seed*0x9e3779b97f4a7c15 + 12345
	next := func(k int) int {
		st += 0x9e3779b97f4a7c15
		z := st
		z = (z ^ (z >> 30)) * 0xbf58476d1ce4e5b9
		z = (z ^ (z >> 27)) * 0x94d049bb133111eb
		z ^= z >> 31
		return int(z % uint64(k))
	}
	for i := 0; i < count; i++ {
		t := 1 + next(64)
		p := next(t)
		n := next(401)
		c := nodeSeqCase{P: p, T: t, N: n, Seq: []int{}}
		for x := range iec.NodeSequenceForPart(p, t, n) {
			c.Seq = append(c.Seq, x)
		}
		_ = enc.Encode(c)
	}
}

func main() {
	if len(os.Args) < 2 {
		fmt.Fprintln(os.Stderr, "usage: ec nodeseq <maxT> <maxN>")
		os.Exit(2)
	}
	switch os.Args[1] {
	case "nodeseq":
		maxT, _ := strconv.Atoi(os.Args[2])
		maxN, _ := strconv.Atoi(os.Args[3])
		nodeSeq(maxT, maxN)
		nodeSeqSample(maxN * 2)
	case "nodeseq1":
		p, _ := strconv.Atoi(os.Args[2])
		t, _ := strconv.Atoi(os.Args[3])
		n, _ := strconv.Atoi(os.Args[4])
		c := nodeSeqCase{P: p, T: t, N: n, Seq: []int{}}
		for i := range iec.NodeSequenceForPart(p, t, n) {
			c.Seq = append(c.Seq, i)
		}
		_ = json.NewEncoder(os.Stdout).Encode(c)
	default:
		if extraCommand(os.Args[1:]) {
			return
		}
		fmt.Fprintln(os.Stderr, "unknown command")
		os.Exit(2)
	}
}
