//go:build verif

// C21, multi-rule clause: several rules encoded from one payload buffer.
package main

import (
	"bytes"
	"encoding/json"
	"math/rand"
	"os"
	"slices"

	iec "github.com/nspcc-dev/neofs-node/internal/ec"
	putsvc "github.com/nspcc-dev/neofs-node/pkg/services/object/put"
	cidtest "github.com/nspcc-dev/neofs-sdk-go/container/id/test"
	"github.com/nspcc-dev/neofs-sdk-go/object"
	usertest "github.com/nspcc-dev/neofs-sdk-go/user/test"
)

type multiCase struct {
	Rules  [][2]int  `json:"rules"`
	Len    int       `json:"len"`
	Mem    []int     `json:"mem"`    // backing array before (length = cap)
	OK     bool      `json:"ok"`
	After  [][][]int `json:"after"`  // each rule's parts right after its own Encode
	Final  [][][]int `json:"final"`  // each rule's parts after all rules were encoded
	MemEnd []int     `json:"mem_end"` // payload bytes [0,len) after all rules
}

func randRules(rnd *rand.Rand) [][2]int {
	n := 1 + rnd.Intn(4)
	rs := make([][2]int, n)
	for i := range rs {
		rs[i] = [2]int{1 + rnd.Intn(8), rnd.Intn(5)}
	}
	return rs
}

func multiCases(thorough bool) {
	rnd := rand.New(rand.NewSource(seedFromEnv()))
	enc := json.NewEncoder(os.Stdout)
	cnt := 50
	if thorough {
		cnt = 1200
	}
	for i := range cnt {
		rules := randRules(rnd)
		ln := rnd.Intn(40)
		if i%7 == 0 {
			ln = 40 + rnd.Intn(200)
		}
		extra := 0
		switch rnd.Intn(4) {
		case 0, 1: // the caller's guarantee: cap == len
		case 2:
			extra = 1 + rnd.Intn(8)
		default:
			extra = 1 + rnd.Intn(3*ln+16)
		}
		mem := make([]byte, ln+extra)
		rnd.Read(mem)
		c := multiCase{Rules: rules, Len: ln, Mem: toInts(mem), OK: true}
		buf := mem[:ln:len(mem)]
		var all [][][]byte
		for _, r := range rules {
			parts, _, err := iec.Encode(iec.Rule{DataPartNum: uint8(r[0]), ParityPartNum: uint8(r[1])}, buf)
			if err != nil {
				c.OK = false
				break
			}
			all = append(all, parts)
			c.After = append(c.After, toInts2(parts))
		}
		for _, parts := range all {
			c.Final = append(c.Final, toInts2(parts))
		}
		c.MemEnd = toInts(mem[:ln])
		if c.After == nil {
			c.After = [][][]int{}
		}
		if c.Final == nil {
			c.Final = [][][]int{}
		}
		_ = enc.Encode(c)
	}
}

type putmodCase struct {
	Rules   [][2]int `json:"rules"`
	Len     int      `json:"len"`
	Limit   int      `json:"limit"`
	Chunk   int      `json:"chunk"`
	Known   bool     `json:"known_size"`
	Objects int      `json:"objects"`
	// per produced object
	Lens      []int  `json:"lens"`
	Caps      []int  `json:"caps"`
	PayloadOK []bool `json:"payload_ok"` // buffered payload == the bytes of that child
	PartsOK   []bool `json:"parts_ok"`   // every rule's kept parts == a fresh iec.Encode of a private copy
	Err       bool   `json:"err"`
}

func putmodCases(thorough bool) {
	rnd := rand.New(rand.NewSource(seedFromEnv() + 77))
	enc := json.NewEncoder(os.Stdout)
	cnt := 60
	if thorough {
		cnt = 600
	}
	signer := usertest.User()
	for i := range cnt {
		rs := randRules(rnd)
		rules := make([]iec.Rule, len(rs))
		for j := range rs {
			if rs[j][1] == 0 {
				rs[j][1] = 1
			}
			rules[j] = iec.Rule{DataPartNum: uint8(rs[j][0]), ParityPartNum: uint8(rs[j][1])}
		}
		limit := 256 + rnd.Intn(1792) // the link object of <= 3 children must fit the limit
		ln := rnd.Intn(3 * limit)
		switch i % 6 {
		case 0:
			ln = limit
		case 1:
			ln = limit - 1
		case 2:
			ln = 2 * limit
		case 3:
			ln = rnd.Intn(600) // around bytes.MinRead
		}
		chunk := 1 + rnd.Intn(700)
		payload := make([]byte, ln)
		rnd.Read(payload)
		var hdr object.Object
		hdr.SetContainerID(cidtest.ID())
		hdr.SetOwner(signer.UserID())
		known := rnd.Intn(2) == 0
		if known {
			hdr.SetPayloadSize(uint64(ln))
		}
		c := putmodCase{Rules: rs, Len: ln, Limit: limit, Chunk: chunk, Known: known}
		res, err := putsvc.VerifECParentsViaSlicer(rules, hdr, signer, uint64(limit), payload, chunk)
		c.Err = err != nil
		c.Objects = len(res)
		off := 0
		for _, v := range res {
			c.Lens = append(c.Lens, v.Len)
			c.Caps = append(c.Caps, v.Cap)
			end := min(off+v.PayloadLen, len(payload))
			c.PayloadOK = append(c.PayloadOK, !v.Err && bytes.Equal(v.Payload, payload[off:end]) && v.Len == v.PayloadLen)
			ok := !v.Err && len(v.Parts) == len(rules)
			for j := range rules {
				if !ok {
					break
				}
				fresh, _, err := iec.Encode(rules[j], slices.Clone(payload[off:end]))
				if err != nil || len(fresh) != len(v.Parts[j]) {
					ok = false
					break
				}
				for p := range fresh {
					if !bytes.Equal(fresh[p], v.Parts[j][p]) {
						ok = false
					}
				}
			}
			c.PartsOK = append(c.PartsOK, ok)
			off = end
		}
		if c.Lens == nil {
			c.Lens, c.Caps, c.PayloadOK, c.PartsOK = []int{}, []int{}, []bool{}, []bool{}
		}
		_ = enc.Encode(c)
	}
}
