//go:build verif

// Differential harness for the IRing family (C40 epoch timers, C39 GAS
// precision, C36 alphabet rotation). Built inside /repo's module through
// `go build -overlay` (see /verif/lib/vlib.py). Every subcommand prints one
// JSON object per line; all randomness comes from one splitmix64 state seeded
// from VERIF_SEED.
package main

import (
	"fmt"
	"os"
	"strconv"
)

type rng struct{ s uint64 }

func newRng() *rng {
	seed, _ := strconv.ParseUint(os.Getenv("VERIF_SEED"), 10, 64)
	return &rng{s: seed*0x9E3779B97F4A7C15 + 0x1234567}
}

func (r *rng) next() uint64 {
	r.s += 0x9E3779B97F4A7C15
	z := r.s
	z = (z ^ (z >> 30)) * 0xBF58476D1CE4E5B9
	z = (z ^ (z >> 27)) * 0x94D049BB133111EB
	return z ^ (z >> 31)
}

// n uniformly from [0, k)
func (r *rng) n(k uint64) uint64 {
	if k == 0 {
		return 0
	}
	return r.next() % k
}

func thorough() bool { return os.Getenv("VERIF_TIER") == "thorough" }

var commands = map[string]func(args []string){}

func main() {
	if len(os.Args) < 2 {
		fmt.Fprintln(os.Stderr, "usage: iring <subcommand> ...")
		os.Exit(2)
	}
	f, ok := commands[os.Args[1]]
	if !ok {
		fmt.Fprintln(os.Stderr, "unknown command", os.Args[1])
		os.Exit(2)
	}
	f(os.Args[2:])
}
