//go:build verif

package main

import (
	"bufio"
	"encoding/json"
	"os"
	"sort"
	"strconv"

	"github.com/nspcc-dev/neofs-node/pkg/timers"
)

// C40. An op is [0,lastTick,dur] (Reset) or [1,curr,0] (UpdateTime).
// Observable: per op, the sorted indices of the new-epoch handlers and of the
// sub-epoch handlers that were invoked by that call (with repetitions).
type timersCase struct {
	Ne     int         `json:"ne"`
	Deltas [][2]uint32 `json:"deltas"`
	Ops    [][3]uint64 `json:"ops"`
	Kind   string      `json:"kind"`
	Fired  [][2][]int  `json:"fired"`
}

func runTimers(c *timersCase) {
	var fe, fd []int
	tt := timers.EpochTicks{}
	for k := 0; k < c.Ne; k++ {
		tt.NewEpochTicks = append(tt.NewEpochTicks, func() { fe = append(fe, k) })
	}
	for i, md := range c.Deltas {
		tt.DeltaTicks = append(tt.DeltaTicks, timers.SubEpochTick{
			Tick:     func() { fd = append(fd, i) },
			EpochMul: md[0],
			EpochDiv: md[1],
		})
	}
	et := timers.NewTimers(tt)
	c.Fired = make([][2][]int, 0, len(c.Ops))
	for _, op := range c.Ops {
		fe, fd = []int{}, []int{}
		if op[0] == 0 {
			et.Reset(op[1], op[2])
		} else {
			et.UpdateTime(op[1])
		}
		sort.Ints(fe)
		sort.Ints(fd)
		c.Fired = append(c.Fired, [2][]int{fe, fd})
	}
}

func genTimersCase(r *rng) *timersCase {
	c := &timersCase{Kind: "small"}
	big := r.n(10) == 0
	if big {
		c.Kind = "big"
	}
	c.Ne = int(r.n(4))
	nd := int(r.n(4))
	for i := 0; i < nd; i++ {
		var m, d uint32
		switch {
		case big && r.n(2) == 0:
			m, d = uint32(r.next()), uint32(r.next())|1
		case r.n(6) == 0: // mul > div possible: handler scheduled after the epoch end
			m, d = uint32(r.n(7)), uint32(1+r.n(3))
		default:
			d = uint32(1 + r.n(5))
			m = uint32(r.n(uint64(d) + 1))
		}
		c.Deltas = append(c.Deltas, [2]uint32{m, d})
	}
	nops := 1 + int(r.n(14))
	var base uint64 // block time wanders around base, non-monotonically
	if big {
		switch r.n(3) {
		case 0:
			base = ^uint64(0) - 40
		case 1:
			base = 1 << 63
		default:
			base = r.next()
		}
	}
	tm := func(span uint64) uint64 { return base + r.n(span) } // may wrap in the big stream
	var curLast, curDur uint64
	for j := 0; j < nops; j++ {
		reset := r.n(5) == 0
		if j == 0 {
			reset = r.n(10) < 7
		}
		if reset {
			dur := r.n(13)
			if big {
				switch r.n(4) {
				case 0:
					dur = r.next()
				case 1:
					dur = (1 << 32) + r.n(1<<33)
				case 2:
					dur = ^uint64(0) - base + r.n(20) // last+dur around 2^64
				}
			}
			curLast, curDur = tm(24), dur
			c.Ops = append(c.Ops, [3]uint64{0, curLast, curDur})
		} else if r.n(10) < 7 {
			// block time inside / just after the running epoch, not monotonic
			c.Ops = append(c.Ops, [3]uint64{1, curLast + r.n(curDur%64+3), 0})
		} else {
			c.Ops = append(c.Ops, [3]uint64{1, tm(40), 0})
		}
	}
	return c
}

func init() {
	commands["timers"] = func(args []string) {
		n, _ := strconv.Atoi(args[0])
		r := newRng()
		enc := json.NewEncoder(os.Stdout)
		for i := 0; i < n; i++ {
			c := genTimersCase(r)
			runTimers(c)
			_ = enc.Encode(c)
		}
	}
	// re-run given cases (replay, minimisation): JSON lines on stdin
	commands["timers-run"] = func(args []string) {
		sc := bufio.NewScanner(os.Stdin)
		sc.Buffer(make([]byte, 1<<20), 1<<26)
		enc := json.NewEncoder(os.Stdout)
		for sc.Scan() {
			var c timersCase
			if err := json.Unmarshal(sc.Bytes(), &c); err != nil {
				continue
			}
			runTimers(&c)
			_ = enc.Encode(&c)
		}
	}
}
