//go:build verif

package main

import (
	"bufio"
	"encoding/json"
	"math/bits"
	"os"
	"sort"

	"github.com/nspcc-dev/neo-go/pkg/crypto/keys"
	"github.com/nspcc-dev/neofs-node/pkg/innerring/processors/governance"
)

// C36. Keys are real secp256r1 public keys; a key is reported as its rank in
// the sorted universe (keys.PublicKeys order), so the model can work on nat.
// The harness composes the two functions exactly as processAlphabetSync does:
//   newAlphabet = newAlphabetList(fsChain, mainnet)        (sorts both in place)
//   newIR = updateInnerRing(innerRing, fsChain, newAlphabet); sort.Sort(newIR)
type alphaCase struct {
	FS     []int  `json:"fs"`
	MN     []int  `json:"mn"`
	IR     []int  `json:"ir"`
	Kind   string `json:"kind"`
	AStat  int    `json:"astat"` // 0 list, 1 errEmptyFSChain, 2 errNotEnoughKeys, 3 nil (nothing to propose)
	Alpha  []int  `json:"alpha"`
	IRStat int    `json:"irstat"` // 0 ok, 1 errNotEqualLen, 7 not run
	NewIR  []int  `json:"newir"`
}

const universeSize = 8

var universe keys.PublicKeys

func initUniverse() {
	for i := 0; i < universeSize; i++ {
		b := make([]byte, 32)
		for j := range b {
			b[j] = byte(17*i + 3*j + 1)
		}
		pk, err := keys.NewPrivateKeyFromBytes(b)
		if err != nil {
			panic(err)
		}
		universe = append(universe, pk.PublicKey())
	}
	sort.Sort(universe)
}

func toKeys(ids []int) keys.PublicKeys {
	res := make(keys.PublicKeys, 0, len(ids))
	for _, i := range ids {
		// a fresh copy per occurrence, as lists fetched from the chain are
		c := *universe[i]
		res = append(res, &c)
	}
	return res
}

func toIDs(ks keys.PublicKeys) []int {
	res := make([]int, 0, len(ks))
	for _, k := range ks {
		id := -1
		for i, u := range universe {
			if u.Equal(k) {
				id = i
			}
		}
		res = append(res, id)
	}
	return res
}

func runAlpha(c *alphaCase) {
	fs, mn, ir := toKeys(c.FS), toKeys(c.MN), toKeys(c.IR)
	na, st := governance.VerifNewAlphabetList(fs, mn)
	c.AStat, c.Alpha, c.IRStat, c.NewIR = st, []int{}, 7, []int{}
	if st != 0 {
		return
	}
	if na == nil {
		c.AStat = 3
		return
	}
	c.Alpha = toIDs(na)
	nir, st2 := governance.VerifUpdateInnerRing(ir, fs, na)
	c.IRStat = st2
	if st2 == 0 {
		sort.Sort(nir)
		c.NewIR = toIDs(nir)
	}
}

func maskIDs(m int) []int {
	res := []int{}
	for i := 0; i < universeSize; i++ {
		if m&(1<<i) != 0 {
			res = append(res, i)
		}
	}
	return res
}

func shuffle(r *rng, a []int) []int {
	b := append([]int{}, a...)
	for i := len(b) - 1; i > 0; i-- {
		j := int(r.n(uint64(i + 1)))
		b[i], b[j] = b[j], b[i]
	}
	return b
}

func init() {
	commands["alphabet"] = func(args []string) {
		initUniverse()
		r := newRng()
		enc := json.NewEncoder(os.Stdout)
		emit := func(fs, mn, ir []int, kind string) {
			c := alphaCase{FS: fs, MN: mn, IR: ir, Kind: kind}
			runAlpha(&c)
			_ = enc.Encode(&c)
		}
		all := 1 << universeSize
		// exhaustive: every current alphabet of size 1..7, every main-network list at least that large,
		// inner ring = alphabet + up to 2 extra keys (quick: a sixteenth of the pairs with one
		// pseudo-random extra set, thorough: every pair with one extra set; the Coq theorem
		// C36_alphabet_universe8 covers every pair on the model)
		for a := 1; a < all-1; a++ {
			for b := 0; b < all; b++ {
				if bits.OnesCount(uint(b)) < bits.OnesCount(uint(a)) {
					continue
				}
				fs, mn := maskIDs(a), maskIDs(b)
				rest := maskIDs((all - 1) &^ a)
				var extras [][]int
				extras = append(extras, []int{})
				for i := range rest {
					extras = append(extras, []int{rest[i]})
					for j := i + 1; j < len(rest); j++ {
						extras = append(extras, []int{rest[i], rest[j]})
					}
				}
				if thorough() {
					// every pair, one extra set each
					for k := 0; k < 1; k++ {
						e := extras[r.n(uint64(len(extras)))]
						emit(shuffle(r, fs), shuffle(r, mn), shuffle(r, append(append([]int{}, fs...), e...)), "all-pairs")
					}
				} else if r.n(16) == 0 {
					// a sixteenth of the pairs, one extra set each
					e := extras[r.n(uint64(len(extras)))]
					emit(shuffle(r, fs), shuffle(r, mn), shuffle(r, append(append([]int{}, fs...), e...)), "sampled-pairs")
				}
			}
		}
		// malformed / out-of-contract stream: duplicates, short main-network lists, empty lists,
		// inner ring lists that miss alphabet keys
		n := 600
		if thorough() {
			n = 5000
		}
		for i := 0; i < n; i++ {
			rl := func(max int) []int {
				l := make([]int, int(r.n(uint64(max+1))))
				for k := range l {
					l[k] = int(r.n(universeSize))
				}
				return l
			}
			emit(rl(7), rl(9), rl(9), "random-lists")
		}
	}
	commands["alphabet-run"] = func(args []string) {
		initUniverse()
		sc := bufio.NewScanner(os.Stdin)
		enc := json.NewEncoder(os.Stdout)
		for sc.Scan() {
			var c alphaCase
			if err := json.Unmarshal(sc.Bytes(), &c); err != nil {
				continue
			}
			runAlpha(&c)
			_ = enc.Encode(&c)
		}
	}
}
