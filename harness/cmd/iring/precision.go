//go:build verif

package main

import (
	"bufio"
	"encoding/json"
	"math"
	"math/big"
	"os"
	"strconv"

	"github.com/nspcc-dev/neofs-node/pkg/util/precision"
)

// C39. Observables per (precision p, amount n): ToBalancePrecision(n),
// ToFixed8(n) and the round trip ToFixed8(ToBalancePrecision(n)).
type precCase struct {
	P    uint32 `json:"p"`
	N    int64  `json:"n"`
	Kind string `json:"kind"`
	TB   int64  `json:"tb"`
	TF   int64  `json:"tf"`
	RT   int64  `json:"rt"`
}

const maxPrecision = 18

func runPrec(c *precCase) {
	cv := precision.NewConverter(c.P)
	c.TB = cv.ToBalancePrecision(c.N)
	c.TF = cv.ToFixed8(c.N)
	c.RT = cv.ToFixed8(c.TB)
}

func init() {
	commands["precision-consts"] = func(args []string) {
		fs := []string{}
		for p := uint32(0); p <= maxPrecision; p++ {
			fs = append(fs, precision.VerifFactor(precision.NewConverter(p)).String())
		}
		_ = json.NewEncoder(os.Stdout).Encode(map[string]any{
			"base": precision.VerifFixed8Precision(), "max_precision": maxPrecision, "factors": fs})
	}
	commands["precision"] = func(args []string) {
		nrand, _ := strconv.Atoi(args[0])
		r := newRng()
		enc := json.NewEncoder(os.Stdout)
		emit := func(p uint32, n int64, kind string) {
			c := precCase{P: p, N: n, Kind: kind}
			runPrec(&c)
			_ = enc.Encode(&c)
		}
		base := int(precision.VerifFixed8Precision())
		for p := uint32(0); p <= maxPrecision; p++ {
			e := int(p) - base
			if e < 0 {
				e = -e
			}
			f := new(big.Int).Exp(big.NewInt(10), big.NewInt(int64(e)), nil).Int64()
			q := int64(math.MaxInt64) / f // largest amount whose product with f fits
			bounds := []int64{0, 1, 2, 9, 10, 99999999, 100000000, 12345678901234, f - 1, f, f + 1,
				1<<53 - 1, 1 << 53, 1<<53 + 1, q - 1, q, q + 1, q + 2, 1 << 62, math.MaxInt64 - 1, math.MaxInt64}
			for _, b := range bounds {
				emit(p, b, "boundary")
				emit(p, -b, "boundary-neg")
			}
			emit(p, math.MinInt64, "boundary-neg")
			emit(p, math.MinInt64+1, "boundary-neg")
			for i := 0; i < nrand; i++ {
				switch i % 4 {
				case 0:
					emit(p, int64(r.next()), "rand-int64")
				case 1:
					emit(p, int64(r.n(1<<53)), "rand-below-2^53")
				case 2:
					emit(p, q-50+int64(r.n(100)), "rand-near-limit")
				default:
					emit(p, int64(r.n(1<<40)), "rand-small")
				}
			}
		}
	}
	commands["precision-run"] = func(args []string) {
		sc := bufio.NewScanner(os.Stdin)
		enc := json.NewEncoder(os.Stdout)
		for sc.Scan() {
			var c precCase
			if err := json.Unmarshal(sc.Bytes(), &c); err != nil {
				continue
			}
			runPrec(&c)
			_ = enc.Encode(&c)
		}
	}
}
