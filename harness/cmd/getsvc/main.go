//go:build verif

// C23: differential harness for reading split / erasure-coded objects through
// the real getsvc.Service over a local-only fake storage.
package main

import (
	"bytes"
	"context"
	"crypto/ecdsa"
	"encoding/json"
	"errors"
	"fmt"
	"io"
	"math"
	"math/rand"
	"os"
	"slices"
	"sort"
	"strconv"

	iec "github.com/nspcc-dev/neofs-node/internal/ec"
	getsvc "github.com/nspcc-dev/neofs-node/pkg/services/object/get"
	"github.com/nspcc-dev/neofs-node/pkg/services/object/util"
	"github.com/nspcc-dev/neofs-sdk-go/client"
	apistatus "github.com/nspcc-dev/neofs-sdk-go/client/status"
	"github.com/nspcc-dev/neofs-sdk-go/container"
	cid "github.com/nspcc-dev/neofs-sdk-go/container/id"
	cidtest "github.com/nspcc-dev/neofs-sdk-go/container/id/test"
	neofscryptotest "github.com/nspcc-dev/neofs-sdk-go/crypto/test"
	"github.com/nspcc-dev/neofs-sdk-go/netmap"
	"github.com/nspcc-dev/neofs-sdk-go/object"
	oid "github.com/nspcc-dev/neofs-sdk-go/object/id"
	"github.com/nspcc-dev/neofs-sdk-go/object/slicer"
	"github.com/nspcc-dev/neofs-sdk-go/user"
	usertest "github.com/nspcc-dev/neofs-sdk-go/user/test"
)

// ---- collecting slicer target -------------------------------------------------

type collected struct{ objs []*object.Object }

type collWriter struct {
	c   *collected
	hdr object.Object
	buf bytes.Buffer
}

func (c *collected) ObjectPutInit(_ context.Context, hdr object.Object, _ user.Signer, _ client.PrmObjectPutInit) (client.ObjectWriter, error) {
	return &collWriter{c: c, hdr: hdr}, nil
}
func (w *collWriter) Write(p []byte) (int, error)          { return w.buf.Write(p) }
func (w *collWriter) ReadFrom(r io.Reader) (int64, error)  { return w.buf.ReadFrom(r) }
func (w *collWriter) GetResult() (res client.ResObjectPut) { return }
func (w *collWriter) Close() error {
	o := w.hdr
	o.SetPayload(slices.Clone(w.buf.Bytes()))
	w.c.objs = append(w.c.objs, &o)
	return nil
}

// ---- network fake ---------------------------------------------------------------

type fakeNet struct {
	nodes   [][]netmap.NodeInfo
	rep     []uint
	ec      []iec.Rule
	localPK []byte
}

func (n *fakeNet) GetNodesForObject(oid.Address) ([][]netmap.NodeInfo, []uint, []iec.Rule, error) {
	return n.nodes, n.rep, n.ec, nil
}
func (n *fakeNet) IsLocalNodePublicKey(pk []byte) bool { return bytes.Equal(pk, n.localPK) }

// ---- response writer -----------------------------------------------------------

type respWriter struct {
	hdr *object.Object
	buf bytes.Buffer
}

func (w *respWriter) WriteHeader(h *object.Object) error { w.hdr = h; return nil }
func (w *respWriter) WriteChunk(p []byte) error          { w.buf.Write(p); return nil }

// ---- cases ------------------------------------------------------------------------

type rangeReq struct {
	API    string `json:"api"`  // get | getrange
	Mode   int    `json:"mode"` // 0 none, 1 offset-length, 2 bounds, 3 from, 4 suffix
	First  uint64 `json:"first"`
	Second uint64 `json:"second"`
}

type readRec struct {
	Idx    int    `json:"idx"` // child index (split) or EC part index; -1 = other object
	Mode   int    `json:"mode"`
	First  uint64 `json:"first"`
	Second uint64 `json:"second"`
}

type result struct {
	Req     rangeReq  `json:"req"`
	Status  string    `json:"status"` // ok | oor | err | panic
	GotLen  int       `json:"got_len"`
	RefOOR  bool      `json:"ref_oor"` // harness reference: range unsatisfiable
	RefOff  uint64    `json:"ref_off"`
	RefLen  uint64    `json:"ref_len"`
	BytesOK bool      `json:"bytes_ok"` // returned bytes == payload[ref_off : ref_off+ref_len]
	HdrOK   bool      `json:"hdr_ok"`   // header (when written) is the parent's
	Reads   []readRec `json:"reads"`    // payload reads issued to the storage, sorted
}

type gcase struct {
	Kind    string   `json:"kind"` // whole | split | ec
	Ver     int      `json:"ver"`
	Link    bool     `json:"link"`
	Len     int      `json:"len"`
	Limit   int      `json:"limit"`
	Sizes   []int    `json:"sizes"` // child sizes (split) or part length repeated (ec)
	K       int      `json:"k"`
	M       int      `json:"m"`
	Missing []int    `json:"missing"`
	Flaky   [][2]int `json:"flaky"` // EC: (part, n) — range streams of the part break after n bytes
	Results []result `json:"results"`
}

// reference semantics of a requested range over a payload of length n
func refResolve(r rangeReq, n uint64) (off, ln uint64, oor bool) {
	switch r.Mode {
	case 0:
		return 0, n, false
	case 1:
		if r.Second == 0 {
			if r.First != 0 {
				return 0, 0, true
			}
			return 0, n, false
		}
		if r.First >= n || r.Second > n-r.First { // also covers first+second overflowing uint64
			return 0, 0, true
		}
		return r.First, r.Second, false
	case 2:
		if r.First > r.Second || r.First >= n {
			return 0, 0, true
		}
		last := min(r.Second, n-1)
		return r.First, last - r.First + 1, false
	case 3:
		if r.First >= n {
			return 0, 0, true
		}
		return r.First, n - r.First, false
	default:
		if r.First == 0 {
			return 0, 0, true
		}
		ln = min(r.First, n)
		return n - ln, ln, false
	}
}

func genRanges(rnd *rand.Rand, n uint64, bounds []uint64, cnt int) []rangeReq {
	pick := func() uint64 {
		switch rnd.Intn(6) {
		case 0:
			return 0
		case 1:
			return n
		case 2, 3:
			if len(bounds) > 0 {
				b := bounds[rnd.Intn(len(bounds))]
				d := uint64(rnd.Intn(3))
				if rnd.Intn(2) == 0 && b >= d {
					return b - d
				}
				return b + d
			}
			fallthrough
		default:
			if n == 0 {
				return uint64(rnd.Intn(3))
			}
			return uint64(rnd.Int63n(int64(n) + 2))
		}
	}
	res := []rangeReq{{API: "get", Mode: 0}}
	for range cnt {
		a, b := pick(), pick()
		if a > b && rnd.Intn(4) != 0 {
			a, b = b, a
		}
		var r rangeReq
		switch rnd.Intn(8) {
		case 0, 1:
			r = rangeReq{API: "getrange", Mode: 1, First: a, Second: b - min(a, b)}
		case 2:
			r = rangeReq{API: "get", Mode: 1, First: a, Second: b - min(a, b)}
		case 3, 4:
			r = rangeReq{API: "get", Mode: 2, First: a, Second: b}
		case 5:
			r = rangeReq{API: "get", Mode: 3, First: a}
		case 6:
			r = rangeReq{API: "get", Mode: 4, First: b - min(a, b)}
		default: // hostile values
			r = rangeReq{API: []string{"get", "getrange"}[rnd.Intn(2)], Mode: 1, First: a, Second: math.MaxUint64 - uint64(rnd.Intn(3))}
			if rnd.Intn(2) == 0 {
				r.First, r.Second = math.MaxUint64-uint64(rnd.Intn(3)), b
			}
		}
		res = append(res, r)
	}
	return res
}

type env struct {
	st     *getsvc.VerifStore
	svc    *getsvc.Service
	cnrID  cid.ID
	cnr    container.Container
	local  bool
	idx    map[oid.ID]int
	parent oid.ID
	phdr   *object.Object
}

func (e *env) run(r rangeReq, payload []byte) result {
	e.st.Reqs = nil
	w := &respWriter{}
	addr := oid.NewAddress(e.cnrID, e.parent)
	cp := new(util.CommonPrm).WithLocalOnly(e.local)
	var err error
	panicked := false
	call := func(f func() error) {
		// a panic inside the service is a verdict about the code under test (status "panic"),
		// not a failure of the harness
		defer func() {
			if p := recover(); p != nil {
				panicked = true
				fmt.Fprintln(os.Stderr, "service panicked:", p)
			}
		}()
		err = f()
	}
	if r.API == "getrange" {
		var prm getsvc.RangePrm
		prm.SetChunkWriter(w)
		prm.WithAddress(addr)
		prm.WithContainer(e.cnr)
		prm.SetCommonParameters(cp)
		rng := object.NewRange()
		rng.SetOffset(r.First)
		rng.SetLength(r.Second)
		prm.SetRange(rng)
		call(func() error { return e.svc.GetRange(context.Background(), prm) })
	} else {
		var prm getsvc.Prm
		prm.SetObjectWriter(w)
		prm.WithAddress(addr)
		prm.WithContainer(e.cnr)
		prm.SetCommonParameters(cp)
		switch r.Mode {
		case 1:
			rng := object.NewRange()
			rng.SetOffset(r.First)
			rng.SetLength(r.Second)
			prm.SetRange(rng)
		case 2:
			prm.SetRangeBounds(r.First, r.Second)
		case 3:
			prm.SetRangeFrom(r.First)
		case 4:
			prm.SetRangeSuffix(r.First)
		}
		call(func() error { return e.svc.Get(context.Background(), prm) })
	}
	res := result{Req: r, GotLen: w.buf.Len(), Reads: []readRec{}}
	switch {
	case panicked:
		res.Status = "panic"
	case err == nil:
		res.Status = "ok"
	case errors.Is(err, apistatus.ErrObjectOutOfRange):
		res.Status = "oor"
	default:
		res.Status = "err"
	}
	res.RefOff, res.RefLen, res.RefOOR = refResolve(r, uint64(len(payload)))
	if !res.RefOOR {
		res.BytesOK = bytes.Equal(w.buf.Bytes(), payload[res.RefOff:res.RefOff+res.RefLen])
	}
	res.HdrOK = w.hdr == nil || w.hdr.GetID() == e.parent && w.hdr.PayloadSize() == uint64(len(payload))
	for _, q := range e.st.Reqs {
		if q.Head {
			continue
		}
		rr := readRec{Idx: -1, Mode: int(q.Mode), First: q.First, Second: q.Second}
		if q.EC {
			rr.Idx = q.Part
		} else if i, ok := e.idx[q.ID]; ok {
			rr.Idx = i
		}
		res.Reads = append(res.Reads, rr)
	}
	sort.SliceStable(res.Reads, func(i, j int) bool {
		a, b := res.Reads[i], res.Reads[j]
		if a.Idx != b.Idx {
			return a.Idx < b.Idx
		}
		if a.First != b.First {
			return a.First < b.First
		}
		return a.Second < b.Second
	})
	return res
}

func repContainer() container.Container {
	var pp netmap.PlacementPolicy
	pp.SetReplicas([]netmap.ReplicaDescriptor{{}})
	var c container.Container
	c.SetPlacementPolicy(pp)
	return c
}

func nodes(n int, pk []byte) []netmap.NodeInfo {
	res := make([]netmap.NodeInfo, n)
	for i := range res {
		res[i].SetPublicKey(pk)
	}
	return res
}

func splitCases(rnd *rand.Rand, enc *json.Encoder, nObjects, nRanges int, maxLen int) {
	signer := usertest.User()
	key := neofscryptotest.ECDSAPrivateKey()
	pk := []byte("local-node")
	for oi := range nObjects {
		limit := 64 + rnd.Intn(4033)
		maxChildren := max(1, min(limit/48, 24))
		var ln int
		switch oi % 5 {
		case 0:
			ln = limit * (1 + rnd.Intn(maxChildren)) // exact multiple
		case 1:
			ln = limit + 1
		default:
			ln = 1 + rnd.Intn(min(maxLen, limit*maxChildren))
		}
		if oi == 3 {
			ln = limit - 1 - rnd.Intn(limit-1) // not split at all
		}
		if oi == 4 {
			ln = 0 // empty object stored whole
		}
		if oi == 6 {
			ln = limit // exactly at the limit: still one object
		}
		payload := make([]byte, ln)
		rnd.Read(payload)
		cnrID := cidtest.ID()
		var hdr object.Object
		hdr.SetContainerID(cnrID)
		hdr.SetOwner(signer.UserID())
		var opts slicer.Options
		opts.SetObjectPayloadLimit(uint64(limit))
		opts.SetCurrentNeoFSEpoch(10)
		col := &collected{}
		parentID, err := slicer.Put(context.Background(), col, hdr, signer, bytes.NewReader(payload), opts)
		if err != nil {
			fmt.Fprintln(os.Stderr, "slicer:", err)
			continue
		}
		if len(col.objs) == 1 { // stored whole
			st := getsvc.VerifNewStore()
			st.Objs[parentID] = col.objs[0]
			net := &fakeNet{nodes: [][]netmap.NodeInfo{nodes(1, pk)}, rep: []uint{1}, localPK: pk}
			e := &env{st: st, svc: getsvc.VerifNewService(st, net, &key), cnrID: cnrID, cnr: repContainer(), local: true,
				idx: map[oid.ID]int{parentID: 0}, parent: parentID}
			c := gcase{Kind: "whole", Len: ln, Limit: limit, Sizes: []int{ln}, Missing: []int{}}
			for _, r := range genRanges(rnd, uint64(ln), nil, nRanges) {
				c.Results = append(c.Results, e.run(r, payload))
			}
			_ = enc.Encode(c)
			continue
		}
		var children []*object.Object
		var link *object.Object
		for _, o := range col.objs {
			if o.Type() == object.TypeLink {
				link = o
			} else {
				children = append(children, o)
			}
		}
		if link == nil || len(children) < 2 {
			fmt.Fprintln(os.Stderr, "unexpected slicer output")
			continue
		}
		sizes := make([]int, len(children))
		var bounds []uint64
		acc := uint64(0)
		for i, ch := range children {
			sizes[i] = len(ch.Payload())
			acc += uint64(sizes[i])
			bounds = append(bounds, acc)
		}
		for _, ver := range []int{1, 2} {
			for _, withLink := range []bool{true, false} {
				st := getsvc.VerifNewStore()
				idx := map[oid.ID]int{}
				si := object.NewSplitInfo()
				var splitID *object.SplitID
				if ver == 1 {
					splitID = object.NewSplitID()
					si.SetSplitID(splitID)
				} else {
					si.SetFirstPart(children[0].GetID())
				}
				for i, ch := range children {
					cp := *ch
					if ver == 1 {
						cp.SetSplitID(splitID)
					}
					st.Objs[ch.GetID()] = &cp
					idx[ch.GetID()] = i
				}
				si.SetLastPart(children[len(children)-1].GetID())
				if withLink {
					lo := *link
					if ver == 1 {
						// V1 linking object: children in the header, no payload
						var l1 object.Object
						l1.SetContainerID(cnrID)
						l1.SetOwner(signer.UserID())
						l1.SetID(link.GetID())
						l1.SetParent(link.Parent())
						l1.SetParentID(parentID)
						l1.SetSplitID(splitID)
						ids := make([]oid.ID, len(children))
						for i := range children {
							ids[i] = children[i].GetID()
						}
						l1.SetChildren(ids...)
						l1.SetPayloadSize(0)
						lo = l1
					}
					st.Objs[link.GetID()] = &lo
					idx[link.GetID()] = len(children)
					si.SetLink(link.GetID())
				}
				st.Virtual[parentID] = si
				net := &fakeNet{nodes: [][]netmap.NodeInfo{nodes(1, pk)}, rep: []uint{1}, localPK: pk}
				e := &env{st: st, svc: getsvc.VerifNewService(st, net, &key), cnrID: cnrID, cnr: repContainer(), local: true,
					idx: idx, parent: parentID}
				c := gcase{Kind: "split", Ver: ver, Link: withLink, Len: ln, Limit: limit, Sizes: sizes, Missing: []int{}}
				for _, r := range genRanges(rnd, uint64(ln), bounds, nRanges) {
					c.Results = append(c.Results, e.run(r, payload))
				}
				_ = enc.Encode(c)
			}
		}
	}
}

func ecContainer(rule iec.Rule) container.Container {
	var pp netmap.PlacementPolicy
	pp.SetECRules([]netmap.ECRule{netmap.NewECRule(uint32(rule.DataPartNum), uint32(rule.ParityPartNum))})
	var c container.Container
	c.SetPlacementPolicy(pp)
	return c
}

// ecObject stores the EC parts of payload under rule (parts in missing removed, parts in
// flaky breaking their range streams) behind a fresh service instance.
func ecObject(signer user.Signer, key *ecdsa.PrivateKey, rule iec.Rule, payload []byte, miss []int, flaky [][2]int) (*env, gcase, []uint64) {
	pk := []byte("local-node")
	k, m, ln := int(rule.DataPartNum), int(rule.ParityPartNum), len(payload)
	cnrID := cidtest.ID()
	var parent object.Object
	parent.SetContainerID(cnrID)
	parent.SetOwner(signer.UserID())
	parent.SetPayloadSize(uint64(ln))
	parent.SetType(object.TypeRegular)
	if err := parent.CalculateAndSetID(); err != nil {
		panic(err)
	}
	parentID := parent.GetID()
	parts, _, err := iec.Encode(rule, slices.Clone(payload))
	if err != nil {
		panic(err)
	}
	st := getsvc.VerifNewStore()
	st.ECParts[parentID] = map[[2]int]*object.Object{}
	st.Flaky[parentID] = map[[2]int]int{}
	for i := range parts {
		if slices.Contains(miss, i) {
			continue
		}
		po, err := iec.FormObjectForECPart(signer, parent, parts[i], iec.PartInfo{RuleIndex: 0, Index: i})
		if err != nil {
			panic(err)
		}
		st.ECParts[parentID][[2]int{0, i}] = &po
	}
	for _, f := range flaky {
		st.Flaky[parentID][[2]int{0, f[0]}] = f[1]
	}
	net := &fakeNet{nodes: [][]netmap.NodeInfo{nodes(k+m, pk)}, ec: []iec.Rule{rule}, localPK: pk}
	e := &env{st: st, svc: getsvc.VerifNewService(st, net, key), cnrID: cnrID, cnr: ecContainer(rule), local: false,
		idx: map[oid.ID]int{}, parent: parentID}
	per := 0
	if ln > 0 {
		per = (ln + k - 1) / k
	}
	var bounds []uint64
	sizes := make([]int, k)
	for i := range sizes {
		sizes[i] = per
		bounds = append(bounds, uint64((i+1)*per))
	}
	c := gcase{Kind: "ec", Len: ln, K: k, M: m, Sizes: sizes, Missing: miss, Flaky: flaky}
	if c.Missing == nil {
		c.Missing = []int{}
	}
	if c.Flaky == nil {
		c.Flaky = [][2]int{}
	}
	return e, c, bounds
}

func ecCases(rnd *rand.Rand, enc *json.Encoder, nObjects, nRanges int, maxLen int) {
	signer := usertest.User()
	key := neofscryptotest.ECDSAPrivateKey()
	for oi := range nObjects {
		k := 1 + rnd.Intn(6)
		m := 1 + rnd.Intn(3)
		rule := iec.Rule{DataPartNum: uint8(k), ParityPartNum: uint8(m)}
		var ln int
		switch oi % 6 {
		case 0:
			ln = k * (1 + rnd.Intn(40))
		case 1:
			ln = 1 + rnd.Intn(k+1) // fewer bytes than data parts: trailing data parts are pure padding
		case 2:
			ln = 0
		default:
			ln = 1 + rnd.Intn(maxLen)
		}
		payload := make([]byte, ln)
		rnd.Read(payload)
		miss := rnd.Perm(k + m)[:rnd.Intn(m+1)]
		sort.Ints(miss)
		e, c, bounds := ecObject(signer, &key, rule, payload, miss, nil)
		for _, r := range genRanges(rnd, uint64(ln), bounds, nRanges) {
			c.Results = append(c.Results, e.run(r, payload))
		}
		_ = enc.Encode(c)
	}
}

// ecRecoveryCases drives the recovery branch of ranged EC reads systematically: for every rule,
// every way of losing one part (removed, or its range stream breaking after n bytes) and a few
// ways of losing two, every pair (first data part, last data part) of a range is requested with
// the start strictly inside the first part (so that the intra-part offset of the first part and
// the offset at which a recovered later part continues differ), next to aligned / one-part controls.
func ecRecoveryCases(rnd *rand.Rand, enc *json.Encoder, rules [][2]int, allStarts bool) {
	signer := usertest.User()
	key := neofscryptotest.ECDSAPrivateKey()
	for ri, km := range rules {
		k, m := km[0], km[1]
		rule := iec.Rule{DataPartNum: uint8(k), ParityPartNum: uint8(m)}
		per := 8 + rnd.Intn(120)
		pad := 0 // bytes of padding in the last data part
		if ri%2 == 1 && k > 1 {
			pad = 1 + rnd.Intn(k-1)
		}
		ln := k*per - pad
		payload := make([]byte, ln)
		rnd.Read(payload)

		type loss struct {
			miss  []int
			flaky [][2]int
		}
		var losses []loss
		for j := range k + m { // one part removed: every data part, every parity part
			losses = append(losses, loss{miss: []int{j}})
		}
		for j := range k { // one data part whose range stream breaks: at once, after 1 byte, in the middle
			n := []int{0, 1, 1 + rnd.Intn(per-1)}[rnd.Intn(3)]
			losses = append(losses, loss{flaky: [][2]int{{j, n}}})
		}
		if m >= 2 { // two parts lost: data+data, data+parity, removed+flaky
			a := rnd.Intn(k)
			b := (a + 1 + rnd.Intn(k-1)) % k
			losses = append(losses, loss{miss: []int{min(a, b), max(a, b)}})
			losses = append(losses, loss{miss: []int{rnd.Intn(k), k + rnd.Intn(m)}})
			losses = append(losses, loss{miss: []int{a}, flaky: [][2]int{{b, rnd.Intn(per)}}})
		}
		for _, l := range losses {
			e, c, _ := ecObject(signer, &key, rule, payload, l.miss, l.flaky)
			reqs := []rangeReq{{API: "get", Mode: 0}}
			add := func(off, end uint64) { // bytes [off, end)
				switch rnd.Intn(4) {
				case 0:
					reqs = append(reqs, rangeReq{API: "get", Mode: 1, First: off, Second: end - off})
				case 1:
					reqs = append(reqs, rangeReq{API: "get", Mode: 2, First: off, Second: end - 1})
				default:
					reqs = append(reqs, rangeReq{API: "getrange", Mode: 1, First: off, Second: end - off})
				}
			}
			partEnd := func(b int) int { return min((b+1)*per, ln) }
			for a := range k {
				for b := a; b < k; b++ {
					starts := []int{1, per / 2, per - 1}
					if !allStarts {
						starts = []int{starts[rnd.Intn(3)]}
					}
					for _, d := range starts {
						if b == k-1 && a*per+d >= ln {
							continue
						}
						if a == b { // control: range inside one part
							end := a*per + d + 1 + rnd.Intn(partEnd(a)-a*per-d)
							add(uint64(a*per+d), uint64(end))
							continue
						}
						// start strictly inside part a, end inside part b or at its end
						end := partEnd(b)
						if rnd.Intn(2) == 0 {
							end = b*per + 1 + rnd.Intn(end-b*per)
						}
						add(uint64(a*per+d), uint64(end))
					}
					if a < b && rnd.Intn(3) == 0 { // control: start aligned to a part boundary
						add(uint64(a*per), uint64(b*per+1+rnd.Intn(partEnd(b)-b*per)))
					}
				}
			}
			if ln-per > 0 {
				reqs = append(reqs, rangeReq{API: "get", Mode: 3, First: uint64(1 + rnd.Intn(per-1))}) // from inside part 0 to the end
				reqs = append(reqs, rangeReq{API: "get", Mode: 4, First: uint64(ln - 1 - rnd.Intn(per-1))})
			}
			for _, r := range reqs {
				c.Results = append(c.Results, e.run(r, payload))
			}
			_ = enc.Encode(c)
		}
	}
}

func main() {
	if len(os.Args) < 2 {
		fmt.Fprintln(os.Stderr, "usage: getsvc cases")
		os.Exit(2)
	}
	seed, err := strconv.ParseInt(os.Getenv("VERIF_SEED"), 10, 64)
	if err != nil {
		seed = 1
	}
	thorough := os.Getenv("VERIF_TIER") == "thorough"
	rnd := rand.New(rand.NewSource(seed))
	enc := json.NewEncoder(os.Stdout)
	_ = ecdsa.PrivateKey{}
	switch os.Args[1] {
	case "cases":
		if thorough {
			splitCases(rnd, enc, 60, 40, 65536)
			ecCases(rnd, enc, 150, 40, 16384)
			ecRecoveryCases(rnd, enc, [][2]int{{2, 1}, {3, 2}, {4, 2}, {5, 2}, {5, 3}, {3, 1}, {2, 2}, {6, 3}, {4, 1}, {3, 3}}, true)
		} else {
			splitCases(rnd, enc, 10, 16, 32768)
			ecCases(rnd, enc, 30, 16, 4096)
			ecRecoveryCases(rnd, enc, [][2]int{{2, 1}, {3, 2}, {4, 2}}, false)
		}
	default:
		fmt.Fprintln(os.Stderr, "unknown command")
		os.Exit(2)
	}
}
