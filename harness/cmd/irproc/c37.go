//go:build verif

package main

// C37: container creation / removal / eACL / attribute requests run through the real
// processor functions of pkg/innerring/processors/container against the fake chain.
// Every request is built from a record of *facts* (who signed what, what the token says,
// which attributes, ...); the facts and the observed decision are printed, and the Coq model
// (coq/IRProc/C37Model.v) is evaluated on the same facts.

import (
	"crypto/sha256"
	"encoding/json"
	"math/big"
	"os"
	"strconv"
	"time"

	"github.com/google/uuid"
	"github.com/nspcc-dev/neo-go/pkg/core/transaction"
	"github.com/nspcc-dev/neo-go/pkg/crypto/keys"
	"github.com/nspcc-dev/neo-go/pkg/neorpc/result"
	"github.com/nspcc-dev/neo-go/pkg/services/rpcsrv/params"
	"github.com/nspcc-dev/neo-go/pkg/util"
	"github.com/nspcc-dev/neo-go/pkg/vm/stackitem"
	containerrpc "github.com/nspcc-dev/neofs-contract/rpc/container"
	cntproc "github.com/nspcc-dev/neofs-node/pkg/innerring/processors/container"
	cntClient "github.com/nspcc-dev/neofs-node/pkg/morph/client/container"
	fschaincontracts "github.com/nspcc-dev/neofs-node/pkg/morph/contracts"
	containerEvent "github.com/nspcc-dev/neofs-node/pkg/morph/event/container"
	sdkclient "github.com/nspcc-dev/neofs-sdk-go/client"
	"github.com/nspcc-dev/neofs-sdk-go/container"
	"github.com/nspcc-dev/neofs-sdk-go/container/acl"
	cid "github.com/nspcc-dev/neofs-sdk-go/container/id"
	neofscrypto "github.com/nspcc-dev/neofs-sdk-go/crypto"
	neofsecdsa "github.com/nspcc-dev/neofs-sdk-go/crypto/ecdsa"
	"github.com/nspcc-dev/neofs-sdk-go/eacl"
	"github.com/nspcc-dev/neofs-sdk-go/netmap"
	"github.com/nspcc-dev/neofs-sdk-go/session"
	sessionv2 "github.com/nspcc-dev/neofs-sdk-go/session/v2"
	"github.com/nspcc-dev/neofs-sdk-go/user"
	"go.uber.org/zap"
)

// splitmix64: the single PRNG of the harness
type rng struct{ s uint64 }

func (r *rng) next() uint64 {
	r.s += 0x9e3779b97f4a7c15
	z := r.s
	z = (z ^ (z >> 30)) * 0xbf58476d1ce4e5b9
	z = (z ^ (z >> 27)) * 0x94d049bb133111eb
	return z ^ (z >> 31)
}
func (r *rng) n(k int) int     { return int(r.next() % uint64(k)) }
func (r *rng) p(num, den int) bool { return r.n(den) < num }

const (
	opPut = iota
	opPutNamed
	opCreateV2
	opDelete
	opSetEACL
	opSetAttr
	opRemoveAttr
)

const (
	tokNone = iota
	tokGarbage
	tokV1
	tokV2
)

const t0 = int64(1_700_000_000) // chain time = t0 + Now

type v1Facts struct {
	SigOK     bool `json:"sig_ok"`      // body signature verifies and the key is the issuer's
	Issuer    int  `json:"issuer"`      // user index
	Verb      int  `json:"verb"`        // session.ContainerVerb value
	Cnr       int  `json:"cnr"`         // -1 any container, else container index
	Iat       int  `json:"iat"`
	Nbf       int  `json:"nbf"`
	Exp       int  `json:"exp"`
	DataSigOK bool `json:"data_sig_ok"` // request data signed with the session key
}

type ctxFacts struct {
	Cnr   int   `json:"cnr"` // -1 wildcard
	Verbs []int `json:"verbs"`
}

type v2Facts struct {
	Valid      bool       `json:"valid"`  // passes Token.Validate
	SigOK      bool       `json:"sig_ok"` // every token of the chain is signed by its issuer
	OrigIssuer int        `json:"orig_issuer"`
	Delegated  bool       `json:"delegated"`
	Ctxs       []ctxFacts `json:"ctxs"`
	Iat        int        `json:"iat"` // seconds relative to t0
	Nbf        int        `json:"nbf"`
	Exp        int        `json:"exp"`
}

type authFacts struct {
	Tok      int      `json:"tok"`
	N3       bool     `json:"n3"`        // direct witness is an N3 script pair verified by the chain
	N3OK     bool     `json:"n3_ok"`     // the chain's verdict for the owner's account
	SigValid bool     `json:"sig_valid"` // pubkey form: signature verifies for (key, signed data)
	SigKey   int      `json:"sig_key"`   // pubkey form: user index of the key
	V1       *v1Facts `json:"v1,omitempty"`
	V2       *v2Facts `json:"v2,omitempty"`
}

type filterFacts struct {
	M int `json:"m"` // 0 other matcher, 1 NOT_PRESENT, 2 numeric
	V int `json:"v"` // 0 empty, 1 decimal, 2 non-decimal
}

type recFacts struct {
	Roles   []int         `json:"roles"` // eacl.Role values of the targets
	Filters []filterFacts `json:"filters"`
}

type eaclFacts struct {
	Decodes bool       `json:"decodes"`
	CIDSet  bool       `json:"cid_set"`   // table carries a container ID
	CIDSame bool       `json:"cid_same"`  // ... equal to the container the request is about
	Records []recFacts `json:"records"`
	Auth    *authFacts `json:"auth,omitempty"` // createV2 only: the eACL call's own witness
}

type c37Case struct {
	Kind     string `json:"kind"`
	Op       int    `json:"op"`
	Alphabet bool   `json:"alphabet"`
	Epoch    int    `json:"epoch"`
	Now      int    `json:"now"`
	Meta     bool   `json:"meta_enabled"`
	AllowEC  bool   `json:"allow_ec"`
	Owner    int    `json:"owner"` // owner of the container (new one for creation, stored one otherwise); -1 = none
	Cnr      int    `json:"cnr"`   // stored container index the request is about; -1 for creation
	Exists   bool   `json:"exists"`
	IDOK     bool   `json:"id_ok"`
	Extend   bool   `json:"extendable"`
	Auth     authFacts `json:"auth"`
	// creation
	Decodes   bool     `json:"decodes"`
	Attrs     []string `json:"attrs"`
	NRep      int      `json:"n_rep"`
	NEC       int      `json:"n_ec"`
	Initial   bool     `json:"initial"`
	PolVerify bool     `json:"pol_verify"`
	NameMatch bool     `json:"name_match"`
	// eACL
	EACL *eaclFacts `json:"eacl,omitempty"`
	// attribute requests
	NotExpired bool `json:"not_expired"`
	// observed
	Replayed bool `json:"replayed"` // the same request bytes as an earlier approved case, new environment
	Approved bool `json:"approved"`
	Panicked bool `json:"panicked"`
}

type c37Env struct {
	g     *rng
	ch    *chain
	proc  *cntproc.Processor
	users []*keys.PrivateKey
	uids  []user.ID
	cnrs  []container.Container // stored containers (index 0..2), index 3 = unknown to the chain
	cids  []cid.ID
	owner []int
	ext   []bool

	alphabet bool
	epoch    uint64
	now      time.Time
	n3ok     bool
	n3acc    util.Uint160
	approved int
}

type c37State struct{ e *c37Env }

func (s c37State) IsAlphabet() bool                          { return s.e.alphabet }
func (s c37State) Epoch() (uint64, error)                    { return s.e.epoch, nil }
func (s c37State) NetMap() (*netmap.NetMap, error)           { return &netmap.NetMap{}, nil }
func (s c37State) GetEpochBlock(uint64) (uint32, error)      { return 1, nil }
func (s c37State) GetEpochBlockByTime(uint32) (uint32, error) { return 1, nil }
func (s c37State) Now() time.Time                            { return s.e.now }

func toStruct(cnr container.Container) *containerrpc.ContainerInfo {
	ver := cnr.Version()
	var attrs []*containerrpc.ContainerAttribute
	for k, v := range cnr.Attributes() {
		attrs = append(attrs, &containerrpc.ContainerAttribute{Key: k, Value: v})
	}
	return &containerrpc.ContainerInfo{
		Version:       &containerrpc.ContainerAPIVersion{Major: big.NewInt(int64(ver.Major())), Minor: big.NewInt(int64(ver.Minor()))},
		Owner:         cnr.Owner().ScriptHash(),
		Nonce:         cnr.ProtoMessage().Nonce,
		BasicACL:      big.NewInt(int64(cnr.BasicACL().Bits())),
		Attributes:    attrs,
		StoragePolicy: cnr.PlacementPolicy().Marshal(),
	}
}

func simplePolicy(nrep, nec int) netmap.PlacementPolicy {
	var p netmap.PlacementPolicy
	var rs []netmap.ReplicaDescriptor
	for i := 0; i < nrep; i++ {
		var r netmap.ReplicaDescriptor
		r.SetNumberOfObjects(uint32(1 + i%2))
		rs = append(rs, r)
	}
	p.SetReplicas(rs)
	var es []netmap.ECRule
	for i := 0; i < nec; i++ {
		es = append(es, netmap.NewECRule(uint32(2+i), 1))
	}
	if nec > 0 {
		p.SetECRules(es)
	}
	return p
}

func newC37Env(seed uint64) *c37Env {
	e := &c37Env{g: &rng{s: seed}, ch: newChain()}
	for i := 0; i < 4; i++ {
		k, err := keys.NewPrivateKey()
		if err != nil {
			panic(err)
		}
		e.users = append(e.users, k)
		e.uids = append(e.uids, user.NewFromECDSAPublicKey(k.PrivateKey.PublicKey))
	}
	e.owner = []int{0, 1, 0}
	e.ext = []bool{true, false, true}
	for i := 0; i < 3; i++ {
		var c container.Container
		c.Init()
		c.SetOwner(e.uids[e.owner[i]])
		if e.ext[i] {
			c.SetBasicACL(acl.PublicRWExtended)
		} else {
			c.SetBasicACL(acl.PublicRW)
		}
		c.SetPlacementPolicy(simplePolicy(1, 0))
		c.SetAttribute("idx", strconv.Itoa(i))
		// what the processor will see is the container decoded from the contract structure
		rt, err := cntClient.ContainerFromStruct(*toStruct(c))
		if err != nil {
			panic(err)
		}
		e.cnrs = append(e.cnrs, rt)
		e.cids = append(e.cids, cid.NewFromMarshalledContainer(rt.Marshal()))
	}
	// index 3: an ID the chain does not know
	e.cids = append(e.cids, cid.NewFromMarshalledContainer([]byte("unknown container")))

	cnrHash := util.Uint160{0xc0}
	e.ch.onFunc = func(h util.Uint160, m string, args []params.FuncParam) *result.Invoke {
		if h != cnrHash || m != "getInfo" || len(args) != 1 {
			e.ch.note("call:" + m)
			return nil
		}
		id, err := args[0].Value.GetBytesBase64()
		if err != nil {
			return fault("bad argument")
		}
		for i := range e.cnrs {
			if string(id) == string(e.cids[i][:]) {
				it, err := toStruct(e.cnrs[i]).ToStackItem()
				if err != nil {
					panic(err)
				}
				return halt(it)
			}
		}
		return fault(containerrpc.NotFoundError)
	}
	e.ch.onContained = func(tx *transaction.Transaction) bool {
		return e.n3ok && len(tx.Signers) > 0 && tx.Signers[0].Account == e.n3acc
	}
	irKey, _ := keys.NewPrivateKey()
	mc := e.ch.morph(irKey, util.Uint160{0xbb}, func() (keys.PublicKeys, error) {
		e.approved++
		return nil, errRecorded
	})
	cc, err := cntClient.NewFromMorph(mc, cnrHash, cntClient.AsAlphabet())
	if err != nil {
		panic(err)
	}
	st := c37State{e}
	e.proc, err = cntproc.New(&cntproc.Params{Log: zap.NewNop(), PoolSize: 1, AlphabetState: st, ContainerClient: cc,
		NetworkState: st, ChainTime: st})
	if err != nil {
		panic(err)
	}
	return e
}

type recordedErr struct{}

func (recordedErr) Error() string { return "recorded by the verification harness" }

var errRecorded = recordedErr{}

func (e *c37Env) signer(i int) user.Signer {
	return user.NewAutoIDSignerRFC6979(e.users[i].PrivateKey)
}

// verbs by operation
func v1Verb(op int) session.ContainerVerb {
	switch op {
	case opPut, opPutNamed, opCreateV2:
		return session.VerbContainerPut
	case opDelete:
		return session.VerbContainerDelete
	case opSetEACL:
		return session.VerbContainerSetEACL
	case opSetAttr:
		return session.VerbContainerSetAttribute
	}
	return session.VerbContainerRemoveAttribute
}

func v2Verb(op int) sessionv2.Verb {
	switch op {
	case opPut, opPutNamed, opCreateV2:
		return sessionv2.VerbContainerPut
	case opDelete:
		return sessionv2.VerbContainerDelete
	case opSetEACL:
		return sessionv2.VerbContainerSetEACL
	case opSetAttr:
		return sessionv2.VerbContainerSetAttribute
	}
	return sessionv2.VerbContainerRemoveAttribute
}

var someVerbs = []sessionv2.Verb{sessionv2.VerbObjectPut, sessionv2.VerbObjectGet, sessionv2.VerbObjectDelete, sessionv2.VerbContainerPut,
	sessionv2.VerbContainerDelete, sessionv2.VerbContainerSetEACL, sessionv2.VerbContainerSetAttribute, sessionv2.VerbContainerRemoveAttribute}

// genAuth builds the witness / session token for an operation `op` by the owner `owner` on
// container index cnr (-1: creation) over the signed payload. The id the processor will
// use for the container (when it has one) is idOf(cnr).
func (e *c37Env) genAuth(op, owner, cnr int, payload []byte) (authFacts, []byte, []byte, []byte) {
	g := e.g
	var f authFacts
	var tokBytes, invoc, verif []byte
	other := func(i int) int { return (i + 1 + g.n(3)) % 4 }
	own := owner
	if own < 0 {
		own = g.n(4)
	}
	switch x := g.n(20); {
	case x < 7:
		f.Tok = tokNone
	case x < 8:
		f.Tok = tokGarbage
	case x < 13:
		f.Tok = tokV1
	default:
		f.Tok = tokV2
	}
	// direct witness (used only without a token; with a V1 token the invocation script is the
	// session-key signature, with a V2 token it is not looked at)
	f.SigKey = own
	if g.p(1, 4) {
		f.SigKey = other(own)
	}
	f.SigValid = g.p(4, 5)
	f.N3 = f.Tok == tokNone && g.p(1, 5)
	f.N3OK = g.p(2, 3)
	signed := payload
	if !f.SigValid {
		signed = append([]byte{0xff}, payload...)
	}
	sig, err := neofsecdsa.SignerRFC6979(e.users[f.SigKey].PrivateKey).Sign(signed)
	if err != nil {
		panic(err)
	}
	invoc = sig
	verif = e.users[f.SigKey].PublicKey().Bytes()
	if f.N3 {
		verif = e.users[f.SigKey].PublicKey().GetVerificationScript()
		invoc = append([]byte{0x0c, 64}, make([]byte, 64)...)
	}
	switch f.Tok {
	case tokGarbage:
		tokBytes = []byte{0xde, 0xad, 0xbe, 0xef, byte(g.n(256))}
	case tokV1:
		v := &v1Facts{Issuer: own, Verb: int(v1Verb(op)), Cnr: -1, Iat: e.nearEpoch(-1), Nbf: e.nearEpoch(-1), Exp: e.nearEpoch(1), SigOK: true, DataSigOK: true}
		if cnr >= 0 && g.p(1, 2) {
			v.Cnr = cnr
		}
		// mutations
		for k := g.n(3); k > 0; k-- {
			switch g.n(8) {
			case 0:
				v.Issuer = other(own)
			case 1:
				v.Verb = g.n(7)
			case 2:
				v.Cnr = g.n(4)
			case 3:
				v.Exp = int(e.epoch) - 1 - g.n(2)
			case 4:
				v.Nbf = int(e.epoch) + 1 + g.n(2)
			case 5:
				v.Iat = int(e.epoch) + 1
			case 6:
				v.SigOK = false
			case 7:
				v.DataSigOK = false
			}
		}
		if g.p(1, 6) { // exact boundaries
			v.Iat, v.Nbf, v.Exp = int(e.epoch), int(e.epoch), int(e.epoch)
		}
		sk, _ := keys.NewPrivateKey()
		var tok session.Container
		tok.SetID(uuid.New())
		tok.SetAuthKey((*neofsecdsa.PublicKeyRFC6979)(&sk.PrivateKey.PublicKey))
		tok.ForVerb(session.ContainerVerb(v.Verb))
		if v.Cnr >= 0 {
			tok.ApplyOnlyTo(e.cids[v.Cnr])
		}
		tok.SetIat(uint64(v.Iat))
		tok.SetNbf(uint64(v.Nbf))
		tok.SetExp(uint64(v.Exp))
		if v.SigOK {
			if err := tok.Sign(e.signer(v.Issuer)); err != nil {
				panic(err)
			}
		} else if g.p(1, 2) {
			// signed by somebody else while claiming the issuer
			tok.SetIssuer(e.uids[v.Issuer])
			if err := tok.SetSignature(neofsecdsa.SignerRFC6979(e.users[other(v.Issuer)].PrivateKey)); err != nil {
				panic(err)
			}
		} else {
			// signature over a different body
			if err := tok.Sign(e.signer(v.Issuer)); err != nil {
				panic(err)
			}
			s, _ := tok.Signature()
			val := append([]byte(nil), s.Value()...)
			val[len(val)/2] ^= 0x20
			tok.AttachSignature(neofscrypto.NewSignatureFromRawKey(s.Scheme(), s.PublicKeyBytes(), val))
		}
		tokBytes = tok.Marshal()
		ds := payload
		dk := sk
		if !v.DataSigOK {
			if g.p(1, 2) {
				ds = append([]byte{1}, payload...)
			} else {
				dk = e.users[own] // the owner's own key instead of the session key
			}
		}
		invoc, err = neofsecdsa.SignerRFC6979(dk.PrivateKey).Sign(ds)
		if err != nil {
			panic(err)
		}
		f.V1 = v
	case tokV2:
		now := int(e.now.Unix() - t0)
		v := &v2Facts{Valid: true, SigOK: true, OrigIssuer: own, Iat: now - 10, Nbf: now - 10, Exp: now + 10}
		want := v2Verb(op)
		// contexts: mostly one that fits
		switch g.n(4) {
		case 0:
			v.Ctxs = []ctxFacts{{Cnr: -1, Verbs: []int{int(want)}}}
		case 1:
			if cnr >= 0 {
				v.Ctxs = []ctxFacts{{Cnr: cnr, Verbs: []int{int(want)}}}
			} else {
				v.Ctxs = []ctxFacts{{Cnr: g.n(4), Verbs: []int{int(want)}}}
			}
		case 2:
			v.Ctxs = []ctxFacts{{Cnr: -1, Verbs: e.someVerbs(1 + g.n(3))}}
		default:
			v.Ctxs = []ctxFacts{{Cnr: -1, Verbs: e.someVerbs(1 + g.n(2))}, {Cnr: g.n(4), Verbs: e.someVerbs(1 + g.n(3))}}
			if eqInts(v.Ctxs[0].Verbs, v.Ctxs[1].Verbs) {
				v.Ctxs = v.Ctxs[:1]
			}
		}
		v.Delegated = g.p(1, 4)
		for k := g.n(3); k > 0; k-- {
			switch g.n(7) {
			case 0:
				v.OrigIssuer = other(own)
			case 1:
				v.Exp = now - 1 - g.n(2)
			case 2:
				v.Nbf = now + 1 + g.n(2)
				if v.Exp < v.Nbf {
					v.Exp = v.Nbf + 5
				}
			case 3:
				v.Iat = now + 1
				if v.Exp < v.Iat {
					v.Exp = v.Iat + 5
				}
			case 4:
				v.SigOK = false
			case 5:
				v.Valid = false
			case 6:
				v.Ctxs = []ctxFacts{{Cnr: -1, Verbs: e.someVerbs(1 + g.n(3))}}
			}
		}
		if g.p(1, 6) {
			v.Iat, v.Nbf, v.Exp = now, now, now
		}
		tokBytes = e.buildV2(v, other)
		f.V2 = v
	}
	return f, tokBytes, invoc, verif
}

func eqInts(a, b []int) bool {
	if len(a) != len(b) {
		return false
	}
	for i := range a {
		if a[i] != b[i] {
			return false
		}
	}
	return true
}

func (e *c37Env) nearEpoch(d int) int {
	v := int(e.epoch) + d*e.g.n(3)
	if v < 0 {
		v = 0
	}
	return v
}

// someVerbs returns a sorted set of n distinct verbs
func (e *c37Env) someVerbs(n int) []int {
	set := map[int]bool{}
	for len(set) < n {
		set[int(someVerbs[e.g.n(len(someVerbs))])] = true
	}
	var r []int
	for v := 0; v < 16; v++ {
		if set[v] {
			r = append(r, v)
		}
	}
	return r
}

func (e *c37Env) buildV2(v *v2Facts, other func(int) int) []byte {
	g := e.g
	mkCtxs := func() []sessionv2.Context {
		// Validate wants contexts sorted by container ID (wildcard = zero first)
		cs := append([]ctxFacts(nil), v.Ctxs...)
		for i := 0; i < len(cs); i++ {
			for j := i + 1; j < len(cs); j++ {
				if string(e.ctxID(cs[j])) < string(e.ctxID(cs[i])) {
					cs[i], cs[j] = cs[j], cs[i]
				}
			}
		}
		var res []sessionv2.Context
		for _, c := range cs {
			var id cid.ID
			copy(id[:], e.ctxID(c))
			vs := make([]sessionv2.Verb, len(c.Verbs))
			for i := range c.Verbs {
				vs[i] = sessionv2.Verb(c.Verbs[i])
			}
			cx, err := sessionv2.NewContext(id, vs)
			if err != nil {
				panic(err)
			}
			res = append(res, cx)
		}
		return res
	}
	mk := func(issuer int, subj user.ID) sessionv2.Token {
		var t sessionv2.Token
		t.SetVersion(sessionv2.TokenCurrentVersion)
		if err := t.SetSubjects([]sessionv2.Target{sessionv2.NewTargetUser(subj)}); err != nil {
			panic(err)
		}
		if err := t.SetContexts(mkCtxs()); err != nil {
			panic(err)
		}
		t.SetIat(time.Unix(t0+int64(v.Iat), 0))
		t.SetNbf(time.Unix(t0+int64(v.Nbf), 0))
		t.SetExp(time.Unix(t0+int64(v.Exp), 0))
		return t
	}
	breakSig := func(t *sessionv2.Token) {
		s, _ := t.Signature()
		val := append([]byte(nil), s.Value()...)
		val[len(val)/3] ^= 0x04
		t.AttachSignature(neofscrypto.NewSignatureFromRawKey(s.Scheme(), s.PublicKeyBytes(), val))
	}
	stranger, _ := keys.NewPrivateKey()
	strangerID := user.NewFromECDSAPublicKey(stranger.PrivateKey.PublicKey)
	var tok sessionv2.Token
	if !v.Delegated {
		tok = mk(v.OrigIssuer, strangerID)
		if !v.Valid {
			switch g.n(3) {
			case 0:
				tok.SetVersion(7)
			case 1:
				_ = tok.SetSubjects(nil)
			default:
				tok.SetNbf(time.Unix(t0+int64(v.Exp)+50, 0)) // nbf after exp
			}
		}
		if err := tok.Sign(e.signer(v.OrigIssuer)); err != nil {
			panic(err)
		}
		if !v.SigOK {
			if g.p(1, 2) {
				breakSig(&tok)
			} else {
				// claims the issuer, signed by another key
				s := neofsecdsa.SignerRFC6979(e.users[other(v.OrigIssuer)].PrivateKey)
				var sg neofscrypto.Signature
				if err := sg.Calculate(s, tok.SignedData()); err != nil {
					panic(err)
				}
				tok.AttachSignature(sg)
			}
		}
		return tok.Marshal()
	}
	del := other(v.OrigIssuer)
	origin := mk(v.OrigIssuer, e.uids[del])
	if !v.Valid && g.p(1, 2) {
		// the delegate is not among the origin's subjects
		_ = origin.SetSubjects([]sessionv2.Target{sessionv2.NewTargetUser(strangerID)})
	} else if !v.Valid {
		origin.SetFinal(true)
	}
	if err := origin.Sign(e.signer(v.OrigIssuer)); err != nil {
		panic(err)
	}
	if !v.SigOK && g.p(1, 2) {
		breakSig(&origin)
	}
	tok = mk(del, strangerID)
	tok.SetOrigin(&origin)
	if err := tok.Sign(e.signer(del)); err != nil {
		panic(err)
	}
	if !v.SigOK {
		if _, ok := origin.Signature(); ok && origin.VerifySignature() {
			breakSig(&tok)
		}
	}
	return tok.Marshal()
}

func (e *c37Env) ctxID(c ctxFacts) []byte {
	if c.Cnr < 0 {
		return make([]byte, 32)
	}
	return e.cids[c.Cnr][:]
}

var attrPool = []string{"Color", "Name", "__NEOFS__NAME", "__NEOFS__ZONE", "__NEOFS__LOCK_UNTIL", "__NEOFS__METAINFO_CONSISTENCY",
	"__NEOFS__DISABLE_HOMOMORPHIC_HASHING", "__NEOFS__EVIL", "__NEOFS__", "__NEOFS_X", "_NEOFS__NAME"}

func attrValue(k string) string {
	switch k {
	case "__NEOFS__LOCK_UNTIL":
		return "1900000000"
	case "__NEOFS__METAINFO_CONSISTENCY":
		return "strict"
	case "__NEOFS__DISABLE_HOMOMORPHIC_HASHING":
		return "true"
	}
	return "v"
}

func (e *c37Env) genEACL(target cid.ID, ext bool) (*eaclFacts, []byte) {
	g := e.g
	f := &eaclFacts{Decodes: true, CIDSet: true, CIDSame: true}
	var recs []eacl.Record
	nr := g.n(4)
	for i := 0; i < nr; i++ {
		var rf recFacts
		var ts []eacl.Target
		for k := g.n(3); k > 0; k-- {
			role := eacl.RoleUser
			switch g.n(8) {
			case 0:
				role = eacl.RoleSystem
			case 1, 2:
				role = eacl.RoleOthers
			case 3:
				role = eacl.RoleUnspecified
			}
			rf.Roles = append(rf.Roles, int(role))
			if role == eacl.RoleUnspecified {
				ts = append(ts, eacl.NewTargetByAccounts([]user.ID{e.uids[g.n(4)]}))
			} else {
				ts = append(ts, eacl.NewTargetByRole(role))
			}
		}
		var fs []eacl.Filter
		for k := g.n(3); k > 0; k-- {
			ff := filterFacts{M: g.n(3), V: g.n(3)}
			if g.p(2, 3) { // mostly consistent
				if ff.M == 1 {
					ff.V = 0
				} else if ff.M == 2 {
					ff.V = 1
				}
			}
			m := eacl.MatchStringEqual
			switch ff.M {
			case 1:
				m = eacl.MatchNotPresent
			case 2:
				m = []eacl.Match{eacl.MatchNumGT, eacl.MatchNumGE, eacl.MatchNumLT, eacl.MatchNumLE}[g.n(4)]
			}
			val := []string{"", []string{"10", "-7", "0", "123456789012345678901234567890"}[g.n(4)], []string{"abc", "1.5", "0x10", "1e3"}[g.n(4)]}[ff.V]
			fs = append(fs, eacl.NewObjectPropertyFilter("k"+strconv.Itoa(k), m, val))
			rf.Filters = append(rf.Filters, ff)
		}
		recs = append(recs, eacl.ConstructRecord(eacl.ActionDeny, eacl.OperationGet, ts, fs...))
		if rf.Roles == nil {
			rf.Roles = []int{}
		}
		if rf.Filters == nil {
			rf.Filters = []filterFacts{}
		}
		f.Records = append(f.Records, rf)
	}
	if f.Records == nil {
		f.Records = []recFacts{}
	}
	var tb eacl.Table
	switch g.n(12) {
	case 0:
		f.CIDSet, f.CIDSame = false, false
		tb = eacl.ConstructTable(recs)
	case 1:
		f.CIDSame = false
		tb = eacl.NewTableForContainer(cid.NewFromMarshalledContainer([]byte("another")), recs)
	default:
		tb = eacl.NewTableForContainer(target, recs)
	}
	b := tb.Marshal()
	if g.p(1, 15) {
		f.Decodes = false
		b = []byte{0xff, 0xff, 0x01}
	}
	if _, err := eacl.Unmarshal(b); (err == nil) != f.Decodes {
		panic("harness: eACL decodability differs from the claimed fact")
	}
	return f, b
}

func (e *c37Env) prepare(op int) (c37Case, func()) {
	g := e.g
	c := c37Case{Kind: "c37", Op: op, Cnr: -1, Owner: -1, Attrs: []string{}, IDOK: true}
	c.Alphabet = g.p(15, 16)
	c.Epoch = 5 + g.n(6)
	c.Now = 1000 + g.n(1000)
	c.Meta = g.p(1, 2)
	c.AllowEC = g.p(1, 2)
	e.alphabet, e.epoch, e.now = c.Alphabet, uint64(c.Epoch), time.Unix(t0+int64(c.Now), 0)
	e.proc.VerifSetFlags(c.Meta, c.AllowEC)
	var mainTx transaction.Transaction
	mainTx.Script = []byte{0x40}
	var run func()
	switch op {
	case opPut, opPutNamed, opCreateV2:
		c.Owner = g.n(4)
		c.Decodes = g.p(14, 15)
		var cnr container.Container
		cnr.Init()
		cnr.SetOwner(e.uids[c.Owner])
		c.Extend = g.p(2, 3)
		if c.Extend {
			cnr.SetBasicACL(acl.PublicRWExtended)
		} else {
			cnr.SetBasicACL(acl.Private)
		}
		// policy
		switch g.n(8) {
		case 0, 1, 2, 3:
			c.NRep = 1 + g.n(2)
		case 4, 5:
			c.NEC = 1 + g.n(2)
		case 6:
			c.NRep, c.NEC = 1, 1
		default:
			c.NRep = 1
		}
		pol := simplePolicy(c.NRep, c.NEC)
		c.PolVerify = true
		if g.p(1, 6) {
			c.PolVerify = false
			switch {
			case c.NRep > 0 && g.p(1, 2):
				rs := pol.Replicas()
				rs[0].SetNumberOfObjects(9) // more than 8 replicas
				pol.SetReplicas(rs)
			case c.NRep > 0:
				rs := pol.Replicas()
				rs[0].SetSelectorName("missing")
				pol.SetReplicas(rs)
			default:
				pol.SetContainerBackupFactor(40) // 40 * (2+1) > 64 nodes in a set
			}
		}
		if g.p(1, 6) {
			c.Initial = true
			var ip netmap.InitialPlacementPolicy
			ip.SetMaxReplicas(1)
			pol.SetInitial(ip)
		}
		if (pol.Verify() == nil) != c.PolVerify {
			panic("harness: policy validity differs from the claimed fact")
		}
		cnr.SetPlacementPolicy(pol)
		// attributes
		na := g.n(4)
		seen := map[string]bool{}
		for i := 0; i < na; i++ {
			k := attrPool[g.n(len(attrPool))]
			if g.p(1, 2) {
				k = attrPool[g.n(2)]
			}
			if seen[k] {
				continue
			}
			seen[k] = true
			cnr.SetAttribute(k, attrValue(k))
			c.Attrs = append(c.Attrs, k)
		}
		c.NameMatch = true
		if op == opCreateV2 {
			st := toStruct(cnr)
			if !c.Decodes {
				st.Nonce = st.Nonce[:5]
			}
			var signed []byte
			id := cid.ID{}
			if rt, err := cntClient.ContainerFromStruct(*st); err == nil {
				signed = rt.Marshal()
				id = cid.NewFromMarshalledContainer(signed)
			} else if c.Decodes {
				panic(err)
			}
			var tok, invoc, verif []byte
			c.Auth, tok, invoc, verif = e.genAuth(op, c.Owner, -1, signed)
			req := containerEvent.CreateContainerV2Request{MainTransaction: mainTx, Container: *st, InvocationScript: invoc, VerificationScript: verif, SessionToken: tok}
			if g.p(1, 3) {
				ef, eb := e.genEACL(id, c.Extend)
				a, etok, einvoc, everif := e.genAuthFor(opSetEACL, c.Owner, eb)
				ef.Auth = &a
				c.EACL = ef
				er := containerEvent.PutContainerEACLRequest{MainTransaction: mainTx}
				er.EACL, er.InvocationScript, er.VerificationScript, er.SessionToken = eb, einvoc, everif, etok
				req.EACLTable = &er
			}
			run = func() { e.proc.VerifProcessCreateV2(req) }
			break
		}
		bin := cnr.Marshal()
		if !c.Decodes {
			bin = []byte{0x0a, 0xff, 0x01}
		}
		var req containerEvent.CreateContainerRequest
		req.MainTransaction = mainTx
		req.Container = bin
		c.Auth, req.SessionToken, req.InvocationScript, req.VerificationScript = e.genAuth(op, c.Owner, -1, bin)
		if op == opPutNamed {
			d := cnr.ReadDomain()
			req.DomainName, req.DomainZone = d.Name(), d.Zone()
			if req.DomainZone == "" {
				req.DomainZone = "container"
			}
			if g.p(1, 3) {
				if g.p(1, 2) {
					req.DomainName += "x"
				} else {
					req.DomainZone += "y"
				}
			}
			c.NameMatch = req.DomainName == d.Name() && req.DomainZone == d.Zone()
		}
		run = func() { e.proc.VerifProcessPut(req, sha256.Sum256(bin)) }
	case opDelete, opSetAttr, opRemoveAttr:
		c.Cnr = g.n(4)
		if g.p(3, 4) {
			c.Cnr = g.n(3)
		}
		c.Exists = c.Cnr < 3
		if c.Exists {
			c.Owner = e.owner[c.Cnr]
			c.Extend = e.ext[c.Cnr]
		}
		idb := append([]byte(nil), e.cids[c.Cnr][:]...)
		if g.p(1, 15) {
			c.IDOK = false
			idb = idb[:31]
		}
		c.NotExpired = g.p(5, 6)
		vu := time.Now().Unix() + 3600
		if !c.NotExpired {
			vu = time.Now().Unix() - 3600
		}
		switch op {
		case opDelete:
			var req containerEvent.RemoveContainerRequest
			req.MainTransaction = mainTx
			req.ID = idb
			c.Auth, req.SessionToken, req.InvocationScript, req.VerificationScript = e.genAuth(op, c.Owner, c.Cnr, idb)
			run = func() { e.proc.VerifProcessDelete(req) }
		case opSetAttr:
			req := containerEvent.SetAttributeRequest{MainTransaction: mainTx, ID: idb, Attribute: "Color", Value: "red", ValidUntil: vu}
			signed := sdkclient.GetSignedSetContainerAttributeParameters(sdkclient.SetContainerAttributeParameters{
				ID: e.cids[c.Cnr], Attribute: req.Attribute, Value: req.Value, ValidUntil: time.Unix(vu, 0)})
			c.Auth, req.SessionToken, req.InvocationScript, req.VerificationScript = e.genAuth(op, c.Owner, c.Cnr, signed)
			run = func() { e.proc.VerifProcessSetAttribute(req) }
		default:
			req := containerEvent.RemoveAttributeRequest{MainTransaction: mainTx, ID: idb, Attribute: "Color", ValidUntil: vu}
			signed := sdkclient.GetSignedRemoveContainerAttributeParameters(sdkclient.RemoveContainerAttributeParameters{
				ID: e.cids[c.Cnr], Attribute: req.Attribute, ValidUntil: time.Unix(vu, 0)})
			c.Auth, req.SessionToken, req.InvocationScript, req.VerificationScript = e.genAuth(op, c.Owner, c.Cnr, signed)
			run = func() { e.proc.VerifProcessRemoveAttribute(req) }
		}
	case opSetEACL:
		c.Cnr = g.n(4)
		if g.p(3, 4) {
			c.Cnr = g.n(3)
		}
		c.Exists = c.Cnr < 3
		if c.Exists {
			c.Owner = e.owner[c.Cnr]
			c.Extend = e.ext[c.Cnr]
		}
		ef, eb := e.genEACL(e.cids[c.Cnr], c.Extend)
		if ef.CIDSet && !ef.CIDSame {
			// the table names a container the chain does not have
			c.Exists, c.Owner = false, -1
		}
		c.EACL = ef
		var req containerEvent.PutContainerEACLRequest
		req.MainTransaction = mainTx
		req.EACL = eb
		c.Auth, req.SessionToken, req.InvocationScript, req.VerificationScript = e.genAuth(op, c.Owner, c.Cnr, eb)
		run = func() { e.proc.VerifProcessPutEACL(req) }
	}
	return c, run
}

// execute runs a prepared request under the environment recorded in c
func (e *c37Env) execute(c *c37Case, run func()) {
	e.alphabet, e.epoch, e.now = c.Alphabet, uint64(c.Epoch), time.Unix(t0+int64(c.Now), 0)
	e.proc.VerifSetFlags(c.Meta, c.AllowEC)
	e.n3ok = c.Auth.N3OK
	if c.Owner >= 0 {
		e.n3acc = e.uids[c.Owner].ScriptHash()
	} else {
		e.n3acc = util.Uint160{}
	}
	e.approved = 0
	c.Panicked = false
	e.ch.take()
	func() {
		defer func() {
			if r := recover(); r != nil {
				c.Panicked = true
			}
		}()
		run()
	}()
	c.Approved = e.approved > 0
}

// genAuthFor: witness of the optional eACL call inside createV2 (the new container's id is
// not one of the stored ones, so tokens bound to a stored container never fit)
func (e *c37Env) genAuthFor(op, owner int, payload []byte) (authFacts, []byte, []byte, []byte) {
	return e.genAuth(op, owner, -1, payload)
}

func c37Main() {
	seed, _ := strconv.ParseUint(os.Getenv("VERIF_SEED"), 10, 64)
	n := 700
	if os.Getenv("VERIF_TIER") == "thorough" {
		n = 12000
	}
	e := newC37Env(seed*7919 + 37)
	enc := json.NewEncoder(os.Stdout)
	pfx, meta, allowed := cntproc.VerifSysAttrs()
	_ = enc.Encode(map[string]any{"kind": "consts", "sys_prefix": pfx, "chain_meta": meta, "allowed": allowed,
		"create_method": fschaincontracts.CreateContainerMethod,
		"v1_verbs": []int{int(v1Verb(opPut)), int(v1Verb(opDelete)), int(v1Verb(opSetEACL)), int(v1Verb(opSetAttr)), int(v1Verb(opRemoveAttr))},
		"v2_verbs": []int{int(v2Verb(opPut)), int(v2Verb(opDelete)), int(v2Verb(opSetEACL)), int(v2Verb(opSetAttr)), int(v2Verb(opRemoveAttr))},
		"role_system": int(eacl.RoleSystem)})
	// Requests are processed by ONE processor instance over a small universe. Besides fresh
	// requests, an approved request is sometimes presented again, byte for byte, after the
	// environment moved on (epochs / chain time passed, alphabet membership lost, flags
	// switched): a verdict remembered from the first time must not be reused.
	var last *c37Case
	var lastRun func()
	for i := 0; i < n; i++ {
		if last != nil && e.g.p(1, 4) {
			c := *last
			switch e.g.n(5) {
			case 0:
				c.Epoch += 1 + e.g.n(4)
			case 1:
				c.Now += 1 + e.g.n(30)
			case 2:
				c.Alphabet = false
			case 3:
				c.Meta, c.AllowEC = !c.Meta, !c.AllowEC
			default:
				c.Epoch += 20
				c.Now += 5000
			}
			e.execute(&c, lastRun)
			c.Replayed = true
			_ = enc.Encode(c)
			if !c.Approved {
				last = nil
			}
			continue
		}
		c, run := e.prepare(e.g.n(7))
		e.execute(&c, run)
		_ = enc.Encode(c)
		if c.Approved {
			cc := c
			last, lastRun = &cc, run
		}
	}
}

var _ = stackitem.Null{}
