//go:build verif

package main

// C37: container creation / removal / eACL / attribute requests run through the real
// processor functions of pkg/innerring/processors/container against the fake chain.
// Every request is built from a record of *facts* (who signed what, what the token says,
// which attributes, ...); the facts and the observed decision are printed, and the Coq model
// (coq/IRProc/C37Model.v) is evaluated on the same facts.

import (
	"encoding/json"
	"math/big"
	"os"
	"strconv"
	"time"

	"github.com/nspcc-dev/neo-go/pkg/core/transaction"
	"github.com/nspcc-dev/neo-go/pkg/crypto/keys"
	"github.com/nspcc-dev/neo-go/pkg/neorpc/result"
	"github.com/nspcc-dev/neo-go/pkg/services/rpcsrv/params"
	"github.com/nspcc-dev/neo-go/pkg/util"
	"github.com/nspcc-dev/neo-go/pkg/vm/stackitem"
	containerrpc "github.com/nspcc-dev/neofs-contract/rpc/container"
	cntproc "github.com/nspcc-dev/neofs-node/pkg/innerring/processors/container"
	"github.com/nspcc-dev/neofs-node/pkg/morph/client"
	cntClient "github.com/nspcc-dev/neofs-node/pkg/morph/client/container"
	fschaincontracts "github.com/nspcc-dev/neofs-node/pkg/morph/contracts"
	"github.com/nspcc-dev/neofs-sdk-go/container"
	"github.com/nspcc-dev/neofs-sdk-go/container/acl"
	cid "github.com/nspcc-dev/neofs-sdk-go/container/id"
	"github.com/nspcc-dev/neofs-sdk-go/eacl"
	"github.com/nspcc-dev/neofs-sdk-go/netmap"
	"github.com/nspcc-dev/neofs-sdk-go/session"
	sessionv2 "github.com/nspcc-dev/neofs-sdk-go/session/v2"
	"github.com/nspcc-dev/neofs-sdk-go/user"
	"go.uber.org/zap"
)

// splitmix64: the single PRNG of the harness
type rng struct{ s uint64 }

func (r *rng) next() uint64 {
	r.s += 0x9e3779b97f4a7c15
	z := r.s
	z = (z ^ (z >> 30)) * 0xbf58476d1ce4e5b9
	z = (z ^ (z >> 27)) * 0x94d049bb133111eb
	return z ^ (z >> 31)
}
func (r *rng) n(k int) int     { return int(r.next() % uint64(k)) }
func (r *rng) p(num, den int) bool { return r.n(den) < num }

const (
	opPut = iota
	opPutNamed
	opCreateV2
	opDelete
	opSetEACL
	opSetAttr
	opRemoveAttr
)

const (
	tokNone = iota
	tokGarbage
	tokV1
	tokV2
)

const t0 = int64(1_700_000_000) // chain time = t0 + Now

type v1Facts struct {
	SigOK     bool `json:"sig_ok"`      // body signature verifies and the key is the issuer's
	Issuer    int  `json:"issuer"`      // user index
	Verb      int  `json:"verb"`        // session.ContainerVerb value
	Cnr       int  `json:"cnr"`         // -1 any container, else container index
	Iat       int  `json:"iat"`
	Nbf       int  `json:"nbf"`
	Exp       int  `json:"exp"`
	DataSigOK bool `json:"data_sig_ok"` // request data signed with the session key
}

type ctxFacts struct {
	Cnr   int   `json:"cnr"` // -1 wildcard
	Verbs []int `json:"verbs"`
}

type v2Facts struct {
	Valid      bool       `json:"valid"`  // passes Token.Validate
	SigOK      bool       `json:"sig_ok"` // every token of the chain is signed by its issuer
	OrigIssuer int        `json:"orig_issuer"`
	Delegated  bool       `json:"delegated"`
	Ctxs       []ctxFacts `json:"ctxs"`
	Iat        int        `json:"iat"` // seconds relative to t0
	Nbf        int        `json:"nbf"`
	Exp        int        `json:"exp"`
}

type authFacts struct {
	Tok      int      `json:"tok"`
	N3       bool     `json:"n3"`        // direct witness is an N3 script pair verified by the chain
	N3OK     bool     `json:"n3_ok"`     // the chain's verdict for the owner's account
	SigValid bool     `json:"sig_valid"` // pubkey form: signature verifies for (key, signed data)
	SigKey   int      `json:"sig_key"`   // pubkey form: user index of the key
	V1       *v1Facts `json:"v1,omitempty"`
	V2       *v2Facts `json:"v2,omitempty"`
}

type filterFacts struct {
	M int `json:"m"` // 0 other matcher, 1 NOT_PRESENT, 2 numeric
	V int `json:"v"` // 0 empty, 1 decimal, 2 non-decimal
}

type recFacts struct {
	Roles   []int         `json:"roles"` // eacl.Role values of the targets
	Filters []filterFacts `json:"filters"`
}

type eaclFacts struct {
	Decodes bool       `json:"decodes"`
	CIDSet  bool       `json:"cid_set"`   // table carries a container ID
	CIDSame bool       `json:"cid_same"`  // ... equal to the container the request is about
	Records []recFacts `json:"records"`
	Auth    *authFacts `json:"auth,omitempty"` // createV2 only: the eACL call's own witness
}

type c37Case struct {
	Kind     string `json:"kind"`
	Op       int    `json:"op"`
	Alphabet bool   `json:"alphabet"`
	Epoch    int    `json:"epoch"`
	Now      int    `json:"now"`
	Meta     bool   `json:"meta_enabled"`
	AllowEC  bool   `json:"allow_ec"`
	Owner    int    `json:"owner"` // owner of the container (new one for creation, stored one otherwise); -1 = none
	Cnr      int    `json:"cnr"`   // stored container index the request is about; -1 for creation
	Exists   bool   `json:"exists"`
	IDOK     bool   `json:"id_ok"`
	Extend   bool   `json:"extendable"`
	Auth     authFacts `json:"auth"`
	// creation
	Decodes   bool     `json:"decodes"`
	Attrs     []string `json:"attrs"`
	NRep      int      `json:"n_rep"`
	NEC       int      `json:"n_ec"`
	Initial   bool     `json:"initial"`
	PolVerify bool     `json:"pol_verify"`
	NameMatch bool     `json:"name_match"`
	// eACL
	EACL *eaclFacts `json:"eacl,omitempty"`
	// attribute requests
	NotExpired bool `json:"not_expired"`
	// observed
	Faults   []string `json:"faults"` // names of the injected faults (informational)
	Replayed bool `json:"replayed"` // the same request bytes as an earlier approved case, new environment
	Approved bool `json:"approved"`
	Panicked bool `json:"panicked"`
}

type c37Env struct {
	g     *rng
	ch    *chain
	proc  *cntproc.Processor
	users []*keys.PrivateKey
	uids  []user.ID
	cnrs  []container.Container // stored containers (index 0..2), index 3 = unknown to the chain
	cids  []cid.ID
	owner []int
	ext   []bool

	mc        *client.Client
	cc        *cntClient.Client
	cnrHash   util.Uint160
	extraFunc func(h util.Uint160, m string, args []params.FuncParam) *result.Invoke

	alphabet bool
	epoch    uint64
	now      time.Time
	n3ok     bool
	n3acc    util.Uint160
	approved int
}

type c37State struct{ e *c37Env }

func (s c37State) IsAlphabet() bool                          { return s.e.alphabet }
func (s c37State) Epoch() (uint64, error)                    { return s.e.epoch, nil }
func (s c37State) NetMap() (*netmap.NetMap, error)           { return &netmap.NetMap{}, nil }
func (s c37State) GetEpochBlock(uint64) (uint32, error)      { return 1, nil }
func (s c37State) GetEpochBlockByTime(uint32) (uint32, error) { return 1, nil }
func (s c37State) Now() time.Time                            { return s.e.now }

func toStruct(cnr container.Container) *containerrpc.ContainerInfo {
	ver := cnr.Version()
	var attrs []*containerrpc.ContainerAttribute
	for k, v := range cnr.Attributes() {
		attrs = append(attrs, &containerrpc.ContainerAttribute{Key: k, Value: v})
	}
	return &containerrpc.ContainerInfo{
		Version:       &containerrpc.ContainerAPIVersion{Major: big.NewInt(int64(ver.Major())), Minor: big.NewInt(int64(ver.Minor()))},
		Owner:         cnr.Owner().ScriptHash(),
		Nonce:         cnr.ProtoMessage().Nonce,
		BasicACL:      big.NewInt(int64(cnr.BasicACL().Bits())),
		Attributes:    attrs,
		StoragePolicy: cnr.PlacementPolicy().Marshal(),
	}
}

func simplePolicy(nrep, nec int) netmap.PlacementPolicy {
	var p netmap.PlacementPolicy
	var rs []netmap.ReplicaDescriptor
	for i := 0; i < nrep; i++ {
		var r netmap.ReplicaDescriptor
		r.SetNumberOfObjects(uint32(1 + i%2))
		rs = append(rs, r)
	}
	p.SetReplicas(rs)
	var es []netmap.ECRule
	for i := 0; i < nec; i++ {
		es = append(es, netmap.NewECRule(uint32(2+i), 1))
	}
	if nec > 0 {
		p.SetECRules(es)
	}
	return p
}

func newC37Env(seed uint64) *c37Env {
	e := &c37Env{g: &rng{s: seed}, ch: newChain()}
	for i := 0; i < 4; i++ {
		k, err := keys.NewPrivateKey()
		if err != nil {
			panic(err)
		}
		e.users = append(e.users, k)
		e.uids = append(e.uids, user.NewFromECDSAPublicKey(k.PrivateKey.PublicKey))
	}
	e.owner = []int{0, 1, 0}
	e.ext = []bool{true, false, true}
	for i := 0; i < 3; i++ {
		var c container.Container
		c.Init()
		c.SetOwner(e.uids[e.owner[i]])
		if e.ext[i] {
			c.SetBasicACL(acl.PublicRWExtended)
		} else {
			c.SetBasicACL(acl.PublicRW)
		}
		c.SetPlacementPolicy(simplePolicy(1, 0))
		c.SetAttribute("idx", strconv.Itoa(i))
		// what the processor will see is the container decoded from the contract structure
		rt, err := cntClient.ContainerFromStruct(*toStruct(c))
		if err != nil {
			panic(err)
		}
		e.cnrs = append(e.cnrs, rt)
		e.cids = append(e.cids, cid.NewFromMarshalledContainer(rt.Marshal()))
	}
	// index 3: an ID the chain does not know
	e.cids = append(e.cids, cid.NewFromMarshalledContainer([]byte("unknown container")))

	cnrHash := util.Uint160{0xc0}
	e.ch.onFunc = func(h util.Uint160, m string, args []params.FuncParam) *result.Invoke {
		if e.extraFunc != nil {
			if r := e.extraFunc(h, m, args); r != nil {
				return r
			}
		}
		if h != cnrHash || m != "getInfo" || len(args) != 1 {
			e.ch.note("call:" + m)
			return nil
		}
		id, err := args[0].Value.GetBytesBase64()
		if err != nil {
			return fault("bad argument")
		}
		for i := range e.cnrs {
			if string(id) == string(e.cids[i][:]) {
				it, err := toStruct(e.cnrs[i]).ToStackItem()
				if err != nil {
					panic(err)
				}
				return halt(it)
			}
		}
		return fault(containerrpc.NotFoundError)
	}
	e.ch.onContained = func(tx *transaction.Transaction) bool {
		return e.n3ok && len(tx.Signers) > 0 && tx.Signers[0].Account == e.n3acc
	}
	irKey, _ := keys.NewPrivateKey()
	mc := e.ch.morph(irKey, util.Uint160{0xbb}, func() (keys.PublicKeys, error) {
		e.approved++
		return nil, errRecorded
	})
	cc, err := cntClient.NewFromMorph(mc, cnrHash, cntClient.AsAlphabet())
	if err != nil {
		panic(err)
	}
	e.mc, e.cc, e.cnrHash = mc, cc, cnrHash
	st := c37State{e}
	e.proc, err = cntproc.New(&cntproc.Params{Log: zap.NewNop(), PoolSize: 1, AlphabetState: st, ContainerClient: cc,
		NetworkState: st, ChainTime: st})
	if err != nil {
		panic(err)
	}
	return e
}

type recordedErr struct{}

func (recordedErr) Error() string { return "recorded by the verification harness" }

var errRecorded = recordedErr{}

func (e *c37Env) signer(i int) user.Signer {
	return user.NewAutoIDSignerRFC6979(e.users[i].PrivateKey)
}

// verbs by operation
func v1Verb(op int) session.ContainerVerb {
	switch op {
	case opPut, opPutNamed, opCreateV2:
		return session.VerbContainerPut
	case opDelete:
		return session.VerbContainerDelete
	case opSetEACL:
		return session.VerbContainerSetEACL
	case opSetAttr:
		return session.VerbContainerSetAttribute
	}
	return session.VerbContainerRemoveAttribute
}

func v2Verb(op int) sessionv2.Verb {
	switch op {
	case opPut, opPutNamed, opCreateV2:
		return sessionv2.VerbContainerPut
	case opDelete:
		return sessionv2.VerbContainerDelete
	case opSetEACL:
		return sessionv2.VerbContainerSetEACL
	case opSetAttr:
		return sessionv2.VerbContainerSetAttribute
	}
	return sessionv2.VerbContainerRemoveAttribute
}

// execute runs a prepared request under the environment recorded in c
func (e *c37Env) execute(c *c37Case, run func()) {
	e.alphabet, e.epoch, e.now = c.Alphabet, uint64(c.Epoch), time.Unix(t0+int64(c.Now), 0)
	e.proc.VerifSetFlags(c.Meta, c.AllowEC)
	e.n3ok = c.Auth.N3OK
	if !c.Auth.N3 && c.EACL != nil && c.EACL.Auth != nil && c.EACL.Auth.N3 {
		e.n3ok = c.EACL.Auth.N3OK
	}
	if c.Owner >= 0 {
		e.n3acc = e.uids[c.Owner].ScriptHash()
	} else {
		e.n3acc = util.Uint160{}
	}
	e.approved = 0
	c.Panicked = false
	e.ch.take()
	func() {
		defer func() {
			if r := recover(); r != nil {
				c.Panicked = true
			}
		}()
		run()
	}()
	c.Approved = e.approved > 0
}

func c37Main() {
	seed, _ := strconv.ParseUint(os.Getenv("VERIF_SEED"), 10, 64)
	n := 700
	if os.Getenv("VERIF_TIER") == "thorough" {
		n = 12000
	}
	e := newC37Env(seed*7919 + 37)
	enc := json.NewEncoder(os.Stdout)
	pfx, meta, allowed := cntproc.VerifSysAttrs()
	_ = enc.Encode(map[string]any{"kind": "consts", "sys_prefix": pfx, "chain_meta": meta, "allowed": allowed,
		"create_method": fschaincontracts.CreateContainerMethod,
		"v1_verbs": []int{int(v1Verb(opPut)), int(v1Verb(opDelete)), int(v1Verb(opSetEACL)), int(v1Verb(opSetAttr)), int(v1Verb(opRemoveAttr))},
		"v2_verbs": []int{int(v2Verb(opPut)), int(v2Verb(opDelete)), int(v2Verb(opSetEACL)), int(v2Verb(opSetAttr)), int(v2Verb(opRemoveAttr))},
		"role_system": int(eacl.RoleSystem)})
	// Requests are processed by ONE processor instance over a small universe. Besides fresh
	// requests, an approved request is sometimes presented again, byte for byte, after the
	// environment moved on (epochs / chain time passed, alphabet membership lost, flags
	// switched): a verdict remembered from the first time must not be reused.
	var last *c37Case
	var lastRun func()
	for i := 0; i < n; i++ {
		if last != nil && e.g.p(1, 4) {
			c := *last
			switch e.g.n(5) {
			case 0:
				c.Epoch += 1 + e.g.n(4)
			case 1:
				c.Now += 1 + e.g.n(30)
			case 2:
				c.Alphabet = false
			case 3:
				c.Meta, c.AllowEC = !c.Meta, !c.AllowEC
			default:
				c.Epoch += 20
				c.Now += 5000
			}
			e.execute(&c, lastRun)
			c.Replayed = true
			_ = enc.Encode(c)
			if !c.Approved {
				last = nil
			}
			continue
		}
		c, run := e.prepare(e.g.n(7))
		e.execute(&c, run)
		_ = enc.Encode(c)
		if c.Approved {
			cc := c
			last, lastRun = &cc, run
		}
	}
}

var _ = stackitem.Null{}
