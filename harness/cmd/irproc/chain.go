//go:build verif

package main

// A fake Neo RPC node (JSON-RPC over websocket) that is just enough for a *real*
// pkg/morph/client.Client to be constructed and used by the inner ring processors.
// Everything the processors read from the chain is answered from callbacks set by the
// scenario; everything they would write (submitnotaryrequest, sendrawtransaction, invocations
// made through the actor) is recorded and refused.

import (
	"context"
	"encoding/json"
	"fmt"
	"net/http/httptest"
	"strings"
	"sync"

	"github.com/google/uuid"
	"github.com/nspcc-dev/neo-go/pkg/core/transaction"
	"github.com/nspcc-dev/neo-go/pkg/crypto/keys"
	"github.com/nspcc-dev/neo-go/pkg/neorpc/result"
	"github.com/nspcc-dev/neo-go/pkg/rpcclient"
	"github.com/nspcc-dev/neo-go/pkg/services/rpcsrv/params"
	"github.com/nspcc-dev/neo-go/pkg/util"
	"github.com/nspcc-dev/neo-go/pkg/vm/stackitem"
	"github.com/nspcc-dev/neofs-node/pkg/morph/client"
	"go.uber.org/zap"
	"golang.org/x/net/websocket"
)

type chain struct {
	mu  sync.Mutex
	srv *httptest.Server

	height uint32
	// test invocation of contract methods: nil result = FAULT "method not found"
	onFunc func(contract util.Uint160, method string, args []params.FuncParam) *result.Invoke
	// test invocation of scripts (IsValidScript, actor calls)
	onScript func(script []byte) *result.Invoke
	// invokecontainedscript (N3 witness verification): answer of the verification
	onContained func(tx *transaction.Transaction) bool

	// fault injection (C38): asked for every request before it is answered; a non-zero answer
	// makes the node fail exactly this request (see the fault* constants)
	onFault func(in *params.In) int
	// traverseiterator: the next batch of items (JSON of stack items); nil hook = no items
	onTraverse func() []json.RawMessage
	// RPC methods that are not served by handle() (answered = false: not served here either)
	onOther func(in *params.In) (res any, e *rpcErr, answered bool)

	log []string // names of state-changing / unexpected RPCs seen
}

// ways the fake node can fail a single request
const (
	faultNone    = 0
	faultError   = 1 // JSON-RPC error answer
	faultGarbage = 2 // an answer whose result cannot be decoded by the client
	faultDrop    = 3 // the connection is closed without an answer
)

func halt(items ...stackitem.Item) *result.Invoke {
	return &result.Invoke{State: "HALT", GasConsumed: 1, Stack: items}
}

func fault(exc string) *result.Invoke {
	return &result.Invoke{State: "FAULT", GasConsumed: 1, FaultException: exc, Stack: []stackitem.Item{}}
}

// emptyIter is the answer of a method returning an iterator without elements
func emptyIter() *result.Invoke {
	id, sid := uuid.New(), uuid.New()
	return &result.Invoke{State: "HALT", GasConsumed: 1, Stack: []stackitem.Item{stackitem.NewInterop(result.Iterator{ID: &id})}, Session: sid}
}

func (c *chain) note(s string) {
	c.mu.Lock()
	c.log = append(c.log, s)
	c.mu.Unlock()
}

func (c *chain) take() []string {
	c.mu.Lock()
	defer c.mu.Unlock()
	l := c.log
	c.log = nil
	return l
}

type rpcErr struct {
	Code    int    `json:"code"`
	Message string `json:"message"`
}

func (c *chain) handle(in *params.In) (any, *rpcErr) {
	switch in.Method {
	case "getversion":
		v := result.Version{
			TCPPort: 1, Nonce: 1, UserAgent: "/verif-fake/",
			Protocol: result.Protocol{
				AddressVersion: 53, Network: 42, MillisecondsPerBlock: 1000, MaxTraceableBlocks: 1000000,
				MaxValidUntilBlockIncrement: 5760, MaxTransactionsPerBlock: 512, MemoryPoolMaxTransactions: 50000,
				ValidatorsCount: 1, InitialGasDistribution: 5200000000000000,
			},
		}
		v.RPC.MaxIteratorResultItems = 100
		v.RPC.SessionEnabled = true
		return v, nil
	case "getnativecontracts":
		return []any{}, nil
	case "getblockcount":
		c.mu.Lock()
		h := c.height
		c.mu.Unlock()
		return h, nil
	case "invokefunction":
		if len(in.RawParams) < 2 {
			return nil, &rpcErr{-32602, "bad params"}
		}
		h, err := in.RawParams[0].GetUint160FromHex()
		if err != nil {
			return nil, &rpcErr{-32602, err.Error()}
		}
		m, _ := in.RawParams[1].GetString()
		var args []params.FuncParam
		if len(in.RawParams) > 2 {
			arr, _ := in.RawParams[2].GetArray()
			for i := range arr {
				fp, err := arr[i].GetFuncParam()
				if err != nil {
					return nil, &rpcErr{-32602, err.Error()}
				}
				args = append(args, fp)
			}
		}
		var res *result.Invoke
		if c.onFunc != nil {
			res = c.onFunc(h, m, args)
		}
		if res == nil {
			res = fault("method not found: " + m)
		}
		return res, nil
	case "invokescript":
		if len(in.RawParams) < 1 {
			return nil, &rpcErr{-32602, "bad params"}
		}
		sc, err := in.RawParams[0].GetBytesBase64()
		if err != nil {
			return nil, &rpcErr{-32602, err.Error()}
		}
		var res *result.Invoke
		if c.onScript != nil {
			res = c.onScript(sc)
		}
		if res == nil {
			res = fault("script refused by the fake chain")
		}
		return res, nil
	case "invokecontainedscript":
		if len(in.RawParams) < 1 {
			return nil, &rpcErr{-32602, "bad params"}
		}
		tx, err := in.RawParams[0].GetFakeTx()
		if err != nil {
			return nil, &rpcErr{-32602, err.Error()}
		}
		ok := false
		if c.onContained != nil {
			ok = c.onContained(tx)
		}
		return halt(stackitem.NewBool(ok)), nil
	case "calculatenetworkfee":
		return map[string]any{"networkfee": "1"}, nil
	case "submitnotaryrequest", "sendrawtransaction":
		c.note(in.Method)
		return nil, &rpcErr{-500, "the fake chain accepts no transactions"}
	case "terminatesession":
		return true, nil
	case "traverseiterator":
		if c.onTraverse != nil {
			return c.onTraverse(), nil
		}
		return []any{}, nil
	}
	if c.onOther != nil {
		if res, e, ok := c.onOther(in); ok {
			return res, e
		}
	}
	c.note("unexpected:" + in.Method)
	return nil, &rpcErr{-32601, "method not found"}
}

func newChain() *chain {
	c := &chain{height: 100}
	// golang.org/x/net/websocket: already a direct dependency of the module (importing another
	// websocket package would make `go build -mod=mod` rewrite /repo/go.mod)
	c.srv = httptest.NewServer(websocket.Server{Handler: func(ws *websocket.Conn) {
		defer ws.Close()
		for {
			var msg []byte
			if err := websocket.Message.Receive(ws, &msg); err != nil {
				return
			}
			var in params.In
			if err := json.Unmarshal(msg, &in); err != nil {
				continue
			}
			fk := faultNone
			if c.onFault != nil {
				fk = c.onFault(&in)
			}
			// the request is served (and recorded by the scenario's callbacks) in any case; the
			// fault only affects what the client gets back
			res, e := c.handle(&in)
			switch fk {
			case faultDrop:
				return
			case faultError:
				res, e = nil, &rpcErr{-32000, "injected failure"}
			case faultGarbage:
				res, e = "\x00not a result", nil
			}
			out := map[string]any{"jsonrpc": "2.0", "id": in.RawID}
			if e != nil {
				out["error"] = e
			} else {
				out["result"] = res
			}
			b, err := json.Marshal(out)
			if err != nil {
				b, _ = json.Marshal(map[string]any{"jsonrpc": "2.0", "id": in.RawID, "error": rpcErr{-32603, err.Error()}})
			}
			if err := websocket.Message.Send(ws, string(b)); err != nil {
				return
			}
		}
	}})
	return c
}

// morph returns a genuine morph client connected to the fake node. alpha is the alphabet key
// source used by the notary code; the first thing Client.NotarySignAndInvokeTX does is to call
// it, which is where the harness records "the node went on to co-sign this main transaction".
func (c *chain) morph(key *keys.PrivateKey, proxy util.Uint160, alpha client.AlphabetKeys) *client.Client {
	ws, err := rpcclient.NewWS(context.Background(), "ws"+strings.TrimPrefix(c.srv.URL, "http")+"/ws", rpcclient.WSOptions{})
	if err != nil {
		panic(fmt.Errorf("ws dial: %w", err))
	}
	cli, err := client.New(key, client.WithSingleClient(ws), client.WithLogger(zap.NewNop()))
	if err != nil {
		panic(fmt.Errorf("morph client: %w", err))
	}
	if alpha != nil {
		if err = cli.EnableNotarySupport(client.WithProxyContract(proxy), client.WithAlphabetSource(alpha)); err != nil {
			panic(fmt.Errorf("notary support: %w", err))
		}
	}
	return cli
}
