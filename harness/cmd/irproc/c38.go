//go:build verif

package main

// C38: (a) node admission requests through the real netmap processor (processAddNode) under
// several validator configurations built with the real CompositeValidator (real state and
// structure validators mixed with validators whose verdict is a fact of the case); (b) histories
// of new-epoch notifications, timer ticks and alphabet membership changes through
// processNewEpoch / processNewEpochTick with a client that records the NewEpoch invocations.
// The fake chain can fail single requests (JSON-RPC error answer, undecodable answer, dropped
// connection): the test invocation of the admission request's main transaction, and each of the
// RPC calls the new-epoch handler makes (epoch duration, transaction height, network map
// snapshot: invocation and iterator traversal, container listing) -- per step of a history.

import (
	"bytes"
	"encoding/json"
	"math/big"
	"os"
	"sort"
	"strconv"
	"time"

	"github.com/nspcc-dev/neo-go/pkg/core/state"
	"github.com/nspcc-dev/neo-go/pkg/core/transaction"
	"github.com/nspcc-dev/neo-go/pkg/crypto/keys"
	"github.com/nspcc-dev/neo-go/pkg/io"
	"github.com/nspcc-dev/neo-go/pkg/neorpc/result"
	"github.com/nspcc-dev/neo-go/pkg/network/payload"
	"github.com/nspcc-dev/neo-go/pkg/services/rpcsrv/params"
	"github.com/nspcc-dev/neo-go/pkg/smartcontract/callflag"
	"github.com/nspcc-dev/neo-go/pkg/smartcontract/scparser"
	"github.com/nspcc-dev/neo-go/pkg/util"
	"github.com/nspcc-dev/neo-go/pkg/vm/emit"
	"github.com/nspcc-dev/neo-go/pkg/vm/stackitem"
	netmaprpc "github.com/nspcc-dev/neofs-contract/rpc/netmap"
	nmproc "github.com/nspcc-dev/neofs-node/pkg/innerring/processors/netmap"
	"github.com/nspcc-dev/neofs-node/pkg/innerring/processors/netmap/nodevalidation"
	statevalidation "github.com/nspcc-dev/neofs-node/pkg/innerring/processors/netmap/nodevalidation/state"
	"github.com/nspcc-dev/neofs-node/pkg/innerring/processors/netmap/nodevalidation/structure"
	"github.com/nspcc-dev/neofs-node/pkg/morph/client"
	cntClient "github.com/nspcc-dev/neofs-node/pkg/morph/client/container"
	nmClient "github.com/nspcc-dev/neofs-node/pkg/morph/client/netmap"
	"github.com/nspcc-dev/neofs-node/pkg/morph/event"
	netmapEvent "github.com/nspcc-dev/neofs-node/pkg/morph/event/netmap"
	"github.com/nspcc-dev/neofs-sdk-go/netmap"
	"go.uber.org/zap"
)

// validator kinds of a configuration
const (
	vState = -1 // the real state validator
	vStruct = -2 // the real structure validator
	// >= 0: a validator whose verdict is fact #i of the case
)

var c38Configs = [][]int{
	{vState, vStruct, 0, 1},
	{0, vState, 1, vStruct, 2},
	{0},
	{},
	{vStruct, 0, 1, 2},
}

type c38Admit struct {
	Kind     string `json:"kind"`
	Faults   []string `json:"faults"`
	Config   int    `json:"config"`
	Alphabet bool   `json:"alphabet"`
	Script   int    `json:"script"`     // test invocation of the main tx script: 0 HALT, 1 FAULT, it failed: 2 RPC error answer, 3 undecodable answer, 4 connection dropped
	State    int    `json:"state"`      // node state: 1 online, 2 offline, 3 maintenance, other = unknown
	AddrOK   bool   `json:"addr_ok"`    // announced addresses are acceptable multiaddresses (structure validator)
	Verdicts []bool `json:"verdicts"`   // verdicts of the fact-driven validators 0..2
	Parsed   bool   `json:"parsed"`     // the notary parser produced an AddNode event (an empty address list does not parse)
	Approved bool   `json:"approved"`
}

type c38Hist struct {
	Kind   string  `json:"kind"`
	Init   uint64  `json:"init"`
	Alpha0 bool    `json:"alpha0"`
	// [0,n,env] notification of epoch n, env = what the chain does while it is handled: 2 bits per RPC
	// call of the handler (c38Calls order; 0 answers, 1 error answer, 2 undecodable answer, 3 connection
	// dropped; the sixth is the local timer reset: non-zero = it fails) and, from bit 12, the network map snapshot
	// served (0 empty, 1 {A}, 2 {A,B}, 3 {B});
	// [1,0,k] tick, k = how the NewEpoch test invocation is answered (0 refused (FAULT), 1-3 as above);
	// [2,b,0] alphabet membership := b
	Events [][3]uint64 `json:"events"`
	Calls  [][]uint64  `json:"calls"`  // per tick: the epochs NewEpoch was invoked with
}

// RPC calls of processNewEpoch that can be failed, in the order of the env bits
// ("timer" is not a request: the local epoch timer refuses to be reset)
var c38Calls = []string{"config", "txheight", "listNodes", "traverse", "containers", "timer"}

type c38Env struct {
	g        *rng
	ch       *chain
	mc       *client.Client
	irKey    *keys.PrivateKey
	cntHash  util.Uint160
	faults   map[string]int // request label -> way to fail the next request of that kind
	hits     map[string]int // statistics: injected faults by label
	dropped  bool           // the connection was dropped: the clients have to be rebuilt
	snapshot int            // network map served by listNodes
	nodes    []json.RawMessage // stack items of nodes A, B
	iter     []json.RawMessage // items the open iterator still has
	procs    []*nmproc.Processor
	nmHash   util.Uint160
	alphabet bool
	counter  uint64
	verdicts []bool
	scriptV  int
	approved int
	epochs   []uint64 // recorded newEpoch invocations
	alphaKeys keys.PublicKeys
}

type c38State struct{ e *c38Env }

func (s c38State) ResetEpochTimer(uint32) error {
	if s.e.faults["timer"] != 0 {
		delete(s.e.faults, "timer")
		s.e.hits["timer"]++
		return errRecorded
	}
	return nil
}
func (s c38State) SetEpochCounter(v uint64)     { s.e.counter = v }
func (s c38State) EpochCounter() uint64         { return s.e.counter }
func (s c38State) SetEpochDuration(uint64)      {}
func (s c38State) EpochDuration() time.Duration { return time.Hour }
func (s c38State) IsAlphabet() bool             { return s.e.alphabet }

type factValidator struct {
	e *c38Env
	i int
}

func (v factValidator) Verify(netmap.NodeInfo) error {
	if v.e.verdicts[v.i] {
		return nil
	}
	return errRecorded
}

// label names the request kinds the scenarios distinguish
func (e *c38Env) label(in *params.In) string {
	switch in.Method {
	case "invokefunction":
		if len(in.RawParams) < 2 {
			return ""
		}
		h, err := in.RawParams[0].GetUint160FromHex()
		m, _ := in.RawParams[1].GetString()
		if err != nil || h != e.nmHash {
			return ""
		}
		return m // config, listNodes, newEpoch
	case "invokescript":
		if len(in.RawParams) < 1 {
			return ""
		}
		sc, err := in.RawParams[0].GetBytesBase64()
		if err != nil {
			return ""
		}
		if bytes.Contains(sc, e.cntHash.BytesBE()) {
			return "containers" // call + iterator prefetch: not a plain contract call
		}
		if h, m, _, _, err := scparser.GetAppCallFromContext(scparser.NewContext(sc, 0)); err == nil && h == e.nmHash {
			return m // addNode, newEpoch
		}
		return "script"
	case "gettransactionheight":
		return "txheight"
	case "traverseiterator":
		return "traverse"
	}
	return ""
}

func newC38Env(seed uint64) *c38Env {
	e := &c38Env{g: &rng{s: seed}, nmHash: util.Uint160{0xa1}, cntHash: util.Uint160{0xc0}, verdicts: []bool{true, true, true}, hits: map[string]int{}}
	e.irKey, _ = keys.NewPrivateKey()
	e.alphaKeys = keys.PublicKeys{e.irKey.PublicKey()}
	for i := 0; i < 3; i++ {
		k, _ := keys.NewPrivateKey()
		e.alphaKeys = append(e.alphaKeys, k.PublicKey())
	}
	sort.Sort(e.alphaKeys)
	for i := 0; i < 2; i++ {
		k, _ := keys.NewPrivateKey()
		n := &netmaprpc.NetmapNode2{Addresses: []string{"/ip4/10.0.1." + strconv.Itoa(i+1) + "/tcp/8080"}, Attributes: map[string]string{"Capacity": "10", "Price": "1"},
			Key: k.PublicKey(), State: netmaprpc.NodeStateOnline}
		it, err := n.ToStackItem()
		if err != nil {
			panic(err)
		}
		b, err := stackitem.ToJSONWithTypes(it)
		if err != nil {
			panic(err)
		}
		e.nodes = append(e.nodes, b)
	}
	e.connect()
	return e
}

// connect (re)creates the fake node, the morph client on it and the processors. The epoch
// counter and the alphabet membership live in the environment and survive a reconnection.
func (e *c38Env) connect() {
	if e.mc != nil {
		e.mc.Close()
		e.ch.srv.CloseClientConnections()
		e.ch.srv.Close()
	}
	e.ch = newChain()
	e.procs = nil
	e.dropped = false
	irKey := e.irKey
	e.ch.onFault = func(in *params.In) int {
		l := e.label(in)
		k := e.faults[l]
		if k != faultNone {
			delete(e.faults, l)
			e.hits[l]++
			if k == faultDrop {
				e.dropped = true
			}
		}
		return k
	}
	e.ch.onOther = func(in *params.In) (any, *rpcErr, bool) {
		if in.Method == "gettransactionheight" {
			return 90, nil, true
		}
		return nil, nil, false
	}
	e.ch.onTraverse = func() []json.RawMessage {
		it := e.iter
		e.iter = nil
		if it == nil {
			it = []json.RawMessage{}
		}
		return it
	}
	e.ch.onFunc = func(h util.Uint160, m string, args []params.FuncParam) *result.Invoke {
		if h == e.nmHash && m == "listNodes" {
			e.iter = nil
			switch e.snapshot {
			case 1:
				e.iter = []json.RawMessage{e.nodes[0]}
			case 2:
				e.iter = []json.RawMessage{e.nodes[0], e.nodes[1]}
			case 3:
				e.iter = []json.RawMessage{e.nodes[1]}
			}
			return emptyIter()
		}
		if h == e.nmHash && m == "newEpoch" && len(args) == 1 {
			// the test invocation made while building the NewEpoch transaction
			if v, err := args[0].Value.GetBigInt(); err == nil {
				e.epochs = append(e.epochs, v.Uint64())
			}
			return fault("recorded by the verification harness")
		}
		if h == e.nmHash && m == "config" {
			return halt(stackitem.NewBigInteger(big.NewInt(240)))
		}
		return nil
	}
	e.ch.onScript = func(sc []byte) *result.Invoke {
		// a test invocation made while building a transaction (NewEpoch) or IsValidScript
		ctx := scparser.NewContext(sc, 0)
		if h, m, _, prm, err := scparser.GetAppCallFromContext(ctx); err == nil && h == e.nmHash && m == "newEpoch" && len(prm) == 1 {
			if v, err := scparser.GetBigIntFromInstr(prm[0].Instruction); err == nil {
				e.epochs = append(e.epochs, v.Uint64())
			}
			return fault("recorded by the verification harness")
		}
		if bytes.Contains(sc, e.cntHash.BytesBE()) {
			// listing of the containers (placement update after a changed network map): none
			return halt(stackitem.NewArray([]stackitem.Item{}))
		}
		if e.scriptV == 1 {
			return fault("refused")
		}
		return halt()
	}
	mc := e.ch.morph(irKey, util.Uint160{0xbb}, func() (keys.PublicKeys, error) {
		e.approved++
		return e.alphaKeys, nil
	})
	e.mc = mc
	nmc, err := nmClient.NewFromMorph(mc, e.nmHash, nmClient.AsAlphabet())
	if err != nil {
		panic(err)
	}
	cc, err := cntClient.NewFromMorph(mc, e.cntHash, cntClient.AsAlphabet())
	if err != nil {
		panic(err)
	}
	st := c38State{e}
	for _, cfg := range c38Configs {
		var vs []nmproc.NodeValidator
		for _, k := range cfg {
			switch k {
			case vState:
				vs = append(vs, statevalidation.New())
			case vStruct:
				vs = append(vs, structure.New())
			default:
				vs = append(vs, factValidator{e, k})
			}
		}
		lg := zap.NewNop()
		if os.Getenv("VERIF_DEBUG") != "" {
			lg, _ = zap.NewDevelopment()
		}
		p, err := nmproc.New(&nmproc.Params{Log: lg, PoolSize: 1, NetmapClient: nmc, EpochTimer: st, EpochState: st, AlphabetState: st,
			ContainerWrapper: cc, AlphabetSyncHandler: func(event.Event) {}, NotaryDepositHandler: func(event.Event) {}, NodeValidator: nodevalidation.New(vs...)})
		if err != nil {
			panic(err)
		}
		e.procs = append(e.procs, p)
	}
}

type fakeNotaryEvent struct {
	h      util.Uint160
	m      string
	params []scparser.PushedItem
	raw    *payload.P2PNotaryRequest
}

func (f fakeNotaryEvent) ScriptHash() util.Uint160         { return f.h }
func (f fakeNotaryEvent) Type() event.NotaryType           { return event.NotaryTypeFromString(f.m) }
func (f fakeNotaryEvent) Params() []scparser.PushedItem    { return f.params }
func (f fakeNotaryEvent) Raw() *payload.P2PNotaryRequest   { return f.raw }

func (e *c38Env) admitCase() c38Admit {
	g := e.g
	c := c38Admit{Kind: "c38admit", Config: g.n(len(c38Configs)), Alphabet: true, State: []int{1, 3}[g.n(2)], AddrOK: true, Verdicts: []bool{true, true, true}, Faults: []string{}}
	cand := []string{"non_alphabet", "script_fault", "script_error", "script_garbage", "script_drop", "state_offline", "state_unknown", "addr_bad", "addr_none", "v0", "v1", "v2"}
	nf := 1
	switch x := g.n(20); {
	case x < 6:
		nf = 0
	case x >= 17:
		nf = 2
	}
	fs := faults{}
	for ; nf > 0; nf-- {
		fs[cand[g.n(len(cand))]] = true
	}
	for k := range fs {
		c.Faults = append(c.Faults, k)
	}
	sort.Strings(c.Faults)
	c.Alphabet = !fs["non_alphabet"]
	if fs["script_fault"] {
		c.Script = 1
	}
	if fs["script_error"] {
		c.Script = 2
	}
	if fs["script_garbage"] {
		c.Script = 3
	}
	if fs["script_drop"] {
		c.Script = 4
	}
	if fs["state_offline"] {
		c.State = 2
	}
	if fs["state_unknown"] {
		c.State = []int{0, 4, 7}[g.n(3)]
	}
	for i := 0; i < 3; i++ {
		c.Verdicts[i] = !fs["v"+strconv.Itoa(i)]
	}
	k, _ := keys.NewPrivateKey()
	addrs := []string{[]string{"/dns4/node" + strconv.Itoa(g.n(9)) + ".example/tcp/8080", "/ip4/10.0.0." + strconv.Itoa(1+g.n(200)) + "/tcp/8080", "node.example:8080"}[g.n(3)]}
	if g.p(1, 3) {
		addrs = append(addrs, "/ip4/192.168.1.1/tcp/8081/tls")
	}
	if fs["addr_bad"] {
		c.AddrOK = false
		bad := []string{"/dns4/node.example/udp/8080", "/ip4/10.0.0.1/tcp/8080/tls/http", "/dns4/node.example"}[g.n(3)]
		addrs = append(addrs[:g.n(len(addrs)+1)], append([]string{bad}, addrs...)...)
	}
	if fs["addr_none"] {
		c.AddrOK = false
		addrs = nil
	}
	node := &netmaprpc.NetmapNode2{Addresses: addrs, Attributes: map[string]string{"Price": strconv.Itoa(g.n(100)), "Capacity": "10"}, Key: k.PublicKey(), State: big.NewInt(int64(c.State))}
	bw := io.NewBufBinWriter()
	emit.AppCall(bw.BinWriter, e.nmHash, netmapEvent.AddNodeNotaryEvent, callflag.All, node)
	if bw.Err != nil {
		panic(bw.Err)
	}
	script := bw.Bytes()
	_, _, _, prm, err := scparser.GetAppCallFromContext(scparser.NewContext(script, 0))
	if err != nil {
		panic(err)
	}
	nr := &payload.P2PNotaryRequest{MainTransaction: &transaction.Transaction{Script: script, Signers: []transaction.Signer{{Account: util.Uint160{1}}, {Account: util.Uint160{2}}}},
		FallbackTransaction: &transaction.Transaction{}}
	ev, err := netmapEvent.ParseAddNodeNotary(fakeNotaryEvent{e.nmHash, netmapEvent.AddNodeNotaryEvent, prm, nr})
	c.Parsed = err == nil
	if c.Parsed != (len(addrs) > 0) {
		panic(err)
	}
	if !c.Parsed {
		return c
	}
	// the structure validator's verdict must be what the case claims
	if c.State == 1 || c.State == 3 {
		ni, err := netmapEvent.Node2Info(node)
		if err != nil {
			panic(err)
		}
		if (structure.New().Verify(ni) == nil) != c.AddrOK {
			panic("harness: address validity differs from the claimed fact: " + addrs[0])
		}
	}
	e.alphabet, e.scriptV = c.Alphabet, c.Script
	copy(e.verdicts, c.Verdicts)
	e.approved = 0
	e.faults = map[string]int{}
	if c.Script >= 2 {
		// exactly the test invocation of the main transaction fails; every other request is served
		e.faults[netmapEvent.AddNodeNotaryEvent] = c.Script - 1
	}
	e.procs[c.Config].VerifProcessAddNode(ev.(netmapEvent.AddNode))
	c.Approved = e.approved > 0
	e.faults = nil
	if e.dropped {
		e.connect()
	}
	return c
}

func (e *c38Env) histCase() c38Hist {
	g := e.g
	h := c38Hist{Kind: "c38hist", Init: uint64(g.n(50)), Alpha0: g.p(3, 4), Events: [][3]uint64{}, Calls: [][]uint64{}}
	if g.p(1, 10) {
		h.Init = []uint64{0, 1<<63 - 2, 1<<64 - 1, 1<<64 - 2}[g.n(4)]
	}
	e.counter, e.alphabet = h.Init, h.Alpha0
	pi := g.n(len(e.procs))
	cur := h.Init
	n := 1 + g.n(12)
	for i := 0; i < n; i++ {
		switch x := g.n(10); {
		case x < 4: // tick
			// the chain's answer to the NewEpoch test invocation: refusal, or a failure of the request
			k := 0
			if g.p(1, 4) {
				k = 1 + g.n(3)
			}
			h.Events = append(h.Events, [3]uint64{1, 0, uint64(k)})
			e.epochs = nil
			e.faults = map[string]int{"newEpoch": k}
			e.procs[pi].VerifProcessNewEpochTick()
			e.faults = nil
			calls := append([]uint64{}, e.epochs...)
			h.Calls = append(h.Calls, calls)
		case x < 8: // notification
			var ep uint64
			switch g.n(8) {
			case 0:
				ep = uint64(g.n(60)) // anything, also the past
			case 1:
				ep = cur // repeated
			case 2:
				ep = []uint64{1<<63 - 1, 1<<63 - 2, 1 << 40}[g.n(3)]
			default:
				ep = cur + 1 + uint64(g.n(2))
			}
			if ep > 1<<63-1 {
				ep = 1<<63 - 1 // the notification carries an int64
			}
			cur = ep
			// what the chain does while the notification is handled
			e.snapshot = g.n(4)
			env := uint64(e.snapshot) << 12
			e.faults = map[string]int{}
			if g.p(3, 5) {
				for nf := 1 + g.n(2); nf > 0; nf-- {
					ci := g.n(len(c38Calls))
					e.faults[c38Calls[ci]] = 1 + g.n(3)
				}
				for ci, l := range c38Calls {
					env |= uint64(e.faults[l]) << (2 * ci)
				}
			}
			h.Events = append(h.Events, [3]uint64{0, ep, env})
			ne, err := netmapEvent.ParseNewEpoch(&state.ContainedNotificationEvent{Container: util.Uint256{byte(i)},
				NotificationEvent: state.NotificationEvent{ScriptHash: e.nmHash, Name: "NewEpoch", Item: stackitem.NewArray([]stackitem.Item{stackitem.NewBigInteger(new(big.Int).SetUint64(ep))})}})
			if err != nil {
				panic(err)
			}
			e.procs[pi].VerifProcessNewEpoch(ne.(netmapEvent.NewEpoch))
			e.faults = nil
		default:
			b := g.p(1, 2)
			e.alphabet = b
			v := uint64(0)
			if b {
				v = 1
			}
			h.Events = append(h.Events, [3]uint64{2, v, 0})
		}
		if e.dropped {
			e.connect() // same processor configuration, fresh clients; the counter and the membership persist
		}
	}
	return h
}

func c38Main() {
	seed, _ := strconv.ParseUint(os.Getenv("VERIF_SEED"), 10, 64)
	na, nh := 400, 250
	if os.Getenv("VERIF_TIER") == "thorough" {
		na, nh = 5000, 4000
	}
	e := newC38Env(seed*15485863 + 38)
	enc := json.NewEncoder(os.Stdout)
	_ = enc.Encode(map[string]any{"kind": "consts38", "configs": c38Configs, "state_online": netmaprpc.NodeStateOnline.Int64(),
		"state_maintenance": netmaprpc.NodeStateMaintenance.Int64()})
	for i := 0; i < na; i++ {
		_ = enc.Encode(e.admitCase())
	}
	for i := 0; i < nh; i++ {
		_ = enc.Encode(e.histCase())
	}
	_ = enc.Encode(map[string]any{"kind": "c38stats", "injected": e.hits})
}
