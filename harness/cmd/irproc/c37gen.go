//go:build verif

package main

// C37 request generator. Every case starts from a request that satisfies all conditions
// (random choice among the valid forms) and then gets 0, 1 (most often) or 2 named faults out
// of the faults applicable to it, so that every single check is the only failing one in a
// good share of the cases.

import (
	"crypto/sha256"
	"sort"
	"strconv"
	"time"

	"github.com/google/uuid"
	"github.com/nspcc-dev/neo-go/pkg/core/transaction"
	"github.com/nspcc-dev/neo-go/pkg/crypto/keys"
	cntClient "github.com/nspcc-dev/neofs-node/pkg/morph/client/container"
	containerEvent "github.com/nspcc-dev/neofs-node/pkg/morph/event/container"
	sdkclient "github.com/nspcc-dev/neofs-sdk-go/client"
	"github.com/nspcc-dev/neofs-sdk-go/container"
	"github.com/nspcc-dev/neofs-sdk-go/container/acl"
	cid "github.com/nspcc-dev/neofs-sdk-go/container/id"
	neofscrypto "github.com/nspcc-dev/neofs-sdk-go/crypto"
	neofsecdsa "github.com/nspcc-dev/neofs-sdk-go/crypto/ecdsa"
	"github.com/nspcc-dev/neofs-sdk-go/eacl"
	"github.com/nspcc-dev/neofs-sdk-go/netmap"
	"github.com/nspcc-dev/neofs-sdk-go/session"
	sessionv2 "github.com/nspcc-dev/neofs-sdk-go/session/v2"
	"github.com/nspcc-dev/neofs-sdk-go/user"
)

type faults map[string]bool

var allV2Verbs = []int{1, 2, 3, 4, 5, 6, 8, 9, 10, 11, 12}

const newCnr = -2 // "the container being created": has an ID, but none of the stored ones

func (e *c37Env) other(i int) int { return (i + 1 + e.g.n(3)) % 4 }

func (e *c37Env) pickTok() int {
	switch x := e.g.n(20); {
	case x < 7:
		return tokNone
	case x < 13:
		return tokV1
	}
	return tokV2
}

// authFaults lists the faults applicable to a witness of the given form
func authFaults(pfx string, tok int, n3 bool, cnr int) []string {
	var l []string
	switch tok {
	case tokNone:
		if n3 {
			l = []string{"n3_refused"}
		} else {
			l = []string{"sig_invalid", "sig_other_key"}
		}
		l = append(l, "garbage_token")
	case tokV1:
		l = []string{"issuer", "verb", "expired", "nbf", "iat", "tok_sig", "data_sig"}
		if cnr != -1 {
			l = append(l, "cnr")
		}
	case tokV2:
		l = []string{"orig_issuer", "expired", "nbf", "iat", "tok_sig", "invalid", "ctx_verb", "ctx_cnr", "deleg_owner"}
	}
	for i := range l {
		l[i] = pfx + l[i]
	}
	return l
}

// verbsWith returns a sorted verb set that contains `want` (if want >= 0) plus k others, never `without`
func (e *c37Env) verbsWith(want, without, k int) []int {
	set := map[int]bool{}
	if want >= 0 {
		set[want] = true
	}
	for tries := 0; k > 0 && tries < 50; tries++ {
		v := allV2Verbs[e.g.n(len(allV2Verbs))]
		if v == without || set[v] {
			continue
		}
		set[v] = true
		k--
	}
	var r []int
	for v := range set {
		r = append(r, v)
	}
	sort.Ints(r)
	return r
}

// genAuth builds the witness of operation op on container cnr (-1: creation, no ID;
// newCnr: the container being created; else stored index) owned by `owner` over `payload`.
func (e *c37Env) genAuth(op, owner, cnr, tok int, n3 bool, fs faults, pfx string, payload []byte) (authFacts, []byte, []byte, []byte) {
	g := e.g
	has := func(n string) bool { return fs[pfx+n] }
	f := authFacts{Tok: tok, N3: n3, N3OK: true, SigValid: true}
	own := owner
	if own < 0 {
		own = g.n(4)
	}
	f.SigKey = own
	if tok == tokNone && has("garbage_token") {
		f.Tok = tokGarbage
	}
	if has("sig_other_key") {
		f.SigKey = e.other(own)
	}
	if has("sig_invalid") {
		f.SigValid = false
	}
	if has("n3_refused") {
		f.N3OK = false
	}
	signed := payload
	if !f.SigValid {
		signed = append([]byte{0xff}, payload...)
	}
	invoc, err := neofsecdsa.SignerRFC6979(e.users[f.SigKey].PrivateKey).Sign(signed)
	if err != nil {
		panic(err)
	}
	verif := e.users[f.SigKey].PublicKey().Bytes()
	if n3 {
		verif = e.users[f.SigKey].PublicKey().GetVerificationScript()
		invoc = append([]byte{0x0c, 64}, make([]byte, 64)...)
	}
	var tokBytes []byte
	ep := int(e.epoch)
	now := int(e.now.Unix() - t0)
	switch f.Tok {
	case tokGarbage:
		tokBytes = []byte{0xde, 0xad, 0xbe, 0xef, byte(g.n(256))}
	case tokV1:
		v := &v1Facts{Issuer: own, Verb: int(v1Verb(op)), Cnr: -1, SigOK: true, DataSigOK: true}
		if cnr >= 0 && g.p(1, 2) {
			v.Cnr = cnr
		}
		if cnr == -1 && g.p(1, 4) {
			v.Cnr = g.n(4) // creation: the token's container is not looked at
		}
		v.Iat, v.Nbf, v.Exp = ep-g.n(3), ep-g.n(3), ep+g.n(3)
		if v.Iat < 0 {
			v.Iat = 0
		}
		if v.Nbf < 0 {
			v.Nbf = 0
		}
		if has("issuer") {
			v.Issuer = e.other(own)
		}
		if has("verb") {
			for v.Verb == int(v1Verb(op)) {
				v.Verb = g.n(7)
			}
		}
		if has("cnr") {
			v.Cnr = g.n(4)
			for v.Cnr == cnr {
				v.Cnr = g.n(4)
			}
		}
		if has("expired") {
			v.Exp = ep - 1 - g.n(2)
			if v.Exp < 0 {
				v.Exp = 0
			}
		}
		if has("nbf") {
			v.Nbf = ep + 1 + g.n(2)
			if v.Exp < v.Nbf {
				v.Exp = v.Nbf + 1
			}
		}
		if has("iat") {
			v.Iat = ep + 1 + g.n(2)
			if v.Exp < v.Iat {
				v.Exp = v.Iat + 1
			}
		}
		v.SigOK = !has("tok_sig")
		v.DataSigOK = !has("data_sig")
		sk, _ := keys.NewPrivateKey()
		var t session.Container
		t.SetID(uuid.New())
		t.SetAuthKey((*neofsecdsa.PublicKeyRFC6979)(&sk.PrivateKey.PublicKey))
		t.ForVerb(session.ContainerVerb(v.Verb))
		if v.Cnr >= 0 {
			t.ApplyOnlyTo(e.cids[v.Cnr])
		}
		t.SetIat(uint64(v.Iat))
		t.SetNbf(uint64(v.Nbf))
		t.SetExp(uint64(v.Exp))
		if v.SigOK {
			if err := t.Sign(e.signer(v.Issuer)); err != nil {
				panic(err)
			}
		} else if g.p(1, 2) {
			// signed by somebody else while claiming the issuer
			t.SetIssuer(e.uids[v.Issuer])
			if err := t.SetSignature(neofsecdsa.SignerRFC6979(e.users[e.other(v.Issuer)].PrivateKey)); err != nil {
				panic(err)
			}
		} else {
			if err := t.Sign(e.signer(v.Issuer)); err != nil {
				panic(err)
			}
			s, _ := t.Signature()
			val := append([]byte(nil), s.Value()...)
			val[len(val)/2] ^= 0x20
			t.AttachSignature(neofscrypto.NewSignatureFromRawKey(s.Scheme(), s.PublicKeyBytes(), val))
		}
		tokBytes = t.Marshal()
		ds, dk := payload, sk
		if !v.DataSigOK {
			if g.p(1, 2) {
				ds = append([]byte{1}, payload...)
			} else {
				dk = e.users[own] // the owner's own key instead of the session key
			}
		}
		invoc, err = neofsecdsa.SignerRFC6979(dk.PrivateKey).Sign(ds)
		if err != nil {
			panic(err)
		}
		f.V1 = v
	case tokV2:
		want := int(v2Verb(op))
		v := &v2Facts{Valid: true, SigOK: true, OrigIssuer: own, Delegated: g.p(1, 3)}
		v.Iat, v.Nbf, v.Exp = now-g.n(3)*5, now-g.n(3)*5, now+g.n(3)*5
		// valid context shapes
		switch {
		case cnr >= 0 && g.p(1, 3):
			v.Ctxs = []ctxFacts{{Cnr: cnr, Verbs: e.verbsWith(want, -1, g.n(3))}}
		case cnr >= 0 && g.p(1, 3):
			v.Ctxs = []ctxFacts{{Cnr: -1, Verbs: e.verbsWith(-1, want, 1+g.n(2))}, {Cnr: cnr, Verbs: e.verbsWith(want, -1, g.n(2))}}
		case g.p(1, 3):
			oc := g.n(4)
			for oc == cnr {
				oc = g.n(4)
			}
			v.Ctxs = []ctxFacts{{Cnr: -1, Verbs: e.verbsWith(want, -1, g.n(2))}, {Cnr: oc, Verbs: e.verbsWith(-1, want, 1+g.n(2))}}
		default:
			v.Ctxs = []ctxFacts{{Cnr: -1, Verbs: e.verbsWith(want, -1, g.n(3))}}
		}
		if has("ctx_verb") {
			// the same contexts without the wanted verb anywhere
			for i := range v.Ctxs {
				v.Ctxs[i].Verbs = e.verbsWith(-1, want, 1+g.n(3))
			}
		}
		if has("ctx_cnr") {
			// the wanted verb only under another container
			oc := g.n(4)
			for oc == cnr {
				oc = g.n(4)
			}
			v.Ctxs = []ctxFacts{{Cnr: oc, Verbs: e.verbsWith(want, -1, g.n(2))}}
			if g.p(1, 2) {
				v.Ctxs = append([]ctxFacts{{Cnr: -1, Verbs: e.verbsWith(-1, want, 1+g.n(2))}}, v.Ctxs...)
			}
		}
		if len(v.Ctxs) == 2 && eqInts(v.Ctxs[0].Verbs, v.Ctxs[1].Verbs) {
			v.Ctxs = v.Ctxs[:1] // Validate forbids an explicit context repeating the wildcard's verbs
		}
		delegate := e.other(own)
		if has("orig_issuer") {
			v.OrigIssuer = e.other(own)
			delegate = e.other(v.OrigIssuer)
		}
		if has("deleg_owner") {
			// somebody else's token delegated to the owner: the final issuer is the owner
			v.OrigIssuer = e.other(own)
			v.Delegated = true
			delegate = own
		}
		if has("expired") {
			v.Exp = now - 1 - g.n(2)
			if v.Nbf > v.Exp {
				v.Nbf = v.Exp
			}
			if v.Iat > v.Exp {
				v.Iat = v.Exp
			}
		}
		if has("nbf") {
			v.Nbf = now + 1 + g.n(2)
			if v.Exp < v.Nbf {
				v.Exp = v.Nbf + 5
			}
		}
		if has("iat") {
			v.Iat = now + 1 + g.n(2)
			if v.Exp < v.Iat {
				v.Exp = v.Iat + 5
			}
		}
		v.SigOK = !has("tok_sig")
		v.Valid = !has("invalid")
		tokBytes = e.buildV2(v, delegate)
		f.V2 = v
	}
	return f, tokBytes, invoc, verif
}

func eqInts(a, b []int) bool {
	if len(a) != len(b) {
		return false
	}
	for i := range a {
		if a[i] != b[i] {
			return false
		}
	}
	return true
}

func (e *c37Env) ctxID(c ctxFacts) []byte {
	if c.Cnr < 0 {
		return make([]byte, 32)
	}
	return e.cids[c.Cnr][:]
}

func (e *c37Env) buildV2(v *v2Facts, delegate int) []byte {
	g := e.g
	mkCtxs := func() []sessionv2.Context {
		// Validate wants contexts sorted by container ID (wildcard = zero first)
		cs := append([]ctxFacts(nil), v.Ctxs...)
		sort.SliceStable(cs, func(i, j int) bool { return string(e.ctxID(cs[i])) < string(e.ctxID(cs[j])) })
		var res []sessionv2.Context
		for _, c := range cs {
			var id cid.ID
			copy(id[:], e.ctxID(c))
			vs := make([]sessionv2.Verb, len(c.Verbs))
			for i := range c.Verbs {
				vs[i] = sessionv2.Verb(c.Verbs[i])
			}
			cx, err := sessionv2.NewContext(id, vs)
			if err != nil {
				panic(err)
			}
			res = append(res, cx)
		}
		return res
	}
	mk := func(subj user.ID) sessionv2.Token {
		var t sessionv2.Token
		t.SetVersion(sessionv2.TokenCurrentVersion)
		if err := t.SetSubjects([]sessionv2.Target{sessionv2.NewTargetUser(subj)}); err != nil {
			panic(err)
		}
		if err := t.SetContexts(mkCtxs()); err != nil {
			panic(err)
		}
		t.SetIat(time.Unix(t0+int64(v.Iat), 0))
		t.SetNbf(time.Unix(t0+int64(v.Nbf), 0))
		t.SetExp(time.Unix(t0+int64(v.Exp), 0))
		return t
	}
	breakSig := func(t *sessionv2.Token) {
		s, _ := t.Signature()
		val := append([]byte(nil), s.Value()...)
		val[len(val)/3] ^= 0x04
		t.AttachSignature(neofscrypto.NewSignatureFromRawKey(s.Scheme(), s.PublicKeyBytes(), val))
	}
	stranger, _ := keys.NewPrivateKey()
	strangerID := user.NewFromECDSAPublicKey(stranger.PrivateKey.PublicKey)
	if !v.Delegated {
		tok := mk(strangerID)
		if !v.Valid {
			switch g.n(3) {
			case 0:
				tok.SetVersion(7)
			case 1:
				_ = tok.SetSubjects(nil)
			default:
				tok.SetNbf(time.Unix(t0+int64(v.Exp)+50, 0)) // nbf after exp
			}
		}
		if err := tok.Sign(e.signer(v.OrigIssuer)); err != nil {
			panic(err)
		}
		if !v.SigOK {
			if g.p(1, 2) {
				breakSig(&tok)
			} else {
				// claims the issuer, signed by another key
				var sg neofscrypto.Signature
				if err := sg.Calculate(neofsecdsa.SignerRFC6979(e.users[e.other(v.OrigIssuer)].PrivateKey), tok.SignedData()); err != nil {
					panic(err)
				}
				tok.AttachSignature(sg)
			}
		}
		return tok.Marshal()
	}
	origin := mk(e.uids[delegate])
	if !v.Valid {
		if g.p(1, 2) {
			// the delegate is not among the origin's subjects
			_ = origin.SetSubjects([]sessionv2.Target{sessionv2.NewTargetUser(strangerID)})
		} else {
			origin.SetFinal(true)
		}
	}
	if err := origin.Sign(e.signer(v.OrigIssuer)); err != nil {
		panic(err)
	}
	brokeOrigin := !v.SigOK && g.p(1, 2)
	if brokeOrigin {
		breakSig(&origin)
	}
	tok := mk(strangerID)
	tok.SetOrigin(&origin)
	if err := tok.Sign(e.signer(delegate)); err != nil {
		panic(err)
	}
	if !v.SigOK && !brokeOrigin {
		breakSig(&tok)
	}
	return tok.Marshal()
}

var okAttrs = []string{"Color", "Name", "__NEOFS__LOCK_UNTIL", "__NEOFS_X", "_NEOFS__NAME", "NEOFS__"}
var badAttrs = []string{"__NEOFS__DISABLE_HOMOMORPHIC_HASHING", "__NEOFS__EVIL", "__NEOFS__", "__NEOFS__NAMES", "__NEOFS__name"}

func attrValue(k string) string {
	switch k {
	case "__NEOFS__LOCK_UNTIL":
		return "1900000000"
	case "__NEOFS__METAINFO_CONSISTENCY":
		return "strict"
	case "__NEOFS__DISABLE_HOMOMORPHIC_HASHING":
		return "true"
	}
	return "v"
}

func (e *c37Env) genEACL(target cid.ID, fs faults) (*eaclFacts, []byte) {
	g := e.g
	f := &eaclFacts{Decodes: true, CIDSet: true, CIDSame: true, Records: []recFacts{}}
	nr := g.n(4)
	if (fs["system_role"] || fs["bad_filter"]) && nr == 0 {
		nr = 1
	}
	for i := 0; i < nr; i++ {
		rf := recFacts{Roles: []int{}, Filters: []filterFacts{}}
		for k := g.n(4); k > 0; k-- {
			rf.Roles = append(rf.Roles, []int{int(eacl.RoleUser), int(eacl.RoleOthers), int(eacl.RoleUnspecified)}[g.n(3)])
		}
		for k := g.n(3); k > 0; k-- {
			ff := filterFacts{M: g.n(3)}
			switch ff.M {
			case 0:
				ff.V = g.n(3)
			case 1:
				ff.V = 0
			default:
				ff.V = 1
			}
			rf.Filters = append(rf.Filters, ff)
		}
		f.Records = append(f.Records, rf)
	}
	if fs["system_role"] {
		r := &f.Records[g.n(nr)]
		pos := g.n(len(r.Roles) + 1)
		r.Roles = append(r.Roles[:pos:pos], append([]int{int(eacl.RoleSystem)}, r.Roles[pos:]...)...)
	}
	if fs["bad_filter"] {
		r := &f.Records[g.n(nr)]
		bad := filterFacts{M: 1, V: 1 + g.n(2)}
		if g.p(1, 2) {
			bad = filterFacts{M: 2, V: 2 * g.n(2)}
		}
		pos := g.n(len(r.Filters) + 1)
		r.Filters = append(r.Filters[:pos:pos], append([]filterFacts{bad}, r.Filters[pos:]...)...)
	}
	var recs []eacl.Record
	for _, rf := range f.Records {
		var ts []eacl.Target
		for _, role := range rf.Roles {
			if eacl.Role(role) == eacl.RoleUnspecified {
				ts = append(ts, eacl.NewTargetByAccounts([]user.ID{e.uids[g.n(4)]}))
			} else {
				ts = append(ts, eacl.NewTargetByRole(eacl.Role(role)))
			}
		}
		var fl []eacl.Filter
		for k, ff := range rf.Filters {
			m := eacl.MatchStringEqual
			switch ff.M {
			case 1:
				m = eacl.MatchNotPresent
			case 2:
				m = []eacl.Match{eacl.MatchNumGT, eacl.MatchNumGE, eacl.MatchNumLT, eacl.MatchNumLE}[g.n(4)]
			}
			val := []string{"", []string{"10", "-7", "0", "123456789012345678901234567890"}[g.n(4)], []string{"abc", "1.5", "0x10", "1e3"}[g.n(4)]}[ff.V]
			fl = append(fl, eacl.NewObjectPropertyFilter("k"+strconv.Itoa(k), m, val))
		}
		recs = append(recs, eacl.ConstructRecord(eacl.ActionDeny, eacl.OperationGet, ts, fl...))
	}
	var tb eacl.Table
	switch {
	case fs["eacl_no_cid"]:
		f.CIDSet, f.CIDSame = false, false
		tb = eacl.ConstructTable(recs)
	case fs["eacl_other_cid"]:
		f.CIDSame = false
		tb = eacl.NewTableForContainer(cid.NewFromMarshalledContainer([]byte("another")), recs)
	default:
		tb = eacl.NewTableForContainer(target, recs)
	}
	b := tb.Marshal()
	if fs["eacl_undecodable"] {
		f.Decodes = false
		b = []byte{0xff, 0xff, 0x01}
	}
	if _, err := eacl.Unmarshal(b); (err == nil) != f.Decodes {
		panic("harness: eACL decodability differs from the claimed fact")
	}
	return f, b
}

func (e *c37Env) prepare(op int) (c37Case, func()) {
	g := e.g
	c := c37Case{Kind: "c37", Op: op, Cnr: -1, Owner: -1, Attrs: []string{}, IDOK: true, Alphabet: true, Decodes: true, PolVerify: true, NameMatch: true, NotExpired: true}
	c.Epoch = 5 + g.n(6)
	c.Now = 1000 + g.n(1000)
	c.Meta = g.p(1, 2)
	c.AllowEC = g.p(1, 2)
	creation := op <= opCreateV2
	mainTok := e.pickTok()
	mainN3 := mainTok == tokNone && g.p(1, 4)
	withEACL := op == opSetEACL || (op == opCreateV2 && g.p(1, 2))
	eTok := e.pickTok()
	eN3 := eTok == tokNone && g.p(1, 4)

	// applicable faults
	cand := []string{"non_alphabet"}
	mainCnr := -1
	if creation {
		cand = append(cand, "undecodable", "bad_policy", "ec_disabled", "ec_rep_mix", "meta_initial", "sys_attr", "meta_attr_disabled")
		if op == opPutNamed {
			cand = append(cand, "name_mismatch")
		}
	} else {
		mainCnr = 0 // any non-negative: the operation has a container
		cand = append(cand, "cnr_missing")
		if op != opSetEACL {
			cand = append(cand, "bad_id")
		}
		if op == opSetAttr || op == opRemoveAttr {
			cand = append(cand, "expired_request")
		}
	}
	if withEACL {
		cand = append(cand, "eacl_undecodable", "eacl_no_cid", "eacl_other_cid", "not_extendable", "system_role", "bad_filter")
	}
	cand = append(cand, authFaults("a.", mainTok, mainN3, mainCnr)...)
	if op == opCreateV2 && withEACL {
		cand = append(cand, authFaults("e.", eTok, eN3, newCnr)...)
	}
	fs := faults{}
	nf := 1
	switch x := g.n(20); {
	case x < 6:
		nf = 0
	case x >= 17:
		nf = 2
	}
	for ; nf > 0; nf-- {
		fs[cand[g.n(len(cand))]] = true
	}
	var names []string
	for k := range fs {
		names = append(names, k)
	}
	sort.Strings(names)
	c.Faults = names

	c.Alphabet = !fs["non_alphabet"]
	e.alphabet, e.epoch, e.now = c.Alphabet, uint64(c.Epoch), time.Unix(t0+int64(c.Now), 0)
	var mainTx transaction.Transaction
	mainTx.Script = []byte{0x40}
	var run func()
	if creation {
		c.Owner = g.n(4)
		c.Decodes = !fs["undecodable"]
		var cnr container.Container
		cnr.Init()
		cnr.SetOwner(e.uids[c.Owner])
		c.Extend = !fs["not_extendable"] && (withEACL || g.p(2, 3))
		if c.Extend {
			cnr.SetBasicACL(acl.PublicRWExtended)
		} else {
			cnr.SetBasicACL(acl.Private)
		}
		// attributes
		add := func(k string) {
			for _, x := range c.Attrs {
				if x == k {
					return
				}
			}
			cnr.SetAttribute(k, attrValue(k))
			c.Attrs = append(c.Attrs, k)
		}
		for k := g.n(3); k > 0; k-- {
			add(okAttrs[g.n(len(okAttrs))])
		}
		if g.p(1, 3) || op == opPutNamed {
			add("__NEOFS__NAME")
			if g.p(2, 3) {
				add("__NEOFS__ZONE")
			}
		}
		metaAttr := (c.Meta && g.p(1, 3)) || fs["meta_initial"] || fs["meta_attr_disabled"]
		if fs["meta_initial"] {
			c.Meta = true
		}
		if fs["meta_attr_disabled"] {
			c.Meta = false
		}
		if metaAttr {
			add("__NEOFS__METAINFO_CONSISTENCY")
		}
		if fs["sys_attr"] {
			add(badAttrs[g.n(len(badAttrs))])
		}
		// policy
		ec := c.AllowEC && g.p(1, 2)
		if fs["ec_disabled"] {
			ec, c.AllowEC = true, false
		}
		if ec {
			c.NEC = 1 + g.n(2)
		} else {
			c.NRep = 1 + g.n(2)
		}
		if fs["ec_rep_mix"] {
			c.NRep, c.NEC = 1, 1
			if !fs["ec_disabled"] {
				c.AllowEC = true
			}
		}
		pol := simplePolicy(c.NRep, c.NEC)
		if fs["bad_policy"] {
			c.PolVerify = false
			switch {
			case c.NRep > 0 && g.p(1, 2):
				rs := pol.Replicas()
				rs[0].SetNumberOfObjects(9) // more than 8 replicas
				pol.SetReplicas(rs)
			case c.NRep > 0:
				rs := pol.Replicas()
				rs[0].SetSelectorName("missing")
				pol.SetReplicas(rs)
			default:
				pol.SetContainerBackupFactor(40) // too many nodes in a set
			}
		}
		c.Initial = fs["meta_initial"] || (!metaAttr && g.p(1, 4))
		if c.Initial {
			var ip netmap.InitialPlacementPolicy
			ip.SetMaxReplicas(1)
			pol.SetInitial(ip)
		}
		if (pol.Verify() == nil) != c.PolVerify {
			panic("harness: policy validity differs from the claimed fact")
		}
		cnr.SetPlacementPolicy(pol)
		e.proc.VerifSetFlags(c.Meta, c.AllowEC)
		if op == opCreateV2 {
			st := toStruct(cnr)
			if !c.Decodes {
				st.Nonce = st.Nonce[:5]
			}
			var signed []byte
			id := cid.ID{}
			if rt, err := cntClient.ContainerFromStruct(*st); err == nil {
				signed = rt.Marshal()
				id = cid.NewFromMarshalledContainer(signed)
			} else if c.Decodes {
				panic(err)
			}
			var tok, invoc, verif []byte
			c.Auth, tok, invoc, verif = e.genAuth(op, c.Owner, -1, mainTok, mainN3, fs, "a.", signed)
			req := containerEvent.CreateContainerV2Request{MainTransaction: mainTx, Container: *st, InvocationScript: invoc, VerificationScript: verif, SessionToken: tok}
			if withEACL {
				ef, eb := e.genEACL(id, fs)
				a, etok, einvoc, everif := e.genAuth(opSetEACL, c.Owner, newCnr, eTok, eN3, fs, "e.", eb)
				if a.N3 && c.Auth.N3 {
					a.N3OK = c.Auth.N3OK // one chain verdict per case for the owner's account
				}
				ef.Auth = &a
				c.EACL = ef
				er := containerEvent.PutContainerEACLRequest{MainTransaction: mainTx}
				er.EACL, er.InvocationScript, er.VerificationScript, er.SessionToken = eb, einvoc, everif, etok
				req.EACLTable = &er
			}
			return c, func() { e.proc.VerifProcessCreateV2(req) }
		}
		bin := cnr.Marshal()
		if !c.Decodes {
			bin = []byte{0x0a, 0xff, 0x01}
		}
		var req containerEvent.CreateContainerRequest
		req.MainTransaction = mainTx
		req.Container = bin
		c.Auth, req.SessionToken, req.InvocationScript, req.VerificationScript = e.genAuth(op, c.Owner, -1, mainTok, mainN3, fs, "a.", bin)
		if op == opPutNamed {
			d := cnr.ReadDomain()
			req.DomainName, req.DomainZone = d.Name(), d.Zone()
			if fs["name_mismatch"] {
				if g.p(1, 2) {
					req.DomainName += "x"
				} else {
					req.DomainZone += "y"
				}
			}
			c.NameMatch = req.DomainName == d.Name() && req.DomainZone == d.Zone()
			if req.DomainZone == "" {
				panic("harness: named put without a zone")
			}
		}
		return c, func() { e.proc.VerifProcessPut(req, sha256.Sum256(bin)) }
	}
	// operations on a stored container
	e.proc.VerifSetFlags(c.Meta, c.AllowEC)
	c.Cnr = g.n(3)
	if withEACL {
		c.Cnr = []int{0, 2}[g.n(2)] // extendable ones
		if fs["not_extendable"] {
			c.Cnr = 1
		}
	}
	if fs["cnr_missing"] {
		c.Cnr = 3
	}
	c.Exists = c.Cnr < 3
	if c.Exists {
		c.Owner = e.owner[c.Cnr]
		c.Extend = e.ext[c.Cnr]
	}
	idb := append([]byte(nil), e.cids[c.Cnr][:]...)
	if fs["bad_id"] {
		c.IDOK = false
		if g.p(1, 2) {
			idb = idb[:31]
		} else {
			idb = make([]byte, 32) // zero ID
		}
	}
	c.NotExpired = !fs["expired_request"]
	vu := time.Now().Unix() + 3600
	if !c.NotExpired {
		vu = time.Now().Unix() - 3600
	}
	switch op {
	case opDelete:
		var req containerEvent.RemoveContainerRequest
		req.MainTransaction = mainTx
		req.ID = idb
		c.Auth, req.SessionToken, req.InvocationScript, req.VerificationScript = e.genAuth(op, c.Owner, c.Cnr, mainTok, mainN3, fs, "a.", idb)
		run = func() { e.proc.VerifProcessDelete(req) }
	case opSetAttr:
		req := containerEvent.SetAttributeRequest{MainTransaction: mainTx, ID: idb, Attribute: "Color", Value: "red", ValidUntil: vu}
		signed := sdkclient.GetSignedSetContainerAttributeParameters(sdkclient.SetContainerAttributeParameters{
			ID: e.cids[c.Cnr], Attribute: req.Attribute, Value: req.Value, ValidUntil: time.Unix(vu, 0)})
		c.Auth, req.SessionToken, req.InvocationScript, req.VerificationScript = e.genAuth(op, c.Owner, c.Cnr, mainTok, mainN3, fs, "a.", signed)
		run = func() { e.proc.VerifProcessSetAttribute(req) }
	case opRemoveAttr:
		req := containerEvent.RemoveAttributeRequest{MainTransaction: mainTx, ID: idb, Attribute: "Color", ValidUntil: vu}
		signed := sdkclient.GetSignedRemoveContainerAttributeParameters(sdkclient.RemoveContainerAttributeParameters{
			ID: e.cids[c.Cnr], Attribute: req.Attribute, ValidUntil: time.Unix(vu, 0)})
		c.Auth, req.SessionToken, req.InvocationScript, req.VerificationScript = e.genAuth(op, c.Owner, c.Cnr, mainTok, mainN3, fs, "a.", signed)
		run = func() { e.proc.VerifProcessRemoveAttribute(req) }
	default: // opSetEACL
		ef, eb := e.genEACL(e.cids[c.Cnr], fs)
		if ef.CIDSet && !ef.CIDSame {
			// the table names a container the chain does not have
			c.Exists, c.Owner = false, -1
		}
		c.EACL = ef
		var req containerEvent.PutContainerEACLRequest
		req.MainTransaction = mainTx
		req.EACL = eb
		c.Auth, req.SessionToken, req.InvocationScript, req.VerificationScript = e.genAuth(op, c.Owner, c.Cnr, mainTok, mainN3, fs, "a.", eb)
		run = func() { e.proc.VerifProcessPutEACL(req) }
	}
	return c, run
}
