//go:build verif

// irproc: differential harness for the inner ring processors (C37 container authorisation,
// C34 notary request preparation/parsing/handling, C38 netmap admission and epoch ticks).
package main

import (
	"fmt"
	"os"
)

func main() {
	if len(os.Args) < 2 {
		fmt.Fprintln(os.Stderr, "usage: irproc c37|c34|c38")
		os.Exit(2)
	}
	switch os.Args[1] {
	case "c37":
		c37Main()
	case "c34":
		c34Main()
	case "c38":
		c38Main()
	default:
		fmt.Fprintln(os.Stderr, "unknown subcommand")
		os.Exit(2)
	}
}
