//go:build verif

package main

// C34: notary requests (main + fallback transaction) built from facts and fed to the real
// listener pipeline: preparator (structure checks, allow-filter) -> registered parser ->
// registered handler -> container / netmap processor checks -> Client.NotarySignAndInvokeTX
// (recorded at its first step). A second listener instance with the same registrations is used
// only to classify the preparator's verdict.

import (
	"encoding/json"
	"math/big"
	"os"
	"sort"
	"strconv"
	"time"

	"github.com/nspcc-dev/neo-go/pkg/core/interop/interopnames"
	"github.com/nspcc-dev/neo-go/pkg/core/transaction"
	"github.com/nspcc-dev/neo-go/pkg/crypto/hash"
	"github.com/nspcc-dev/neo-go/pkg/crypto/keys"
	"github.com/nspcc-dev/neo-go/pkg/io"
	"github.com/nspcc-dev/neo-go/pkg/neorpc/result"
	"github.com/nspcc-dev/neo-go/pkg/network/payload"
	"github.com/nspcc-dev/neo-go/pkg/services/rpcsrv/params"
	"github.com/nspcc-dev/neo-go/pkg/smartcontract"
	"github.com/nspcc-dev/neo-go/pkg/smartcontract/callflag"
	"github.com/nspcc-dev/neo-go/pkg/util"
	"github.com/nspcc-dev/neo-go/pkg/vm/emit"
	"github.com/nspcc-dev/neo-go/pkg/vm/opcode"
	netmaprpc "github.com/nspcc-dev/neofs-contract/rpc/netmap"
	nmproc "github.com/nspcc-dev/neofs-node/pkg/innerring/processors/netmap"
	cntClient "github.com/nspcc-dev/neofs-node/pkg/morph/client/container"
	nmClient "github.com/nspcc-dev/neofs-node/pkg/morph/client/netmap"
	fschaincontracts "github.com/nspcc-dev/neofs-node/pkg/morph/contracts"
	"github.com/nspcc-dev/neofs-node/pkg/morph/event"
	sdkclient "github.com/nspcc-dev/neofs-sdk-go/client"
	"github.com/nspcc-dev/neofs-sdk-go/container"
	"github.com/nspcc-dev/neofs-sdk-go/container/acl"
	cid "github.com/nspcc-dev/neofs-sdk-go/container/id"
	neofsecdsa "github.com/nspcc-dev/neofs-sdk-go/crypto/ecdsa"
	"github.com/nspcc-dev/neofs-sdk-go/eacl"
	"github.com/nspcc-dev/neofs-sdk-go/netmap"
	"go.uber.org/zap"
)

// content kinds: what the arguments of a call really are
const (
	ctGarbage = iota
	ctCreate
	ctCreateV2
	ctRemove
	ctPutEACL // eACL of a stored container
	ctSetAttr
	ctRemoveAttr
	ctAddNode
	ctUpdateState
	ctEACLNew // eACL of the container created by the preceding createV2 call
)

type callFacts struct {
	Contract int    `json:"contract"` // 0 container, 1 netmap, 2 a contract nobody registered
	Method   string `json:"method"`
	Content  int    `json:"content"`
	OK       bool   `json:"ok"` // the content passes the checks of the handler it is meant for
}

type c34Case struct {
	Kind     string   `json:"kind"`
	Faults   []string `json:"faults"`
	Alphabet bool     `json:"alphabet"`
	Seen     bool     `json:"seen"` // the same request was prepared successfully before
	NWit     int      `json:"n_wit"`
	FBLocal  bool     `json:"fb_local"`
	NSigners int      `json:"n_signers"`
	AlphaSig bool     `json:"alpha_signer"`
	NAttrs   int      `json:"n_attrs"`
	AttrNot  bool     `json:"attr_notary"` // the (first) attribute is NotaryAssisted
	NKeys    int      `json:"n_keys"`
	NAlpha   int      `json:"n_alpha"`
	W0Empty  bool     `json:"w0_empty"`
	W1Alpha  bool     `json:"w1_alpha"`
	W2Full   bool     `json:"w2_nonempty"`
	WLastOK  bool     `json:"wlast_ok"`
	FBNAttrs int      `json:"fb_n_attrs"`
	FBNvbCnt int      `json:"fb_nvb_count"`
	Nvb      int      `json:"nvb"`
	Block    int      `json:"block"`
	ScriptOK bool     `json:"script_ok"` // the script is a sequence of contract calls
	Calls    []callFacts `json:"calls"`
	// observed
	Class  int  `json:"class"` // preparator outcome (0 = prepared)
	NPrep  int  `json:"n_prepared"`
	Signed bool `json:"signed"`
}

type c34Env struct {
	*c37Env
	nproc      *nmproc.Processor
	lA, lB     event.Listener
	alpha      keys.PublicKeys
	alphaVerif []byte
	localAcc   util.Uint160
	nmHash     util.Uint160
	otherHash  util.Uint160
	block      uint32
	scriptOK   bool // verdict of the chain for IsValidScript
	nodeOK     bool // verdict of the node validator
}

type c34State struct{ e *c34Env }

func (s c34State) BlockCount() (uint32, error)   { return s.e.block, nil }
func (s c34State) ResetEpochTimer(uint32) error  { return nil }
func (s c34State) SetEpochCounter(uint64)        {}
func (s c34State) EpochCounter() uint64          { return 1 }
func (s c34State) SetEpochDuration(uint64)       {}
func (s c34State) EpochDuration() time.Duration  { return time.Hour }
func (s c34State) IsAlphabet() bool              { return s.e.alphabet }
func (s c34State) Verify(netmap.NodeInfo) error {
	if s.e.nodeOK {
		return nil
	}
	return errRecorded
}

func newC34Env(seed uint64) *c34Env {
	e := &c34Env{c37Env: newC37Env(seed), nmHash: util.Uint160{0xa1}, otherHash: util.Uint160{0xee}, block: 100}
	for i := 0; i < 4; i++ {
		k, _ := keys.NewPrivateKey()
		e.alpha = append(e.alpha, k.PublicKey())
	}
	sort.Sort(e.alpha)
	e.alphaVerif, _ = smartcontract.CreateMultiSigRedeemScript(len(e.alpha)*2/3+1, e.alpha)
	e.localAcc = util.Uint160{0x10, 0xca, 0x10}
	e.extraFunc = func(h util.Uint160, m string, args []params.FuncParam) *result.Invoke {
		if h == e.nmHash && m == "listNodes" {
			return emptyIter()
		}
		return nil
	}
	e.ch.onScript = func([]byte) *result.Invoke {
		if e.scriptOK {
			return halt()
		}
		return fault("refused")
	}
	nmc, err := nmClient.NewFromMorph(e.mc, e.nmHash, nmClient.AsAlphabet())
	if err != nil {
		panic(err)
	}
	st := c34State{e}
	e.nproc, err = nmproc.New(&nmproc.Params{Log: zap.NewNop(), PoolSize: 1, NetmapClient: nmc, EpochTimer: st, EpochState: st, AlphabetState: st,
		ContainerWrapper: e.cc, AlphabetSyncHandler: func(event.Event) {}, NotaryDepositHandler: func(event.Event) {}, NodeValidator: st})
	if err != nil {
		panic(err)
	}
	e.proc.VerifBlockingPool()
	e.nproc.VerifBlockingPool()
	mk := func(handlers bool) event.Listener {
		l, err := event.NewListener(event.ListenerParams{Logger: zap.NewNop(), Client: e.mc})
		if err != nil {
			panic(err)
		}
		l.EnableNotarySupport(util.Uint160{0xbb}, e.localAcc, func() (keys.PublicKeys, error) { return e.alpha, nil }, st)
		// what innerring.connectListenerWithProcessor does for every processor
		for _, p := range e.proc.ListenerNotaryParsers() {
			l.SetNotaryParser(p)
		}
		for _, p := range e.nproc.ListenerNotaryParsers() {
			l.SetNotaryParser(p)
		}
		if handlers {
			for _, h := range e.proc.ListenerNotaryHandlers() {
				l.RegisterNotaryHandler(h)
			}
			for _, h := range e.nproc.ListenerNotaryHandlers() {
				l.RegisterNotaryHandler(h)
			}
		}
		return l
	}
	e.lA, e.lB = mk(true), mk(false)
	return e
}

func (e *c34Env) hashOf(contract int) util.Uint160 {
	switch contract {
	case 0:
		return e.cnrHash
	case 1:
		return e.nmHash
	}
	return e.otherHash
}

// sign by user i (RFC6979, public-key verification script form)
func (e *c34Env) sig(i int, data []byte) ([]byte, []byte) {
	s, err := neofsecdsa.SignerRFC6979(e.users[i].PrivateKey).Sign(data)
	if err != nil {
		panic(err)
	}
	return s, e.users[i].PublicKey().Bytes()
}

// newContainer returns a fresh creatable container of user owner, its contract structure,
// the bytes the processor signs/hashes for the V2 form and the id
func (e *c34Env) newContainer(owner int) (container.Container, []byte, cid.ID) {
	var c container.Container
	c.Init()
	c.SetOwner(e.uids[owner])
	c.SetBasicACL(acl.PublicRWExtended)
	c.SetPlacementPolicy(simplePolicy(1, 0))
	c.SetAttribute("n", strconv.Itoa(e.g.n(1000000)))
	rt, err := cntClient.ContainerFromStruct(*toStruct(c))
	if err != nil {
		panic(err)
	}
	b := rt.Marshal()
	return c, b, cid.NewFromMarshalledContainer(b)
}

// args builds the arguments of a call with the given content; ok says whether the content
// must pass the handler's checks; newID/newOwner describe the container created by a
// preceding createV2 call (for ctEACLNew)
func (e *c34Env) args(content int, ok bool, newID cid.ID, newOwner int) ([]any, cid.ID, int) {
	g := e.g
	signer := func(owner int) int {
		if ok {
			return owner
		}
		return e.other(owner)
	}
	tok := []byte{}
	switch content {
	case ctCreate:
		owner := g.n(4)
		c, _, _ := e.newContainer(owner)
		b := c.Marshal()
		s, v := e.sig(signer(owner), b)
		return []any{b, s, v, tok, "", "", false}, cid.ID{}, owner
	case ctCreateV2:
		owner := g.n(4)
		c, b, id := e.newContainer(owner)
		s, v := e.sig(signer(owner), b)
		return []any{toStruct(c), s, v, tok}, id, owner
	case ctRemove:
		k := g.n(3)
		id := e.cids[k][:]
		s, v := e.sig(signer(e.owner[k]), id)
		return []any{id, s, v, tok}, cid.ID{}, 0
	case ctPutEACL, ctEACLNew:
		id, owner := newID, newOwner
		if content == ctPutEACL {
			k := []int{0, 2}[g.n(2)]
			id, owner = e.cids[k], e.owner[k]
		}
		tb := eacl.NewTableForContainer(id, []eacl.Record{eacl.ConstructRecord(eacl.ActionDeny, eacl.OperationGet, []eacl.Target{eacl.NewTargetByRole(eacl.RoleOthers)})})
		b := tb.Marshal()
		s, v := e.sig(signer(owner), b)
		return []any{b, s, v, tok}, cid.ID{}, 0
	case ctSetAttr:
		k := g.n(3)
		vu := time.Now().Unix() + 3600
		d := sdkclient.GetSignedSetContainerAttributeParameters(sdkclient.SetContainerAttributeParameters{ID: e.cids[k], Attribute: "Color", Value: "red", ValidUntil: time.Unix(vu, 0)})
		s, v := e.sig(signer(e.owner[k]), d)
		return []any{e.cids[k][:], "Color", "red", vu, s, v, tok}, cid.ID{}, 0
	case ctRemoveAttr:
		k := g.n(3)
		vu := time.Now().Unix() + 3600
		d := sdkclient.GetSignedRemoveContainerAttributeParameters(sdkclient.RemoveContainerAttributeParameters{ID: e.cids[k], Attribute: "Color", ValidUntil: time.Unix(vu, 0)})
		s, v := e.sig(signer(e.owner[k]), d)
		return []any{e.cids[k][:], "Color", vu, s, v, tok}, cid.ID{}, 0
	case ctAddNode:
		k, _ := keys.NewPrivateKey()
		n := &netmaprpc.NetmapNode2{Addresses: []string{"/dns4/n" + strconv.Itoa(g.n(9)) + "/tcp/8080"}, Attributes: map[string]string{"Price": "1"}, Key: k.PublicKey(), State: netmaprpc.NodeStateOnline}
		return []any{n}, cid.ID{}, 0
	case ctUpdateState:
		k, _ := keys.NewPrivateKey()
		return []any{int64(1 + g.n(2)*2), k.PublicKey().Bytes()}, cid.ID{}, 0
	}
	return []any{int64(g.n(100))}, cid.ID{}, 0
}

var methodOf = map[int]string{ctCreate: "create", ctCreateV2: "createV2", ctRemove: "remove", ctPutEACL: "putEACL", ctSetAttr: "setAttribute",
	ctRemoveAttr: "removeAttribute", ctAddNode: "addNode", ctUpdateState: "updateState", ctEACLNew: "putEACL"}

func contractOf(content int) int {
	if content == ctAddNode || content == ctUpdateState {
		return 1
	}
	return 0
}

var strangeMethods = []string{"unknownMethod", "newEpoch", "transfer", "put", "putNamed", "delete", "setEACL", "putReport", "update"}

func (e *c34Env) runCase(prev *payload.P2PNotaryRequest, prevCase *c34Case) (c34Case, *payload.P2PNotaryRequest) {
	g := e.g
	if prev != nil {
		// the same request once more
		c := *prevCase
		c.Seen = true
		c.Faults = []string{"seen"}
		e.present(&c, prev)
		return c, nil
	}
	c := c34Case{Kind: "c34", Alphabet: true, NWit: 3 + g.n(2), NAlpha: len(e.alpha), AlphaSig: true, NAttrs: 1, AttrNot: true, W0Empty: true, W1Alpha: true,
		W2Full: true, WLastOK: true, FBNAttrs: 3, FBNvbCnt: 1, Block: 90 + g.n(20), ScriptOK: true}
	c.Nvb = c.Block + 1 + g.n(3)
	cand := []string{"non_alphabet", "nwit", "fb_local", "nsigners", "alpha_signer", "nattrs", "attr_type", "nkeys", "w0", "w1", "wlast_invoc", "wlast_verif",
		"fb_nattrs", "fb_nvb0", "fb_nvb2", "expired_eq", "expired_lt", "bad_script", "no_calls",
		"unregistered_method", "other_contract", "content_invalid", "content_mismatch", "extra_call", "garbage_args"}
	if c.NWit == 4 {
		cand = append(cand, "w2_empty")
	}
	// the first call
	first := []int{ctCreate, ctCreateV2, ctCreateV2, ctCreateV2, ctRemove, ctPutEACL, ctSetAttr, ctRemoveAttr, ctAddNode, ctUpdateState}[g.n(10)]
	second := first == ctCreateV2 && g.p(1, 2)
	if first == ctCreate || first == ctPutEACL {
		cand = append(cand, "old_style_method") // not a fault: `put` / `setEACL` take the same arguments and are served by the same handlers
	}
	if first == ctCreateV2 {
		cand = append(cand, "second_foreign_contract", "second_foreign_method", "second_invalid", "second_foreign_contract", "second_foreign_method")
	}
	fs := faults{}
	nf := 1
	switch x := g.n(20); {
	case x < 6:
		nf = 0
	case x >= 17:
		nf = 2
	}
	for ; nf > 0; nf-- {
		fs[cand[g.n(len(cand))]] = true
	}
	for k := range fs {
		c.Faults = append(c.Faults, k)
	}
	sort.Strings(c.Faults)
	if c.Faults == nil {
		c.Faults = []string{}
	}
	if fs["second_foreign_contract"] || fs["second_foreign_method"] || fs["second_invalid"] {
		second = true
	}
	c.Alphabet = !fs["non_alphabet"]
	// calls
	type built struct {
		f    callFacts
		args []any
	}
	var calls []built
	f0 := callFacts{Contract: contractOf(first), Method: methodOf[first], Content: first, OK: !fs["content_invalid"] || first == ctUpdateState}
	if fs["content_mismatch"] {
		// arguments of another operation under this method
		f0.Content = []int{ctRemove, ctPutEACL, ctCreate, ctSetAttr, ctUpdateState, ctAddNode}[g.n(6)]
		for f0.Content == first {
			f0.Content = []int{ctRemove, ctPutEACL, ctCreate}[g.n(3)]
		}
	}
	if fs["garbage_args"] {
		f0.Content = ctGarbage
	}
	a0, newID, newOwner := e.args(f0.Content, f0.OK, cid.ID{}, 0)
	if f0.Content == ctGarbage {
		f0.OK = false
	}
	if fs["old_style_method"] {
		f0.Method = map[int]string{ctCreate: "put", ctPutEACL: "setEACL"}[first]
	}
	if fs["unregistered_method"] {
		f0.Method = strangeMethods[g.n(len(strangeMethods))]
	}
	if fs["other_contract"] {
		f0.Contract = []int{2, 1 - f0.Contract}[g.n(2)]
	}
	calls = append(calls, built{f0, a0})
	if second && f0.Content == ctCreateV2 {
		f1 := callFacts{Contract: 0, Method: "putEACL", Content: ctEACLNew, OK: !fs["second_invalid"]}
		a1, _, _ := e.args(ctEACLNew, f1.OK, newID, newOwner)
		if fs["second_foreign_contract"] {
			f1.Contract = 1 + g.n(2)
		}
		if fs["second_foreign_method"] {
			f1.Method = []string{"remove", "setEACL", "unknownMethod", "createV2", "putReport"}[g.n(5)]
		}
		calls = append(calls, built{f1, a1})
	}
	if fs["extra_call"] {
		ct := []int{ctRemove, ctPutEACL, ctUpdateState, ctSetAttr}[g.n(4)]
		a, _, _ := e.args(ct, true, cid.ID{}, 0)
		calls = append(calls, built{callFacts{Contract: contractOf(ct), Method: methodOf[ct], Content: ct, OK: true}, a})
	}
	if fs["no_calls"] {
		calls = nil
	}
	bw := io.NewBufBinWriter()
	for _, b := range calls {
		emit.AppCall(bw.BinWriter, e.hashOf(b.f.Contract), b.f.Method, callflag.All, b.args...)
		c.Calls = append(c.Calls, b.f)
	}
	if c.Calls == nil {
		c.Calls = []callFacts{}
	}
	if bw.Err != nil {
		panic(bw.Err)
	}
	script := bw.Bytes()
	if fs["bad_script"] {
		c.ScriptOK = false
		switch g.n(3) {
		case 0:
			script = append(script, byte(opcode.NOP))
		case 1:
			w := io.NewBufBinWriter()
			emit.Int(w.BinWriter, 4)
			emit.String(w.BinWriter, "remove")
			emit.Bytes(w.BinWriter, e.cnrHash.BytesBE())
			emit.Syscall(w.BinWriter, interopnames.SystemContractCallNative)
			script = append(script, w.Bytes()...)
		default:
			script = append([]byte{byte(opcode.PUSH1)}, script...)
		}
	}
	// structure
	alphaAcc := hash.Hash160(e.alphaVerif)
	dummy := append([]byte{byte(opcode.PUSHDATA1), 64}, make([]byte, 64)...)
	if fs["nwit"] {
		c.NWit = []int{2, 5, 1}[g.n(3)]
	}
	c.NSigners = c.NWit
	if fs["nsigners"] {
		c.NSigners = c.NWit + 1 - 2*g.n(2)
		if c.NSigners < 2 {
			c.NSigners = c.NWit + 1
		}
	}
	c.AlphaSig = !fs["alpha_signer"]
	signers := make([]transaction.Signer, c.NSigners)
	for i := range signers {
		signers[i].Account = util.Uint160{byte(i + 1)}
	}
	if len(signers) > 1 {
		if c.AlphaSig {
			signers[1].Account = alphaAcc
		} else {
			signers[1].Account = util.Uint160{0x66}
		}
	}
	wit := make([]transaction.Witness, c.NWit)
	if c.NWit > 1 {
		wit[1].VerificationScript = e.alphaVerif
		if g.p(1, 2) {
			wit[1].InvocationScript = dummy // already signed by someone / old style dummy
		}
		if fs["w1"] {
			c.W1Alpha = false
			wit[1].VerificationScript = append([]byte{byte(opcode.PUSH1)}, e.alphaVerif...)
		}
	}
	if fs["w0"] {
		c.W0Empty = false
		if g.p(1, 2) {
			wit[0].InvocationScript = []byte{1}
		} else {
			wit[0].VerificationScript = []byte{1}
		}
	}
	if c.NWit == 4 {
		c.W2Full = !fs["w2_empty"]
		if c.W2Full {
			wit[2].VerificationScript = []byte{byte(opcode.PUSH1)}
			if g.p(1, 2) {
				wit[2].InvocationScript = dummy
			}
		}
	}
	if c.NWit > 2 {
		last := &wit[c.NWit-1]
		if g.p(1, 2) {
			last.InvocationScript = dummy
		}
		if fs["wlast_invoc"] {
			c.WLastOK = false
			last.InvocationScript = append([]byte{byte(opcode.PUSHDATA1), 64, 1}, make([]byte, 63)...)
		}
		if fs["wlast_verif"] {
			c.WLastOK = false
			last.VerificationScript = []byte{byte(opcode.PUSH1)}
		}
	}
	// attributes
	c.NKeys = len(e.alpha)
	if c.NWit == 4 {
		c.NKeys++
	}
	if fs["nkeys"] {
		c.NKeys += 1 - 2*g.n(2)
	}
	var attrs []transaction.Attribute
	na := &transaction.Attribute{Type: transaction.NotaryAssistedT, Value: &transaction.NotaryAssisted{NKeys: uint8(c.NKeys)}}
	if fs["attr_type"] {
		c.AttrNot = false
		na = &transaction.Attribute{Type: transaction.HighPriority}
	}
	if fs["nattrs"] {
		c.NAttrs = 2 * g.n(2)
	}
	for i := 0; i < c.NAttrs; i++ {
		attrs = append(attrs, *na)
	}
	// fallback
	c.FBLocal = fs["fb_local"]
	fbSigners := []transaction.Signer{{Account: util.Uint160{0x01}}, {Account: util.Uint160{0x02}}}
	if c.FBLocal {
		fbSigners[1].Account = e.localAcc
	}
	if fs["expired_eq"] {
		c.Nvb = c.Block
	}
	if fs["expired_lt"] {
		c.Nvb = c.Block - 1 - g.n(3)
	}
	nvb := transaction.Attribute{Type: transaction.NotValidBeforeT, Value: &transaction.NotValidBefore{Height: uint32(c.Nvb)}}
	fbAttrs := []transaction.Attribute{{Type: transaction.NotaryAssistedT, Value: &transaction.NotaryAssisted{NKeys: 0}}, nvb,
		{Type: transaction.ConflictsT, Value: &transaction.Conflicts{Hash: util.Uint256{1}}}}
	if fs["fb_nattrs"] {
		if g.p(1, 2) {
			fbAttrs = fbAttrs[:2]
		} else {
			fbAttrs = append(fbAttrs, transaction.Attribute{Type: transaction.HighPriority})
		}
		c.FBNAttrs = len(fbAttrs)
	}
	if fs["fb_nvb0"] && len(fbAttrs) >= 3 {
		c.FBNvbCnt = 0
		fbAttrs[1] = transaction.Attribute{Type: transaction.HighPriority}
	}
	if fs["fb_nvb2"] && len(fbAttrs) >= 3 && !fs["fb_nvb0"] {
		c.FBNvbCnt = 2
		fbAttrs[2] = nvb
	}
	nr := &payload.P2PNotaryRequest{
		MainTransaction: &transaction.Transaction{Nonce: uint32(g.next()), ValidUntilBlock: 1000, Signers: signers, Scripts: wit, Attributes: attrs, Script: script},
		FallbackTransaction: &transaction.Transaction{Nonce: uint32(g.next()), ValidUntilBlock: 1000, Signers: fbSigners, Attributes: fbAttrs,
			Script: []byte{byte(opcode.RET)}, Scripts: []transaction.Witness{{}, {}}},
	}
	// chain / validator verdicts needed by the addNode handler
	e.scriptOK, e.nodeOK = true, true
	for _, cl := range c.Calls {
		if cl.Content == ctAddNode && !cl.OK {
			if g.p(1, 2) {
				e.scriptOK = false
			} else {
				e.nodeOK = false
			}
		}
	}
	e.present(&c, nr)
	return c, nr
}

func (e *c34Env) present(c *c34Case, nr *payload.P2PNotaryRequest) {
	e.alphabet = c.Alphabet
	e.block = uint32(c.Block)
	e.epoch = 7
	e.now = time.Unix(t0+1000, 0)
	e.n3ok = false
	e.proc.VerifSetFlags(false, false)
	c.NPrep, c.Class = event.VerifPrepareClass(e.lB, nr)
	e.approved = 0
	e.ch.take()
	event.VerifHandleNotary(e.lA, nr)
	e.proc.VerifDrain()
	e.nproc.VerifDrain()
	c.Signed = e.approved > 0
}

func c34Main() {
	seed, _ := strconv.ParseUint(os.Getenv("VERIF_SEED"), 10, 64)
	n := 600
	if os.Getenv("VERIF_TIER") == "thorough" {
		n = 8000
	}
	e := newC34Env(seed*104729 + 34)
	enc := json.NewEncoder(os.Stdout)
	var reg [][2]any
	for _, p := range append(e.proc.ListenerNotaryParsers(), e.nproc.ListenerNotaryParsers()...) {
		ci := 2
		if p.ScriptHash() == e.cnrHash {
			ci = 0
		} else if p.ScriptHash() == e.nmHash {
			ci = 1
		}
		reg = append(reg, [2]any{ci, p.RequestType().String()})
	}
	_ = enc.Encode(map[string]any{"kind": "consts34", "registered": reg, "create_v2": fschaincontracts.CreateContainerV2Method,
		"put_eacl": fschaincontracts.PutContainerEACLMethod, "n_alpha": len(e.alpha)})
	var prev *payload.P2PNotaryRequest
	var prevCase *c34Case
	for i := 0; i < n; i++ {
		if prev != nil && prevCase.Class == 0 && e.g.p(1, 4) {
			c, _ := e.runCase(prev, prevCase)
			_ = enc.Encode(c)
			prev = nil
			continue
		}
		c, nr := e.runCase(nil, nil)
		_ = enc.Encode(c)
		cc := c
		prev, prevCase = nr, &cc
	}
}

var _ = big.NewInt
