//go:build verif

package main

import (
	"bytes"
	"fmt"
	"io"
	"math"
	"os"

	objectwire "github.com/nspcc-dev/neofs-node/internal/object"
	"github.com/nspcc-dev/neofs-node/pkg/local_object_storage/blobstor/common"
	"github.com/nspcc-dev/neofs-node/pkg/local_object_storage/blobstor/fstree"
)

// ---- part A: PayloadRange.Resolve as a pure function -----------------------------

type resCase struct {
	Kind string `json:"kind"`
	Mode int    `json:"mode"`
	A    string `json:"a"` // decimal uint64 (JSON numbers lose precision)
	B    string `json:"b"`
	Len  string `json:"len"`
	St   int    `json:"st"`
	Off  string `json:"off"`
	Ln   string `json:"ln"`
}

func u(s uint64) string { return fmt.Sprintf("%d", s) }

func resolveOne(mode int, a, b, ln uint64) resCase {
	r := common.PayloadRange{First: a, Second: b, Mode: common.PayloadRangeMode(mode)}
	off, l, err := r.Resolve(ln)
	return resCase{Kind: "res", Mode: mode, A: u(a), B: u(b), Len: u(ln), St: classify(err), Off: u(off), Ln: u(l)}
}

func c11Resolve(g *rng) {
	L := uint64(14)
	if thorough() {
		L = 64
	}
	for ln := uint64(0); ln <= L; ln++ {
		emit(resolveOne(0, 0, 0, ln))
		emit(resolveOne(5, 0, 0, ln))
		for mode := 1; mode <= 4; mode++ {
			for a := uint64(0); a <= L+2; a++ {
				if mode >= 3 {
					emit(resolveOne(mode, a, 0, ln))
					continue
				}
				for b := uint64(0); b <= L+2; b++ {
					emit(resolveOne(mode, a, b, ln))
				}
			}
		}
	}
	// boundary-directed values around 2^63 and 2^64
	lens := []uint64{0, 1, 2, 64, 1000, 1 << 62, 1<<63 - 1, 1 << 63, 1<<63 + 1, math.MaxUint64 - 1, math.MaxUint64}
	for _, ln := range lens {
		vals := []uint64{0, 1, 2, ln - 1, ln, ln + 1, ln / 2, 1<<63 - 1, 1 << 63, 1<<63 + 1, math.MaxUint64 - 1, math.MaxUint64,
			math.MaxUint64 - ln, math.MaxUint64 - ln + 1, math.MaxUint64 - ln + 2}
		for mode := 1; mode <= 4; mode++ {
			for _, a := range vals {
				for _, b := range vals {
					emit(resolveOne(mode, a, b, ln))
				}
			}
		}
	}
	n := 1000
	if thorough() {
		n = 40000
	}
	for i := 0; i < n; i++ {
		pick := func() uint64 {
			switch g.intn(4) {
			case 0:
				return uint64(g.intn(100))
			case 1:
				return 1<<63 - 50 + uint64(g.intn(100))
			case 2:
				return math.MaxUint64 - uint64(g.intn(100))
			default:
				return g.next()
			}
		}
		emit(resolveOne(1+g.intn(4), pick(), pick(), pick()))
	}
}

// ---- part B: range streams over real files ---------------------------------------

type strCase struct {
	Kind string  `json:"kind"`
	Fmt  string  `json:"fmt"` // plain | combined | zplain | zcombined
	Spec objSpec `json:"spec"`
	Pre  []int   `json:"pre"`  // data lengths of the records before the target in the combined file
	Post []int   `json:"post"` // ... after it
	ZLen int     `json:"zlen"` // length of the compressed binary (z formats)
	// observed buffering (through the in-package accessor): bytes of the object in the
	// head buffer and whether a stream follows
	Split     int  `json:"split"`
	HasStream bool `json:"has_stream"`

	API  string `json:"api"` // grs | rpr | rop
	RH   bool   `json:"rh"`
	Icpt bool   `json:"icpt"`
	Cap  int    `json:"cap"` // length of the head buffer handed to the call
	Mode int    `json:"mode"`
	A    uint64 `json:"a"`
	B    uint64 `json:"b"`

	St     int    `json:"st"`
	N      int    `json:"n"`      // number of bytes delivered
	X      int    `json:"x"`      // index of the delivered bytes in the payload (raw: in the object), -1 = not a slice of it
	Raw    bool   `json:"raw"`    // ReadObjectParts without partial range: head buffer + stream = object binary
	PldLen uint64 `json:"pldlen"` // grs only
	HdrOK  bool   `json:"hdr_ok"` // rh: returned header decodes to the stored header; icpt: intercepted bytes are the header field
}

type target struct {
	c    strCase
	t    *fstree.FSTree
	obj  []byte
	pld  []byte
	hdr  []byte // header field value
	dir  string
	addr int
}

func setupTarget(dir string, fmtName string, spec objSpec, pre, post []int) *target {
	t := newTree(dir, 1)
	tg := &target{t: t, dir: dir}
	tg.obj = spec.bytes()
	tg.pld = spec.payload()
	np := spec.nonPayload()
	// header field value = after f1,f2 and tag+len of f3
	tg.hdr = headerValue(np)
	stored := tg.obj
	c := strCase{Kind: "str", Fmt: fmtName, Spec: spec, Pre: pre, Post: post}
	if fmtName == "zplain" || fmtName == "zcombined" {
		stored = zcompress(tg.obj)
		c.ZLen = len(stored)
	}
	tg.addr = len(pre)
	switch fmtName {
	case "plain", "zplain":
		plant(t, addrN(tg.addr), stored)
	default:
		var file []byte
		for i, l := range pre {
			file = append(file, combinedRecord(idN(i), filler(i, l))...)
		}
		file = append(file, combinedRecord(idN(tg.addr), stored)...)
		for i, l := range post {
			file = append(file, combinedRecord(idN(len(pre)+1+i), filler(len(pre)+1+i, l))...)
		}
		plant(t, addrN(tg.addr), file)
	}
	func() {
		defer func() {
			if recover() != nil {
				c.Split = -1
			}
		}()
		n, hs, err := t.VerifInitial(addrN(tg.addr))
		if err != nil {
			c.Split = -2
			return
		}
		c.Split, c.HasStream = n, hs
	}()
	tg.c = c
	return tg
}

func headerValue(np []byte) []byte {
	// np = f1 f2 f3 ; walk LEN fields
	off := 0
	for off < len(np) {
		num := int(np[off] >> 3)
		off++
		l, n := uvarint(np[off:])
		off += n
		if num == 3 {
			return np[off : off+int(l)]
		}
		off += int(l)
	}
	return nil
}

func uvarint(b []byte) (uint64, int) {
	var x uint64
	var s uint
	for i, c := range b {
		if c < 0x80 {
			return x | uint64(c)<<s, i + 1
		}
		x |= uint64(c&0x7f) << s
		s += 7
	}
	return 0, 0
}

func (tg *target) run(g *rng, api string, rh, icpt bool, mode int, a, b uint64) strCase {
	c := tg.c
	c.API, c.RH, c.Icpt, c.Mode, c.A, c.B = api, rh, icpt, mode, a, b
	addr := addrN(tg.addr)
	rng := common.PayloadRange{First: a, Second: b, Mode: common.PayloadRangeMode(mode)}
	var icptGot []byte
	var icptFn func([]byte) error
	if icpt {
		icptFn = func(h []byte) error { icptGot = bytes.Clone(h); return nil }
	}
	func() {
		defer func() {
			if r := recover(); r != nil {
				c.St = stPanic
			}
		}()
		var stream io.ReadCloser
		var err error
		c.HdrOK = true
		switch api {
		case "grs":
			c.Cap = 2 * objectwire.NonPayloadFieldsBufferLength
			var pl uint64
			hdr, pl, s, e := tg.t.GetRangeStream(addr, rng, rh)
			stream, err, c.PldLen = s, e, pl
			if e == nil && rh {
				c.HdrOK = hdr != nil && hdr.PayloadSize() == tg.c.Spec.HLen && len(hdr.Payload()) == 0 &&
					len(hdr.Attributes()) == 1 && len(hdr.Attributes()[0].Key()) == tg.c.Spec.AttrK
			}
		case "rpr":
			buf := make([]byte, 2*objectwire.NonPayloadFieldsBufferLength+g.intn(3)*1000)
			c.Cap = len(buf)
			stream, err = tg.t.ReadPayloadRange(addr, a, b, buf, icptFn)
		case "rop":
			buf := make([]byte, 2*objectwire.NonPayloadFieldsBufferLength+g.intn(3)*1000)
			c.Cap = len(buf)
			n, s, e := tg.t.ReadObjectParts(buf, addr, rng, icptFn)
			stream, err = s, e
			if e == nil && !(rng.IsSet() && !rng.IsFull()) {
				c.Raw = true
				rest, e2 := readAllChunked(s, g)
				_ = s.Close()
				if e2 != nil {
					c.St = stOther
					return
				}
				got := append(bytes.Clone(buf[:n]), rest...)
				c.N = len(got)
				c.X = -1
				if bytes.Equal(got, tg.obj) {
					c.X = 0
				}
				if icpt {
					c.HdrOK = bytes.Equal(icptGot, tg.hdr)
				}
				return
			}
		}
		c.St = classify(err)
		if err != nil {
			return
		}
		got, e2 := readAllChunked(stream, g)
		_ = stream.Close()
		if e2 != nil {
			c.St = stOther
			return
		}
		c.N = len(got)
		c.X = locate(tg.pld, got)
		if icpt {
			c.HdrOK = bytes.Equal(icptGot, tg.hdr)
		}
	}()
	return c
}

func (tg *target) close() { _ = tg.t.Close(); _ = os.RemoveAll(tg.dir) }

// interesting (a,b) values for a payload of length plen with q payload bytes buffered
func rangeVals(plen, q int) []uint64 {
	m := map[uint64]bool{}
	add := func(v int) {
		if v >= 0 {
			m[uint64(v)] = true
		}
	}
	for _, v := range []int{0, 1, q - 1, q, q + 1, plen - 1, plen, plen + 1, plen - q} {
		add(v)
	}
	var r []uint64
	for v := range m {
		r = append(r, v)
	}
	// deterministic order
	for i := range r {
		for j := i + 1; j < len(r); j++ {
			if r[j] < r[i] {
				r[i], r[j] = r[j], r[i]
			}
		}
	}
	return r
}

func c11Streams(g *rng) {
	base, err := os.MkdirTemp("", "verif-c11-")
	must(err)
	defer os.RemoveAll(base)
	seq := 0
	newDir := func() string { seq++; return fmt.Sprintf("%s/t%d", base, seq) }
	npfbl := objectwire.NonPayloadFieldsBufferLength

	runAll := func(tg *target, exhaustiveTo int, apis []string) {
		plen := tg.c.Spec.PLen
		npLen := len(tg.c.Spec.nonPayload())
		q := tg.c.Split - npLen - 1 - len(appendVarint(uint64(plen)))
		if q < 0 {
			q = 0
		}
		var vals []uint64
		if exhaustiveTo > 0 {
			for v := 0; v <= exhaustiveTo; v++ {
				vals = append(vals, uint64(v))
			}
		} else {
			vals = rangeVals(plen, q)
		}
		for _, api := range apis {
			modes := []int{0, 1, 2, 3, 4}
			if api == "rpr" {
				modes = []int{1}
			}
			for _, mode := range modes {
				for _, a := range vals {
					bs := vals
					if mode == 0 || mode >= 3 {
						bs = []uint64{0}
					} else if exhaustiveTo == 0 {
						// second values that put the range end next to the buffered part / payload end
						bs = nil
						seen := map[uint64]bool{}
						for _, v := range []int{0, 1, q - int(a), q - int(a) + 1, plen - int(a), plen - int(a) + 1, plen} {
							if v >= 0 && !seen[uint64(v)] {
								seen[uint64(v)] = true
								bs = append(bs, uint64(v))
							}
						}
					}
					for _, b := range bs {
						if mode == 0 && a != 0 {
							continue
						}
						rh := api == "grs" && g.intn(3) == 0
						icpt := api != "grs" && g.intn(2) == 0
						emit(tg.run(g, api, rh, icpt, mode, a, b))
					}
				}
			}
		}
		// a few huge values
		for _, mode := range []int{1, 2, 3, 4} {
			for _, a := range []uint64{1<<63 - 1, 1 << 63, math.MaxUint64} {
				emit(tg.run(g, "grs", false, false, mode, a, 1))
				emit(tg.run(g, "grs", false, false, mode, 1, a))
			}
		}
		tg.close()
	}

	allAPIs := []string{"grs", "rpr", "rop"}
	// 1. small payloads, exhaustive (a,b)
	maxP, maxV := 4, 6
	if thorough() {
		maxP, maxV = 8, 10
	}
	for plen := 0; plen <= maxP; plen++ {
		spec := objSpec{SigK: 33, AttrK: 3, PLen: plen, Seed: plen, HLen: uint64(plen), PF: plen > 0}
		runAll(setupTarget(newDir(), "plain", spec, nil, nil), maxV, allAPIs)
		runAll(setupTarget(newDir(), "combined", spec, []int{10}, []int{7}), maxV, []string{"grs"})
	}
	// explicit empty payload field
	runAll(setupTarget(newDir(), "plain", objSpec{SigK: 33, AttrK: 3, PF: true}, nil, nil), 3, allAPIs)

	// 2. the head buffer ends around the payload tag / inside the length varint
	plens := []int{1, 200, 20000}
	deltas := []int{-4, -3, -2, -1, 0}
	if thorough() {
		plens = []int{1, 100, 127, 128, 200, 16383, 16384, 20000, 70000, 100000}
		deltas = []int{-40, -6, -5, -4, -3, -2, -1, 0, 1, 2}
	}
	for _, plen := range plens {
		for _, d := range deltas {
			spec, ok := specWithNP(npfbl+d, plen, plen+d+47)
			if !ok {
				continue
			}
			runAll(setupTarget(newDir(), "plain", spec, nil, nil), 0, allAPIs)
			if d <= -3 && (plen == 200 || plen == 20000) {
				runAll(setupTarget(newDir(), "combined", spec, []int{5, 300}, []int{9}), 0, []string{"grs", "rop"})
			}
		}
	}
	// 3. ordinary objects of many sizes in every format
	n := 10
	if thorough() {
		n = 60
	}
	for i := 0; i < n; i++ {
		var plen int
		switch g.intn(4) {
		case 0:
			plen = g.intn(300)
		case 1:
			plen = npfbl - 400 + g.intn(800)
		case 2:
			plen = g.intn(30000)
			if thorough() || i < 2 {
				plen = g.intn(100000)
			}
		default:
			plen = 20000 + g.intn(2000)
		}
		spec := objSpec{SigK: 33 + g.intn(40), AttrK: 1 + g.intn(300), PLen: plen, Seed: g.intn(256), HLen: uint64(plen), PF: plen > 0}
		var pre, post []int
		for k := g.intn(4); k > 0; k-- {
			pre = append(pre, 1+g.intn(30000))
		}
		for k := g.intn(3); k > 0; k-- {
			post = append(post, 1+g.intn(3000))
		}
		f := []string{"plain", "combined", "zplain", "zcombined"}[i%4]
		apis := allAPIs
		runAll(setupTarget(newDir(), f, spec, pre, post), 0, apis)
	}
	// 3b. compressed binaries that are short on disk but long once decompressed
	for _, f := range []string{"zplain", "zcombined"} {
		spec := objSpec{SigK: 33, AttrK: 20, PLen: 52158, Seed: 113, HLen: 52158, PF: true}
		runAll(setupTarget(newDir(), f, spec, []int{300}, []int{20}), 0, allAPIs)
	}
	// 4. combined record of exactly / around the buffer length, followed by other records
	for _, d := range []int{-1, 0, 1} {
		for _, plen := range []int{300, 15000} {
			// object binary length = npfbl + d
			np := npfbl + d - plen - 1 - len(appendVarint(uint64(plen)))
			spec, ok := specWithNP(np, plen, 3)
			if !ok {
				continue
			}
			runAll(setupTarget(newDir(), "combined", spec, []int{50}, []int{40, 60}), 0, []string{"grs", "rop"})
			runAll(setupTarget(newDir(), "combined", spec, nil, nil), 0, []string{"grs"})
		}
	}
	// 5. combined file whose records make the scan window slide so that the target's
	// record prefix sits at the very end of the refilled head buffer
	{
		spec := objSpec{SigK: 40, AttrK: 10, PLen: 30000, Seed: 5, HLen: 30000, PF: true}
		runAll(setupTarget(newDir(), "combined", spec, []int{npfbl - 37 - 38, npfbl - 1 - 38}, []int{11}), 0, []string{"grs", "rop"})
		runAll(setupTarget(newDir(), "combined", spec, []int{npfbl - 20 - 38, npfbl - 10 - 38, 100}, nil), 0, []string{"grs"})
	}
}

func appendVarint(v uint64) []byte {
	var b []byte
	for v >= 0x80 {
		b = append(b, byte(v)|0x80)
		v >>= 7
	}
	return append(b, byte(v))
}

func c11(args []string) {
	g := newRng()
	what := "all"
	if len(args) > 0 {
		what = args[0]
	}
	if what == "all" || what == "resolve" {
		c11Resolve(g)
	}
	if what == "all" || what == "streams" {
		c11Streams(g)
	}
}
