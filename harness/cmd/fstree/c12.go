//go:build verif

package main

import (
	"encoding/json"
	"io/fs"
	"os"
	"path/filepath"
	"sort"
	"strings"
	"time"

	"github.com/nspcc-dev/neofs-node/pkg/local_object_storage/blobstor/common"
	"github.com/nspcc-dev/neofs-node/pkg/local_object_storage/blobstor/fstree"
	oid "github.com/nspcc-dev/neofs-sdk-go/object/id"
)

// C12: `c12child <scenario.json> <dir>` performs the set-up operations of a scenario, prints
// a marker and then the operation that the parent interrupts with
// `strace -e inject=<syscall>:signal=SIGKILL:when=<n>` (GOMAXPROCS=1, main goroutine locked to
// the main thread by c13.go's init). `c12read <scenario.json> <dir>` reopens the tree and
// reports what is there.

func init() {
	extraCmds["c12child"] = c12child
	extraCmds["c12read"] = c12read
	extraCmds["c12zlen"] = func([]string) {
		var specs []c10Spec
		must(json.NewDecoder(os.Stdin).Decode(&specs))
		var zl []int
		for _, sp := range specs {
			zl = append(zl, len(mkObj(sp).z))
		}
		emit(map[string]any{"zlen": zl})
	}
}

type c12scn struct {
	Cfg   c10cfg    `json:"cfg"`
	Objs  []c10Spec `json:"objs"`
	Pre   [][]any   `json:"pre"`   // ["P", items] | ["B", items] | ["D", a]
	Kind  int       `json:"kind"`  // 0 Put, 1 PutBatch, 2 Delete
	Items [][3]int  `json:"items"` // (addr, obj, z)
	NAddr int       `json:"naddr"`
	Timer bool      `json:"timer"` // the combined batch is synced by its timer (other thread)
}

func c12tree(dir string, cfg *c10cfg, timer bool) *fstree.FSTree {
	iv := time.Hour // sync happens in the caller (limits), never in a timer thread
	if timer {
		iv = 3 * time.Millisecond
	}
	o := []fstree.Option{fstree.WithPath(dir), fstree.WithDepth(uint64(cfg.Depth)), fstree.WithNoSync(false),
		fstree.WithCombinedCountLimit(cfg.CLimit), fstree.WithCombinedSizeLimit(cfg.SLimit),
		fstree.WithCombinedSizeThreshold(cfg.Threshold), fstree.WithCombinedWriteInterval(iv)}
	t := fstree.New(o...)
	must(t.Open(false))
	must(t.Init(common.ID{}))
	if cfg.Generic {
		t.VerifForceGenericWriter()
	}
	return t
}

func loadScn(path string) c12scn {
	var s c12scn
	b, err := os.ReadFile(path)
	must(err)
	must(json.Unmarshal(b, &s))
	return s
}

func c12child(args []string) {
	s := loadScn(args[0])
	dir := args[1]
	must(os.MkdirAll(dir, 0o755))
	t := c12tree(dir, &s.Cfg, s.Timer)
	var objs []*c10obj
	for _, sp := range s.Objs {
		objs = append(objs, mkObj(sp))
	}
	form := func(it [3]int) []byte {
		if it[2] > 0 {
			return objs[it[1]].z
		}
		return objs[it[1]].raw
	}
	do := func(kind string, items [][3]int) int {
		switch kind {
		case "P":
			for _, it := range items {
				if t.Put(addrN(it[0]), form(it)) != nil {
					return 3
				}
			}
		case "B":
			m := map[oid.Address][]byte{}
			for _, it := range items {
				m[addrN(it[0])] = form(it)
			}
			if t.PutBatch(m) != nil {
				return 3
			}
		case "D":
			return status(t.Delete(addrN(items[0][0])))
		}
		return 0
	}
	for _, p := range s.Pre {
		k := p[0].(string)
		var items [][3]int
		if k == "D" {
			items = [][3]int{{toInt(p[1]), 0, 0}}
		} else {
			items = toItems(p[1])
		}
		if do(k, items) != 0 {
			must(os.ErrInvalid)
		}
	}
	emit(map[string]any{"marker": "ready"})
	r := do([]string{"P", "B", "D"}[s.Kind], s.Items)
	emit(map[string]any{"marker": "done", "r": r})
	os.Exit(0)
}

func c12read(args []string) {
	s := loadScn(args[0])
	dir := args[1]
	// temporary files left behind
	tmp := 0
	_ = filepath.WalkDir(dir, func(p string, d fs.DirEntry, err error) error {
		if err == nil && !d.IsDir() && strings.Contains(d.Name(), "#") {
			tmp++
		}
		return nil
	})
	t := c12tree(dir, &s.Cfg, false)
	var objs []*c10obj
	for _, sp := range s.Objs {
		objs = append(objs, mkObj(sp))
	}
	r := &c10run{t: t, objs: objs, g: newRng(), seq: &c10seq{}}
	read := func() ([][2]int, [][2]int, int) {
		var obs [][2]int
		for a := 0; a < s.NAddr; a++ {
			d, err := t.GetBytes(addrN(a))
			st, ob := status(err), 0
			if err == nil {
				ob = r.match(-1, func(o *c10obj) bool { return string(o.raw) == string(d) })
			}
			obs = append(obs, [2]int{st, ob})
		}
		var it [][2]int
		ist := status(t.Iterate(func(addr oid.Address, data []byte) error {
			it = append(it, [2]int{addrIndex(addr), r.match(-1, func(o *c10obj) bool { return string(o.raw) == string(data) })})
			return nil
		}, nil))
		sort.Slice(it, func(i, j int) bool { return it[i][0] < it[j][0] })
		if it == nil {
			it = [][2]int{}
		}
		return obs, it, ist
	}
	obs, it, ist := read()
	must(t.CleanUpTmp())
	tmpAfter := 0
	_ = filepath.WalkDir(dir, func(p string, d fs.DirEntry, err error) error {
		if err == nil && !d.IsDir() && strings.Contains(d.Name(), "#") {
			tmpAfter++
		}
		return nil
	})
	obs2, it2, ist2 := read()
	emit(map[string]any{"obs": obs, "iter": it, "iter_st": ist, "tmp": tmp, "tmp_after": tmpAfter,
		"same_after_cleanup": jsonEq(obs, obs2) && jsonEq(it, it2) && ist == ist2})
}

func jsonEq(a, b any) bool {
	x, _ := json.Marshal(a)
	y, _ := json.Marshal(b)
	return string(x) == string(y)
}
