//go:build verif

package main

import (
	"bytes"
	"encoding/binary"
	"encoding/json"
	"errors"
	"fmt"
	"io"
	"os"
	"path/filepath"
	"strconv"

	"github.com/klauspost/compress/zstd"
	objectwire "github.com/nspcc-dev/neofs-node/internal/object"
	"github.com/nspcc-dev/neofs-node/pkg/local_object_storage/blobstor/common"
	"github.com/nspcc-dev/neofs-node/pkg/local_object_storage/blobstor/fstree"
	apistatus "github.com/nspcc-dev/neofs-sdk-go/client/status"
	cid "github.com/nspcc-dev/neofs-sdk-go/container/id"
	oid "github.com/nspcc-dev/neofs-sdk-go/object/id"
	protoobject "github.com/nspcc-dev/neofs-sdk-go/proto/object"
	"google.golang.org/protobuf/encoding/protowire"
)

// ---- PRNG: every random choice comes from here --------------------------------

type rng struct{ s uint64 }

func newRng() *rng {
	seed, _ := strconv.ParseUint(os.Getenv("VERIF_SEED"), 10, 64)
	return &rng{s: seed*0x9E3779B97F4A7C15 + 0x1234567}
}

func (r *rng) next() uint64 {
	r.s += 0x9E3779B97F4A7C15
	z := r.s
	z = (z ^ (z >> 30)) * 0xBF58476D1CE4E5B9
	z = (z ^ (z >> 27)) * 0x94D049BB133111EB
	return z ^ (z >> 31)
}

func (r *rng) intn(n int) int { return int(r.next() % uint64(n)) }

func thorough() bool { return os.Getenv("VERIF_TIER") == "thorough" }

var out = json.NewEncoder(os.Stdout)

func emit(v any) { _ = out.Encode(v) }

// ---- consts ------------------------------------------------------------------

func consts() {
	emit(map[string]any{
		"npfbl":             objectwire.NonPayloadFieldsBufferLength,
		"combined_prefix":   fstree.VerifCombinedPrefix,
		"combined_id_off":   fstree.VerifCombinedIDOff,
		"combined_len_off":  fstree.VerifCombinedLengthOff,
		"combined_data_off": fstree.VerifCombinedDataOff,
		"dir_name_len":      fstree.VerifDirNameLen,
		"oid_size":          oid.Size,
		"f_obj_id":          protoobject.FieldObjectID,
		"f_obj_sig":         protoobject.FieldObjectSignature,
		"f_obj_hdr":         protoobject.FieldObjectHeader,
		"f_obj_payload":     protoobject.FieldObjectPayload,
		"f_hdr_pldlen":      protoobject.FieldHeaderPayloadLength,
		"f_hdr_type":        protoobject.FieldHeaderObjectType,
		"f_hdr_split":       protoobject.FieldHeaderSplit,
		"f_split_parent":    protoobject.FieldHeaderSplitParent,
		"f_split_prev":      protoobject.FieldHeaderSplitPrevious,
		"f_split_parsig":    protoobject.FieldHeaderSplitParentSignature,
		"f_split_parhdr":    protoobject.FieldHeaderSplitParentHeader,
		"mode_none":         common.PayloadRangeModeNone,
		"mode_offlen":       common.PayloadRangeModeOffsetLength,
		"mode_bounds":       common.PayloadRangeModeBounds,
		"mode_from":         common.PayloadRangeModeFrom,
		"mode_suffix":       common.PayloadRangeModeSuffix,
		"max_varint_len":    binary.MaxVarintLen64,
	})
}

// ---- wire builders (mirrored by coq/FSTree/ObjGen.v) ----------------------------

func lenField(num int, v []byte) []byte {
	b := protowire.AppendTag(nil, protowire.Number(num), protowire.BytesType)
	b = protowire.AppendVarint(b, uint64(len(v)))
	return append(b, v...)
}

func varintField(num int, v uint64) []byte {
	b := protowire.AppendTag(nil, protowire.Number(num), protowire.VarintType)
	return protowire.AppendVarint(b, v)
}

func cat(bs ...[]byte) []byte {
	var r []byte
	for _, b := range bs {
		r = append(r, b...)
	}
	return r
}

// objSpec describes a synthetic, protobuf-valid object binary compactly; the Coq
// side rebuilds the same bytes from the same numbers (FSTree/ObjGen.v: mk_obj).
type objSpec struct {
	SigK  int    `json:"sigk"`  // length of the signature key bytes
	AttrK int    `json:"attrk"` // length of the attribute key
	PLen  int    `json:"plen"`  // payload length
	Seed  int    `json:"seed"`  // payload pattern seed
	HLen  uint64 `json:"hlen"`  // payload length written into the header
	PF    bool   `json:"pf"`    // payload field present
}

func pattern(seed, n int) []byte {
	p := make([]byte, n)
	for i := range p {
		p[i] = byte((i*7 + (i/256)*13 + seed) % 256)
	}
	return p
}

func (s objSpec) nonPayload() []byte {
	f1 := lenField(1, lenField(1, bytes.Repeat([]byte{7}, 32)))
	f2 := lenField(2, cat(lenField(1, bytes.Repeat([]byte{9}, s.SigK)), lenField(2, bytes.Repeat([]byte{5}, 64))))
	attr := cat(lenField(1, bytes.Repeat([]byte{'a'}, s.AttrK)), lenField(2, []byte("v")))
	f3 := lenField(3, cat(varintField(5, s.HLen), lenField(10, attr)))
	return cat(f1, f2, f3)
}

func (s objSpec) payload() []byte { return pattern(s.Seed, s.PLen) }

func (s objSpec) bytes() []byte {
	b := s.nonPayload()
	if s.PF {
		b = append(b, lenField(4, s.payload())...)
	}
	return b
}

// specWithNP finds SigK/AttrK so that the non-payload part has exactly np bytes.
func specWithNP(np, plen, seed int) (objSpec, bool) {
	for sigk := 1; sigk < 400; sigk++ {
		s := objSpec{SigK: sigk, AttrK: 1, PLen: plen, Seed: seed, HLen: uint64(plen), PF: plen > 0}
		base := len(s.nonPayload())
		if np < base {
			return objSpec{}, false
		}
		for k := np - base + 1; k >= np-base-14; k-- {
			if k < 1 {
				continue
			}
			s.AttrK = k
			if len(s.nonPayload()) == np {
				return s, true
			}
		}
	}
	return objSpec{}, false
}

// ---- storage set-up ------------------------------------------------------------

func idN(n int) oid.ID {
	var id oid.ID
	for i := range id {
		id[i] = byte(n + 1)
	}
	return id
}

func cnrN(n int) cid.ID {
	var c cid.ID
	for i := range c {
		c[i] = byte(0xC0 + n)
	}
	return c
}

func addrN(n int) oid.Address { return oid.NewAddress(cnrN(0), idN(n)) }

func newTree(dir string, depth uint64, opts ...fstree.Option) *fstree.FSTree {
	o := append([]fstree.Option{fstree.WithPath(dir), fstree.WithDepth(depth), fstree.WithNoSync(true)}, opts...)
	t := fstree.New(o...)
	must(t.Open(false))
	must(t.Init(common.ID{}))
	return t
}

func must(err error) {
	if err != nil {
		fmt.Fprintln(os.Stderr, "harness error:", err)
		os.Exit(3)
	}
}

func plant(t *fstree.FSTree, addr oid.Address, data []byte) {
	p := t.VerifTreePath(addr)
	must(os.MkdirAll(filepath.Dir(p), 0o755))
	_ = os.Remove(p)
	must(os.WriteFile(p, data, 0o644))
}

func combinedRecord(id oid.ID, data []byte) []byte {
	pref := make([]byte, fstree.VerifCombinedDataOff)
	pref[0] = fstree.VerifCombinedPrefix
	copy(pref[fstree.VerifCombinedIDOff:], id[:])
	binary.BigEndian.PutUint32(pref[fstree.VerifCombinedLengthOff:], uint32(len(data)))
	return append(pref, data...)
}

func filler(k, n int) []byte { return bytes.Repeat([]byte{byte(k%200 + 1)}, n) }

var zenc, _ = zstd.NewWriter(nil)

func zcompress(b []byte) []byte { return zenc.EncodeAll(b, nil) }

// ---- observables -----------------------------------------------------------------

const (
	stOK = iota
	stOutOfRange
	stNotFound
	stOther
	stPanic
)

func classify(err error) int {
	switch {
	case err == nil:
		return stOK
	case errors.Is(err, apistatus.ErrObjectOutOfRange):
		return stOutOfRange
	case errors.Is(err, apistatus.ErrObjectNotFound):
		return stNotFound
	default:
		return stOther
	}
}

// readAllChunked drains r with PRNG-chosen read sizes.
func readAllChunked(r io.Reader, g *rng) ([]byte, error) {
	var res []byte
	for {
		sz := 1 + g.intn(9)
		switch g.intn(4) {
		case 0:
			sz = 1 + g.intn(70000)
		case 1:
			sz = 1 + g.intn(600)
		}
		buf := make([]byte, sz)
		n, err := r.Read(buf)
		res = append(res, buf[:n]...)
		if err != nil {
			if errors.Is(err, io.EOF) {
				return res, nil
			}
			return res, err
		}
		if len(res) > 1<<26 {
			return res, errors.New("runaway stream")
		}
	}
}

// locate describes got as a slice of payload: (index, true) or (-1, false).
func locate(payload, got []byte) int {
	if len(got) == 0 {
		return 0
	}
	return bytes.Index(payload, got)
}
