//go:build verif

package main

import (
	"bytes"
	"encoding/json"
	"io"
	"os"
	"sort"
	"strings"
	"sync"
	"time"

	objectwire "github.com/nspcc-dev/neofs-node/internal/object"
	"github.com/nspcc-dev/neofs-node/pkg/local_object_storage/blobstor/fstree"
	"github.com/nspcc-dev/neofs-sdk-go/object"
	oid "github.com/nspcc-dev/neofs-sdk-go/object/id"
)

// C10: random histories of single / concurrent / batched puts, deletes and every read API on a
// real tree; one JSON line per history with the projected observables. The Coq side
// (FSTree/FSCheck.v) replays the same history on the file-system model and on a map.

func init() {
	extraCmds["c10"] = c10
	extraCmds["c10names"] = c10names
}

const c10Addrs = 20
const emptyObj = 9999

// c10Spec is mirrored by FSCheck.v (ospec / obj_bytes / c10_payload).
type c10Spec struct {
	SigK  int  `json:"sigk"`
	AttrK int  `json:"attrk"`
	PLen  int  `json:"plen"`
	Seed  int  `json:"seed"`
	PF    bool `json:"pf"`
}

func c10Payload(seed, n int) []byte {
	if n == 0 {
		return nil
	}
	p := bytes.Repeat([]byte{byte((seed / 256) % 256)}, n)
	p[0] = byte(seed % 256)
	return p
}

func (s c10Spec) bytes() []byte {
	o := objSpec{SigK: s.SigK, AttrK: s.AttrK, HLen: uint64(s.PLen)}
	b := o.nonPayload()
	if s.PF {
		b = append(b, lenField(4, c10Payload(s.Seed, s.PLen))...)
	}
	return b
}

type c10obj struct {
	spec   c10Spec
	raw    []byte
	canon  []byte // Marshal(Unmarshal(raw))
	canonH []byte // the same without payload
	pld    []byte
	z      []byte // zstd form
}

func mkObj(s c10Spec) *c10obj {
	o := &c10obj{spec: s, raw: s.bytes()}
	var ob object.Object
	must(ob.Unmarshal(o.raw))
	o.canon = ob.Marshal()
	o.pld = ob.Payload()
	o.canonH = ob.CutPayload().Marshal()
	o.z = zcompress(o.raw)
	return o
}

type c10cfg struct {
	Depth     int  `json:"depth"`
	Threshold int  `json:"threshold"`
	CLimit    int  `json:"climit"`
	SLimit    int  `json:"slimit"`
	Generic   bool `json:"generic"`
	Chunk     int  `json:"chunk"`
}

type c10seq struct {
	Cfg      c10cfg    `json:"cfg"`
	Objs     []c10Spec `json:"objs"`
	Ops      [][]any   `json:"ops"`
	Reput    bool      `json:"reput"`    // contains a put of other bytes under a stored address
	GuardBad int       `json:"guardbad"` // stored forms that begin with the combined prefix
	BigObjs  int       `json:"big"`
}

type c10run struct {
	t    *fstree.FSTree
	objs []*c10obj
	g    *rng
	seq  *c10seq
}

func status(err error) int {
	switch classify(err) {
	case stOK:
		return 0
	case stNotFound:
		return 2
	default:
		return 3
	}
}

// which object of the table is this? (expected one first)
func (r *c10run) match(want int, eq func(o *c10obj) bool) int {
	if want >= 0 && want < len(r.objs) && eq(r.objs[want]) {
		return want
	}
	for i, o := range r.objs {
		if eq(o) {
			return i
		}
	}
	return 7777
}

func (r *c10run) form(o, z int) []byte {
	if o == emptyObj {
		return []byte{}
	}
	if z > 0 {
		return r.objs[o].z
	}
	return r.objs[o].raw
}

func (r *c10run) guard(d []byte) {
	if len(d) >= 2 && d[0] == fstree.VerifCombinedPrefix && d[1] == 0 {
		r.seq.GuardBad++
	}
}

func (r *c10run) puts(items [][3]int) {
	res := make([]int, len(items))
	var wg sync.WaitGroup
	for i, it := range items {
		d := r.form(it[1], it[2])
		r.guard(d)
		wg.Add(1)
		go func(i int, a int, d []byte) {
			defer wg.Done()
			if r.t.Put(addrN(a), d) != nil {
				res[i] = 3
			}
		}(i, it[0], d)
	}
	wg.Wait()
	r.seq.Ops = append(r.seq.Ops, []any{"P", items, res})
}

func (r *c10run) batch(items [][3]int) {
	m := map[oid.Address][]byte{}
	for _, it := range items {
		d := r.form(it[1], it[2])
		r.guard(d)
		m[addrN(it[0])] = d
	}
	st := 0
	if r.t.PutBatch(m) != nil {
		st = 3
	}
	r.seq.Ops = append(r.seq.Ops, []any{"B", items, st})
}

func (r *c10run) del(a int) {
	r.seq.Ops = append(r.seq.Ops, []any{"D", a, status(r.t.Delete(addrN(a)))})
}

// api: 0 GetBytes 1 Get 2 Head 3 GetStream 4 ReadObject 5 ReadHeader
func (r *c10run) get(api, a, want int) {
	addr := addrN(a)
	st, ob, capn := 0, 0, 0
	defer func() {
		if recover() != nil { // a panicking read is an observation (status 4), not a harness failure
			r.seq.Ops = append(r.seq.Ops, []any{"G", []int{0, 0, 1, 1, 2, 2}[api], a, capn, 4, 0, api})
		}
	}()
	switch api {
	case 0:
		d, err := r.t.GetBytes(addr)
		st = status(err)
		if err == nil {
			ob = r.match(want, func(o *c10obj) bool { return bytes.Equal(o.raw, d) })
		}
	case 1:
		o, err := r.t.Get(addr)
		st = status(err)
		if err == nil {
			m := o.Marshal()
			ob = r.match(want, func(o *c10obj) bool { return bytes.Equal(o.canon, m) })
		}
	case 2:
		o, err := r.t.Head(addr)
		st = status(err)
		if err == nil {
			m := o.Marshal()
			ob = r.match(want, func(o *c10obj) bool { return bytes.Equal(o.canonH, m) })
		}
	case 3:
		o, rd, err := r.t.GetStream(addr)
		st = status(err)
		if err == nil {
			pld, rerr := readAllChunked(rd, r.g)
			_ = rd.Close()
			if rerr != nil {
				st = 3
			} else {
				m := o.Marshal()
				ob = r.match(want, func(o *c10obj) bool { return bytes.Equal(o.canonH, m) && bytes.Equal(o.pld, pld) })
			}
		}
	case 4, 5:
		capn = 2 * objectwire.NonPayloadFieldsBufferLength
		if r.g.intn(3) == 0 {
			capn += r.g.intn(70000)
		}
		buf := make([]byte, capn)
		if api == 4 {
			n, rd, err := r.t.ReadObject(addr, buf)
			st = status(err)
			if err == nil {
				rest, rerr := readAllChunked(rd, r.g)
				_ = rd.Close()
				if rerr != nil {
					st = 3
				} else {
					all := append(append([]byte{}, buf[:n]...), rest...)
					ob = r.match(want, func(o *c10obj) bool { return bytes.Equal(o.raw, all) })
				}
			}
		} else {
			n, err := r.t.ReadHeader(addr, buf)
			st = status(err)
			if err == nil {
				// the head must be a prefix of the object that holds its whole non-payload part
				ob = r.match(want, func(o *c10obj) bool {
					np := len(o.raw) - len(lenField(4, o.pld))
					if !o.spec.PF {
						np = len(o.raw)
					}
					return n >= np && n <= len(o.raw) && bytes.Equal(o.raw[:n], buf[:n]) && (n == len(o.raw) || n > np)
				})
			}
		}
	}
	model := []int{0, 0, 1, 1, 2, 2}[api]
	r.seq.Ops = append(r.seq.Ops, []any{"G", model, a, capn, st, ob, api})
}

func (r *c10run) exists(a int) {
	ok, err := r.t.Exists(addrN(a))
	if err != nil {
		r.seq.Ops = append(r.seq.Ops, []any{"G", 0, a, 0, 3, 0, 9})
		return
	}
	r.seq.Ops = append(r.seq.Ops, []any{"E", a, ok})
}

func addrIndex(a oid.Address) int {
	for i := 0; i < 64; i++ {
		if addrN(i) == a {
			return i
		}
	}
	return 999
}

func (r *c10run) iterate(content []int) {
	type ent struct{ a, o int }
	var l []ent
	err := r.t.Iterate(func(addr oid.Address, data []byte) error {
		a := addrIndex(addr)
		want := -1
		if a < len(content) {
			want = content[a]
		}
		l = append(l, ent{a, r.match(want, func(o *c10obj) bool { return bytes.Equal(o.raw, data) })})
		return nil
	}, nil)
	sort.Slice(l, func(i, j int) bool { return l[i].a < l[j].a })
	out := [][2]int{}
	for _, e := range l {
		out = append(out, [2]int{e.a, e.o})
	}
	r.seq.Ops = append(r.seq.Ops, []any{"I", status(err), out})
}

func c10one(g *rng, big bool, reput bool) c10seq {
	var seq c10seq
	cfg := c10cfg{Depth: g.intn(5), Generic: g.intn(5) == 0}
	np := 150 // roughly the non-payload part of the synthetic objects
	if big {
		cfg.Threshold = 128 * 1024
	} else {
		cfg.Threshold = np + 60 + g.intn(600)
	}
	cfg.CLimit = []int{1, 2, 3, 4, 8, 128, 1 + g.intn(128)}[g.intn(7)]
	cfg.SLimit = []int{1 + g.intn(128), 1 + g.intn(128), 4096, 100000}[g.intn(4)]
	cfg.Chunk = 65536 // the zstd decoder fills the head buffer (observed through the results only)
	seq.Cfg = cfg
	dir, err := os.MkdirTemp("", "verif-c10-")
	must(err)
	defer os.RemoveAll(dir)
	t := c10tree(dir, &seq.Cfg)
	r := &c10run{t: t, g: g, seq: &seq}
	// one object per address (addresses are content hashes) + spare objects for the re-put stream
	nobj := c10Addrs
	if reput {
		nobj += 4
	}
	for i := 0; i < nobj; i++ {
		s := c10Spec{SigK: 1 + g.intn(40), AttrK: 1 + g.intn(30), Seed: i + 256*(1+g.intn(200)), PF: true}
		switch g.intn(6) {
		case 0:
			s.PLen, s.PF = 0, g.intn(2) == 0 // no payload
		case 1:
			s.PLen = cfg.Threshold - np + g.intn(80) - 40 // around the single/combined decision
		case 2:
			s.PLen = 1 + g.intn(2*cfg.Threshold)
		default:
			s.PLen = 1 + g.intn(cfg.Threshold)
		}
		if big && g.intn(4) != 0 { // most objects of a 128 KiB-threshold history stay small (evaluation cost)
			s.PLen = 1 + g.intn(2000)
		}
		if s.PLen < 0 {
			s.PLen = 1
		}
		if big && s.PLen > 256*1024 {
			s.PLen = 256 * 1024
		}
		if s.PLen > 25000 {
			seq.BigObjs++
		}
		seq.Objs = append(seq.Objs, s)
		r.objs = append(r.objs, mkObj(s))
	}
	content := make([]int, c10Addrs)
	for i := range content {
		content[i] = i
	}
	item := func(a int) [3]int {
		o := content[a]
		if reput && g.intn(3) == 0 {
			o = c10Addrs + g.intn(4)
			seq.Reput = true
		}
		if g.intn(12) == 0 {
			return [3]int{a, emptyObj, 0}
		}
		z := 0
		if g.intn(3) == 0 {
			z = len(r.objs[o].z)
		}
		return [3]int{a, o, z}
	}
	distinct := func(n int) []int {
		p := make([]int, c10Addrs)
		for i := range p {
			p[i] = i
		}
		for i := range p {
			j := i + g.intn(len(p)-i)
			p[i], p[j] = p[j], p[i]
		}
		return p[:n]
	}
	readSome := func(as []int) {
		for _, a := range as {
			r.get(g.intn(6), a, content[a])
		}
	}
	nops := 10 + g.intn(8)
	if big {
		nops = 6
	}
	hot := distinct(8) // a dense sub-universe so that puts, deletes and reads collide
	pick := func() int {
		if g.intn(4) != 0 {
			return hot[g.intn(len(hot))]
		}
		return g.intn(c10Addrs)
	}
	for i := 0; i < nops; i++ {
		switch k := g.intn(12); {
		case k < 3:
			a := pick()
			r.puts([][3]int{item(a)})
			readSome([]int{a})
		case k < 5:
			as := distinct(2 + g.intn(5))
			var its [][3]int
			for _, a := range as {
				its = append(its, item(a))
			}
			r.puts(its)
			readSome(as[:2])
		case k < 7:
			as := distinct(1 + g.intn(8))
			var its [][3]int
			for _, a := range as {
				its = append(its, item(a))
			}
			r.batch(its)
			if len(as) > 1 && g.intn(2) == 0 { // delete one member, read the others
				r.del(as[0])
			}
			readSome(as)
		case k < 9:
			a := pick()
			r.del(a)
			r.get(g.intn(6), a, content[a])
		case k < 10:
			r.exists(pick())
		case k < 11:
			r.iterate(content)
		default:
			readSome([]int{pick(), pick()})
		}
	}
	r.iterate(content)
	for _, a := range hot[:4] {
		r.get(g.intn(6), a, content[a])
	}
	must(t.Close())
	return seq
}

func c10tree(dir string, cfg *c10cfg) *fstree.FSTree {
	t := newTree(dir, uint64(cfg.Depth), fstree.WithNoSync(true), fstree.WithCombinedCountLimit(cfg.CLimit),
		fstree.WithCombinedSizeLimit(cfg.SLimit), fstree.WithCombinedSizeThreshold(cfg.Threshold),
		fstree.WithCombinedWriteInterval(2*time.Millisecond))
	if cfg.Generic {
		t.VerifForceGenericWriter()
	} else if !t.VerifUsesLinuxWriter() {
		cfg.Generic = true
	}
	return t
}

func toInt(v any) int { f, _ := v.(float64); return int(f) }

func toItems(v any) [][3]int {
	var res [][3]int
	for _, e := range v.([]any) {
		x := e.([]any)
		res = append(res, [3]int{toInt(x[0]), toInt(x[1]), toInt(x[2])})
	}
	return res
}

// c10replay re-executes the operations of a recorded history (replay files)
func c10replay(in c10seq, g *rng) c10seq {
	seq := c10seq{Cfg: in.Cfg, Objs: in.Objs, Reput: in.Reput}
	dir, err := os.MkdirTemp("", "verif-c10-")
	must(err)
	defer os.RemoveAll(dir)
	t := c10tree(dir, &seq.Cfg)
	r := &c10run{t: t, g: g, seq: &seq}
	for _, s := range in.Objs {
		r.objs = append(r.objs, mkObj(s))
	}
	content := make([]int, c10Addrs)
	for i := range content {
		content[i] = i
	}
	for _, o := range in.Ops {
		switch o[0].(string) {
		case "P":
			r.puts(toItems(o[1]))
		case "B":
			r.batch(toItems(o[1]))
		case "D":
			r.del(toInt(o[1]))
		case "G":
			if toInt(o[6]) == 9 {
				r.exists(toInt(o[2]))
			} else {
				r.get(toInt(o[6]), toInt(o[2]), toInt(o[5]))
			}
		case "E":
			r.exists(toInt(o[1]))
		case "I":
			r.iterate(content)
		}
	}
	must(t.Close())
	return seq
}

func c10(args []string) {
	g := newRng()
	if len(args) > 0 && args[0] == "replay" {
		var in []c10seq
		must(json.NewDecoder(os.Stdin).Decode(&in))
		for _, s := range in {
			emit(c10replay(s, g))
		}
		return
	}
	if len(args) > 0 && args[0] == "probe" {
		o := mkObj(c10Spec{SigK: 3, AttrK: 2, PLen: 10, Seed: 7, PF: true})
		emit(map[string]any{"raw": len(o.raw), "canon_eq_raw": bytes.Equal(o.raw, o.canon), "z": len(o.z)})
		return
	}
	n, nbig, nre := 60, 1, 6
	if thorough() {
		n, nbig, nre = 1200, 24, 100
	}
	// every history has its own PRNG stream derived from the master seed; they run on a few workers
	total := n + nbig + nre
	res := make([]c10seq, total)
	var wg sync.WaitGroup
	sem := make(chan struct{}, 6)
	for i := 0; i < total; i++ {
		gi := &rng{s: g.next()}
		wg.Add(1)
		sem <- struct{}{}
		go func(i int, gi *rng) {
			defer wg.Done()
			defer func() { <-sem }()
			res[i] = c10one(gi, i >= n && i < n+nbig, i >= n+nbig)
		}(i, gi)
	}
	wg.Wait()
	for i := range res {
		emit(res[i])
	}
}

// the real address strings and tree paths for every depth (tie of tree_path)
func c10names(args []string) {
	var names []string
	for i := 0; i < 40; i++ {
		a := addrN(i)
		names = append(names, a.Object().EncodeToString()+"."+a.Container().EncodeToString())
	}
	emit(map[string]any{"names": names})
	for d := 0; d <= 8; d++ {
		t := fstree.New(fstree.WithPath("/r"), fstree.WithDepth(uint64(d)))
		for i := 0; i < 40; i += 3 {
			p := strings.TrimPrefix(t.VerifTreePath(addrN(i)), "/r/")
			emit(map[string]any{"a": i, "d": d, "comps": strings.Split(p, "/")})
		}
	}
}

var _ = io.EOF
