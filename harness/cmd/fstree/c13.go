//go:build verif

package main

import (
	"bytes"
	"os"
	"runtime"
	"sync"
	"time"

	"github.com/nspcc-dev/neofs-node/pkg/local_object_storage/blobstor/common"
	"github.com/nspcc-dev/neofs-node/pkg/local_object_storage/blobstor/fstree"
	oid "github.com/nspcc-dev/neofs-sdk-go/object/id"
)

// The C13/C12 child process: performs one scenario of blob writes on a fresh tree and
// prints one JSON line per operation (flushed at once, so a crash keeps what was
// reported). The parent (props/C13.py, props/C12.py) runs it under
// `strace -f -e inject=...` with GOMAXPROCS=1; the main goroutine stays on the main
// thread, so the n-th writev/linkat/openat/close/fdatasync of that thread is deterministic.

func init() {
	extraCmds["c13child"] = c13child
	runtime.LockOSThread()
}

func objData(i, n int) []byte { return pattern(i*17+3, n) }

type c13op struct {
	Op  string `json:"op"`
	I   int    `json:"i"`
	R   int    `json:"r"` // 0 = nil error, 1 = error
	Ids []int  `json:"ids,omitempty"`
}

func c13child(args []string) {
	scenario := args[0]
	dir := args[1]
	must(os.MkdirAll(dir, 0o755))
	hour := time.Hour
	var t *fstree.FSTree
	mk := func(opts ...fstree.Option) {
		o := append([]fstree.Option{fstree.WithPath(dir), fstree.WithDepth(1), fstree.WithNoSync(false)}, opts...)
		t = fstree.New(o...)
		must(t.Open(false))
		must(t.Init(common.ID{}))
	}
	emit(map[string]any{"marker": "start", "linux_writer": true})
	var stored [][]byte
	put := func(i, n int) {
		d := objData(i, n)
		for len(stored) <= i {
			stored = append(stored, nil)
		}
		stored[i] = d
		err := t.Put(addrN(i), d)
		r := 0
		if err != nil {
			r = 1
		}
		emit(c13op{Op: "put", I: i, R: r})
	}
	switch scenario {
	case "size": // every write crosses the size limit: sync and close happen in the caller
		mk(fstree.WithCombinedSizeLimit(100), fstree.WithCombinedCountLimit(128), fstree.WithCombinedWriteInterval(hour))
		for i := 0; i < 3; i++ {
			put(i, 300)
		}
	case "timer": // the batch is synced by its timer
		mk(fstree.WithCombinedWriteInterval(5 * time.Millisecond))
		put(0, 300)
		put(1, 300)
	case "single": // plain files (above the combined threshold)
		mk(fstree.WithCombinedSizeThreshold(100))
		for i := 0; i < 3; i++ {
			put(i, 300)
		}
	case "batch":
		mk(fstree.WithCombinedSizeLimit(100), fstree.WithCombinedWriteInterval(hour)) // the follow-up write syncs in the caller
		for b := 0; b < 2; b++ {
			m := map[oid.Address][]byte{}
			var ids []int
			for k := 0; k < 3; k++ {
				i := b*3 + k
				d := objData(i, 300)
				for len(stored) <= i {
					stored = append(stored, nil)
				}
				stored[i] = d
				m[addrN(i)] = d
				ids = append(ids, i)
			}
			err := t.PutBatch(m)
			r := 0
			if err != nil {
				r = 1
			}
			emit(c13op{Op: "batch", I: b, R: r, Ids: ids})
		}
	case "conc": // many concurrent combined writes, no faults
		n := 40
		if thorough() {
			n = 250 // object IDs of the harness are one byte wide
		}
		mk(fstree.WithCombinedCountLimit(8), fstree.WithCombinedWriteInterval(2*time.Millisecond))
		res := make([]int, n)
		for i := 0; i < n; i++ {
			stored = append(stored, objData(i, 100+i))
		}
		var wg sync.WaitGroup
		for i := 0; i < n; i++ {
			wg.Add(1)
			go func(i int) {
				defer wg.Done()
				if t.Put(addrN(i), stored[i]) != nil {
					res[i] = 1
				}
			}(i)
		}
		wg.Wait()
		for i := 0; i < n; i++ {
			emit(c13op{Op: "put", I: i, R: res[i]})
		}
	}
	// the process is still running: read everything back
	var readable, equal []bool
	for i, d := range stored {
		got, err := t.GetBytes(addrN(i))
		readable = append(readable, err == nil)
		equal = append(equal, err == nil && bytes.Equal(got, d))
	}
	// one more write must still work (nothing is left locked / broken). It runs on the main
	// thread like the others (strace counts calls per thread); if it blocks for ever the Go
	// runtime reports a deadlock or the parent's timeout fires.
	after := "ok"
	if t.Put(addrN(200), objData(200, 300)) != nil {
		after = "err"
	}
	emit(map[string]any{"marker": "alive", "readable": readable, "equal": equal, "after": after})
	os.Exit(0)
}
