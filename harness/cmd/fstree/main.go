//go:build verif

// Differential harness for the file-tree blob storage family (C10-C13, C41).
// Built inside /repo's module through `go build -overlay` (see /verif/lib/vlib.py).
package main

import (
	"fmt"
	"os"
)

func main() {
	if len(os.Args) < 2 {
		fmt.Fprintln(os.Stderr, "usage: fstree <consts|c11|c11one|...>")
		os.Exit(2)
	}
	switch os.Args[1] {
	case "consts":
		consts()
	case "c11":
		c11(os.Args[2:])
	default:
		if f, ok := extraCmds[os.Args[1]]; ok {
			f(os.Args[2:])
			return
		}
		fmt.Fprintln(os.Stderr, "unknown command")
		os.Exit(2)
	}
}

var extraCmds = map[string]func([]string){}
