//go:build verif

// Differential harness for C24 (nodes store only self-consistent, authenticated objects):
// the real putsvc.Service (Streamer Init/SendChunk/Close and ValidateAndStoreObjectLocally,
// the callee of Server.Replicate) over the shared fakes of harness/lib/putfake.
package main

import (
	"crypto/ecdsa"

	"github.com/nspcc-dev/neofs-node/internal/zzverif/lib/putfake"
	putsvc "github.com/nspcc-dev/neofs-node/pkg/services/object/put"
)

// splitmix64: the single PRNG of the harness
type rng struct{ s uint64 }

func (r *rng) next() uint64 {
	r.s += 0x9e3779b97f4a7c15
	z := r.s
	z = (z ^ (z >> 30)) * 0xbf58476d1ce4e5b9
	z = (z ^ (z >> 27)) * 0x94d049bb133111eb
	return z ^ (z >> 31)
}
func (r *rng) n(k int) int         { return int(r.next() % uint64(k)) }
func (r *rng) p(num, den int) bool { return r.n(den) < num }

type world = putfake.World
type ecRule = putfake.ECRule
type tokenStore = putfake.TokenStore

func newWorld() *world { return putfake.NewWorld() }
func newService(w *world, nodeKey *ecdsa.PrivateKey, ts tokenStore) *putsvc.Service {
	return putfake.NewService(w, nodeKey, ts)
}
