//go:build verif

package main

import (
	"bytes"
	"context"
	"crypto/sha256"
	"encoding/json"
	"fmt"
	"os"
	"strconv"

	iec "github.com/nspcc-dev/neofs-node/internal/ec"
	objectcore "github.com/nspcc-dev/neofs-node/pkg/core/object"
	versioncore "github.com/nspcc-dev/neofs-node/pkg/core/version"
	"github.com/nspcc-dev/neofs-node/pkg/services/object/common"
	putsvc "github.com/nspcc-dev/neofs-node/pkg/services/object/put"
	objutil "github.com/nspcc-dev/neofs-node/pkg/services/object/util"
	"github.com/nspcc-dev/neofs-sdk-go/checksum"
	neofscrypto "github.com/nspcc-dev/neofs-sdk-go/crypto"
	"github.com/nspcc-dev/neofs-sdk-go/object"
	"github.com/nspcc-dev/neofs-sdk-go/user"
	"github.com/nspcc-dev/neofs-sdk-go/version"
)

// streamOutcome of one PUT stream: where it failed (like the gRPC handler, the harness
// stops at the first error)
type streamOutcome struct {
	InitErr  bool `json:"init_err"`
	ChunkErr int  `json:"chunk_err"` // index of the first failing SendChunk, -1 if none
	CloseErr bool `json:"close_err"`
}

func stream(svc *putsvc.Service, hdr *object.Object, ttl uint32, chunks [][]byte) streamOutcome {
	out := streamOutcome{ChunkErr: -1}
	st, err := svc.Put(context.Background())
	if err != nil {
		panic(err)
	}
	prm := new(putsvc.PutInitPrm).WithObject(hdr).WithCommonPrm(objutil.CommonPrmFromRequest(ttl, nil, common.RequestTokens{}))
	if err := st.Init(prm); err != nil {
		out.InitErr = true
		return out
	}
	for i, c := range chunks {
		if err := st.SendChunk(new(putsvc.PutChunkPrm).WithChunk(c)); err != nil {
			out.ChunkErr = i
			return out
		}
	}
	if _, err := st.Close(); err != nil {
		out.CloseErr = true
	}
	return out
}

type absEnv struct {
	Epoch    uint64   `json:"epoch"`
	Max      uint64   `json:"max"`
	Rules    [][2]int `json:"rules"`
	RepRules int      `json:"rep_rules"`
	RepSum   int      `json:"rep_sum"`
	CnrFound bool     `json:"cnr_found"`
	Lock     int      `json:"lock"`
	SplitOK  bool     `json:"split_ok"`
	TombOK   bool     `json:"tomb_ok"`
	Quota    *uint64  `json:"quota"`
	NodeUser []int    `json:"node_user"`
}

func absOf(w *world, nodeUser []int) absEnv {
	e := absEnv{Epoch: w.Epoch, Max: w.MaxSize, RepRules: w.RepN, RepSum: w.RepN, CnrFound: w.CnrFound, Lock: w.LockState,
		SplitOK: w.SplitOK, TombOK: w.TombOK, NodeUser: nodeUser, Rules: [][2]int{}}
	for _, r := range w.Rules {
		e.Rules = append(e.Rules, [2]int{r.D, r.P})
	}
	if !w.QuotaErr {
		q := w.QuotaHard
		e.Quota = &q
	}
	return e
}

type hpair struct {
	In  []int `json:"in"`
	Out []int `json:"out"`
}

func hentry(b []byte) hpair {
	h := sha256.Sum256(b)
	return hpair{In: ints(b), Out: ints(h[:])}
}

type caseOut struct {
	Path   string  `json:"path"`
	Kind   string  `json:"kind"`
	Mut    string  `json:"mut"`
	Env    absEnv  `json:"env"`
	Obj    *absObj `json:"obj"`
	Chunks [][]int `json:"chunks"`
	HTab   []hpair `json:"htab"`
	Fail   []int   `json:"fail"` // numbers of the failing local Put calls
	// observed
	Out     *streamOutcome `json:"out,omitempty"`
	ReplOK  bool           `json:"repl_ok"`
	StoredN int            `json:"stored_n"` // distinct objects in the local storage
	Stored  [][]int        `json:"stored"`   // payloads of the stored objects (slice path: non-link ones), in store order
	SameHdr bool           `json:"same_hdr"` // the (single) stored object has exactly the submitted header, ID and signature
	SelfOK  []bool         `json:"self_ok"`  // slice path: each stored object is self-consistent (independent recomputation)
	RootOK  bool           `json:"root_ok"`  // slice path: root header describes the whole stream
	Links   int            `json:"links"`
	Remote  int            `json:"remote"`
}

func chunking(g *rng, b []byte) [][]byte { return chunkingMax(g, b, 12) }

func chunkingMax(g *rng, b []byte, mx int) [][]byte {
	var res [][]byte
	if len(b) == 0 {
		if g.p(1, 2) {
			return [][]byte{{}}
		}
		return nil
	}
	for off := 0; off < len(b); {
		var n int
		switch g.n(4) {
		case 0:
			n = 0
		case 1:
			n = len(b) - off
		default:
			n = 1 + g.n(mx)
		}
		n = min(n, len(b)-off)
		res = append(res, b[off:off+n])
		off += n
	}
	return res
}

func cat(cs [][]byte) []byte {
	var r []byte
	for _, c := range cs {
		r = append(r, c...)
	}
	return r
}

func chunkInts(cs [][]byte) [][]int {
	r := [][]int{}
	for _, c := range cs {
		r = append(r, ints(c))
	}
	return r
}

func failList(w *world) []int {
	r := []int{}
	for i := 0; i < 64; i++ {
		if w.FailPut[i] {
			r = append(r, i)
		}
	}
	return r
}

// distinct stored objects in store order
func distinctStored(w *world) []object.Object {
	var res []object.Object
	seen := map[string]bool{}
	for _, o := range w.Stored {
		k := string(o.Marshal())
		if !seen[k] {
			seen[k] = true
			res = append(res, o)
		}
	}
	return res
}

// independent recomputation of self-consistency of a stored object
func selfConsistent(o object.Object, nodeKey []byte) bool {
	calc, _ := o.CalculateID()
	if calc != o.GetID() {
		return false
	}
	if o.PayloadSize() != uint64(len(o.Payload())) {
		return false
	}
	cs, ok := o.PayloadChecksum()
	h := sha256.Sum256(o.Payload())
	if !ok || cs.Type() != checksum.SHA256 || !bytes.Equal(cs.Value(), h[:]) {
		return false
	}
	s := o.Signature()
	if s == nil || !o.VerifySignature() {
		return false
	}
	return bytes.Equal(s.PublicKeyBytes(), nodeKey)
}

func runPut(u *universe, g *rng, c *genCase, node int) caseOut {
	w := c.w
	svc := newService(w, &u.keys[node].ECDSAPrivateKey, tokenStore{})
	full := c.obj
	hdr := full.CutPayload()
	str := c.stream
	if c.mut == "hdr_payload" && len(str) > 0 {
		k := 1 + g.n(len(str))
		var h2 object.Object
		hdr.CopyTo(&h2)
		h2.SetPayload(str[:k])
		hdr = &h2
		str = str[k:]
	}
	chunks := chunking(g, str)
	if c.chunks != nil && c.mut != "hdr_payload" {
		chunks = c.chunks
	}
	res := caseOut{Path: "put", Kind: c.kind, Mut: c.mut, Env: absOf(w, u.userTok(u.users[node])), Obj: u.abstract(hdr), Chunks: chunkInts(chunks), Fail: failList(w)}
	res.HTab = []hpair{hentry(cat(chunks)), hentry(c.stream)}
	{
		// "the payload parses as a link" is a fact about the streamed payload, not about the
		// (payload-less) header: establish it with the SDK on header + what is streamed
		var t object.Object
		hdr.CopyTo(&t)
		t.SetPayload(append(bytes.Clone(hdr.Payload()), cat(chunks)...))
		var l object.Link
		res.Obj.LinkParses = t.ReadLink(&l) == nil
	}
	out := stream(svc, hdr, 2, chunks)
	res.Out = &out
	ds := distinctStored(w)
	res.StoredN = len(ds)
	res.Stored = [][]int{}
	for _, o := range ds {
		res.Stored = append(res.Stored, ints(o.Payload()))
	}
	if len(ds) == 1 {
		res.SameHdr = bytes.Equal(ds[0].CutPayload().Marshal(), full.CutPayload().Marshal())
	}
	res.Remote = w.Remote
	return res
}

func runRepl(u *universe, c *genCase, node int) caseOut {
	w := c.w
	w.Stored, w.PutCalls, w.Remote = nil, 0, 0
	svc := newService(w, &u.keys[node].ECDSAPrivateKey, tokenStore{})
	res := caseOut{Path: "repl", Kind: c.kind, Mut: c.mut, Env: absOf(w, u.userTok(u.users[node])), Obj: u.abstract(&c.obj), Chunks: [][]int{}, Fail: failList(w)}
	res.HTab = []hpair{hentry(c.obj.Payload())}
	err := svc.ValidateAndStoreObjectLocally(context.Background(), c.obj)
	res.ReplOK = err == nil
	ds := distinctStored(w)
	res.StoredN = len(ds)
	res.Stored = [][]int{}
	for _, o := range ds {
		res.Stored = append(res.Stored, ints(o.Payload()))
	}
	if len(ds) == 1 {
		res.SameHdr = bytes.Equal(ds[0].CutPayload().Marshal(), c.obj.CutPayload().Marshal())
	}
	res.Remote = w.Remote
	return res
}

// trusted path: the node slices the stream itself
func runSlice(u *universe, g *rng) caseOut {
	seenIDs = nil
	w := newWorld()
	w.Epoch = uint64(5 + g.n(10))
	// the link object of a split chain (about 41 bytes per child) must fit the size limit too:
	// at most 3 children with these sizes
	w.MaxSize = uint64(130 + g.n(30))
	node := g.n(3)
	nodeUser := u.users[node]
	cnr := u.cnrs[g.n(2)]
	hdr := object.New(cnr, nodeUser)
	payload := randPayload(g, g.n(int(w.MaxSize)*29/10))
	if g.p(1, 6) { // exact multiples of the limit
		payload = randPayload(g, int(w.MaxSize)*(1+g.n(2)))
	}
	declared := uint64(0)
	mut := []string{"none", "none", "none", "none", "none", "declared", "declared", "declared_more", "declared_less", "fail", "fail", "fail", "fail2", "split_bad",
		"attr_zero", "attr_dup", "exp_bad", "exp_past", "owner_other", "owner_zero", "ver_old", "ver_nil", "type_sg", "ec_attr", "tomb_noassoc", "quota", "cnr_missing", "max_zero", "lock_regular", "hdr_id"}[g.n(30)]
	switch mut {
	case "declared":
		declared = uint64(len(payload))
	case "declared_more":
		declared = uint64(len(payload) + 1 + g.n(5))
	case "declared_less":
		if len(payload) > 0 {
			declared = uint64(g.n(len(payload)))
		}
	case "fail":
		w.FailPut[g.n(4)] = true
	case "fail2":
		w.FailPut[g.n(3)] = true
		w.FailPut[3+g.n(3)] = true
	case "split_bad":
		w.SplitOK = false
	case "attr_zero":
		hdr.SetAttributes(object.NewAttribute("a", "b\x00"))
	case "attr_dup":
		hdr.SetAttributes(object.NewAttribute("a", "1"), object.NewAttribute("a", "2"))
	case "exp_bad":
		hdr.SetAttributes(expAttr("x1"))
	case "exp_past":
		hdr.SetAttributes(expAttr(strconv.Itoa(g.n(int(w.Epoch)))))
	case "owner_other":
		hdr.SetOwner(u.users[(node+1)%3])
	case "owner_zero":
		hdr.SetOwner(user.ID{})
	case "ver_old":
		setVersion(hdr, 2, uint32(8+g.n(10)))
	case "ver_nil":
		hdr.SetVersion(nil)
	case "type_sg":
		hdr.SetType(object.TypeStorageGroup) //nolint:staticcheck
	case "ec_attr":
		hdr.SetAttributes(object.NewAttribute(iec.AttributePrefix+"X", "1"))
	case "tomb_noassoc":
		hdr.SetType(object.TypeTombstone)
		hdr.SetAttributes(expAttr(strconv.Itoa(int(w.Epoch) + 3)))
		payload = nil
	case "quota":
		w.QuotaHard = uint64(g.n(len(payload) + 2))
	case "cnr_missing":
		w.CnrFound = false
	case "max_zero":
		w.MaxSize = 0
	case "lock_regular":
		w.LockState = 1
		hdr.SetAttributes(expAttr(strconv.Itoa(g.n(int(w.Epoch)))))
	case "hdr_id":
		// an ID in the client's header is irrelevant for the trusted path
		var h2 object.Object
		hdr.CopyTo(&h2)
		_ = h2.CalculateAndSetID()
		hdr = &h2
	}
	hdr.SetPayloadSize(declared)
	chunks := chunkingMax(g, payload, 100)
	svc := newService(w, &u.keys[node].ECDSAPrivateKey, tokenStore{})
	res := caseOut{Path: "slice", Kind: "slice", Mut: mut, Env: absOf(w, u.userTok(nodeUser)), Obj: u.abstract(hdr), Chunks: chunkInts(chunks), Fail: failList(w), HTab: []hpair{}}
	out := stream(svc, hdr, 2, chunks)
	res.Out = &out
	res.Stored = [][]int{}
	res.SelfOK = []bool{}
	res.RootOK = true
	var last *object.Object
	for i := range w.Stored {
		o := w.Stored[i]
		res.SelfOK = append(res.SelfOK, selfConsistent(o, u.keys[node].PublicKeyBytes))
		if o.Type() == object.TypeLink {
			res.Links++
			continue
		}
		res.Stored = append(res.Stored, ints(o.Payload()))
		last = &w.Stored[i]
	}
	res.StoredN = len(w.Stored)
	if out.ChunkErr < 0 && !out.InitErr && !out.CloseErr && last != nil {
		root := last
		if p := last.Parent(); p != nil {
			root = p
		}
		h := sha256.Sum256(payload)
		cs, _ := root.PayloadChecksum()
		res.RootOK = root.PayloadSize() == uint64(len(payload)) && bytes.Equal(cs.Value(), h[:])
	}
	res.Remote = w.Remote
	return res
}

// contentMatrix: (kind, mutation) pairs generated in every run, see main
var contentMatrix = [][2]string{
	{"tomb", "none"}, {"tomb", "content_tomb"}, {"tomb", "sys_payload"}, {"tomb", "sys_payload_tomb"}, {"tomb", "ver_217"}, {"tomb", "content_split"},
	{"lock", "none"}, {"lock", "sys_payload"}, {"lock", "content_tomb"}, {"lock", "ver_217"},
	{"link", "none"}, {"link", "content_split"}, {"link", "link_empty"}, {"link", "link_empty_split"}, {"link", "link_garbage"}, {"link", "link_no_first"}, {"link", "content_tomb"},
	{"regular", "stream_plus1"}, {"regular", "stream_exact1"}, {"child_last", "stream_plus1"},
	{"ecpart", "ec_parent_owner"}, {"ecpart", "stream_plus1"},
	// EC parts are unsigned: the parent header authenticates them. Parent header forged in one field
	{"ecpart", "none"}, {"ecpart", "parent_id"}, {"ecpart", "parent_sig"}, {"ecpart", "ec_parent_unsigned"}, {"ecpart", "ec_parent_foreign_owner"},
}

type constsOut struct {
	MaxHeaderLen int     `json:"max_header_len"`
	MaxScriptLen int     `json:"max_script_len"`
	MaxNesting   int     `json:"max_nesting"`
	ECPrefix     []int   `json:"ec_prefix"`
	ECRuleIdx    []int   `json:"ec_rule_idx_key"`
	ECPartIdx    []int   `json:"ec_part_idx_key"`
	ECHashes     []int   `json:"ec_hashes_key"`
	Expiration   []int   `json:"expiration_key"`
	CsSHA256     int     `json:"cs_sha256"`
	CsTZ         int     `json:"cs_tz"`
	Versions     [][]int `json:"versions"` // major, minor, ValidNewObject, SysObjTargetShouldBeInHeader, OwnerSignatureMatchRequired
	NilVersion   []int   `json:"nil_version"`
}

func b2i(b bool) int {
	if b {
		return 1
	}
	return 0
}

func consts() {
	c := constsOut{MaxHeaderLen: object.MaxHeaderLen, MaxScriptLen: neofscrypto.MaxVerificationScriptLength, MaxNesting: objectcore.VerifMaxNesting(),
		ECPrefix: ints([]byte(iec.AttributePrefix)), ECRuleIdx: ints([]byte(iec.AttributeRuleIdx)), ECPartIdx: ints([]byte(iec.AttributePartIdx)),
		ECHashes: ints([]byte(iec.AttributePartsHashes)), Expiration: ints([]byte(object.AttributeExpirationEpoch)),
		CsSHA256: int(checksum.SHA256), CsTZ: int(checksum.TillichZemor)}
	for mj := 0; mj < 5; mj++ {
		for mn := 0; mn < 32; mn++ {
			var v version.Version
			v.SetMajor(uint32(mj))
			v.SetMinor(uint32(mn))
			c.Versions = append(c.Versions, []int{mj, mn, b2i(versioncore.ValidNewObject(&v)), b2i(versioncore.SysObjTargetShouldBeInHeader(&v)), b2i(versioncore.OwnerSignatureMatchRequired(&v))})
		}
	}
	c.NilVersion = []int{b2i(versioncore.ValidNewObject(nil)), b2i(versioncore.SysObjTargetShouldBeInHeader(nil)), b2i(versioncore.OwnerSignatureMatchRequired(nil))}
	_ = json.NewEncoder(os.Stdout).Encode(c)
}

func main() {
	if len(os.Args) < 2 {
		fmt.Fprintln(os.Stderr, "usage: objfmt consts|cases [n]")
		os.Exit(2)
	}
	seed, _ := strconv.ParseUint(os.Getenv("VERIF_SEED"), 10, 64)
	switch os.Args[1] {
	case "consts":
		consts()
	case "cases":
		n := 300
		if len(os.Args) > 2 {
			n, _ = strconv.Atoi(os.Args[2])
		}
		g := &rng{s: seed*7919 + 17}
		u := newUniverse(g)
		enc := json.NewEncoder(os.Stdout)
		// fixed matrix first (every run): each branch of the content validation of system
		// objects with an empty and, where the protocol allows one, a non-empty payload, with
		// accepting and rejecting tombstone / split verifiers; the boundary streams; the EC
		// part whose owner differs from its parent's. Both the PUT stream and the replicate
		// path run on every one of them. The random part of the generator draws the same
		// kinds and mutations, but one (kind, mutation) pair only about once in 1000 cases.
		for _, km := range contentMatrix {
			c := u.genCaseF(g, km[0], km[1])
			node := g.n(3)
			if c.obj.Signature() != nil || c.kind == "ecpart" {
				_ = enc.Encode(runPut(u, g, c, node))
			}
			_ = enc.Encode(runRepl(u, c, node))
		}
		for i := 0; i < n; i++ {
			switch {
			case i%4 == 3:
				_ = enc.Encode(runSlice(u, g))
			default:
				c := u.genCase(g)
				node := g.n(3)
				// an unsigned object that is not an EC part would take the trusted path (covered by runSlice)
				if c.obj.Signature() != nil || c.kind == "ecpart" {
					_ = enc.Encode(runPut(u, g, c, node))
				}
				_ = enc.Encode(runRepl(u, c, node))
			}
		}
	default:
		os.Exit(2)
	}
}
