//go:build verif

package main

import (
	"bytes"
	"crypto/ecdsa"
	"crypto/elliptic"
	"math/big"
	"crypto/sha256"
	"encoding/hex"
	"strconv"
	"strings"

	iec "github.com/nspcc-dev/neofs-node/internal/ec"
	"github.com/nspcc-dev/neofs-sdk-go/checksum"
	cid "github.com/nspcc-dev/neofs-sdk-go/container/id"
	neofscrypto "github.com/nspcc-dev/neofs-sdk-go/crypto"
	neofsecdsa "github.com/nspcc-dev/neofs-sdk-go/crypto/ecdsa"
	neofscryptotest "github.com/nspcc-dev/neofs-sdk-go/crypto/test"
	"github.com/nspcc-dev/neofs-sdk-go/object"
	oid "github.com/nspcc-dev/neofs-sdk-go/object/id"
	"github.com/nspcc-dev/neofs-sdk-go/session"
	sessionv2 "github.com/nspcc-dev/neofs-sdk-go/session/v2"
	"github.com/nspcc-dev/neofs-sdk-go/user"
	"github.com/nspcc-dev/neofs-sdk-go/version"
	"github.com/google/uuid"
)

// ---- abstract object (the JSON image of coq/ObjFmt/Model.v `obj`) -----------------------

type absSig struct {
	Scheme int   `json:"scheme"`
	Key    []int `json:"key"`
	KeyLen int   `json:"keylen"`
	Val    []int `json:"val"`
	ValLen int   `json:"vallen"`
}
type absTok1 struct {
	AuthKey []int `json:"authkey"`
	Issuer  []int `json:"issuer"`
	Tag     int   `json:"tag"`
}
type absTok2 struct {
	Subjects [][]int `json:"subjects"`
	Issuer   []int   `json:"issuer"`
	Tag      int     `json:"tag"`
}
type absCs struct {
	Typ int   `json:"typ"`
	Val []int `json:"val"`
}
type absObj struct {
	Ver        []int     `json:"ver"` // nil or [major, minor]
	Typ        int       `json:"typ"`
	HdrLen     int       `json:"hdrlen"`
	ID         []int     `json:"id"` // nil = zero
	HdrBin     []int     `json:"hdrbin"`
	Cnr        int       `json:"cnr"`
	Owner      []int     `json:"owner"`
	Epoch      uint64    `json:"epoch"`
	Attrs      [][2][]int `json:"attrs"`
	Size       uint64    `json:"size"`
	Cs         *absCs    `json:"cs"`
	Payload    []int     `json:"payload"`
	Sig        *absSig   `json:"sig"`
	Tok1       *absTok1  `json:"tok1"`
	Tok2       *absTok2  `json:"tok2"`
	AssocZero  bool      `json:"assoc_zero"`
	HasSplit   bool      `json:"has_split"`
	SplitID    bool      `json:"split_id"`
	FirstSet   bool      `json:"first_set"`
	PrevZero   bool      `json:"prev_zero"`
	LinkParses bool      `json:"link_parses"`
	Parent     *absObj   `json:"parent"`
}

func ints(b []byte) []int {
	r := make([]int, len(b))
	for i := range b {
		r[i] = int(b[i])
	}
	return r
}

// universe of one harness run: keys, users, containers
type universe struct {
	keys  []neofscryptotest.VariableSigner
	users []user.ID
	cnrs  []cid.ID
}

func newUniverse(g *rng) *universe {
	u := &universe{}
	for i := 0; i < 4; i++ {
		k := detSigner(g)
		u.keys = append(u.keys, k)
		u.users = append(u.users, user.NewFromECDSAPublicKey(k.ECDSAPrivateKey.PublicKey))
	}
	for i := 0; i < 3; i++ {
		var c cid.ID
		for j := range c {
			c[j] = byte(g.next())
		}
		u.cnrs = append(u.cnrs, c)
	}
	return u
}

// deterministic P-256 key from the harness PRNG
func detSigner(g *rng) neofscryptotest.VariableSigner {
	d := make([]byte, 32)
	for i := range d {
		d[i] = byte(g.next())
	}
	d[0] &= 0x7f
	d[31] |= 1
	var pk ecdsa.PrivateKey
	pk.Curve = elliptic.P256()
	pk.D = new(big.Int).SetBytes(d)
	pk.X, pk.Y = pk.Curve.ScalarBaseMult(d)
	return neofscryptotest.VariableSigner{
		ECDSAPrivateKey: pk,
		Signer:          neofsecdsa.Signer(pk),
		RFC6979:         neofsecdsa.SignerRFC6979(pk),
		WalletConnect:   neofsecdsa.SignerWalletConnect(pk),
		PublicKeyBytes:  neofscrypto.PublicKeyBytes((*neofsecdsa.PublicKey)(&pk.PublicKey)),
	}
}

func (u *universe) keyTok(pub []byte) []int {
	for i, k := range u.keys {
		if bytes.Equal(k.PublicKeyBytes, pub) {
			return []int{i + 1}
		}
	}
	if len(pub) == 33 && (pub[0] == 2 || pub[0] == 3) {
		// may or may not be on the curve: the harness only produces off-curve garbage
		return []int{250}
	}
	return []int{250}
}
func (u *universe) userTok(id user.ID) []int {
	if id.IsZero() {
		return []int{}
	}
	for i, x := range u.users {
		if x == id {
			return []int{i + 1}
		}
	}
	return []int{200, int(id[1]), int(id[2])}
}
func (u *universe) cnrTok(c cid.ID) int {
	if c.IsZero() {
		return 0
	}
	for i, x := range u.cnrs {
		if x == c {
			return i + 1
		}
	}
	return 100 + int(c[0])
}

// IDs (and header hashes) are canonicalised per case: the k-th distinct 32-byte value seen
// becomes the token [255,254,k] (object IDs depend on randomised signatures and UUIDs)
var seenIDs []oid.ID

func idTok(id oid.ID) []int {
	if id.IsZero() {
		return nil
	}
	for i, x := range seenIDs {
		if x == id {
			return []int{255, 254, i}
		}
	}
	seenIDs = append(seenIDs, id)
	return []int{255, 254, len(seenIDs) - 1}
}

// abstraction of a real object; everything is read off the object, the crypto facts are
// decided by the SDK primitives / crypto/sha256 directly (never by the code under test)
func (u *universe) abstract(o *object.Object) *absObj {
	if o == nil {
		return nil
	}
	a := &absObj{}
	if v := o.Version(); v != nil {
		a.Ver = []int{int(v.Major()), int(v.Minor())}
	}
	a.Typ = int(o.Type())
	if a.Typ > 5 {
		a.Typ = 5
	}
	a.HdrLen = o.HeaderLen()
	a.ID = idTok(o.GetID())
	calc, _ := o.CalculateID()
	a.HdrBin = idTok(calc)
	a.Cnr = u.cnrTok(o.GetContainerID())
	a.Owner = u.userTok(o.Owner())
	a.Epoch = o.CreationEpoch()
	a.Attrs = [][2][]int{}
	for _, at := range o.Attributes() {
		a.Attrs = append(a.Attrs, [2][]int{ints([]byte(at.Key())), ints([]byte(at.Value()))})
	}
	a.Size = o.PayloadSize()
	if cs, ok := o.PayloadChecksum(); ok {
		a.Cs = &absCs{Typ: int(cs.Type()), Val: ints(cs.Value())}
	}
	a.Payload = ints(o.Payload())
	if s := o.Signature(); s != nil {
		as := &absSig{Scheme: int(s.Scheme()), Key: u.keyTok(s.PublicKeyBytes()), KeyLen: len(s.PublicKeyBytes()), ValLen: len(s.Value())}
		id := o.GetID()
		if s.Scheme() <= neofscrypto.ECDSA_WALLETCONNECT && as.Key[0] != 250 && len(s.PublicKeyBytes()) == 33 && s.Verify(id.Marshal()) {
			as.Val = append(append([]int{}, as.Key...), a.ID...)
		} else {
			as.Val = []int{99}
		}
		a.Sig = as
	}
	if t := o.SessionToken(); t != nil {
		at := &absTok1{Issuer: u.userTok(t.Issuer()), AuthKey: []int{251}}
		for i, k := range u.keys {
			pk := k.Public()
			if t.AssertAuthKey(pk) {
				at.AuthKey = []int{i + 1}
			}
		}
		// valid = signed, and by the issuer's key
		if t.VerifySignature() {
			if sg, ok := t.Signature(); ok {
				for i, k := range u.keys {
					if bytes.Equal(k.PublicKeyBytes, sg.PublicKeyBytes()) && u.users[i] == t.Issuer() {
						at.Tag = 1
					}
				}
			}
		}
		a.Tok1 = at
	}
	if t := o.SessionTokenV2(); t != nil {
		a.Tok2 = &absTok2{Subjects: [][]int{}, Issuer: u.userTok(t.OriginalIssuer())}
	}
	a.AssocZero = o.AssociatedObject().IsZero()
	a.HasSplit = o.HasParent()
	a.SplitID = o.SplitID() != nil
	_, a.FirstSet = o.FirstID()
	a.PrevZero = o.GetPreviousID().IsZero()
	var l object.Link
	a.LinkParses = o.ReadLink(&l) == nil
	a.Parent = u.abstract(o.Parent())
	return a
}

// ---- object generator ---------------------------------------------------------------

type genCase struct {
	obj     object.Object // with payload (replicate) — the stream sends `stream`
	stream  []byte        // bytes the client streams in the PUT path
	w       *world
	kind    string
	mut     string
	signer  int // key index that signs (ground truth, informational)
	chunks  [][]byte // PUT path: explicit chunking of `stream` (nil = random chunking)
	forced  bool     // case of the fixed matrix (kind and mutation chosen by the runner)
}

func randPayload(g *rng, n int) []byte {
	b := make([]byte, n)
	for i := range b {
		b[i] = byte(g.n(200)) // never 255/254 (token marker)
	}
	return b
}

func setVersion(o *object.Object, mj, mn uint32) {
	var v version.Version
	v.SetMajor(mj)
	v.SetMinor(mn)
	o.SetVersion(&v)
}

func signWith(o *object.Object, k neofscryptotest.VariableSigner, scheme int) {
	id := o.GetID()
	var s neofscrypto.Signer
	switch scheme {
	case 0:
		s = k.Signer
	case 1:
		s = k.RFC6979
	default:
		s = k.WalletConnect
	}
	var sig neofscrypto.Signature
	if err := sig.Calculate(s, id.Marshal()); err != nil {
		panic(err)
	}
	o.SetSignature(&sig)
}

func (u *universe) sessionV1(g *rng, issuer, authKey int, cnr cid.ID) *session.Object {
	var t session.Object
	t.SetID(uuid.New())
	t.SetExp(1000)
	t.SetIat(1)
	t.SetNbf(1)
	t.BindContainer(cnr)
	t.ForVerb(session.VerbObjectPut)
	t.SetAuthKey(u.keys[authKey].Public())
	if err := t.Sign(user.NewAutoIDSigner(u.keys[issuer].ECDSAPrivateKey)); err != nil {
		panic(err)
	}
	return &t
}

var attrAlphabet = []string{"a", "b", "Name", "k1", "k2"}

func expAttr(v string) object.Attribute { return object.NewAttribute(object.AttributeExpirationEpoch, v) }

// finalize: checksum over csPayload, declared size, ID, signature
func seal(o *object.Object, csPayload []byte, size uint64) {
	o.SetPayloadSize(size)
	h := sha256.Sum256(csPayload)
	o.SetPayloadChecksum(checksum.NewSHA256(h))
	if err := o.CalculateAndSetID(); err != nil {
		panic(err)
	}
}

// base object of the given kind; returns the object (sealed, signed), stream bytes
func (u *universe) genCase(g *rng) *genCase { return u.genCaseF(g, "", "") }

// genCaseF: as genCase, with the kind and/or the mutation fixed by the caller (the same
// random draws are consumed either way).
func (u *universe) genCaseF(g *rng, forceKind, forceMut string) *genCase {
	seenIDs = nil
	c := &genCase{w: newWorld(), forced: forceKind != "" || forceMut != ""}
	w := c.w
	w.Epoch = uint64(5 + g.n(10))
	w.MaxSize = uint64(24 + g.n(40))
	cnr := u.cnrs[g.n(2)]
	signer := g.n(3)
	c.signer = signer
	owner := u.users[signer]
	scheme := g.n(3)
	kinds := []string{"regular", "regular", "regular", "session", "tomb", "lock", "link", "child_first", "child_mid", "child_last", "v1split", "ecpart", "ecpart", "nested", "ec_cnr_regular"}
	c.kind = kinds[g.n(len(kinds))]
	if forceKind != "" {
		c.kind = forceKind
	}
	payload := randPayload(g, g.n(int(w.MaxSize)+1))
	if g.p(1, 10) {
		payload = nil
	}
	o := object.New(cnr, owner)
	setVersion(o, 2, uint32(18+g.n(3)))
	o.SetCreationEpoch(uint64(g.n(int(w.Epoch) + 1)))
	var attrs []object.Attribute
	na := g.n(3)
	for i := 0; i < na; i++ {
		k := attrAlphabet[g.n(len(attrAlphabet))]
		dup := false
		for _, a := range attrs {
			if a.Key() == k {
				dup = true
			}
		}
		if !dup {
			attrs = append(attrs, object.NewAttribute(k, "v"+strconv.Itoa(g.n(5))))
		}
	}
	if g.p(1, 4) {
		attrs = append(attrs, expAttr(strconv.Itoa(int(w.Epoch)+g.n(5))))
	}
	o.SetAttributes(attrs...)
	var parent *object.Object
	mkParent := func(signed bool) *object.Object {
		p := object.New(cnr, owner)
		setVersion(p, 2, 18)
		p.SetCreationEpoch(o.CreationEpoch())
		p.SetAttributes(object.NewAttribute("Name", "parent"))
		pp := randPayload(g, 30)
		if signed {
			seal(p, pp, uint64(len(pp)))
			signWith(p, u.keys[signer], g.n(3))
		}
		return p
	}
	var tok *session.Object
	switch c.kind {
	case "session":
		// owner = issuer (another user), the object is signed by the session key
		issuer := (signer + 1) % 3
		o.SetOwner(u.users[issuer])
		tok = u.sessionV1(g, issuer, signer, cnr)
		o.SetSessionToken(tok)
	case "tomb", "lock":
		if c.kind == "tomb" {
			o.SetType(object.TypeTombstone)
		} else {
			o.SetType(object.TypeLock)
		}
		var target oid.ID
		for j := range target {
			target[j] = byte(g.next())
		}
		payload = nil
		has := false
		for _, a := range attrs {
			if a.Key() == object.AttributeExpirationEpoch {
				has = true
			}
		}
		if !has {
			attrs = append(attrs, expAttr(strconv.Itoa(int(w.Epoch)+1+g.n(5))))
		}
		o.SetAttributes(attrs...)
		o.AssociateObject(target)
	case "link":
		parent = mkParent(true)
		o.SetParent(parent)
		o.SetParentID(parent.GetID())
		var first oid.ID
		first[0] = 7
		o.SetFirstID(first)
		var l object.Link
		var mo object.MeasuredObject
		mo.SetObjectID(first)
		mo.SetObjectSize(10)
		l.SetObjects([]object.MeasuredObject{mo})
		o.WriteLink(l)
		payload = o.Payload()
		if uint64(len(payload)) > w.MaxSize {
			w.MaxSize = uint64(len(payload)) + 3
		}
	case "child_first":
		parent = mkParent(false)
		o.SetParent(parent)
	case "child_mid":
		var first, prev oid.ID
		first[0], prev[0] = 7, 8
		o.SetFirstID(first)
		o.SetPreviousID(prev)
	case "child_last":
		parent = mkParent(true)
		o.SetParent(parent)
		o.SetParentID(parent.GetID())
		var first, prev oid.ID
		first[0], prev[0] = 7, 8
		o.SetFirstID(first)
		o.SetPreviousID(prev)
	case "v1split":
		o.SetSplitID(object.NewSplitID())
		if g.p(1, 2) {
			parent = mkParent(true)
			o.SetParent(parent)
			o.SetParentID(parent.GetID())
		}
	case "nested":
		gp := mkParent(true)
		parent = object.New(cnr, owner)
		setVersion(parent, 2, 18)
		parent.SetAttributes(object.NewAttribute("Name", "mid"))
		parent.SetParent(gp)
		parent.SetParentID(gp.GetID())
		parent.SetSplitID(object.NewSplitID())
		if g.p(1, 3) { // one level too deep
			ggp := mkParent(true)
			gp.SetParent(ggp)
			gp.SetParentID(ggp.GetID())
			gp.SetSplitID(object.NewSplitID())
			seal(gp, nil, 0)
			signWith(gp, u.keys[signer], 0)
			parent.SetParent(gp)
			parent.SetParentID(gp.GetID())
			c.mut = "nesting"
		}
		seal(parent, []byte("xy"), 2)
		signWith(parent, u.keys[signer], 0)
		o.SetParent(parent)
		o.SetParentID(parent.GetID())
		o.SetSplitID(object.NewSplitID())
	case "ec_cnr_regular":
		w.Rules = []ecRule{{2, 1}}
	}
	if c.kind == "ecpart" {
		return u.genECPart(g, c, cnr, signer, forceMut)
	}
	o.SetPayload(nil)
	seal(o, payload, uint64(len(payload)))
	signWith(o, u.keys[signer], scheme)
	c.stream = payload
	u.mutate(g, c, o, payload, signer, scheme, forceMut)
	return c
}

// mutate applies (usually) one mutation, re-sealing so that only the chosen field is wrong
func (u *universe) mutate(g *rng, c *genCase, o *object.Object, payload []byte, signer, scheme int, forceMut string) {
	w := c.w
	reseal := func() {
		cs, _ := o.PayloadChecksum()
		_ = cs
		if err := o.CalculateAndSetID(); err != nil {
			panic(err)
		}
		signWith(o, u.keys[signer], scheme)
	}
	muts := []string{"none", "none", "none", "none", "id", "id_zero", "size_plus", "size_minus", "cs", "cs_missing", "cs_tz", "cs_unknown",
		"owner_zero", "owner_other", "ver_nil", "ver_old", "ver_217", "ver_27", "attr_zero_key", "attr_zero_val", "attr_dup", "attr_empty",
		"exp_bad", "exp_plus", "exp_overflow", "exp_past", "exp_past_locked", "exp_past_lockerr", "exp_now", "sig_nil", "sig_other_key", "sig_other_id", "sig_corrupt",
		"sig_scheme", "sig_key_garbage", "sig_key_long", "sig_val_long", "sig_n3_session", "sig_unsupported", "tok_authkey", "tok_invalid", "tok_issuer", "tok_both",
		"ec_attr_no_rules", "type_sg", "type_other", "sys_payload", "sys_assoc", "sys_no_exp", "hdr_big", "cnr_zero", "cnr_missing", "max_zero", "too_big",
		"content_split", "content_tomb", "link_garbage", "link_empty", "link_no_first", "parent_attr", "parent_id", "parent_sig", "parent_owner",
		"mid_no_prev", "link_parent_unsigned", "v1_first", "quota", "quota_err", "store_fail", "stream_more", "stream_less", "stream_diff", "hdr_payload",
		"link_empty_split", "sys_payload_tomb", "stream_plus1", "stream_exact1"}
	m := muts[g.n(len(muts))]
	if forceMut != "" {
		m = forceMut
	}
	if c.mut != "" {
		m = "none"
	} else {
		c.mut = m
	}
	attrs := o.Attributes()
	other := (signer + 1) % 3
	switch m {
	case "id":
		id := o.GetID()
		id[3] ^= 0x40
		o.SetID(id)
		signWith(o, u.keys[signer], scheme)
	case "id_zero":
		o.ResetID()
	case "size_plus":
		o.SetPayloadSize(uint64(len(payload)) + 1 + uint64(g.n(3)))
		reseal()
	case "size_minus":
		if len(payload) > 0 {
			o.SetPayloadSize(uint64(len(payload)) - 1)
			reseal()
		}
	case "cs":
		p2 := append(bytes.Clone(payload), 1)
		h := sha256.Sum256(p2)
		o.SetPayloadChecksum(checksum.NewSHA256(h))
		reseal()
	case "cs_missing":
		// rebuild the object without the checksum field
		var o2 object.Object
		o.CopyTo(&o2)
		*o = rebuildWithoutChecksum(&o2)
		reseal()
	case "cs_tz":
		o.SetPayloadChecksum(checksum.New(checksum.TillichZemor, make([]byte, 64)))
		reseal()
	case "cs_unknown":
		o.SetPayloadChecksum(checksum.New(checksum.Type(7), make([]byte, 32)))
		reseal()
	case "owner_zero":
		o.SetOwner(user.ID{})
		reseal()
	case "owner_other":
		if c.kind != "session" {
			o.SetOwner(u.users[other])
			reseal()
		}
	case "ver_nil":
		o.SetVersion(nil)
		reseal()
	case "ver_old":
		setVersion(o, 2, uint32(g.n(7)))
		reseal()
	case "ver_217":
		setVersion(o, 2, uint32(8+g.n(10)))
		if g.p(1, 2) { // legacy object signed by a key that is not the owner's
			o.SetOwner(u.users[other])
		}
		reseal()
	case "ver_27":
		setVersion(o, uint32(g.n(5)), uint32(g.n(30)))
		reseal()
	case "attr_zero_key":
		o.SetAttributes(append(attrs, object.NewAttribute("z\x00k", "v"))...)
		reseal()
	case "attr_zero_val":
		o.SetAttributes(append(attrs, object.NewAttribute("zk", "v\x00"))...)
		reseal()
	case "attr_dup":
		if len(attrs) > 0 {
			o.SetAttributes(append(attrs, object.NewAttribute(attrs[g.n(len(attrs))].Key(), "w"))...)
		} else {
			o.SetAttributes(object.NewAttribute("d", "1"), object.NewAttribute("x", "1"), object.NewAttribute("d", "2"))
		}
		reseal()
	case "attr_empty":
		o.SetAttributes(append(attrs, object.NewAttribute("ek", ""))...)
		reseal()
	case "exp_bad", "exp_plus", "exp_overflow", "exp_past", "exp_past_locked", "exp_past_lockerr", "exp_now":
		var na []object.Attribute
		for _, a := range attrs {
			if a.Key() != object.AttributeExpirationEpoch {
				na = append(na, a)
			}
		}
		v := ""
		switch m {
		case "exp_bad":
			v = []string{"12x", "-1", " 5", "0x10", "1_0"}[g.n(5)]
		case "exp_plus":
			v = "+" + strconv.Itoa(int(w.Epoch)+2)
		case "exp_overflow":
			v = []string{"18446744073709551616", "18446744073709551615", "99999999999999999999999"}[g.n(3)]
		case "exp_now":
			v = strconv.Itoa(int(w.Epoch))
		default:
			v = strconv.Itoa(g.n(int(w.Epoch)))
			if m == "exp_past_locked" {
				w.LockState = 1
			} else if m == "exp_past_lockerr" {
				w.LockState = 2
			}
		}
		o.SetAttributes(append(na, expAttr(v))...)
		reseal()
	case "sig_nil":
		// without a signature the stream takes the trusted path; the replicate path rejects
		o.SetSignature(nil)
	case "sig_other_key":
		signWith(o, u.keys[other], scheme)
	case "sig_other_id":
		id := o.GetID()
		var id2 oid.ID
		id2[0] = 9
		o.SetID(id2)
		signWith(o, u.keys[signer], scheme)
		o.SetID(id)
	case "sig_corrupt":
		s := o.Signature()
		v := bytes.Clone(s.Value())
		v[len(v)/2] ^= 0x20
		ns := neofscrypto.NewSignatureFromRawKey(s.Scheme(), s.PublicKeyBytes(), v)
		o.SetSignature(&ns)
	case "sig_scheme":
		s := o.Signature()
		ns := neofscrypto.NewSignatureFromRawKey(neofscrypto.Scheme((int(s.Scheme())+1)%3), s.PublicKeyBytes(), s.Value())
		o.SetSignature(&ns)
	case "sig_key_garbage":
		s := o.Signature()
		k := bytes.Clone(s.PublicKeyBytes())
		k[0] = 9
		ns := neofscrypto.NewSignatureFromRawKey(s.Scheme(), k, s.Value())
		o.SetSignature(&ns)
	case "sig_key_long":
		s := o.Signature()
		ns := neofscrypto.NewSignatureFromRawKey(s.Scheme(), make([]byte, 1024+g.n(2)), s.Value())
		o.SetSignature(&ns)
	case "sig_val_long":
		s := o.Signature()
		ns := neofscrypto.NewSignatureFromRawKey(s.Scheme(), s.PublicKeyBytes(), make([]byte, 1024+g.n(2)))
		o.SetSignature(&ns)
	case "sig_n3_session":
		if c.kind == "session" {
			s := o.Signature()
			ns := neofscrypto.NewSignatureFromRawKey(neofscrypto.N3, s.PublicKeyBytes(), s.Value())
			o.SetSignature(&ns)
		}
	case "sig_unsupported":
		s := o.Signature()
		ns := neofscrypto.NewSignatureFromRawKey(neofscrypto.Scheme(4+g.n(3)), s.PublicKeyBytes(), s.Value())
		o.SetSignature(&ns)
	case "tok_authkey":
		if c.kind == "session" {
			issuer := (signer + 1) % 3
			o.SetSessionToken(u.sessionV1(g, issuer, (signer+2)%3, o.GetContainerID()))
			reseal()
		}
	case "tok_invalid":
		if c.kind == "session" {
			issuer := (signer + 1) % 3
			t := u.sessionV1(g, issuer, signer, o.GetContainerID())
			if g.p(1, 2) { // signed by a key that is not the issuer's
				t.SetIssuer(u.users[issuer])
				if err := t.SetSignature(u.keys[(issuer+1)%3].Signer); err != nil {
					panic(err)
				}
			} else { // body changed after signing
				t.SetExp(2000)
			}
			o.SetSessionToken(t)
			reseal()
		}
	case "tok_issuer":
		if c.kind == "session" {
			o.SetOwner(u.users[3])
			reseal()
		}
	case "tok_both":
		if c.kind == "session" {
			var t2 sessionv2.Token
			o.SetSessionTokenV2(&t2)
			reseal()
		}
	case "ec_attr_no_rules":
		var na []object.Attribute
		ec := object.NewAttribute(iec.AttributePrefix+[]string{"RULE_IDX", "PART_IDX", "X"}[g.n(3)], "0")
		if g.p(1, 2) {
			na = append([]object.Attribute{ec}, attrs...)
		} else {
			na = append(attrs, ec)
		}
		o.SetAttributes(na...)
		reseal()
	case "type_sg":
		o.SetType(object.TypeStorageGroup) //nolint:staticcheck
		reseal()
	case "type_other":
		o.SetType(object.Type(7))
		if g.p(1, 2) {
			w.Rules = []ecRule{{2, 1}}
		}
		reseal()
	case "sys_payload", "sys_payload_tomb":
		if m == "sys_payload_tomb" { // payload > 0 and the tombstone verifier says no as well
			w.TombOK = false
		}
		if c.kind == "tomb" || c.kind == "lock" {
			payload = []byte{1, 2, 3}
			c.stream = payload
			h := sha256.Sum256(payload)
			o.SetPayloadChecksum(checksum.NewSHA256(h))
			o.SetPayloadSize(3)
			reseal()
		}
	case "sys_assoc":
		if c.kind == "tomb" || c.kind == "lock" {
			var na []object.Attribute
			for _, a := range attrs {
				if a.Key() != object.AttributeAssociatedObject {
					na = append(na, a)
				}
			}
			o.SetAttributes(na...)
			reseal()
		}
	case "sys_no_exp":
		if c.kind == "tomb" || c.kind == "lock" {
			var na []object.Attribute
			for _, a := range attrs {
				if a.Key() != object.AttributeExpirationEpoch {
					na = append(na, a)
				}
			}
			o.SetAttributes(na...)
			reseal()
		}
	case "hdr_big":
		o.SetAttributes(append(attrs, object.NewAttribute("big", strings.Repeat("x", 16300+g.n(120))))...)
		reseal()
	case "cnr_zero":
		o.SetContainerID(cid.ID{})
		reseal()
	case "cnr_missing":
		w.CnrFound = false
	case "max_zero":
		w.MaxSize = 0
	case "too_big":
		if len(payload) > 1 {
			w.MaxSize = uint64(len(payload) - 1)
		}
	case "content_split":
		w.SplitOK = false
	case "content_tomb":
		w.TombOK = false
	case "link_garbage":
		if c.kind == "link" {
			payload = []byte{0xff, 0xff, 0xff, 1}
			c.stream = payload
			h := sha256.Sum256(payload)
			o.SetPayloadChecksum(checksum.NewSHA256(h))
			o.SetPayloadSize(uint64(len(payload)))
			reseal()
		}
	case "link_empty", "link_empty_split":
		if m == "link_empty_split" { // empty payload and the split verifier says no as well
			w.SplitOK = false
		}
		if c.kind == "link" {
			payload = nil
			c.stream = nil
			h := sha256.Sum256(nil)
			o.SetPayloadChecksum(checksum.NewSHA256(h))
			o.SetPayloadSize(0)
			reseal()
		}
	case "link_no_first":
		if c.kind == "link" {
			m := o.ProtoMessage()
			m.Header.Split.First = nil
			var r object.Object
			if err := r.FromProtoMessage(m); err != nil {
				panic(err)
			}
			*o = r
			reseal()
		}
	case "parent_attr", "parent_id", "parent_sig", "parent_owner":
		p := o.Parent()
		if p != nil && p.Signature() != nil {
			switch m {
			case "parent_attr":
				p.SetAttributes(object.NewAttribute("p\x00", "v"))
				_ = p.CalculateAndSetID()
				signWith(p, u.keys[signer], 0)
			case "parent_id":
				id := p.GetID()
				id[5] ^= 1
				p.SetID(id)
				signWith(p, u.keys[signer], 0)
			case "parent_sig":
				signWith(p, u.keys[other], 0)
			case "parent_owner":
				p.SetOwner(user.ID{})
				_ = p.CalculateAndSetID()
				signWith(p, u.keys[signer], 0)
			}
			o.SetParent(p)
			o.SetParentID(p.GetID())
			reseal()
		}
	case "mid_no_prev":
		if c.kind == "child_mid" || c.kind == "child_last" {
			o.ResetPreviousID()
			reseal()
		}
	case "link_parent_unsigned":
		if c.kind == "link" {
			p := o.Parent()
			p.SetSignature(nil)
			o.SetParent(p)
			reseal()
		}
	case "v1_first":
		if c.kind == "v1split" {
			var first oid.ID
			first[0] = 7
			o.SetFirstID(first)
			reseal()
		}
	case "quota":
		w.QuotaHard = uint64(g.n(len(payload) + 2))
	case "quota_err":
		w.QuotaErr = true
		w.QuotaHard = 0
	case "store_fail":
		for i := 0; i < 16; i++ {
			w.FailPut[i] = true
		}
	case "stream_more":
		c.stream = append(bytes.Clone(payload), randPayload(g, 1+g.n(4))...)
	case "stream_less":
		if len(payload) > 0 {
			c.stream = payload[:g.n(len(payload))]
		}
	case "stream_diff":
		if len(payload) > 0 {
			c.stream = bytes.Clone(payload)
			c.stream[g.n(len(payload))] ^= 1
		}
	case "stream_plus1":
		// exactly one byte more than declared, and that byte is a chunk of its own
		c.stream = append(bytes.Clone(payload), randPayload(g, 1)...)
		c.chunks = append(chunking(g, payload), c.stream[len(payload):])
	case "stream_exact1":
		// exactly the declared size, the last byte is a chunk of its own
		if len(payload) > 0 {
			c.chunks = append(chunking(g, payload[:len(payload)-1]), payload[len(payload)-1:])
		}
	case "hdr_payload":
		// handled by the runner: the header object itself carries a payload chunk
	}
	o.SetPayload(c.stream)
	c.obj = *o
}

func rebuildWithoutChecksum(o *object.Object) object.Object {
	m := o.ProtoMessage()
	m.Header.PayloadHash = nil
	var r object.Object
	if err := r.FromProtoMessage(m); err != nil {
		panic(err)
	}
	return r
}

// EC part objects in a container with EC rules
func (u *universe) genECPart(g *rng, c *genCase, cnr cid.ID, signer int, forceMut string) *genCase {
	w := c.w
	w.Rules = [][]ecRule{{{2, 1}}, {{3, 1}, {2, 2}}, {{1, 1}, {2, 1}}}[g.n(3)]
	w.RepN = g.n(2)
	owner := u.users[signer]
	parent := object.New(cnr, owner)
	setVersion(parent, 2, 18)
	parent.SetCreationEpoch(uint64(g.n(int(w.Epoch) + 1)))
	ppl := randPayload(g, 1+g.n(40))
	var hashes []string
	var partsByRule [][][]byte
	for _, r := range w.Rules {
		parts, sums, err := iec.Encode(iec.Rule{DataPartNum: uint8(r.D), ParityPartNum: uint8(r.P)}, ppl)
		if err != nil {
			panic(err)
		}
		partsByRule = append(partsByRule, parts)
		hashes = append(hashes, sums...)
	}
	parent.SetAttributes(object.NewAttribute("Name", "ecparent"), object.NewAttribute(iec.AttributePartsHashes, strings.Join(hashes, ",")))
	seal(parent, ppl, uint64(len(ppl)))
	signWith(parent, u.keys[signer], g.n(3))
	ri := g.n(len(w.Rules))
	pi := g.n(w.Rules[ri].D + w.Rules[ri].P)
	partPl := partsByRule[ri][pi]
	muts := []string{"none", "none", "none", "none", "ec_mix", "ec_mix_first", "ec_part_oob", "ec_rule_oob", "ec_idx_nan", "ec_idx_neg", "ec_idx_plus", "ec_only_rule", "ec_only_part",
		"ec_size", "ec_hash", "ec_parent_nohash", "ec_parent_badattr", "ec_signed", "ec_session", "ec_no_parent", "ec_parent_ver", "ec_parent_cnr",
		"ec_parent_owner", "ec_parent_epoch", "ec_no_cs", "ec_wrong_part", "stream_more", "stream_less", "stream_diff", "id", "attr_after", "store_fail", "quota", "ver_old", "exp_past", "parent_id", "parent_sig",
		"stream_plus1", "stream_exact1", "ec_parent_unsigned", "ec_parent_foreign_owner"}
	m := muts[g.n(len(muts))]
	if forceMut != "" {
		m = forceMut
	}
	c.mut = m
	switch m {
	case "ec_parent_nohash":
		parent.SetAttributes(object.NewAttribute("Name", "ecparent"))
		seal(parent, ppl, uint64(len(ppl)))
		signWith(parent, u.keys[signer], 0)
	case "ec_parent_badattr":
		parent.SetAttributes(object.NewAttribute(iec.AttributeRuleIdx, "0"), object.NewAttribute(iec.AttributePartsHashes, strings.Join(hashes, ",")))
		seal(parent, ppl, uint64(len(ppl)))
		signWith(parent, u.keys[signer], 0)
	case "ec_hash":
		hs := bytes.Clone([]byte(strings.Join(hashes, ",")))
		// damage the checksum of exactly this part
		off := 0
		for i, r := range w.Rules {
			if i == ri {
				off += 65 * pi
				break
			}
			off += 65 * (r.D + r.P)
		}
		if hs[off+3] == 'a' {
			hs[off+3] = 'b'
		} else {
			hs[off+3] = 'a'
		}
		parent.SetAttributes(object.NewAttribute(iec.AttributePartsHashes, string(hs)))
		seal(parent, ppl, uint64(len(ppl)))
		signWith(parent, u.keys[signer], 0)
	case "parent_id":
		id := parent.GetID()
		id[4] ^= 2
		parent.SetID(id)
		signWith(parent, u.keys[signer], 0)
	case "parent_sig":
		// the parent header is signed by a stranger on behalf of the declared owner
		signWith(parent, u.keys[(signer+1)%3], 0)
	case "ec_parent_unsigned":
		// EC parts are unsigned by design: the signed parent header is their only authentication
		parent.SetSignature(nil)
	case "ec_parent_foreign_owner":
		// the parent header (and with it the part) names another user as the owner, the signer signs
		parent.SetOwner(u.users[(signer+1)%3])
		seal(parent, ppl, uint64(len(ppl)))
		signWith(parent, u.keys[signer], g.n(3))
	case "ec_wrong_part":
		pi2 := (pi + 1) % (w.Rules[ri].D + w.Rules[ri].P)
		partPl = partsByRule[ri][pi2]
	}
	part, err := iec.FormObjectForECPart(nil, *parent, partPl, iec.PartInfo{RuleIndex: ri, Index: pi})
	if err != nil {
		panic(err)
	}
	o := &part
	reID := func() { _ = o.CalculateAndSetID() }
	setIdx := func(r, p string) {
		var na []object.Attribute
		if r != "" {
			na = append(na, object.NewAttribute(iec.AttributeRuleIdx, r))
		}
		if p != "" {
			na = append(na, object.NewAttribute(iec.AttributePartIdx, p))
		}
		o.SetAttributes(na...)
		reID()
	}
	c.stream = partPl
	switch m {
	case "ec_mix":
		o.SetAttributes(append(o.Attributes(), object.NewAttribute("plain", "1"))...)
		reID()
	case "ec_mix_first":
		o.SetAttributes(append([]object.Attribute{object.NewAttribute("plain", "1")}, o.Attributes()...)...)
		reID()
	case "ec_part_oob":
		setIdx(strconv.Itoa(ri), strconv.Itoa(w.Rules[ri].D+w.Rules[ri].P+g.n(2)))
	case "ec_rule_oob":
		setIdx(strconv.Itoa(len(w.Rules)+g.n(2)), strconv.Itoa(pi))
	case "ec_idx_nan":
		setIdx(strconv.Itoa(ri), []string{"x", "1x", "9223372036854775808", "1.0"}[g.n(4)])
	case "ec_idx_neg":
		if g.p(1, 2) {
			setIdx("-"+strconv.Itoa(ri), strconv.Itoa(pi))
		} else {
			setIdx(strconv.Itoa(ri), "-1")
		}
	case "ec_idx_plus":
		setIdx("+"+strconv.Itoa(ri), "+"+strconv.Itoa(pi))
	case "ec_only_rule":
		setIdx(strconv.Itoa(ri), "")
	case "ec_only_part":
		setIdx("", strconv.Itoa(pi))
	case "ec_size":
		o.SetPayloadSize(o.PayloadSize() + 1)
		reID()
		c.stream = append(bytes.Clone(partPl), 0)
	case "ec_signed":
		signWith(o, u.keys[signer], 0)
	case "ec_session":
		o.SetSessionToken(u.sessionV1(g, signer, signer, cnr))
		reID()
	case "ec_no_parent":
		o.SetParent(nil)
		o.ResetParentID()
		reID()
	case "ec_parent_ver":
		setVersion(o, 2, 19)
		reID()
	case "ec_parent_cnr":
		o.SetContainerID(u.cnrs[2])
		reID()
	case "ec_parent_owner":
		o.SetOwner(u.users[(signer+1)%3])
		reID()
	case "ec_parent_epoch":
		o.SetCreationEpoch(parent.CreationEpoch() + 1)
		reID()
	case "ec_no_cs":
		*o = rebuildWithoutChecksum(o)
		reID()
	case "id":
		id := o.GetID()
		id[2] ^= 4
		o.SetID(id)
	case "attr_after":
		// EC attributes followed by an attribute with a zero byte: still all EC-prefixed
		o.SetAttributes(append(o.Attributes(), object.NewAttribute(iec.AttributePrefix+"Z", "a\x00"))...)
		reID()
	case "store_fail":
		for i := 0; i < 16; i++ {
			w.FailPut[i] = true
		}
	case "quota":
		w.QuotaHard = uint64(g.n(len(partPl) + 2))
	case "ver_old":
		setVersion(o, 2, 17)
		reID()
	case "exp_past":
		o.SetAttributes(append(o.Attributes(), object.NewAttribute(iec.AttributePrefix+"E", "1"))...)
		reID()
	case "stream_more":
		c.stream = append(bytes.Clone(partPl), randPayload(g, 1+g.n(3))...)
	case "stream_less":
		if len(partPl) > 0 {
			c.stream = partPl[:g.n(len(partPl))]
		}
	case "stream_diff":
		if len(partPl) > 0 {
			c.stream = bytes.Clone(partPl)
			c.stream[g.n(len(partPl))] ^= 1
		}
	case "stream_plus1":
		c.stream = append(bytes.Clone(partPl), randPayload(g, 1)...)
		c.chunks = append(chunking(g, partPl), c.stream[len(partPl):])
	case "stream_exact1":
		if len(partPl) > 0 {
			c.chunks = append(chunking(g, partPl[:len(partPl)-1]), partPl[len(partPl)-1:])
		}
	}
	if uint64(len(c.stream)) > w.MaxSize {
		w.MaxSize = uint64(len(c.stream)) + 2
	}
	o.SetPayload(c.stream)
	c.obj = *o
	return c
}

func hexOf(b []byte) string { return hex.EncodeToString(b) }
