//go:build verif

package main

import (
	"bytes"
	"context"
	"crypto/sha256"
	"encoding/hex"
	"errors"
	"io/fs"
	"os"
	"path/filepath"
	"sort"
	"strconv"
	"time"

	meta "github.com/nspcc-dev/neofs-node/pkg/local_object_storage/metabase"
	"github.com/nspcc-dev/neofs-node/pkg/local_object_storage/shard"
	"github.com/nspcc-dev/neofs-node/pkg/local_object_storage/shard/mode"
	apistatus "github.com/nspcc-dev/neofs-sdk-go/client/status"
	cid "github.com/nspcc-dev/neofs-sdk-go/container/id"
	"github.com/nspcc-dev/neofs-sdk-go/object"
	oid "github.com/nspcc-dev/neofs-sdk-go/object/id"
)

// operation codes shared with coq/Shard/ROModeCheck.v (op_of)
const (
	opPut = iota
	opDelete
	opMarkGarbage
	opInhumeContainer
	opDeleteContainer
	opRestore
	opRevive
	opFlushWC
	opGCPass
	opEpochEvent
	opGet
	opExists
	opList
	opDump
	opCount
)

type c14Step struct {
	Op      int  `json:"op"`
	Cls     int  `json:"cls"`     // 0 ok/returned, 1 ErrReadOnlyMode, 2 ErrDegradedMode, 3 write-cache disabled, 4 other error
	Changed bool `json:"changed"` // on-disk snapshot differs from the one taken when the mode was set
}

type c14Case struct {
	ID       int       `json:"id"`
	Mode     uint32    `json:"mode"`
	WC       bool      `json:"wc"`
	Objects  int       `json:"objects"`
	InCache  int       `json:"in_cache"` // objects still in the write-cache when the mode was set
	Garbage  int       `json:"garbage"`
	Files    int       `json:"files"`
	Steps    []c14Step `json:"steps"`
	EndSame  bool      `json:"end_same"` // snapshot after waiting for background workers
	Snapshot string    `json:"snapshot"`
}

// snapshot = SHA-256 over (relative path, mode bits, content) of every file under the shard
// directory: blobstor tree, write-cache tree and the metabase file
func snapshot(dir string) (string, int) {
	var names []string
	_ = filepath.WalkDir(dir, func(p string, d fs.DirEntry, err error) error {
		if err == nil {
			names = append(names, p)
		}
		return nil
	})
	sort.Strings(names)
	h := sha256.New()
	n := 0
	for _, p := range names {
		st, err := os.Lstat(p)
		if err != nil {
			continue
		}
		rel, _ := filepath.Rel(dir, p)
		h.Write([]byte(rel))
		h.Write([]byte{0})
		if st.Mode().IsRegular() {
			b, _ := os.ReadFile(p)
			h.Write([]byte(strconv.Itoa(len(b))))
			h.Write([]byte{0})
			h.Write(b)
			n++
		} else {
			h.Write([]byte{1})
		}
	}
	return hex.EncodeToString(h.Sum(nil)), n
}

func modeClass(err error) int {
	switch {
	case err == nil:
		return 0
	case errors.Is(err, shard.ErrReadOnlyMode):
		return 1
	case errors.Is(err, shard.ErrDegradedMode):
		return 2
	case err.Error() == "write-cache is disabled":
		return 3
	default:
		return 4
	}
}

func c14One(r *rng, id int) c14Case {
	c := c14Case{ID: id, WC: r.coin(1, 2), Steps: []c14Step{}}
	if r.coin(1, 2) {
		c.Mode = uint32(mode.ReadOnly)
	} else {
		c.Mode = uint32(mode.DegradedReadOnly)
	}
	dir := tempDir()
	defer os.RemoveAll(dir)
	pay := &payFake{marks: map[cid.ID]int64{}, errs: map[cid.ID]bool{}}
	env := mustShard(dir, envOpts{wc: c.WC, extra: []shard.Option{
		shard.WithContainerPayments(pay),
		shard.WithGCRemoverSleepInterval(15 * time.Millisecond), // the real ticker runs during the read-only period
	}})
	sh := env.sh
	// ---- populate in read-write mode
	var objs []*object.Object
	n := 3 + r.intn(5)
	flushAt := -1
	if c.WC {
		flushAt = r.intn(n)
	}
	for i := 0; i < n; i++ {
		o := mkObject(r, mkCID(r, 3), payloadLen(r))
		if err := sh.Put(o, nil); err != nil {
			fatal("c14: put: %v", err)
		}
		objs = append(objs, o)
		if i == flushAt {
			_ = sh.FlushWriteCache(false)
		}
	}
	c.Objects = n
	if c.WC {
		c.InCache = n - 1 - flushAt
	}
	// garbage for the GC pass to want to remove, an unpaid container for the epoch handler
	// to want to drop, an expired epoch for the collector
	for i := 0; i < n; i++ {
		if r.coin(1, 3) {
			a := objs[i].Address()
			if sh.MarkGarbage(a.Container(), []oid.ID{a.Object()}, meta.GarbageMarkDefault) == nil {
				c.Garbage++
			}
		}
	}
	for k := 1; k <= 3; k++ {
		var cn cid.ID
		cn[0] = byte(k)
		cn[31] = 0xC1
		pay.marks[cn] = 0 // unpaid since epoch 0: the handler of epoch >= 3 wants to delete it
	}
	if err := sh.SetMode(mode.Mode(c.Mode)); err != nil {
		fatal("c14: set mode: %v", err)
	}
	time.Sleep(5 * time.Millisecond)
	base, files := snapshot(dir)
	c.Snapshot, c.Files = base[:16], files

	// a dump of another shard to restore from
	var dumpBuf bytes.Buffer
	dumpBuf.Write(shard.VerifDumpMagic())
	ob := mkObject(r, mkCID(r, 3), 10).Marshal()
	dumpBuf.Write([]byte{byte(len(ob)), byte(len(ob) >> 8), 0, 0})
	dumpBuf.Write(ob)

	nsteps := 8 + r.intn(10)
	for i := 0; i < nsteps; i++ {
		op := r.intn(opCount)
		if i < opCount && id%4 == 0 {
			op = i // every fourth case walks through all operations once
		}
		target := objs[r.intn(len(objs))].Address()
		var err error
		switch op {
		case opPut:
			o := mkObject(r, mkCID(r, 3), payloadLen(r))
			err = sh.Put(o, nil)
		case opDelete:
			err = sh.Delete(target.Container(), []oid.ID{target.Object()})
		case opMarkGarbage:
			mk := meta.GarbageMarkDefault
			err = sh.MarkGarbage(target.Container(), []oid.ID{target.Object()}, mk)
		case opInhumeContainer:
			err = sh.InhumeContainer(target.Container())
		case opDeleteContainer:
			err = sh.DeleteContainer(context.Background(), target.Container())
		case opRestore:
			_, _, err = sh.Restore(bytes.NewReader(dumpBuf.Bytes()), r.coin(1, 2))
		case opRevive:
			_, err = sh.ReviveObject(target)
		case opFlushWC:
			err = sh.FlushWriteCache(r.coin(1, 2))
		case opGCPass:
			sh.VerifRemoveGarbage()
		case opEpochEvent:
			e := uint64(3 + r.intn(8))
			env.epoch.v = e
			if r.coin(1, 2) {
				sh.VerifHandleEpoch(e)
			} else {
				sh.NotificationChannel() <- shard.EventNewEpoch(e)
				time.Sleep(3 * time.Millisecond)
			}
		case opGet:
			// the read works if it hands out the object or answers with its status
			// (objects marked as garbage before the mode switch are "already removed")
			_, gerr := sh.Get(target, false)
			if gerr != nil && !errors.Is(gerr, apistatus.ErrObjectAlreadyRemoved) && !errors.Is(gerr, apistatus.ErrObjectNotFound) {
				err = gerr
			}
		case opExists:
			_, err = sh.Exists(target, true)
			if errors.Is(err, apistatus.ErrObjectAlreadyRemoved) || errors.Is(err, apistatus.ErrObjectNotFound) {
				err = nil // the read worked: it answered with the object's status
			}
		case opList:
			_, err = sh.List()
		case opDump:
			var w bytes.Buffer
			_, err = sh.Dump(&w, false)
		}
		now, _ := snapshot(dir)
		c.Steps = append(c.Steps, c14Step{Op: op, Cls: modeClass(err), Changed: now != base})
	}
	// let the real background workers (GC ticker, write-cache flush loop, event listener) run
	time.Sleep(60 * time.Millisecond)
	end, _ := snapshot(dir)
	c.EndSame = end == base
	_ = sh.Close()
	return c
}

func c14Main(args []string) {
	n := 40
	if len(args) >= 1 {
		n, _ = strconv.Atoi(args[0])
	}
	only := -1
	if len(args) >= 2 {
		only, _ = strconv.Atoi(args[1])
	}
	seed := seedFromEnv()
	for i := 0; i < n; i++ {
		if only >= 0 && i != only {
			continue
		}
		r := newRng(seed ^ uint64(i)*0x100000001B3 ^ 0xC14)
		emit(c14One(r, i))
	}
}
