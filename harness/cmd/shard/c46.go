//go:build verif

package main

import (
	"bytes"
	"crypto/sha256"
	"encoding/binary"
	"encoding/hex"
	"errors"
	"io"
	"os"
	"sort"
	"strconv"
	"time"

	"github.com/nspcc-dev/neofs-node/pkg/local_object_storage/shard"
	"github.com/nspcc-dev/neofs-node/pkg/local_object_storage/shard/mode"
	"github.com/nspcc-dev/neofs-sdk-go/checksum"
	apistatus "github.com/nspcc-dev/neofs-sdk-go/client/status"
	cid "github.com/nspcc-dev/neofs-sdk-go/container/id"
	"github.com/nspcc-dev/neofs-sdk-go/object"
	oid "github.com/nspcc-dev/neofs-sdk-go/object/id"
)

// chunkReader hands out the stream in the given chunk sizes: one Read returns at most
// the rest of the current chunk (the Coq model's read_once). After the sizes are used
// up the rest of the stream is one chunk. A zero size is a Read returning (0, nil).
// With eager set, io.EOF is returned together with the last bytes.
type chunkReader struct {
	chunks [][]byte
	eager  bool
}

func newChunkReader(stream []byte, sizes []int, eager bool) *chunkReader {
	r := &chunkReader{eager: eager}
	s := stream
	for _, n := range sizes {
		if len(s) == 0 {
			break
		}
		if n > len(s) {
			n = len(s)
		}
		r.chunks = append(r.chunks, s[:n])
		s = s[n:]
	}
	if len(s) > 0 {
		r.chunks = append(r.chunks, s)
	}
	return r
}

func (r *chunkReader) Read(p []byte) (int, error) {
	if len(r.chunks) == 0 {
		return 0, io.EOF
	}
	c := r.chunks[0]
	n := copy(p, c)
	if n == len(c) {
		r.chunks = r.chunks[1:]
	} else {
		r.chunks[0] = c[n:]
	}
	if r.eager && len(r.chunks) == 0 {
		return n, io.EOF
	}
	return n, nil
}

type oracleEntry struct {
	Off int `json:"off"` // body = stream[off:off+len]
	Len int `json:"len"`
	U int    `json:"u"` // class of the error object.Unmarshal returns (0 = accepted)
	S int    `json:"s"` // Put: 0 stored, 1 ignored (expired / already removed), 2+k failed with error class k
}

type c46Case struct {
	ID        int           `json:"id"`
	WC        bool          `json:"wc"`      // source shard has a write-cache
	WCB       bool          `json:"wcb"`     // target shard has a write-cache
	Objs      []string      `json:"objs"`    // objects put into the source shard (raw bytes, hex)
	Perm      []int         `json:"perm"`    // dump order: index into objs (-1 = unknown record)
	DumpCount int           `json:"dump_count"`
	DumpErr   bool          `json:"dump_err"`
	Dump      string        `json:"dump"`
	Kind      int           `json:"kind"`    // 0 clean, 1 bodies corrupted (framing intact), 2 bad magic, 3 framing damaged
	Recs      [][2]int      `json:"recs"`    // kind 0/1: record bodies of the stream, in order (offset, length)
	DumpRecs  [][2]int      `json:"dump_recs"` // record bodies of the dump (offset, length), same order as perm
	Stream    string        `json:"stream"`  // stream given to Restore (hex), empty when same
	Same      bool          `json:"same"`    // stream is the dump itself
	Sizes     []int         `json:"sizes"`
	Eager     bool          `json:"eager"`
	Ign       bool          `json:"ign"`
	Oracle    []oracleEntry `json:"oracle"`
	Count     int           `json:"count"`
	Fail      int           `json:"fail"`
	Err       int           `json:"err"` // 0 nil, 1 invalid magic, 2 io.EOF, 3 io.ErrUnexpectedEOF, 4 other
	Stored    []string      `json:"stored"`
	Engine    bool          `json:"engine"`
	Big       bool          `json:"big"`       // size-class case (objects at buffer-size-like boundaries)
	ObjSizes  []int         `json:"obj_sizes"` // encoded sizes of the objects put
}

func errClass46(err error) int {
	switch {
	case err == nil:
		return 0
	case errors.Is(err, shard.ErrInvalidMagic):
		return 1
	case errors.Is(err, io.ErrUnexpectedEOF):
		return 3
	case errors.Is(err, io.EOF):
		return 2
	default:
		return 4
	}
}

func putClass(err error) int {
	switch {
	case err == nil:
		return 0
	case shard.IsErrObjectExpired(err), errors.Is(err, apistatus.ErrObjectAlreadyRemoved):
		return 1
	default:
		return 2 + errClass46(err)
	}
}

// flat walk over an in-memory stream: used only to enumerate candidate bodies for the
// Unmarshal / Put oracle table (the abstract functions of the Coq model)
func flatBodies(stream []byte) [][]byte {
	var res [][]byte
	for _, ol := range flatOffsets(stream) {
		res = append(res, stream[ol[0]:ol[0]+ol[1]])
	}
	return res
}

func flatOffsets(stream []byte) [][2]int {
	res := [][2]int{}
	if len(stream) < 4 {
		return res
	}
	p := 4
	for len(stream)-p >= 4 {
		sz := int(binary.LittleEndian.Uint32(stream[p : p+4]))
		p += 4
		if sz > len(stream)-p {
			break
		}
		res = append(res, [2]int{p, sz})
		p += sz
	}
	return res
}

func genSizes(r *rng, total int) []int {
	var sizes []int
	switch r.intn(8) {
	case 0: // whole stream at once
		return nil
	case 1: // one byte at a time
		for i := 0; i < total; i++ {
			sizes = append(sizes, 1)
		}
	case 2: // tiny chunks
		for left := total; left > 0; {
			n := 1 + r.intn(7)
			sizes = append(sizes, n)
			left -= n
		}
	case 3: // with empty reads in between
		for left := total; left > 0; {
			n := r.intn(12)
			sizes = append(sizes, n)
			left -= n
		}
	case 4: // medium
		for left := total; left > 0; {
			n := 16 + r.intn(200)
			sizes = append(sizes, n)
			left -= n
		}
	case 5: // halves (iotest.HalfReader flavour: decreasing chunks)
		for left := total; left > 0; {
			n := (left + 1) / 2
			sizes = append(sizes, n)
			left -= n
		}
	case 6: // mixed
		for left := total; left > 0; {
			var n int
			switch r.intn(4) {
			case 0:
				n = 1
			case 1:
				n = r.intn(5)
			case 2:
				n = 3 + r.intn(6) // straddles the 4-byte size field
			default:
				n = 50 + r.intn(400)
			}
			sizes = append(sizes, n)
			left -= n
		}
	default: // a few big chunks then the rest
		k := r.intn(4)
		for i := 0; i < k; i++ {
			sizes = append(sizes, 1+r.intn(total+1))
		}
	}
	return sizes
}

func payloadLen(r *rng) int {
	switch r.intn(6) {
	case 0:
		return 0
	case 1, 2, 3:
		return 1 + r.intn(40)
	case 4:
		return 40 + r.intn(80)
	default:
		if thorough() {
			return 300 + r.intn(1500)
		}
		return 100 + r.intn(150)
	}
}


// ---------------------------------------------------------------- size classes
//
// Besides the small random objects the generator places objects whose ENCODED size (the
// length of the record body in the dump) sits at buffer-size-like boundaries: B+d for
// B a power of two (4 KiB, 64 KiB, 1 MiB, ...) and d in -5..+1, so that both the body
// (B-1, B, B+1) and the record = 4-byte size field + body (B-4+4 = B, ...) cross B, plus
// random sizes in between. Their payloads are low-entropy (one fill byte with random
// head, tail and islands): the driver passes the REAL dump bytes to Coq losslessly as a
// run-length literal, a literal of 1 MiB of random bytes would take minutes to parse.

var boundaryDeltas = []int{-5, -4, -3, -2, -1, 0, 1}

type c46Spec struct {
	targets []int // encoded sizes of the objects to put (0 = small random object); nil = random small shard
	big     bool  // restrict chunkings to ones with few chunks, clean or body-damaged streams only
}

func lowEntropyPayload(r *rng, n int) []byte {
	p := make([]byte, n)
	fill := byte(r.u64())
	for i := range p {
		p[i] = fill
	}
	h, t := r.intn(9), r.intn(9)
	for i := 0; i < h && i < n; i++ {
		p[i] = byte(r.u64())
	}
	for i := 0; i < t && i < n; i++ {
		p[n-1-i] = byte(r.u64())
	}
	for k := r.intn(3); k > 0 && n > 0; k-- {
		at := r.intn(n)
		for i := 0; i < 1+r.intn(4) && at+i < n; i++ {
			p[at+i] = byte(r.u64())
		}
	}
	return p
}

// mkObjectSized builds an object whose Marshal() is exactly target bytes long.
func mkObjectSized(r *rng, cnr cid.ID, target int) *object.Object {
	var id oid.ID
	copy(id[:], r.bytes(32))
	if id.IsZero() {
		id[0] = 1
	}
	build := func(plen, pad int) *object.Object {
		obj := object.New(cnr, mkOwner())
		obj.SetID(id)
		if pad > 0 {
			obj.SetAttributes(object.NewAttribute("p", string(bytes.Repeat([]byte{'x'}, pad))))
		}
		payload := lowEntropyPayload(r, plen)
		obj.SetPayload(payload)
		obj.SetPayloadSize(uint64(len(payload)))
		obj.SetPayloadChecksum(checksum.NewSHA256(sha256.Sum256(payload)))
		return obj
	}
	for pad := 0; pad < 4; pad++ {
		plen := target - 160
		if plen < 0 {
			plen = 0
		}
		for it := 0; it < 6; it++ {
			o := build(plen, pad)
			got := len(o.Marshal())
			if got == target {
				return o
			}
			plen += target - got
			if plen < 0 {
				break
			}
		}
	}
	fatal("c46: cannot build an object of encoded size %d", target)
	return nil
}

// chunkings for big streams: few chunks (the size list becomes a Coq literal), placed
// where they matter: block sizes equal to / next to the usual buffer sizes, and cuts
// right before / inside / after the size field of every record.
func genSizesBig(r *rng, stream []byte) []int {
	total := len(stream)
	var sizes []int
	switch r.intn(6) {
	case 0:
		return nil
	case 1: // halves
		for left := total; left > 0; {
			n := (left + 1) / 2
			sizes = append(sizes, n)
			left -= n
		}
	case 2: // fixed blocks
		blocks := []int{4096, 32768, 65536, 65537, 65535, 1 << 20, 1<<20 + 1}
		b := blocks[r.intn(len(blocks))]
		for b < total/300 {
			b *= 2
		}
		for left := total; left > 0; left -= b {
			sizes = append(sizes, b)
		}
	case 3, 4: // cuts around the record boundaries
		pos := 0
		cut := func(at int) {
			if at > pos && at < total {
				sizes = append(sizes, at-pos)
				pos = at
			}
		}
		for _, ol := range flatOffsets(stream) {
			cut(ol[0] - 4 - r.intn(3))      // just before / at the size field
			cut(ol[0] - 4 + 1 + r.intn(3))  // inside the size field
			cut(ol[0] + r.intn(3))          // first bytes of the body
			if ol[1] > 8 {
				cut(ol[0] + ol[1] - 1 - r.intn(5)) // last bytes of the body
			}
		}
	default: // a few big chunks then the rest
		k := 1 + r.intn(4)
		for i := 0; i < k; i++ {
			sizes = append(sizes, 1+r.intn(total+1))
		}
	}
	return sizes
}

// c46BigSpecs: the size-class cases of a run. The 64 KiB and 4 KiB boundary sets are
// complete in every run; the 1 MiB boundary, the other powers of two and the random
// in-between sizes sweep deterministically with the seed (7 consecutive seeds cover every
// delta of 1 MiB; 7*9 every delta of every other power).
func c46BigSpecs(seed uint64) []c46Spec {
	r := newRng(seed ^ 0xB16B16)
	at := func(b int, ds ...int) []int {
		var t []int
		for _, d := range ds {
			t = append(t, b+d)
		}
		return t
	}
	mid := func() int {
		switch r.intn(3) {
		case 0:
			return 4200 + r.intn(60000)
		case 1:
			return 66000 + r.intn(200000)
		default:
			return 600 + r.intn(3400)
		}
	}
	if thorough() {
		var sp []c46Spec
		for _, b := range []int{512, 1 << 10, 2 << 10, 4 << 10, 8 << 10, 16 << 10, 32 << 10, 64 << 10, 128 << 10, 256 << 10} {
			sp = append(sp, c46Spec{targets: append(at(b, boundaryDeltas...), 0), big: true})
		}
		for _, b := range []int{512 << 10, 1 << 20} {
			sp = append(sp, c46Spec{targets: append(at(b, -5, -2, 0), 0), big: true},
				c46Spec{targets: append(at(b, -4, -3), 0, b-1, b+1), big: true})
		}
		for i := 0; i < 6; i++ {
			sp = append(sp, c46Spec{targets: []int{mid(), 0, mid(), mid()}, big: true})
		}
		return sp
	}
	pows := []int{512, 1 << 10, 2 << 10, 8 << 10, 16 << 10, 32 << 10, 128 << 10, 256 << 10, 512 << 10}
	d1 := boundaryDeltas[seed%7]
	pw := pows[(seed/7)%9]
	d2 := boundaryDeltas[(seed+3)%7]
	return []c46Spec{
		{targets: append(at(64<<10, -5, -3, -1, 1), 0), big: true},
		{targets: append([]int{0}, at(64<<10, -4, -2, 0)...), big: true},
		{targets: append(at(4<<10, boundaryDeltas...), 0), big: true},
		{targets: []int{0, 1<<20 + d1, 0}, big: true},
		{targets: []int{pw + d2, 0, mid(), mid()}, big: true},
	}
}

const c46BigIDBase = 1000

func c46One(r *rng, id int, forceKind int, spec c46Spec) c46Case {
	c := c46Case{ID: id, WC: r.coin(1, 2), WCB: r.coin(1, 3), Ign: r.coin(1, 2), Eager: r.coin(1, 4)}
	c.Objs, c.Perm, c.Recs, c.Sizes, c.Oracle, c.Stored = []string{}, []int{}, [][2]int{}, []int{}, []oracleEntry{}, []string{}
	c.Big, c.ObjSizes = spec.big, []int{}

	// ---- source shard
	dirA := tempDir()
	defer os.RemoveAll(dirA)
	a := mustShard(dirA, envOpts{wc: c.WC})
	nobj := r.intn(7)
	if r.coin(1, 12) {
		nobj = 0
	}
	if spec.targets != nil {
		nobj = len(spec.targets)
		// the order in which the sizes are put is random
		for i := nobj - 1; i > 0; i-- {
			j := r.intn(i + 1)
			spec.targets[i], spec.targets[j] = spec.targets[j], spec.targets[i]
		}
	}
	byBytes := map[string]int{}
	flushAt := -1
	if c.WC && nobj > 1 {
		flushAt = r.intn(nobj)
	}
	for i := 0; i < nobj; i++ {
		var o *object.Object
		if spec.targets != nil && spec.targets[i] > 0 {
			o = mkObjectSized(r, mkCID(r, 3), spec.targets[i])
		} else {
			o = mkObject(r, mkCID(r, 3), payloadLen(r))
		}
		bin := o.Marshal()
		c.ObjSizes = append(c.ObjSizes, len(bin))
		if err := a.sh.Put(o, bin); err != nil {
			fatal("c46: source put: %v", err)
		}
		byBytes[string(bin)] = i
		c.Objs = append(c.Objs, hex.EncodeToString(bin))
		if i == flushAt {
			if err := a.sh.FlushWriteCache(false); err != nil {
				fatal("c46: flush: %v", err)
			}
		}
	}
	if err := a.sh.SetMode(mode.ReadOnly); err != nil {
		fatal("c46: set RO: %v", err)
	}
	var buf bytes.Buffer
	n, err := a.sh.Dump(&buf, false)
	c.DumpCount, c.DumpErr = n, err != nil
	dump := append([]byte(nil), buf.Bytes()...)
	c.Dump = hex.EncodeToString(dump)
	_ = a.sh.Close()
	bodies := flatBodies(dump)
	c.DumpRecs = flatOffsets(dump)
	for _, b := range bodies {
		if i, ok := byBytes[string(b)]; ok {
			c.Perm = append(c.Perm, i)
		} else {
			c.Perm = append(c.Perm, -1)
		}
	}

	// ---- corruption
	stream := append([]byte(nil), dump...)
	kind := forceKind
	if kind < 0 {
		switch x := r.intn(10); {
		case x < 4:
			kind = 0
		case x < 7:
			kind = 1
		case x < 8:
			kind = 2
		default:
			kind = 3
		}
	}
	if spec.big && forceKind < 0 {
		// size-class cases: the stream is the dump itself (3 of 4) or has damaged bodies
		kind = 0
		if r.coin(1, 4) {
			kind = 1
		}
	}
	if kind == 1 && len(bodies) == 0 {
		kind = 0
	}
	switch kind {
	case 1:
		// damage bytes inside record bodies only; sizes stay valid
		if r.coin(1, 3) {
			// an empty record between two records: decodes, but Put refuses it
			k := r.intn(len(bodies) + 1)
			at := 4
			for i := 0; i < k; i++ {
				at += 4 + len(bodies[i])
			}
			stream = append(stream[:at:at], append([]byte{0, 0, 0, 0}, stream[at:]...)...)
			bodies = flatBodies(stream)
		}
		off := 4
		for _, b := range bodies {
			off += 4
			if len(b) > 0 && r.coin(1, 2) {
				switch r.intn(3) {
				case 0:
					stream[off] = 0xFF // invalid protobuf tag
				case 1:
					stream[off+r.intn(len(b))] ^= byte(1 + r.intn(255))
				default:
					for k := 0; k < 1+r.intn(4); k++ {
						stream[off+r.intn(len(b))] = byte(r.u64())
					}
				}
			}
			off += len(b)
		}
	case 2:
		switch r.intn(4) {
		case 0:
			stream[r.intn(4)] ^= byte(1 + r.intn(255))
		case 1:
			stream = stream[:r.intn(4)]
		case 2:
			stream = nil
		default:
			stream = append([]byte{0}, stream...)
		}
	case 3:
		switch r.intn(5) {
		case 0: // truncate anywhere after the magic
			stream = stream[:4+r.intn(len(stream)-3)]
		case 1: // garbage tail shorter than a size field
			stream = append(stream, r.bytes(1+r.intn(3))...)
		case 2: // a size field announcing more than there is
			stream = append(stream, byte(1+r.intn(200)), 0, 0, 0)
			stream = append(stream, r.bytes(r.intn(3))...)
		case 3: // empty record
			stream = append(stream, 0, 0, 0, 0)
		default:
			// a size field announcing more than the rest of the stream (+65536*x). Sizes are
			// never made smaller: after lost framing Restore takes body bytes for a size
			// field and allocates up to 4 GiB per record, which only slows the check down.
			if len(bodies) > 0 {
				k := r.intn(len(bodies))
				off := 4
				for i := 0; i < k; i++ {
					off += 4 + len(bodies[i])
				}
				stream[off+2] = byte(1 + r.intn(40))
			} else {
				stream = append(stream, 5, 0, 0, 0, 1, 2)
			}
		}
	}
	c.Kind = kind
	if !bytes.Equal(stream, dump) {
		c.Stream = hex.EncodeToString(stream)
	} else {
		c.Same = true
		c.Kind = 0
	}
	if c.Kind <= 1 {
		c.Recs = flatOffsets(stream)
	}
	if spec.big {
		c.Sizes = genSizesBig(r, stream)
	} else {
		c.Sizes = genSizes(r, len(stream))
	}
	if c.Sizes == nil {
		c.Sizes = []int{}
	}

	// ---- oracle for the model's abstract functions (Unmarshal / Put class)
	dirC := tempDir()
	defer os.RemoveAll(dirC)
	sc := mustShard(dirC, envOpts{})
	seen := map[string]bool{}
	for _, ol := range flatOffsets(stream) {
		b := stream[ol[0] : ol[0]+ol[1]]
		if seen[string(b)] {
			continue
		}
		seen[string(b)] = true
		e := oracleEntry{Off: ol[0], Len: ol[1]}
		obj := new(object.Object)
		if uerr := obj.Unmarshal(b); uerr == nil {
			e.S = putClass(sc.sh.Put(obj, nil))
		} else {
			e.U = errClass46(uerr)
		}
		c.Oracle = append(c.Oracle, e)
	}
	_ = sc.sh.Close()

	// ---- restore into an empty shard
	dirB := tempDir()
	defer os.RemoveAll(dirB)
	b := mustShard(dirB, envOpts{wc: c.WCB})
	cnt, fl, rerr := b.sh.Restore(newChunkReader(stream, c.Sizes, c.Eager), c.Ign)
	c.Count, c.Fail, c.Err = cnt, fl, errClass46(rerr)
	addrs, err := b.sh.List()
	if err != nil {
		fatal("c46: list: %v", err)
	}
	for _, ad := range addrs {
		bin, err := b.sh.GetBytes(ad)
		if err != nil {
			fatal("c46: listed object unreadable: %v", err)
		}
		c.Stored = append(c.Stored, hex.EncodeToString(bin))
	}
	sort.Strings(c.Stored)
	_ = b.sh.Close()
	return c
}

func c46Main(args []string) {
	if len(args) >= 1 && args[0] == "replay" {
		// replay <seed> <id> <kind>: regenerate exactly one case
		seed, _ := strconv.ParseUint(args[1], 10, 64)
		id, _ := strconv.Atoi(args[2])
		r := newRng(seed ^ uint64(id)*0x100000001B3)
		if id >= c46BigIDBase {
			emit(c46One(r, id, -1, c46BigSpecs(seed)[id-c46BigIDBase]))
		} else {
			emit(c46One(r, id, -1, c46Spec{}))
		}
		return
	}
	n := 60
	if len(args) >= 1 {
		n, _ = strconv.Atoi(args[0])
	}
	seed := seedFromEnv()
	budget := 45 * time.Second
	if thorough() {
		budget = 12 * time.Minute
	}
	t0 := time.Now()
	// size-class cases first (their Coq evaluation takes longest, the driver starts them first)
	for k, sp := range c46BigSpecs(seed) {
		id := c46BigIDBase + k
		emit(c46One(newRng(seed^uint64(id)*0x100000001B3), id, -1, sp))
	}
	for i := 0; i < n; i++ {
		if time.Since(t0) > budget {
			// a broken tree can make Restore allocate gigabytes per record (garbage size
			// fields after lost framing); report what was produced so far
			emit(map[string]any{"truncated": true, "produced": i})
			break
		}
		r := newRng(seed ^ uint64(i)*0x100000001B3)
		emit(c46One(r, i, -1, c46Spec{}))
	}
}
