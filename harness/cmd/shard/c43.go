//go:build verif

package main

import (
	"errors"
	"os"
	"path/filepath"

	"github.com/nspcc-dev/neofs-node/pkg/local_object_storage/shard"
	"github.com/nspcc-dev/neofs-node/pkg/local_object_storage/shard/mode"
)

// c43 probe: a mode switch that fails at the last component (metabase cannot be reopened),
// then operations under the still-reported mode, then "back to read-write".
// Not a registered check yet (see notes/C43.md): it records what the real shard does.
type c43Step struct {
	Step     string `json:"step"`
	Err      int    `json:"err"` // 0 nil, 1 ErrReadOnlyMode, 2 ErrDegradedMode, 4 other
	Reported uint32 `json:"reported"`
}

var errPanic = errors.New("panic")

func c43Class(err error) int {
	switch {
	case err == nil:
		return 0
	case err == errPanic:
		return 9
	case errors.Is(err, shard.ErrReadOnlyMode):
		return 1
	case errors.Is(err, shard.ErrDegradedMode):
		return 2
	default:
		return 4
	}
}

func c43Probe(wc bool) {
	r := newRng(seedFromEnv())
	dir := tempDir()
	defer os.RemoveAll(dir)
	env := mustShard(dir, envOpts{wc: wc})
	sh := env.sh
	a := mkObject(r, mkCID(r, 2), 20)
	rec := func(step string, err error) {
		emit(map[string]any{"wc": wc, "step": step, "err": c43Class(err), "reported": uint32(sh.GetMode())})
	}
	get := func() (err error) {
		defer func() {
			if p := recover(); p != nil {
				err = errPanic
			}
		}()
		_, err = sh.Get(a.Address(), false)
		return err
	}
	put := func() (err error) {
		defer func() {
			if p := recover(); p != nil {
				err = errPanic
			}
		}()
		return sh.Put(mkObject(r, mkCID(r, 2), 20), nil)
	}
	rec("put A (read-write)", sh.Put(a, nil))
	metaPath := filepath.Join(dir, "meta")
	_ = os.Rename(metaPath, metaPath+".away")
	rec("SetMode(read-only), metabase file unavailable", sh.SetMode(mode.ReadOnly))
	_ = os.Rename(metaPath+".away", metaPath)
	rec("put B under the reported mode", put())
	gerr := get()
	rec("get A under the reported mode", gerr)
	rec("SetMode(read-write) (back to full service)", sh.SetMode(mode.ReadWrite))
	rec("put C after the successful switch to read-write", put())
	gerr = get()
	rec("get A after the switch to read-write", gerr)
	rec("SetMode(read-only) retry", sh.SetMode(mode.ReadOnly))
	rec("SetMode(read-write) again", sh.SetMode(mode.ReadWrite))
	rec("put D after RO->RW round trip", put())
	gerr = get()
	rec("get A at the end", gerr)
	_ = sh.Close()
}
