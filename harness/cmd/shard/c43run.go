//go:build verif

package main

import (
	"bytes"
	"errors"
	"os"
	"path/filepath"
	"strconv"

	"github.com/nspcc-dev/neofs-node/pkg/local_object_storage/blobstor/common"
	"github.com/nspcc-dev/neofs-node/pkg/local_object_storage/shard/mode"
	"github.com/nspcc-dev/neofs-node/pkg/local_object_storage/writecache"
	apistatus "github.com/nspcc-dev/neofs-sdk-go/client/status"
	oid "github.com/nspcc-dev/neofs-sdk-go/object/id"
	"github.com/nspcc-dev/neofs-sdk-go/object"
)

// C43 differential harness: random sequences of mode switches (with one injected component
// failure each, or none), of the metabase-failure path and of operations on a real shard.
// After every step it prints the result class, the reported mode, the mode of every component
// and where each object of the case currently is. Codes are shared with coq/Shard/Mode43Check.v.

const (
	k43Set = iota
	k43Hmf
	k43Put
	k43Get
	k43Del
	k43Exists
	k43List
	k43Flush
)

// fault codes
const (
	f43None = iota
	f43Wc
	f43BlobClose
	f43BlobOpen
	f43BlobInit
	f43MbOpen
)

var c43Modes = []mode.Mode{mode.ReadWrite, mode.ReadOnly, mode.Degraded, mode.DegradedReadOnly}

type c43Obs struct {
	K  int `json:"k"`
	M  int `json:"m"`  // target mode index (set)
	F  int `json:"f"`  // armed fault (set, hmf)
	ID int `json:"id"` // object index (put, get, del, exists)

	Cls     int    `json:"cls"`   // 0 done, 1 ErrReadOnlyMode, 2 ErrDegradedMode, 3 write-cache disabled, 4 other error, 9 panic
	Found   bool   `json:"found"` // get: object handed out with the stored bytes; exists: reported present
	BadData bool   `json:"bad_data"`
	Rep     uint32 `json:"rep"`
	WcMd    uint32 `json:"wc_md"`
	WcRO    bool   `json:"wc_ro"`
	BlobRO  bool   `json:"blob_ro"`
	MbMd    uint32 `json:"mb_md"`
	MbOpen  int    `json:"mb_open"` // 0 nil, 1 read-only, 2 read-write
	WcSet   []int  `json:"wc_set"`
	BlobSet []int  `json:"blob_set"`
}

type c43Case struct {
	ID    int      `json:"id"`
	WC    bool     `json:"wc"`
	Steps []c43Obs `json:"steps"`
	// final switch to read-write and read-back (reference, no model involved)
	FinalSwitchOK bool  `json:"final_switch_ok"`
	FinalRep      uint32 `json:"final_rep"`
	Lost          []int `json:"lost"`     // stored with metadata, never deleted, not handed out intact after the return to read-write
	LostRaw       []int `json:"lost_raw"` // stored in a degraded mode (no metadata), bytes not intact in the storage
	Live          int   `json:"live"`
	Raw           int   `json:"raw"`
}

// failing common.Storage: fails the armed call without touching the wrapped storage
type c43Blob struct {
	common.Storage
	fail int
}

var errC43Injected = errors.New("injected component failure")

func (b *c43Blob) Close() error {
	if b.fail == f43BlobClose {
		return errC43Injected
	}
	return b.Storage.Close()
}

func (b *c43Blob) Open(ro bool) error {
	if b.fail == f43BlobOpen {
		return errC43Injected
	}
	return b.Storage.Open(ro)
}

func (b *c43Blob) Init(id common.ID) error {
	if b.fail == f43BlobInit {
		return errC43Injected
	}
	return b.Storage.Init(id)
}

type c43Run struct {
	env   *shardEnv
	blob  *c43Blob
	dir   string
	objs  []*object.Object
	live  map[int]bool // put accepted while the reported mode had a metabase, not deleted since
	raw   map[int]bool // put accepted in a degraded mode
	steps []c43Obs
}

func c43ClassOf(err error) int {
	switch {
	case err == nil:
		return 0
	case err == errPanic:
		return 9
	default:
		return modeClass(err)
	}
}

func c43Guard(f func() error) (err error) {
	defer func() {
		if p := recover(); p != nil {
			err = errPanic
		}
	}()
	return f()
}

// arm makes the chosen component call fail for the duration of the switch; the returned
// function restores the environment
func (c *c43Run) arm(f int) func() {
	metaPath := filepath.Join(c.dir, "meta")
	wcPath := filepath.Join(c.dir, "wcache")
	switch f {
	case f43Wc:
		// the cache directory cannot be created: a regular file is in its place
		if err := os.Rename(wcPath, wcPath+".away"); err != nil {
			fatal("c43: arm wc: %v", err)
		}
		if err := os.WriteFile(wcPath, []byte("x"), 0o600); err != nil {
			fatal("c43: arm wc: %v", err)
		}
		return func() {
			_ = os.Remove(wcPath)
			if err := os.Rename(wcPath+".away", wcPath); err != nil {
				fatal("c43: disarm wc: %v", err)
			}
		}
	case f43BlobClose, f43BlobOpen, f43BlobInit:
		c.blob.fail = f
		return func() { c.blob.fail = 0 }
	case f43MbOpen:
		// the metabase file cannot be opened: a directory is in its place
		if err := os.Rename(metaPath, metaPath+".away"); err != nil {
			fatal("c43: arm meta: %v", err)
		}
		if err := os.Mkdir(metaPath, 0o700); err != nil {
			fatal("c43: arm meta: %v", err)
		}
		return func() {
			_ = os.RemoveAll(metaPath)
			if err := os.Rename(metaPath+".away", metaPath); err != nil {
				fatal("c43: disarm meta: %v", err)
			}
		}
	}
	return func() {}
}

func (c *c43Run) observe(o *c43Obs) {
	sh := c.env.sh
	o.Rep = uint32(sh.GetMode())
	o.BlobRO = c.env.fst.VerifC43ReadOnly()
	o.MbMd, o.MbOpen = sh.VerifC43Metabase().VerifC43ModeState()
	wc := sh.VerifC43WriteCache()
	if wc != nil {
		o.WcMd, o.WcRO = writecache.VerifC43ModeState(wc)
	}
	o.WcSet, o.BlobSet = []int{}, []int{}
	for i, ob := range c.objs {
		a := ob.Address()
		if wc != nil && writecache.VerifC43Holds(wc, a) {
			o.WcSet = append(o.WcSet, i)
		}
		if ok, err := c.env.fst.Exists(a); err == nil && ok {
			o.BlobSet = append(o.BlobSet, i)
		}
	}
}

func (c *c43Run) do(o c43Obs) {
	sh := c.env.sh
	var err error
	switch o.K {
	case k43Set:
		restore := c.arm(o.F)
		err = c43Guard(func() error { return sh.SetMode(c43Modes[o.M]) })
		restore()
	case k43Hmf:
		restore := c.arm(o.F)
		err = c43Guard(func() error { return sh.VerifC43HandleMetabaseFailure() })
		restore()
	case k43Put:
		ob := c.objs[o.ID]
		repBefore := sh.GetMode()
		err = c43Guard(func() error { return sh.Put(ob, nil) })
		if err == nil {
			if repBefore.NoMetabase() {
				c.raw[o.ID] = true
			} else {
				c.live[o.ID] = true
			}
		}
	case k43Get:
		ob := c.objs[o.ID]
		err = c43Guard(func() error {
			got, gerr := sh.Get(ob.Address(), false)
			if gerr == nil {
				o.Found = true
				o.BadData = !bytes.Equal(got.Marshal(), ob.Marshal())
			}
			return gerr
		})
		if err != nil && (errors.Is(err, apistatus.ErrObjectNotFound) || errors.Is(err, apistatus.ErrObjectAlreadyRemoved)) {
			err = nil // the read worked: it answered with the object's status
		}
	case k43Del:
		ob := c.objs[o.ID]
		a := ob.Address()
		err = c43Guard(func() error { return sh.Delete(a.Container(), []oid.ID{a.Object()}) })
		if err == nil {
			delete(c.live, o.ID)
		}
	case k43Exists:
		ob := c.objs[o.ID]
		err = c43Guard(func() error {
			ok, eerr := sh.Exists(ob.Address(), true)
			o.Found = eerr == nil && ok
			return eerr
		})
		if err != nil && (errors.Is(err, apistatus.ErrObjectNotFound) || errors.Is(err, apistatus.ErrObjectAlreadyRemoved)) {
			err = nil
		}
	case k43List:
		err = c43Guard(func() error { _, lerr := sh.List(); return lerr })
	case k43Flush:
		err = c43Guard(func() error { return sh.FlushWriteCache(false) })
	}
	o.Cls = c43ClassOf(err)
	c.observe(&o)
	c.steps = append(c.steps, o)
}

func (c *c43Run) newObject(r *rng) int {
	c.objs = append(c.objs, mkObject(r, mkCID(r, 2), 16+r.intn(48)))
	return len(c.objs) - 1
}

// scripted sequences that every run replays first (the probe of the recorded finding and the
// repaired paths around it), then random ones
func c43Script(id int) []c43Obs {
	switch id {
	case 0, 1: // a switch that fails at the last component, operations, back to read-write
		return []c43Obs{{K: k43Put}, {K: k43Set, M: 1, F: f43MbOpen}, {K: k43Put}, {K: k43Get, ID: 0}, {K: k43Exists, ID: 0}, {K: k43List},
			{K: k43Set, M: 0}, {K: k43Put}, {K: k43Get, ID: 0}, {K: k43Set, M: 1}, {K: k43Set, M: 0}, {K: k43Put}, {K: k43Get, ID: 0}}
	case 2, 3: // failing storage init, retry of the reported mode must bring the storage back
		return []c43Obs{{K: k43Put}, {K: k43Set, M: 1, F: f43BlobInit}, {K: k43Put}, {K: k43Set, M: 0}, {K: k43Put}, {K: k43Get, ID: 0},
			{K: k43Set, M: 3, F: f43BlobOpen}, {K: k43Get, ID: 0}, {K: k43Set, M: 3}, {K: k43Get, ID: 0}, {K: k43Set, M: 2}, {K: k43Put}, {K: k43Set, M: 0, F: f43MbOpen},
			{K: k43Get, ID: 0}, {K: k43Put}, {K: k43Hmf}, {K: k43Get, ID: 0}}
	case 4, 5: // metabase-failure path with the metabase really unavailable; write-cache failure
		return []c43Obs{{K: k43Put}, {K: k43Put}, {K: k43Hmf, F: f43MbOpen}, {K: k43Get, ID: 0}, {K: k43Put}, {K: k43List}, {K: k43Set, M: 0, F: f43Wc}, {K: k43Put},
			{K: k43Flush}, {K: k43Get, ID: 1}, {K: k43Set, M: 1}, {K: k43Set, M: 3}, {K: k43Set, M: 0, F: f43MbOpen}, {K: k43Get, ID: 1}, {K: k43Del, ID: 1}}
	}
	return nil
}

func c43One(r *rng, id int) c43Case {
	wc := id%2 == 1
	dir := tempDir()
	defer os.RemoveAll(dir)
	run := &c43Run{dir: dir, live: map[int]bool{}, raw: map[int]bool{}}
	env := mustShard(dir, envOpts{wc: wc, blob: func(s common.Storage) common.Storage {
		run.blob = &c43Blob{Storage: s}
		return run.blob
	}})
	run.env = env
	script := c43Script(id)
	n := 14 + r.intn(12)
	if script != nil {
		n = len(script)
	}
	for i := 0; i < n; i++ {
		var o c43Obs
		if script != nil {
			o = script[i]
			if o.K == k43Put {
				o.ID = run.newObject(r)
			}
			if o.F == f43Wc && !wc {
				o.F = f43None
			}
			run.do(o)
			continue
		}
		x := r.intn(100)
		switch {
		case i < 2 || x < 20:
			o = c43Obs{K: k43Put, ID: run.newObject(r)}
		case x < 52:
			o = c43Obs{K: k43Set, M: r.intn(4)}
			if r.coin(2, 5) {
				for {
					o.F = 1 + r.intn(5)
					// a write-cache failure is injected through its path and only where the code opens it
					if o.F == f43Wc && (!wc || c43Modes[o.M].NoMetabase()) {
						continue
					}
					break
				}
			}
		case x < 57:
			o = c43Obs{K: k43Hmf}
			if r.coin(1, 2) {
				o.F = []int{f43BlobClose, f43BlobOpen, f43BlobInit, f43MbOpen}[r.intn(4)]
			}
		case x < 70:
			o = c43Obs{K: k43Get, ID: r.intn(len(run.objs))}
		case x < 78:
			var cand []int
			for j := range run.objs {
				if run.live[j] {
					cand = append(cand, j)
				}
			}
			if len(cand) == 0 {
				o = c43Obs{K: k43Put, ID: run.newObject(r)}
			} else {
				o = c43Obs{K: k43Del, ID: cand[r.intn(len(cand))]}
			}
		case x < 86:
			o = c43Obs{K: k43Exists, ID: r.intn(len(run.objs))}
		case x < 90:
			o = c43Obs{K: k43List}
		default:
			o = c43Obs{K: k43Flush}
		}
		run.do(o)
	}
	// final switch to read-write (no fault) and full read-back
	run.do(c43Obs{K: k43Set, M: 0})
	last := run.steps[len(run.steps)-1]
	res := c43Case{ID: id, WC: wc, FinalSwitchOK: last.Cls == 0, FinalRep: last.Rep, Lost: []int{}, LostRaw: []int{}}
	for i, ob := range run.objs {
		want := ob.Marshal()
		if run.live[i] {
			res.Live++
			var got *object.Object
			err := c43Guard(func() (e error) { got, e = env.sh.Get(ob.Address(), false); return e })
			if err != nil || !bytes.Equal(got.Marshal(), want) {
				res.Lost = append(res.Lost, i)
			}
		} else if run.raw[i] {
			res.Raw++
			var got *object.Object
			err := c43Guard(func() (e error) { got, e = env.sh.Get(ob.Address(), true); return e })
			if err != nil || !bytes.Equal(got.Marshal(), want) {
				res.LostRaw = append(res.LostRaw, i)
			}
		}
	}
	res.Steps = run.steps
	_ = env.sh.Close()
	return res
}

func c43Main(args []string) {
	n := 30
	if len(args) >= 1 {
		n, _ = strconv.Atoi(args[0])
	}
	only := -1
	if len(args) >= 2 {
		only, _ = strconv.Atoi(args[1])
	}
	seed := seedFromEnv()
	for i := 0; i < n; i++ {
		if only >= 0 && i != only {
			continue
		}
		r := newRng(seed ^ uint64(i)*0x100000001B3 ^ 0xC43)
		emit(c43One(r, i))
	}
}
