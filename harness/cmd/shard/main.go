//go:build verif

// Differential harness for the shard family (C46, C47, C14, C43). Built inside
// /repo's module through `go build -overlay` (see /verif/lib/vlib.py). It drives
// real shard.Shard instances over temporary directories and prints projected
// observables as JSON lines.
package main

import (
	"crypto/sha256"
	"encoding/json"
	"fmt"
	"os"
	"path/filepath"
	"strconv"
	"time"

	"github.com/nspcc-dev/neo-go/pkg/util"
	"github.com/nspcc-dev/neofs-node/pkg/local_object_storage/blobstor/common"
	"github.com/nspcc-dev/neofs-node/pkg/local_object_storage/blobstor/fstree"
	meta "github.com/nspcc-dev/neofs-node/pkg/local_object_storage/metabase"
	"github.com/nspcc-dev/neofs-node/pkg/local_object_storage/shard"
	"github.com/nspcc-dev/neofs-node/pkg/local_object_storage/shard/mode"
	"github.com/nspcc-dev/neofs-node/pkg/local_object_storage/writecache"
	"github.com/nspcc-dev/neofs-sdk-go/checksum"
	cid "github.com/nspcc-dev/neofs-sdk-go/container/id"
	"github.com/nspcc-dev/neofs-sdk-go/object"
	oid "github.com/nspcc-dev/neofs-sdk-go/object/id"
	"github.com/nspcc-dev/neofs-sdk-go/user"
	"github.com/nspcc-dev/bbolt"
	"go.uber.org/zap"
)

// ---------------------------------------------------------------- PRNG (splitmix64)

type rng struct{ s uint64 }

func newRng(seed uint64) *rng { return &rng{s: seed*0x9E3779B97F4A7C15 + 0x1234567} }

func (r *rng) u64() uint64 {
	r.s += 0x9E3779B97F4A7C15
	z := r.s
	z = (z ^ (z >> 30)) * 0xBF58476D1CE4E5B9
	z = (z ^ (z >> 27)) * 0x94D049BB133111EB
	return z ^ (z >> 31)
}

func (r *rng) intn(n int) int {
	if n <= 0 {
		return 0
	}
	return int(r.u64() % uint64(n))
}

func (r *rng) coin(num, den int) bool { return r.intn(den) < num }

func (r *rng) bytes(n int) []byte {
	b := make([]byte, n)
	for i := range b {
		b[i] = byte(r.u64())
	}
	return b
}

func seedFromEnv() uint64 {
	v, err := strconv.ParseUint(os.Getenv("VERIF_SEED"), 10, 64)
	if err != nil {
		return 1
	}
	return v
}

func thorough() bool { return os.Getenv("VERIF_TIER") == "thorough" }

// ---------------------------------------------------------------- shard construction

type epochState struct{ v uint64 }

func (e *epochState) CurrentEpoch() uint64 { return e.v }

type shardEnv struct {
	dir   string
	sh    *shard.Shard
	fst   *fstree.FSTree
	epoch *epochState
	wc    bool
}

type envOpts struct {
	wc       bool
	blob     func(common.Storage) common.Storage // optional wrapper around the fstree
	metaPath string                              // override metabase path
	extra    []shard.Option
	noInit   bool
}

func shardOptions(dir string, o envOpts) []shard.Option {
	opts, _, _ := shardOptionsEx(dir, o)
	return opts
}

func shardOptionsEx(dir string, o envOpts) ([]shard.Option, *fstree.FSTree, *epochState) {
	fst := fstree.New(fstree.WithPath(filepath.Join(dir, "fstree")), fstree.WithNoSync(true))
	var st common.Storage = fst
	if o.blob != nil {
		st = o.blob(fst)
	}
	ep := &epochState{}
	mp := filepath.Join(dir, "meta")
	if o.metaPath != "" {
		mp = o.metaPath
	}
	opts := []shard.Option{
		shard.WithLogger(zap.NewNop()),
		shard.WithMetaBaseOptions(
			meta.WithPath(mp),
			meta.WithEpochState(ep),
			meta.WithLogger(zap.NewNop()),
			meta.WithMaxBatchDelay(time.Microsecond),
			meta.WithBoltDBOptions(&bbolt.Options{NoSync: true, NoFreelistSync: true, Timeout: time.Second}),
		),
		shard.WithWriteCache(o.wc),
		shard.WithWriteCacheOptions(
			writecache.WithLogger(zap.NewNop()),
			writecache.WithPath(filepath.Join(dir, "wcache")),
			writecache.WithNoSync(true),
		),
		shard.WithBlobstor(st),
		shard.WithGCRemoverSleepInterval(time.Hour), // GC passes are driven explicitly through the hook
	}
	opts = append(opts, o.extra...)
	return opts, fst, ep
}

func buildShard(dir string, o envOpts) (*shardEnv, error) {
	opts, fst, ep := shardOptionsEx(dir, o)
	sh := shard.New(opts...)
	env := &shardEnv{dir: dir, sh: sh, fst: fst, epoch: ep, wc: o.wc}
	if o.noInit {
		return env, nil
	}
	if err := sh.Open(); err != nil {
		return env, fmt.Errorf("open: %w", err)
	}
	if err := sh.Init(); err != nil {
		return env, fmt.Errorf("init: %w", err)
	}
	return env, nil
}

func mustShard(dir string, o envOpts) *shardEnv {
	e, err := buildShard(dir, o)
	if err != nil {
		fatal("cannot build shard: %v", err)
	}
	return e
}

func fatal(f string, a ...any) {
	fmt.Fprintf(os.Stderr, f+"\n", a...)
	os.Exit(3)
}

func tempDir() string {
	base := ""
	if st, err := os.Stat("/dev/shm"); err == nil && st.IsDir() && os.Getenv("TMPDIR") == "" {
		base = "/dev/shm" // durability is not what these checks are about; tmpfs keeps them fast
	}
	d, err := os.MkdirTemp(base, "verif-shard-")
	if err != nil {
		fatal("mkdtemp: %v", err)
	}
	return d
}

// ---------------------------------------------------------------- objects

func mkCID(r *rng, universe int) cid.ID {
	var c cid.ID
	c[0] = byte(1 + r.intn(universe))
	c[31] = 0xC1
	return c
}

func mkOwner() user.ID {
	var h util.Uint160
	for i := range h {
		h[i] = byte(i + 1)
	}
	return user.NewFromScriptHash(h)
}

func mkObject(r *rng, cnr cid.ID, payloadLen int) *object.Object {
	payload := r.bytes(payloadLen)
	obj := object.New(cnr, mkOwner())
	var id oid.ID
	copy(id[:], r.bytes(32))
	if id.IsZero() {
		id[0] = 1
	}
	obj.SetID(id)
	obj.SetPayload(payload)
	obj.SetPayloadSize(uint64(len(payload)))
	obj.SetPayloadChecksum(checksum.NewSHA256(sha256.Sum256(payload)))
	return obj
}

// ---------------------------------------------------------------- output

var out = json.NewEncoder(os.Stdout)

func emit(v any) {
	if err := out.Encode(v); err != nil {
		fatal("encode: %v", err)
	}
}

func main() {
	if len(os.Args) < 2 {
		fatal("usage: shard <consts|c46|c46one|c47|c14|c43> ...")
	}
	switch os.Args[1] {
	case "consts":
		consts()
	case "c46":
		c46Main(os.Args[2:])
	case "c47":
		c47Main(os.Args[2:])
	case "c14":
		c14Main(os.Args[2:])
	case "c14inflight":
		c14InflightMain(os.Args[2:])
	case "c43":
		c43Main(os.Args[2:])
	case "c43probe":
		c43Probe(false)
		c43Probe(true)
	default:
		fatal("unknown command %q", os.Args[1])
	}
}

func consts() {
	emit(map[string]any{
		"dump_magic":       bytesToInts(shard.VerifDumpMagic()),
		"mode_read_only":   uint32(mode.ReadOnly),
		"mode_degraded":    uint32(mode.Degraded),
		"mode_read_write":  uint32(mode.ReadWrite),
		"mode_degraded_ro": uint32(mode.DegradedReadOnly),
	})
}

func bytesToInts(b []byte) []int {
	r := make([]int, len(b))
	for i, x := range b {
		r[i] = int(x)
	}
	return r
}
