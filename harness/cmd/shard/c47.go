//go:build verif

package main

import (
	"context"
	"errors"
	"fmt"
	"math"
	"os"
	"time"

	containercore "github.com/nspcc-dev/neofs-node/pkg/core/container"
	"github.com/nspcc-dev/neofs-node/pkg/local_object_storage/engine"
	"github.com/nspcc-dev/neofs-node/pkg/local_object_storage/shard"
	apistatus "github.com/nspcc-dev/neofs-sdk-go/client/status"
	"github.com/nspcc-dev/neofs-sdk-go/container"
	cid "github.com/nspcc-dev/neofs-sdk-go/container/id"
	oid "github.com/nspcc-dev/neofs-sdk-go/object/id"
	"go.uber.org/zap"
)

// c47Case: path 0 = shard new-epoch handler, 1 = engine start-up cleanup,
// 2 = containercore.IsErrNotFound (what the policer branch consults).
type c47Case struct {
	Path      int    `json:"path"`
	Via       string `json:"via"` // hook | channel | engine | classify
	Disabled  bool   `json:"disabled"`
	CheckErr  bool   `json:"check_err"`
	Epoch     uint64 `json:"epoch"`
	Unpaid    int64  `json:"unpaid"`
	Src       int    `json:"src"` // 0 found, 1 not found, 2 transient
	SrcForm   string `json:"src_form"`
	Discarded bool   `json:"discarded"`
}

type payFake struct {
	disabled bool
	marks    map[cid.ID]int64
	errs     map[cid.ID]bool
}

func (p *payFake) PaymentsDisabled() bool { return p.disabled }
func (p *payFake) UnpaidSince(c cid.ID) (int64, error) {
	if p.errs[c] {
		return 0, errors.New("FS chain RPC call: transient")
	}
	v, ok := p.marks[c]
	if !ok {
		return -1, nil
	}
	return v, nil
}

func cidN(i int) cid.ID {
	var c cid.ID
	c[0] = byte(i)
	c[1] = byte(i >> 8)
	c[31] = 0xC7
	return c
}

type c47Item struct {
	unpaid   int64
	checkErr bool
}

// one shard, one container per item, one new-epoch event; which containers lost their object?
func c47Epoch(r *rng, epoch uint64, disabled bool, items []c47Item, viaChannel bool) []c47Case {
	dir := tempDir()
	defer os.RemoveAll(dir)
	pay := &payFake{disabled: disabled, marks: map[cid.ID]int64{}, errs: map[cid.ID]bool{}}
	env := mustShard(dir, envOpts{extra: []shard.Option{shard.WithContainerPayments(pay)}})
	defer env.sh.Close()
	addrs := make([]oid.Address, len(items))
	for i, it := range items {
		c := cidN(i + 1)
		pay.marks[c] = it.unpaid
		pay.errs[c] = it.checkErr
		o := mkObject(r, c, 8)
		if err := env.sh.Put(o, nil); err != nil {
			fatal("c47: put: %v", err)
		}
		addrs[i] = o.Address()
	}
	via := "hook"
	if viaChannel {
		via = "channel"
		env.sh.NotificationChannel() <- shard.EventNewEpoch(epoch)
		// a second event is accepted by the listener only after the first handler returned
		// (prevGroup.Wait), and the hook below runs after both: the handler is idempotent
		env.sh.NotificationChannel() <- shard.EventNewEpoch(epoch)
		time.Sleep(20 * time.Millisecond)
	}
	env.sh.VerifHandleEpoch(epoch)
	res := make([]c47Case, len(items))
	for i, it := range items {
		_, err := env.sh.Get(addrs[i], false)
		res[i] = c47Case{Path: 0, Via: via, Disabled: disabled, CheckErr: it.checkErr, Epoch: epoch, Unpaid: it.unpaid, Discarded: err != nil}
	}
	return res
}

type srcFake struct{ errs map[cid.ID]error }

func (s *srcFake) Get(c cid.ID) (container.Container, error) {
	return container.Container{}, s.errs[c]
}

type srcForm struct {
	name string
	cls  int
	err  error
}

func srcForms() []srcForm {
	var nf apistatus.ContainerNotFound
	return []srcForm{
		{"nil", 0, nil},
		{"ErrContainerNotFound", 1, apistatus.ErrContainerNotFound},
		{"ContainerNotFound value", 1, nf},
		{"wrapped %w ContainerNotFound", 1, fmt.Errorf("get container: %w", apistatus.ErrContainerNotFound)},
		{"joined with ContainerNotFound", 1, errors.Join(errors.New("x"), apistatus.ErrContainerNotFound)},
		{"plain error", 2, errors.New("connection refused")},
		{"text says not found", 2, errors.New("container not found")},
		{"context deadline", 2, context.DeadlineExceeded},
		{"ObjectNotFound", 2, apistatus.ErrObjectNotFound},
		{"EACLNotFound", 2, apistatus.ErrEACLNotFound},
		{"wrapped server internal", 2, fmt.Errorf("rpc: %w", apistatus.ErrServerInternal)},
	}
}

func c47Engine(r *rng) []c47Case {
	forms := srcForms()
	dir := tempDir()
	defer os.RemoveAll(dir)
	// fill a shard, close it, then let an engine open it and run its start-up cleanup
	env := mustShard(dir, envOpts{})
	src := &srcFake{errs: map[cid.ID]error{}}
	addrs := make([]oid.Address, len(forms))
	for i, f := range forms {
		c := cidN(i + 1)
		src.errs[c] = f.err
		o := mkObject(r, c, 8)
		if err := env.sh.Put(o, nil); err != nil {
			fatal("c47: put: %v", err)
		}
		addrs[i] = o.Address()
	}
	_ = env.sh.Close()
	e := engine.New(engine.WithLogger(zap.NewNop()), engine.WithContainersSource(src))
	if _, err := e.AddShard(shardOptions(dir, envOpts{})...); err != nil {
		fatal("c47: add shard: %v", err)
	}
	if err := e.Init(); err != nil {
		fatal("c47: engine init: %v", err)
	}
	res := make([]c47Case, len(forms))
	for i, f := range forms {
		_, err := e.Get(context.Background(), addrs[i])
		res[i] = c47Case{Path: 1, Via: "engine", Src: f.cls, SrcForm: f.name, Discarded: err != nil}
	}
	_ = e.Close()
	return res
}

func c47Main(args []string) {
	r := newRng(seedFromEnv())
	// the full grid of the property text
	for _, disabled := range []bool{false, true} {
		for epoch := uint64(0); epoch <= 10; epoch++ {
			var items []c47Item
			for u := int64(-1); u <= 12; u++ {
				items = append(items, c47Item{u, false}, c47Item{u, true})
			}
			for _, c := range c47Epoch(r, epoch, disabled, items, epoch%5 == 3) {
				emit(c)
			}
		}
	}
	// wrap-around corners of uint64 / int64
	bigE := []uint64{0, 1, 2, 3, math.MaxInt64 - 1, math.MaxInt64, math.MaxInt64 + 1, math.MaxInt64 + 4, math.MaxUint64 - 3, math.MaxUint64 - 2, math.MaxUint64}
	bigU := []int64{math.MinInt64, math.MinInt64 + 1, -9, -6, -5, -4, -3, -2, -1, 0, 1, 2, 3, 4, math.MaxInt64 - 3, math.MaxInt64 - 2, math.MaxInt64 - 1, math.MaxInt64}
	n := 3
	if thorough() {
		n = 40
	}
	for i := 0; i < n; i++ {
		bigE = append(bigE, r.u64())
		bigU = append(bigU, int64(r.u64()))
		x := r.u64() >> 1
		bigE = append(bigE, x+uint64(r.intn(7)))
		bigU = append(bigU, int64(x)+int64(r.intn(7))-3)
	}
	for _, epoch := range bigE {
		var items []c47Item
		for _, u := range bigU {
			items = append(items, c47Item{u, false})
		}
		for _, c := range c47Epoch(r, epoch, false, items, false) {
			emit(c)
		}
	}
	// container source answers: engine start-up cleanup, and the predicate of the policer branch
	for _, c := range c47Engine(r) {
		emit(c)
	}
	for _, f := range srcForms() {
		if f.err == nil {
			continue
		}
		emit(c47Case{Path: 2, Via: "classify", Src: f.cls, SrcForm: f.name, Discarded: containercore.IsErrNotFound(f.err)})
	}
}
