//go:build verif

package main

// C14, operations in flight at the moment of the mode switch.
//
// The sequences of c14.go only issue requests in the steady read-only state. Here a write that
// STARTED in read-write mode (background write-cache flush of one object / of a batch, or a
// client Put) is held in the middle of the BLOB storage write while Shard.SetMode(read-only)
// is called. The switch may wait for the write, or the write may be refused afterwards, but
// once SetMode has returned the files of the shard must not change any more: the snapshot
// taken right after SetMode returned is compared with the one taken after the held write has
// been released and the workers have settled.
//
// The write is held at one of two places:
//   disk    -- inside FSTree, in the physical write, after Put/PutBatch have passed the tree's
//              own read-only check (hook VerifGateWrites: a slow disk);
//   storage -- in a wrapping common.Storage (shard.WithBlobstor), before the tree is entered.

import (
	"os"
	"strconv"
	"sync"
	"sync/atomic"
	"time"

	"github.com/nspcc-dev/neofs-node/pkg/local_object_storage/blobstor/common"
	"github.com/nspcc-dev/neofs-node/pkg/local_object_storage/shard/mode"
	oid "github.com/nspcc-dev/neofs-sdk-go/object/id"
)

type c14Inflight struct {
	ID       int    `json:"id"`
	Mode     uint32 `json:"mode"`
	Trigger  string `json:"trigger"` // flush (background write-cache flush) | put (client Put, no write-cache)
	Gate     string `json:"gate"`    // disk | storage
	WC       bool   `json:"wc"`
	Stored   int    `json:"stored"`   // objects already in the BLOB storage
	Pending  int    `json:"pending"`  // objects written while the gate was armed
	GateN    int    `json:"gate_n"`   // objects in the held write (1 = flushSingle / Put, >1 = flushBatch)
	Entered  bool   `json:"entered"`  // the write reached the gate
	Early    bool   `json:"early"`    // SetMode returned while the write was still held
	SetErr   bool   `json:"set_err"`  // SetMode failed
	ModeSet  bool   `json:"mode_set"` // GetMode reports the requested mode afterwards
	Changed  bool   `json:"changed"`  // files differ: after SetMode returned vs. after release + settle
	Files    int    `json:"files"`
	FilesEnd int    `json:"files_end"`
}

// one-shot gate: the first write after arming is held until release is closed
type wgate struct {
	armed    atomic.Bool
	n        atomic.Int32
	entered  chan struct{}
	release  chan struct{}
	finished chan struct{}
}

func newWGate() *wgate {
	return &wgate{entered: make(chan struct{}), release: make(chan struct{}), finished: make(chan struct{})}
}

// before is the VerifGateWrites callback; also used by the storage wrapper
func (g *wgate) before(n int) func() {
	if !g.armed.CompareAndSwap(true, false) {
		return nil
	}
	g.n.Store(int32(n))
	close(g.entered)
	<-g.release
	return func() { close(g.finished) }
}

type gatedStorage struct {
	common.Storage
	g *wgate
}

func (s *gatedStorage) Put(addr oid.Address, data []byte) error {
	after := s.g.before(1)
	err := s.Storage.Put(addr, data)
	if after != nil {
		after()
	}
	return err
}

func (s *gatedStorage) PutBatch(objs map[oid.Address][]byte) error {
	after := s.g.before(len(objs))
	err := s.Storage.PutBatch(objs)
	if after != nil {
		after()
	}
	return err
}

const (
	c14EnterTimeout = 40 * time.Second       // the flush scheduler ticks once per second; the machine may be loaded
	c14SwitchWait   = 400 * time.Millisecond // how long SetMode gets to return while the write is held
	c14Settle       = 60 * time.Millisecond
)

func c14InflightOne(r *rng, id int, m mode.Mode, trigger, gateLvl string, pending int) c14Inflight {
	c := c14Inflight{ID: id, Mode: uint32(m), Trigger: trigger, Gate: gateLvl, WC: trigger == "flush", Pending: pending}
	dir := tempDir()
	defer os.RemoveAll(dir)
	g := newWGate()
	o := envOpts{wc: c.WC}
	if gateLvl == "storage" {
		o.blob = func(s common.Storage) common.Storage { return &gatedStorage{Storage: s, g: g} }
	}
	env := mustShard(dir, o)
	sh := env.sh
	defer func() { _ = sh.Close() }()
	if gateLvl == "disk" {
		env.fst.VerifGateWrites(g.before)
	}
	// objects that are already stored when the scenario starts
	c.Stored = 1 + r.intn(3)
	for i := 0; i < c.Stored; i++ {
		if err := sh.Put(mkObject(r, mkCID(r, 2), 1+payloadLen(r)), nil); err != nil {
			fatal("c14 inflight: put: %v", err)
		}
	}
	if c.WC {
		if err := sh.FlushWriteCache(false); err != nil {
			fatal("c14 inflight: flush: %v", err)
		}
	}
	// ---- the write that will be in flight
	g.armed.Store(true)
	var putDone chan error
	if trigger == "put" {
		putDone = make(chan error, 1)
		ob := mkObject(r, mkCID(r, 2), 1+payloadLen(r))
		go func() { putDone <- sh.Put(ob, nil) }()
	} else {
		for i := 0; i < pending; i++ { // lands in the write-cache; the background flusher picks it up
			if err := sh.Put(mkObject(r, mkCID(r, 2), 1+payloadLen(r)), nil); err != nil {
				fatal("c14 inflight: put: %v", err)
			}
		}
	}
	select {
	case <-g.entered:
		c.Entered = true
	case <-time.After(c14EnterTimeout):
		close(g.release)
		return c
	}
	c.GateN = int(g.n.Load())
	// ---- switch the mode while the write is held
	setDone := make(chan error, 1)
	go func() { setDone <- sh.SetMode(m) }()
	var err error
	var s1 string
	select {
	case err = <-setDone:
		// the switch did not wait: from here on nothing may change
		c.Early = true
		s1, c.Files = snapshot(dir)
		close(g.release)
	case <-time.After(c14SwitchWait):
		// the switch waits for the write in flight: let the write finish
		close(g.release)
		err = <-setDone
		s1, c.Files = snapshot(dir)
	}
	c.SetErr = err != nil
	c.ModeSet = sh.GetMode() == m
	select {
	case <-g.finished:
	case <-time.After(c14EnterTimeout):
	}
	if putDone != nil {
		select {
		case <-putDone:
		case <-time.After(c14EnterTimeout):
		}
	}
	time.Sleep(c14Settle) // what follows the write in the worker (removal from the write-cache), other workers
	var s2 string
	s2, c.FilesEnd = snapshot(dir)
	c.Changed = s1 != s2
	return c
}

func c14InflightMain(args []string) {
	rounds := 1
	if len(args) >= 1 {
		rounds, _ = strconv.Atoi(args[0])
	}
	seed := seedFromEnv()
	type spec struct {
		m       mode.Mode
		trigger string
		gate    string
		pending int
	}
	var specs []spec
	for range rounds {
		for _, m := range []mode.Mode{mode.ReadOnly, mode.DegradedReadOnly} {
			for _, gt := range []string{"disk", "storage"} {
				specs = append(specs, spec{m, "flush", gt, 1}, spec{m, "flush", gt, 3}, spec{m, "put", gt, 1})
			}
		}
	}
	res := make([]c14Inflight, len(specs))
	var wg sync.WaitGroup
	sem := make(chan struct{}, 12) // every scenario mostly waits (scheduler tick, held switch): run them side by side
	for i, sp := range specs {
		wg.Add(1)
		sem <- struct{}{}
		go func() {
			defer wg.Done()
			defer func() { <-sem }()
			r := newRng(seed ^ uint64(i)*0x100000001B3 ^ 0xC14F)
			pending := sp.pending
			if pending > 1 {
				pending = 2 + r.intn(4)
			}
			res[i] = c14InflightOne(r, i, sp.m, sp.trigger, sp.gate, pending)
		}()
	}
	wg.Wait()
	for _, c := range res {
		emit(c)
	}
}
