//go:build verif

package main

import (
	"bufio"
	"context"
	"crypto/sha256"
	"encoding/json"
	"errors"
	"os"
	"sort"
	"strconv"
	"sync"

	iec "github.com/nspcc-dev/neofs-node/internal/ec"
	putsvc "github.com/nspcc-dev/neofs-node/pkg/services/object/put"
	"github.com/nspcc-dev/neofs-sdk-go/checksum"
	cid "github.com/nspcc-dev/neofs-sdk-go/container/id"
	neofsecdsa "github.com/nspcc-dev/neofs-sdk-go/crypto/ecdsa"
	"github.com/nspcc-dev/neofs-sdk-go/netmap"
	"github.com/nspcc-dev/neofs-sdk-go/object"
	oid "github.com/nspcc-dev/neofs-sdk-go/object/id"
	protoobject "github.com/nspcc-dev/neofs-sdk-go/proto/object"
	"github.com/nspcc-dev/neofs-sdk-go/user"
	"github.com/nspcc-dev/neofs-sdk-go/version"
	"google.golang.org/protobuf/proto"
)

// C25: one PUT of a REGULAR object through the real distributedTarget.

type iniT struct {
	Limits      []int `json:"limits"`
	Max         int   `json:"max"`
	PreferLocal bool  `json:"prefer"`
}

type sendT struct {
	Rule int `json:"rule"` // EC rule index from the object's attributes, -1 for a whole object
	Part int `json:"part"`
	Node int `json:"node"`
}

type putObs struct {
	Status int     `json:"status"` // 0 ok, 1 incomplete, 2 error
	Sends  []sendT `json:"sends"`  // completion order (serialised by the fake transport)
	Panic  bool    `json:"panic"`
}

type putCase struct {
	Local   int      `json:"local"`
	Lists   [][]int  `json:"lists"`
	Rep     []int    `json:"rep"`
	Ecr     [][2]int `json:"ecr"`
	Ack     []int    `json:"ack"` // nodes that acknowledge
	Session bool     `json:"session"`
	Ini     *iniT    `json:"ini"`
	Src     string   `json:"src"`
	Obs     *putObs  `json:"obs,omitempty"`
}

type putNet struct{ c *putCase }

func (f putNet) GetContainerNodes(cid.ID) (putsvc.ContainerNodes, error) {
	return nil, errors.New("unused")
}
func (f putNet) IsLocalNodePublicKey(k []byte) bool {
	return len(k) == 33 && k[0] == 2 && k[2] == 0xAA && int(k[1]) == f.c.Local
}
func (f putNet) GetEpochBlock(uint64) (uint32, error)       { return 0, nil }
func (f putNet) GetEpochBlockByTime(uint32) (uint32, error) { return 0, nil }

type putNodes struct {
	lists [][]netmap.NodeInfo
	rep   []uint
	ecr   []iec.Rule
}

func (f putNodes) Unsorted() [][]netmap.NodeInfo                       { return f.lists }
func (f putNodes) SortForObject(oid.ID) ([][]netmap.NodeInfo, error) { return f.lists, nil }
func (f putNodes) PrimaryCounts() []uint                               { return f.rep }
func (f putNodes) ECRules() []iec.Rule                                 { return f.ecr }

type putSink struct {
	mtx sync.Mutex
	c   *putCase
	obs *putObs
}

func (s *putSink) record(o *object.Object, node int) error {
	pi, err := iec.GetPartInfo(*o)
	if err != nil {
		pi = iec.PartInfo{RuleIndex: -2, Index: -2}
	}
	s.mtx.Lock()
	s.obs.Sends = append(s.obs.Sends, sendT{Rule: pi.RuleIndex, Part: pi.Index, Node: node})
	s.mtx.Unlock()
	if has(s.c.Ack, node) {
		return nil
	}
	return errors.New("node refused the object")
}

// local storage of the putting node
func (s *putSink) Put(_ context.Context, o *object.Object, _ []byte) error {
	return s.record(o, s.c.Local)
}
func (s *putSink) IsLocked(context.Context, oid.Address) (bool, error) { return false, nil }

// transport to the remote nodes
func (s *putSink) SendReplicationRequestToNode(_ context.Context, req []byte, n netmap.NodeInfo) ([]byte, error) {
	var m protoobject.ReplicateRequest
	var o object.Object
	if err := proto.Unmarshal(req, &m); err == nil && m.GetObject() != nil {
		_ = o.FromProtoMessage(m.GetObject())
	}
	return nil, s.record(&o, nodeID(n))
}

type nopPost struct{}

func (nopPost) HandlePostPlacement(*object.Object, []netmap.NodeInfo) {}

func runPut(c *putCase) {
	obs := &putObs{Sends: []sendT{}}
	c.Obs = obs
	key := fixedKey()
	signer := user.NewAutoIDSigner(*key)
	var cnr cid.ID
	for i := range cnr {
		cnr[i] = byte(i + 7)
	}
	obj := object.New(cnr, signer.UserID())
	ver := version.Current()
	obj.SetVersion(&ver)
	obj.SetPayload([]byte("verif C25 payload: 0123456789abcdefghijklmnopqrstuvwxyz"))
	obj.SetPayloadSize(uint64(len(obj.Payload())))
	obj.SetPayloadChecksum(checksum.NewSHA256(sha256.Sum256(obj.Payload())))
	must(obj.SetIDWithSignature(signer))

	var pn putNodes
	for _, l := range c.Lists {
		var nl []netmap.NodeInfo
		for _, id := range l {
			nl = append(nl, nodeInfo(id, false))
		}
		pn.lists = append(pn.lists, nl)
	}
	for _, r := range c.Rep {
		pn.rep = append(pn.rep, uint(r))
	}
	for _, r := range c.Ecr {
		pn.ecr = append(pn.ecr, iec.Rule{DataPartNum: uint8(r[0]), ParityPartNum: uint8(r[1])})
	}
	sink := &putSink{c: c, obs: obs}
	prm := putsvc.VerifPlacePutPrm{
		Net: putNet{c}, Nodes: pn, Local: sink, Transport: sink,
		LocalSigner: (*neofsecdsa.Signer)(key), PostPlacement: nopPost{}, Object: obj,
	}
	if c.Session {
		prm.SessionSigner = signer
	}
	if c.Ini != nil {
		var ip netmap.InitialPlacementPolicy
		if len(c.Ini.Limits) > 0 {
			ls := make([]uint32, len(c.Ini.Limits))
			for i, l := range c.Ini.Limits {
				ls[i] = uint32(l)
			}
			ip.SetReplicaLimits(ls)
		}
		ip.SetMaxReplicas(uint32(c.Ini.Max))
		ip.SetPreferLocal(c.Ini.PreferLocal)
		prm.Initial = &ip
	}
	func() {
		defer func() {
			if r := recover(); r != nil {
				obs.Panic = true
				obs.Status = 2
			}
		}()
		obs.Status = putsvc.VerifPlacePut(prm)
	}()
}

// canonical form of the sends of whole objects: order inside a group is a race
func (o *putObs) sortWhole() {
	allWhole := true
	for _, s := range o.Sends {
		if s.Rule >= 0 {
			allWhole = false
		}
	}
	if allWhole {
		sort.Slice(o.Sends, func(i, j int) bool { return o.Sends[i].Node < o.Sends[j].Node })
	}
}

func genPutList(r *rng, universe []int, minLen, maxLen int) []int {
	ln := minLen + r.intn(maxLen-minLen+1)
	if ln > len(universe) {
		ln = len(universe)
	}
	l := []int{}
	for _, i := range r.perm(len(universe))[:ln] {
		l = append(l, universe[i])
	}
	return l
}

func genPutCase(r *rng) *putCase {
	c := &putCase{Src: "random", Lists: [][]int{}, Rep: []int{}, Ecr: [][2]int{}, Ack: []int{}}
	universe := []int{1, 2, 3, 4, 5, 6, 7, 8}
	c.Local = universe[r.intn(len(universe))]
	if r.chance(1, 5) {
		c.Local = 99 // not a container node
	}
	den := []int{2, 3, 4, 8}[r.intn(4)]
	for _, n := range universe {
		if !r.chance(1, den) {
			c.Ack = append(c.Ack, n)
		}
	}
	c.Session = r.chance(1, 2)
	if r.chance(2, 3) {
		// replication rules: 1-3 rules, 1-4 copies, overlapping lists
		n := 1 + r.intn(3)
		for i := 0; i < n; i++ {
			rep := 1 + r.intn(4)
			l := genPutList(r, universe, rep, rep+3)
			if r.chance(1, 12) {
				rep = len(l) + 1
			}
			c.Lists = append(c.Lists, l)
			c.Rep = append(c.Rep, rep)
		}
		if r.chance(1, 2) {
			ini := &iniT{Limits: []int{}}
			if r.chance(2, 3) {
				for i := 0; i < n; i++ {
					ini.Limits = append(ini.Limits, r.intn(c.Rep[i]+1))
				}
			}
			if r.chance(2, 3) {
				ini.Max = 1 + r.intn(5)
				ini.PreferLocal = r.chance(1, 2)
			}
			c.Ini = ini
		}
	} else {
		// EC rules (node-side encoding needs the session signer)
		c.Session = true
		n := 1 + r.intn(2)
		for i := 0; i < n; i++ {
			d, p := 1+r.intn(3), r.intn(3)
			if i == 1 && r.chance(1, 2) {
				d, p = c.Ecr[0][0], c.Ecr[0][1] // repeated rule
			}
			c.Ecr = append(c.Ecr, [2]int{d, p})
			c.Lists = append(c.Lists, genPutList(r, universe, d+p, d+p+3))
		}
	}
	return c
}

func putMain() {
	out := bufio.NewWriterSize(os.Stdout, 1<<20)
	defer out.Flush()
	enc := json.NewEncoder(out)
	emit := func(c *putCase) {
		runPut(c)
		c.Obs.sortWhole()
		_ = enc.Encode(c)
	}
	// two equal EC rules with different node lists
	emit(&putCase{Src: "seed", Local: 99, Lists: [][]int{{1, 2, 3}, {4, 5, 6}}, Rep: []int{}, Ecr: [][2]int{{2, 1}, {2, 1}},
		Ack: []int{1, 2, 3, 4, 5, 6}, Session: true})
	emit(&putCase{Src: "seed", Local: 1, Lists: [][]int{{1, 2, 3}, {2, 3, 4}}, Rep: []int{2, 2}, Ecr: [][2]int{},
		Ack: []int{1, 3, 4}, Session: true})
	n := 2500
	if thorough() {
		n = 15000
	}
	if v, err := strconv.Atoi(os.Getenv("VERIF_PLACE_N")); err == nil {
		n = v
	}
	r := newRng()
	for i := 0; i < n; i++ {
		emit(genPutCase(r))
	}
}

func putReplay() {
	enc := json.NewEncoder(os.Stdout)
	sc := bufio.NewScanner(os.Stdin)
	sc.Buffer(make([]byte, 1<<20), 1<<24)
	for sc.Scan() {
		var c putCase
		if err := json.Unmarshal(sc.Bytes(), &c); err != nil {
			continue
		}
		c.Obs = nil
		runPut(&c)
		c.Obs.sortWhole()
		_ = enc.Encode(&c)
	}
}
