//go:build verif

package main

// extraMain dispatches the subcommands of C25 / C27 (added as they are built).
func extraMain(cmd string) bool {
	return false
}
