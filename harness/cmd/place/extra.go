//go:build verif

package main

// extraMain dispatches the subcommands of C25 / C27.
func extraMain(cmd string) bool {
	switch cmd {
	case "put":
		putMain()
	case "put-replay":
		putReplay()
	case "rounds":
		roundsMain()
	case "rounds-replay":
		roundsReplay()
	case "repl":
		replMain()
	case "repl-replay":
		replReplay()
	default:
		return false
	}
	return true
}
