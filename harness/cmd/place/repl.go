//go:build verif

package main

import (
	"bufio"
	"context"
	"encoding/json"
	"os"
	"path/filepath"
	"strconv"
	"strings"
	"time"

	"github.com/nspcc-dev/neofs-node/pkg/local_object_storage/blobstor/fstree"
	"github.com/nspcc-dev/neofs-node/pkg/local_object_storage/engine"
	meta "github.com/nspcc-dev/neofs-node/pkg/local_object_storage/metabase"
	"github.com/nspcc-dev/neofs-node/pkg/local_object_storage/shard"
	"github.com/nspcc-dev/neofs-node/pkg/local_object_storage/shard/mode"
	putsvc "github.com/nspcc-dev/neofs-node/pkg/services/object/put"
	objutil "github.com/nspcc-dev/neofs-node/pkg/services/object/util"
	"github.com/nspcc-dev/neofs-node/pkg/services/replicator"
	"github.com/nspcc-dev/neofs-sdk-go/netmap"
	"github.com/nspcc-dev/neofs-sdk-go/object"
	oid "github.com/nspcc-dev/neofs-sdk-go/object/id"
	"go.uber.org/zap"
)

// C26/C27: tasks given directly to the real Replicator.HandleTask, of every kind the node
// builds: address only (policer) or carrying the object (Task.SetObject: post-placement
// replication of the Put service, EC parts), with the LOCAL node anywhere among the targets.

type replCase struct {
	Local    int      `json:"local"`
	Rep      [][2]int `json:"rep"`      // remote node -> replication outcome code (see policer.go)
	Readable bool     `json:"readable"` // address-only task: the object is in the local storage
	Given    bool     `json:"given"`    // Task.SetObject
	Big      bool     `json:"big"`      // carried object's header exceeds object.MaxHeaderLen
	LPut     bool     `json:"lput"`     // local storage accepts writes
	Q        int      `json:"q"`
	Nodes    []int    `json:"nodes"`
	Src      string   `json:"src"`
	Sends    []int    `json:"sends"`
	Succ     []int    `json:"succ"`
}

type nopResult struct{}

func (nopResult) SubmitSuccessfulReplication(netmap.NodeInfo) {}

type replWorld struct {
	*world
	ro     *engine.StorageEngine // real engine whose only shard is read-only: every Put fails
	obj    *object.Object        // valid object (the one stored in world.eng)
	bigObj *object.Object        // same with a header over the limit
}

func newReplWorld() *replWorld {
	w := &replWorld{world: newWorld()}
	w.ro = engine.New()
	id, err := w.ro.AddShard(
		shard.WithLogger(zap.NewNop()),
		shard.WithBlobstor(fstree.New(fstree.WithPath(filepath.Join(w.dir, "ro-fstree")), fstree.WithDepth(1))),
		shard.WithMetaBaseOptions(
			meta.WithPath(filepath.Join(w.dir, "ro-meta")),
			meta.WithPermissions(0700),
			meta.WithEpochState(epochState{}),
			meta.WithMaxBatchDelay(time.Microsecond),
		),
		shard.WithContainerPayments(noPayments{}),
	)
	must(err)
	must(w.ro.Init())
	must(w.ro.SetShardMode(id, mode.ReadOnly, false))
	o, err := w.eng.Get(context.Background(), w.stored)
	must(err)
	w.obj = o
	big := *o
	big.SetAttributes(object.NewAttribute("verif-padding", strings.Repeat("x", object.MaxHeaderLen+1)))
	w.bigObj = &big
	return w
}

func (w *replWorld) close() {
	_ = w.ro.Close()
	w.world.close()
}

func (c *replCase) normalize() {
	if c.Rep == nil {
		c.Rep = [][2]int{}
	}
	if c.Nodes == nil {
		c.Nodes = []int{}
	}
	if !c.Given {
		c.Big, c.LPut = false, true
	} else {
		c.Readable = true
	}
}

func (w *replWorld) run(c *replCase) {
	c.normalize()
	pc := &polCase{Local: c.Local, Rep: c.Rep}
	obs := &obsT{Sends: []int{}, Succ: []int{}}
	fn := &fakeNet{c: pc}
	eng := w.eng
	if c.Given && !c.LPut {
		eng = w.ro
	}
	rp := replicator.New(
		replicator.WithLogger(zap.NewNop()),
		replicator.WithPutTimeout(time.Minute),
		replicator.WithRemoteSender(putsvc.NewRemoteSender(objutil.NewKeyStorage(w.key, nil, nil), &fakeCons{c: pc, obs: obs})),
		replicator.WithLocalStorage(eng),
		replicator.WithLocalNodeKey(fn),
	)
	var t replicator.Task
	t.SetCopiesNumber(uint32(c.Q))
	var nodes []netmap.NodeInfo
	for _, id := range c.Nodes {
		nodes = append(nodes, nodeInfo(id, false))
	}
	t.SetNodes(nodes)
	switch {
	case c.Given && c.Big:
		t.SetObject(w.bigObj)
		t.SetObjectAddress(oid.NewAddress(w.bigObj.GetContainerID(), w.bigObj.GetID()))
	case c.Given:
		t.SetObject(w.obj)
		t.SetObjectAddress(w.stored)
	case c.Readable:
		t.SetObjectAddress(w.stored)
	default:
		t.SetObjectAddress(w.missing)
	}
	rp.HandleTask(context.Background(), t, recResult{next: nopResult{}, obs: obs})
	c.Sends, c.Succ = obs.Sends, obs.Succ
}

// every target list [up to maxRemote remote nodes + the local node at any position or absent] x every
// quantity 0..len+1 (nothing asked, one, exact fit, one more than the targets) x per-remote outcome
// (stores / transport failure) x task kind (address readable / unreadable, object carried with a
// writable / read-only local storage / oversized header)
func enumRepl(maxRemote int, emit func(*replCase)) {
	const local = 9
	kinds := []replCase{
		{Readable: true}, {Readable: false},
		{Given: true, LPut: true}, {Given: true, LPut: false}, {Given: true, LPut: true, Big: true},
	}
	for nr := 1; nr <= maxRemote; nr++ {
		remotes := []int{1, 2, 3, 4}[:nr]
		for pos := -1; pos <= nr; pos++ {
			var list []int
			for i, n := range remotes {
				if i == pos {
					list = append(list, local)
				}
				list = append(list, n)
			}
			if pos == nr {
				list = append(list, local)
			}
			for bv := 0; bv < 1<<nr; bv++ {
				for q := 0; q <= len(list)+1; q++ {
					for _, k := range kinds {
						c := k
						c.Src, c.Local, c.Q = "enum", local, q
						c.Nodes = append([]int{}, list...)
						for i, n := range remotes {
							if bv>>i&1 == 0 {
								c.Rep = append(c.Rep, [2]int{n, 0})
							}
						}
						emit(&c)
					}
				}
			}
		}
	}
}

func genRepl(r *rng) *replCase {
	c := &replCase{Src: "random"}
	universe := []int{1, 2, 3, 4, 5, 6}
	c.Local = universe[r.intn(len(universe))]
	ln := 1 + r.intn(5)
	for _, i := range r.perm(len(universe)) {
		if len(c.Nodes) >= ln {
			break
		}
		if universe[i] != c.Local || r.chance(1, 2) {
			c.Nodes = append(c.Nodes, universe[i])
		}
	}
	if r.chance(1, 2) && !has(c.Nodes, c.Local) {
		c.Nodes[r.intn(len(c.Nodes))] = c.Local
	}
	for _, n := range universe {
		if o := [8]int{0, 0, 0, 0, 1, 2, 3, 4}[r.intn(8)]; o != 3 {
			c.Rep = append(c.Rep, [2]int{n, o})
		}
	}
	c.Q = r.intn(len(c.Nodes) + 2)
	c.Given = r.chance(2, 3)
	c.LPut = r.chance(3, 4)
	c.Big = r.chance(1, 10)
	c.Readable = r.chance(5, 6)
	return c
}

func replMain() {
	w := newReplWorld()
	defer w.close()
	out := bufio.NewWriterSize(os.Stdout, 1<<20)
	defer out.Flush()
	enc := json.NewEncoder(out)
	emit := func(c *replCase) {
		w.run(c)
		_ = enc.Encode(c)
	}
	// post-placement replication shape: the object is carried, the local node is one of the targets and
	// there are more remote nodes than the remaining quota
	emit(&replCase{Src: "seed", Local: 3, Given: true, LPut: true, Q: 2, Nodes: []int{3, 1, 2},
		Rep: [][2]int{{1, 0}, {2, 0}}})
	emit(&replCase{Src: "seed", Local: 3, Given: true, LPut: true, Q: 1, Nodes: []int{1, 3, 2},
		Rep: [][2]int{{2, 0}}})
	nRandom, maxRemote := 400, 3
	if thorough() {
		nRandom, maxRemote = 4000, 4
	}
	if v, err := strconv.Atoi(os.Getenv("VERIF_PLACE_N")); err == nil {
		nRandom = v
	}
	enumRepl(maxRemote, emit)
	r := newRng()
	for i := 0; i < nRandom; i++ {
		emit(genRepl(r))
	}
}

func replReplay() {
	w := newReplWorld()
	defer w.close()
	enc := json.NewEncoder(os.Stdout)
	sc := bufio.NewScanner(os.Stdin)
	sc.Buffer(make([]byte, 1<<20), 1<<24)
	for sc.Scan() {
		var c replCase
		if err := json.Unmarshal(sc.Bytes(), &c); err != nil {
			continue
		}
		c.Sends, c.Succ = nil, nil
		w.run(&c)
		_ = enc.Encode(&c)
	}
}
