//go:build verif

package main

import (
	"bufio"
	"encoding/json"
	"os"
	"sort"
	"strconv"
)

// C27: rounds of the real policer decision over a shared in-memory cluster.

type stepT struct {
	V     int     `json:"v"`
	Tasks []taskT `json:"tasks"`
	Succ  []int   `json:"succ"`
	Dels  []int   `json:"dels"`
}

type roundsCase struct {
	Nodes  []int     `json:"nodes"` // placement list of the object (all container nodes)
	R      int       `json:"r"`
	Holds  []int     `json:"holds"`
	Orders [][]int   `json:"orders"`
	Rounds [][]stepT `json:"rounds,omitempty"`
	After  [][]int   `json:"after,omitempty"`
	Src    string    `json:"src"`
}

func (w *world) runRounds(c *roundsCase) {
	holds := map[int]bool{}
	for _, h := range c.Holds {
		holds[h] = true
	}
	c.Rounds, c.After = [][]stepT{}, [][]int{}
	for _, order := range c.Orders {
		steps := []stepT{}
		for _, v := range order {
			if !holds[v] {
				continue
			}
			pc := &polCase{Local: v, InNM: true, Readable: true, Ty: 0, Shards: 1,
				Net: netT{K: 2, NN: [][]int{append([]int{}, c.Nodes...)}, Rep: []int{c.R}, Ecr: [][2]int{}}}
			for _, n := range c.Nodes {
				a := 1
				if holds[n] {
					a = 0
				}
				pc.Ans = append(pc.Ans, [2]int{n, a})
				pc.Rep = append(pc.Rep, [2]int{n, 0}) // every node stores what it is sent
			}
			pc.normalize()
			w.run(pc)
			o := pc.Obs
			steps = append(steps, stepT{V: v, Tasks: o.Tasks, Succ: o.Succ, Dels: o.Dels})
			// the replicated object is stored by the nodes the transport delivered it to
			for _, n := range o.Succ {
				holds[n] = true
			}
			if has(o.Dels, 1) {
				delete(holds, v)
			}
		}
		c.Rounds = append(c.Rounds, steps)
		after := []int{}
		for n := range holds {
			after = append(after, n)
		}
		sort.Ints(after)
		c.After = append(c.After, after)
	}
}

func genRounds(r *rng) *roundsCase {
	c := &roundsCase{Src: "random"}
	n := 3 + r.intn(4) // 3-6 nodes
	ids := []int{1, 2, 3, 4, 5, 6}[:n]
	for _, i := range r.perm(n) {
		c.Nodes = append(c.Nodes, ids[i])
	}
	c.R = 1 + r.intn(3)
	if c.R > n {
		c.R = n
	}
	for _, id := range ids {
		if r.chance(1, 3) {
			c.Holds = append(c.Holds, id)
		}
	}
	if len(c.Holds) == 0 {
		c.Holds = []int{ids[r.intn(n)]}
	}
	for k := 0; k < c.R+2; k++ {
		o := []int{}
		for _, i := range r.perm(n) {
			o = append(o, ids[i])
		}
		c.Orders = append(c.Orders, o)
	}
	return c
}

func roundsMain() {
	w := newWorld()
	defer w.close()
	out := bufio.NewWriterSize(os.Stdout, 1<<20)
	defer out.Flush()
	enc := json.NewEncoder(out)
	n := 500
	if thorough() {
		n = 3000
	}
	if v, err := strconv.Atoi(os.Getenv("VERIF_PLACE_N")); err == nil {
		n = v
	}
	seed := &roundsCase{Src: "seed", Nodes: []int{1, 2, 3, 4}, R: 2, Holds: []int{3, 4},
		Orders: [][]int{{1, 2, 3, 4}, {4, 3, 2, 1}, {2, 4, 1, 3}, {1, 2, 3, 4}}}
	w.runRounds(seed)
	_ = enc.Encode(seed)
	r := newRng()
	for i := 0; i < n; i++ {
		c := genRounds(r)
		w.runRounds(c)
		_ = enc.Encode(c)
	}
}

func roundsReplay() {
	w := newWorld()
	defer w.close()
	enc := json.NewEncoder(os.Stdout)
	sc := bufio.NewScanner(os.Stdin)
	sc.Buffer(make([]byte, 1<<20), 1<<24)
	for sc.Scan() {
		var c roundsCase
		if err := json.Unmarshal(sc.Bytes(), &c); err != nil {
			continue
		}
		w.runRounds(&c)
		_ = enc.Encode(&c)
	}
}
