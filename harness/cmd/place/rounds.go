//go:build verif

package main

import (
	"bufio"
	"encoding/json"
	"os"
	"sort"
	"strconv"
)

// C27: rounds of the real policer decision over a shared in-memory cluster.

type stepT struct {
	V     int     `json:"v"`
	Tasks []taskT `json:"tasks"`
	Succ  []int   `json:"succ"`
	Dels  []int   `json:"dels"`
}

type roundsCase struct {
	NN     [][]int   `json:"nn"`  // one placement vector per REP rule (the vectors may share nodes)
	Rep    []int     `json:"rep"` // copies number per rule
	Holds  []int     `json:"holds"`
	Orders [][]int   `json:"orders"`
	Rounds [][]stepT `json:"rounds,omitempty"`
	After  [][]int   `json:"after,omitempty"`
	Src    string    `json:"src"`
}

// container nodes: every node of any vector, in order of first appearance
func (c *roundsCase) container() []int {
	var all []int
	for _, l := range c.NN {
		for _, n := range l {
			if !has(all, n) {
				all = append(all, n)
			}
		}
	}
	return all
}

func (w *world) runRounds(c *roundsCase) {
	all := c.container()
	holds := map[int]bool{}
	for _, h := range c.Holds {
		holds[h] = true
	}
	c.Rounds, c.After = [][]stepT{}, [][]int{}
	for _, order := range c.Orders {
		steps := []stepT{}
		for _, v := range order {
			if !holds[v] {
				continue
			}
			pc := &polCase{Local: v, InNM: true, Readable: true, Ty: 0, Shards: 1,
				Net: netT{K: 2, Rep: append([]int{}, c.Rep...), Ecr: [][2]int{}}}
			for _, l := range c.NN {
				pc.Net.NN = append(pc.Net.NN, append([]int{}, l...))
			}
			for _, n := range all {
				a := 1
				if holds[n] {
					a = 0
				}
				pc.Ans = append(pc.Ans, [2]int{n, a})
				pc.Rep = append(pc.Rep, [2]int{n, 0}) // every node stores what it is sent
			}
			pc.normalize()
			w.run(pc)
			o := pc.Obs
			steps = append(steps, stepT{V: v, Tasks: o.Tasks, Succ: o.Succ, Dels: o.Dels})
			// the replicated object is stored by the nodes the transport delivered it to
			for _, n := range o.Succ {
				holds[n] = true
			}
			if has(o.Dels, 1) {
				delete(holds, v)
			}
		}
		c.Rounds = append(c.Rounds, steps)
		after := []int{}
		for n := range holds {
			after = append(after, n)
		}
		sort.Ints(after)
		c.After = append(c.After, after)
	}
}

func genRounds(r *rng) *roundsCase {
	c := &roundsCase{Src: "random"}
	n := 3 + r.intn(4) // 3-6 nodes
	ids := []int{1, 2, 3, 4, 5, 6}[:n]
	var l1 []int
	for _, i := range r.perm(n) {
		l1 = append(l1, ids[i])
	}
	r1 := 1 + r.intn(3)
	if r1 > n {
		r1 = n
	}
	c.NN, c.Rep = [][]int{l1}, []int{r1}
	if r.chance(1, 2) {
		// a second REP rule over (a part of) the same nodes in another order: the vectors overlap
		k := n
		if r.chance(1, 2) {
			k = 1 + r.intn(n)
		}
		var l2 []int
		for _, i := range r.perm(n)[:k] {
			l2 = append(l2, ids[i])
		}
		r2 := 1 + r.intn(3)
		if r2 > k {
			r2 = k
		}
		c.NN, c.Rep = append(c.NN, l2), append(c.Rep, r2)
	}
	for _, id := range ids {
		if r.chance(1, 3) {
			c.Holds = append(c.Holds, id)
		}
	}
	if len(c.Holds) == 0 {
		c.Holds = []int{ids[r.intn(n)]}
	}
	c.Orders = randOrders(r, ids, c.Rep)
	return c
}

// sum of the copies numbers + 2 rounds, an independent random order of the nodes each
func randOrders(r *rng, ids []int, rep []int) [][]int {
	k := 2
	for _, x := range rep {
		k += x
	}
	var orders [][]int
	for ; k > 0; k-- {
		o := []int{}
		for _, i := range r.perm(len(ids)) {
			o = append(o, ids[i])
		}
		orders = append(orders, o)
	}
	return orders
}

func roundsMain() {
	w := newWorld()
	defer w.close()
	out := bufio.NewWriterSize(os.Stdout, 1<<20)
	defer out.Flush()
	enc := json.NewEncoder(out)
	n := 500
	if thorough() {
		n = 3000
	}
	if v, err := strconv.Atoi(os.Getenv("VERIF_PLACE_N")); err == nil {
		n = v
	}
	seed := &roundsCase{Src: "seed", NN: [][]int{{1, 2, 3, 4}}, Rep: []int{2}, Holds: []int{3, 4},
		Orders: [][]int{{1, 2, 3, 4}, {4, 3, 2, 1}, {2, 4, 1, 3}, {1, 2, 3, 4}}}
	w.runRounds(seed)
	_ = enc.Encode(seed)
	r := newRng()
	// two REP 1 rules over the same three nodes in rotated order (a node that is a backup node of the
	// first vector is the primary node of the second one), every non-empty initial distribution
	for hm := 1; hm < 8; hm++ {
		c := &roundsCase{Src: "seed2", NN: [][]int{{1, 2, 3}, {2, 3, 1}}, Rep: []int{1, 1}}
		for i := 0; i < 3; i++ {
			if hm>>i&1 == 1 {
				c.Holds = append(c.Holds, i+1)
			}
		}
		c.Orders = randOrders(r, []int{1, 2, 3}, c.Rep)
		w.runRounds(c)
		_ = enc.Encode(c)
	}
	for i := 0; i < n; i++ {
		c := genRounds(r)
		w.runRounds(c)
		_ = enc.Encode(c)
	}
}

func roundsReplay() {
	w := newWorld()
	defer w.close()
	enc := json.NewEncoder(os.Stdout)
	sc := bufio.NewScanner(os.Stdin)
	sc.Buffer(make([]byte, 1<<20), 1<<24)
	for sc.Scan() {
		var c roundsCase
		if err := json.Unmarshal(sc.Bytes(), &c); err != nil {
			continue
		}
		w.runRounds(&c)
		_ = enc.Encode(&c)
	}
}
