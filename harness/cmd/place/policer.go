//go:build verif

package main

import (
	"bufio"
	"context"
	"crypto/ecdsa"
	"crypto/elliptic"
	"crypto/sha256"
	"encoding/json"
	"errors"
	"fmt"
	"io"
	"math/big"
	"os"
	"path/filepath"
	"strconv"
	"time"

	iec "github.com/nspcc-dev/neofs-node/internal/ec"
	clientcore "github.com/nspcc-dev/neofs-node/pkg/core/client"
	objectcore "github.com/nspcc-dev/neofs-node/pkg/core/object"
	"github.com/nspcc-dev/neofs-node/pkg/local_object_storage/blobstor/fstree"
	"github.com/nspcc-dev/neofs-node/pkg/local_object_storage/engine"
	meta "github.com/nspcc-dev/neofs-node/pkg/local_object_storage/metabase"
	"github.com/nspcc-dev/neofs-node/pkg/local_object_storage/shard"
	putsvc "github.com/nspcc-dev/neofs-node/pkg/services/object/put"
	objutil "github.com/nspcc-dev/neofs-node/pkg/services/object/util"
	"github.com/nspcc-dev/neofs-node/pkg/services/policer"
	"github.com/nspcc-dev/neofs-node/pkg/services/replicator"
	"github.com/nspcc-dev/neofs-sdk-go/checksum"
	apistatus "github.com/nspcc-dev/neofs-sdk-go/client/status"
	cid "github.com/nspcc-dev/neofs-sdk-go/container/id"
	neofscrypto "github.com/nspcc-dev/neofs-sdk-go/crypto"
	neofsecdsa "github.com/nspcc-dev/neofs-sdk-go/crypto/ecdsa"
	"github.com/nspcc-dev/neofs-sdk-go/netmap"
	"github.com/nspcc-dev/neofs-sdk-go/object"
	oid "github.com/nspcc-dev/neofs-sdk-go/object/id"
	"github.com/nspcc-dev/neofs-sdk-go/user"
	"github.com/nspcc-dev/neofs-sdk-go/version"
	"go.uber.org/zap"
)

// answer codes: 0 has, 1 not found, 2 maintenance status, 3 other error
// replication outcome codes (what a remote node does with the replicator's request):
// 0 stores the object, 1 answers with the maintenance status, 2 answers with another failure
// status, 3 transport failure (default), 4 no client can be made for the node
// object types: 0 REGULAR, 1 TOMBSTONE, 2 LOCK, 3 LINK
// net.K: 0 container not found, 1 other error, 2 ok

type netT struct {
	K   int      `json:"k"`
	NN  [][]int  `json:"nn"`
	Rep []int    `json:"rep"`
	Ecr [][2]int `json:"ecr"`
}

type taskT struct {
	Q     int   `json:"q"`
	Nodes []int `json:"nodes"`
}

type obsT struct {
	Heads []int   `json:"heads"`
	Tasks []taskT `json:"tasks"`
	Sends []int   `json:"sends"`
	Succ  []int   `json:"succ"`
	Dels  []int   `json:"dels"` // 0 default mark, 1 redundant mark
	DS    bool    `json:"ds"`
	Panic bool    `json:"panic"`
}

type polCase struct {
	Local    int      `json:"local"`
	InNM     bool     `json:"innm"`
	MFlag    []int    `json:"mflag"`
	Ans      [][2]int `json:"ans"`
	Rep      [][2]int `json:"rep"` // node -> replication outcome code
	Readable bool     `json:"readable"`
	Ty       int      `json:"ty"`
	Ec       *[2]int  `json:"ec"`
	Shards   int      `json:"shards"`
	Net      netT     `json:"net"`
	Src      string   `json:"src"`
	Obs      *obsT    `json:"obs,omitempty"`
}

func has(xs []int, x int) bool {
	for _, y := range xs {
		if y == x {
			return true
		}
	}
	return false
}

func (c *polCase) answer(n int) int {
	for _, a := range c.Ans {
		if a[0] == n {
			return a[1]
		}
	}
	return 3
}

func (c *polCase) repOutcome(n int) int {
	for _, a := range c.Rep {
		if a[0] == n {
			return a[1]
		}
	}
	return 3
}

// failure statuses (other than maintenance) a storage node may answer a replication request with;
// none of them means that the node holds the object afterwards
var repStatuses = []error{
	apistatus.ErrObjectAlreadyRemoved,
	apistatus.ErrObjectAccessDenied,
	apistatus.ErrContainerNotFound,
	apistatus.ErrServerInternal,
	apistatus.ErrBusy,
	apistatus.ErrObjectNotFound,
	apistatus.ErrQuotaExceeded,
	apistatus.ErrSignatureVerification,
	apistatus.ErrIncomplete,
}

// ---- fakes ---------------------------------------------------------------

func nodeKey(id int) []byte {
	k := make([]byte, 33)
	k[0] = 2
	k[1] = byte(id)
	k[2] = 0xAA
	return k
}

func nodeID(n netmap.NodeInfo) int { return int(n.PublicKey()[1]) }

func nodeInfo(id int, maint bool) netmap.NodeInfo {
	var n netmap.NodeInfo
	n.SetPublicKey(nodeKey(id))
	n.SetNetworkEndpoints("/ip4/127.0.0.1/tcp/" + strconv.Itoa(1000+id))
	if maint {
		n.SetMaintenance()
	} else {
		n.SetOnline()
	}
	return n
}

type fakeNet struct {
	c     *polCase
	lists [][]netmap.NodeInfo
	rep   []uint
	ecr   []iec.Rule
}

func (f *fakeNet) IsLocalNodeInNetmap() bool { return f.c.InNM }
func (f *fakeNet) IsLocalNodePublicKey(k []byte) bool {
	return len(k) == 33 && k[0] == 2 && k[2] == 0xAA && int(k[1]) == f.c.Local
}
func (f *fakeNet) GetNodesForObject(oid.Address) ([][]netmap.NodeInfo, []uint, []iec.Rule, error) {
	switch f.c.Net.K {
	case 0:
		return nil, nil, nil, fmt.Errorf("wrapped: %w", apistatus.ErrContainerNotFound)
	case 1:
		return nil, nil, nil, errors.New("netmap unavailable")
	}
	return f.lists, f.rep, f.ecr, nil
}

type fakeLocal struct {
	obs *obsT
}

func (f *fakeLocal) ListWithCursor(context.Context, uint32, *engine.Cursor, ...string) ([]objectcore.AddressWithAttributes, *engine.Cursor, error) {
	return nil, nil, engine.ErrEndOfListing
}
func (f *fakeLocal) Delete(_ context.Context, _ oid.Address, m engine.GarbageMark) error {
	if m == engine.GarbageMarkRedundant {
		f.obs.Dels = append(f.obs.Dels, 1)
	} else {
		f.obs.Dels = append(f.obs.Dels, 0)
	}
	return nil
}
func (f *fakeLocal) DeleteRedundantCopies(context.Context, oid.Address, []string) error {
	f.obs.DS = true
	return nil
}
func (f *fakeLocal) Put(context.Context, *object.Object, []byte) error { return nil }
func (f *fakeLocal) Head(context.Context, oid.Address, bool) (*object.Object, error) {
	return nil, errors.New("verif: no local parent header")
}
func (f *fakeLocal) HeadECPart(context.Context, cid.ID, oid.ID, iec.PartInfo) (object.Object, error) {
	return object.Object{}, apistatus.ErrObjectNotFound
}
func (f *fakeLocal) GetRange(context.Context, oid.Address, uint64, uint64) ([]byte, error) {
	return nil, errors.New("verif: no local range")
}

// transport of the real replicator
type fakeClient struct {
	clientcore.MultiAddressClient
	id  int
	c   *polCase
	obs *obsT
}

func (f *fakeClient) ReplicateObject(_ context.Context, _ oid.ID, src io.ReadSeeker, _ neofscrypto.Signer, _ bool) (*neofscrypto.Signature, error) {
	f.obs.Sends = append(f.obs.Sends, f.id)
	if src != nil {
		_, _ = io.Copy(io.Discard, src)
	}
	switch f.c.repOutcome(f.id) {
	case 0:
		return nil, nil
	case 1:
		return nil, apistatus.ErrNodeUnderMaintenance
	case 2:
		// which status: fixed by the case and the node, so that all of them occur over a run
		k := f.id + f.c.Local + len(f.c.Ans) + 3*len(f.c.Rep) + f.c.Ty
		return nil, repStatuses[k%len(repStatuses)]
	}
	return nil, errors.New("replication refused")
}

type fakeCons struct {
	c   *polCase
	obs *obsT
}

func (f *fakeCons) Get(_ context.Context, n netmap.NodeInfo) (clientcore.MultiAddressClient, error) {
	if f.c.repOutcome(nodeID(n)) == 4 {
		return nil, errors.New("verif: node is unreachable")
	}
	return &fakeClient{id: nodeID(n), c: f.c, obs: f.obs}, nil
}

// records tasks and reported successes around the real Replicator
type recRepl struct {
	real *replicator.Replicator
	obs  *obsT
}

type recResult struct {
	next replicator.TaskResult
	obs  *obsT
}

func (r recResult) SubmitSuccessfulReplication(n netmap.NodeInfo) {
	r.obs.Succ = append(r.obs.Succ, nodeID(n))
	r.next.SubmitSuccessfulReplication(n)
}

func (r *recRepl) HandleTask(ctx context.Context, t replicator.Task, res replicator.TaskResult) {
	tt := taskT{Q: int(replicator.VerifPlaceTaskQuantity(t)), Nodes: []int{}}
	for _, n := range t.Nodes() {
		tt.Nodes = append(tt.Nodes, nodeID(n))
	}
	r.obs.Tasks = append(r.obs.Tasks, tt)
	r.real.HandleTask(ctx, t, recResult{next: res, obs: r.obs})
}

// ---- shared real local storage for the replicator --------------------------

type epochState struct{}

func (epochState) CurrentEpoch() uint64 { return 0 }

type noPayments struct{}

func (noPayments) PaymentsDisabled() bool            { return true }
func (noPayments) UnpaidSince(cid.ID) (int64, error) { return -1, nil }

type world struct {
	dir      string
	eng      *engine.StorageEngine
	key      *ecdsa.PrivateKey
	stored   oid.Address // readable by the replicator
	missing  oid.Address // not in the local storage
	parentID oid.ID
}

func fixedKey() *ecdsa.PrivateKey {
	d := new(big.Int).SetBytes([]byte("verif-place-fixed-private-key-01"))
	k := &ecdsa.PrivateKey{D: d}
	k.Curve = elliptic.P256()
	k.X, k.Y = k.Curve.ScalarBaseMult(d.Bytes())
	return k
}

func newWorld() *world {
	dir, err := os.MkdirTemp("", "verif-place-")
	must(err)
	w := &world{dir: dir, key: fixedKey()}
	w.eng = engine.New()
	_, err = w.eng.AddShard(
		shard.WithLogger(zap.NewNop()),
		shard.WithBlobstor(fstree.New(fstree.WithPath(filepath.Join(dir, "fstree")), fstree.WithDepth(1))),
		shard.WithMetaBaseOptions(
			meta.WithPath(filepath.Join(dir, "meta")),
			meta.WithPermissions(0700),
			meta.WithEpochState(epochState{}),
			meta.WithMaxBatchDelay(time.Microsecond),
		),
		shard.WithContainerPayments(noPayments{}),
	)
	must(err)
	must(w.eng.Init())

	var cnr cid.ID
	for i := range cnr {
		cnr[i] = byte(i + 1)
	}
	signer := user.NewAutoIDSigner(*w.key)
	obj := object.New(cnr, signer.UserID())
	ver := version.Current()
	obj.SetVersion(&ver)
	obj.SetPayload([]byte("verif placement payload"))
	obj.SetPayloadSize(uint64(len(obj.Payload())))
	obj.SetPayloadChecksum(checksum.NewSHA256(sha256.Sum256(obj.Payload())))
	must(obj.SetIDWithSignature(signer))
	must(w.eng.Put(context.Background(), obj, nil))
	w.stored = oid.NewAddress(cnr, obj.GetID())
	var other oid.ID
	for i := range other {
		other[i] = byte(0xF0 - i)
	}
	w.missing = oid.NewAddress(cnr, other)
	for i := range w.parentID {
		w.parentID[i] = byte(0x40 + i)
	}
	return w
}

func (w *world) close() {
	_ = w.eng.Close()
	_ = os.RemoveAll(w.dir)
}

func must(err error) {
	if err != nil {
		fmt.Fprintln(os.Stderr, "harness:", err)
		os.Exit(3)
	}
}

var headErrs = [4]func() error{
	func() error { return nil },
	func() error { return fmt.Errorf("remote: %w", apistatus.ErrObjectNotFound) },
	func() error { return apistatus.ErrNodeUnderMaintenance },
	func() error { return errors.New("connection refused") },
}

// runs the real policer decision for one object over the fakes
func (w *world) run(c *polCase) {
	obs := &obsT{Heads: []int{}, Tasks: []taskT{}, Sends: []int{}, Succ: []int{}, Dels: []int{}}
	c.Obs = obs
	fn := &fakeNet{c: c}
	for _, l := range c.Net.NN {
		var nl []netmap.NodeInfo
		for _, id := range l {
			nl = append(nl, nodeInfo(id, has(c.MFlag, id)))
		}
		fn.lists = append(fn.lists, nl)
	}
	for _, r := range c.Net.Rep {
		fn.rep = append(fn.rep, uint(r))
	}
	for _, r := range c.Net.Ecr {
		fn.ecr = append(fn.ecr, iec.Rule{DataPartNum: uint8(r[0]), ParityPartNum: uint8(r[1])})
	}
	head := func(_ context.Context, n netmap.NodeInfo, _ oid.Address, _ bool, xs []string) (object.Object, error) {
		if xs != nil {
			// EC part lookups of checkECParts (restoring lost parts is outside C26):
			// answer "already removed", which makes checkECParts return at once
			return object.Object{}, apistatus.ErrObjectAlreadyRemoved
		}
		id := nodeID(n)
		obs.Heads = append(obs.Heads, id)
		return object.Object{}, headErrs[c.answer(id)]()
	}
	rp := replicator.New(
		replicator.WithLogger(zap.NewNop()),
		replicator.WithPutTimeout(time.Minute),
		replicator.WithRemoteSender(putsvc.NewRemoteSender(objutil.NewKeyStorage(w.key, nil, nil), &fakeCons{c: c, obs: obs})),
		replicator.WithLocalStorage(w.eng),
		replicator.WithLocalNodeKey(fn),
	)
	p := policer.VerifPlaceNew((*neofsecdsa.Signer)(w.key), fn, &fakeLocal{obs: obs}, head, &recRepl{real: rp, obs: obs})

	var o objectcore.AddressWithAttributes
	if c.Readable {
		o.Address = w.stored
	} else {
		o.Address = w.missing
	}
	o.Type = [4]object.Type{object.TypeRegular, object.TypeTombstone, object.TypeLock, object.TypeLink}[c.Ty]
	o.Attributes = []string{"", "", ""}
	if c.Ec != nil {
		o.Attributes = []string{strconv.Itoa(c.Ec[0]), strconv.Itoa(c.Ec[1]), string(w.parentID[:])}
	}
	for i := 0; i < c.Shards; i++ {
		o.ShardIDs = append(o.ShardIDs, "shard"+strconv.Itoa(i))
	}
	func() {
		defer func() {
			if r := recover(); r != nil {
				obs.Panic = true
			}
		}()
		p.VerifPlaceProcessObject(context.Background(), o)
	}()
}

// ---- generators -----------------------------------------------------------

// a random list of distinct nodes; the local node at any position or absent
func genList(r *rng, universe []int, local int, minLen, maxLen int, withLocal bool) []int {
	ln := minLen + r.intn(maxLen-minLen+1)
	var l []int
	for _, i := range r.perm(len(universe)) {
		if len(l) >= ln {
			break
		}
		if universe[i] != local {
			l = append(l, universe[i])
		}
	}
	if withLocal {
		pos := r.intn(len(l) + 1)
		if len(l) == ln && ln > 0 {
			l[r.intn(len(l))] = local
		} else {
			l = append(l[:pos], append([]int{local}, l[pos:]...)...)
		}
	}
	return l
}

func genCase(r *rng) *polCase {
	c := &polCase{Src: "random"}
	universe := []int{1, 2, 3, 4, 5, 6, 7}
	c.Local = universe[r.intn(len(universe))]
	c.InNM = r.chance(5, 6)
	c.Readable = r.chance(9, 10)
	// answer profile: mostly-has / mostly-missing / mixed
	prof := r.intn(4)
	for _, n := range universe {
		var a int
		switch prof {
		case 0:
			a = [8]int{0, 0, 0, 0, 0, 1, 2, 3}[r.intn(8)]
		case 1:
			a = [8]int{1, 1, 1, 1, 0, 2, 2, 3}[r.intn(8)]
		default:
			a = r.intn(4)
		}
		c.Ans = append(c.Ans, [2]int{n, a})
		if r.chance(1, 6) {
			c.MFlag = append(c.MFlag, n)
		}
		// stores / maintenance status / other status / transport failure (absent) / unreachable
		if o := [8]int{0, 0, 0, 0, 1, 2, 3, 4}[r.intn(8)]; o != 3 {
			c.Rep = append(c.Rep, [2]int{n, o})
		}
	}
	c.Ty = [8]int{0, 0, 0, 0, 1, 2, 3, 0}[r.intn(8)]
	c.Shards = r.intn(4)
	switch r.intn(40) {
	case 0:
		c.Net.K = 0
	case 1:
		c.Net.K = 1
	default:
		c.Net.K = 2
	}
	nRep := [6]int{1, 1, 1, 2, 2, 0}[r.intn(6)]
	nEc := [6]int{0, 0, 0, 0, 1, 2}[r.intn(6)]
	if nRep == 0 && nEc == 0 {
		nRep = 1
	}
	localIn := r.chance(3, 4)
	for i := 0; i < nRep; i++ {
		l := genList(r, universe, c.Local, 1, 5, localIn && r.chance(4, 5))
		c.Net.NN = append(c.Net.NN, l)
		rr := 1 + r.intn(3)
		if r.chance(1, 10) {
			rr = len(l) + r.intn(2)
		}
		c.Net.Rep = append(c.Net.Rep, rr)
	}
	for i := 0; i < nEc; i++ {
		d, p := 1+r.intn(3), r.intn(3)
		c.Net.Ecr = append(c.Net.Ecr, [2]int{d, p})
		mn := d + p
		if mn > 6 {
			mn = 6
		}
		c.Net.NN = append(c.Net.NN, genList(r, universe, c.Local, mn, 6, localIn && r.chance(4, 5)))
	}
	if c.Net.NN == nil {
		c.Net.NN = [][]int{}
	}
	if c.Net.Rep == nil {
		c.Net.Rep = []int{}
	}
	if c.Net.Ecr == nil {
		c.Net.Ecr = [][2]int{}
	}
	if r.chance(1, 3) && (nEc > 0 || r.chance(1, 8)) {
		c.Ty = 0
		ri := r.intn(nEc + 1)
		if r.chance(9, 10) && nEc > 0 {
			ri = r.intn(nEc)
		}
		tot := 3
		if ri < nEc {
			tot = c.Net.Ecr[ri][0] + c.Net.Ecr[ri][1]
		}
		pi := r.intn(tot + 1)
		if r.chance(9, 10) {
			pi = r.intn(tot)
		}
		c.Ec = &[2]int{ri, pi}
	}
	return c
}

// all single-rule REP placements with up to maxRemote remote nodes: local at any
// position or absent, every per-node behaviour vector, REP 1..2, REGULAR and LOCK.
// Per-node behaviours: flagged as under maintenance in the netmap (never HEADed: one
// answer is enough) | HEAD answers has / maintenance status / error | HEAD answers
// not found (the node becomes a replication candidate) x EVERY replication outcome
// (stores, maintenance status, other failure status, transport failure, unreachable).
// Nodes that the current code never sends a replica to get a rotating outcome, so a
// change that does send to them meets storing and refusing nodes alike.
func enumCases(maxRemote int, emit func(*polCase)) {
	const local = 9
	const nOutcomes = 5
	type beh struct{ ans, flag, rep int } // rep < 0: rotating
	behs := []beh{{0, 0, -1}, {2, 0, -1}, {3, 0, -1}, {0, 1, -1}}
	for o := 0; o < nOutcomes; o++ {
		behs = append(behs, beh{1, 0, o})
	}
	rot := 0
	for nr := 1; nr <= maxRemote; nr++ {
		remotes := []int{1, 2, 3, 4}[:nr]
		nvec := 1
		for i := 0; i < nr; i++ {
			nvec *= len(behs)
		}
		for pos := -1; pos <= nr; pos++ {
			var list []int
			for i, n := range remotes {
				if i == pos {
					list = append(list, local)
				}
				list = append(list, n)
			}
			if pos == nr {
				list = append(list, local)
			}
			for bv := 0; bv < nvec; bv++ {
				for rep := 1; rep <= 2; rep++ {
					for _, ty := range []int{0, 2} {
						c := &polCase{Src: "enum", Local: local, InNM: true, Readable: true, Ty: ty, Shards: 1}
						v := bv
						for _, n := range remotes {
							b := behs[v%len(behs)]
							v /= len(behs)
							c.Ans = append(c.Ans, [2]int{n, b.ans})
							if b.flag == 1 {
								c.MFlag = append(c.MFlag, n)
							}
							o := b.rep
							if o < 0 {
								o = rot % nOutcomes
								rot++
							}
							if o != 3 {
								c.Rep = append(c.Rep, [2]int{n, o})
							}
						}
						c.Net = netT{K: 2, NN: [][]int{append([]int{}, list...)}, Rep: []int{rep}, Ecr: [][2]int{}}
						emit(c)
					}
				}
			}
		}
	}
}

// all EC parts of one 2+1 rule over [two remote nodes + the local node at any position]: every part index x
// per-node behaviour (HEAD has / maintenance / error | HEAD not found x every replication outcome)
func enumECCases(emit func(*polCase)) {
	const local = 9
	type beh struct{ ans, rep int }
	behs := []beh{{0, 0}, {2, 3}, {3, 0}}
	for o := 0; o < 5; o++ {
		behs = append(behs, beh{1, o})
	}
	for pos := 0; pos <= 2; pos++ {
		list := []int{1, 2}
		list = append(list[:pos], append([]int{local}, list[pos:]...)...)
		for part := 0; part < 3; part++ {
			for bv := 0; bv < len(behs)*len(behs); bv++ {
				c := &polCase{Src: "enum-ec", Local: local, InNM: true, Readable: true, Shards: 1, Ec: &[2]int{0, part}}
				for i, n := range []int{1, 2} {
					b := behs[bv%len(behs)]
					if i == 1 {
						b = behs[bv/len(behs)]
					}
					c.Ans = append(c.Ans, [2]int{n, b.ans})
					if b.rep != 3 {
						c.Rep = append(c.Rep, [2]int{n, b.rep})
					}
				}
				c.Net = netT{K: 2, NN: [][]int{append([]int{}, list...)}, Rep: []int{}, Ecr: [][2]int{{2, 1}}}
				emit(c)
			}
		}
	}
}

func (c *polCase) normalize() {
	if c.MFlag == nil {
		c.MFlag = []int{}
	}
	if c.Rep == nil {
		c.Rep = [][2]int{}
	}
	if c.Ans == nil {
		c.Ans = [][2]int{}
	}
}

func policerMain() {
	w := newWorld()
	defer w.close()
	out := bufio.NewWriterSize(os.Stdout, 1<<20)
	defer out.Flush()
	enc := json.NewEncoder(out)
	emit := func(c *polCase) {
		c.normalize()
		w.run(c)
		_ = enc.Encode(c)
	}
	// the probe-confirmed scenario first: [A: not found, M: maintenance, Local], REP 1, replication to A fails
	emit(&polCase{Src: "seed", Local: 3, InNM: true, Readable: true, Ans: [][2]int{{1, 1}, {2, 2}}, Shards: 1,
		Net: netT{K: 2, NN: [][]int{{1, 2, 3}}, Rep: []int{1}, Ecr: [][2]int{}}})
	emit(&polCase{Src: "seed", Local: 3, InNM: true, Readable: true, Ans: [][2]int{{1, 1}}, MFlag: []int{2}, Shards: 1,
		Net: netT{K: 2, NN: [][]int{{1, 2}}, Rep: []int{1}, Ecr: [][2]int{}}})
	// a candidate (HEAD: not found) that answers the replication request with the maintenance status, as the only
	// other node of an EC rule / of a REP rule the local node is outside of: nothing is stored, nothing may be dropped
	emit(&polCase{Src: "seed", Local: 3, InNM: true, Readable: true, Ans: [][2]int{{1, 1}}, Rep: [][2]int{{1, 1}}, Shards: 1,
		Ec: &[2]int{0, 0}, Net: netT{K: 2, NN: [][]int{{1, 3, 2}}, Rep: []int{}, Ecr: [][2]int{{2, 1}}}})
	emit(&polCase{Src: "seed", Local: 3, InNM: true, Readable: true, Ans: [][2]int{{1, 1}, {2, 1}}, Rep: [][2]int{{1, 1}, {2, 2}}, Shards: 1,
		Net: netT{K: 2, NN: [][]int{{1, 2}}, Rep: []int{1}, Ecr: [][2]int{}}})
	nRandom, maxRemote := 2600, 2
	if thorough() {
		nRandom, maxRemote = 15000, 3
	}
	if v, err := strconv.Atoi(os.Getenv("VERIF_PLACE_N")); err == nil {
		nRandom = v
	}
	enumCases(maxRemote, emit)
	enumECCases(emit)
	r := newRng()
	for i := 0; i < nRandom; i++ {
		emit(genCase(r))
	}
}

// re-runs cases given as JSON lines on stdin
func policerReplay() {
	w := newWorld()
	defer w.close()
	enc := json.NewEncoder(os.Stdout)
	sc := bufio.NewScanner(os.Stdin)
	sc.Buffer(make([]byte, 1<<20), 1<<24)
	for sc.Scan() {
		var c polCase
		if err := json.Unmarshal(sc.Bytes(), &c); err != nil {
			continue
		}
		c.Obs = nil
		c.normalize()
		w.run(&c)
		_ = enc.Encode(&c)
	}
}
