//go:build verif

// Differential harness for the placement family (C25, C26, C27). Built inside
// /repo's module through `go build -overlay` (see /verif/lib/vlib.py).
package main

import (
	"fmt"
	"os"
	"strconv"
)

// splitmix64: the only source of randomness, seeded from VERIF_SEED.
type rng struct{ s uint64 }

func newRng() *rng {
	seed, _ := strconv.ParseUint(os.Getenv("VERIF_SEED"), 10, 64)
	return &rng{s: seed*0x9E3779B97F4A7C15 + 0x1234567}
}

func (r *rng) next() uint64 {
	r.s += 0x9E3779B97F4A7C15
	z := r.s
	z = (z ^ (z >> 30)) * 0xBF58476D1CE4E5B9
	z = (z ^ (z >> 27)) * 0x94D049BB133111EB
	return z ^ (z >> 31)
}

func (r *rng) intn(n int) int {
	if n <= 0 {
		return 0
	}
	return int(r.next() % uint64(n))
}

// true with probability num/den
func (r *rng) chance(num, den int) bool { return r.intn(den) < num }

func (r *rng) perm(n int) []int {
	p := make([]int, n)
	for i := range p {
		p[i] = i
	}
	for i := n - 1; i > 0; i-- {
		j := r.intn(i + 1)
		p[i], p[j] = p[j], p[i]
	}
	return p
}

func thorough() bool { return os.Getenv("VERIF_TIER") == "thorough" }

func main() {
	if len(os.Args) < 2 {
		fmt.Fprintln(os.Stderr, "usage: place policer|policer-replay|put|put-replay|rounds|rounds-replay")
		os.Exit(2)
	}
	switch os.Args[1] {
	case "policer":
		policerMain()
	case "policer-replay":
		policerReplay()
	default:
		if !extraMain(os.Args[1]) {
			fmt.Fprintln(os.Stderr, "unknown command")
			os.Exit(2)
		}
	}
}
