//go:build verif

package main

// C04: engine.StorageEngine.Search over 1-4 real shards holding overlapping
// copies of a corpus, against one metabase holding every object once.
// Cursors are followed with page sizes 1, 2, 3 and N; every cursor the engine
// returns goes through PreprocessSearchQuery on the next request.

import (
	"context"
	"encoding/base64"
	"encoding/json"
	"errors"
	"os"
	"path/filepath"
	"slices"
	"time"

	"github.com/nspcc-dev/bbolt"
	"github.com/nspcc-dev/neofs-node/pkg/local_object_storage/blobstor/fstree"
	"github.com/nspcc-dev/neofs-node/pkg/local_object_storage/engine"
	meta "github.com/nspcc-dev/neofs-node/pkg/local_object_storage/metabase"
	"github.com/nspcc-dev/neofs-node/pkg/local_object_storage/shard"
	objectcore "github.com/nspcc-dev/neofs-node/pkg/core/object"
	"github.com/nspcc-dev/neofs-sdk-go/client"
	cid "github.com/nspcc-dev/neofs-sdk-go/container/id"
	"github.com/nspcc-dev/neofs-sdk-go/object"
	"go.uber.org/zap"
)

type noPayments struct{}

func (noPayments) PaymentsDisabled() bool              { return true }
func (noPayments) UnpaidSince(cid.ID) (int64, error) { return -1, nil }

type engEnv struct {
	dir    string
	e      *engine.StorageEngine
	shards []*shard.Shard
	union  *meta.DB
	es     *epochState
}

func newEngEnv(n int) *engEnv {
	dir, err := os.MkdirTemp("", "verif-search-eng-")
	must(err)
	v := &engEnv{dir: dir, es: &epochState{0}}
	v.e = engine.New(engine.WithLogger(zap.NewNop()))
	var ids []string
	for i := 0; i < n; i++ {
		d := filepath.Join(dir, "s"+string(rune('0'+i)))
		id, err := v.e.AddShard(
			shard.WithLogger(zap.NewNop()),
			shard.WithBlobstor(fstree.New(fstree.WithPath(filepath.Join(d, "fstree")), fstree.WithNoSync(true), fstree.WithDepth(1))),
			shard.WithMetaBaseOptions(
				meta.WithPath(filepath.Join(d, "meta")),
				meta.WithPermissions(0o700),
				meta.WithEpochState(v.es),
				meta.WithLogger(zap.NewNop()),
				meta.WithMaxBatchDelay(time.Microsecond),
				meta.WithBoltDBOptions(&bbolt.Options{NoSync: true, NoFreelistSync: true, Timeout: time.Second}),
			),
			shard.WithWriteCache(false),
			shard.WithGCRemoverSleepInterval(time.Hour),
			shard.WithContainerPayments(noPayments{}),
		)
		must(err)
		ids = append(ids, id.String())
	}
	must(v.e.Init())
	for _, sid := range ids {
		v.shards = append(v.shards, v.e.VerifShard(sid))
	}
	v.union = openDB(dir, "union.db", v.es)
	return v
}

func (v *engEnv) close() {
	_ = v.e.Close()
	_ = v.union.Close()
	_ = os.RemoveAll(v.dir)
}

type engPage struct {
	Items   []itemOut   `json:"items"`
	Cursor  string      `json:"cursor"`            // cursor returned by the engine (hex, "" = none)
	Sets    [][]itemOut `json:"sets"`              // what every shard returned for the same request (shard index order)
	Mores   []bool      `json:"mores"`             // ... and whether it returned a cursor
	ShErr   []bool      `json:"sherr"`
}

type engOut struct {
	K        string     `json:"k"`
	Shards   int        `json:"shards"`
	Copies   []int      `json:"copies"` // number of shards holding each object
	Filters  [][]any    `json:"filters"`
	Attrs    []string   `json:"attrs"`
	Count    int        `json:"count"`
	Pre      string     `json:"pre"`
	EngErr   bool       `json:"engerr"`
	Rejected bool       `json:"rejected"` // a cursor returned by the engine was refused by PreprocessSearchQuery
	Loop     bool       `json:"loop"`
	Pages    []engPage  `json:"pages"`
	RefPre   string     `json:"refpre"`
	RefErr   bool       `json:"referr"`
	RefPages [][]itemOut `json:"refpages"` // one search over the union, same page size, cursors followed
	RefCur   []string   `json:"refcur"`
}

func followUnion(db *meta.DB, fs object.SearchFilters, attrs []string, count int) (pre string, pages [][]itemOut, curs []string, failed bool) {
	pages, curs = [][]itemOut{}, []string{}
	cursor := ""
	for step := 0; step <= 3*len(idPool)+3; step++ {
		ofs, cur, err := objectcore.PreprocessSearchQuery(fs, attrs, cursor)
		if err != nil {
			if errors.Is(err, objectcore.ErrUnreachableQuery) {
				return "unreach", pages, curs, false
			}
			if step > 0 {
				return "cursor-rejected", pages, curs, false
			}
			return "err", pages, curs, false
		}
		res, nc, err, _ := safeSearch(db, ofs, attrs, cur, uint16(count))
		if err != nil {
			return "ok", pages, curs, true
		}
		pages = append(pages, items(res))
		curs = append(curs, hx(nc))
		if len(nc) == 0 {
			return "ok", pages, curs, false
		}
		cursor = base64.StdEncoding.EncodeToString(nc)
	}
	return "loop", pages, curs, false
}

func (v *engEnv) run(q querySpec, count int, copies []int) engOut {
	out := engOut{K: "eng", Shards: len(v.shards), Copies: copies, Count: count, Filters: [][]any{}, Attrs: []string{}, Pages: []engPage{}}
	for _, f := range q.Filters {
		out.Filters = append(out.Filters, []any{hx([]byte(f.K)), f.Op, hx([]byte(f.V))})
	}
	for _, a := range q.Attrs {
		out.Attrs = append(out.Attrs, hx([]byte(a)))
	}
	fs := q.sdk()
	out.RefPre, out.RefPages, out.RefCur, out.RefErr = followUnion(v.union, fs, q.Attrs, count)
	cursor := ""
	for step := 0; ; step++ {
		if step > 3*len(idPool)+3 {
			out.Loop = true
			break
		}
		ofs, cur, err := objectcore.PreprocessSearchQuery(fs, q.Attrs, cursor)
		if err != nil {
			switch {
			case step > 0:
				out.Rejected = true
			case errors.Is(err, objectcore.ErrUnreachableQuery):
				out.Pre = "unreach"
			default:
				out.Pre = "err"
			}
			break
		}
		out.Pre = "ok"
		var pg engPage
		pg.Sets, pg.Mores, pg.ShErr = [][]itemOut{}, []bool{}, []bool{}
		for _, sh := range v.shards {
			// the cursor structure is not modified by Search
			res, nc, err := sh.Search(cnrMain, ofs, q.Attrs, cur, uint16(count))
			pg.Sets = append(pg.Sets, items(res))
			pg.Mores = append(pg.Mores, nc != nil)
			pg.ShErr = append(pg.ShErr, err != nil)
		}
		var res []client.SearchResultItem
		var nc []byte
		func() {
			defer func() {
				if r := recover(); r != nil {
					err = errors.New("panic")
				}
			}()
			res, nc, err = v.e.Search(context.Background(), cnrMain, ofs, q.Attrs, cur, uint16(count))
		}()
		if err != nil {
			out.EngErr = true
			break
		}
		pg.Items, pg.Cursor = items(res), hx(nc)
		out.Pages = append(out.Pages, pg)
		if len(nc) == 0 {
			break
		}
		cursor = base64.StdEncoding.EncodeToString(nc)
	}
	return out
}

// queries inside the scope of C04: one filter on the primary attribute (several filters
// on it and Base58 prefixes are known defects of the single-shard search, C03), optional
// filters on other attributes
func (c *corpus) genEngQuery() querySpec {
	for {
		q := c.genQuery()
		if len(q.Filters) == 0 {
			return q
		}
		ok := true
		for i := 1; i < len(q.Filters); i++ {
			if q.Filters[i].K == q.Filters[0].K {
				ok = false
			}
		}
		switch q.Filters[0].K {
		case object.FilterOwnerID, object.FilterFirstSplitObject, object.FilterParentID, object.AttributeAssociatedObject:
			if q.Filters[0].Op == 4 {
				ok = false
			}
		}
		if ok {
			return q
		}
	}
}

func engGen(nCorpora, nQueries int) {
	enc := json.NewEncoder(os.Stdout)
	for ci := 0; ci < nCorpora; ci++ {
		nSh := 1 + rnd.intn(4)
		v := newEngEnv(nSh)
		c := &corpus{db: v.union}
		perm := slices.Clone(idPool)
		for i := len(perm) - 1; i > 0; i-- {
			j := rnd.intn(i + 1)
			perm[i], perm[j] = perm[j], perm[i]
		}
		var copies []int
		for _, id := range perm[:3+rnd.intn(len(perm)-2)] {
			s := genObject(id, cnrMain)
			must(v.union.Put(s.obj))
			n := 0
			for n == 0 {
				for _, sh := range v.shards {
					if rnd.chance(55) {
						if err := sh.Put(s.obj, nil); err == nil {
							n++
						}
					}
				}
			}
			copies = append(copies, n)
			c.objs = append(c.objs, s)
		}
		v.es.e = curEpoch
		directed := []querySpec{
			{Filters: []filterSpec{{K: object.AttributeAssociatedObject, Op: 3}}, Attrs: []string{object.AttributeAssociatedObject}},
			{Filters: []filterSpec{{K: "N", Op: 3}}, Attrs: []string{"N"}},
			{Filters: []filterSpec{{K: object.FilterRoot}}, Attrs: []string{object.FilterRoot}},
			{Filters: []filterSpec{{K: object.FilterPayloadChecksum, Op: 2, V: "00"}}, Attrs: []string{object.FilterPayloadChecksum}},
			{Filters: []filterSpec{{K: object.AttributeAssociatedObject, Op: 2, V: "x"}}, Attrs: []string{object.AttributeAssociatedObject}},
			{Filters: []filterSpec{{K: object.FilterSplitID, Op: 2, V: "x"}}, Attrs: []string{object.FilterSplitID, "N"}},
			{Filters: []filterSpec{{K: "N", Op: 6, V: "-" + max256}}, Attrs: []string{"N"}},
		}
		for i := 0; i < nQueries; i++ {
			var q querySpec
			if i < 2 {
				q = pick(directed)
			} else {
				q = c.genEngQuery()
			}
			if len(q.Filters) > 0 && len(q.Attrs) == 0 && rnd.chance(50) {
				q.Attrs = []string{q.Filters[0].K} // what Server.ProcessSearch does for filtered queries
			}
			for _, cnt := range []int{1, 2, 3, 1000} {
				_ = enc.Encode(v.run(q, cnt, copies))
			}
		}
		v.close()
	}
}
