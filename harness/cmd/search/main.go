//go:build verif

// Differential harness for the Search family (C03, C04): real meta.DB on temp
// bbolt files, generated corpora / filters / page sizes, cursors followed to
// the end. Prints projected observables, one JSON object per line.
package main

import (
	"bytes"
	"encoding/base64"
	"encoding/hex"
	"encoding/json"
	"errors"
	"fmt"
	"os"
	"path/filepath"
	"slices"
	"strconv"
	"strings"

	"github.com/google/uuid"
	"github.com/mr-tron/base58"
	"github.com/nspcc-dev/bbolt"
	"github.com/nspcc-dev/neo-go/pkg/util"
	objectcore "github.com/nspcc-dev/neofs-node/pkg/core/object"
	meta "github.com/nspcc-dev/neofs-node/pkg/local_object_storage/metabase"
	"github.com/nspcc-dev/neofs-node/pkg/local_object_storage/blobstor/common"
	"github.com/nspcc-dev/neofs-sdk-go/checksum"
	"github.com/nspcc-dev/neofs-sdk-go/client"
	cid "github.com/nspcc-dev/neofs-sdk-go/container/id"
	"github.com/nspcc-dev/neofs-sdk-go/object"
	oid "github.com/nspcc-dev/neofs-sdk-go/object/id"
	"github.com/nspcc-dev/neofs-sdk-go/user"
	"github.com/nspcc-dev/neofs-sdk-go/version"
)

// ---- PRNG (splitmix64), the only source of randomness ----
type rng struct{ s uint64 }

func (r *rng) next() uint64 {
	r.s += 0x9e3779b97f4a7c15
	z := r.s
	z = (z ^ (z >> 30)) * 0xbf58476d1ce4e5b9
	z = (z ^ (z >> 27)) * 0x94d049bb133111eb
	return z ^ (z >> 31)
}
func (r *rng) intn(n int) int { return int(r.next() % uint64(n)) }
func (r *rng) chance(p int) bool { return r.intn(100) < p }

var rnd *rng

func pick[T any](xs []T) T { return xs[rnd.intn(len(xs))] }

func hx(b []byte) string { return hex.EncodeToString(b) }

type epochState struct{ e uint64 }

func (s *epochState) CurrentEpoch() uint64 { return s.e }

const curEpoch = 5

// ---- universe ----
var (
	cnrMain  = mkCID(0x11)
	cnrNoise = mkCID(0x22)
	idPool   = mkIDs(false)
	refPool  = mkIDs(true) // targets of parent / first / associate references: never stored themselves
	owners   = mkOwners()
	sums     = [][32]byte{fill32(0xAB, 0), fill32(0xAB, 1), fill32(0x00, 7), fill32(0xFF, 0xFF)}
	splitIDs = [][]byte{
		{0x6f, 0x1a, 0x8c, 0x3b, 0x00, 0x11, 0x42, 0x22, 0x83, 0x33, 0x44, 0x55, 0x66, 0x77, 0x88, 0x99},
		{0x6f, 0x1a, 0x8c, 0x3b, 0x00, 0x11, 0x42, 0x22, 0x83, 0x33, 0x44, 0x55, 0x66, 0x77, 0x88, 0x9a},
		{0x00, 0x00, 0x00, 0x01, 0x00, 0x00, 0x40, 0x00, 0x80, 0x00, 0x00, 0x00, 0x00, 0x00, 0x00, 0x00},
	}
	userKeys = []string{"A", "AB", "N", "K"}
	strVals  = []string{"a", "ab", "abc", "abd", "b", "a b", "B", "~", "1a", "\x01"}
	max256   = "115792089237316195423570985008687907853269984665640564039457584007913129639935"
	intVals  = []string{"0", "-0", "+5", "5", "05", "-5", "10", "12", "15", "20", "30", "-1", "1", "100", "-100",
		max256, "-" + max256, max256[:77] + "4", "-" + max256[:77] + "4",
		"18446744073709551616", "-18446744073709551615"}
	oddVals = []string{"-+5", "++5", "1e3", "12a", "+", "-", " 5", "5 ", max256[:77] + "6", "-" + max256[:77] + "6", "0x10"}
)

func mkCID(b byte) cid.ID {
	var c cid.ID
	for i := range c {
		c[i] = b
	}
	return c
}

func fill32(b, last byte) [32]byte {
	var r [32]byte
	for i := range r {
		r[i] = b
	}
	r[31] = last
	return r
}

func mkIDs(foreign bool) []oid.ID {
	var res []oid.ID
	for _, first := range []byte{0x00, 0x01, 0xFF} {
		if foreign && first == 0x01 {
			continue
		}
		for _, last := range []byte{0x01, 0x02, 0x00, 0xFF} {
			var id oid.ID
			id[0] = first
			id[31] = last
			if first == 0xFF {
				for i := 1; i < 31; i++ {
					id[i] = 0xFF
				}
			}
			if foreign {
				id[15] = 0x77
			}
			if !id.IsZero() {
				res = append(res, id)
			}
		}
	}
	return res
}

func mkOwners() []user.ID {
	var res []user.ID
	for _, b := range []byte{0x01, 0x02, 0x00} {
		var h util.Uint160
		for i := range h {
			h[i] = 0x10
		}
		h[19] = b
		res = append(res, user.NewFromScriptHash(h)) // valid IDs (prefix + checksum): MergeSearchResults decodes them
	}
	return res
}

// ---- corpus ----
type attrKV struct {
	K string
	V []byte
}

type objSpec struct {
	ID     oid.ID
	Attrs  []attrKV // index-level view (attribute, raw DB value) as constructed here
	Avail  bool     // by construction
	Exists bool     // as the metabase reports
	obj    *object.Object
}

func sysKeys() []string {
	return []string{object.FilterVersion, object.FilterOwnerID, object.FilterType, object.FilterCreationEpoch, object.FilterPayloadSize,
		object.FilterPayloadChecksum, object.FilterSplitID, object.FilterFirstSplitObject, object.FilterParentID, object.FilterRoot,
		object.FilterPhysical, object.AttributeAssociatedObject, object.AttributeExpirationEpoch}
}

func genObject(id oid.ID, cnr cid.ID) *objSpec {
	var o object.Object
	s := &objSpec{ID: id, Avail: true}
	add := func(k string, v []byte) { s.Attrs = append(s.Attrs, attrKV{k, v}) }
	o.SetContainerID(cnr)
	o.SetID(id)
	ver := version.Current()
	o.SetVersion(&ver)
	add(object.FilterVersion, []byte(ver.String()))
	own := pick(owners)
	o.SetOwner(own)
	add(object.FilterOwnerID, own[:])
	o.SetType(object.TypeRegular)
	add(object.FilterType, []byte(object.TypeRegular.String()))
	ce := uint64(pick([]int{0, 1, 2, 10, 100}))
	o.SetCreationEpoch(ce)
	add(object.FilterCreationEpoch, []byte(strconv.FormatUint(ce, 10)))
	ps := pick([]uint64{0, 1, 2, 20, 1 << 32, 1<<64 - 1})
	o.SetPayloadSize(ps)
	add(object.FilterPayloadSize, []byte(strconv.FormatUint(ps, 10)))
	sum := pick(sums)
	o.SetPayloadChecksum(checksum.NewSHA256(sum))
	add(object.FilterPayloadChecksum, sum[:])
	if rnd.chance(50) {
		sid := pick(splitIDs)
		o.SetSplitID(object.NewSplitIDFromV2(sid))
		add(object.FilterSplitID, sid)
	}
	if rnd.chance(40) {
		f := pick(refPool)
		o.SetFirstID(f)
		add(object.FilterFirstSplitObject, f[:])
	}
	hasParent := o.HasParent() // any split field set
	if rnd.chance(30) {
		p := pick(refPool)
		o.SetParentID(p)
		add(object.FilterParentID, p[:])
		hasParent = true
	}
	if !hasParent {
		add(object.FilterRoot, []byte("1"))
	}
	add(object.FilterPhysical, []byte("1"))
	var attrs []object.Attribute
	for _, k := range userKeys {
		if !rnd.chance(65) {
			continue
		}
		var v string
		switch r := rnd.intn(10); {
		case r < 4:
			v = pick(strVals)
		case r < 9:
			v = pick(intVals)
		default:
			v = pick(oddVals)
		}
		attrs = append(attrs, object.NewAttribute(k, v))
		add(k, []byte(v))
	}
	if rnd.chance(40) {
		a := pick(refPool)
		attrs = append(attrs, object.NewAttribute(object.AttributeAssociatedObject, a.EncodeToString()))
		add(object.AttributeAssociatedObject, a[:])
	}
	if rnd.chance(35) {
		e := pick([]int{3, 4, 5, 6, 8})
		attrs = append(attrs, object.NewAttribute(object.AttributeExpirationEpoch, strconv.Itoa(e)))
		add(object.AttributeExpirationEpoch, []byte(strconv.Itoa(e)))
		if e < curEpoch {
			s.Avail = false
		}
	}
	o.SetAttributes(attrs...)
	s.obj = &o
	return s
}

type corpus struct {
	dir  string
	db   *meta.DB
	objs []*objSpec
}

func openDB(dir, name string, es *epochState) *meta.DB {
	db := meta.New(meta.WithPath(filepath.Join(dir, name)), meta.WithPermissions(0o600), meta.WithEpochState(es),
		meta.WithBoltDBOptions(&bbolt.Options{NoSync: true, NoFreelistSync: true}))
	must(db.Open(false))
	sid, err := common.NewID()
	must(err)
	must(db.Init(sid))
	return db
}

func must(err error) {
	if err != nil {
		fmt.Fprintln(os.Stderr, "harness error:", err)
		os.Exit(3)
	}
}

func genCorpus(nObj int) *corpus {
	dir, err := os.MkdirTemp("", "verif-search-")
	must(err)
	es := &epochState{0} // objects are stored at epoch 0 and looked at at curEpoch, so some are expired by then
	c := &corpus{dir: dir, db: openDB(dir, "meta.db", es)}
	perm := slices.Clone(idPool)
	for i := len(perm) - 1; i > 0; i-- {
		j := rnd.intn(i + 1)
		perm[i], perm[j] = perm[j], perm[i]
	}
	for _, id := range perm[:min(nObj, len(perm))] {
		s := genObject(id, cnrMain)
		if s.obj.Parent() != nil {
			must(errors.New("unexpected parent header"))
		}
		must(c.db.Put(s.obj))
		c.objs = append(c.objs, s)
	}
	// noise in another container
	for _, id := range perm[:min(3, len(perm))] {
		_ = c.db.Put(genObject(id, cnrNoise).obj)
	}
	// removal of some objects
	var kept []*objSpec
	for _, s := range c.objs {
		switch r := rnd.intn(12); {
		case r == 0: // physical removal: gone from every index
			_, _, err := c.db.Delete(cnrMain, []oid.ID{s.ID})
			must(err)
			continue
		case r == 1:
			_, err := c.db.MarkGarbage(cnrMain, []oid.ID{s.ID}, meta.GarbageMarkDefault)
			must(err)
			s.Avail = false
		case r == 2:
			// a redundant copy stays readable until it is collected
			_, err := c.db.MarkGarbage(cnrMain, []oid.ID{s.ID}, meta.GarbageMarkRedundant)
			must(err)
		}
		kept = append(kept, s)
	}
	c.objs = kept
	es.e = curEpoch
	for _, s := range c.objs {
		ex, err := c.db.Exists(oid.NewAddress(cnrMain, s.ID), false)
		s.Exists = err == nil && ex
		if os.Getenv("VERIF_DEBUG") != "" && s.Exists != s.Avail {
			fmt.Fprintln(os.Stderr, "avail mismatch", s.ID, s.Avail, ex, err)
			for _, a := range s.Attrs {
				fmt.Fprintf(os.Stderr, "    %s = %q\n", a.K, a.V)
			}
		}
	}
	return c
}

func (c *corpus) close() {
	_ = c.db.Close()
	_ = os.RemoveAll(c.dir)
}

// ---- queries ----
type filterSpec struct {
	K  string
	Op int
	V  string
}

type querySpec struct {
	Filters []filterSpec
	Attrs   []string
}

func (c *corpus) valuesOf(k string) [][]byte {
	var res [][]byte
	for _, s := range c.objs {
		for _, a := range s.Attrs {
			if a.K == k {
				res = append(res, a.V)
			}
		}
	}
	return res
}

func textForm(k string, raw []byte) string {
	switch k {
	case object.FilterOwnerID, object.FilterFirstSplitObject, object.FilterParentID, object.AttributeAssociatedObject:
		return base58.Encode(raw)
	case object.FilterPayloadChecksum:
		return hex.EncodeToString(raw)
	case object.FilterSplitID:
		if len(raw) == 16 {
			u, _ := uuid.FromBytes(raw)
			return u.String()
		}
	}
	return string(raw)
}

func (c *corpus) genFilter(k string) filterSpec {
	if k == object.FilterRoot || k == object.FilterPhysical {
		return filterSpec{K: k}
	}
	op := 1 + rnd.intn(8)
	switch k {
	case object.FilterOwnerID, object.FilterFirstSplitObject, object.FilterParentID, object.AttributeAssociatedObject, object.FilterPayloadChecksum:
		if rnd.chance(30) {
			op = 4 // prefix of the text form
		}
	}
	vals := c.valuesOf(k)
	var v string
	if len(vals) > 0 && rnd.chance(80) {
		v = textForm(k, pick(vals))
	} else {
		v = pick(append(append(slices.Clone(strVals), intVals...), oddVals...))
	}
	switch {
	case op >= 5: // numeric: mostly integers near the stored ones
		if rnd.chance(85) {
			v = pick(intVals)
			if rnd.chance(20) { // the bounds of the range: auto-match / unreachable handling
				v = pick([]string{max256, "-" + max256})
			}
			if len(vals) > 0 && rnd.chance(50) {
				if s := string(pick(vals)); len(s) < 80 && !strings.ContainsAny(s, "\x00") {
					v = s
				}
			}
		}
	case op == 4 || rnd.chance(15): // prefix
		if len(v) > 1 {
			v = v[:1+rnd.intn(len(v)-1)]
		}
	}
	if rnd.chance(4) {
		v = strings.ToUpper(v)
	}
	return filterSpec{K: k, Op: op, V: v}
}

func (c *corpus) genQuery() querySpec {
	var q querySpec
	n := pick([]int{0, 1, 1, 1, 2, 2, 2, 3, 3, 4})
	keys := append(slices.Clone(userKeys), userKeys...)
	keys = append(keys, sysKeys()...)
	var prim string
	for i := 0; i < n; i++ {
		k := pick(keys)
		if i > 0 && rnd.chance(25) {
			k = prim // several filters on the primary attribute
		}
		if i == 0 {
			prim = k
		}
		q.Filters = append(q.Filters, c.genFilter(k))
	}
	if n > 0 && rnd.chance(70) {
		q.Attrs = []string{prim}
		for rnd.chance(40) && len(q.Attrs) < 4 {
			if rnd.chance(50) {
				q.Attrs = append(q.Attrs, pick(sysKeys()))
			} else {
				q.Attrs = append(q.Attrs, pick(keys))
			}
		}
	}
	return q
}

// directed queries: one numeric filter on the primary attribute at the places where the scan
// logic has special cases (bounds of the range: auto-match / unreachable; a value that is stored:
// strict vs non-strict; seek position), the attribute requested, sometimes a second filter
func (c *corpus) genDirected() querySpec {
	k := pick([]string{"N", "N", "K", "A", object.FilterPayloadSize, object.FilterCreationEpoch})
	op := 5 + rnd.intn(4)
	var v string
	switch vals := c.valuesOf(k); {
	case rnd.chance(45):
		v = pick([]string{max256, "-" + max256})
	case len(vals) > 0 && rnd.chance(70):
		v = string(pick(vals))
		if strings.ContainsAny(v, "\x00") || len(v) > 80 {
			v = "5"
		}
	default:
		v = pick(intVals)
	}
	q := querySpec{Filters: []filterSpec{{K: k, Op: op, V: v}}, Attrs: []string{k}}
	if rnd.chance(30) {
		q.Filters = append(q.Filters, c.genFilter(pick([]string{"A", "AB", "K", object.FilterOwnerID, object.FilterPhysical})))
		if q.Filters[1].K == k {
			q.Filters = q.Filters[:1]
		}
	}
	if rnd.chance(30) {
		q.Attrs = append(q.Attrs, pick(sysKeys()))
	}
	return q
}

func (q querySpec) sdk() object.SearchFilters {
	var fs object.SearchFilters
	for _, f := range q.Filters {
		switch f.K {
		case object.FilterRoot:
			fs.AddRootFilter()
		case object.FilterPhysical:
			fs.AddPhyFilter()
		default:
			fs.AddFilter(f.K, f.V, object.SearchMatchType(f.Op))
		}
	}
	return fs
}

// ---- running ----
type itemOut struct {
	ID    string   `json:"id"`
	Attrs []string `json:"attrs"`
}

type runOut struct {
	K       string       `json:"k"`
	Corpus  int          `json:"corpus"`
	Filters [][]any      `json:"filters"`
	Attrs   []string     `json:"attrs"`
	Count   int          `json:"count"`
	Pre     string       `json:"pre"` // ok | unreach | err
	Err     bool         `json:"err"` // Search returned an error
	Pages   [][]itemOut  `json:"pages"`
	Cursors []string     `json:"cursors"` // cursor returned with each page ("" = none)
	Recalc  []string     `json:"recalc"`  // CalculateCursor(filter0, last item) for each page with a cursor ("!" = error)
	Loop    bool         `json:"loop"`    // gave up following cursors
	Panic   bool         `json:"panic"`   // Search panicked (reported as an error observable)
}

func safeSearch(db *meta.DB, ofs []objectcore.SearchFilter, attrs []string, cur *objectcore.SearchCursor, count uint16) (res []client.SearchResultItem, nc []byte, err error, panicked bool) {
	defer func() {
		if r := recover(); r != nil {
			err, panicked = fmt.Errorf("panic: %v", r), true
		}
	}()
	res, nc, err = db.Search(cnrMain, ofs, attrs, cur, count)
	return
}

func items(res []client.SearchResultItem) []itemOut {
	out := make([]itemOut, len(res))
	for i := range res {
		out[i].ID = hx(res[i].ID[:])
		out[i].Attrs = []string{}
		for _, a := range res[i].Attributes {
			out[i].Attrs = append(out[i].Attrs, hx([]byte(a)))
		}
	}
	return out
}

func (c *corpus) run(ci int, q querySpec, count int) runOut {
	out := runOut{K: "run", Corpus: ci, Count: count, Filters: [][]any{}, Attrs: []string{}, Pages: [][]itemOut{}, Cursors: []string{}, Recalc: []string{}}
	for _, f := range q.Filters {
		out.Filters = append(out.Filters, []any{hx([]byte(f.K)), f.Op, hx([]byte(f.V))})
	}
	for _, a := range q.Attrs {
		out.Attrs = append(out.Attrs, hx([]byte(a)))
	}
	fs := q.sdk()
	cursor := ""
	for step := 0; ; step++ {
		if step > 3*len(idPool)+3 {
			out.Loop = true
			break
		}
		ofs, cur, err := objectcore.PreprocessSearchQuery(fs, q.Attrs, cursor)
		if err != nil {
			if errors.Is(err, objectcore.ErrUnreachableQuery) {
				out.Pre = "unreach"
			} else {
				out.Pre = "err"
			}
			if step > 0 {
				out.Pre = "cursor-rejected"
			}
			break
		}
		out.Pre = "ok"
		res, nc, err, panicked := safeSearch(c.db, ofs, q.Attrs, cur, uint16(count))
		if panicked {
			out.Panic = true
		}
		if err != nil {
			out.Err = true
			break
		}
		out.Pages = append(out.Pages, items(res))
		out.Cursors = append(out.Cursors, hx(nc))
		if len(nc) == 0 {
			break
		}
		if len(res) > 0 {
			var ff *object.SearchFilter
			if len(fs) > 0 {
				ff = &fs[0]
			}
			if rc, err := objectcore.CalculateCursor(ff, res[len(res)-1]); err != nil {
				out.Recalc = append(out.Recalc, "!")
			} else {
				out.Recalc = append(out.Recalc, hx(rc))
			}
		}
		cursor = base64.StdEncoding.EncodeToString(nc)
	}
	return out
}

// enc/dec tables of the text forms used for system attributes (libraries outside the repo)
func tables(c *corpus, qs []querySpec) (enc [][]any, dec [][]any) {
	seenE, seenD := map[string]bool{}, map[string]bool{}
	addEnc := func(class int, raw []byte) {
		key := string(rune('0'+class)) + string(raw)
		if seenE[key] {
			return
		}
		seenE[key] = true
		switch class {
		case 0:
			enc = append(enc, []any{0, hx(raw), hx([]byte(base58.Encode(raw)))})
		case 1:
			enc = append(enc, []any{1, hx(raw), hx([]byte(hex.EncodeToString(raw)))})
		case 2:
			if len(raw) == 16 {
				u, _ := uuid.FromBytes(raw)
				enc = append(enc, []any{2, hx(raw), hx([]byte(u.String()))})
			}
		}
	}
	addDec := func(text string) {
		if seenD[text] {
			return
		}
		seenD[text] = true
		if b, err := base58.Decode(text); err == nil {
			dec = append(dec, []any{0, hx([]byte(text)), hx(b)})
		}
		if b, err := hex.DecodeString(text); err == nil {
			dec = append(dec, []any{1, hx([]byte(text)), hx(b)})
		}
		if u, err := uuid.Parse(text); err == nil {
			dec = append(dec, []any{2, hx([]byte(text)), hx(u[:])})
		}
	}
	for _, s := range c.objs {
		for _, a := range s.Attrs {
			switch a.K {
			case object.FilterOwnerID, object.FilterFirstSplitObject, object.FilterParentID, object.AttributeAssociatedObject:
				addEnc(0, a.V)
			case object.FilterPayloadChecksum:
				addEnc(1, a.V)
			case object.FilterSplitID:
				addEnc(2, a.V)
			}
		}
	}
	for _, q := range qs {
		for _, f := range q.Filters {
			addDec(f.V)
		}
	}
	return
}

func gen(nCorpora, nQueries int) {
	enc := json.NewEncoder(os.Stdout)
	for ci := 0; ci < nCorpora; ci++ {
		c := genCorpus(3 + rnd.intn(len(idPool)-2))
		var qs []querySpec
		for i := 0; i < nQueries; i++ {
			qs = append(qs, c.genQuery())
		}
		qs = append(qs, c.genDirected(), c.genDirected())
		et, dt := tables(c, qs)
		co := map[string]any{"k": "corpus", "id": ci, "enc": et, "dec": dt}
		var objs []map[string]any
		for _, s := range c.objs {
			var as [][]string
			for _, a := range s.Attrs {
				as = append(as, []string{hx([]byte(a.K)), hx(a.V)})
			}
			objs = append(objs, map[string]any{"id": hx(s.ID[:]), "attrs": as, "avail": s.Avail, "exists": s.Exists})
		}
		co["objs"] = objs
		_ = enc.Encode(co)
		for _, q := range qs {
			for _, cnt := range []int{1, 2, 3, 1000} {
				if cnt == 3 && rnd.chance(50) {
					continue
				}
				_ = enc.Encode(c.run(ci, q, cnt))
			}
		}
		c.close()
	}
}

func consts() {
	pid, pint, pplain, delim, intLen, maxD, minD := objectcore.VerifMetaConsts()
	_ = json.NewEncoder(os.Stdout).Encode(map[string]any{
		"prefix_id": pid, "prefix_int": pint, "prefix_plain": pplain, "delim": hx(delim), "int_len": intLen,
		"max_digits": maxD, "min_digits": minD, "oid_size": oid.Size, "owner_size": user.IDSize,
		"keys": map[string]string{"version": object.FilterVersion, "owner": object.FilterOwnerID, "type": object.FilterType,
			"creation_epoch": object.FilterCreationEpoch, "payload_size": object.FilterPayloadSize, "checksum": object.FilterPayloadChecksum,
			"homo": object.FilterPayloadHomomorphicHash, "split_id": object.FilterSplitID, "first": object.FilterFirstSplitObject,
			"parent": object.FilterParentID, "root": object.FilterRoot, "phy": object.FilterPhysical, "associate": object.AttributeAssociatedObject},
	})
}

var _ = bytes.Compare

// integer detection (C03): which attribute values get an entry in the integer index.
// One object per value; "N >= -(2^256-1)" with attrs [N] returns exactly the indexed ones
// together with the decimal form the shard reports.
func intDetect() {
	vals := append(append([]string{}, intVals...), oddVals...)
	for _, base := range []string{"5", "0", "12", "007", max256, max256[:77] + "6", "1" + max256, "99999999999999999999"} {
		for _, pre := range []string{"", "+", "-", " ", "++", "-+", "+-", "--", "0", "-0", "+0", "\t", "0x", "_"} {
			for _, suf := range []string{"", " ", "a", ".0", "e3", "_", "\n", "+"} {
				vals = append(vals, pre+base+suf)
			}
		}
	}
	vals = append(vals, "\u0665", "\uff15", "1\u00a0", "\u0661\u0662") // non-ASCII digits / spaces
	seen := map[string]bool{}
	dir, err := os.MkdirTemp("", "verif-search-int-")
	must(err)
	defer os.RemoveAll(dir)
	db := openDB(dir, "meta.db", &epochState{0})
	defer db.Close()
	type rec struct {
		id  string
		val string
	}
	var recs []rec
	n := 0
	for _, v := range vals {
		if seen[v] || v == "" || strings.ContainsRune(v, 0) {
			continue
		}
		seen[v] = true
		n++
		var id [32]byte
		id[0], id[30], id[31] = 0x7e, byte(n>>8), byte(n)
		var o object.Object
		o.SetContainerID(cnrMain)
		o.SetID(id)
		o.SetOwner(owners[0])
		o.SetPayloadChecksum(checksum.NewSHA256(sums[0]))
		o.SetAttributes(object.NewAttribute("N", v))
		must(db.Put(&o))
		recs = append(recs, rec{hx(id[:]), v})
	}
	var fs object.SearchFilters
	fs.AddFilter("N", "-"+max256, object.MatchNumGE)
	ofs, cur, err := objectcore.PreprocessSearchQuery(fs, []string{"N"}, "")
	must(err)
	res, _, err := db.Search(cnrMain, ofs, []string{"N"}, cur, 1000)
	must(err)
	got := map[string]string{}
	for _, r := range res {
		got[hx(r.ID[:])] = r.Attributes[0]
	}
	enc := json.NewEncoder(os.Stdout)
	for _, r := range recs {
		t, ok := got[r.id]
		_ = enc.Encode(map[string]any{"k": "int", "val": hx([]byte(r.val)), "indexed": ok, "text": hx([]byte(t))})
	}
}

func main() {
	seed, _ := strconv.ParseUint(os.Getenv("VERIF_SEED"), 10, 64)
	rnd = &rng{s: seed*0x9e3779b97f4a7c15 + 3}
	if len(os.Args) < 2 {
		fmt.Fprintln(os.Stderr, "usage: search consts | gen <corpora> <queries>")
		os.Exit(2)
	}
	switch os.Args[1] {
	case "consts":
		consts()
	case "gen":
		a, _ := strconv.Atoi(os.Args[2])
		b, _ := strconv.Atoi(os.Args[3])
		gen(a, b)
	case "merge", "mergegen":
		mergeMain(os.Args[1:])
	case "enggen":
		a, _ := strconv.Atoi(os.Args[2])
		b, _ := strconv.Atoi(os.Args[3])
		engGen(a, b)
	case "intdetect":
		intDetect()
	default:
		fmt.Fprintln(os.Stderr, "unknown command")
		os.Exit(2)
	}
}
