//go:build verif

package main

// C04: MergeSearchResults on generated per-shard result sets, and
// CalculateCursor against the index key of the last item.

import (
	"bytes"
	"encoding/base64"
	"encoding/hex"
	"encoding/json"
	"fmt"
	"os"
	"slices"
	"strconv"
	"strings"

	"github.com/google/uuid"
	"github.com/mr-tron/base58"
	"github.com/nspcc-dev/neofs-node/internal/signed256"
	objectcore "github.com/nspcc-dev/neofs-node/pkg/core/object"
	"github.com/nspcc-dev/neofs-sdk-go/client"
	"github.com/nspcc-dev/neofs-sdk-go/object"
	oid "github.com/nspcc-dev/neofs-sdk-go/object/id"
	"github.com/nspcc-dev/neofs-sdk-go/user"
)

// a searchable item as one shard would return it for a primary attribute
type mItem struct {
	ID   oid.ID
	Text string // attribute value as returned in SearchResultItem.Attributes[0]
	Raw  []byte // value part of the index key (what the shards sort by)
}

type attrKind struct {
	Name   string // comparator class name for the model
	Attr   string
	CmpInt bool
	Op     object.SearchMatchType
}

var mergeKinds = []attrKind{
	{"none", "", false, object.MatchStringEqual},
	{"str", "A", false, object.MatchCommonPrefix},
	{"int", "N", true, object.MatchNumGE},
	{"owner", object.FilterOwnerID, false, object.MatchStringNotEqual},
	{"parent", object.FilterParentID, false, object.MatchStringNotEqual},
	{"first", object.FilterFirstSplitObject, false, object.MatchStringNotEqual},
	{"associate", object.AttributeAssociatedObject, false, object.MatchStringNotEqual},
	{"checksum", object.FilterPayloadChecksum, false, object.MatchStringNotEqual},
	{"splitid", object.FilterSplitID, false, object.MatchStringNotEqual},
}

func genValue(k attrKind) (string, []byte) {
	switch k.Name {
	case "none":
		return "", nil
	case "str":
		v := pick(strVals)
		return v, []byte(v)
	case "int":
		v := pick(intVals)
		n, _ := signed256.ParseDecimal(v)
		e := n.EncodeBytes()
		return n.String(), e[:] // shards return the normalized decimal
	case "owner":
		u := pick(owners)
		return base58.Encode(u[:]), u[:]
	case "parent", "first", "associate":
		var id oid.ID
		switch rnd.intn(3) {
		case 0:
			id = pick(refPool)
		case 1:
			id = pick(idPool)
		default:
			for i := range id {
				id[i] = byte(rnd.next())
			}
			if rnd.chance(50) {
				id[0] = 0 // leading zero bytes change the base58 length
			}
		}
		return base58.Encode(id[:]), id[:]
	case "checksum":
		s := pick(sums)
		return hex.EncodeToString(s[:]), s[:]
	default: // splitid
		s := pick(splitIDs)
		u, _ := uuid.FromBytes(s)
		return u.String(), s
	}
}

func indexLess(a, b mItem) int {
	if c := bytes.Compare(a.Raw, b.Raw); c != 0 {
		return c
	}
	return bytes.Compare(a.ID[:], b.ID[:])
}

type mergeOut struct {
	K     string    `json:"k"`
	Kind  string    `json:"kind"`
	Attr  string    `json:"attr"`   // firstAttr (hex)
	Int   bool      `json:"cmpint"` // cmpInt
	Lim   int       `json:"lim"`
	Fulls [][]mJSON `json:"fulls"` // class "pages": the shards' whole index-ordered lists (sets = their first lim items)
	Sets  [][]mJSON `json:"sets"`
	Mores []bool    `json:"mores"`
	Err   bool      `json:"err"`
	Res   []mJSON   `json:"res"`
	More  bool      `json:"more"`
	Class string    `json:"class"`
}

type mJSON struct {
	ID   string `json:"id"`
	Text string `json:"text"`
	Raw  string `json:"raw"`
	Dec  bool   `json:"dec"` // the text decodes (oid.ID / user.ID DecodeString) to Raw
}

func decodes(k attrKind, it mItem) bool {
	switch k.Name {
	case "parent", "first", "associate":
		var id oid.ID
		return id.DecodeString(it.Text) == nil && bytes.Equal(id[:], it.Raw)
	case "owner":
		var u user.ID
		return u.DecodeString(it.Text) == nil && bytes.Equal(u[:], it.Raw)
	}
	return false
}

func toJSON(k attrKind, it mItem) mJSON {
	return mJSON{hx(it.ID[:]), hx([]byte(it.Text)), hx(it.Raw), decodes(k, it)}
}

func runMerge(k attrKind, lim int, fulls, sets [][]mItem, mores []bool, class string) mergeOut {
	out := mergeOut{K: "merge", Kind: k.Name, Attr: hx([]byte(k.Attr)), Int: k.CmpInt, Lim: lim, Mores: mores, Class: class,
		Fulls: [][]mJSON{}, Sets: [][]mJSON{}, Res: []mJSON{}}
	in := make([][]client.SearchResultItem, len(sets))
	for i := range fulls {
		out.Fulls = append(out.Fulls, []mJSON{})
		for _, it := range fulls[i] {
			out.Fulls[i] = append(out.Fulls[i], toJSON(k, it))
		}
	}
	for i := range sets {
		out.Sets = append(out.Sets, []mJSON{})
		for _, it := range sets[i] {
			out.Sets[i] = append(out.Sets[i], toJSON(k, it))
			ri := client.SearchResultItem{ID: it.ID}
			if k.Attr != "" {
				ri.Attributes = []string{it.Text}
			}
			in[i] = append(in[i], ri)
		}
	}
	var res []client.SearchResultItem
	var more bool
	var err error
	func() {
		defer func() {
			if r := recover(); r != nil {
				err = fmt.Errorf("panic: %v", r)
			}
		}()
		res, more, err = objectcore.MergeSearchResults(uint16(lim), k.Attr, k.CmpInt, in, slices.Clone(mores))
	}()
	if err != nil {
		out.Err = true
		return out
	}
	out.More = more
	for _, r := range res {
		t := ""
		if len(r.Attributes) > 0 {
			t = r.Attributes[0]
		}
		out.Res = append(out.Res, mJSON{ID: hx(r.ID[:]), Text: hx([]byte(t))})
	}
	return out
}

func mergeGen(n int) {
	enc := json.NewEncoder(os.Stdout)
	for c := 0; c < n; c++ {
		k := pick(mergeKinds)
		// corpus: each ID has one value
		nObj := 2 + rnd.intn(9)
		var all []mItem
		ids := slices.Clone(idPool)
		for i := len(ids) - 1; i > 0; i-- {
			j := rnd.intn(i + 1)
			ids[i], ids[j] = ids[j], ids[i]
		}
		for _, id := range ids[:min(nObj, len(ids))] {
			t, r := genValue(k)
			all = append(all, mItem{id, t, r})
		}
		lim := pick([]int{1, 2, 3, 5, 1000})
		nSets := 1 + rnd.intn(4)
		fulls := make([][]mItem, nSets)
		sets := make([][]mItem, nSets)
		mores := make([]bool, nSets)
		class := "pages"
		for i := range sets {
			p := pick([]int{0, 30, 60, 60, 100})
			for _, it := range all {
				if rnd.chance(p) {
					fulls[i] = append(fulls[i], it)
				}
			}
			slices.SortFunc(fulls[i], indexLess) // every shard returns its objects in index order
			sets[i] = slices.Clone(fulls[i])
			if len(sets[i]) > lim {
				sets[i], mores[i] = sets[i][:lim], true
			}
		}
		// malformed streams: the model must still agree with the code; no reference applies
		if rnd.chance(25) {
			i := rnd.intn(nSets)
			switch rnd.intn(6) {
			case 0: // unsorted set
				slices.Reverse(sets[i])
				class = "unsorted"
			case 1: // wrong flags
				for j := range mores {
					mores[j] = rnd.chance(50)
				}
				class = "badflags"
			case 2: // inner duplicate
				if len(sets[i]) > 0 {
					sets[i] = append(sets[i], sets[i][rnd.intn(len(sets[i]))])
				}
				class = "dupinner"
			case 3: // an attribute that is not of the class (non-int, not Base58, ...)
				if len(sets[i]) > 0 && k.Attr != "" {
					j := rnd.intn(len(sets[i]))
					it := sets[i][j]
					it.Text = pick([]string{"", "x", "12a", "-", "+5", "007", "0OIl", it.Text + "1"})
					it.Raw = nil
					sets[i][j] = it
				}
				class = "badattr"
			case 4: // copies of one object with different values
				if len(sets[i]) > 0 && k.Attr != "" {
					j := rnd.intn(len(sets[i]))
					it := sets[i][j]
					it.Text, it.Raw = genValue(k)
					sets[i][j] = it
				}
				class = "attrdiff"
			default: // shuffled
				for a := len(sets[i]) - 1; a > 0; a-- {
					b := rnd.intn(a + 1)
					sets[i][a], sets[i][b] = sets[i][b], sets[i][a]
				}
				class = "unsorted"
			}
			fulls = nil
		}
		_ = enc.Encode(runMerge(k, lim, fulls, sets, mores, class))
	}
}

// CalculateCursor vs the index key, for every primary attribute class
type cursorOut struct {
	K      string `json:"k"`
	Kind   string `json:"kind"`
	Attr   string `json:"attr"`
	Op     int    `json:"op"`
	ID     string `json:"id"`
	Text   string `json:"text"`
	Raw    string `json:"raw"`
	Err    bool   `json:"err"`
	Cursor string `json:"cursor"`
	Key    string `json:"key"`      // the index key of the item without its first byte (what a shard returns)
	Accept bool   `json:"accepted"` // PreprocessSearchQuery accepts the recomputed cursor
}

func cursorGen(n int) {
	enc := json.NewEncoder(os.Stdout)
	for c := 0; c < n; c++ {
		k := pick(mergeKinds[1:])
		t, r := genValue(k)
		id := pick(idPool)
		var fs object.SearchFilters
		fv := t
		if k.CmpInt {
			fv = "-" + max256 // >= min: every integer matches
		} else if k.Op == object.MatchStringNotEqual {
			fv = "x"
		} else {
			fv = t[:1]
		}
		fs.AddFilter(k.Attr, fv, k.Op)
		out := cursorOut{K: "cursor", Kind: k.Name, Attr: hx([]byte(k.Attr)), Op: int(k.Op), ID: hx(id[:]), Text: hx([]byte(t)), Raw: hx(r)}
		var key []byte
		if k.CmpInt {
			key = slices.Concat([]byte(k.Attr), []byte{0}, r, id[:])
		} else {
			key = slices.Concat([]byte(k.Attr), []byte{0}, r, []byte{0}, id[:])
		}
		out.Key = hx(key)
		cur, err := objectcore.CalculateCursor(&fs[0], client.SearchResultItem{ID: id, Attributes: []string{t}})
		if err != nil {
			out.Err = true
		} else {
			out.Cursor = hx(cur)
			_, _, perr := objectcore.PreprocessSearchQuery(fs, []string{k.Attr}, base64Std(cur))
			out.Accept = perr == nil
		}
		_ = enc.Encode(out)
	}
}

func mergeMain(args []string) {
	n, _ := strconv.Atoi(args[1])
	switch args[0] {
	case "mergegen":
		mergeGen(n)
	case "merge": // cursors
		cursorGen(n)
	}
}

var _ = strings.Compare

func base64Std(b []byte) string { return base64.StdEncoding.EncodeToString(b) }
