//go:build verif

package main

// C04: MergeSearchResults on generated per-shard result sets, and
// CalculateCursor against the index key of the last item.

import (
	"bytes"
	"encoding/base64"
	"encoding/hex"
	"encoding/json"
	"os"
	"slices"
	"strconv"
	"strings"

	"github.com/google/uuid"
	"github.com/mr-tron/base58"
	"github.com/nspcc-dev/neofs-node/internal/signed256"
	objectcore "github.com/nspcc-dev/neofs-node/pkg/core/object"
	"github.com/nspcc-dev/neofs-sdk-go/client"
	"github.com/nspcc-dev/neofs-sdk-go/object"
	oid "github.com/nspcc-dev/neofs-sdk-go/object/id"
)

// a searchable item as one shard would return it for a primary attribute
type mItem struct {
	ID   oid.ID
	Text string // attribute value as returned in SearchResultItem.Attributes[0]
	Raw  []byte // value part of the index key (what the shards sort by)
}

type attrKind struct {
	Name   string // comparator class name for the model
	Attr   string
	CmpInt bool
	Op     object.SearchMatchType
}

var mergeKinds = []attrKind{
	{"none", "", false, object.MatchStringEqual},
	{"str", "A", false, object.MatchCommonPrefix},
	{"int", "N", true, object.MatchNumGE},
	{"owner", object.FilterOwnerID, false, object.MatchStringNotEqual},
	{"parent", object.FilterParentID, false, object.MatchStringNotEqual},
	{"first", object.FilterFirstSplitObject, false, object.MatchStringNotEqual},
	{"associate", object.AttributeAssociatedObject, false, object.MatchStringNotEqual},
	{"checksum", object.FilterPayloadChecksum, false, object.MatchStringNotEqual},
	{"splitid", object.FilterSplitID, false, object.MatchStringNotEqual},
}

func genValue(k attrKind) (string, []byte) {
	switch k.Name {
	case "none":
		return "", nil
	case "str":
		v := pick(strVals)
		return v, []byte(v)
	case "int":
		v := pick(intVals)
		n, _ := signed256.ParseDecimal(v)
		e := n.EncodeBytes()
		return n.String(), e[:] // shards return the normalized decimal
	case "owner":
		u := pick(owners)
		return base58.Encode(u[:]), u[:]
	case "parent", "first", "associate":
		var id oid.ID
		switch rnd.intn(3) {
		case 0:
			id = pick(refPool)
		case 1:
			id = pick(idPool)
		default:
			for i := range id {
				id[i] = byte(rnd.next())
			}
			if rnd.chance(50) {
				id[0] = 0 // leading zero bytes change the base58 length
			}
		}
		return base58.Encode(id[:]), id[:]
	case "checksum":
		s := pick(sums)
		return hex.EncodeToString(s[:]), s[:]
	default: // splitid
		s := pick(splitIDs)
		u, _ := uuid.FromBytes(s)
		return u.String(), s
	}
}

func indexLess(a, b mItem) int {
	if c := bytes.Compare(a.Raw, b.Raw); c != 0 {
		return c
	}
	return bytes.Compare(a.ID[:], b.ID[:])
}

type mergeOut struct {
	K     string     `json:"k"`
	Kind  string     `json:"kind"`
	Lim   int        `json:"lim"`
	Sets  [][]mJSON  `json:"sets"`
	Mores []bool     `json:"mores"`
	Err   bool       `json:"err"`
	Res   []mJSON    `json:"res"`
	More  bool       `json:"more"`
	Class string     `json:"class"`
}

type mJSON struct {
	ID   string `json:"id"`
	Text string `json:"text"`
	Raw  string `json:"raw"`
}

func toJSON(it mItem) mJSON { return mJSON{hx(it.ID[:]), hx([]byte(it.Text)), hx(it.Raw)} }

func runMerge(k attrKind, lim int, sets [][]mItem, mores []bool, class string) mergeOut {
	out := mergeOut{K: "merge", Kind: k.Name, Lim: lim, Mores: mores, Class: class, Sets: [][]mJSON{}, Res: []mJSON{}}
	in := make([][]client.SearchResultItem, len(sets))
	byKey := map[string]mItem{}
	for i := range sets {
		out.Sets = append(out.Sets, []mJSON{})
		for _, it := range sets[i] {
			out.Sets[i] = append(out.Sets[i], toJSON(it))
			ri := client.SearchResultItem{ID: it.ID}
			if k.Attr != "" {
				ri.Attributes = []string{it.Text}
			}
			in[i] = append(in[i], ri)
			byKey[string(it.ID[:])+"|"+it.Text] = it
		}
	}
	res, more, err := objectcore.MergeSearchResults(uint16(lim), k.Attr, k.CmpInt, in, slices.Clone(mores))
	if err != nil {
		out.Err = true
		return out
	}
	out.More = more
	for _, r := range res {
		t := ""
		if len(r.Attributes) > 0 {
			t = r.Attributes[0]
		}
		out.Res = append(out.Res, toJSON(byKey[string(r.ID[:])+"|"+t]))
	}
	return out
}

func mergeGen(n int) {
	enc := json.NewEncoder(os.Stdout)
	for c := 0; c < n; c++ {
		k := pick(mergeKinds)
		// corpus: each ID has one value
		nObj := 2 + rnd.intn(9)
		var all []mItem
		ids := slices.Clone(idPool)
		for i := len(ids) - 1; i > 0; i-- {
			j := rnd.intn(i + 1)
			ids[i], ids[j] = ids[j], ids[i]
		}
		for _, id := range ids[:min(nObj, len(ids))] {
			t, r := genValue(k)
			all = append(all, mItem{id, t, r})
		}
		lim := pick([]int{1, 2, 3, 1000})
		nSets := 1 + rnd.intn(4)
		sets := make([][]mItem, nSets)
		mores := make([]bool, nSets)
		class := "sorted"
		for i := range sets {
			for _, it := range all {
				if rnd.chance(60) {
					sets[i] = append(sets[i], it)
				}
			}
			slices.SortFunc(sets[i], indexLess) // every shard returns its objects in index order
			if len(sets[i]) > lim {
				sets[i], mores[i] = sets[i][:lim], true
			}
		}
		if rnd.chance(8) { // malformed stream: unsorted set
			i := rnd.intn(nSets)
			slices.Reverse(sets[i])
			class = "unsorted"
		}
		_ = enc.Encode(runMerge(k, lim, sets, mores, class))
	}
}

// CalculateCursor vs the index key, for every primary attribute class
type cursorOut struct {
	K      string `json:"k"`
	Kind   string `json:"kind"`
	Attr   string `json:"attr"`
	Op     int    `json:"op"`
	ID     string `json:"id"`
	Text   string `json:"text"`
	Raw    string `json:"raw"`
	Err    bool   `json:"err"`
	Cursor string `json:"cursor"`
	Key    string `json:"key"`      // the index key of the item without its first byte (what a shard returns)
	Accept bool   `json:"accepted"` // PreprocessSearchQuery accepts the recomputed cursor
}

func cursorGen(n int) {
	enc := json.NewEncoder(os.Stdout)
	for c := 0; c < n; c++ {
		k := pick(mergeKinds[1:])
		t, r := genValue(k)
		id := pick(idPool)
		var fs object.SearchFilters
		fv := t
		if k.CmpInt {
			fv = "-" + max256 // >= min: every integer matches
		} else if k.Op == object.MatchStringNotEqual {
			fv = "x"
		} else {
			fv = t[:1]
		}
		fs.AddFilter(k.Attr, fv, k.Op)
		out := cursorOut{K: "cursor", Kind: k.Name, Attr: hx([]byte(k.Attr)), Op: int(k.Op), ID: hx(id[:]), Text: hx([]byte(t)), Raw: hx(r)}
		var key []byte
		if k.CmpInt {
			key = slices.Concat([]byte(k.Attr), []byte{0}, r, id[:])
		} else {
			key = slices.Concat([]byte(k.Attr), []byte{0}, r, []byte{0}, id[:])
		}
		out.Key = hx(key)
		cur, err := objectcore.CalculateCursor(&fs[0], client.SearchResultItem{ID: id, Attributes: []string{t}})
		if err != nil {
			out.Err = true
		} else {
			out.Cursor = hx(cur)
			_, _, perr := objectcore.PreprocessSearchQuery(fs, []string{k.Attr}, base64Std(cur))
			out.Accept = perr == nil
		}
		_ = enc.Encode(out)
	}
}

func mergeMain(args []string) {
	n, _ := strconv.Atoi(args[1])
	switch args[0] {
	case "mergegen":
		mergeGen(n)
	case "merge": // cursors
		cursorGen(n)
	}
}

var _ = strings.Compare

func base64Std(b []byte) string { return base64.StdEncoding.EncodeToString(b) }
