//go:build verif

package main

// C04 part (MergeSearchResults / CalculateCursor); filled in below.
func mergeMain(args []string) {}
