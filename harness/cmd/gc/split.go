//go:build verif

// Scenario class "expired split objects" of the GC harness (C44).
//
// A real engine.StorageEngine with one or two real shards holds split chains of a big
// object: V2 chains (first part without split fields, later parts carrying split.first +
// previous, the last part carrying the parent header; optional LINK object) and V1 chains
// (every part carries the split ID; optional zero-payload link with the children list).
// Only the parent header carries the expiration attribute. Arbitrary subsets of the parts
// are stored (the part carrying the parent header, or the link, always), every part on a
// shard chosen by the PRNG. Then the drain: rounds of (epoch advance + new-epoch event on
// every shard; GC passes on every shard until two consecutive rounds of passes change
// nothing) -- the shards' expired-objects callback is the engine's own
// processExpiredObjects. Observable per chain: sorted indices of the parts that are still
// stored (BLOB storage or metabase of any shard); index n = the link object.
package main

import (
	"bufio"
	"encoding/json"
	"errors"
	"os"
	"path/filepath"
	"time"

	"github.com/nspcc-dev/bbolt"
	"github.com/nspcc-dev/neofs-node/pkg/local_object_storage/blobstor/common"
	"github.com/nspcc-dev/neofs-node/pkg/local_object_storage/blobstor/fstree"
	"github.com/nspcc-dev/neofs-node/pkg/local_object_storage/engine"
	meta "github.com/nspcc-dev/neofs-node/pkg/local_object_storage/metabase"
	"github.com/nspcc-dev/neofs-node/pkg/local_object_storage/shard"
	"github.com/nspcc-dev/neofs-sdk-go/object"
	oid "github.com/nspcc-dev/neofs-sdk-go/object/id"
	"go.uber.org/zap"
)

// Chain describes one split chain. Part indices 0..N-1; index N is the link object.
type Chain struct {
	C      int   `json:"c"`      // container
	Ver    int   `json:"ver"`    // 1: split ID, 2: first ID
	N      int   `json:"n"`      // number of parts (2..4)
	Exp    int64 `json:"exp"`    // expiration epoch of the parent (-1: none)
	Stored []int `json:"stored"` // ascending indices of the objects that are put (N = link)
	Shard  []int `json:"shard"`  // shard index for every entry of Stored
}

type SplitCase struct {
	I      int     `json:"i"`
	Shards int     `json:"shards"`
	Lim    int     `json:"lim"`
	Epoch0 uint64  `json:"epoch0"`
	Rounds int     `json:"rounds"`
	Chains []Chain `json:"chains"`
	// results
	PutRes  [][]int64 `json:"put_res,omitempty"`
	Before  [][]int   `json:"before,omitempty"`   // stored indices observed before the drain (blob and metabase agree)
	Blob    [][]int   `json:"blob,omitempty"`     // indices with data left after the drain
	Meta    [][]int   `json:"meta,omitempty"`     // indices with a physical metabase entry left after the drain
	After   [][]int   `json:"after,omitempty"`    // union of Blob and Meta: the survivors
	Parent  []int     `json:"parent,omitempty"`   // 1: a (non-physical) parent entry is left in some metabase
	EpochN  uint64    `json:"epoch_n,omitempty"`  // epoch at the end
	Passes  int       `json:"passes,omitempty"`   // rounds of passes run
	Settled bool      `json:"settled,omitempty"`  // the drain reached quiescence
}

func chainBase(k int) int { return 20 * (k + 1) }

// chainID maps (chain number, index) to the object ID number: parent -1, parts 0..n-1, link n.
func chainID(k, n, idx int) int {
	switch {
	case idx < 0:
		return chainBase(k)
	case idx == n:
		return chainBase(k) + 10
	}
	return chainBase(k) + 1 + idx
}

func splitIDOf(k int) *object.SplitID {
	b := make([]byte, 16)
	b[0] = 0x40 // any UUID bytes
	b[15] = byte(k + 1)
	return object.NewSplitIDFromV2(b)
}

func buildChainObj(k int, ch *Chain, idx int) *object.Object {
	mk := func(id int, sz uint64) *object.Object {
		o := object.New(mkCID(ch.C), owner)
		o.SetID(mkOID(id))
		o.SetPayloadChecksum(zeroSum)
		o.SetPayloadSize(sz)
		o.SetType(object.TypeRegular)
		return o
	}
	parent := mk(chainID(k, ch.N, -1), uint64(5*ch.N))
	if ch.Exp >= 0 {
		parent.SetAttributes(object.NewAttribute(object.AttributeExpirationEpoch, itoa(ch.Exp)))
	}
	first := mkOID(chainID(k, ch.N, 0))
	o := mk(chainID(k, ch.N, idx), 5)
	if ch.Ver == 1 {
		o.SetSplitID(splitIDOf(k))
	} else if idx > 0 {
		o.SetFirstID(first)
	}
	if idx > 0 && idx < ch.N {
		o.SetPreviousID(mkOID(chainID(k, ch.N, idx-1)))
	}
	if idx >= ch.N-1 {
		o.SetParent(parent)
		o.SetParentID(parent.GetID())
	}
	if idx == ch.N {
		if ch.Ver == 1 {
			ids := make([]oid.ID, ch.N)
			for i := range ids {
				ids[i] = mkOID(chainID(k, ch.N, i))
			}
			o.SetChildren(ids...)
			o.SetPayloadSize(0)
		} else {
			ms := make([]object.MeasuredObject, ch.N)
			for i := range ms {
				ms[i].SetObjectID(mkOID(chainID(k, ch.N, i)))
				ms[i].SetObjectSize(5)
			}
			var l object.Link
			l.SetObjects(ms)
			o.WriteLink(l)
			o.SetPayloadSize(uint64(len(o.Payload())))
		}
	}
	return o
}

func itoa(x int64) string {
	b, _ := json.Marshal(x)
	return string(b)
}

type shardID struct {
	common.Storage
	n byte
}

func (b *shardID) Init(common.ID) error {
	id, err := common.NewIDFromBytes([]byte{b.n, 2, 3, 4, 5, 6, 7, 8, 9, 10, 11, 12, 13, 14, 15, 16})
	if err != nil {
		return err
	}
	return b.Storage.Init(id)
}

type splitEnv struct {
	dir string
	e   *engine.StorageEngine
	shs []*shard.Shard
	fst []*fstree.FSTree
	es  *epochState
}

func newSplitEnv(nsh, lim int, epoch uint64) *splitEnv {
	dir, err := os.MkdirTemp(tmpBase(), "verif-gcsplit-")
	must(err)
	v := &splitEnv{dir: dir, es: &epochState{}}
	v.es.e.Store(epoch)
	lg := zap.NewNop()
	if os.Getenv("VERIF_DEBUG") != "" {
		lg, _ = zap.NewDevelopment()
	}
	v.e = engine.New(engine.WithLogger(lg))
	var fsts []*fstree.FSTree
	for i := 0; i < nsh; i++ {
		fst := fstree.New(fstree.WithPath(filepath.Join(dir, "fstree"+itoa(int64(i)))), fstree.WithNoSync(true), fstree.WithDepth(1))
		_, err := v.e.AddShard(
			shard.WithLogger(zap.NewNop()),
			shard.WithBlobstor(&shardID{Storage: fst, n: byte(i + 1)}),
			shard.WithMetaBaseOptions(
				meta.WithPath(filepath.Join(dir, "meta"+itoa(int64(i)))),
				meta.WithPermissions(0o700),
				meta.WithEpochState(v.es),
				meta.WithLogger(zap.NewNop()),
				meta.WithMaxBatchDelay(time.Microsecond),
				meta.WithBoltDBOptions(&bbolt.Options{NoSync: true, NoFreelistSync: true, Timeout: time.Second}),
			),
			shard.WithWriteCache(false),
			shard.WithRemoverBatchSize(lim),
			shard.WithGCRemoverSleepInterval(time.Hour), // GC passes are driven through the hook
			shard.WithContainerPayments(noPayments{}),
		)
		must(err)
		fsts = append(fsts, fst)
	}
	must(v.e.Init())
	// the engine keeps its shards in a map: order them by the ID given above
	shs := v.e.VerifGCShards()
	if len(shs) != nsh {
		must(errors.New("unexpected number of shards"))
	}
	v.shs = make([]*shard.Shard, nsh)
	v.fst = make([]*fstree.FSTree, nsh)
	for _, sh := range shs {
		i := int(sh.ID().Bytes()[0]) - 1
		if i < 0 || i >= nsh || v.shs[i] != nil {
			must(errors.New("unexpected shard ID"))
		}
		v.shs[i] = sh
		v.fst[i] = fsts[i]
	}
	return v
}

func (v *splitEnv) close() {
	_ = v.e.Close()
	_ = os.RemoveAll(v.dir)
}

// presence returns per chain the indices with data / with a physical metabase entry, and whether a
// non-physical parent entry exists, over all shards.
func (v *splitEnv) presence(chs []Chain) (blob, mt [][]int, par []int, key string) {
	type dump struct {
		D []DCnr
	}
	var dumps []dump
	phy := map[[2]int]bool{}
	anyE := map[[2]int]bool{}
	for _, sh := range v.shs {
		db := shard.VerifGCMetabase(sh)
		var d dump
		for c := 1; c <= nCnr; c++ {
			dc := dumpCnr(db, c)
			d.D = append(d.D, dc)
			for _, o := range dc.Objs {
				anyE[[2]int{c, o.ID}] = true
				if o.Phy {
					phy[[2]int{c, o.ID}] = true
				}
			}
		}
		dumps = append(dumps, d)
	}
	for k := range chs {
		ch := &chs[k]
		bl, m := []int{}, []int{}
		for idx := 0; idx <= ch.N; idx++ {
			addr := oid.NewAddress(mkCID(ch.C), mkOID(chainID(k, ch.N, idx)))
			has := false
			for _, f := range v.fst {
				ok, err := f.Exists(addr)
				must(err)
				has = has || ok
			}
			if has {
				bl = append(bl, idx)
			}
			if phy[[2]int{ch.C, chainID(k, ch.N, idx)}] {
				m = append(m, idx)
			}
		}
		blob = append(blob, bl)
		mt = append(mt, m)
		if anyE[[2]int{ch.C, chainID(k, ch.N, -1)}] {
			par = append(par, 1)
		} else {
			par = append(par, 0)
		}
	}
	b, _ := json.Marshal(struct {
		A any
		B any
	}{dumps, blob})
	return blob, mt, par, string(b)
}

func union(a, b []int) []int {
	res := []int{}
	i, j := 0, 0
	for i < len(a) || j < len(b) {
		switch {
		case j >= len(b) || (i < len(a) && a[i] < b[j]):
			res = append(res, a[i])
			i++
		case i >= len(a) || b[j] < a[i]:
			res = append(res, b[j])
			j++
		default:
			res = append(res, a[i])
			i++
			j++
		}
	}
	return res
}

func runSplit(sc SplitCase) SplitCase {
	v := newSplitEnv(sc.Shards, sc.Lim, sc.Epoch0)
	defer v.close()
	for k := range sc.Chains {
		ch := &sc.Chains[k]
		var rs []int64
		for j, idx := range ch.Stored {
			rs = append(rs, errClass(v.shs[ch.Shard[j]%sc.Shards].Put(buildChainObj(k, ch, idx), nil)))
		}
		sc.PutRes = append(sc.PutRes, rs)
	}
	bl, mt, _, _ := v.presence(sc.Chains)
	for k := range sc.Chains {
		if len(bl[k]) == len(mt[k]) {
			sc.Before = append(sc.Before, union(bl[k], mt[k]))
		} else {
			sc.Before = append(sc.Before, []int{-1})
		}
	}
	sc.Settled = true
	for r := 0; r < sc.Rounds; r++ {
		e := v.es.CurrentEpoch() + 1
		v.es.e.Store(e)
		for _, sh := range v.shs {
			shard.VerifGCEvent(sh, e)
		}
		_, _, _, last := v.presence(sc.Chains)
		same, n := 0, 0
		for ; n < 80 && same < 2; n++ {
			for _, sh := range v.shs {
				shard.VerifGCPass(sh)
			}
			sc.Passes++
			_, _, _, k := v.presence(sc.Chains)
			if k == last {
				same++
			} else {
				same = 0
			}
			last = k
		}
		if same < 2 {
			sc.Settled = false
		}
	}
	sc.Blob, sc.Meta, sc.Parent, _ = v.presence(sc.Chains)
	for k := range sc.Chains {
		sc.After = append(sc.After, union(sc.Blob[k], sc.Meta[k]))
	}
	sc.EpochN = v.es.CurrentEpoch()
	return sc
}

// genSplit: case i of the stream. Small dense universe: 1-3 chains, mostly in one container (so that
// split.first / split ID lookups of different chains meet in one bucket), 2-4 parts, expirations
// around the epochs reached by the drain.
func genSplit(seed uint64, i int) SplitCase {
	r := &rng{s: seed ^ 0x5b117c44 ^ uint64(i+1)*0x9e3779b97f4a7c15}
	r.next()
	sc := SplitCase{I: i, Shards: 1 + r.n(2), Lim: []int{1, 2, 3, 5, 100}[r.n(5)], Epoch0: uint64(3 + r.n(8)), Rounds: 2}
	nch := 1 + r.n(3)
	for k := 0; k < nch; k++ {
		ch := Chain{C: 1, Ver: 2, N: 2 + r.n(3)}
		if r.p(20) {
			ch.C = 2
		}
		if r.p(25) {
			ch.Ver = 1
		}
		e0 := int64(sc.Epoch0)
		// expired after the first / second advance; exactly at the final epoch (not expired); far; none
		ch.Exp = []int64{e0, e0, e0 + 1, e0 - 1, e0 + 2, e0 + 50, -1}[r.n(7)]
		link := r.p(35)
		keepAll := r.p(60)
		for idx := 0; idx <= ch.N; idx++ {
			keep := keepAll || r.p(65)
			switch {
			case idx == ch.N:
				keep = link
			case idx == ch.N-1:
				keep = keep || !link // somebody has to carry the parent header
			}
			if keep {
				ch.Stored = append(ch.Stored, idx)
				ch.Shard = append(ch.Shard, r.n(sc.Shards))
			}
		}
		sc.Chains = append(sc.Chains, ch)
	}
	return sc
}

func runSplitAll(cs []SplitCase) {
	out := make([]SplitCase, len(cs))
	sem := make(chan struct{}, 12)
	done := make(chan struct{}, len(cs))
	for i := range cs {
		sem <- struct{}{}
		go func(i int) {
			out[i] = runSplit(cs[i])
			<-sem
			done <- struct{}{}
		}(i)
	}
	for range cs {
		<-done
	}
	w := bufio.NewWriterSize(os.Stdout, 1<<20)
	enc := json.NewEncoder(w)
	for i := range out {
		must(enc.Encode(out[i]))
	}
	must(w.Flush())
}

// fixedSplit: the boundary scenarios that are always run: V2 / V1 chain of 3 parts, no link, all parts
// stored, parent expired after the first advance; the same with the link; a control that never expires.
func fixedSplit() []SplitCase {
	var res []SplitCase
	for _, sh := range []int{1, 2} {
		for _, ver := range []int{2, 1} {
			for _, link := range []bool{false, true} {
				for _, exp := range []int64{5, 7} {
					ch := Chain{C: 1, Ver: ver, N: 3, Exp: exp}
					for idx := 0; idx < 3; idx++ {
						ch.Stored = append(ch.Stored, idx)
						ch.Shard = append(ch.Shard, idx%sh)
					}
					if link {
						ch.Stored = append(ch.Stored, 3)
						ch.Shard = append(ch.Shard, sh-1)
					}
					res = append(res, SplitCase{Shards: sh, Lim: 2, Epoch0: 5, Rounds: 2, Chains: []Chain{ch}})
				}
			}
		}
	}
	return res
}
