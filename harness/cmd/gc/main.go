//go:build verif

// Differential harness of the shard-level GC family (C07, C44).
//
// It runs a real engine.StorageEngine with exactly ONE real shard (fstree + bbolt
// metabase in a temp dir, no write-cache), so that the shard's expired-objects
// callback is the engine's own processExpiredObjects, and drives the shard
// directly: Shard.Put (regular / tombstone / lock objects with expirations around
// the current epoch), Shard.MarkGarbage (forced marks, default / redundant),
// Shard.InhumeContainer, changes of the epoch source of the metabase, new-epoch
// events of the GC and synchronous GC passes (hooks VerifGCEvent / VerifGCPass =
// setEpochEventHandler / removeGarbage). After every operation it prints
//   - the result class of the operation,
//   - the raw content of every universe container bucket (hook VerifDumpContainer),
//   - the GC's current / processed epochs,
//   - for every universe address: Shard.Get class, Shard.IsLocked, presence in the
//     BLOB storage.
//
// Built inside /repo's module through `go build -overlay` (see /verif/lib/vlib.py).
package main

import (
	"bufio"
	"encoding/json"
	"errors"
	"fmt"
	"os"
	"path/filepath"
	"strconv"
	"sync"
	"sync/atomic"
	"time"

	"github.com/nspcc-dev/bbolt"
	"github.com/nspcc-dev/neo-go/pkg/util"
	iec "github.com/nspcc-dev/neofs-node/internal/ec"
	"github.com/nspcc-dev/neofs-node/pkg/local_object_storage/blobstor/common"
	"github.com/nspcc-dev/neofs-node/pkg/local_object_storage/blobstor/fstree"
	"github.com/nspcc-dev/neofs-node/pkg/local_object_storage/engine"
	meta "github.com/nspcc-dev/neofs-node/pkg/local_object_storage/metabase"
	"github.com/nspcc-dev/neofs-node/pkg/local_object_storage/shard"
	"github.com/nspcc-dev/neofs-sdk-go/checksum"
	apistatus "github.com/nspcc-dev/neofs-sdk-go/client/status"
	cid "github.com/nspcc-dev/neofs-sdk-go/container/id"
	"github.com/nspcc-dev/neofs-sdk-go/object"
	oid "github.com/nspcc-dev/neofs-sdk-go/object/id"
	"github.com/nspcc-dev/neofs-sdk-go/user"
	"go.uber.org/zap"
)

// ---------------------------------------------------------------- universe

const (
	nCnr = 2
	nOID = 8
)

func mkOID(n int) oid.ID {
	var id oid.ID
	id[31] = byte(n)
	id[30] = byte(n >> 8)
	return id
}

func unOID(id oid.ID) int {
	for i := 0; i < 30; i++ {
		if id[i] != 0 {
			return -1
		}
	}
	return int(id[30])<<8 | int(id[31])
}

func mkCID(n int) cid.ID {
	var id cid.ID
	id[31] = byte(n)
	return id
}

// a well-formed owner ID (objects are decoded again by Shard.Get)
var owner = user.NewFromScriptHash(util.Uint160{1, 2, 3, 4, 5, 6, 7, 8, 9, 10, 11, 12, 13, 14, 15, 16, 17, 18, 19, 20})

type epochState struct{ e atomic.Uint64 }

func (s *epochState) CurrentEpoch() uint64 { return s.e.Load() }

type noPayments struct{}

func (noPayments) PaymentsDisabled() bool              { return true }
func (noPayments) UnpaidSince(cid.ID) (int64, error) { return -1, nil }

// ---------------------------------------------------------------- ops

// Obj is an abstract object header. T: 0 regular, 1 tombstone, 2 lock.
type Obj struct {
	C     int    `json:"c"`
	ID    int    `json:"id"`
	T     int    `json:"t"`
	Size  uint64 `json:"sz"`
	Exp   int64  `json:"exp"` // -1: none
	Assoc int    `json:"as"`  // 0: none
	Par   *Obj   `json:"par,omitempty"` // only used by the probe scenarios (not modelled)
}

type Op struct {
	K   string `json:"k"` // put mark inhc epoch event tick pass
	C   int    `json:"c,omitempty"`
	O   *Obj   `json:"o,omitempty"`
	IDs []int  `json:"ids,omitempty"`
	M   int    `json:"m,omitempty"`
	E   uint64 `json:"e,omitempty"`
}

var types = []object.Type{object.TypeRegular, object.TypeTombstone, object.TypeLock, object.TypeLink}

func typeIdx(t object.Type) int {
	for i, x := range types {
		if x == t {
			return i
		}
	}
	return 9
}

var zeroSum = checksum.NewSHA256([32]byte{})

func build(o *Obj) *object.Object {
	res := object.New(mkCID(o.C), owner)
	res.SetID(mkOID(o.ID))
	res.SetPayloadChecksum(zeroSum)
	res.SetPayloadSize(o.Size)
	res.SetType(types[o.T])
	var attrs []object.Attribute
	if o.Exp >= 0 {
		attrs = append(attrs, object.NewAttribute(object.AttributeExpirationEpoch, strconv.FormatInt(o.Exp, 10)))
	}
	if o.Assoc > 0 {
		attrs = append(attrs, object.NewAttribute(object.AttributeAssociatedObject, mkOID(o.Assoc).EncodeToString()))
	}
	res.SetAttributes(attrs...)
	if o.Par != nil {
		res.SetParent(build(o.Par))
	}
	return res
}

// ---------------------------------------------------------------- classes

const (
	eOK = iota
	eAlreadyRemoved
	eExpired
	eLocked
	eLockNonRegular
	eLockRemoval
	eOther
)

func errClass(err error) int64 {
	var lnr apistatus.LockNonRegularObject
	switch {
	case err == nil:
		return eOK
	case errors.Is(err, apistatus.ErrObjectAlreadyRemoved):
		return eAlreadyRemoved
	case errors.Is(err, meta.ErrObjectIsExpired):
		return eExpired
	case errors.Is(err, apistatus.ErrObjectLocked):
		return eLocked
	case errors.As(err, &lnr), errors.As(err, new(*apistatus.LockNonRegularObject)):
		return eLockNonRegular
	case errors.Is(err, meta.ErrLockObjectRemoval):
		return eLockRemoval
	default:
		return eOther
	}
}

// Get classes (same numbering as the metabase harness, plus 8)
const (
	vOK       = 1
	vNotFound = 2
	vRemoved  = 3
	vExpired  = 4
	vSplit    = 5
	vECParent = 6
	vOther    = 7
	vNoData   = 8 // metadata without data
)

func getClass(err error) int {
	var parts iec.ErrParts
	var si *object.SplitInfoError
	switch {
	case err == nil:
		return vOK
	case errors.Is(err, shard.ErrMetaWithNoObject):
		return vNoData
	case errors.Is(err, apistatus.ErrObjectAlreadyRemoved):
		return vRemoved
	case errors.Is(err, meta.ErrObjectIsExpired):
		return vExpired
	case errors.As(err, &parts):
		return vECParent
	case errors.As(err, &si):
		return vSplit
	case errors.Is(err, apistatus.ErrObjectNotFound):
		return vNotFound
	default:
		return vOther
	}
}

// ---------------------------------------------------------------- observation

type DObj struct {
	ID    int    `json:"id"`
	T     int    `json:"t"`
	Size  uint64 `json:"sz"`
	Exp   int64  `json:"exp"`
	Assoc int    `json:"as"`
	ParID int    `json:"pid"`
	First int    `json:"fi"`
	Split int    `json:"sp"`
	ECR   int    `json:"er"`
	ECI   int    `json:"ei"`
	Phy   bool   `json:"phy"`
	Root  bool   `json:"root"`
}

type DCnr struct {
	C       int       `json:"c"`
	Present bool      `json:"present"`
	CGC     bool      `json:"cgc"`
	Objs    []DObj    `json:"objs"`
	Garb    [][2]int  `json:"garb"` // id, mark (0 default, 1 redundant, other: 2)
	Cnt     [7]uint64 `json:"cnt"`
	Bad     int       `json:"bad"` // inconsistencies found by the dump (0 expected)
}

type Obs struct {
	Epoch  uint64  `json:"epoch"`
	GCur   uint64  `json:"gcur"`
	GDone  uint64  `json:"gdone"`
	Cnrs   []DCnr  `json:"cnrs"`
	Get    [][]int `json:"get"`    // per container, per oid 1..nOID
	Locked [][]int `json:"locked"` // Shard.IsLocked
	Blob   [][]int `json:"blob"`   // presence in the BLOB storage
}

type Step struct {
	Res []int64 `json:"res"`
	Obs *Obs    `json:"obs,omitempty"`
}

type History struct {
	I     int    `json:"i"`
	Lim   int    `json:"lim"`
	Drain int    `json:"drain"` // index of the first operation of the drain phase (len(ops) if none)
	Ops   []Op   `json:"ops"`
	Steps []Step `json:"steps"`
}

func must(err error) {
	if err != nil {
		fmt.Fprintln(os.Stderr, "harness internal error:", err)
		os.Exit(3)
	}
}

func cnt7(c meta.ObjectCounters) [7]uint64 {
	return [7]uint64{c.Phy, c.Root, c.TS, c.Lock, c.Link, c.GC, c.Payload}
}

func dumpCnr(db *meta.DB, c int) DCnr {
	d, err := db.VerifDumpContainer(mkCID(c))
	must(err)
	res := DCnr{C: c, Present: d.Present, CGC: d.CGC, Objs: []DObj{}, Garb: [][2]int{}}
	if !d.Consistent && d.Present {
		res.Bad++
	}
	res.Bad += d.Unknown
	byID := map[oid.ID]*DObj{}
	var order []oid.ID
	for _, id := range d.IDs {
		byID[id] = &DObj{ID: unOID(id), T: 9, Exp: -1, ECR: -1, ECI: -1}
		order = append(order, id)
	}
	for _, a := range d.Attrs {
		o := byID[a.ID]
		if o == nil {
			res.Bad++
			continue
		}
		switch a.Key {
		case object.FilterType:
			var t object.Type
			if t.DecodeString(string(a.Val)) {
				o.T = typeIdx(t)
			}
		case object.FilterPayloadSize:
			o.Size, _ = strconv.ParseUint(string(a.Val), 10, 64)
		case object.AttributeExpirationEpoch:
			v, err := strconv.ParseUint(string(a.Val), 10, 63)
			if err == nil {
				o.Exp = int64(v)
			} else {
				res.Bad++
			}
		case object.AttributeAssociatedObject:
			if len(a.Val) == 32 {
				o.Assoc = unOID(oid.ID(a.Val))
			} else {
				res.Bad++
			}
		case object.FilterParentID:
			if len(a.Val) == 32 {
				o.ParID = unOID(oid.ID(a.Val))
			} else {
				res.Bad++
			}
		case object.FilterFirstSplitObject:
			if len(a.Val) == 32 {
				o.First = unOID(oid.ID(a.Val))
			} else {
				res.Bad++
			}
		case object.FilterSplitID:
			if len(a.Val) == 16 {
				o.Split = int(a.Val[15])
			} else {
				res.Bad++
			}
		case iec.AttributeRuleIdx:
			o.ECR, _ = strconv.Atoi(string(a.Val))
		case iec.AttributePartIdx:
			o.ECI, _ = strconv.Atoi(string(a.Val))
		case object.FilterPhysical:
			o.Phy = string(a.Val) == "1"
		case object.FilterRoot:
			o.Root = string(a.Val) == "1"
		}
	}
	for _, id := range order {
		res.Objs = append(res.Objs, *byID[id])
	}
	for _, g := range d.Garbage {
		m := 2
		if len(g.Mark) == 0 {
			m = 0
		} else if len(g.Mark) == 1 && g.Mark[0] == byte(meta.GarbageMarkRedundant) {
			m = 1
		}
		res.Garb = append(res.Garb, [2]int{unOID(g.ID), m})
	}
	res.Cnt = cnt7(d.Counters)
	return res
}

// ---------------------------------------------------------------- shard under test

type env struct {
	dir string
	e   *engine.StorageEngine
	sh  *shard.Shard
	fst *fstree.FSTree
	es  *epochState
}

func tmpBase() string {
	if st, err := os.Stat("/dev/shm"); err == nil && st.IsDir() {
		return "/dev/shm"
	}
	return ""
}

type fixedID struct {
	common.Storage
}

// Init gives the shard a fixed ID (the shard ID is taken from the blobstor).
func (b *fixedID) Init(common.ID) error {
	id, err := common.NewIDFromBytes([]byte{1, 2, 3, 4, 5, 6, 7, 8, 9, 10, 11, 12, 13, 14, 15, 16})
	if err != nil {
		return err
	}
	return b.Storage.Init(id)
}

func newEnv(lim int) *env {
	dir, err := os.MkdirTemp(tmpBase(), "verif-gc-")
	must(err)
	v := &env{dir: dir, es: &epochState{}}
	v.e = engine.New(engine.WithLogger(zap.NewNop()))
	v.fst = fstree.New(fstree.WithPath(filepath.Join(dir, "fstree")), fstree.WithNoSync(true), fstree.WithDepth(1))
	_, err = v.e.AddShard(
		shard.WithLogger(zap.NewNop()),
		shard.WithBlobstor(&fixedID{Storage: v.fst}),
		shard.WithMetaBaseOptions(
			meta.WithPath(filepath.Join(dir, "meta")),
			meta.WithPermissions(0o700),
			meta.WithEpochState(v.es),
			meta.WithLogger(zap.NewNop()),
			meta.WithMaxBatchDelay(time.Microsecond),
			meta.WithBoltDBOptions(&bbolt.Options{NoSync: true, NoFreelistSync: true, Timeout: time.Second}),
		),
		shard.WithWriteCache(false),
		shard.WithRemoverBatchSize(lim),
		shard.WithGCRemoverSleepInterval(time.Hour), // GC passes are driven through the hook
		shard.WithContainerPayments(noPayments{}),
	)
	must(err)
	must(v.e.Init())
	shs := v.e.VerifGCShards()
	if len(shs) != 1 {
		must(errors.New("expected exactly one shard"))
	}
	v.sh = shs[0]
	if shard.VerifGCBatchSize(v.sh) != lim {
		must(errors.New("batch size not applied"))
	}
	return v
}

func (v *env) close() {
	_ = v.e.Close()
	_ = os.RemoveAll(v.dir)
}

func (v *env) observe() *Obs {
	o := &Obs{Epoch: v.es.CurrentEpoch()}
	o.GCur, o.GDone = shard.VerifGCEpochs(v.sh)
	db := shard.VerifGCMetabase(v.sh)
	for c := 1; c <= nCnr; c++ {
		o.Cnrs = append(o.Cnrs, dumpCnr(db, c))
		var gt, lk, bl []int
		for i := 1; i <= nOID; i++ {
			addr := oid.NewAddress(mkCID(c), mkOID(i))
			_, err := v.sh.Get(addr, false)
			if err != nil && os.Getenv("VERIF_DEBUG") != "" && getClass(err) >= vOther {
				fmt.Fprintln(os.Stderr, "get:", err)
			}
			gt = append(gt, getClass(err))
			l, err := v.sh.IsLocked(addr)
			must(err)
			if l {
				lk = append(lk, 1)
			} else {
				lk = append(lk, 0)
			}
			ok, err := v.fst.Exists(addr)
			must(err)
			if ok {
				bl = append(bl, 1)
			} else {
				bl = append(bl, 0)
			}
		}
		o.Get = append(o.Get, gt)
		o.Locked = append(o.Locked, lk)
		o.Blob = append(o.Blob, bl)
	}
	return o
}

func (v *env) apply(op Op) []int64 {
	switch op.K {
	case "put":
		return []int64{errClass(v.sh.Put(build(op.O), nil))}
	case "mark":
		ids := make([]oid.ID, len(op.IDs))
		for i, x := range op.IDs {
			ids[i] = mkOID(x)
		}
		return []int64{errClass(v.sh.MarkGarbage(mkCID(op.C), ids, meta.GarbageMark(op.M)))}
	case "inhc":
		return []int64{errClass(v.sh.InhumeContainer(mkCID(op.C)))}
	case "epoch":
		v.es.e.Store(op.E)
		return []int64{}
	case "event":
		shard.VerifGCEvent(v.sh, op.E)
		return []int64{}
	case "tick":
		v.es.e.Store(op.E)
		shard.VerifGCEvent(v.sh, op.E)
		return []int64{}
	case "pass":
		shard.VerifGCPass(v.sh)
		return []int64{}
	}
	fmt.Fprintln(os.Stderr, "unknown op", op.K)
	os.Exit(3)
	return nil
}

func obsKey(o *Obs) string {
	b, _ := json.Marshal(o)
	return string(b)
}

// runHistory executes ops; if drain > 0 it then appends the drain phase: `drain`
// rounds of (tick to the next epoch; GC passes until two consecutive passes change
// nothing), recording every appended operation.
func runHistory(i, lim int, ops []Op, drain int) History {
	v := newEnv(lim)
	defer v.close()
	h := History{I: i, Lim: lim, Ops: ops, Drain: len(ops)}
	for _, op := range ops {
		st := Step{Res: v.apply(op)}
		st.Obs = v.observe()
		h.Steps = append(h.Steps, st)
	}
	do := func(op Op) *Obs {
		st := Step{Res: v.apply(op)}
		st.Obs = v.observe()
		h.Ops = append(h.Ops, op)
		h.Steps = append(h.Steps, st)
		return st.Obs
	}
	for r := 0; r < drain; r++ {
		e := v.es.CurrentEpoch()
		if g, _ := shard.VerifGCEpochs(v.sh); g > e {
			e = g
		}
		last := obsKey(do(Op{K: "tick", E: e + 1}))
		same := 0
		for n := 0; n < 80 && same < 2; n++ {
			k := obsKey(do(Op{K: "pass"}))
			if k == last {
				same++
			} else {
				same = 0
			}
			last = k
		}
	}
	return h
}

// ---------------------------------------------------------------- generator

type rng struct{ s uint64 }

func (r *rng) next() uint64 {
	r.s += 0x9e3779b97f4a7c15
	z := r.s
	z = (z ^ (z >> 30)) * 0xbf58476d1ce4e5b9
	z = (z ^ (z >> 27)) * 0x94d049bb133111eb
	return z ^ (z >> 31)
}
func (r *rng) n(k int) int    { return int(r.next() % uint64(k)) }
func (r *rng) p(pct int) bool { return r.n(100) < pct }

type gen struct {
	r       *rng
	profile string // "lock": C07 histories; "drain": C44 histories (more garbage, few passes before the drain)
	epoch   uint64 // epoch source of the metabase
	gcur    uint64
	cat     [nCnr + 1][nOID + 1]*Obj // an object ID always denotes the same header within a history
}

func (g *gen) oid() int { return 1 + g.r.n(nOID) }
func (g *gen) cnr() int {
	if g.r.p(75) {
		return 1
	}
	return 1 + g.r.n(nCnr)
}

// expirations around the epochs the history passes through (0..8)
func (g *gen) exp() int64 {
	if g.r.p(35) {
		return -1
	}
	return int64(g.r.n(8))
}

func (g *gen) size() uint64 {
	switch g.r.n(8) {
	case 0:
		return 0
	default:
		return uint64(1 + g.r.n(9))
	}
}

func (g *gen) mkCatalog() {
	for c := 1; c <= nCnr; c++ {
		for id := 1; id <= nOID; id++ {
			o := &Obj{C: c, ID: id, Exp: g.exp()}
			// IDs 1..2 are mostly regular (the usual targets); 3..6 are a lock and a tombstone for each
			// of them, so that lock / tombstone / expiry of the same target collide in every history;
			// 7..8 are anything (locks of locks, tombstones of tombstones, ...)
			k := g.r.n(100)
			switch {
			case id <= 2 && k < 85, id > 6 && k < 30:
				o.T = 0
				o.Size = g.size()
				if id <= 2 && g.r.p(55) {
					o.Exp = int64(g.r.n(4)) // the target expires early in the history
				}
			case id == 3 || id == 5:
				o.T = 2
				o.Assoc = (id - 1) / 2
				if g.r.p(60) {
					o.Exp = int64(1 + g.r.n(4)) // the lock expires while the history runs
				}
			case id == 4 || id == 6:
				o.T = 1
				o.Assoc = (id - 2) / 2
			case k%2 == 0:
				o.T = 1
			default:
				o.T = 2
			}
			if o.T != 0 && o.Assoc == 0 {
				if g.r.p(70) {
					o.Assoc = 1 + g.r.n(2)
				} else {
					o.Assoc = g.oid()
				}
				if o.Assoc == id {
					o.Assoc = 1 + id%nOID
				}
			}
			g.cat[c][id] = o
		}
	}
}

func (g *gen) ids() []int {
	n := 1
	if g.r.p(30) {
		n = 2 + g.r.n(2)
	}
	var res []int
	for i := 0; i < n; i++ {
		res = append(res, g.oid())
	}
	return res
}

func (g *gen) op() Op {
	k := g.r.n(100)
	putTo, markTo, inhTo, tickTo, epochTo, eventTo := 42, 52, 54, 64, 68, 78 // rest: pass
	if g.profile == "drain" {
		putTo, markTo, inhTo, tickTo, epochTo, eventTo = 52, 70, 74, 88, 91, 94
	}
	switch {
	case k < putTo:
		c := g.cnr()
		id := g.oid()
		if g.r.p(45) {
			id = 1 + g.r.n(6) // the targets and their locks / tombstones
		}
		o := *g.cat[c][id]
		return Op{K: "put", C: c, O: &o}
	case k < markTo:
		m := 0
		if g.r.p(40) {
			m = 1
		}
		return Op{K: "mark", C: g.cnr(), IDs: g.ids(), M: m}
	case k < inhTo:
		return Op{K: "inhc", C: 1 + g.r.n(nCnr)}
	case k < tickTo:
		e := g.epoch
		if g.gcur > e {
			e = g.gcur
		}
		e += uint64(1 + g.r.n(2))
		g.epoch, g.gcur = e, e
		return Op{K: "tick", E: e}
	case k < epochTo:
		// the epoch source runs ahead of the event
		g.epoch += uint64(1 + g.r.n(2))
		return Op{K: "epoch", E: g.epoch}
	case k < eventTo:
		// the event catches up, repeats, or (rarely) is older than the processed epoch
		e := g.epoch
		switch k := g.r.n(100); {
		case k < 15 && e > 0:
			e = uint64(g.r.n(int(e) + 1))
		case k < 55:
			// the event is ahead of the epoch source: the GC's clock says "expired" where the metabase's does not yet
			e += uint64(1 + g.r.n(2))
		}
		g.gcur = e
		return Op{K: "event", E: e}
	default:
		return Op{K: "pass"}
	}
}

// liveness kinds of an object associated with a target (multiLock)
const (
	aLive = iota // LOCK that stays unexpired while the history runs
	aExpd        // LOCK that has expired when the queries start, not yet collected by the GC
	aMark        // LOCK carrying a default garbage mark (removed itself)
	aRedu        // LOCK carrying a redundant mark (still protects)
	aNonL        // not a LOCK at all: regular / link object with the association attribute
	aKinds
)

// multiLock is the scripted opening "several associated objects on ONE target": the target
// (1,1) gets the associated objects 3 < 5 < 7 whose liveness is mixed systematically in both
// ID orders (variant k), so that "locked" is decided by a lock that is neither the first nor
// the only entry of the association index; 4 is the tombstone for the same target. After the
// puts the epoch source advances past the early expirations WITHOUT a GC event (the expired
// locks are still stored), a tombstone is attempted, and half of the histories let the GC run.
func (g *gen) multiLock(k int, put func(c, id int) Op) []Op {
	r := g.r
	var kinds [3]int
	rnd := func() int { return r.n(aKinds) }
	switch k % 8 {
	case 0:
		kinds = [3]int{aExpd, aLive, rnd()}
	case 1:
		kinds = [3]int{aLive, aExpd, rnd()}
	case 2:
		kinds = [3]int{aMark, aLive, rnd()}
	case 3:
		kinds = [3]int{aLive, aMark, rnd()}
	case 4:
		kinds = [3]int{aNonL, aLive, rnd()}
	case 5:
		kinds = [3]int{aExpd, aMark, aLive}
	case 6:
		kinds = [3]int{aNonL, aExpd, aLive}
	default:
		kinds = [3]int{rnd(), rnd(), rnd()} // also: no live lock at all
	}
	tgt := &Obj{C: 1, ID: 1, T: 0, Size: 3, Exp: -1}
	if r.p(50) {
		tgt.Exp = 1 // the target itself expires: only a live lock keeps it
	}
	g.cat[1][1] = tgt
	g.cat[1][4] = &Obj{C: 1, ID: 4, T: 1, Exp: -1, Assoc: 1}
	ids := [3]int{3, 5, 7}
	var marks []Op
	for j, id := range ids {
		o := &Obj{C: 1, ID: id, T: 2, Exp: -1, Assoc: 1}
		switch kinds[j] {
		case aLive:
			if r.p(50) {
				o.Exp = int64(6 + r.n(3))
			}
		case aExpd:
			o.Exp = int64(1 + r.n(2))
		case aMark:
			marks = append(marks, Op{K: "mark", C: 1, IDs: []int{id}, M: 0})
		case aRedu:
			marks = append(marks, Op{K: "mark", C: 1, IDs: []int{id}, M: 1})
		case aNonL:
			o.T = []int{0, 3}[r.n(2)]
			o.Size = uint64(1 + r.n(5))
		}
		g.cat[1][id] = o
	}
	ops := []Op{put(1, 1)}
	perm := [][3]int{{0, 1, 2}, {0, 2, 1}, {1, 0, 2}, {1, 2, 0}, {2, 0, 1}, {2, 1, 0}}[r.n(6)]
	for _, j := range perm {
		ops = append(ops, put(1, ids[j]))
	}
	ops = append(ops, marks...)
	g.epoch = 3
	ops = append(ops, Op{K: "epoch", E: 3}, put(1, 4))
	if r.p(50) {
		g.gcur = 3
		ops = append(ops, Op{K: "event", E: 3}, Op{K: "pass"})
	}
	return ops
}

func genHistory(seed uint64, i int, length int, profile string) (int, []Op) {
	r0 := &rng{s: seed}
	r1 := &rng{s: uint64(i)*0xD1342543DE82EF95 + 0x1234567}
	r := &rng{s: r0.next() ^ r1.next()}
	r.next()
	g := &gen{r: r, profile: profile}
	g.mkCatalog()
	lim := []int{1, 1, 2, 2, 3, 5, 100}[r.n(7)]
	n := 1 + length/2 + r.n(length/2+1)
	if n > length {
		n = length
	}
	ops := make([]Op, 0, n+8)
	put := func(c, id int) Op { o := *g.cat[c][id]; return Op{K: "put", C: c, O: &o} }
	if profile == "lock" {
		// scripted openings (then random operations): the situations a few random operations rarely line up
		switch i % 4 {
		case 0:
			// a lock arriving for an object that is tombstoned AND already expired
			g.cat[1][1] = &Obj{C: 1, ID: 1, T: 0, Size: 3, Exp: 1}
			g.cat[1][4] = &Obj{C: 1, ID: 4, T: 1, Exp: -1, Assoc: 1}
			g.cat[1][3] = &Obj{C: 1, ID: 3, T: 2, Exp: int64(5 + r.n(3)), Assoc: 1}
			g.epoch, g.gcur = 3, 3
			ops = append(ops, put(1, 1), put(1, 4), Op{K: "tick", E: 3}, put(1, 3))
		case 2:
			// the GC's clock ahead of the epoch source: expired for the collection, still locked for the engine's check
			g.cat[1][1] = &Obj{C: 1, ID: 1, T: 0, Size: 3, Exp: 1}
			g.cat[1][3] = &Obj{C: 1, ID: 3, T: 2, Exp: 2, Assoc: 1}
			g.epoch, g.gcur = 2, 4
			ops = append(ops, put(1, 1), put(1, 3), Op{K: "epoch", E: 2}, Op{K: "event", E: 4}, Op{K: "pass"})
		case 1:
			ops = append(ops, g.multiLock(i/4, put)...)
		}
	}
	for len(ops) < n {
		ops = append(ops, g.op())
	}
	return lim, ops
}

// ---------------------------------------------------------------- main

type job struct {
	lim   int
	ops   []Op
	drain int
}

func runAll(js []job) {
	out := make([]History, len(js))
	var wg sync.WaitGroup
	sem := make(chan struct{}, 12)
	for i := range js {
		wg.Add(1)
		sem <- struct{}{}
		go func(i int) {
			defer wg.Done()
			defer func() { <-sem }()
			out[i] = runHistory(i, js[i].lim, js[i].ops, js[i].drain)
		}(i)
	}
	wg.Wait()
	w := bufio.NewWriterSize(os.Stdout, 1<<20)
	enc := json.NewEncoder(w)
	for i := range out {
		must(enc.Encode(out[i]))
	}
	must(w.Flush())
}

func main() {
	if len(os.Args) < 2 {
		fmt.Fprintln(os.Stderr, "usage: gc hist <n> <len> <profile> <drain rounds> | replay < jobs.json | split <n> | splitreplay < cases.json | starve <lim> <passes>")
		os.Exit(2)
	}
	switch os.Args[1] {
	case "hist":
		n, _ := strconv.Atoi(os.Args[2])
		ln, _ := strconv.Atoi(os.Args[3])
		profile := os.Args[4]
		drain, _ := strconv.Atoi(os.Args[5])
		seed, _ := strconv.ParseUint(os.Getenv("VERIF_SEED"), 10, 64)
		js := make([]job, n)
		for i := range js {
			lim, ops := genHistory(seed, i, ln, profile)
			js[i] = job{lim: lim, ops: ops, drain: drain}
		}
		runAll(js)
	case "replay":
		// one JSON object per line: {"lim":..,"ops":[..],"drain":..}
		var js []job
		dec := json.NewDecoder(bufio.NewReaderSize(os.Stdin, 1<<20))
		for dec.More() {
			var j struct {
				Lim   int  `json:"lim"`
				Ops   []Op `json:"ops"`
				Drain int  `json:"drain"`
			}
			must(dec.Decode(&j))
			js = append(js, job{lim: j.Lim, ops: j.Ops, drain: j.Drain})
		}
		runAll(js)
	case "split":
		// expired split objects: fixed boundary scenarios + n generated ones
		n, _ := strconv.Atoi(os.Args[2])
		seed, _ := strconv.ParseUint(os.Getenv("VERIF_SEED"), 10, 64)
		cs := fixedSplit()
		for i := 0; i < n; i++ {
			cs = append(cs, genSplit(seed, i))
		}
		for i := range cs {
			cs[i].I = i
		}
		runSplitAll(cs)
	case "splitreplay":
		var cs []SplitCase
		dec := json.NewDecoder(bufio.NewReaderSize(os.Stdin, 1<<20))
		for dec.More() {
			var c SplitCase
			must(dec.Decode(&c))
			c.PutRes, c.Before, c.Blob, c.Meta, c.After, c.Parent, c.Passes = nil, nil, nil, nil, nil, nil, 0
			cs = append(cs, c)
		}
		runSplitAll(cs)
	case "starve":
		lim, _ := strconv.Atoi(os.Args[2])
		passes, _ := strconv.Atoi(os.Args[3])
		starve(lim, passes)
	default:
		fmt.Fprintln(os.Stderr, "unknown command")
		os.Exit(2)
	}
}

// starve is a probe outside the modelled fragment (objects with a parent header):
// a child C (ID 5) carrying the header of its parent P (ID 1); a tombstone (ID 3)
// for P marks P and C as garbage. P is not a physical object, metabase Delete
// skips it, so GetGarbage(lim) keeps returning it first. Prints whether the child
// is ever collected with the given batch size.
func starve(lim, passes int) {
	v := newEnv(lim)
	defer v.close()
	par := &Obj{C: 1, ID: 1, T: 0, Size: 10, Exp: -1}
	child := &Obj{C: 1, ID: 5, T: 0, Size: 5, Exp: -1, Par: par}
	other := &Obj{C: 1, ID: 7, T: 0, Size: 5, Exp: -1}
	other2 := &Obj{C: 2, ID: 2, T: 0, Size: 5, Exp: -1}
	ts := &Obj{C: 1, ID: 3, T: 1, Exp: -1, Assoc: 1}
	r := map[string]any{"lim": lim}
	r["put_child"] = errClass(v.sh.Put(build(child), nil))
	r["put_other"] = errClass(v.sh.Put(build(other), nil))
	r["put_other2"] = errClass(v.sh.Put(build(other2), nil))
	r["put_ts"] = errClass(v.sh.Put(build(ts), nil))
	r["mark_others"] = errClass(v.sh.MarkGarbage(mkCID(1), []oid.ID{mkOID(7)}, meta.GarbageMarkDefault))
	r["mark_other2"] = errClass(v.sh.MarkGarbage(mkCID(2), []oid.ID{mkOID(2)}, meta.GarbageMarkDefault))
	for i := 0; i < passes; i++ {
		shard.VerifGCPass(v.sh)
	}
	o := v.observe()
	r["garb_c1"] = o.Cnrs[0].Garb
	r["garb_c2"] = o.Cnrs[1].Garb
	r["blob_c1"] = o.Blob[0]
	r["blob_c2"] = o.Blob[1]
	must(json.NewEncoder(os.Stdout).Encode(r))
}
