//go:build verif

// Differential harness of the Auth family (C28 access decisions, C30 tokens, C33 request
// signature chains). Built inside /repo's module through `go build -overlay`.
package main

import (
	"encoding/json"
	"fmt"
	"os"
	"strconv"

	apistatus "github.com/nspcc-dev/neofs-sdk-go/client/status"
	"github.com/nspcc-dev/neofs-sdk-go/container/acl"
	"github.com/nspcc-dev/neofs-sdk-go/eacl"
	protostatus "github.com/nspcc-dev/neofs-sdk-go/proto/status"
)

// splitmix64: the single PRNG of the harness
type rng struct{ s uint64 }

func (r *rng) next() uint64 {
	r.s += 0x9e3779b97f4a7c15
	z := r.s
	z = (z ^ (z >> 30)) * 0xbf58476d1ce4e5b9
	z = (z ^ (z >> 27)) * 0x94d049bb133111eb
	return z ^ (z >> 31)
}
func (r *rng) n(k int) int         { return int(r.next() % uint64(k)) }
func (r *rng) p(pct int) bool      { return r.n(100) < pct }
func pick[T any](r *rng, xs []T) T { return xs[r.n(len(xs))] }

func seed() uint64 {
	s, _ := strconv.ParseUint(os.Getenv("VERIF_SEED"), 10, 64)
	return s
}

func thorough() bool { return os.Getenv("VERIF_TIER") == "thorough" }

var allOps = []acl.Op{acl.OpObjectGet, acl.OpObjectHead, acl.OpObjectPut, acl.OpObjectDelete, acl.OpObjectSearch, acl.OpObjectRange, acl.OpObjectHash}

// consts probes the basic-ACL implementation compiled into the node for its bit layout and
// prints the enum values the model depends on.
func consts() {
	type pair = [2]uint64
	out := map[string]any{}
	names := map[acl.Op]string{acl.OpObjectGet: "op_get", acl.OpObjectHead: "op_head", acl.OpObjectPut: "op_put",
		acl.OpObjectDelete: "op_delete", acl.OpObjectSearch: "op_search", acl.OpObjectRange: "op_range", acl.OpObjectHash: "op_hash"}
	for op, n := range names {
		out[n] = uint64(op)
	}
	out["role_owner"] = uint64(acl.RoleOwner)
	out["role_container"] = uint64(acl.RoleContainer)
	out["role_ir"] = uint64(acl.RoleInnerRing)
	out["role_others"] = uint64(acl.RoleOthers)
	bitOf := func(f func(acl.Basic) bool, base acl.Basic) (int, bool) {
		// the single bit whose setting turns f from false to true
		found, n := -1, 0
		for i := 0; i < 32; i++ {
			var b acl.Basic
			b.FromBits(base.Bits() | 1<<uint(i))
			if f(b) && !f(base) {
				found = i
				n++
			}
		}
		return found, n == 1
	}
	var owner, cnr, others, brr []pair
	var irOps, cnrAlways []uint64
	okAll := true
	for _, op := range allOps {
		if i, ok := bitOf(func(b acl.Basic) bool { return b.IsOpAllowed(op, acl.RoleOwner) }, 0); ok {
			owner = append(owner, pair{uint64(op), uint64(i)})
		} else {
			okAll = false
		}
		if i, ok := bitOf(func(b acl.Basic) bool { return b.IsOpAllowed(op, acl.RoleOthers) }, 0); ok {
			others = append(others, pair{uint64(op), uint64(i)})
		} else {
			okAll = false
		}
		if i, ok := bitOf(func(b acl.Basic) bool { return b.AllowedBearerRules(op) }, 0); ok {
			brr = append(brr, pair{uint64(op), uint64(i)})
		} else {
			okAll = false
		}
		if acl.Basic(0).IsOpAllowed(op, acl.RoleContainer) {
			cnrAlways = append(cnrAlways, uint64(op))
		} else if i, ok := bitOf(func(b acl.Basic) bool { return b.IsOpAllowed(op, acl.RoleContainer) }, 0); ok {
			cnr = append(cnr, pair{uint64(op), uint64(i)})
		} else {
			okAll = false
		}
		z, o := acl.Basic(0).IsOpAllowed(op, acl.RoleInnerRing), acl.Basic(0xFFFFFFFF).IsOpAllowed(op, acl.RoleInnerRing)
		if z != o {
			okAll = false
		}
		if z {
			irOps = append(irOps, uint64(op))
		}
	}
	fin, ok1 := bitOf(func(b acl.Basic) bool { return !b.Extendable() }, 0)
	st, ok2 := bitOf(func(b acl.Basic) bool { return b.Sticky() }, 0)
	out["layout_ok"] = okAll && ok1 && ok2
	out["owner_bits"], out["container_bits"], out["others_bits"], out["bearer_bits"] = owner, cnr, others, brr
	out["final_bit"], out["sticky_bit"] = fin, st
	out["ir_ops"], out["container_always_ops"] = irOps, cnrAlways
	var eops []pair
	for _, op := range allOps {
		eops = append(eops, pair{uint64(op), uint64(eacl.Operation(op))})
	}
	out["eop_of_op"] = eops
	out["erole_user"], out["erole_system"], out["erole_others"] = uint64(eacl.RoleUser), uint64(eacl.RoleSystem), uint64(eacl.RoleOthers)
	out["action_allow"], out["action_deny"] = uint64(eacl.ActionAllow), uint64(eacl.ActionDeny)
	out["ht_request"], out["ht_object"] = uint64(eacl.HeaderFromRequest), uint64(eacl.HeaderFromObject)
	out["m_string_equal"], out["m_string_not_equal"], out["m_not_present"] = uint64(eacl.MatchStringEqual), uint64(eacl.MatchStringNotEqual), uint64(eacl.MatchNotPresent)
	out["m_num_gt"], out["m_num_ge"], out["m_num_lt"], out["m_num_le"] = uint64(eacl.MatchNumGT), uint64(eacl.MatchNumGE), uint64(eacl.MatchNumLT), uint64(eacl.MatchNumLE)
	var st2 protostatus.Status
	_ = st2
	out["code_access_denied"] = uint64(apistatus.FromError(apistatus.ErrObjectAccessDenied).Code)
	_ = json.NewEncoder(os.Stdout).Encode(out)
}

func main() {
	if len(os.Args) < 2 {
		fmt.Fprintln(os.Stderr, "usage: auth consts|acl|tokens|requests")
		os.Exit(2)
	}
	switch os.Args[1] {
	case "consts":
		consts()
	case "acl":
		aclMain(os.Args[2:])
	default:
		if !extraCommand(os.Args[1:]) {
			fmt.Fprintln(os.Stderr, "unknown command")
			os.Exit(2)
		}
	}
}
