//go:build verif

package main

func tokensMain(args []string) {}
