//go:build verif

package main

// C30: session (v1, v2) and bearer tokens with real signatures of all schemes, lifetimes around
// the current epoch / time, all verbs; single-field, signature and single-byte mutations. The
// final protobuf message is what the real verification functions get; the facts the model needs
// are re-derived from that final message by an independent decoder (SDK decoding + SDK
// signature verification), so a mutated byte shows up in the facts exactly as it is on the wire.

import (
	"bytes"
	"context"
	"crypto/ecdsa"
	"crypto/elliptic"
	"crypto/sha256"
	"encoding/json"
	"errors"
	"os"
	"slices"
	"sort"
	"strconv"
	"time"

	"github.com/google/uuid"
	"github.com/nspcc-dev/neo-go/pkg/core/block"
	"github.com/nspcc-dev/neo-go/pkg/core/transaction"
	"github.com/nspcc-dev/neo-go/pkg/crypto/hash"
	"github.com/nspcc-dev/neo-go/pkg/crypto/keys"
	"github.com/nspcc-dev/neo-go/pkg/neorpc/result"
	"github.com/nspcc-dev/neo-go/pkg/smartcontract/trigger"
	"github.com/nspcc-dev/neo-go/pkg/util"
	"github.com/nspcc-dev/neo-go/pkg/vm/stackitem"
	"github.com/nspcc-dev/neo-go/pkg/vm/vmstate"
	isessions "github.com/nspcc-dev/neofs-node/internal/sessions"
	aclsvc "github.com/nspcc-dev/neofs-node/pkg/services/object/acl/v2"
	"github.com/nspcc-dev/neofs-node/pkg/services/object/common"
	"github.com/nspcc-dev/neofs-sdk-go/bearer"
	apistatus "github.com/nspcc-dev/neofs-sdk-go/client/status"
	"github.com/nspcc-dev/neofs-sdk-go/container"
	cid "github.com/nspcc-dev/neofs-sdk-go/container/id"
	neofscrypto "github.com/nspcc-dev/neofs-sdk-go/crypto"
	neofsecdsa "github.com/nspcc-dev/neofs-sdk-go/crypto/ecdsa"
	"github.com/nspcc-dev/neofs-sdk-go/eacl"
	"github.com/nspcc-dev/neofs-sdk-go/netmap"
	oid "github.com/nspcc-dev/neofs-sdk-go/object/id"
	oidtest "github.com/nspcc-dev/neofs-sdk-go/object/id/test"
	protoacl "github.com/nspcc-dev/neofs-sdk-go/proto/acl"
	protoobject "github.com/nspcc-dev/neofs-sdk-go/proto/object"
	"github.com/nspcc-dev/neofs-sdk-go/proto/refs"
	protosession "github.com/nspcc-dev/neofs-sdk-go/proto/session"
	"github.com/nspcc-dev/neofs-sdk-go/session"
	sessionv2 "github.com/nspcc-dev/neofs-sdk-go/session/v2"
	"github.com/nspcc-dev/neofs-sdk-go/user"
	"github.com/nspcc-dev/neofs-sdk-go/version"
	"go.uber.org/zap"
	"google.golang.org/protobuf/proto"
)

// ---- facts ------------------------------------------------------------------------------

type lifeF struct {
	Iat uint64 `json:"iat"`
	Nbf uint64 `json:"nbf"`
	Exp uint64 `json:"exp"`
}
type sigF struct {
	Scheme uint32 `json:"scheme"`
	Key    int    `json:"key"`
}
type tok1F struct {
	Issuer  int    `json:"issuer"`
	Life    lifeF  `json:"life"`
	AuthKey int    `json:"authkey"`
	Verb    uint32 `json:"verb"`
	Cnr     int    `json:"cnr"`
	Objs    []int  `json:"objs"`
	Sig     *sigF  `json:"sig"`
}
type btokF struct {
	Issuer int   `json:"issuer"`
	Life   lifeF `json:"life"`
	Cid    int   `json:"cid"`
	User   int   `json:"user"`
	Sig    *sigF `json:"sig"`
}
type subjF2 struct {
	K string `json:"k"` // u | n | z
	I int    `json:"i"`
}
type ctxF struct {
	Cnr   int      `json:"cnr"`
	Verbs []uint32 `json:"verbs"`
}
type tok2F struct {
	Version uint32   `json:"version"`
	AppLen  int      `json:"applen"`
	Issuer  int      `json:"issuer"`
	Subjs   []subjF2 `json:"subjs"`
	Life    lifeF    `json:"life"`
	Ctxs    []ctxF   `json:"ctxs"`
	Final   bool     `json:"final"`
	Sig     *sigF    `json:"sig"`
}
type tokCase struct {
	Kind    string   `json:"kind"` // v1 | bearer | v2 | hist
	KU      [][2]int `json:"ku"`
	NNS     [][2]int `json:"nns"`
	Epoch   uint64   `json:"epoch"`
	Now     uint64   `json:"now"`
	WF      bool     `json:"wf"`
	V1      *tok1F   `json:"v1,omitempty"`
	B       *btokF   `json:"b,omitempty"`
	V2      []tok2F  `json:"v2,omitempty"`
	SigOK   []bool   `json:"sigok"`
	N3OK    []bool   `json:"n3ok"`
	ReqVerb uint32   `json:"reqverb"`
	ReqCnr  int      `json:"reqcnr"`
	ReqObj  int      `json:"reqobj"`
	Owner   int      `json:"owner"`
	Sender  int      `json:"sender"`
	Mut     string   `json:"mut"`  // mutation applied after signing ("" = none)
	Base    bool     `json:"base"` // the token before the mutation was accepted for the same request
	Res     int      `json:"res"`  // 0 accept 1 expired 2 reject
	// hist
	Events []histEv `json:"events,omitempty"`
	Out    []int    `json:"out,omitempty"`
}
type histEv struct {
	Tick    bool   `json:"tick"`
	Epoch   uint64 `json:"epoch"`
	Reset   bool   `json:"reset"`
	ID      int    `json:"id"`
	WF      bool   `json:"wf"`
	V1      *tok1F `json:"v1,omitempty"`
	SigOK   bool   `json:"sigok"`
	ReqVerb uint32 `json:"reqverb"`
	ReqCnr  int    `json:"reqcnr"`
	ReqObj  int    `json:"reqobj"`
}

// ---- environment ---------------------------------------------------------------------------

type tworld struct {
	epoch uint64
	n3ok  bool            // register the N3 witnesses generated next as valid
	n3reg map[string]bool // witnesses the fake chain accepts: account | signed-data hash | invocation+verification script
	nns   map[string][]util.Uint160
	cnrs  map[cid.ID]container.Container
}

type tChain struct{ w *tworld }

// The fake chain is a witness oracle: a witness verifies exactly for the (account, signed data)
// it was registered for.
func n3Key(acc util.Uint160, h util.Uint256, script []byte) string {
	return string(acc.BytesBE()) + string(h.BytesBE()) + string(script)
}
func (c tChain) InvokeContainedScript(tx *transaction.Transaction, _ *block.Header, _ *trigger.Type, _ *bool) (*result.Invoke, error) {
	ok := len(tx.Signers) == 1 && c.w.n3reg[n3Key(tx.Signers[0].Account, tx.Hash(), tx.Script)]
	return &result.Invoke{State: vmstate.Halt.String(), Stack: []stackitem.Item{stackitem.NewBool(ok)}}, nil
}
func (w *tworld) n3Fact(issuer *refs.OwnerID, sg *refs.Signature, body interface {
	MarshaledSize() int
	MarshalStable([]byte)
}) bool {
	if sg == nil || issuer == nil {
		return false
	}
	var id user.ID
	if id.FromProtoMessage(issuer) != nil {
		return false
	}
	b := make([]byte, body.MarshaledSize())
	body.MarshalStable(b)
	return w.n3reg[n3Key(id.ScriptHash(), sha256.Sum256(b), slices.Concat(sg.Sign, sg.Key))]
}
func (w *tworld) n3Register(issuer user.ID, data, invoc, verif []byte) {
	if w.n3ok {
		w.n3reg[n3Key(issuer.ScriptHash(), sha256.Sum256(data), slices.Concat(invoc, verif))] = true
	}
}
func (tChain) InContainerInLastTwoEpochs(cid.ID, []byte) (bool, error) { return false, nil }
func (c tChain) HasUserInNNS(name string, addr util.Uint160) (bool, error) {
	return slices.Contains(c.w.nns[name], addr), nil
}

type tNetmap struct{ w *tworld }

func (tNetmap) GetNetMapByEpoch(uint64) (*netmap.NetMap, error) { return nil, errors.New("unused") }
func (n tNetmap) Epoch() (uint64, error)                        { return n.w.epoch, nil }
func (tNetmap) NetMap() (*netmap.NetMap, error)                 { return nil, errors.New("unused") }
func (tNetmap) ServerInContainer(cid.ID) (bool, error)          { return true, nil }
func (tNetmap) GetEpochBlock(uint64) (uint32, error)            { return 1, nil }
func (tNetmap) GetEpochBlockByTime(uint32) (uint32, error)      { return 1, nil }

type tCnrs struct{ w *tworld }

func (c tCnrs) Get(id cid.ID) (container.Container, error) {
	if cn, ok := c.w.cnrs[id]; ok {
		return cn, nil
	}
	return container.Container{}, apistatus.ErrContainerNotFound
}

type tIR struct{}

func (tIR) InnerRingKeys() [][]byte { return nil }

// ---- indexers (per case) -----------------------------------------------------------------------

type tuniverse struct {
	actors []*actor // 1..5
	cnrs   []cid.ID // known containers
	oids   []oid.ID
	names  []string
}

type indexer struct {
	u     *tuniverse
	users map[user.ID]int
	keys  map[string]int
	oids  map[oid.ID]int
	cids  map[cid.ID]int
	names map[string]int
	ku    map[int]int
}

func newIndexer(u *tuniverse, extraCids []cid.ID) *indexer {
	x := &indexer{u: u, users: map[user.ID]int{}, keys: map[string]int{}, oids: map[oid.ID]int{}, cids: map[cid.ID]int{}, names: map[string]int{}, ku: map[int]int{}}
	for i := 1; i < len(u.actors); i++ {
		x.users[u.actors[i].id] = i
		x.keys[string(u.actors[i].pub)] = i
	}
	for i, o := range u.oids {
		x.oids[o] = i + 1
	}
	for i, n := range u.names {
		x.names[n] = i + 1
	}
	// containers are numbered by the byte order of their IDs (the v2 validation compares them)
	all := slices.Clone(u.cnrs)
	for _, c := range extraCids {
		if !c.IsZero() && !slices.Contains(all, c) {
			all = append(all, c)
		}
	}
	sort.Slice(all, func(i, j int) bool { return bytes.Compare(all[i][:], all[j][:]) < 0 })
	for i, c := range all {
		x.cids[c] = i + 1
	}
	return x
}

func (x *indexer) user(id user.ID) int {
	if id.IsZero() {
		return 0
	}
	if i, ok := x.users[id]; ok {
		return i
	}
	i := 50 + len(x.users)
	x.users[id] = i
	return i
}
func (x *indexer) userMsg(m *refs.OwnerID) int {
	if m == nil {
		return 0
	}
	var id user.ID
	if id.FromProtoMessage(m) != nil {
		return 0
	}
	return x.user(id)
}
func (x *indexer) key(b []byte) int {
	if i, ok := x.keys[string(b)]; ok {
		x.noteKU(i, b)
		return i
	}
	i := 50 + len(x.keys)
	x.keys[string(b)] = i
	x.noteKU(i, b)
	return i
}
func (x *indexer) noteKU(i int, b []byte) {
	if len(b) > 0 && b[0] == 0 {
		return
	}
	if pk, err := keys.NewPublicKeyFromBytes(b, elliptic.P256()); err == nil {
		x.ku[i] = x.user(user.NewFromECDSAPublicKey(ecdsa.PublicKey(*pk)))
	}
}
func (x *indexer) cid(m *refs.ContainerID) int {
	if m == nil {
		return 0
	}
	var c cid.ID
	copy(c[:], m.Value)
	if len(m.Value) != 32 || c.IsZero() {
		return 0
	}
	return x.cids[c]
}
func (x *indexer) oid(m *refs.ObjectID) int {
	if m == nil || len(m.Value) != 32 {
		return 0
	}
	var o oid.ID
	copy(o[:], m.Value)
	if o.IsZero() {
		return 0
	}
	if i, ok := x.oids[o]; ok {
		return i
	}
	i := 50 + len(x.oids)
	x.oids[o] = i
	return i
}
func (x *indexer) kuList() [][2]int {
	r := [][2]int{}
	for k, v := range x.ku {
		r = append(r, [2]int{k, v})
	}
	sort.Slice(r, func(i, j int) bool { return r[i][0] < r[j][0] })
	return r
}
func (x *indexer) sig(m *refs.Signature) *sigF {
	if m == nil {
		return nil
	}
	return &sigF{Scheme: uint32(m.Scheme), Key: x.key(m.Key)}
}

func sigVerifies(m *refs.Signature, body interface {
	MarshaledSize() int
	MarshalStable([]byte)
}) bool {
	if m == nil || m.Scheme < 0 || m.Scheme > 2 {
		return false
	}
	b := make([]byte, body.MarshaledSize())
	body.MarshalStable(b)
	return neofscrypto.NewSignatureFromRawKey(neofscrypto.Scheme(m.Scheme), m.Key, m.Sign).Verify(b)
}

func resClass(err error) int {
	switch {
	case err == nil:
		return 0
	case errors.Is(err, apistatus.ErrSessionTokenExpired):
		return 1
	default:
		return 2
	}
}

func cidsOfMessage(m proto.Message) []cid.ID {
	// all 32-byte container IDs mentioned anywhere in the token
	var res []cid.ID
	var walkV2 func(t *protosession.SessionTokenV2)
	walkV2 = func(t *protosession.SessionTokenV2) {
		if t == nil {
			return
		}
		for _, c := range t.GetBody().GetContexts() {
			if c.GetContainer() != nil && len(c.Container.Value) == 32 {
				var x cid.ID
				copy(x[:], c.Container.Value)
				res = append(res, x)
			}
		}
		walkV2(t.Origin)
	}
	switch t := m.(type) {
	case *protosession.SessionToken:
		if c := t.GetBody().GetObject().GetTarget().GetContainer(); c != nil && len(c.Value) == 32 {
			var x cid.ID
			copy(x[:], c.Value)
			res = append(res, x)
		}
	case *protosession.SessionTokenV2:
		walkV2(t)
	case *protoacl.BearerToken:
		if c := t.GetBody().GetEaclTable().GetContainerId(); c != nil && len(c.Value) == 32 {
			var x cid.ID
			copy(x[:], c.Value)
			res = append(res, x)
		}
	}
	return res
}

func flipByte[M interface {
	proto.Message
	MarshaledSize() int
	MarshalStable([]byte)
}](g *rng, m M, fresh M) bool {
	b := make([]byte, m.MarshaledSize())
	m.MarshalStable(b)
	if len(b) == 0 {
		return false
	}
	b[g.n(len(b))] ^= 1 << uint(g.n(8))
	return proto.Unmarshal(b, fresh) == nil
}

var schemeSigners = []func(*actor) neofscrypto.Signer{
	func(a *actor) neofscrypto.Signer { return neofsecdsa.Signer(a.key) },
	func(a *actor) neofscrypto.Signer { return neofsecdsa.SignerRFC6979(a.key) },
	func(a *actor) neofscrypto.Signer { return neofsecdsa.SignerWalletConnect(a.key) },
}

func n3Witness(g *rng) (invoc, verif []byte, issuer user.ID) {
	verif = []byte{0x0c, 0x21, byte(g.n(256)), byte(g.n(256)), 0x41}
	invoc = []byte{0x0c, 0x40, byte(g.n(256))}
	return invoc, verif, user.NewFromScriptHash(hash.Hash160(verif))
}

// ---- v1 -------------------------------------------------------------------------------------

func (x *indexer) v1Facts(w *tworld, m *protosession.SessionToken) (tok1F, bool, bool, bool) {
	var t session.Object
	wf := t.FromProtoMessage(m) == nil
	var f tok1F
	f.Objs = []int{}
	b := m.GetBody()
	f.Issuer = x.userMsg(b.GetOwnerId())
	f.Life = lifeF{b.GetLifetime().GetIat(), b.GetLifetime().GetNbf(), b.GetLifetime().GetExp()}
	if len(b.GetSessionKey()) > 0 {
		f.AuthKey = x.key(b.GetSessionKey())
	}
	oc := b.GetObject()
	if oc.GetVerb() >= 0 {
		f.Verb = uint32(oc.GetVerb())
	}
	f.Cnr = x.cid(oc.GetTarget().GetContainer())
	for _, o := range oc.GetTarget().GetObjects() {
		f.Objs = append(f.Objs, x.oid(o))
	}
	f.Sig = x.sig(m.Signature)
	sigok, n3 := false, false
	if b != nil {
		sigok = sigVerifies(m.Signature, b)
		n3 = w.n3Fact(b.GetOwnerId(), m.Signature, b)
	}
	return f, wf, sigok, n3
}

type v1Req struct {
	verb session.ObjectVerb
	cnr  cid.ID
	obj  oid.ID
}

var v1Devs = []string{"nbf_future", "iat_future", "expired", "verb_other", "cnr_other", "obj_other", "issuer_other", "random"}

// genV1 builds a token valid for the request except for at most one deviation applied before signing.
func genV1(g *rng, w *tworld, u *tuniverse, epoch uint64, rq v1Req, dev string, forceVerb session.ObjectVerb) *protosession.SessionToken {
	var t session.Object
	t.SetID(uuid.New())
	t.SetAuthKey((*neofsecdsa.PublicKey)(&pick(g, u.actors[1:]).key.PublicKey))
	t.SetIat(epoch - uint64(g.n(3)))
	t.SetNbf(epoch - uint64(g.n(3)))
	t.SetExp(epoch + uint64(g.n(3)))
	t.BindContainer(rq.cnr)
	switch g.n(3) {
	case 0:
	case 1:
		t.LimitByObjects(rq.obj)
	default:
		t.LimitByObjects(pick(g, u.oids), rq.obj)
	}
	v := rq.verb
	switch rq.verb {
	case session.VerbObjectHead:
		v = pick(g, []session.ObjectVerb{session.VerbObjectHead, session.VerbObjectGet, session.VerbObjectDelete, session.VerbObjectRange})
	case session.VerbObjectSearch:
		v = pick(g, []session.ObjectVerb{session.VerbObjectSearch, session.VerbObjectDelete})
	}
	t.ForVerb(v)
	a := pick(g, u.actors[1:])
	issuer := a
	r7, r5a, r5b, r5c := g.n(7), g.n(5), g.n(5), g.n(5)
	switch dev {
	case "nbf_future":
		t.SetNbf(epoch + 1 + uint64(g.n(2)))
		t.SetExp(epoch + 3)
	case "iat_future":
		t.SetIat(epoch + 1 + uint64(g.n(2)))
		t.SetExp(epoch + 3)
	case "expired":
		t.SetExp(epoch - 1 - uint64(g.n(2)))
	case "verb_other":
		t.ForVerb(session.ObjectVerb(1 + (int(rq.verb)+r7)%7))
	case "cnr_other":
		for _, c := range u.cnrs {
			if c != rq.cnr {
				t.BindContainer(c)
			}
		}
	case "obj_other":
		for _, o := range u.oids {
			if o != rq.obj {
				t.LimitByObjects(o)
				break
			}
		}
	case "issuer_other":
		issuer = u.actors[1+(a.idx%5)]
	case "random":
		t.SetIat(epoch - 2 + uint64(r5a))
		t.SetNbf(epoch - 2 + uint64(r5b))
		t.SetExp(epoch - 2 + uint64(r5c))
		t.BindContainer(pick(g, u.cnrs))
		t.ForVerb(session.ObjectVerb(1 + r7))
	}
	if forceVerb != 0 {
		t.ForVerb(forceVerb)
	}
	if g.p(12) {
		inv, ver, iss := n3Witness(g)
		t.SetIssuer(iss)
		t.AttachSignature(neofscrypto.NewN3Signature(inv, ver))
		w.n3Register(iss, t.SignedData(), inv, ver)
	} else {
		t.SetIssuer(issuer.id)
		if err := t.SetSignature(schemeSigners[g.n(3)](a)); err != nil {
			panic(err)
		}
	}
	return t.ProtoMessage()
}

var v1Muts = []string{"exp", "nbf", "iat", "verb", "cnr", "objs", "issuer", "authkey", "id", "scheme", "sigkey", "sigval", "nosig", "byte", "nolife", "nobody"}

func mutateV1(g *rng, u *tuniverse, m *protosession.SessionToken, how string) *protosession.SessionToken {
	b := m.Body
	switch how {
	case "exp":
		b.Lifetime.Exp += 1 + uint64(g.n(2))
	case "nbf":
		if b.Lifetime.Nbf > 0 {
			b.Lifetime.Nbf--
		} else {
			b.Lifetime.Nbf++
		}
	case "iat":
		if b.Lifetime.Iat > 0 {
			b.Lifetime.Iat--
		} else {
			b.Lifetime.Iat++
		}
	case "verb":
		oc := b.GetObject()
		oc.Verb = protosession.ObjectSessionContext_Verb(1 + (int(oc.Verb)+g.n(6))%7)
	case "cnr":
		oc := b.GetObject()
		for _, c := range u.cnrs {
			if !bytes.Equal(c[:], oc.Target.Container.GetValue()) {
				oc.Target.Container = c.ProtoMessage()
				break
			}
		}
	case "objs":
		oc := b.GetObject()
		if len(oc.Target.Objects) > 0 && g.p(50) {
			oc.Target.Objects = oc.Target.Objects[1:]
			if len(oc.Target.Objects) == 0 {
				oc.Target.Objects = nil
			}
		} else {
			oc.Target.Objects = append(oc.Target.Objects, oidtest.ID().ProtoMessage())
		}
	case "issuer":
		for _, a := range u.actors[1:] {
			if !bytes.Equal(a.id[:], b.OwnerId.GetValue()) {
				b.OwnerId = a.id.ProtoMessage()
				break
			}
		}
	case "authkey":
		b.SessionKey = slices.Clone(b.SessionKey)
		b.SessionKey[len(b.SessionKey)-1] ^= 1
	case "id":
		b.Id = slices.Clone(b.Id)
		b.Id[0] ^= 1
	case "scheme":
		if m.Signature != nil {
			m.Signature.Scheme = refs.SignatureScheme((int(m.Signature.Scheme) + 1 + g.n(3)) % 5)
		}
	case "sigkey":
		if m.Signature != nil {
			for _, a := range u.actors[1:] {
				if !bytes.Equal(a.pub, m.Signature.Key) {
					m.Signature.Key = slices.Clone(a.pub)
					break
				}
			}
		}
	case "sigval":
		if m.Signature != nil && len(m.Signature.Sign) > 0 {
			m.Signature.Sign = slices.Clone(m.Signature.Sign)
			m.Signature.Sign[g.n(len(m.Signature.Sign))] ^= 1 << uint(g.n(8))
		}
	case "nosig":
		m.Signature = nil
	case "nolife":
		b.Lifetime = nil
	case "nobody":
		m.Body = nil
	case "byte":
		fresh := new(protosession.SessionToken)
		if flipByte(g, m, fresh) {
			return fresh
		}
		return nil
	}
	return m
}

// ---- bearer ----------------------------------------------------------------------------------

func (x *indexer) bFacts(w *tworld, m *protoacl.BearerToken) (btokF, bool, bool, bool) {
	var t bearer.Token
	wf := t.FromProtoMessage(m) == nil
	var f btokF
	b := m.GetBody()
	f.Issuer = x.userMsg(b.GetIssuer())
	f.Life = lifeF{b.GetLifetime().GetIat(), b.GetLifetime().GetNbf(), b.GetLifetime().GetExp()}
	f.Cid = x.cid(b.GetEaclTable().GetContainerId())
	f.User = x.userMsg(b.GetOwnerId())
	f.Sig = x.sig(m.Signature)
	sigok, n3 := false, false
	if b != nil {
		sigok = sigVerifies(m.Signature, b)
		n3 = w.n3Fact(b.GetIssuer(), m.Signature, b)
	}
	return f, wf, sigok, n3
}

var bMuts = []string{"exp", "nbf", "iat", "cid", "user", "issuer", "table", "scheme", "sigkey", "sigval", "nosig", "byte", "nolife"}

func mutateB(g *rng, u *tuniverse, m *protoacl.BearerToken, how string) *protoacl.BearerToken {
	b := m.Body
	switch how {
	case "exp":
		b.Lifetime.Exp += 1 + uint64(g.n(2))
	case "nbf":
		if b.Lifetime.Nbf > 0 {
			b.Lifetime.Nbf--
		} else {
			b.Lifetime.Nbf++
		}
	case "iat":
		if b.Lifetime.Iat > 0 {
			b.Lifetime.Iat--
		} else {
			b.Lifetime.Iat++
		}
	case "cid":
		if b.EaclTable.ContainerId == nil {
			b.EaclTable.ContainerId = u.cnrs[0].ProtoMessage()
		} else {
			b.EaclTable.ContainerId = nil
		}
	case "user":
		if b.OwnerId == nil {
			b.OwnerId = u.actors[2].id.ProtoMessage()
		} else {
			b.OwnerId = nil
		}
	case "issuer":
		for _, a := range u.actors[1:] {
			if !bytes.Equal(a.id[:], b.Issuer.GetValue()) {
				b.Issuer = a.id.ProtoMessage()
				break
			}
		}
	case "table":
		b.EaclTable.Records = append(b.EaclTable.Records, &protoacl.EACLRecord{Operation: protoacl.Operation_GET, Action: protoacl.Action_ALLOW})
	case "scheme":
		if m.Signature != nil {
			m.Signature.Scheme = refs.SignatureScheme((int(m.Signature.Scheme) + 1 + g.n(3)) % 5)
		}
	case "sigkey":
		if m.Signature != nil {
			for _, a := range u.actors[1:] {
				if !bytes.Equal(a.pub, m.Signature.Key) {
					m.Signature.Key = slices.Clone(a.pub)
					break
				}
			}
		}
	case "sigval":
		if m.Signature != nil && len(m.Signature.Sign) > 0 {
			m.Signature.Sign = slices.Clone(m.Signature.Sign)
			m.Signature.Sign[g.n(len(m.Signature.Sign))] ^= 1 << uint(g.n(8))
		}
	case "nosig":
		m.Signature = nil
	case "nolife":
		b.Lifetime = nil
	case "byte":
		fresh := new(protoacl.BearerToken)
		if flipByte(g, m, fresh) {
			return fresh
		}
		return nil
	}
	return m
}

// ---- v2 ----------------------------------------------------------------------------------------

func (x *indexer) v2Facts(w *tworld, m *protosession.SessionTokenV2) ([]tok2F, bool, []bool, []bool) {
	var t sessionv2.Token
	wf := t.FromProtoMessage(m) == nil
	var res []tok2F
	var oks, n3s []bool
	for cur := m; cur != nil && len(res) < 12; cur = cur.Origin {
		b := cur.GetBody()
		f := tok2F{Version: b.GetVersion(), AppLen: len(b.GetAppdata()), Issuer: x.userMsg(b.GetIssuer()), Final: b.GetFinal(), Subjs: []subjF2{}, Ctxs: []ctxF{}}
		for _, s := range b.GetSubjects() {
			switch id := s.GetIdentifier().(type) {
			case *protosession.Target_OwnerId:
				f.Subjs = append(f.Subjs, subjF2{"u", x.userMsg(id.OwnerId)})
			case *protosession.Target_NnsName:
				i, ok := x.names[id.NnsName]
				if !ok {
					i = 50
				}
				f.Subjs = append(f.Subjs, subjF2{"n", i})
			default:
				f.Subjs = append(f.Subjs, subjF2{"z", 0})
			}
		}
		f.Life = lifeF{b.GetLifetime().GetIat(), b.GetLifetime().GetNbf(), b.GetLifetime().GetExp()}
		for _, c := range b.GetContexts() {
			cf := ctxF{Cnr: x.cid(c.GetContainer()), Verbs: []uint32{}}
			for _, v := range c.GetVerbs() {
				if v >= 0 {
					cf.Verbs = append(cf.Verbs, uint32(v))
				}
			}
			f.Ctxs = append(f.Ctxs, cf)
		}
		f.Sig = x.sig(cur.Signature)
		ok, n3 := false, false
		if b != nil {
			ok = sigVerifies(cur.Signature, b)
			n3 = w.n3Fact(b.GetIssuer(), cur.Signature, b)
		}
		res = append(res, f)
		oks = append(oks, ok)
		n3s = append(n3s, n3)
	}
	return res, wf, oks, n3s
}

type v2Req struct {
	verb sessionv2.Verb
	cnr  cid.ID
}

func sortedVerbs(g *rng, must sessionv2.Verb, pool int) []sessionv2.Verb {
	set := map[sessionv2.Verb]bool{}
	if must != 0 {
		set[must] = true
	}
	for k := g.n(4); k > 0; k-- {
		set[sessionv2.Verb(1+g.n(pool))] = true
	}
	if len(set) == 0 {
		set[sessionv2.Verb(1+g.n(pool))] = true
	}
	var r []sessionv2.Verb
	for v := range set {
		r = append(r, v)
	}
	slices.Sort(r)
	return r
}

// genV2 builds a delegation chain (root first in `layers`), valid for the request when good.
func genV2(g *rng, w *tworld, u *tuniverse, now uint64, rq v2Req, good bool, depth int, dev string) *protosession.SessionTokenV2 {
	type lay struct {
		tok    sessionv2.Token
		issuer *actor
	}
	sortedCnrs := slices.Clone(u.cnrs)
	sort.Slice(sortedCnrs, func(i, j int) bool { return bytes.Compare(sortedCnrs[i][:], sortedCnrs[j][:]) < 0 })
	var prev *sessionv2.Token
	issuer := pick(g, u.actors[1:])
	iat, nbf, exp := now-10-uint64(g.n(5)), now-5-uint64(g.n(5)), now+5+uint64(g.n(5))
	if !good {
		iat, nbf, exp = now-2+uint64(g.n(5)), now-2+uint64(g.n(5)), now-2+uint64(g.n(5))
	}
	var prevCtxs []sessionv2.Context
	devLayer := g.n(depth)
	for d := 0; d < depth; d++ {
		var t sessionv2.Token
		next := pick(g, u.actors[1:])
		subs := []sessionv2.Target{sessionv2.NewTargetUser(next.id)}
		viaNNS := g.p(15)
		if viaNNS {
			subs = []sessionv2.Target{sessionv2.NewTargetNamed(u.names[0])} // the world maps n1 -> every actor's next issuer below
		}
		if g.p(30) {
			subs = append(subs, sessionv2.NewTargetUser(pick(g, u.actors[1:]).id))
		}
		_ = t.SetSubjects(subs)
		var ctxs []sessionv2.Context
		if d == 0 {
			// root contexts
			if g.p(40) {
				c, _ := sessionv2.NewContext(cid.ID{}, sortedVerbs(g, rq.verb, 7))
				ctxs = append(ctxs, c)
			}
			for _, cn := range sortedCnrs {
				if r40 := g.p(40); cn == rq.cnr || r40 {
					must := sessionv2.Verb(0)
					if r50 := g.p(50); cn == rq.cnr && (len(ctxs) == 0 || r50) {
						must = rq.verb
					}
					c, _ := sessionv2.NewContext(cn, sortedVerbs(g, must, 12))
					ctxs = append(ctxs, c)
				}
			}
			if !good && g.p(50) {
				// drop what authorizes the request
				ctxs = ctxs[:0]
				c, _ := sessionv2.NewContext(pick(g, sortedCnrs), sortedVerbs(g, 0, 12))
				ctxs = append(ctxs, c)
			}
		} else {
			// delegated: subset of the origin's contexts
			for _, pc := range prevCtxs {
				vs := slices.Clone(pc.Verbs())
				if g.p(30) && len(vs) > 1 {
					k := g.n(len(vs))
					if vs[k] != rq.verb {
						vs = append(vs[:k], vs[k+1:]...)
					}
				}
				c, _ := sessionv2.NewContext(pc.Container(), vs)
				if pc.Container().IsZero() && g.p(30) {
					// narrow a wildcard grant to the requested container
					c, _ = sessionv2.NewContext(rq.cnr, vs)
					if slices.ContainsFunc(prevCtxs, func(o sessionv2.Context) bool { return o.Container() == rq.cnr }) {
						continue
					}
				}
				ctxs = append(ctxs, c)
			}
			sort.SliceStable(ctxs, func(i, j int) bool {
				a, b := ctxs[i].Container(), ctxs[j].Container()
				return bytes.Compare(a[:], b[:]) < 0
			})
			iat, nbf, exp = iat+uint64(g.n(2)), nbf+uint64(g.n(2)), exp-uint64(g.n(2))
		}
		if d == depth-1 {
			// deviations of the outermost token w.r.t. the request
			switch dev {
			case "nbf_future":
				nbf = now + 1 + uint64(g.n(2))
			case "iat_future":
				iat = now + 1 + uint64(g.n(2))
			case "expired":
				exp = now - 1 - uint64(g.n(2))
			case "verb_missing":
				var kept []sessionv2.Context
				for _, c := range ctxs {
					vs := slices.DeleteFunc(slices.Clone(c.Verbs()), func(v sessionv2.Verb) bool { return v == rq.verb })
					if len(vs) > 0 {
						c2, _ := sessionv2.NewContext(c.Container(), vs)
						kept = append(kept, c2)
					}
				}
				if len(kept) > 0 {
					ctxs = kept
				}
			}
		}
		// deviations breaking exactly one rule at one layer
		if dev != "" && d == devLayer {
			switch dev {
			case "verbs_unsorted":
				if len(ctxs) > 0 && len(ctxs[0].Verbs()) > 1 {
					vs := slices.Clone(ctxs[0].Verbs())
					vs[0], vs[1] = vs[1], vs[0]
					ctxs[0], _ = sessionv2.NewContext(ctxs[0].Container(), vs)
				}
			case "ctx_dup":
				if len(ctxs) > 0 {
					ctxs = append(ctxs, ctxs[len(ctxs)-1])
				}
			case "extra_verb":
				if d > 0 && len(ctxs) > 0 {
					vs := slices.Clone(ctxs[0].Verbs())
					for v := sessionv2.Verb(1); v <= 12; v++ {
						if !slices.Contains(vs, v) {
							vs = append(vs, v)
							break
						}
					}
					slices.Sort(vs)
					ctxs[0], _ = sessionv2.NewContext(ctxs[0].Container(), vs)
				}
			case "life_outside":
				if d > 0 {
					if g.p(50) {
						exp += 3
					} else {
						nbf -= 3
					}
				}
			case "version":
				t.SetVersion(1)
			case "final":
				t.SetFinal(true)
			case "nbf_after_exp":
				nbf = exp + 1
			case "appdata":
				_ = t.SetAppData(make([]byte, 1024+g.n(2)))
			case "many_verbs":
				if len(ctxs) > 0 {
					var vs []sessionv2.Verb
					for v := sessionv2.Verb(1); v <= sessionv2.Verb(12+g.n(2)); v++ {
						vs = append(vs, v)
					}
					m := ctxs[0].Container()
					ctxs[0] = sessionv2.Context{}
					pm := &protosession.SessionContextV2{}
					if !m.IsZero() {
						pm.Container = m.ProtoMessage()
					}
					_ = pm
					c2, err := sessionv2.NewContext(m, vs[:min(len(vs), 12)])
					if err == nil {
						ctxs[0] = c2
					}
				}
			}
		}
		_ = t.SetContexts(ctxs)
		t.SetIat(time.Unix(int64(iat), 0))
		t.SetNbf(time.Unix(int64(nbf), 0))
		t.SetExp(time.Unix(int64(exp), 0))
		if prev != nil {
			t.SetOrigin(prev)
		}
		if dev == "wrong_issuer" && d == devLayer && d > 0 {
			for _, a := range u.actors[1:] {
				if a != issuer {
					issuer = a
					break
				}
			}
		}
		if g.p(10) && d == 0 {
			inv, ver, iss := n3Witness(g)
			t.SetIssuer(iss)
			t.AttachSignature(neofscrypto.NewN3Signature(inv, ver))
			w.n3Register(iss, t.SignedData(), inv, ver)
		} else {
			t.SetIssuer(issuer.id)
			var sg neofscrypto.Signature
			if err := sg.Calculate(schemeSigners[g.n(3)](issuer), t.SignedData()); err != nil {
				panic(err)
			}
			t.AttachSignature(sg)
		}
		cp := new(sessionv2.Token)
		t.CopyTo(cp)
		prev = cp
		prevCtxs = ctxs
		issuer = next
	}
	return prev.ProtoMessage()
}

var v2Muts = []string{"exp", "nbf", "iat", "verbs", "ctx_cnr", "subjects", "issuer", "final", "appdata", "version", "scheme", "sigkey", "sigval", "nosig", "drop_origin", "byte"}

func nthLayer(m *protosession.SessionTokenV2, i int) *protosession.SessionTokenV2 {
	for ; i > 0 && m.Origin != nil; i-- {
		m = m.Origin
	}
	return m
}

func mutateV2(g *rng, u *tuniverse, m *protosession.SessionTokenV2, how string) *protosession.SessionTokenV2 {
	depth := 1
	for c := m; c.Origin != nil; c = c.Origin {
		depth++
	}
	l := nthLayer(m, g.n(depth))
	b := l.Body
	switch how {
	case "exp":
		b.Lifetime.Exp++
	case "nbf":
		b.Lifetime.Nbf--
	case "iat":
		b.Lifetime.Iat--
	case "verbs":
		c := b.Contexts[g.n(len(b.Contexts))]
		if len(c.Verbs) > 1 && g.p(50) {
			c.Verbs = c.Verbs[:len(c.Verbs)-1]
		} else {
			c.Verbs = append(slices.Clone(c.Verbs), c.Verbs[len(c.Verbs)-1]+1)
		}
	case "ctx_cnr":
		c := b.Contexts[g.n(len(b.Contexts))]
		if c.Container == nil {
			c.Container = u.cnrs[0].ProtoMessage()
		} else {
			c.Container = nil
		}
	case "subjects":
		b.Subjects = append(slices.Clone(b.Subjects), &protosession.Target{Identifier: &protosession.Target_OwnerId{OwnerId: u.actors[5].id.ProtoMessage()}})
	case "issuer":
		for _, a := range u.actors[1:] {
			if !bytes.Equal(a.id[:], b.Issuer.GetValue()) {
				b.Issuer = a.id.ProtoMessage()
				break
			}
		}
	case "final":
		b.Final = !b.Final
	case "appdata":
		b.Appdata = append(slices.Clone(b.Appdata), 1)
	case "version":
		b.Version++
	case "scheme":
		if l.Signature != nil {
			l.Signature.Scheme = refs.SignatureScheme((int(l.Signature.Scheme) + 1 + g.n(3)) % 5)
		}
	case "sigkey":
		if l.Signature != nil {
			for _, a := range u.actors[1:] {
				if !bytes.Equal(a.pub, l.Signature.Key) {
					l.Signature.Key = slices.Clone(a.pub)
					break
				}
			}
		}
	case "sigval":
		if l.Signature != nil && len(l.Signature.Sign) > 0 {
			l.Signature.Sign = slices.Clone(l.Signature.Sign)
			l.Signature.Sign[g.n(len(l.Signature.Sign))] ^= 1 << uint(g.n(8))
		}
	case "nosig":
		l.Signature = nil
	case "drop_origin":
		l.Origin = nil
	case "byte":
		fresh := new(protosession.SessionTokenV2)
		if flipByte(g, m, fresh) {
			return fresh
		}
		return nil
	}
	return m
}

// ---- driver -----------------------------------------------------------------------------------------

func tokensMain(args []string) {
	if len(args) > 0 && args[0] == "consts" {
		tokConsts()
		return
	}
	n := 800
	if thorough() {
		n = 6000
	}
	if len(args) > 0 {
		n, _ = strconv.Atoi(args[0])
	}
	g := &rng{s: seed()*0x1000193 + 30}
	u := &tuniverse{actors: make([]*actor, 6), names: []string{"n1", "n2"}}
	for i := 1; i <= 5; i++ {
		u.actors[i] = newActor(i)
	}
	fill := func(b []byte) {
		for i := range b {
			b[i] = byte(g.next() >> 24)
		}
	}
	u.cnrs = make([]cid.ID, 2)
	u.oids = make([]oid.ID, 3)
	for i := range u.cnrs {
		fill(u.cnrs[i][:])
	}
	for i := range u.oids {
		fill(u.oids[i][:])
	}
	w := &tworld{epoch: 10, nns: map[string][]util.Uint160{}, cnrs: map[cid.ID]container.Container{}, n3reg: map[string]bool{}}
	clk := &clock{t: time.Unix(1_700_000_000, 0)}
	cache := isessions.NewObjectSessionsCache(1000)
	svc := aclsvc.New(tChain{w}, cache, aclsvc.WithContainerSource(tCnrs{w}), aclsvc.WithNetmapper(tNetmap{w}),
		aclsvc.WithIRFetcher(tIR{}), aclsvc.WithTimeProvider(clk), aclsvc.WithLogger(zap.NewNop()))
	reset := func() { cache.ResetCache(); svc.ResetTokenCheckCache() }
	enc := json.NewEncoder(os.Stdout)
	ctx := context.Background()

	setNNS := func(c *tokCase, x *indexer) {
		// n1 contains two random actors, n2 one
		w.nns = map[string][]util.Uint160{}
		c.NNS = [][2]int{}
		for ni, name := range u.names {
			for k := 2 - ni; k > 0; k-- {
				a := pick(g, u.actors[1:])
				w.nns[name] = append(w.nns[name], a.id.ScriptHash())
				c.NNS = append(c.NNS, [2]int{ni + 1, a.idx})
			}
		}
	}

	for i := 0; i < n; i++ {
		w.epoch = 8 + uint64(g.n(5))
		w.n3ok = g.p(60)
		w.n3reg = map[string]bool{}
		reset() // as the node does on a new-epoch event; NOT repeated between a token and its mutation
		now := uint64(1_700_000_000 + g.n(1000))
		clk.t = time.Unix(int64(now), int64(g.n(400))*1e6) // < 0.5 s: rounds down to `now`
		good := g.p(65)
		mut := ""
		switch i % 3 {
		case 0: // ---- v1
			rq := v1Req{verb: session.ObjectVerb(1 + g.n(7)), cnr: pick(g, u.cnrs), obj: pick(g, u.oids)}
			if g.p(20) {
				rq.obj = oid.ID{}
			}
			dev := ""
			if g.p(45) {
				dev = pick(g, v1Devs)
			}
			m := genV1(g, w, u, w.epoch, rq, dev, 0)
			base := false
			if dev == "" {
				_, err := svc.VerifySessionV1TokenMessage(m, rq.verb, rq.cnr, rq.obj)
				base = err == nil
			}
			if g.p(40) {
				mut = pick(g, v1Muts)
				if m = mutateV1(g, u, m, mut); m == nil {
					continue
				}
			}
			x := newIndexer(u, append(cidsOfMessage(m), rq.cnr))
			c := tokCase{Kind: "v1", Epoch: w.epoch, Now: now, ReqVerb: uint32(rq.verb), Mut: mut, Base: base && mut != ""}
			f, wf, ok, n3 := x.v1Facts(w, m)
			c.V1, c.WF, c.SigOK, c.N3OK = &f, wf, []bool{ok}, []bool{n3}
			c.ReqCnr = x.cids[rq.cnr]
			if !rq.obj.IsZero() {
				c.ReqObj = x.oids[rq.obj]
			}
			c.KU, c.NNS = x.kuList(), [][2]int{}
			_, err := svc.VerifySessionV1TokenMessage(m, rq.verb, rq.cnr, rq.obj)
			c.Res = resClass(err)
			_ = enc.Encode(c)
		case 1: // ---- bearer
			owner := pick(g, u.actors[1:4])
			sender := pick(g, u.actors[1:])
			reqCnr := u.cnrs[g.n(2)]
			var cn container.Container
			cn.SetOwner(owner.id)
			w.cnrs = map[cid.ID]container.Container{reqCnr: cn}
			var bt bearer.Token
			var tb eacl.Table
			iss := owner
			dev := ""
			if g.p(45) {
				dev = pick(g, []string{"nbf_future", "iat_future", "expired", "owner_other", "cid_other", "user_other", "issuer_other", "random"})
			}
			good = dev == ""
			if g.p(60) {
				tb.SetCID(reqCnr)
			}
			if g.p(60) {
				bt.ForUser(sender.id)
			}
			bt.SetIat(w.epoch - uint64(g.n(3)))
			bt.SetNbf(w.epoch - uint64(g.n(3)))
			bt.SetExp(w.epoch + uint64(g.n(3)))
			r5a, r5b, r5c, r2 := g.n(5), g.n(5), g.n(5), g.n(2)
			signer := iss
			switch dev {
			case "nbf_future":
				bt.SetNbf(w.epoch + 1 + uint64(r2))
				bt.SetExp(w.epoch + 3)
			case "iat_future":
				bt.SetIat(w.epoch + 1 + uint64(r2))
				bt.SetExp(w.epoch + 3)
			case "expired":
				bt.SetExp(w.epoch - 1 - uint64(r2))
			case "owner_other":
				iss = u.actors[1+(owner.idx%5)]
				signer = iss
			case "cid_other":
				for _, c := range u.cnrs {
					if c != reqCnr {
						tb.SetCID(c)
					}
				}
			case "user_other":
				bt.ForUser(u.actors[1+(sender.idx%5)].id)
			case "issuer_other":
				signer = u.actors[1+(owner.idx%5)]
			case "random":
				bt.SetIat(w.epoch - 2 + uint64(r5a))
				bt.SetNbf(w.epoch - 2 + uint64(r5b))
				bt.SetExp(w.epoch - 2 + uint64(r5c))
			}
			bt.SetEACLTable(tb)
			if g.p(10) {
				inv, ver, id := n3Witness(g)
				bt.SetIssuer(id)
				bt.AttachSignature(neofscrypto.NewN3Signature(inv, ver))
				w.n3Register(id, bt.SignedData(), inv, ver)
			} else {
				bt.SetIssuer(iss.id)
				var sg neofscrypto.Signature
				if err := sg.Calculate(schemeSigners[g.n(3)](signer), bt.SignedData()); err != nil {
					panic(err)
				}
				bt.AttachSignature(sg)
			}
			m := bt.ProtoMessage()
			hreq := &protoobject.HeadRequest{Body: &protoobject.HeadRequest_Body{Address: oid.NewAddress(reqCnr, u.oids[0]).ProtoMessage()},
				MetaHeader: &protosession.RequestMetaHeader{Version: version.Current().ProtoMessage(), Ttl: 2}}
			hreq.VerifyHeader, _ = neofscrypto.SignRequestWithBuffer(neofsecdsa.Signer(sender.key), hreq, nil)
			run := func(m *protoacl.BearerToken) int {
				tok, err := svc.VerifyBearerTokenMessage(m)
				if err != nil {
					return 2
				}
				_, err = svc.HeadRequestToInfo(ctx, hreq, reqCnr, common.RequestTokens{Bearer: &tok})
				if err != nil {
					return 2
				}
				return 0
			}
			base := good && run(m) == 0
			if g.p(40) {
				mut = pick(g, bMuts)
				if m = mutateB(g, u, m, mut); m == nil {
					continue
				}
			}
			x := newIndexer(u, append(cidsOfMessage(m), reqCnr))
			c := tokCase{Kind: "bearer", Epoch: w.epoch, Now: now, Mut: mut, Base: base && mut != "", Owner: owner.idx, Sender: sender.idx}
			f, wf, ok, n3 := x.bFacts(w, m)
			c.B, c.WF, c.SigOK, c.N3OK = &f, wf, []bool{ok}, []bool{n3}
			c.ReqCnr = x.cids[reqCnr]
			c.KU, c.NNS = x.kuList(), [][2]int{}
			c.Res = run(m)
			_ = enc.Encode(c)
			if c.Res == 0 {
				// the same token one epoch after its expiration (cache reset by the epoch tick)
				w.epoch = f.Life.Exp + 1
				reset()
				c.Epoch, c.Mut, c.Base = w.epoch, "", false
				c.Res = run(m)
				_ = enc.Encode(c)
			}
		default: // ---- v2
			rq := v2Req{verb: sessionv2.Verb(1 + g.n(7)), cnr: pick(g, u.cnrs)}
			depth := 1 + g.n(3)
			if g.p(6) {
				depth = 5 + g.n(2)
			}
			good = g.p(85)
			dev := ""
			if g.p(40) {
				dev = pick(g, []string{"verbs_unsorted", "ctx_dup", "extra_verb", "life_outside", "version", "final", "nbf_after_exp", "appdata", "wrong_issuer",
					"nbf_future", "iat_future", "expired", "verb_missing", "nbf_future", "iat_future", "expired", "verb_missing"})
			}
			c := tokCase{Kind: "v2", Epoch: w.epoch, Now: now, ReqVerb: uint32(rq.verb)}
			m := genV2(g, w, u, now, rq, good, depth, dev)
			// NNS: n1 holds every issuer of the chain with probability, so that NNS subjects resolve
			x0 := newIndexer(u, nil)
			setNNS(&c, x0)
			if g.p(70) {
				for cur := m; cur != nil; cur = cur.Origin {
					var id user.ID
					if id.FromProtoMessage(cur.GetBody().GetIssuer()) == nil {
						w.nns["n1"] = append(w.nns["n1"], id.ScriptHash())
						c.NNS = append(c.NNS, [2]int{1, x0.user(id)})
					}
				}
			}
			base := false
			if good && dev == "" {
				_, err := svc.VerifySessionTokenMessage(m, rq.verb, rq.cnr)
				base = err == nil
			}
			if g.p(50) {
				mut = pick(g, v2Muts)
				if m = mutateV2(g, u, m, mut); m == nil {
					continue
				}
			}
			x := newIndexer(u, append(cidsOfMessage(m), rq.cnr))
			// keep the user numbering of the NNS facts
			for id, i := range x0.users {
				x.users[id] = i
			}
			c.Mut, c.Base = mut, base && mut != ""
			fs, wf, oks, n3s := x.v2Facts(w, m)
			c.V2, c.WF, c.SigOK, c.N3OK = fs, wf, oks, n3s
			c.ReqCnr = x.cids[rq.cnr]
			c.KU = x.kuList()
			_, err := svc.VerifySessionTokenMessage(m, rq.verb, rq.cnr)
			c.Res = resClass(err)
			_ = enc.Encode(c)
			if c.Res == 0 && len(fs) > 0 {
				// the same (now cached) token at its last valid second and one second later
				for _, t := range []uint64{fs[0].Life.Exp, fs[0].Life.Exp + 1, fs[0].Life.Nbf, fs[0].Life.Nbf - 1} {
					clk.t = time.Unix(int64(t), 0)
					c.Now, c.Mut, c.Base = t, "", false
					_, err := svc.VerifySessionTokenMessage(m, rq.verb, rq.cnr)
					c.Res = resClass(err)
					_ = enc.Encode(c)
				}
			}
		}
	}

	// ---- every (token verb, request verb) pair once, everything else valid
	for tv := 1; tv <= 7; tv++ {
		for rv := 1; rv <= 7; rv++ {
			w.epoch, w.n3ok, w.n3reg = 10, true, map[string]bool{}
			reset()
			rq := v1Req{verb: session.ObjectVerb(rv), cnr: pick(g, u.cnrs), obj: pick(g, u.oids)}
			m := genV1(g, w, u, w.epoch, rq, "", session.ObjectVerb(tv))
			x := newIndexer(u, append(cidsOfMessage(m), rq.cnr))
			c := tokCase{Kind: "v1", Epoch: w.epoch, ReqVerb: uint32(rq.verb), Mut: "", NNS: [][2]int{}}
			f, wf, ok, n3 := x.v1Facts(w, m)
			c.V1, c.WF, c.SigOK, c.N3OK = &f, wf, []bool{ok}, []bool{n3}
			c.ReqCnr, c.ReqObj = x.cids[rq.cnr], x.oids[rq.obj]
			c.KU = x.kuList()
			_, err := svc.VerifySessionV1TokenMessage(m, rq.verb, rq.cnr, rq.obj)
			c.Res = resClass(err)
			_ = enc.Encode(c)
		}
	}

	// ---- histories over the v1 result cache: verifications of a few tokens interleaved with epoch
	// ticks with and without the cache reset the node performs on a new-epoch event
	nh := n / 40
	for h := 0; h < nh; h++ {
		reset()
		w.epoch = 10
		w.n3ok = false
		c := tokCase{Kind: "hist", Epoch: w.epoch, NNS: [][2]int{}, SigOK: []bool{}, N3OK: []bool{}}
		rq := v1Req{verb: session.VerbObjectGet, cnr: u.cnrs[0], obj: u.oids[0]}
		type ht struct {
			m  *protosession.SessionToken
			id int
		}
		var toks []ht
		for k := 0; k < 3; k++ {
			var t session.Object
			t.SetID(uuid.New())
			t.SetAuthKey((*neofsecdsa.PublicKey)(&u.actors[1].key.PublicKey))
			t.BindContainer(rq.cnr)
			t.ForVerb(rq.verb)
			t.SetIat(9)
			t.SetNbf(uint64(9 + g.n(4)))
			t.SetExp(uint64(10 + g.n(4)))
			a := pick(g, u.actors[1:])
			t.SetIssuer(a.id)
			_ = t.SetSignature(schemeSigners[g.n(3)](a))
			m := t.ProtoMessage()
			if g.p(20) {
				m.Signature.Sign[3] ^= 1
			}
			toks = append(toks, ht{m, k + 1})
		}
		x := newIndexer(u, []cid.ID{rq.cnr})
		for s := 0; s < 12; s++ {
			if g.p(30) {
				ev := histEv{Tick: true, Epoch: w.epoch + uint64(g.n(2)), Reset: g.p(65)}
				if g.p(10) && w.epoch > 9 {
					ev.Epoch = w.epoch - 1
				}
				w.epoch = ev.Epoch
				if ev.Reset {
					reset()
				}
				c.Events = append(c.Events, ev)
				c.Out = append(c.Out, -1)
				continue
			}
			t := pick(g, toks)
			f, wf, ok, _ := x.v1Facts(w, t.m)
			ev := histEv{ID: t.id, WF: wf, V1: &f, SigOK: ok, ReqVerb: uint32(rq.verb), ReqCnr: x.cids[rq.cnr], ReqObj: x.oids[rq.obj]}
			_, err := svc.VerifySessionV1TokenMessage(t.m, rq.verb, rq.cnr, rq.obj)
			c.Events = append(c.Events, ev)
			c.Out = append(c.Out, resClass(err))
		}
		c.KU = x.kuList()
		_ = enc.Encode(c)
	}
}

func tokConsts() {
	out := map[string]any{
		"ecdsa_schemes": []uint64{uint64(neofscrypto.ECDSA_SHA512), uint64(neofscrypto.ECDSA_DETERMINISTIC_SHA256), uint64(neofscrypto.ECDSA_WALLETCONNECT)},
		"scheme_n3":     uint64(neofscrypto.N3),
		"verb_put":      uint64(session.VerbObjectPut), "verb_get": uint64(session.VerbObjectGet), "verb_head": uint64(session.VerbObjectHead),
		"verb_search": uint64(session.VerbObjectSearch), "verb_delete": uint64(session.VerbObjectDelete), "verb_range": uint64(session.VerbObjectRange),
		"verb_rangehash": uint64(session.VerbObjectRangeHash),
		"v2_same_verbs": sessionv2.VerbObjectPut == sessionv2.Verb(session.VerbObjectPut) && sessionv2.VerbObjectGet == sessionv2.Verb(session.VerbObjectGet) &&
			sessionv2.VerbObjectHead == sessionv2.Verb(session.VerbObjectHead) && sessionv2.VerbObjectSearch == sessionv2.Verb(session.VerbObjectSearch) &&
			sessionv2.VerbObjectDelete == sessionv2.Verb(session.VerbObjectDelete) && sessionv2.VerbObjectRange == sessionv2.Verb(session.VerbObjectRange),
		"max_subjects": sessionv2.MaxSubjectsPerToken, "max_contexts": sessionv2.MaxContextsPerToken, "max_verbs": sessionv2.MaxVerbsPerContext,
		"max_depth": sessionv2.MaxDelegationDepth, "max_appdata": sessionv2.MaxAppDataSize,
	}
	_ = json.NewEncoder(os.Stdout).Encode(out)
}
