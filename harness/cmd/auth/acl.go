//go:build verif

package main

// C28: the real object Server (signature verification, token handling, acl/v2.Service,
// acl.Checker, SDK eACL validator) behind a real gRPC server is driven with requests
// constructed from generated facts; recording wrappers around the ACL components and fake
// object handlers give the projected observables.

import (
	"context"
	"crypto/ecdsa"
	"encoding/json"
	"errors"
	"io"
	"net"
	"os"
	"slices"
	"strconv"
	"strings"
	"sync"
	"time"

	"github.com/nspcc-dev/neo-go/pkg/core/block"
	"github.com/nspcc-dev/neo-go/pkg/core/transaction"
	"github.com/nspcc-dev/neo-go/pkg/crypto/keys"
	"github.com/nspcc-dev/neo-go/pkg/neorpc/result"
	"github.com/nspcc-dev/neo-go/pkg/smartcontract/trigger"
	"github.com/nspcc-dev/neo-go/pkg/util"
	"github.com/nspcc-dev/neo-go/pkg/vm/vmstate"
	iec "github.com/nspcc-dev/neofs-node/internal/ec"
	isessions "github.com/nspcc-dev/neofs-node/internal/sessions"
	clientcore "github.com/nspcc-dev/neofs-node/pkg/core/client"
	objectcore "github.com/nspcc-dev/neofs-node/pkg/core/object"
	"github.com/nspcc-dev/neofs-node/pkg/local_object_storage/engine"
	objectsvc "github.com/nspcc-dev/neofs-node/pkg/services/object"
	aclchk "github.com/nspcc-dev/neofs-node/pkg/services/object/acl"
	aclsvc "github.com/nspcc-dev/neofs-node/pkg/services/object/acl/v2"
	"github.com/nspcc-dev/neofs-node/pkg/services/object/common"
	deletesvc "github.com/nspcc-dev/neofs-node/pkg/services/object/delete"
	getsvc "github.com/nspcc-dev/neofs-node/pkg/services/object/get"
	putsvc "github.com/nspcc-dev/neofs-node/pkg/services/object/put"
	"github.com/nspcc-dev/neofs-sdk-go/bearer"
	"github.com/nspcc-dev/neofs-sdk-go/client"
	apistatus "github.com/nspcc-dev/neofs-sdk-go/client/status"
	"github.com/nspcc-dev/neofs-sdk-go/container"
	"github.com/nspcc-dev/neofs-sdk-go/container/acl"
	cid "github.com/nspcc-dev/neofs-sdk-go/container/id"
	cidtest "github.com/nspcc-dev/neofs-sdk-go/container/id/test"
	neofscrypto "github.com/nspcc-dev/neofs-sdk-go/crypto"
	neofsecdsa "github.com/nspcc-dev/neofs-sdk-go/crypto/ecdsa"
	neofscryptotest "github.com/nspcc-dev/neofs-sdk-go/crypto/test"
	"github.com/nspcc-dev/neofs-sdk-go/eacl"
	"github.com/nspcc-dev/neofs-sdk-go/netmap"
	"github.com/nspcc-dev/neofs-sdk-go/object"
	oid "github.com/nspcc-dev/neofs-sdk-go/object/id"
	oidtest "github.com/nspcc-dev/neofs-sdk-go/object/id/test"
	protoacl "github.com/nspcc-dev/neofs-sdk-go/proto/acl"
	protoobject "github.com/nspcc-dev/neofs-sdk-go/proto/object"
	iprotobuf "github.com/nspcc-dev/neofs-sdk-go/proto/protobuf"
	protosession "github.com/nspcc-dev/neofs-sdk-go/proto/session"
	"github.com/nspcc-dev/neofs-sdk-go/session"
	sessionv2 "github.com/nspcc-dev/neofs-sdk-go/session/v2"
	"github.com/nspcc-dev/neofs-sdk-go/stat"
	"github.com/nspcc-dev/neofs-sdk-go/user"
	"github.com/nspcc-dev/neofs-sdk-go/version"
	"go.uber.org/zap"
	"google.golang.org/grpc"
	"google.golang.org/grpc/credentials/insecure"
	"google.golang.org/grpc/test/bufconn"
	"google.golang.org/protobuf/proto"
)

const curEpoch = 10

// ---- actors -------------------------------------------------------------------------

type actor struct {
	idx    int
	key    ecdsa.PrivateKey
	signer user.Signer
	id     user.ID
	pub    []byte
}

func newActor(idx int) *actor {
	k := neofscryptotest.ECDSAPrivateKey()
	s := user.NewAutoIDSigner(k)
	return &actor{idx: idx, key: k, signer: s, id: s.UserID(), pub: (*keys.PublicKey)(&k.PublicKey).Bytes()}
}

// ---- facts (mirror of coq/Auth/ACL.v) ---------------------------------------------------

type hdrF [2]string

type subjF struct {
	K string `json:"k"` // "k" key, "a" account, "j" junk
	I int    `json:"i"`
}
type targetF struct {
	Role  uint32  `json:"role"`
	Subjs []subjF `json:"subjs"`
}
type filterF struct {
	From  uint32 `json:"from"`
	Key   string `json:"key"`
	M     uint32 `json:"m"`
	Value string `json:"value"`
}
type recordF struct {
	Op      uint32    `json:"op"`
	Action  uint32    `json:"action"`
	Targets []targetF `json:"targets"`
	Filters []filterF `json:"filters"`
}
type bearerF struct {
	Valid  bool      `json:"valid"`
	Why    string    `json:"why"` // how an invalid token was produced (not an observable)
	Issuer int       `json:"issuer"`
	Cid    int       `json:"cid"`  // 0 = unbound
	User   int       `json:"user"` // 0 = anyone
	Table  []recordF `json:"table"`
}
type storedF struct {
	Kind  string    `json:"kind"` // notfound | err | table
	Table []recordF `json:"table"`
}
type obsF struct {
	Out     int    `json:"out"` // 0 served 1 token 2 bearer/request 3 basic 4 eacl 5 recheck
	Code    uint32 `json:"code"`
	Reached bool   `json:"reached"`
	Data    bool   `json:"data"`
	Role    int    `json:"role"` // 0 = classification not observed
	RPCErr  bool   `json:"rpc_err"`
}
type caseF struct {
	Kind     string   `json:"kind"`
	Tomb     bool     `json:"tomb"`
	TTL1     bool     `json:"ttl1"`
	Cnr      int      `json:"cnr"`
	Basic    uint32   `json:"basic"`
	Owner    int      `json:"owner"`
	Author   int      `json:"author"`
	IsIR     bool     `json:"is_ir"`
	IsCnr    bool     `json:"is_cnr"`
	ObjOwner int      `json:"obj_owner"`
	Bearer   *bearerF `json:"bearer"`
	Stored   storedF  `json:"stored"`
	XHdrs    []hdrF   `json:"xhdrs"`
	AddrHdrs []hdrF   `json:"addr_hdrs"`
	ObjHdrs  []hdrF   `json:"obj_hdrs"`
	Binary   bool     `json:"binary"` // GET: header delivered as binary (storage path) before the writer
	Forced   bool     `json:"forced"` // from the deterministic table-selection matrix
	// annotations for the input-distribution histograms (not observables, not model inputs)
	BearerBit  bool `json:"bearer_bit"` // basic ACL allows bearer rules for the effective operation
	Extendable bool `json:"extendable"`
	Obs      obsF     `json:"obs"`
}

// ---- environment fakes ------------------------------------------------------------------------

type world struct {
	mu       sync.Mutex
	cnrs     map[cid.ID]container.Container
	eacls    map[cid.ID]eacl.Table
	eaclErr  bool
	irKeys   [][]byte
	cnrKeys  [][]byte
	obj      *object.Object // object the fake handlers return
	binary   bool
	effects  []string
	bearerEr bool
	infoErr  bool
	basic    *bool
	sticky   *bool
	eaclRes  []int
	role     acl.Role
}

func (w *world) effect(s string) { w.mu.Lock(); w.effects = append(w.effects, s); w.mu.Unlock() }

type cnrSrc struct{ w *world }

func (c cnrSrc) Get(id cid.ID) (container.Container, error) {
	if cn, ok := c.w.cnrs[id]; ok {
		return cn, nil
	}
	return container.Container{}, apistatus.ErrContainerNotFound
}

type eaclSrc struct{ w *world }

func (e eaclSrc) GetEACL(id cid.ID) (eacl.Table, error) {
	if e.w.eaclErr {
		return eacl.Table{}, errors.New("eACL source is down")
	}
	if t, ok := e.w.eacls[id]; ok {
		return t, nil
	}
	return eacl.Table{}, apistatus.ErrEACLNotFound
}

type irSrc struct{ w *world }

func (i irSrc) InnerRingKeys() [][]byte { return i.w.irKeys }

type aclChain struct{ w *world }

func (aclChain) InvokeContainedScript(*transaction.Transaction, *block.Header, *trigger.Type, *bool) (*result.Invoke, error) {
	return &result.Invoke{State: vmstate.Fault.String()}, nil
}
func (a aclChain) InContainerInLastTwoEpochs(_ cid.ID, pub []byte) (bool, error) {
	for _, k := range a.w.cnrKeys {
		if string(k) == string(pub) {
			return true, nil
		}
	}
	return false, nil
}
func (aclChain) HasUserInNNS(string, util.Uint160) (bool, error) { return false, nil }

type netmapper struct{}

func (netmapper) GetNetMapByEpoch(uint64) (*netmap.NetMap, error) { return nil, errors.New("unused") }
func (netmapper) Epoch() (uint64, error)                          { return curEpoch, nil }
func (netmapper) NetMap() (*netmap.NetMap, error)                 { return nil, errors.New("unused") }
func (netmapper) ServerInContainer(cid.ID) (bool, error)          { return true, nil }
func (netmapper) GetEpochBlock(uint64) (uint32, error)            { return 1, nil }
func (netmapper) GetEpochBlockByTime(uint32) (uint32, error)      { return 1, nil }

type clock struct{ t time.Time }

func (c *clock) Now() time.Time { return c.t }

type hdrSource struct{}

func (hdrSource) Head(context.Context, oid.Address) (*object.Object, error) {
	return nil, errors.New("no such object")
}

// server-side FSChain
type srvChain struct{ w *world }

func (f srvChain) ForEachContainerNodePublicKey(cid.ID, func([]byte) bool) error { return nil }
func (f srvChain) ForEachContainerNodePublicKeyInLastTwoEpochs(cid.ID, func([]byte) bool) error {
	return nil
}
func (f srvChain) SelectContainerNodes(cid.ID) ([][]netmap.NodeInfo, []uint, []iec.Rule, error) {
	f.w.effect("chain.SelectContainerNodes")
	return nil, nil, nil, errors.New("fake")
}
func (f srvChain) Get(id cid.ID) (container.Container, error) { return cnrSrc{f.w}.Get(id) }
func (srvChain) IsOwnPublicKey([]byte) bool                   { return false }
func (srvChain) CurrentEpoch() uint64                         { return curEpoch }
func (srvChain) CurrentBlock() uint32                         { return 100 }
func (srvChain) CurrentEpochDuration() uint64                 { return 240 }
func (srvChain) LocalNodeUnderMaintenance() bool              { return false }
func (srvChain) InvokeContainedScript(*transaction.Transaction, *block.Header, *trigger.Type, *bool) (*result.Invoke, error) {
	return &result.Invoke{State: vmstate.Fault.String()}, nil
}

type storageFake struct{ w *world }

func (s storageFake) SearchObjects(context.Context, cid.ID, []objectcore.SearchFilter, []string, *objectcore.SearchCursor, uint16) ([]client.SearchResultItem, []byte, error) {
	s.w.effect("storage.SearchObjects")
	return nil, nil, nil
}
func (s storageFake) VerifyAndStoreObjectLocally(context.Context, object.Object) error {
	s.w.effect("storage.VerifyAndStoreObjectLocally")
	return nil
}
func (storageFake) GetSessionPrivateKey(user.ID) (ecdsa.PrivateKey, error) {
	return ecdsa.PrivateKey{}, apistatus.ErrSessionTokenNotFound
}
func (storageFake) GetSessionV2PrivateKey([]sessionv2.Target) (ecdsa.PrivateKey, error) {
	return ecdsa.PrivateKey{}, apistatus.ErrSessionTokenNotFound
}

// fake object handlers: GET/HEAD deliver the configured object's header through the writer
// (resp. the binary-header interceptor) the Server installed
type handlersFake struct{ w *world }

func (h handlersFake) Get(_ context.Context, p getsvc.Prm) error {
	h.w.effect("handlers.Get")
	if h.w.binary {
		if fn := p.VerifInterceptHeaderBinary(); fn != nil {
			hm := h.w.obj.ProtoMessage().Header
			b := make([]byte, hm.MarshaledSize())
			hm.MarshalStable(b)
			if err := fn(b); err != nil {
				return err
			}
		}
	}
	return p.VerifObjectWriter().WriteHeader(h.w.obj)
}
func (h handlersFake) Put(context.Context) (*putsvc.Streamer, error) {
	return putsvc.VerifBusyStreamer(), nil
}
func (h handlersFake) Head(_ context.Context, p getsvc.HeadPrm) error {
	h.w.effect("handlers.Head")
	if h.w.binary {
		// local storage path: the object's non-payload fields are read into the Server's buffer
		if buf, submit := p.VerifBuffer(); buf != nil && submit != nil {
			b := h.w.obj.Marshal()
			if len(b) <= len(buf) {
				submit(copy(buf, b))
				return nil
			}
		}
	}
	return p.VerifObjectWriter().WriteHeader(h.w.obj)
}
func (h handlersFake) Delete(context.Context, deletesvc.Prm) error {
	h.w.effect("handlers.Delete")
	return errors.New("fake")
}
func (h handlersFake) GetRange(context.Context, getsvc.RangePrm) error {
	h.w.effect("handlers.GetRange")
	return errors.New("fake")
}

type clientsFake struct{}

func (clientsFake) Get(context.Context, netmap.NodeInfo) (clientcore.MultiAddressClient, error) {
	return nil, errors.New("fake")
}

type metricsFake struct{}

func (metricsFake) HandleOpExecResult(stat.Method, bool, time.Duration) {}
func (metricsFake) AddPutPayload(int)                                   {}
func (metricsFake) AddGetPayload(int)                                   {}

// recording pass-through wrappers around the real checker and the real acl/v2 service
type recChecker struct {
	in *aclchk.Checker
	w  *world
}

func (r recChecker) CheckBasicACL(i aclsvc.RequestInfo) bool {
	v := r.in.CheckBasicACL(i)
	r.w.mu.Lock()
	r.w.basic, r.w.role = &v, i.RequestRole
	r.w.mu.Unlock()
	return v
}
func (r recChecker) StickyBitCheck(i aclsvc.RequestInfo, o user.ID) bool {
	v := r.in.StickyBitCheck(i, o)
	r.w.mu.Lock()
	r.w.sticky = &v
	r.w.mu.Unlock()
	return v
}
func (r recChecker) CheckEACL(ctx context.Context, m any, c cid.ID, o oid.ID, i aclsvc.RequestInfo) error {
	err := r.in.CheckEACL(ctx, m, c, o, i)
	k := 0
	if errors.Is(err, aclsvc.ErrNotMatched) {
		k = 1
	} else if err != nil {
		k = 2
	}
	r.w.mu.Lock()
	r.w.eaclRes = append(r.w.eaclRes, k)
	r.w.mu.Unlock()
	return err
}

type recInfo struct {
	in aclsvc.Service
	w  *world
}

func (x recInfo) note(err error) {
	if err != nil {
		x.w.mu.Lock()
		x.w.infoErr = true
		x.w.mu.Unlock()
	}
}
func (x recInfo) PutRequestToInfo(ctx context.Context, r *protoobject.PutRequest, i *protoobject.PutRequest_Body_Init, c cid.ID, op acl.Op, t common.RequestTokens) (aclsvc.RequestInfo, user.ID, error) {
	ri, u, err := x.in.PutRequestToInfo(ctx, r, i, c, op, t)
	x.note(err)
	return ri, u, err
}
func (x recInfo) DeleteRequestToInfo(ctx context.Context, r *protoobject.DeleteRequest, c cid.ID, t common.RequestTokens) (aclsvc.RequestInfo, error) {
	ri, err := x.in.DeleteRequestToInfo(ctx, r, c, t)
	x.note(err)
	return ri, err
}
func (x recInfo) HeadRequestToInfo(ctx context.Context, r *protoobject.HeadRequest, c cid.ID, t common.RequestTokens) (aclsvc.RequestInfo, error) {
	ri, err := x.in.HeadRequestToInfo(ctx, r, c, t)
	x.note(err)
	return ri, err
}
func (x recInfo) GetRequestToInfo(ctx context.Context, r *protoobject.GetRequest, c cid.ID, t common.RequestTokens) (aclsvc.RequestInfo, error) {
	ri, err := x.in.GetRequestToInfo(ctx, r, c, t)
	x.note(err)
	return ri, err
}
func (x recInfo) RangeRequestToInfo(ctx context.Context, r *protoobject.GetRangeRequest, c cid.ID, t common.RequestTokens) (aclsvc.RequestInfo, error) {
	ri, err := x.in.RangeRequestToInfo(ctx, r, c, t)
	x.note(err)
	return ri, err
}
func (x recInfo) SearchV2RequestToInfo(ctx context.Context, r *protoobject.SearchV2Request, c cid.ID, t common.RequestTokens) (aclsvc.RequestInfo, error) {
	ri, err := x.in.SearchV2RequestToInfo(ctx, r, c, t)
	x.note(err)
	return ri, err
}
func (x recInfo) VerifySessionTokenMessage(m *protosession.SessionTokenV2, v sessionv2.Verb, c cid.ID) (sessionv2.Token, error) {
	return x.in.VerifySessionTokenMessage(m, v, c)
}
func (x recInfo) VerifySessionV1TokenMessage(m *protosession.SessionToken, v session.ObjectVerb, c cid.ID, o oid.ID) (session.Object, error) {
	return x.in.VerifySessionV1TokenMessage(m, v, c, o)
}
func (x recInfo) VerifyBearerTokenMessage(m *protoacl.BearerToken) (bearer.Token, error) {
	t, err := x.in.VerifyBearerTokenMessage(m)
	if err != nil {
		x.w.mu.Lock()
		x.w.bearerEr = true
		x.w.mu.Unlock()
	}
	return t, err
}

// ---- gRPC plumbing (as cmd/neofs-node/object.go registers the service) -------------

func replaceUnary[REQ any](d *grpc.ServiceDesc, method string, h func(context.Context, *REQ) any) {
	i := slices.IndexFunc(d.Methods, func(md grpc.MethodDesc) bool { return md.MethodName == method })
	d.Methods[i].Handler = func(_ any, ctx context.Context, dec func(any) error, _ grpc.UnaryServerInterceptor) (any, error) {
		req := new(REQ)
		if err := dec(req); err != nil {
			return nil, err
		}
		return h(ctx, req), nil
	}
}

func dial(srv *objectsvc.Server, w *world) (protoobject.ObjectServiceClient, func()) {
	lis := bufconn.Listen(1 << 20)
	rcv := func(where string) {
		if p := recover(); p != nil {
			w.effect("PANIC:" + where)
		}
	}
	gs := grpc.NewServer(grpc.ForceServerCodecV2(iprotobuf.BufferedCodec{}),
		grpc.ChainUnaryInterceptor(func(ctx context.Context, req any, info *grpc.UnaryServerInfo, h grpc.UnaryHandler) (resp any, err error) {
			defer rcv(info.FullMethod)
			return h(ctx, req)
		}),
		grpc.ChainStreamInterceptor(func(s any, ss grpc.ServerStream, info *grpc.StreamServerInfo, h grpc.StreamHandler) (err error) {
			defer rcv(info.FullMethod)
			return h(s, ss)
		}))
	d := protoobject.ObjectService_ServiceDesc
	d.Methods = slices.Clone(protoobject.ObjectService_ServiceDesc.Methods)
	replaceUnary(&d, "Head", func(ctx context.Context, req *protoobject.HeadRequest) any {
		defer rcv("HeadBuffered")
		return srv.HeadBuffered(ctx, req)
	})
	replaceUnary(&d, "SearchV2", func(ctx context.Context, req *protoobject.SearchV2Request) any {
		defer rcv("SearchV2Buffered")
		return srv.SearchV2Buffered(ctx, req)
	})
	gs.RegisterService(&d, srv)
	go func() { _ = gs.Serve(lis) }()
	c, err := grpc.NewClient("localhost:8080",
		grpc.WithContextDialer(func(ctx context.Context, _ string) (net.Conn, error) { return lis.DialContext(ctx) }),
		grpc.WithTransportCredentials(insecure.NewCredentials()))
	if err != nil {
		panic(err)
	}
	return protoobject.NewObjectServiceClient(c), func() { _ = c.Close(); gs.Stop() }
}

// ---- generation ------------------------------------------------------------------------------

var hdrKeys = []string{"k1", "k2", "a1", "a2"}
var hdrVals = []string{"1", "5", "10", "x", "-3", "+7", "007", ""}

type universe struct {
	actors []*actor // index 1..5: owner, alice, bob, irnode, cnrnode ; index 0 unused
	cnrs   []cid.ID // index 1,2
	oids   []oid.ID
}

func (u *universe) sysKeys() []string {
	return []string{eacl.FilterObjectID, eacl.FilterObjectContainerID, eacl.FilterObjectOwnerID, eacl.FilterObjectPayloadSize,
		eacl.FilterObjectCreationEpoch, eacl.FilterObjectType, eacl.FilterObjectVersion}
}

func genTable(g *rng, u *universe, likelyOp uint32, likelyRole eacl.Role, objVals []string, objHdrs []hdrF) []recordF {
	n := g.n(4)
	if g.p(15) {
		n = 0
	}
	rs := make([]recordF, 0, n)
	for i := 0; i < n; i++ {
		var r recordF
		r.Op = likelyOp
		if g.p(15) {
			r.Op = uint32(g.n(8))
		}
		switch x := g.n(20); {
		case x < 7:
			r.Action = uint32(eacl.ActionAllow)
		case x < 18:
			r.Action = uint32(eacl.ActionDeny)
		case x < 19:
			r.Action = 0
		default:
			r.Action = 3
		}
		nt := 1 + g.n(2)
		if g.p(5) {
			nt = 0
		}
		for j := 0; j < nt; j++ {
			var t targetF
			t.Role = uint32(g.n(4))
			if g.p(40) {
				t.Role = uint32(pick(g, []eacl.Role{eacl.RoleUser, eacl.RoleOthers}))
			}
			if g.p(55) {
				t.Role = uint32(likelyRole)
			}
			t.Subjs = []subjF{}
			if g.p(40) {
				ns := 1 + g.n(2)
				for k := 0; k < ns; k++ {
					switch g.n(7) {
					case 0, 1, 2:
						t.Subjs = append(t.Subjs, subjF{"k", 1 + g.n(5)})
					case 3, 4, 5:
						t.Subjs = append(t.Subjs, subjF{"a", 1 + g.n(5)})
					default:
						t.Subjs = append(t.Subjs, subjF{"j", 0})
					}
				}
			}
			r.Targets = append(r.Targets, t)
		}
		if r.Targets == nil {
			r.Targets = []targetF{}
		}
		nf := g.n(3)
		if g.p(35) {
			nf = 0
		}
		r.Filters = []filterF{}
		for j := 0; j < nf; j++ {
			var f filterF
			switch x := g.n(20); {
			case x < 8:
				f.From = uint32(eacl.HeaderFromRequest)
			case x < 18:
				f.From = uint32(eacl.HeaderFromObject)
			case x < 19:
				f.From = uint32(eacl.HeaderFromService)
			default:
				f.From = 0
			}
			f.M = uint32(1 + g.n(7))
			if g.p(5) {
				f.M = uint32(pick(g, []int{0, 8}))
			}
			if f.From == uint32(eacl.HeaderFromObject) && len(objHdrs) > 0 && g.p(45) {
				// a filter about a header the object really has
				h := pick(g, objHdrs)
				f.Key, f.Value = h[0], h[1]
				f.M = uint32(pick(g, []eacl.Match{eacl.MatchStringEqual, eacl.MatchStringEqual, eacl.MatchStringNotEqual, eacl.MatchNumGE, eacl.MatchNumLE, eacl.MatchNotPresent}))
				if g.p(20) {
					f.Value = pick(g, hdrVals)
				}
			} else if f.From == uint32(eacl.HeaderFromObject) && g.p(35) {
				f.Key = pick(g, u.sysKeys())
				if g.p(70) && len(objVals) > 0 {
					f.Value = pick(g, objVals)
				} else {
					f.Value = pick(g, hdrVals)
				}
			} else {
				f.Key = pick(g, hdrKeys)
				f.Value = pick(g, hdrVals)
			}
			r.Filters = append(r.Filters, f)
		}
		rs = append(rs, r)
	}
	return rs
}

func (u *universe) buildTable(rs []recordF, bound *cid.ID) eacl.Table {
	recs := make([]eacl.Record, 0, len(rs))
	for _, r := range rs {
		var ts []eacl.Target
		for _, t := range r.Targets {
			var tg eacl.Target
			tg.SetRole(eacl.Role(t.Role))
			var raw [][]byte
			for _, s := range t.Subjs {
				switch s.K {
				case "k":
					raw = append(raw, slices.Clone(u.actors[s.I].pub))
				case "a":
					raw = append(raw, slices.Clone(u.actors[s.I].id[:]))
				default:
					raw = append(raw, []byte("junk-subj!"))
				}
			}
			if raw != nil {
				tg.SetRawSubjects(raw)
			}
			ts = append(ts, tg)
		}
		var fs []eacl.Filter
		for _, f := range r.Filters {
			fs = append(fs, eacl.ConstructFilter(eacl.FilterHeaderType(f.From), f.Key, eacl.Match(f.M), f.Value))
		}
		recs = append(recs, eacl.ConstructRecord(eacl.Action(r.Action), eacl.Operation(r.Op), ts, fs...))
	}
	t := eacl.ConstructTable(recs)
	if bound != nil {
		t.SetCID(*bound)
	}
	return t
}

// deterministic part of the stream: for every operation and both user roles, the conjunction on
// which the choice of the applicable table hinges -- extendable basic ACL that allows the operation
// for the role, bearer rules for exactly this operation allowed / NOT allowed, a stored table and a
// validly owner-issued bearer table that decide the request in opposite ways (stored denies and
// bearer allows, and the mirror image); for GET/HEAD also with the deciding rule about a header of
// the returned object, so that the table is chosen again at header time.
type forcedACL struct {
	kind       string
	tomb       bool
	author     int  // 1 owner (eACL role user), 2 others
	storedDeny bool // stored table denies and the bearer table allows; false: the mirror image
	bearerBit  bool // bearer rules allowed for the operation in the basic ACL
	hdr        bool // the deciding rule filters on a header of the returned object (GET/HEAD)
	sticky     bool
	bcid       int // bearer token bound to the container (1) or unbound (0)
	buser      bool
}

func forcedACLMatrix() []forcedACL {
	var res []forcedACL
	k := 0
	for _, kind := range []string{"get", "head", "put", "put+tomb", "delete", "search", "range"} {
		for _, author := range []int{2, 1} {
			for _, storedDeny := range []bool{true, false} {
				for _, bit := range []bool{false, true} {
					hdrs := []bool{false}
					if kind == "get" || kind == "head" {
						hdrs = []bool{false, true}
					}
					for _, hdr := range hdrs {
						k++
						res = append(res, forcedACL{kind: strings.TrimSuffix(kind, "+tomb"), tomb: strings.HasSuffix(kind, "+tomb"), author: author,
							storedDeny: storedDeny, bearerBit: bit, hdr: hdr, sticky: k%3 == 0, bcid: k % 2, buser: k%4 < 2})
					}
				}
			}
		}
	}
	return res
}

func aclMain(args []string) {
	n := 900
	if thorough() {
		n = 6000
	}
	if len(args) > 0 {
		n, _ = strconv.Atoi(args[0])
	}
	g := &rng{s: seed()*0x1000193 + 28}
	u := &universe{actors: make([]*actor, 6)}
	for i := 1; i <= 5; i++ {
		u.actors[i] = newActor(i)
	}
	u.cnrs = []cid.ID{{}, cidtest.ID(), cidtest.ID()}
	u.oids = []oid.ID{oidtest.ID(), oidtest.ID()}

	w := &world{}
	clk := &clock{t: time.Unix(1_700_000_000, 0)}
	svc := aclsvc.New(aclChain{w}, isessions.NewObjectSessionsCache(100),
		aclsvc.WithContainerSource(cnrSrc{w}), aclsvc.WithNetmapper(netmapper{}), aclsvc.WithIRFetcher(irSrc{w}),
		aclsvc.WithTimeProvider(clk), aclsvc.WithLogger(zap.NewNop()))
	var noEngine *engine.StorageEngine
	chk := aclchk.NewChecker(new(aclchk.CheckerPrm).SetEACLSource(eaclSrc{w}).SetValidator(eacl.NewValidator()).
		SetLocalStorage(noEngine).SetHeaderSource(hdrSource{}))
	srvKey := neofscryptotest.ECDSAPrivateKey()
	srv := objectsvc.New(handlersFake{w}, srvChain{w}, storageFake{w}, nil, srvKey, metricsFake{}, recChecker{chk, w}, recInfo{svc, w}, clientsFake{}, zap.NewNop())
	cl, stop := dial(srv, w)
	defer stop()
	ctx, cancel := context.WithTimeout(context.Background(), 30*time.Minute)
	defer cancel()
	enc := json.NewEncoder(os.Stdout)

	kinds := []string{"get", "head", "put", "delete", "search", "range"}
	opOf := map[string]acl.Op{"get": acl.OpObjectGet, "head": acl.OpObjectHead, "put": acl.OpObjectPut, "delete": acl.OpObjectDelete,
		"search": acl.OpObjectSearch, "range": acl.OpObjectRange}

	forced := forcedACLMatrix()
	if len(args) > 1 && args[1] == "random-only" {
		forced = nil
	}
	for i := 0; i < n+len(forced); i++ {
		var c caseF
		var f *forcedACL
		if i < len(forced) {
			f = &forced[i]
			c.Forced = true
		}
		c.Kind = kinds[g.n(len(kinds))]
		c.Tomb = c.Kind == "put" && g.p(35)
		ttl := uint32(pick(g, []int{0, 1, 1, 1, 2, 2, 3}))
		if f != nil {
			c.Kind, c.Tomb = f.kind, f.tomb
		}
		if c.Kind == "search" && ttl == 0 {
			ttl = 2 // SearchV2 refuses a zero TTL after the access checks: "served" would not be observable
		}
		c.TTL1 = ttl == 1
		c.Cnr, c.Owner = 1, 1
		c.Author = pick(g, []int{1, 1, 1, 2, 2, 2, 2, 3, 4, 4, 5, 5, 5})
		if f != nil {
			c.Author = f.author
		}
		req := u.actors[c.Author]
		// inner ring / container node key sets (overlapping with users on purpose)
		irSet, cnSet := []int{4}, []int{5}
		for _, x := range []int{1, 2, 5} {
			if g.p(12) {
				irSet = append(irSet, x)
			}
		}
		for _, x := range []int{1, 2, 4} {
			if g.p(12) {
				cnSet = append(cnSet, x)
			}
		}
		if g.p(10) {
			irSet = nil
		}
		if g.p(10) {
			cnSet = nil
		}
		if f != nil {
			irSet, cnSet = []int{4}, []int{5}
		}
		c.IsIR, c.IsCnr = slices.Contains(irSet, c.Author), slices.Contains(cnSet, c.Author)
		w.irKeys, w.cnrKeys = nil, nil
		for _, x := range irSet {
			w.irKeys = append(w.irKeys, u.actors[x].pub)
		}
		for _, x := range cnSet {
			w.cnrKeys = append(w.cnrKeys, u.actors[x].pub)
		}

		// effective operation (only to bias the generation towards interesting masks/tables)
		likely := opOf[c.Kind]
		if c.Tomb {
			likely = acl.OpObjectDelete
		}
		// basic ACL
		mask := uint32(g.next())
		order := map[acl.Op]uint{acl.OpObjectGet: 0, acl.OpObjectHead: 1, acl.OpObjectPut: 2, acl.OpObjectDelete: 3, acl.OpObjectSearch: 4, acl.OpObjectRange: 5, acl.OpObjectHash: 6}
		if g.p(75) {
			for _, op := range []acl.Op{likely, acl.OpObjectPut} {
				mask |= 0xE << (4 * order[op])
			}
		}
		if g.p(50) {
			mask ^= 1 << (4 * order[likely])
		}
		if g.p(75) {
			mask &^= 1 << 28
		}
		if g.p(70) {
			mask &^= 1 << 29
		}
		if f != nil {
			// through the SDK's own setters: every operation allowed for owner and others, extendable,
			// bearer rules of the other operations arbitrary, of this operation as the case demands
			var fb acl.Basic
			for _, op := range allOps {
				fb.AllowOp(op, acl.RoleOwner)
				fb.AllowOp(op, acl.RoleOthers)
				if op != likely && g.p(50) {
					fb.AllowBearerRules(op)
				}
			}
			if f.bearerBit {
				fb.AllowBearerRules(likely)
			}
			if f.sticky {
				fb.MakeSticky()
			}
			mask = fb.Bits()
		}
		c.Basic = mask
		var cn container.Container
		cn.SetOwner(u.actors[c.Owner].id)
		var b acl.Basic
		b.FromBits(mask)
		cn.SetBasicACL(b)
		c.BearerBit, c.Extendable = b.AllowedBearerRules(likely), b.Extendable()
		var pp netmap.PlacementPolicy
		pp.SetReplicas([]netmap.ReplicaDescriptor{{}})
		cn.SetPlacementPolicy(pp)
		var cn2 container.Container
		cn2.SetOwner(u.actors[2].id)
		cn2.SetBasicACL(b)
		cn2.SetPlacementPolicy(pp)
		w.cnrs = map[cid.ID]container.Container{u.cnrs[1]: cn, u.cnrs[2]: cn2}

		// object the request is about
		objID := u.oids[g.n(2)]
		c.ObjOwner = c.Author
		if g.p(35) {
			c.ObjOwner = 1 + g.n(3)
		}
		if f != nil {
			c.ObjOwner = c.Author
		}
		var obj object.Object
		ver := version.Current()
		obj.SetVersion(&ver)
		obj.SetContainerID(u.cnrs[1])
		obj.SetID(objID)
		obj.SetOwner(u.actors[c.ObjOwner].id)
		epoch, size := uint64(g.n(12)), uint64(pick(g, []int{0, 1, 5, 10, 1024}))
		obj.SetCreationEpoch(epoch)
		obj.SetPayloadSize(size)
		typ := object.TypeRegular
		if c.Tomb {
			typ = object.TypeTombstone
		} else if c.Kind != "put" && g.p(10) {
			typ = object.TypeLock
		}
		obj.SetType(typ)
		var attrs []object.Attribute
		seen := map[string]bool{}
		for k := g.n(3); k > 0; k-- {
			key := pick(g, []string{"a1", "a2"})
			val := pick(g, hdrVals[:7]) // attribute values must be non-empty
			if seen[key] {
				continue
			}
			seen[key] = true
			attrs = append(attrs, object.NewAttribute(key, val))
		}
		obj.SetAttributes(attrs...)
		cidS, oidS := u.cnrs[1].EncodeToString(), objID.EncodeToString()
		c.AddrHdrs = []hdrF{{eacl.FilterObjectContainerID, cidS}}
		if c.Kind != "search" {
			c.AddrHdrs = append(c.AddrHdrs, hdrF{eacl.FilterObjectID, oidS})
		}
		c.ObjHdrs = []hdrF{
			{eacl.FilterObjectContainerID, cidS},
			{eacl.FilterObjectCreationEpoch, strconv.FormatUint(epoch, 10)},
			{eacl.FilterObjectPayloadSize, strconv.FormatUint(size, 10)},
			{eacl.FilterObjectVersion, ver.String()},
			{eacl.FilterObjectType, typ.String()},
			{eacl.FilterObjectID, oidS},
			{eacl.FilterObjectOwnerID, u.actors[c.ObjOwner].id.EncodeToString()},
		}
		for _, a := range attrs {
			c.ObjHdrs = append(c.ObjHdrs, hdrF{a.Key(), a.Value()})
		}
		objVals := []string{cidS, oidS, u.actors[c.ObjOwner].id.EncodeToString(), u.actors[c.Author].id.EncodeToString(), typ.String(), ver.String(), "REGULAR"}
		w.obj = &obj
		c.Binary = (c.Kind == "get" || c.Kind == "head") && g.p(50)
		w.binary = c.Binary

		likelyRole := eacl.RoleOthers
		if c.Author == c.Owner {
			likelyRole = eacl.RoleUser
		}
		// GET/HEAD: often a leading rule about a header the returned object really has, so that the
		// decision is taken at header time (recheck)
		var front *recordF
		if (c.Kind == "get" || c.Kind == "head") && g.p(45) {
			h := pick(g, c.ObjHdrs)
			f := filterF{From: uint32(eacl.HeaderFromObject), Key: h[0], M: uint32(eacl.MatchStringEqual), Value: h[1]}
			if g.p(15) {
				f.M = uint32(eacl.MatchStringNotEqual)
			}
			r := recordF{Op: uint32(likely), Action: uint32(eacl.ActionDeny), Targets: []targetF{{Role: uint32(likelyRole), Subjs: []subjF{}}}, Filters: []filterF{f}}
			if g.p(30) {
				r.Action = uint32(pick(g, []int{0, 1, 1, 3}))
			}
			if g.p(25) {
				r.Targets = []targetF{{Role: 0, Subjs: []subjF{{"k", c.Author}}}}
			}
			front = &r
		}
		var fStored, fBearer []recordF
		if f != nil {
			front = nil
			rule := func(deny bool) []recordF {
				r := recordF{Op: uint32(likely), Action: uint32(eacl.ActionAllow), Targets: []targetF{{Role: uint32(likelyRole), Subjs: []subjF{}}}, Filters: []filterF{}}
				if deny {
					r.Action = uint32(eacl.ActionDeny)
				}
				if f.hdr {
					h := pick(g, c.ObjHdrs)
					r.Filters = []filterF{{From: uint32(eacl.HeaderFromObject), Key: h[0], M: uint32(eacl.MatchStringEqual), Value: h[1]}}
				}
				return []recordF{r}
			}
			fStored, fBearer = rule(f.storedDeny), rule(!f.storedDeny)
		}
		// stored eACL
		w.eaclErr = false
		w.eacls = map[cid.ID]eacl.Table{}
		switch x := g.n(20); {
		case f != nil:
			c.Stored = storedF{Kind: "table", Table: fStored}
			w.eacls[u.cnrs[1]] = u.buildTable(c.Stored.Table, &u.cnrs[1])
		case x < 3:
			c.Stored = storedF{Kind: "notfound", Table: []recordF{}}
		case x < 4:
			c.Stored = storedF{Kind: "err", Table: []recordF{}}
			w.eaclErr = true
		default:
			c.Stored = storedF{Kind: "table", Table: genTable(g, u, uint32(likely), likelyRole, objVals, c.ObjHdrs)}
			if front != nil {
				c.Stored.Table = append([]recordF{*front}, c.Stored.Table...)
			}
			w.eacls[u.cnrs[1]] = u.buildTable(c.Stored.Table, &u.cnrs[1])
		}

		// X-headers
		c.XHdrs = []hdrF{}
		for k := g.n(3); k > 0; k-- {
			c.XHdrs = append(c.XHdrs, hdrF{pick(g, hdrKeys[:2]), pick(g, hdrVals)})
		}
		mh := &protosession.RequestMetaHeader{Version: version.Current().ProtoMessage(), Ttl: ttl}
		for _, h := range c.XHdrs {
			mh.XHeaders = append(mh.XHeaders, &protosession.XHeader{Key: h[0], Value: h[1]})
		}

		// bearer token
		var warm *protoacl.BearerToken // the valid original of a token invalidated after signing
		if g.p(45) || f != nil {
			bf := &bearerF{Valid: true}
			bf.Issuer = pick(g, []int{1, 1, 1, 1, 1, 1, 1, 1, 2, 3})
			bf.Cid = pick(g, []int{0, 0, 1, 1, 1, 1, 1, 2})
			bf.User = pick(g, []int{0, 0, 0, c.Author, c.Author, c.Author, c.Author, 1 + g.n(5)})
			bf.Table = genTable(g, u, uint32(likely), likelyRole, objVals, c.ObjHdrs)
			if front != nil && g.p(70) {
				bf.Table = append([]recordF{*front}, bf.Table...)
			}
			if f != nil {
				// validly issued by the container owner, for this container (or unbound) and this requester (or anyone)
				bf.Issuer, bf.Cid, bf.User, bf.Table = 1, f.bcid, 0, fBearer
				if f.buser {
					bf.User = c.Author
				}
			}
			var bound *cid.ID
			if bf.Cid != 0 {
				bound = &u.cnrs[bf.Cid]
			}
			var bt bearer.Token
			bt.SetEACLTable(u.buildTable(bf.Table, bound))
			if bf.User != 0 {
				bt.ForUser(u.actors[bf.User].id)
			}
			bt.SetIat(curEpoch - 2)
			bt.SetNbf(curEpoch - 1)
			bt.SetExp(curEpoch + uint64(g.n(3)))
			iss := u.actors[bf.Issuer]
			how := ""
			if g.p(15) && f == nil {
				how = pick(g, []string{"expired", "not_yet", "iat_future", "sig_flip", "body_changed", "foreign_key", "no_sig"})
			}
			switch how {
			case "expired":
				bt.SetExp(curEpoch - 1)
			case "not_yet":
				bt.SetNbf(curEpoch + 1)
			case "iat_future":
				bt.SetIat(curEpoch + 1)
			}
			if err := bt.Sign(iss.signer); err != nil {
				panic(err)
			}
			bm := bt.ProtoMessage()
			if how == "sig_flip" || how == "body_changed" || how == "foreign_key" {
				warm = proto.Clone(bm).(*protoacl.BearerToken)
			}
			switch how {
			case "sig_flip":
				bm.Signature.Sign[len(bm.Signature.Sign)/2] ^= 0x04
			case "body_changed":
				bm.Body.Lifetime.Exp += 1
			case "foreign_key":
				// signed by somebody else than the stated issuer
				other := u.actors[1+(bf.Issuer%5)]
				var bt2 bearer.Token
				_ = bt2.FromProtoMessage(bm)
				_ = bt2.Sign(other.signer)
				bt2.SetIssuer(iss.id)
				bm = bt2.ProtoMessage()
			case "no_sig":
				bm.Signature = nil
			}
			bf.Valid = how == ""
			bf.Why = how
			mh.BearerToken = bm
			c.Bearer = bf
		}

		// request
		w.mu.Lock()
		w.effects, w.bearerEr, w.infoErr, w.basic, w.sticky, w.eaclRes, w.role = nil, false, false, nil, nil, nil, 0
		w.mu.Unlock()
		addr := oid.NewAddress(u.cnrs[1], objID).ProtoMessage()
		signer := neofsecdsa.Signer(req.key)
		var code uint32
		var msg string
		var rpcErr error
		data := false
		send := func() {
			code, msg, rpcErr, data = 0, "", nil, false
			switch c.Kind {
			case "get":
				r := &protoobject.GetRequest{Body: &protoobject.GetRequest_Body{Address: addr}, MetaHeader: mh}
				r.VerifyHeader, _ = neofscrypto.SignRequestWithBuffer(signer, r, nil)
				st, err := cl.Get(ctx, r)
				rpcErr = err
				if err == nil {
					first := true
					for {
						resp, err := st.Recv()
						if err != nil {
							if !errors.Is(err, io.EOF) && first {
								rpcErr = err
							}
							break
						}
						if s := resp.GetMetaHeader().GetStatus(); s.GetCode() != 0 || first {
							code, msg = s.GetCode(), s.GetMessage()
						}
						first = false
						if resp.GetBody().GetObjectPart() != nil {
							data = true
						}
					}
				}
			case "range":
				r := &protoobject.GetRangeRequest{Body: &protoobject.GetRangeRequest_Body{Address: addr, Range: &protoobject.Range{Offset: 0, Length: 1}}, MetaHeader: mh}
				r.VerifyHeader, _ = neofscrypto.SignRequestWithBuffer(signer, r, nil)
				st, err := cl.GetRange(ctx, r)
				rpcErr = err
				if err == nil {
					first := true
					for {
						resp, err := st.Recv()
						if err != nil {
							if !errors.Is(err, io.EOF) && first {
								rpcErr = err
							}
							break
						}
						if first {
							code, msg = resp.GetMetaHeader().GetStatus().GetCode(), resp.GetMetaHeader().GetStatus().GetMessage()
							first = false
						}
					}
				}
			case "head":
				r := &protoobject.HeadRequest{Body: &protoobject.HeadRequest_Body{Address: addr}, MetaHeader: mh}
				r.VerifyHeader, _ = neofscrypto.SignRequestWithBuffer(signer, r, nil)
				resp, err := cl.Head(ctx, r)
				rpcErr = err
				code, msg = resp.GetMetaHeader().GetStatus().GetCode(), resp.GetMetaHeader().GetStatus().GetMessage()
				data = resp.GetBody().GetHead() != nil
			case "delete":
				r := &protoobject.DeleteRequest{Body: &protoobject.DeleteRequest_Body{Address: addr}, MetaHeader: mh}
				r.VerifyHeader, _ = neofscrypto.SignRequestWithBuffer(signer, r, nil)
				resp, err := cl.Delete(ctx, r)
				rpcErr = err
				code, msg = resp.GetMetaHeader().GetStatus().GetCode(), resp.GetMetaHeader().GetStatus().GetMessage()
			case "search":
				r := &protoobject.SearchV2Request{Body: &protoobject.SearchV2Request_Body{ContainerId: u.cnrs[1].ProtoMessage(), Version: 1, Count: 10}, MetaHeader: mh}
				r.VerifyHeader, _ = neofscrypto.SignRequestWithBuffer(signer, r, nil)
				resp, err := cl.SearchV2(ctx, r)
				rpcErr = err
				code, msg = resp.GetMetaHeader().GetStatus().GetCode(), resp.GetMetaHeader().GetStatus().GetMessage()
			case "put":
				mo := obj.ProtoMessage()
				r := &protoobject.PutRequest{Body: &protoobject.PutRequest_Body{ObjectPart: &protoobject.PutRequest_Body_Init_{Init: &protoobject.PutRequest_Body_Init{
					ObjectId: mo.ObjectId, Header: mo.Header}}}, MetaHeader: mh}
				r.VerifyHeader, _ = neofscrypto.SignRequestWithBuffer(signer, r, nil)
				st, err := cl.Put(ctx)
				rpcErr = err
				if err == nil {
					_ = st.Send(r)
					resp, err := st.CloseAndRecv()
					rpcErr = err
					code, msg = resp.GetMetaHeader().GetStatus().GetCode(), resp.GetMetaHeader().GetStatus().GetMessage()
				}
			}
		}
		if warm != nil {
			// the valid original first, on the same Server instance, then its invalidated copy
			real := mh.BearerToken
			mh.BearerToken = warm
			send()
			mh.BearerToken = real
			w.mu.Lock()
			w.effects, w.bearerEr, w.infoErr, w.basic, w.sticky, w.eaclRes, w.role = nil, false, false, nil, nil, nil, 0
			w.mu.Unlock()
		}
		send()
		w.mu.Lock()
		o := obsF{Code: code, RPCErr: rpcErr != nil, Role: int(w.role)}
		switch {
		case w.bearerEr:
			o.Out = 1
		case w.infoErr:
			o.Out = 2
		case (w.basic != nil && !*w.basic) || (w.sticky != nil && !*w.sticky):
			o.Out = 3
		case len(w.eaclRes) > 0 && w.eaclRes[0] == 2:
			o.Out = 4
		case slices.Contains(w.eaclRes, 2):
			o.Out = 5
		case w.basic == nil || len(w.eaclRes) == 0:
			o.Out = 9 // the ACL components were not reached at all
		}
		for _, e := range w.effects {
			if strings.HasPrefix(e, "PANIC:") {
				o.Out = 8
			} else {
				o.Reached = true
			}
		}
		w.mu.Unlock()
		switch c.Kind {
		case "get", "head":
			o.Data = data
		case "put":
			// reaching Streamer.Init is the effect of a PUT that passed access control
			o.Reached = strings.Contains(msg, "init recall")
			o.Data = o.Reached
		default:
			o.Data = o.Reached
		}
		c.Obs = o
		_ = enc.Encode(c)
	}
}
