//go:build verif

package main

func extraCommand(args []string) bool {
	switch args[0] {
	case "tokens":
		tokensMain(args[1:])
		return true
	case "requests":
		requestsMain(args[1:])
		return true
	}
	return false
}
