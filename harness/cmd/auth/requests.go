//go:build verif

package main

// C33: requests signed with 1-3 layers in all schemes (ECDSA SHA-512 / RFC6979 / WalletConnect,
// N3 witnesses against a witness oracle), legacy (API < 2.25: chained origin signatures) and
// current API versions, then mutated on the wire message: flipped bytes in body / meta header /
// verification header, dropped / reordered layers, swapped or removed signatures, scheme or key
// substitution, TTL and peer-authentication variations.  The facts of the model (which signature
// is present / valid over exactly which message) are re-derived from the FINAL message with the
// SDK's single-signature verification; the verdicts come from the real
// icrypto.VerifyRequestSignatures / ...WithContext / ...N3.

import (
	"context"
	"crypto/ecdsa"
	"crypto/ed25519"
	"crypto/elliptic"
	"crypto/rand"
	"crypto/rsa"
	"crypto/sha256"
	"crypto/tls"
	"crypto/x509"
	"crypto/x509/pkix"
	"encoding/json"
	"errors"
	"math/big"
	"os"
	"slices"
	"strconv"
	"time"

	"github.com/nspcc-dev/neo-go/pkg/crypto/hash"
	"github.com/nspcc-dev/neo-go/pkg/crypto/keys"
	"github.com/nspcc-dev/neo-go/pkg/util"
	icrypto "github.com/nspcc-dev/neofs-node/internal/crypto"
	"github.com/nspcc-dev/neofs-node/pkg/network/peerauth"
	apistatus "github.com/nspcc-dev/neofs-sdk-go/client/status"
	neofscrypto "github.com/nspcc-dev/neofs-sdk-go/crypto"
	protoobject "github.com/nspcc-dev/neofs-sdk-go/proto/object"
	"github.com/nspcc-dev/neofs-sdk-go/proto/refs"
	protosession "github.com/nspcc-dev/neofs-sdk-go/proto/session"
	"github.com/nspcc-dev/neofs-sdk-go/user"
	"google.golang.org/grpc/credentials"
	"google.golang.org/grpc/peer"
	"google.golang.org/protobuf/proto"
)

type layerF struct {
	HasBody   bool `json:"has_body"`
	BodyOK    bool `json:"body_ok"`
	HasMeta   bool `json:"has_meta"`
	MetaOK    bool `json:"meta_ok"`
	HasOrigin bool `json:"has_origin"`
	OriginOK  bool `json:"origin_ok"`
}
type reqCase struct {
	HasVH    bool     `json:"has_vh"`
	Layers   []layerF `json:"layers"`    // N3 witnesses unsupported (VerifyRequestSignatures / WithContext)
	LayersN3 []layerF `json:"layers_n3"` // N3 witnesses verified by the chain (VerifyRequestSignaturesN3)
	HasMeta  bool     `json:"has_meta"`
	NMeta    int      `json:"nmeta"`
	HasVer   bool     `json:"has_ver"`
	Major    uint32   `json:"major"`
	Minor    uint32   `json:"minor"`
	TTL      uint32   `json:"ttl"`
	Trusted  bool     `json:"trusted"`
	Peer     string   `json:"peer"`   // one of peerKinds
	Forced   bool     `json:"forced"` // from the deterministic peer x request-shape matrix
	Mut      string   `json:"mut"`
	Base     bool     `json:"base"`    // the unmutated request was accepted by all three entry points
	Changed  bool     `json:"changed"` // the mutation changed the wire encoding
	NLayers  int      `json:"nlayers"`
	Schemes  []int    `json:"schemes"`
	// observed: accepted by VerifyRequestSignatures / WithContext / N3 ; status class of a refusal
	Plain  bool `json:"plain"`
	Ctx    bool `json:"ctx"`
	N3     bool `json:"n3"`
	SigErr bool `json:"sig_err"` // every refusal is a SignatureVerification status
	// GetRequestAuthor on the verification header: 0 ok, 1 error ; key equals the outer body signature key
	AuthorErr   bool `json:"author_err"`
	AuthorIsKey bool `json:"author_is_key"`
}

// N3 "signer": the signature value is the invocation script, the key the verification script;
// signing registers the witness for exactly (account of the verification script, signed data).
type n3pub struct{ verif []byte }

func (p n3pub) MaxEncodedSize() int     { return len(p.verif) }
func (p n3pub) Encode(buf []byte) int   { return copy(buf, p.verif) }
func (p *n3pub) Decode(b []byte) error  { p.verif = slices.Clone(b); return nil }
func (p n3pub) Verify(_, _ []byte) bool { return false }

type n3signer struct {
	w     *tworld
	invoc []byte
	verif []byte
}

func (s n3signer) Scheme() neofscrypto.Scheme    { return neofscrypto.N3 }
func (s n3signer) Public() neofscrypto.PublicKey { return &n3pub{s.verif} }
func (s n3signer) Sign(data []byte) ([]byte, error) {
	s.w.n3reg[n3Key(hash.Hash160(s.verif), sha256.Sum256(data), slices.Concat(s.invoc, s.verif))] = true
	return slices.Clone(s.invoc), nil
}

type pmsg interface {
	MarshaledSize() int
	MarshalStable([]byte)
}

func enc(m pmsg) []byte {
	b := make([]byte, m.MarshaledSize())
	m.MarshalStable(b)
	return b
}

// one signature over one message: (valid without N3 support, valid with the chain verifying N3)
func sigFacts(w *tworld, s *refs.Signature, m pmsg) (bool, bool) {
	if s == nil {
		return false, false
	}
	if s.Scheme == refs.SignatureScheme_N3 {
		ok := w.n3reg[n3Key(hash.Hash160(s.Key), sha256.Sum256(enc(m)), slices.Concat(s.Sign, s.Key))]
		return false, ok
	}
	ok := neofscrypto.VerifyMessageSignature(m, s, nil) == nil
	return ok, ok
}

func requestFacts(w *tworld, req *protoobject.DeleteRequest, c *reqCase) {
	v, m := req.VerifyHeader, req.MetaHeader
	c.HasVH = v != nil
	c.HasMeta = m != nil
	c.NMeta = 1
	for o := m.GetOrigin(); o != nil; o = o.GetOrigin() {
		c.NMeta++
	}
	if m != nil && m.Version != nil {
		c.HasVer, c.Major, c.Minor = true, m.Version.Major, m.Version.Minor
	}
	c.TTL = m.GetTtl()
	c.Layers, c.LayersN3 = []layerF{}, []layerF{}
	mm := m
	for ; v != nil && len(c.Layers) < 12; v = v.Origin {
		var a, b layerF
		a.HasBody, a.HasMeta, a.HasOrigin = v.BodySignature != nil, v.MetaSignature != nil, v.OriginSignature != nil
		b = a
		a.BodyOK, b.BodyOK = sigFacts(w, v.BodySignature, req.Body)
		a.MetaOK, b.MetaOK = sigFacts(w, v.MetaSignature, mm)
		a.OriginOK, b.OriginOK = sigFacts(w, v.OriginSignature, v.Origin)
		c.Layers = append(c.Layers, a)
		c.LayersN3 = append(c.LayersN3, b)
		mm = mm.GetOrigin()
	}
}

var errPanic = errors.New("panic")

func asStatus(err error, target *apistatus.SignatureVerification) bool { return errors.As(err, target) }

// ---- peer contexts ---------------------------------------------------------------------------
//
// The fact of the model is "the peer connection is authenticated": the client presented, in the
// TLS handshake, a certificate whose P-256 key the node bound to the connection (the node's
// server credentials, cmd/neofs-node/mtls.go trustedPeerCredentials.ServerHandshake, then replace
// grpc's credentials.TLSInfo by peerauth.AuthInfo).  Everything that merely looks like it is NOT
// authenticated: plain TLS without a client certificate, a client certificate with a key the node
// cannot bind (RSA, P-384, Ed25519), another AuthInfo implementation answering the same AuthType()
// string, a pointer to / a wrapper around peerauth.AuthInfo, a peer without AuthInfo, no peer.

type otherAuth struct{ credentials.CommonAuthInfo }

func (otherAuth) AuthType() string { return "other" }

// an unrelated AuthInfo implementation that answers the same AuthType() string as TLS
type sameTypeAuth struct {
	credentials.CommonAuthInfo
	PublicKey *keys.PublicKey
}

func (sameTypeAuth) AuthType() string { return "tls" }

// a wrapper embedding the real thing (all methods and fields promoted, different dynamic type)
type wrapAuth struct{ peerauth.AuthInfo }

type peerKind struct {
	name    string
	trusted bool // the fact: genuinely authenticated peer connection
}

var peerKinds = []peerKind{
	{"none", false},             // no peer in the context
	{"no_auth", false},          // peer without AuthInfo (insecure listener)
	{"other_auth", false},       // AuthInfo of another kind, AuthType "other"
	{"trusted", true},           // peerauth.AuthInfo with the bound key
	{"trusted_nokey", true},     // zero peerauth.AuthInfo: the dynamic type is the authentication mark (NewAuthInfo never yields it)
	{"hs_p256", true},           // handshake outcome: client certificate with a P-256 key
	{"hs_nocert", false},        // handshake outcome: TLS, no client certificate -> plain credentials.TLSInfo
	{"hs_rsa", false},           // handshake outcome: client certificate with an RSA key -> plain credentials.TLSInfo
	{"hs_p384", false},          // ... P-384 key
	{"hs_ed25519", false},       // ... Ed25519 key
	{"tls_p256_unbound", false}, // credentials.TLSInfo carrying a P-256 certificate that was NOT bound by the node's credentials
	{"same_type_auth", false},   // foreign AuthInfo implementation with AuthType() == "tls" (and a key field)
	{"ptr_auth", false},         // *peerauth.AuthInfo
	{"wrap_auth", false},        // struct embedding peerauth.AuthInfo
}

func kindByName(n string) peerKind {
	return peerKinds[slices.IndexFunc(peerKinds, func(k peerKind) bool { return k.name == n })]
}

type peerEnv struct {
	certP256, certRSA, certP384, certEd *x509.Certificate
}

func selfSignedCert(pub, priv any) *x509.Certificate {
	tmpl := &x509.Certificate{SerialNumber: big.NewInt(33), Subject: pkix.Name{CommonName: "verif peer"},
		NotBefore: time.Unix(1_700_000_000, 0), NotAfter: time.Unix(1_900_000_000, 0),
		KeyUsage: x509.KeyUsageDigitalSignature, ExtKeyUsage: []x509.ExtKeyUsage{x509.ExtKeyUsageClientAuth}, BasicConstraintsValid: true}
	der, err := x509.CreateCertificate(rand.Reader, tmpl, tmpl, pub, priv)
	if err != nil {
		panic(err)
	}
	c, err := x509.ParseCertificate(der)
	if err != nil {
		panic(err)
	}
	return c
}

func newPeerEnv(a *actor) *peerEnv {
	rk, err := rsa.GenerateKey(rand.Reader, 2048)
	if err != nil {
		panic(err)
	}
	ek, err := ecdsa.GenerateKey(elliptic.P384(), rand.Reader)
	if err != nil {
		panic(err)
	}
	edPub, edPriv, err := ed25519.GenerateKey(rand.Reader)
	if err != nil {
		panic(err)
	}
	return &peerEnv{certP256: selfSignedCert(&a.key.PublicKey, &a.key), certRSA: selfSignedCert(&rk.PublicKey, rk),
		certP384: selfSignedCert(&ek.PublicKey, ek), certEd: selfSignedCert(edPub, edPriv)}
}

func tlsInfo(certs ...*x509.Certificate) credentials.TLSInfo {
	return credentials.TLSInfo{State: tls.ConnectionState{HandshakeComplete: true, Version: tls.VersionTLS13, PeerCertificates: certs},
		CommonAuthInfo: credentials.CommonAuthInfo{SecurityLevel: credentials.PrivacyAndIntegrity}}
}

// what the node's server credentials attach to the connection after the TLS handshake (mirror of
// trustedPeerCredentials.ServerHandshake in cmd/neofs-node/mtls.go, package main): the plain
// TLSInfo is kept unless peerauth.NewAuthInfo can bind the first peer certificate's key.
func handshakeAuthInfo(info credentials.TLSInfo) credentials.AuthInfo {
	if len(info.State.PeerCertificates) == 0 {
		return info
	}
	trustedInfo, err := peerauth.NewAuthInfo(info)
	if err != nil {
		return info
	}
	return trustedInfo
}

func (e *peerEnv) ctx(kind string, a *actor) context.Context {
	ctx := context.Background()
	pk := a.key.PublicKey
	real := peerauth.AuthInfo{TLSInfo: tlsInfo(e.certP256), PublicKey: (*keys.PublicKey)(&pk)}
	var ai credentials.AuthInfo
	switch kind {
	case "none":
		return ctx
	case "no_auth":
		ai = nil
	case "other_auth":
		ai = otherAuth{}
	case "trusted":
		ai = peerauth.AuthInfo{PublicKey: (*keys.PublicKey)(&pk)}
	case "trusted_nokey":
		ai = peerauth.AuthInfo{}
	case "hs_p256":
		ai = handshakeAuthInfo(tlsInfo(e.certP256))
	case "hs_nocert":
		ai = handshakeAuthInfo(tlsInfo())
	case "hs_rsa":
		ai = handshakeAuthInfo(tlsInfo(e.certRSA))
	case "hs_p384":
		ai = handshakeAuthInfo(tlsInfo(e.certP384))
	case "hs_ed25519":
		ai = handshakeAuthInfo(tlsInfo(e.certEd))
	case "tls_p256_unbound":
		ai = tlsInfo(e.certP256)
	case "same_type_auth":
		ai = sameTypeAuth{CommonAuthInfo: credentials.CommonAuthInfo{SecurityLevel: credentials.PrivacyAndIntegrity}, PublicKey: (*keys.PublicKey)(&pk)}
	case "ptr_auth":
		ai = &real
	case "wrap_auth":
		ai = wrapAuth{real}
	default:
		panic("unknown peer kind " + kind)
	}
	return peer.NewContext(ctx, &peer.Peer{AuthInfo: ai})
}

// deterministic part of the stream: every peer context x the request shapes on which the
// exemption decision hinges (no verification header at TTL 0/1/2, API version current / legacy /
// missing, no meta header at all; and the signed variants, intact and with a changed body, which
// must be verified whoever the peer is)
type forcedReq struct {
	peer     string
	ttl      uint32
	ver      int // 0 current, 1 legacy, 2 missing
	nl       int
	noMeta   bool
	unsigned bool
	mut      string
}

func forcedMatrix() []forcedReq {
	var res []forcedReq
	for _, k := range peerKinds {
		for _, ttl := range []uint32{1, 0, 2} {
			for ver := 0; ver < 3; ver++ {
				res = append(res, forcedReq{peer: k.name, ttl: ttl, ver: ver, nl: 1, unsigned: true})
			}
		}
		res = append(res,
			forcedReq{peer: k.name, ttl: 1, ver: 0, nl: 1, unsigned: true, noMeta: true},
			forcedReq{peer: k.name, ttl: 1, ver: 0, nl: 1},
			forcedReq{peer: k.name, ttl: 1, ver: 1, nl: 1},
			forcedReq{peer: k.name, ttl: 1, ver: 1, nl: 2},
			forcedReq{peer: k.name, ttl: 1, ver: 0, nl: 1, mut: "body_byte"},
			forcedReq{peer: k.name, ttl: 1, ver: 1, nl: 1, mut: "sig_val"},
			forcedReq{peer: k.name, ttl: 1, ver: 1, nl: 2, mut: "no_body_sig"},
			forcedReq{peer: k.name, ttl: 1, ver: 0, nl: 1, mut: "no_meta_sig"},
		)
	}
	return res
}

var reqMuts = []string{"body_byte", "meta_ttl", "meta_xhdr", "meta_origin", "sig_val", "sig_key", "sig_scheme", "drop_outer", "drop_inner", "drop_meta_layer",
	"swap_body_meta", "swap_meta_layers", "swap_origin_meta", "no_body_sig", "no_meta_sig", "no_origin_sig", "reorder_layers", "extra_body_sig", "wire_byte", "no_vh", "body_nil"}

func pickSig(g *rng, v *protosession.RequestVerificationHeader) *refs.Signature {
	var all []*refs.Signature
	for ; v != nil; v = v.Origin {
		for _, s := range []*refs.Signature{v.BodySignature, v.MetaSignature, v.OriginSignature} {
			if s != nil {
				all = append(all, s)
			}
		}
	}
	if len(all) == 0 {
		return nil
	}
	return pick(g, all)
}

func mutateReq(g *rng, u *tuniverse, req *protoobject.DeleteRequest, how string) *protoobject.DeleteRequest {
	v := req.VerifyHeader
	switch how {
	case "body_byte":
		if req.Body != nil {
			val := req.Body.Address.ObjectId.Value
			val[g.n(len(val))] ^= 1 << uint(g.n(8))
		}
	case "meta_ttl":
		if req.MetaHeader != nil {
			req.MetaHeader.Ttl++
		}
	case "meta_xhdr":
		if req.MetaHeader != nil {
			req.MetaHeader.XHeaders = append(req.MetaHeader.XHeaders, &protosession.XHeader{Key: "k", Value: "v"})
		}
	case "meta_origin":
		if o := req.MetaHeader.GetOrigin(); o != nil {
			o.Ttl++
		} else if req.MetaHeader != nil {
			req.MetaHeader.Epoch++
		}
	case "sig_val":
		if s := pickSig(g, v); s != nil && len(s.Sign) > 0 {
			s.Sign = slices.Clone(s.Sign)
			s.Sign[g.n(len(s.Sign))] ^= 1 << uint(g.n(8))
		}
	case "sig_key":
		if s := pickSig(g, v); s != nil {
			for _, a := range u.actors[1:] {
				if string(a.pub) != string(s.Key) {
					s.Key = slices.Clone(a.pub)
					break
				}
			}
		}
	case "sig_scheme":
		if s := pickSig(g, v); s != nil {
			s.Scheme = refs.SignatureScheme((int(s.Scheme) + 1 + g.n(3)) % 5)
		}
	case "drop_outer":
		if v != nil {
			req.VerifyHeader = v.Origin
		}
	case "drop_inner":
		if v != nil && v.Origin != nil {
			v.Origin = v.Origin.Origin
		}
	case "drop_meta_layer":
		if req.MetaHeader != nil && req.MetaHeader.Origin != nil {
			req.MetaHeader.Origin = req.MetaHeader.Origin.Origin
		}
	case "swap_body_meta":
		for x := v; x != nil; x = x.Origin {
			if x.BodySignature != nil {
				x.BodySignature, x.MetaSignature = x.MetaSignature, x.BodySignature
			}
		}
	case "swap_meta_layers":
		if v != nil && v.Origin != nil {
			v.MetaSignature, v.Origin.MetaSignature = v.Origin.MetaSignature, v.MetaSignature
		}
	case "swap_origin_meta":
		if v != nil {
			v.MetaSignature, v.OriginSignature = v.OriginSignature, v.MetaSignature
		}
	case "no_body_sig":
		for x := v; x != nil; x = x.Origin {
			x.BodySignature = nil
		}
	case "no_meta_sig":
		if v != nil {
			x := v
			for k := g.n(3); k > 0 && x.Origin != nil; k-- {
				x = x.Origin
			}
			x.MetaSignature = nil
		}
	case "no_origin_sig":
		if v != nil {
			x := v
			for k := g.n(3); k > 0 && x.Origin != nil; k-- {
				x = x.Origin
			}
			x.OriginSignature = nil
		}
	case "reorder_layers":
		if v != nil && v.Origin != nil {
			o := v.Origin
			v.Origin, o.Origin = o.Origin, v
			req.VerifyHeader = o
		}
	case "extra_body_sig":
		if v != nil && v.Origin != nil && v.BodySignature == nil {
			for x := v; x != nil; x = x.Origin {
				if x.BodySignature != nil {
					v.BodySignature = proto.Clone(x.BodySignature).(*refs.Signature)
				}
			}
		}
	case "wire_byte":
		fresh := new(protoobject.DeleteRequest)
		b, err := proto.Marshal(req)
		if err != nil || len(b) == 0 {
			return nil
		}
		b[g.n(len(b))] ^= 1 << uint(g.n(8))
		if proto.Unmarshal(b, fresh) == nil {
			return fresh
		}
		return nil
	case "no_vh":
		req.VerifyHeader = nil
	case "body_nil":
		req.Body = nil
	}
	return req
}

func requestsMain(args []string) {
	if len(args) > 0 && args[0] == "consts" {
		reqConsts()
		return
	}
	n := 1500
	if thorough() {
		n = 12000
	}
	if len(args) > 0 {
		n, _ = strconv.Atoi(args[0])
	}
	g := &rng{s: seed()*0x1000193 + 33}
	u := &tuniverse{actors: make([]*actor, 6)}
	for i := 1; i <= 5; i++ {
		u.actors[i] = newActor(i)
	}
	w := &tworld{n3reg: map[string]bool{}}
	chain := tChain{w}
	enc := json.NewEncoder(os.Stdout)
	addrBytes := func() []byte {
		b := make([]byte, 32)
		for i := range b {
			b[i] = byte(g.next() >> 24)
		}
		b[0] |= 1
		return b
	}
	cnrB, objB := addrBytes(), addrBytes()
	penv := newPeerEnv(u.actors[1])
	forced := forcedMatrix()
	if len(args) > 1 && args[1] == "random-only" {
		forced = nil
	}

	for i := 0; i < n+len(forced); i++ {
		w.n3reg = map[string]bool{}
		var c reqCase
		var f *forcedReq
		if i < len(forced) {
			f = &forced[i]
			c.Forced = true
		}
		// API version: current (no chained origin signatures), legacy, or missing
		var ver *refs.Version
		switch x := g.n(10); {
		case x < 4:
			ver = &refs.Version{Major: 2, Minor: uint32(25 + g.n(2))}
		case x < 8:
			ver = &refs.Version{Major: 2, Minor: uint32(pick(g, []int{24, 24, 18, 0}))}
		case x < 9:
			ver = &refs.Version{Major: uint32(pick(g, []int{1, 3})), Minor: uint32(g.n(30))}
		}
		nl := 1 + g.n(3)
		ttl := uint32(pick(g, []int{0, 1, 1, 2, 3, 5}))
		if f != nil {
			nl, ttl = f.nl, f.ttl
			ver = []*refs.Version{{Major: 2, Minor: 25}, {Major: 2, Minor: 24}, nil}[f.ver]
		}
		req := &protoobject.DeleteRequest{Body: &protoobject.DeleteRequest_Body{Address: &refs.Address{
			ContainerId: &refs.ContainerID{Value: slices.Clone(cnrB)}, ObjectId: &refs.ObjectID{Value: slices.Clone(objB)}}}}
		if f == nil && g.p(5) {
			req.Body = nil
		}
		req.MetaHeader = &protosession.RequestMetaHeader{Version: ver, Ttl: ttl + uint32(nl) - 1}
		if (f == nil && g.p(4)) || (f != nil && f.noMeta) {
			req.MetaHeader = nil
			nl = 1
		}
		c.NLayers = nl
		for l := 0; l < nl; l++ {
			if l > 0 {
				req.MetaHeader = &protosession.RequestMetaHeader{Version: ver, Ttl: req.MetaHeader.Ttl - 1, Origin: req.MetaHeader}
			}
			a := pick(g, u.actors[1:])
			var signer neofscrypto.Signer
			sc := g.n(8)
			if sc >= 4 {
				sc = sc % 3
			}
			if sc == 3 {
				signer = n3signer{w, []byte{0x0c, 0x40, byte(g.n(256))}, []byte{0x0c, 0x21, byte(g.n(256)), byte(l), 0x41}}
			} else {
				signer = schemeSigners[sc](a)
			}
			c.Schemes = append(c.Schemes, sc)
			vh, err := neofscrypto.SignRequestWithBuffer(signer, req, nil)
			if err != nil {
				panic(err)
			}
			req.VerifyHeader = vh
		}
		// random stream: a third of the requests from genuinely authenticated peers, the rest
		// spread over all the look-alikes
		pk := pick(g, peerKinds)
		if g.p(25) {
			pk = kindByName(pick(g, []string{"trusted", "hs_p256"}))
		}
		if f != nil {
			pk = kindByName(f.peer)
		}
		c.Peer, c.Trusted = pk.name, pk.trusted
		ctx := penv.ctx(c.Peer, u.actors[1])
		accepted := func(r *protoobject.DeleteRequest) (bool, bool, bool, bool) {
			e1 := icrypto.VerifyRequestSignatures(r)
			e2 := icrypto.VerifyRequestSignaturesWithContext(ctx, r)
			e3 := icrypto.VerifyRequestSignaturesN3(ctx, r, chain)
			allSig := true
			for _, e := range []error{e1, e2, e3} {
				if e != nil {
					var st apistatus.SignatureVerification
					if !asStatus(e, &st) {
						allSig = false
					}
				}
			}
			return e1 == nil, e2 == nil, e3 == nil, allSig
		}
		// the unmutated request first (on the same process state), then its mutation
		p0, c0, n0, _ := accepted(req)
		c.Base = p0 && c0 && n0
		before, _ := proto.Marshal(req)
		if f != nil {
			switch {
			case f.unsigned:
				c.Mut = "no_vh"
				req.VerifyHeader = nil
			case f.mut != "":
				c.Mut = f.mut
				req = mutateReq(g, u, req, c.Mut)
				after, _ := proto.Marshal(req)
				c.Changed = string(before) != string(after)
			}
		} else if g.p(60) {
			c.Mut = pick(g, reqMuts)
			if req = mutateReq(g, u, req, c.Mut); req == nil {
				continue
			}
			after, _ := proto.Marshal(req)
			c.Changed = string(before) != string(after)
		} else if g.p(30) {
			// exemption candidates: no verification header at all
			c.Mut = "no_vh"
			req.VerifyHeader = nil
		}
		requestFacts(w, req, &c)
		c.Plain, c.Ctx, c.N3, c.SigErr = accepted(req)
		_, key, err := func() (id user.ID, key []byte, err error) {
			defer func() {
				if recover() != nil {
					err = errPanic
				}
			}()
			return icrypto.GetRequestAuthor(req.VerifyHeader)
		}()
		c.AuthorErr = err != nil
		c.AuthorIsKey = err == nil && string(key) == string(req.VerifyHeader.GetBodySignature().GetKey())
		_ = enc.Encode(c)
	}
}

func reqConsts() {
	// probe from which API version the SDK stops producing / requiring origin signatures
	a := newActor(1)
	needs := func(major, minor uint32) bool {
		req := &protoobject.DeleteRequest{Body: &protoobject.DeleteRequest_Body{}, MetaHeader: &protosession.RequestMetaHeader{Version: &refs.Version{Major: major, Minor: minor}}}
		vh, _ := neofscrypto.SignRequestWithBuffer(schemeSigners[0](a), req, nil)
		return vh.OriginSignature != nil
	}
	out := map[string]any{"ok": false}
	for major := uint32(0); major < 6; major++ {
		first := -1
		for minor := uint32(0); minor < 200; minor++ {
			if !needs(major, minor) {
				first = int(minor)
				break
			}
		}
		if first > 0 {
			// all lower majors need it for every minor probed, this major from `first` on never needs it
			mono := true
			for minor := uint32(first); minor < 200; minor++ {
				if needs(major, minor) {
					mono = false
				}
			}
			out["ver_major"], out["ver_minor_no_origin"], out["ok"] = major, first, mono && !needs(major+1, 0)
			break
		}
		if first == 0 {
			break
		}
	}
	_ = json.NewEncoder(os.Stdout).Encode(out)
	_ = util.Uint160{}
}
