//go:build verif

package main

func requestsMain(args []string) {}
