//go:build verif

package main

import (
	"bytes"
	"io"
	"os"

	"github.com/nspcc-dev/neofs-node/pkg/local_object_storage/blobstor/fstree"
)

// Data loss and the other read flavours of StorageEngine.get (C20).
//
// "lose": the file of one object disappears from the BLOB storage of one shard behind
// the shard's back (the file is unlinked in the fstree directory, whatever the shard's
// mode is; nothing is recorded): the metabase of the shard still lists the object, the
// storage answers "not found" -- not an I/O error -- from then on. No engine operation produces this state,
// lost files do.
//
// "getb" / "gets": StorageEngine.GetBytes / GetStream. They run the same shard scan as
// Get with another per-shard function, so the model's OGet stands for all three.

func (v *env) doLose(u *universe, s, i int) op {
	o := op{Op: "lose", I: s, A: i}
	if s < len(v.shards) {
		fst := v.shards[s].blob.Storage.(*fstree.FSTree)
		_ = os.Remove(fst.VerifTreePath(u.addr(i))) // no such file when the shard never held it
	}
	return o
}

func (v *env) doGetBytes(u *universe, i int) op {
	o := op{Op: "getb", I: i}
	o.Ord = v.sorted(u.objs[i].obj.GetID())
	b, err := v.e.GetBytes(ctx, u.addr(i))
	o.Res = classify(err)
	if err == nil {
		if bytes.Equal(b, u.objs[i].bin) {
			o.Tag = i + 1
		} else {
			o.Tag = 9999
		}
	}
	return o
}

func (v *env) doGetStream(u *universe, i int) op {
	o := op{Op: "gets", I: i}
	o.Ord = v.sorted(u.objs[i].obj.GetID())
	hdr, rdr, err := v.e.GetStream(ctx, u.addr(i))
	o.Res = classify(err)
	if err == nil {
		pl, rerr := io.ReadAll(rdr)
		_ = rdr.Close()
		if rerr != nil {
			o.Tag = 9999
			return o
		}
		full := *hdr
		full.SetPayload(pl)
		o.Tag = u.tagOf(&full, false)
	}
	return o
}

// resolve turns a shard reference "rank a.i in the HRW order of object a.hrw-1" into the
// shard index (the order depends on the shard IDs, which the engine derives at run time).
func (v *env) resolve(u *universe, a absOp) absOp {
	if a.hrw > 0 {
		ord := v.sorted(u.objs[a.hrw-1].obj.GetID())
		a.i = ord[a.i%len(ord)]
		a.hrw = 0
	}
	return a
}

// lostOpening is the scripted opening of every fourth C20 history: object x gets TWO
// copies, on the shards of ranks p < q of its HRW order (as an evacuation, or a put made
// while the first shard was failing, leaves them), one copy then loses its data while
// its metabase entry stays, the other holder is switched to a degraded mode, and x is
// read through every flavour. Variants (by k): which of the two copies is lost (the one
// EARLIER or LATER in the HRW order), Degraded or DegradedReadOnly.
//
// Only engine operations are used to place the copies: the shards before the wanted one
// are read-only while x is put; for the second copy the first holder is degraded with
// failing reads, so that existsPhysical does not see it.
func lostOpening(r *rng, n, x, k int) []absOp {
	if n < 2 {
		return nil
	}
	q := 1 + r.intn(n-1)
	p := r.intn(q)
	sh := func(op string, rank, a, b int) absOp { return absOp{op: op, i: rank, a: a, b: b, hrw: x + 1} }
	var ops []absOp
	// first copy -> rank q
	for j := 0; j < q; j++ {
		ops = append(ops, sh("mode", j, 1, 0))
	}
	ops = append(ops, absOp{op: "put", i: x})
	// second copy -> rank p: rank q is degraded and its reads fail meanwhile, so that
	// existsPhysical gets an I/O error from it instead of "already stored"
	for j := p; j < q; j++ {
		ops = append(ops, sh("mode", j, 0, 1))
	}
	ops = append(ops, sh("mode", q, 3, 0), sh("fault", q, 1, 0), absOp{op: "put", i: x}, sh("fault", q, 0, 0))
	for j := 0; j < p; j++ {
		ops = append(ops, sh("mode", j, 0, 1))
	}
	ops = append(ops, sh("mode", q, 0, 1))
	ops = append(ops, absOp{op: "get", i: x})
	loser, other := p, q
	if k%2 == 1 {
		loser, other = q, p
	}
	ops = append(ops, absOp{op: "lose", i: loser, a: x, hrw: x + 1}, absOp{op: "get", i: x})
	ops = append(ops, sh("mode", other, 2+(k/2)%2, 0))
	for _, rd := range []string{"get", "getb", "gets", "head"} {
		ops = append(ops, absOp{op: rd, i: x})
	}
	return ops
}
