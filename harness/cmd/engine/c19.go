//go:build verif

// C19: evacuation. Histories = a generated setup (puts of objects, locks, tombstones, EC parts,
// deletions with both garbage marks, mode flips, put / read failures, epochs, GC passes), then
//   sweep A (Get + IsLocked of every address over all shards), a probe of every shard for every
//   address, Evacuate(random source subset, ignoreErrors, fault handler), a second probe, the
//   source shards detached from the engine, sweep B over the remaining shards.
// Subcommands: c19 <count>, c19replay <idx> <nops>, c19consts.
package main

import (
	"bytes"
	"errors"
	"fmt"
	"os"
	"strconv"

	"github.com/nspcc-dev/neofs-node/pkg/local_object_storage/blobstor/common"
	"github.com/nspcc-dev/neofs-node/pkg/local_object_storage/engine"
	"github.com/nspcc-dev/neofs-node/pkg/local_object_storage/shard"
	apistatus "github.com/nspcc-dev/neofs-sdk-go/client/status"
	"github.com/nspcc-dev/neofs-sdk-go/object"
	oid "github.com/nspcc-dev/neofs-sdk-go/object/id"
)

func init() {
	if len(os.Args) < 2 {
		return
	}
	switch os.Args[1] {
	case "c19":
		c19Main()
	case "c19replay":
		c19Replay()
	case "c19consts":
		emit(map[string]int{"evacuate_batch_size": engine.VerifEvacuateBatchSize()})
	default:
		return
	}
	os.Exit(0)
}

type op19 struct {
	op
	Srcs  []int `json:"srcs,omitempty"` // evac / detach: source shard indices (in call order)
	Ign   bool  `json:"ign,omitempty"`  // evac: ignoreErrors
	HasFH bool  `json:"hasfh,omitempty"`
	Acc   []int `json:"acc,omitempty"` // evac: addresses the fault handler accepts
	Rem   []int `json:"rem,omitempty"` // islocked: shards of the engine at that moment
}

type history19 struct {
	N    int     `json:"n"`
	Thr  int     `json:"thr"`
	Objs []*uobj `json:"objs"`
	Rank []int   `json:"rank"`
	Ops  []op19  `json:"ops"`
	Note string  `json:"note,omitempty"`
}

type absOp19 struct {
	absOp
	srcs []int
	ign  bool
	fh   bool
	acc  []int
}

type plan19 struct {
	n, thr int
	u      *universe
	ops    []absOp19
	idSeed uint64
	note   string
}

var errHandlerRefused = errors.New("verif: fault handler refuses")

// run19 state: shards detached so far and the status they had
type run19 struct {
	v        *env
	detached map[int]bool
	modes    []int
	errs     []int
}

func (r *run19) status() ([]int, []int) {
	for i := range r.v.shards {
		if r.detached[i] {
			continue
		}
		for len(r.modes) <= i {
			r.modes = append(r.modes, 0)
			r.errs = append(r.errs, 0)
		}
		r.modes[i] = modeOf(r.v.sh(i).GetMode())
		r.errs[i] = int(r.v.e.VerifErrorCount(r.v.shards[i].id))
	}
	return append([]int(nil), r.modes...), append([]int(nil), r.errs...)
}

func (r *run19) remaining() []int {
	var res []int
	for i := range r.v.shards {
		if !r.detached[i] {
			res = append(res, i)
		}
	}
	return res
}

func (r *run19) placementOrder(u *universe, i int) []int {
	x := u.objs[i]
	if x.EC {
		return r.v.sorted(x.parent)
	}
	return r.v.sorted(x.obj.GetID())
}

func shardGetClass(u *universe, i int, o *object.Object, err error) int {
	switch {
	case err == nil:
		if !bytes.Equal(o.Marshal(), u.objs[i].bin) {
			return 4 + 9999
		}
		return 4 + i + 1
	case shard.IsErrObjectExpired(err):
		return 2
	case errors.Is(err, apistatus.ErrObjectAlreadyRemoved):
		return 1
	case errors.Is(err, apistatus.ErrObjectNotFound):
		return 0
	default:
		return 3
	}
}

func (r *run19) doProbe(u *universe) op19 {
	o := op19{op: op{Op: "probe"}}
	for s := range r.v.shards {
		sh := r.v.sh(s)
		for i := range u.objs {
			obj, err := sh.Get(u.addr(i), false)
			c := shardGetClass(u, i, obj, err) * 4
			if l, err := sh.IsLocked(u.addr(i)); err == nil && l {
				c += 2
			}
			if ok, err := r.v.shards[s].blob.Storage.Exists(u.addr(i)); err == nil && ok {
				c++
			}
			o.Extra = append(o.Extra, c)
		}
	}
	return o
}

func (r *run19) doEvac(u *universe, a absOp19) op19 {
	o := op19{op: op{Op: "evac"}, Srcs: a.srcs, Ign: a.ign, HasFH: a.fh, Acc: a.acc}
	for i := range u.objs {
		o.Ord = append(o.Ord, r.placementOrder(u, i)...)
	}
	ids := make([]common.ID, len(a.srcs))
	for k, s := range a.srcs {
		if s < len(r.v.shards) {
			ids[k] = r.v.sh(s).ID()
		} else {
			// an ID no shard has
			id, _ := common.NewIDFromBytes(bytes.Repeat([]byte{0xEE}, common.IDSize))
			ids[k] = id
		}
	}
	var handler func(oid.Address, *object.Object) error
	if a.fh {
		acc := map[int]bool{}
		for _, i := range a.acc {
			acc[i] = true
		}
		handler = func(addr oid.Address, obj *object.Object) error {
			i, ok := u.byID[addr.Object()]
			if !ok || !acc[i] {
				return errHandlerRefused
			}
			if obj == nil || !bytes.Equal(obj.Marshal(), u.objs[i].bin) {
				o.Extra = append(o.Extra, 9999)
			} else {
				o.Extra = append(o.Extra, i)
			}
			return nil
		}
	}
	cnt, err := r.v.e.Evacuate(ctx, ids, a.ign, handler)
	switch {
	case err == nil:
		o.Res = 0
	case errors.Is(err, errHandlerRefused):
		o.Res = 7
	default:
		o.Res = engine.VerifEvacErrClass(err)
		if o.Res == 0 {
			o.Res = 5
		}
	}
	if os.Getenv("VERIF_DEBUG") != "" && err != nil {
		fmt.Fprintln(os.Stderr, "EVAC ERR:", err)
	}
	o.Tag = cnt
	return o
}

func (r *run19) doIsLocked(u *universe, i int) op19 {
	o := op19{op: op{Op: "islocked", I: i}, Rem: r.remaining()}
	l, err := r.v.e.IsLocked(ctx, u.addr(i))
	switch {
	case err != nil:
		o.Res = 2
	case l:
		o.Res = 1
	}
	return o
}

func (r *run19) doDetach(srcs []int) op19 {
	o := op19{op: op{Op: "detach"}, Srcs: srcs}
	r.status()
	var ids []string
	for _, s := range srcs {
		if s < len(r.v.shards) && !r.detached[s] {
			r.detached[s] = true
			ids = append(ids, r.v.shards[s].id)
		}
	}
	r.v.e.VerifRemoveShards(ids...)
	return o
}

func (r *run19) run(u *universe, a absOp19) op19 {
	var o op19
	switch a.op {
	case "evac":
		o = r.doEvac(u, a)
	case "probe":
		o = r.doProbe(u)
	case "islocked":
		o = r.doIsLocked(u, a.i)
	case "detach":
		o = r.doDetach(a.srcs)
	case "get":
		o = op19{op: r.v.doGet(u, a.i)}
	default:
		if len(r.detached) > 0 {
			panic("verif: operation " + a.op + " after detach")
		}
		x := r.v.run(u, a.absOp)
		return op19{op: x}
	}
	o.Modes, o.Errs = r.status()
	return o
}

func runPlan19(p *plan19, limit int) history19 {
	v := newEnv(p.n, uint32(p.thr), p.idSeed)
	r := &run19{v: v, detached: map[int]bool{}}
	defer func() {
		// detached shards were closed by the engine already
		v.close()
	}()
	h := history19{N: p.n, Thr: p.thr, Objs: p.u.objs, Rank: p.u.rank(), Note: p.note}
	for k, a := range p.ops {
		if limit >= 0 && k >= limit {
			break
		}
		h.Ops = append(h.Ops, r.run(p.u, a))
	}
	return h
}

func ab(opn string, i, a, b int) absOp19 { return absOp19{absOp: absOp{op: opn, i: i, a: a, b: b}} }

// tail appends: sweep A, probe, evac, probe, detach, sweep B.
func (p *plan19) tail(ev absOp19, sample []int) {
	for _, i := range sample {
		p.ops = append(p.ops, ab("get", i, 0, 0), ab("islocked", i, 0, 0))
	}
	p.ops = append(p.ops, ab("probe", 0, 0, 0), ev, ab("probe", 0, 0, 0))
	d := ab("detach", 0, 0, 0)
	d.srcs = ev.srcs
	p.ops = append(p.ops, d)
	for _, i := range sample {
		p.ops = append(p.ops, ab("get", i, 0, 0), ab("islocked", i, 0, 0))
	}
}

func allIdx(n int) []int {
	s := make([]int, n)
	for i := range s {
		s[i] = i
	}
	return s
}

// genC19 builds one history deterministically from (seed, idx).
func genC19(seed uint64, idx int) *plan19 {
	r := newRng(seed*1000003 + uint64(idx)*15485863 + 19)
	p := &plan19{idSeed: r.u64()}
	const maxEpoch = 5
	variant := idx % 8
	switch variant {
	case 1: // an object kept alive by a lock although it carries the default garbage mark
		p.note = "scripted: garbage-marked object kept by a lock"
		p.n, p.thr = 2+r.intn(2), 0
		forceFirst = true
		p.u = newUniverse(r, 3, 1, 2, 2, maxEpoch)
		forceFirst = false
		lock := 4
		// object 0 is stored while only shard h accepts writes; it is marked as garbage there
		// and then locked (the lock reaches every shard)
		h := r.intn(p.n)
		for s := 0; s < p.n; s++ {
			if s != h {
				p.ops = append(p.ops, ab("mode", s, 1, 0))
			}
		}
		p.ops = append(p.ops, ab("put", 0, 0, 0))
		for s := 0; s < p.n; s++ {
			if s != h {
				p.ops = append(p.ops, ab("mode", s, 0, 0))
			}
		}
		p.ops = append(p.ops, ab("del", 0, 0, 0), ab("put", lock, 0, 0), ab("put", 1, 0, 0), ab("put", 3, 0, 0), ab("mode", h, 1, 0))
		srcs := []int{h}
		ev := ab("evac", 0, 0, 0)
		ev.srcs = srcs
		p.tail(ev, allIdx(len(p.u.objs)))
		return p
	case 2: // an expired object kept by a lock that only its own shard stores
		p.note = "scripted: expired object, lock stored on its shard only"
		p.n, p.thr = 3+r.intn(2), 0
		forceFirst, forceExp = true, true
		p.u = newUniverse(r, 3, 1, 2, 2, maxEpoch)
		forceFirst, forceExp = false, false
		lock := 4
		// object 0 is stored while only shard h accepts writes, so is its lock
		h := r.intn(p.n)
		for s := 0; s < p.n; s++ {
			if s != h {
				p.ops = append(p.ops, ab("mode", s, 1, 0))
			}
		}
		p.ops = append(p.ops, ab("put", 0, 0, 0), ab("put", lock, 0, 0))
		for s := 0; s < p.n; s++ {
			if s != h {
				p.ops = append(p.ops, ab("mode", s, 0, 0))
			}
		}
		p.ops = append(p.ops, ab("put", 1, 0, 0), ab("epoch", 0, 2, 0), ab("mode", h, 1, 0))
		ev := ab("evac", 0, 0, 0)
		ev.srcs = []int{h}
		p.tail(ev, allIdx(len(p.u.objs)))
		return p
	case 3: // more objects than one listing page
		if idx%32 == 3 {
			p.note = "scripted: source shard with more than one listing page"
			p.n, p.thr = 2, 0
			nobj := 2*engine.VerifEvacuateBatchSize() + 30
			if nobj > 400 {
				nobj = 400
			}
			p.u = newUniverse(r, nobj, 0, 1, 1, maxEpoch)
			for i := range p.u.objs {
				p.ops = append(p.ops, ab("put", i, 0, 0))
			}
			// a few removals in between so that pages contain skipped IDs
			for k := 0; k < 6; k++ {
				p.ops = append(p.ops, ab("del", r.intn(nobj), r.intn(2), 0))
			}
			p.ops = append(p.ops, ab("mode", 0, 1, 0))
			ev := ab("evac", 0, 0, 0)
			ev.srcs = []int{0}
			var sample []int
			for k := 0; k < 12; k++ {
				sample = append(sample, r.intn(len(p.u.objs)))
			}
			p.tail(ev, sample)
			return p
		}
	}
	p.n = []int{2, 2, 3, 3, 3, 4, 4}[r.intn(7)]
	p.thr = []int{0, 0, 0, 1, 2}[r.intn(5)]
	// scripted tails of otherwise generated histories:
	// 5: a source without metabase; 6: no shard accepts anything while errors are ignored;
	// 7: many EC parts (placed by the parent's ID), healthy shards
	refuseAll := variant == 6
	ecHeavy := variant == 7
	switch {
	case variant == 5:
		p.note = "scripted tail: a source shard without metabase"
	case refuseAll:
		p.note = "scripted tail: every target refuses, ignoreErrors set"
	case ecHeavy:
		p.note = "scripted tail: many EC parts, healthy shards"
	}
	if ecHeavy {
		p.n, p.thr = 4, 0
		p.u = newUniverse(r, 3, 5, 1, 2, maxEpoch)
	} else {
		p.u = newUniverse(r, 4, 2, 2, 3, maxEpoch)
	}
	nobj := len(p.u.objs)
	nsh := p.n
	epoch := 0
	nops := 14 + r.intn(16)
	var stored []int
	related := func() int {
		if len(stored) == 0 || r.coin(1, 3) {
			return r.intn(nobj)
		}
		s := stored[r.intn(len(stored))]
		var cand []int
		for j, x := range p.u.objs {
			if x.Target == s || p.u.objs[s].Target == j {
				cand = append(cand, j)
			}
		}
		if len(cand) == 0 || r.coin(1, 3) {
			return s
		}
		return cand[r.intn(len(cand))]
	}
	for k := 0; k < nops; k++ {
		w := r.intn(100)
		switch {
		case w < 52:
			i := related()
			if r.coin(1, 2) {
				i = r.intn(nobj)
			}
			p.ops = append(p.ops, ab("put", i, 0, 0))
			stored = append(stored, i)
		case w < 60:
			p.ops = append(p.ops, ab("del", related(), r.intn(2), 0))
		case w < 63:
			p.ops = append(p.ops, ab("drop", related(), 0, 0))
		case w < 78 && !ecHeavy:
			m := []int{0, 0, 0, 1, 1, 1, 3, 2}[r.intn(8)]
			p.ops = append(p.ops, ab("mode", r.intn(nsh), m, r.intn(2)))
		case w < 86 && !ecHeavy:
			f := r.intn(4)
			p.ops = append(p.ops, ab("fault", r.intn(nsh), f&1, f>>1))
		case w < 92 && !ecHeavy:
			if epoch < maxEpoch+1 {
				epoch += 1 + r.intn(2)
			}
			p.ops = append(p.ops, ab("epoch", 0, epoch, 0))
		case w < 96:
			p.ops = append(p.ops, ab("gc", r.intn(nsh), 0, 0))
		default:
			p.ops = append(p.ops, ab("get", related(), 0, 0))
		}
	}
	// the configuration the evacuation runs in: source subset, target modes and failures
	var srcs []int
	for len(srcs) == 0 {
		for s := 0; s < nsh; s++ {
			if r.coin(2, 5) {
				srcs = append(srcs, s)
			}
		}
	}
	if len(srcs) == nsh && r.coin(2, 3) {
		srcs = srcs[1:]
		if len(srcs) == 0 {
			srcs = []int{0}
		}
	}
	isSrc := map[int]bool{}
	for _, s := range srcs {
		isSrc[s] = true
	}
	// random order of the sources, rarely one of them twice or an unknown shard
	for i := len(srcs) - 1; i > 0; i-- {
		j := r.intn(i + 1)
		srcs[i], srcs[j] = srcs[j], srcs[i]
	}
	if refuseAll {
		// make sure the sources hold objects nobody else has
		for s := 0; s < nsh; s++ {
			m := 1
			if isSrc[s] {
				m = 0
			}
			p.ops = append(p.ops, ab("mode", s, m, 1), ab("fault", s, 0, 0))
		}
		for k := 0; k < 4; k++ {
			p.ops = append(p.ops, ab("put", r.intn(6), 0, 0))
		}
	}
	for s := 0; s < nsh; s++ {
		if isSrc[s] {
			m := 1
			switch {
			case variant == 5 && s == srcs[0]:
				m = 3 // scripted: a source shard without metabase
			case r.coin(1, 14):
				m = 3 // no metabase
			case r.coin(1, 25):
				m = 0 // not read-only
			}
			p.ops = append(p.ops, ab("mode", s, m, 0))
			f := 0
			if r.coin(1, 8) {
				f = 1
			}
			p.ops = append(p.ops, ab("fault", s, f, 0))
		} else {
			m := []int{0, 0, 0, 0, 0, 1, 1, 2, 3}[r.intn(9)]
			fr, fw := 0, 0
			if r.coin(1, 10) {
				fr = 1
			}
			if r.coin(1, 4) {
				fw = 1
			}
			switch {
			case refuseAll:
				if r.coin(1, 2) {
					m, fw = 1, 0
				} else {
					m, fw = 0, 1
				}
				fr = 0
			case ecHeavy:
				m, fr, fw = 0, 0, 0
			}
			p.ops = append(p.ops, ab("mode", s, m, r.intn(2)))
			p.ops = append(p.ops, ab("fault", s, fr, fw))
		}
	}
	if r.coin(1, 20) {
		srcs = append(srcs, srcs[0])
	}
	if r.coin(1, 30) {
		srcs = append(srcs, 9)
	}
	ev := ab("evac", 0, 0, 0)
	ev.srcs = srcs
	ev.ign = r.coin(1, 3)
	switch r.intn(6) {
	case 0:
		ev.fh = true
		ev.acc = allIdx(nobj)
	case 1, 2:
		ev.fh = true
		for i := 0; i < nobj; i++ {
			if r.coin(2, 3) {
				ev.acc = append(ev.acc, i)
			}
		}
	}
	if refuseAll {
		ev.ign, ev.fh, ev.acc = true, false, nil
	}
	if ecHeavy {
		ev.ign, ev.fh, ev.acc = false, false, nil
	}
	p.tail(ev, allIdx(nobj))
	return p
}

func c19Main() {
	count := 32
	if len(os.Args) > 2 {
		count, _ = strconv.Atoi(os.Args[2])
	}
	seed := seedFromEnv()
	for idx := 0; idx < count; idx++ {
		emit(runPlan19(genC19(seed, idx), -1))
	}
}

func c19Replay() {
	idx, _ := strconv.Atoi(os.Args[2])
	limit := -1
	if len(os.Args) > 3 {
		limit, _ = strconv.Atoi(os.Args[3])
	}
	emit(runPlan19(genC19(seedFromEnv(), idx), limit))
}
