//go:build verif

package main

import (
	"os"
	"strconv"
)

// absOp is an operation of a generated history before it is run.
type absOp struct {
	op      string
	i, a, b int
	hrw     int // > 0: i is a rank in the HRW order of object hrw-1 (resolved when the operation runs)
}

type plan struct {
	n, thr int
	u      *universe
	ops    []absOp
	idSeed uint64
}

// genC20 builds one history deterministically from (seed, idx). The choice of operations
// never depends on what the engine answered, so a prefix of the plan replays exactly
// (up to the map-iteration order of broadcasts, which is observed, not chosen).
func genC20(seed uint64, idx int, withGC bool) *plan {
	r := newRng(seed*1000003 + uint64(idx)*7919 + 17)
	p := &plan{idSeed: r.u64()}
	p.n = []int{1, 2, 2, 2, 3, 3, 3, 4}[r.intn(8)]
	if idx%4 == 3 && p.n < 2 {
		p.n = 2 // the scripted opening (lostOpening) needs two holders
	}
	p.thr = []int{0, 0, 1, 2, 3}[r.intn(5)]
	const maxEpoch = 6
	p.u = newUniverse(r, 5, 2, 2, 3, maxEpoch)
	nobj := len(p.u.objs)
	nsh := p.n
	epoch := 0
	nops := 25 + r.intn(25)
	stored := []int{}
	// A second stream decides the read flavour (Get / GetBytes / GetStream) and where data is
	// lost, so that the operation choice of the first stream is what it was before these existed.
	r2 := newRng(seed*2000003 + uint64(idx)*104723 + 29)
	read := func() string { return []string{"get", "get", "getb", "gets"}[r2.intn(4)] }
	if idx%4 == 3 {
		x := r2.intn(5)
		p.ops = append(p.ops, lostOpening(r2, p.n, x, idx/4)...)
		stored = append(stored, x)
		nops = 12 + r.intn(14)
	}
	// related picks an object tied to something already put (its tombstone, lock, or target)
	related := func() int {
		if len(stored) == 0 || r.coin(1, 3) {
			return r.intn(nobj)
		}
		s := stored[r.intn(len(stored))]
		var cand []int
		for j, x := range p.u.objs {
			if x.Target == s || p.u.objs[s].Target == j {
				cand = append(cand, j)
			}
		}
		if len(cand) == 0 || r.coin(1, 3) {
			return s
		}
		return cand[r.intn(len(cand))]
	}
	for k := 0; k < nops; k++ {
		w := r.intn(100)
		switch {
		case w < 30:
			i := related()
			if r.coin(1, 2) {
				i = r.intn(nobj)
			}
			p.ops = append(p.ops, absOp{op: "put", i: i})
			stored = append(stored, i)
		case w < 52:
			p.ops = append(p.ops, absOp{op: read(), i: related()})
		case w < 60:
			p.ops = append(p.ops, absOp{op: "head", i: related()})
		case w < 68:
			p.ops = append(p.ops, absOp{op: "del", i: related(), a: r.intn(2)})
		case w < 73:
			p.ops = append(p.ops, absOp{op: "drop", i: related()})
		case w < 84:
			m := []int{0, 0, 1, 1, 3, 3, 2}[r.intn(7)]
			p.ops = append(p.ops, absOp{op: "mode", i: r.intn(nsh), a: m, b: r.intn(2)})
		case w < 91:
			f := r.intn(4)
			p.ops = append(p.ops, absOp{op: "fault", i: r.intn(nsh), a: f & 1, b: f >> 1})
		case w < 94:
			if epoch < maxEpoch+1 {
				epoch += 1 + r.intn(2)
			}
			p.ops = append(p.ops, absOp{op: "epoch", a: epoch})
		case w < 98:
			if withGC {
				p.ops = append(p.ops, absOp{op: "gc", i: r.intn(nsh)})
			} else {
				p.ops = append(p.ops, absOp{op: read(), i: related()})
			}
		default:
			if nsh < 4 {
				nsh++
				p.ops = append(p.ops, absOp{op: "addshard"})
			}
		}
		// data loss: the data of a stored object vanishes from one shard (its metabase entry stays)
		if len(stored) > 0 && r2.coin(1, 16) {
			p.ops = append(p.ops, absOp{op: "lose", i: r2.intn(nsh), a: stored[r2.intn(len(stored))]})
		}
	}
	// final sweep: read everything
	for i := 0; i < nobj; i++ {
		p.ops = append(p.ops, absOp{op: read(), i: i})
	}
	for i := 0; i < nobj; i++ {
		if p.u.objs[i].Kind == kReg {
			p.ops = append(p.ops, absOp{op: "head", i: i})
		}
	}
	return p
}

func (v *env) run(u *universe, a absOp) op {
	var o op
	a = v.resolve(u, a)
	switch a.op {
	case "lose":
		o = v.doLose(u, a.i, a.a)
	case "getb":
		o = v.doGetBytes(u, a.i)
	case "gets":
		o = v.doGetStream(u, a.i)
	case "put":
		o = v.doPut(u, a.i)
	case "get":
		o = v.doGet(u, a.i)
	case "head":
		o = v.doHead(u, a.i)
	case "del":
		o = v.doDelete(u, a.i, a.a)
	case "drop":
		o = v.doDrop(u, a.i)
	case "mode":
		o = v.doMode(a.i, a.a, a.b != 0)
	case "fault":
		o = v.doFault(a.i, a.a != 0, a.b != 0)
	case "epoch":
		v.epoch = uint64(a.a)
		o = op{Op: "epoch", A: a.a}
	case "gc":
		o = v.doGC(a.i)
	case "addshard":
		o = v.doAddShard()
	default:
		if !v.runExtra(u, a, &o) {
			panic("unknown op " + a.op)
		}
	}
	return v.finish(o)
}

// doGC runs one synchronous GC pass of shard s (what the remover ticker does).
func (v *env) doGC(s int) op {
	o := op{Op: "gc", I: s}
	v.rec.take()
	v.sh(s).VerifRemoveGarbage()
	return o
}

func runPlan(p *plan, limit int) history {
	v := newEnv(p.n, uint32(p.thr), p.idSeed)
	defer v.close()
	h := history{N: p.n, Thr: p.thr, Objs: p.u.objs}
	for k, a := range p.ops {
		if limit >= 0 && k >= limit {
			break
		}
		h.Ops = append(h.Ops, v.run(p.u, a))
	}
	return h
}

func c20Main() {
	count := 40
	if len(os.Args) > 2 {
		count, _ = strconv.Atoi(os.Args[2])
	}
	seed := seedFromEnv()
	for idx := 0; idx < count; idx++ {
		emit(runPlan(genC20(seed, idx, true), -1))
	}
}

// c20Replay: engine c20replay <idx> <nops>  (seed from VERIF_SEED)
func c20Replay() {
	idx, _ := strconv.Atoi(os.Args[2])
	limit := -1
	if len(os.Args) > 3 {
		limit, _ = strconv.Atoi(os.Args[3])
	}
	emit(runPlan(genC20(seedFromEnv(), idx, true), limit))
}
