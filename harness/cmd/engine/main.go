//go:build verif

// Differential harness for the engine family (C20, C08, C19). Built inside /repo's
// module through `go build -overlay` (see /verif/lib/vlib.py). It drives a real
// engine.StorageEngine over 1-4 real shards (fstree + bbolt metabase in temp dirs),
// observes shard visiting orders through recording wrappers (blobstor common.Storage
// passed with shard.WithBlobstor, metabase epoch source) and prints projected
// observables as JSON lines.
package main

import (
	"bytes"
	"context"
	"crypto/sha256"
	"encoding/json"
	"errors"
	"fmt"
	"io"
	"os"
	"path/filepath"
	"strconv"
	"sync"
	"time"

	"github.com/nspcc-dev/bbolt"
	"github.com/nspcc-dev/neo-go/pkg/util"
	iec "github.com/nspcc-dev/neofs-node/internal/ec"
	"github.com/nspcc-dev/neofs-node/pkg/local_object_storage/blobstor/common"
	"github.com/nspcc-dev/neofs-node/pkg/local_object_storage/blobstor/fstree"
	"github.com/nspcc-dev/neofs-node/pkg/local_object_storage/engine"
	meta "github.com/nspcc-dev/neofs-node/pkg/local_object_storage/metabase"
	"github.com/nspcc-dev/neofs-node/pkg/local_object_storage/shard"
	"github.com/nspcc-dev/neofs-node/pkg/local_object_storage/shard/mode"
	"github.com/nspcc-dev/neofs-sdk-go/checksum"
	apistatus "github.com/nspcc-dev/neofs-sdk-go/client/status"
	cid "github.com/nspcc-dev/neofs-sdk-go/container/id"
	"github.com/nspcc-dev/neofs-sdk-go/object"
	oid "github.com/nspcc-dev/neofs-sdk-go/object/id"
	"github.com/nspcc-dev/neofs-sdk-go/user"
	"go.uber.org/zap"
)

// ---------------------------------------------------------------- PRNG (splitmix64)

type rng struct{ s uint64 }

func newRng(seed uint64) *rng { return &rng{s: seed*0x9E3779B97F4A7C15 + 0x7654321} }

func (r *rng) u64() uint64 {
	r.s += 0x9E3779B97F4A7C15
	z := r.s
	z = (z ^ (z >> 30)) * 0xBF58476D1CE4E5B9
	z = (z ^ (z >> 27)) * 0x94D049BB133111EB
	return z ^ (z >> 31)
}

func (r *rng) intn(n int) int {
	if n <= 0 {
		return 0
	}
	return int(r.u64() % uint64(n))
}

func (r *rng) coin(num, den int) bool { return r.intn(den) < num }

func (r *rng) bytes(n int) []byte {
	b := make([]byte, n)
	for i := range b {
		b[i] = byte(r.u64())
	}
	return b
}

func seedFromEnv() uint64 {
	v, err := strconv.ParseUint(os.Getenv("VERIF_SEED"), 10, 64)
	if err != nil {
		return 1
	}
	return v
}

func thorough() bool { return os.Getenv("VERIF_TIER") == "thorough" }

// ---------------------------------------------------------------- recording

type event struct {
	sh   int
	kind byte // 'E' metabase epoch read, 'X' blob exists, 'P' blob put, 'D' blob delete, 'G' blob read
}

type recorder struct {
	mu  sync.Mutex
	evs []event
}

func (r *recorder) add(sh int, k byte) {
	r.mu.Lock()
	r.evs = append(r.evs, event{sh, k})
	r.mu.Unlock()
}

func (r *recorder) take() []event {
	r.mu.Lock()
	e := r.evs
	r.evs = nil
	r.mu.Unlock()
	return e
}

type epochSrc struct {
	rec *recorder
	idx int
	v   *uint64
}

func (e *epochSrc) CurrentEpoch() uint64 {
	e.rec.add(e.idx, 'E')
	return *e.v
}

var errInjected = errors.New("verif: injected storage failure")

// blobWrap records every call and fails reads / writes on demand.
type blobWrap struct {
	common.Storage
	rec      *recorder
	idx      int
	failRead bool
	failPut  bool
	sid      common.ID
}

// Init gives the shard a deterministic ID (the shard ID is taken from the blobstor), so
// that HRW orders are reproducible from the seed.
func (b *blobWrap) Init(common.ID) error { return b.Storage.Init(b.sid) }

func (b *blobWrap) Get(a oid.Address) (*object.Object, error) {
	b.rec.add(b.idx, 'G')
	if b.failRead {
		return nil, errInjected
	}
	return b.Storage.Get(a)
}

func (b *blobWrap) GetBytes(a oid.Address) ([]byte, error) {
	b.rec.add(b.idx, 'G')
	if b.failRead {
		return nil, errInjected
	}
	return b.Storage.GetBytes(a)
}

func (b *blobWrap) GetStream(a oid.Address) (*object.Object, io.ReadCloser, error) {
	b.rec.add(b.idx, 'G')
	if b.failRead {
		return nil, nil, errInjected
	}
	return b.Storage.GetStream(a)
}

func (b *blobWrap) Head(a oid.Address) (*object.Object, error) {
	b.rec.add(b.idx, 'G')
	if b.failRead {
		return nil, errInjected
	}
	return b.Storage.Head(a)
}

func (b *blobWrap) Exists(a oid.Address) (bool, error) {
	b.rec.add(b.idx, 'X')
	if b.failRead {
		return false, errInjected
	}
	return b.Storage.Exists(a)
}

func (b *blobWrap) Put(a oid.Address, d []byte) error {
	b.rec.add(b.idx, 'P')
	if b.failPut {
		return errInjected
	}
	return b.Storage.Put(a, d)
}

func (b *blobWrap) Delete(a oid.Address) error {
	b.rec.add(b.idx, 'D')
	return b.Storage.Delete(a)
}

type noPayments struct{}

func (noPayments) PaymentsDisabled() bool              { return true }
func (noPayments) UnpaidSince(cid.ID) (int64, error) { return -1, nil }

// ---------------------------------------------------------------- universe

// Object kinds of the model.
const (
	kReg  = 0
	kTS   = 1
	kLock = 2
)

type uobj struct {
	Kind   int   `json:"kind"`
	Target int   `json:"target"` // universe index of the associated object (TS, LOCK), else -1
	Exp    int64 `json:"exp"`    // expiration epoch, -1 = none
	EC     bool  `json:"ec"`     // EC part: placed by parent ID
	obj    *object.Object
	bin    []byte
	parent oid.ID
}

type universe struct {
	cnr  cid.ID
	objs []*uobj
	byID map[oid.ID]int
}

func randOID(r *rng) oid.ID {
	var id oid.ID
	copy(id[:], r.bytes(32))
	if id.IsZero() {
		id[0] = 1
	}
	return id
}

func addAttr(o *object.Object, k, v string) {
	var a object.Attribute
	a.SetKey(k)
	a.SetValue(v)
	o.SetAttributes(append(o.Attributes(), a)...)
}

func baseObj(r *rng, cnr cid.ID, owner user.ID, payload []byte) *object.Object {
	o := object.New(cnr, owner)
	o.SetID(randOID(r))
	o.SetPayload(payload)
	o.SetPayloadSize(uint64(len(payload)))
	o.SetPayloadChecksum(checksum.NewSHA256(sha256.Sum256(payload)))
	return o
}

// newUniverse builds nReg regular objects (some expiring), nEC EC parts, nLock locks
// and nTS tombstones over one container.
// forceFirst makes the first lock and the first tombstone target object 0 (scripted
// scenarios of the C08 generator).
var forceFirst bool

// forceExp (with forceFirst): object 0 expires after epoch 1 and the first lock never expires.
var forceExp bool

func newUniverse(r *rng, nReg, nEC, nLock, nTS int, maxEpoch int) *universe {
	u := &universe{byID: map[oid.ID]int{}}
	copy(u.cnr[:], r.bytes(32))
	var sh util.Uint160
	copy(sh[:], r.bytes(20))
	owner := user.NewFromScriptHash(sh)
	add := func(x *uobj) {
		x.bin = x.obj.Marshal()
		u.byID[x.obj.GetID()] = len(u.objs)
		u.objs = append(u.objs, x)
	}
	for i := 0; i < nReg; i++ {
		o := baseObj(r, u.cnr, owner, r.bytes(1+r.intn(40)))
		x := &uobj{Kind: kReg, Target: -1, Exp: -1}
		expires := r.coin(1, 3)
		if expires {
			x.Exp = int64(1 + r.intn(maxEpoch))
		}
		if forceFirst && forceExp && i == 0 {
			expires, x.Exp = true, 1
		}
		if expires {
			addAttr(o, object.AttributeExpirationEpoch, strconv.FormatInt(x.Exp, 10))
		}
		x.obj = o
		add(x)
	}
	for i := 0; i < nEC; i++ {
		o := baseObj(r, u.cnr, owner, r.bytes(1+r.intn(40)))
		par := object.New(u.cnr, owner)
		pid := randOID(r)
		par.SetID(pid)
		par.SetPayloadSize(100)
		par.SetPayloadChecksum(checksum.NewSHA256(sha256.Sum256([]byte{byte(i)})))
		o.SetParent(par)
		o.SetParentID(pid)
		addAttr(o, iec.AttributeRuleIdx, "0")
		addAttr(o, iec.AttributePartIdx, strconv.Itoa(i))
		add(&uobj{Kind: kReg, Target: -1, Exp: -1, EC: true, obj: o, parent: pid})
	}
	nData := len(u.objs)
	for i := 0; i < nLock; i++ {
		o := baseObj(r, u.cnr, owner, nil)
		x := &uobj{Kind: kLock, Exp: -1}
		lexp := r.coin(2, 3)
		if lexp {
			x.Exp = int64(1 + r.intn(maxEpoch))
		}
		if forceFirst && forceExp && i == 0 {
			lexp, x.Exp = false, -1
		}
		if lexp {
			addAttr(o, object.AttributeExpirationEpoch, strconv.FormatInt(x.Exp, 10))
		}
		x.Target = r.intn(nData)
		if forceFirst && i == 0 {
			x.Target = 0
		}
		o.AssociateLocked(u.objs[x.Target].obj.GetID())
		x.obj = o
		add(x)
	}
	nLockEnd := len(u.objs)
	for i := 0; i < nTS; i++ {
		o := baseObj(r, u.cnr, owner, nil)
		x := &uobj{Kind: kTS, Exp: -1}
		if r.coin(1, 2) {
			x.Exp = int64(1 + r.intn(maxEpoch))
			addAttr(o, object.AttributeExpirationEpoch, strconv.FormatInt(x.Exp, 10))
		}
		// mostly data objects; sometimes a lock or (rarely) another tombstone
		switch {
		case r.coin(1, 8) && nLock > 0:
			x.Target = nData + r.intn(nLock)
		case r.coin(1, 12) && i > 0:
			x.Target = nLockEnd + r.intn(i)
		default:
			x.Target = r.intn(nData)
		}
		if forceFirst && i == 0 {
			x.Target = 0
		}
		o.AssociateDeleted(u.objs[x.Target].obj.GetID())
		x.obj = o
		add(x)
	}
	return u
}

func (u *universe) addr(i int) oid.Address {
	return oid.NewAddress(u.cnr, u.objs[i].obj.GetID())
}

// tagOf maps a returned object to the universe index of the object with exactly these
// bytes (+1), or 9999 when the bytes differ from what was stored under that ID.
func (u *universe) tagOf(o *object.Object, hdrOnly bool) int {
	i, ok := u.byID[o.GetID()]
	if !ok {
		return 9998
	}
	if hdrOnly {
		if !bytes.Equal(o.CutPayload().Marshal(), u.objs[i].obj.CutPayload().Marshal()) {
			return 9999
		}
		return i + 1
	}
	if !bytes.Equal(o.Marshal(), u.objs[i].bin) {
		return 9999
	}
	return i + 1
}

// ---------------------------------------------------------------- engine under test

type shardEnv struct {
	id   string
	blob *blobWrap
}

type env struct {
	dir    string
	e      *engine.StorageEngine
	rec    *recorder
	epoch  uint64
	shards []*shardEnv
	byID   map[string]int
	idr    *rng
}

func newEnv(n int, thr uint32, idSeed uint64) *env {
	dir, err := os.MkdirTemp("", "verif-engine-")
	if err != nil {
		panic(err)
	}
	v := &env{dir: dir, rec: &recorder{}, byID: map[string]int{}, idr: newRng(idSeed)}
	v.e = engine.New(engine.WithLogger(engineLogger()), engine.WithErrorThreshold(thr))
	for i := 0; i < n; i++ {
		v.addShard()
	}
	if err := v.e.Init(); err != nil {
		panic(err)
	}
	return v
}

func (v *env) addShard() {
	i := len(v.shards)
	d := filepath.Join(v.dir, fmt.Sprintf("s%d", i))
	fst := fstree.New(fstree.WithPath(filepath.Join(d, "fstree")), fstree.WithNoSync(true), fstree.WithDepth(1))
	sid, err := common.NewIDFromBytes(v.idr.bytes(common.IDSize))
	if err != nil {
		panic(err)
	}
	bw := &blobWrap{Storage: fst, rec: v.rec, idx: i, sid: sid}
	id, err := v.e.AddShard(
		shard.WithLogger(zap.NewNop()),
		shard.WithBlobstor(bw),
		shard.WithMetaBaseOptions(
			meta.WithPath(filepath.Join(d, "meta")),
			meta.WithPermissions(0700),
			meta.WithEpochState(&epochSrc{rec: v.rec, idx: i, v: &v.epoch}),
			meta.WithLogger(zap.NewNop()),
			meta.WithMaxBatchDelay(time.Microsecond),
			meta.WithBoltDBOptions(&bbolt.Options{NoSync: true, NoFreelistSync: true, Timeout: time.Second}),
		),
		shard.WithWriteCache(false),
		shard.WithGCRemoverSleepInterval(time.Hour), // GC passes are driven through the shard hook
		shard.WithContainerPayments(noPayments{}),
	)
	if err != nil {
		panic(err)
	}
	v.byID[id.String()] = i
	v.shards = append(v.shards, &shardEnv{id: id.String(), blob: bw})
}

func (v *env) close() {
	_ = v.e.Close()
	_ = os.RemoveAll(v.dir)
}

func (v *env) sorted(id oid.ID) []int {
	ids := v.e.VerifSortedShardIDs(id)
	res := make([]int, len(ids))
	for i := range ids {
		res[i] = v.byID[ids[i]]
	}
	return res
}

func (v *env) sh(i int) *shard.Shard { return v.e.VerifShard(v.shards[i].id) }

// modes: 0 rw, 1 ro, 2 degraded rw, 3 degraded ro
func modeOf(m mode.Mode) int {
	r := 0
	if m.ReadOnly() {
		r |= 1
	}
	if m.NoMetabase() {
		r |= 2
	}
	return r
}

func toMode(c int) mode.Mode {
	var m mode.Mode
	if c&1 != 0 {
		m |= mode.ReadOnly
	}
	if c&2 != 0 {
		m |= mode.Degraded
	}
	return m
}

// status = modes and error counters of all shards after an operation.
func (v *env) status() (modes []int, errs []int) {
	for i := range v.shards {
		modes = append(modes, modeOf(v.sh(i).GetMode()))
		errs = append(errs, int(v.e.VerifErrorCount(v.shards[i].id)))
	}
	return
}

// Result classes shared with the model.
const (
	rOK       = 0
	rRemoved  = 1
	rLocked   = 2
	rNotFound = 3
	rOther    = 4
)

func classify(err error) int {
	if err != nil && os.Getenv("VERIF_DEBUG") != "" {
		fmt.Fprintln(os.Stderr, "ERR:", err)
	}
	switch {
	case err == nil:
		return rOK
	case errors.Is(err, apistatus.ErrObjectAlreadyRemoved):
		return rRemoved
	case errors.Is(err, apistatus.ErrObjectLocked):
		return rLocked
	case errors.Is(err, apistatus.ErrObjectNotFound):
		return rNotFound
	default:
		return rOther
	}
}

// visitOrder reconstructs the order in which broadcastObject visited the shards from the
// recorded events: existsPhysical consumed exactly one 'E' (healthy) or 'X' (degraded)
// event per shard in HRW order; in the broadcast every visit starts with such an event.
// Shards that were never visited (fatal break) are appended in index order.
func visitOrder(evs []event, hrw []int, n int) (order []int, ran bool) {
	k := 0
	for _, want := range hrw {
		if k >= len(evs) {
			return nil, false
		}
		if evs[k].sh != want || (evs[k].kind != 'E' && evs[k].kind != 'X') {
			panic(fmt.Sprintf("verif: unexpected event %v at %d, want shard %d", evs[k], k, want))
		}
		k++
	}
	if k >= len(evs) {
		return nil, false
	}
	seen := make([]bool, n)
	for _, e := range evs[k:] {
		if e.kind == 'D' {
			continue
		}
		if !seen[e.sh] {
			seen[e.sh] = true
			order = append(order, e.sh)
		}
	}
	for i := 0; i < n; i++ {
		if !seen[i] {
			order = append(order, i)
		}
	}
	return order, true
}

// firstVisits lists shards in order of their first event of the given kinds.
func firstVisits(evs []event, n int) []int {
	seen := make([]bool, n)
	var order []int
	for _, e := range evs {
		if !seen[e.sh] {
			seen[e.sh] = true
			order = append(order, e.sh)
		}
	}
	for i := 0; i < n; i++ {
		if !seen[i] {
			order = append(order, i)
		}
	}
	return order
}

// ---------------------------------------------------------------- operations

type op struct {
	Op    string `json:"op"`
	I     int    `json:"i"`               // object index / shard index
	A     int    `json:"a"`               // mark / mode / epoch / flags
	B     int    `json:"b"`               // reset flag / fail-put flag
	Ord   []int  `json:"ord,omitempty"`   // HRW order by the object's own ID
	OrdP  []int  `json:"ordp,omitempty"`  // HRW order used for placement (parent ID for EC parts)
	OrdB  []int  `json:"ordb,omitempty"`  // observed broadcast order
	Res   int    `json:"res"`             // result class
	Tag   int    `json:"tag"`             // for reads: universe index+1 of the returned bytes, 0 if none
	Modes []int  `json:"modes"`           // shard modes after the operation
	Errs  []int  `json:"errs"`            // shard error counters after the operation
	Extra []int  `json:"extra,omitempty"` // op specific
}

var ctx = context.Background()

func (v *env) doPut(u *universe, i int) op {
	x := u.objs[i]
	o := op{Op: "put", I: i}
	o.Ord = v.sorted(x.obj.GetID())
	if x.EC {
		o.OrdP = v.sorted(x.parent)
	} else {
		o.OrdP = o.Ord
	}
	v.rec.take()
	err := v.e.Put(ctx, x.obj, nil)
	evs := v.rec.take()
	if x.Kind != kReg {
		ord, ran := visitOrder(evs, o.Ord, len(v.shards))
		if ran {
			o.OrdB = ord
		}
	}
	if o.OrdB == nil {
		o.OrdB = o.Ord // unused by the model when no broadcast ran
	}
	o.Res = classify(err)
	return o
}

func (v *env) doGet(u *universe, i int) op {
	o := op{Op: "get", I: i}
	o.Ord = v.sorted(u.objs[i].obj.GetID())
	obj, err := v.e.Get(ctx, u.addr(i))
	if os.Getenv("VERIF_DEBUG") != "" {
		for k := range v.shards {
			_, e2 := v.sh(k).Get(u.addr(i), false)
			fmt.Fprintln(os.Stderr, "DBG shard", k, "get:", e2)
		}
	}
	o.Res = classify(err)
	if err == nil {
		o.Tag = u.tagOf(obj, false)
	}
	return o
}

func (v *env) doHead(u *universe, i int) op {
	o := op{Op: "head", I: i}
	o.Ord = v.sorted(u.objs[i].obj.GetID())
	obj, err := v.e.Head(ctx, u.addr(i), false)
	o.Res = classify(err)
	if err == nil {
		o.Tag = u.tagOf(obj, true)
	}
	return o
}

func (v *env) doDelete(u *universe, i int, mark int) op {
	o := op{Op: "del", I: i, A: mark}
	o.Ord = v.sorted(u.objs[i].obj.GetID())
	err := v.e.Delete(ctx, u.addr(i), engine.GarbageMark(mark))
	o.Res = classify(err)
	return o
}

func (v *env) doDrop(u *universe, i int) op {
	o := op{Op: "drop", I: i}
	o.Ord = v.sorted(u.objs[i].obj.GetID())
	err := v.e.Drop(ctx, u.addr(i))
	o.Res = classify(err)
	return o
}

func (v *env) doMode(s, m int, reset bool) op {
	o := op{Op: "mode", I: s, A: m}
	if reset {
		o.B = 1
	}
	err := v.e.SetShardMode(v.sh(s).ID(), toMode(m), reset)
	o.Res = classify(err)
	return o
}

func (v *env) doFault(s int, failRead, failPut bool) op {
	o := op{Op: "fault", I: s}
	if failRead {
		o.A = 1
	}
	if failPut {
		o.B = 1
	}
	v.shards[s].blob.failRead = failRead
	v.shards[s].blob.failPut = failPut
	return o
}

func (v *env) doAddShard() op {
	v.addShard()
	return op{Op: "addshard"}
}

func (v *env) finish(o op) op {
	o.Modes, o.Errs = v.status()
	return o
}

// ---------------------------------------------------------------- output

type history struct {
	N    int     `json:"n"`   // initial number of shards
	Thr  int     `json:"thr"` // error threshold
	Objs []*uobj `json:"objs"`
	Ops  []op    `json:"ops"`
	Note string  `json:"note,omitempty"`
	Rank []int   `json:"rank,omitempty"` // universe indices ordered by raw object ID
}

func emit(x any) {
	b, err := json.Marshal(x)
	if err != nil {
		panic(err)
	}
	fmt.Println(string(b))
}

func main() {
	if len(os.Args) < 2 {
		fmt.Fprintln(os.Stderr, "usage: engine c20|c20replay|c08|c19 ...")
		os.Exit(2)
	}
	switch os.Args[1] {
	case "c20":
		c20Main()
	case "c20replay":
		c20Replay()
	default:
		if !extraMain(os.Args[1]) {
			fmt.Fprintln(os.Stderr, "unknown subcommand")
			os.Exit(2)
		}
	}
}
