//go:build verif

package main

import (
	"os"
	"sort"
	"strconv"
	"strings"

	oid "github.com/nspcc-dev/neofs-sdk-go/object/id"
	"go.uber.org/zap"
	"go.uber.org/zap/zapcore"
	"go.uber.org/zap/zaptest/observer"
)

// extraMain dispatches the subcommands of the other properties of the family.
func extraMain(cmd string) bool {
	switch cmd {
	case "c08":
		c08Main()
	case "c08replay":
		c08Replay()
	default:
		return false
	}
	return true
}

// engine logger observed by the harness: the engine reports per expired address whether
// its lock check was skipped because of a shard error or the object was kept as locked.
var (
	logCore zapcore.Core
	logObs  *observer.ObservedLogs
)

func engineLogger() *zap.Logger {
	logCore, logObs = observer.New(zapcore.WarnLevel)
	return zap.New(logCore)
}

// runExtra runs operations that only the C08 / C19 histories use.
func (v *env) runExtra(u *universe, a absOp, o *op) bool {
	switch a.op {
	case "newepoch":
		// what StorageEngine.HandleNewEpoch does, synchronously: the metabase epoch source
		// and every shard's GC learn the new epoch
		v.epoch = uint64(a.a)
		for i := range v.shards {
			v.sh(i).VerifHandleEpoch(uint64(a.a))
		}
		*o = op{Op: "newepoch", A: a.a}
	case "gcx":
		*o = v.doGCX(u, a.i)
	default:
		return false
	}
	return true
}

// doGCX runs one GC pass of shard s including the expired-object processing. Extra:
// for every universe object the outcome of the engine's lock check seen in its log
// (0 none, 1 kept as locked, 2 lock check failed on a shard error and the object was
// processed anyway), followed by the HRW orders of all objects (flattened, n per object).
func (v *env) doGCX(u *universe, s int) op {
	o := op{Op: "gcx", I: s}
	n := len(v.shards)
	for range u.objs {
		o.Extra = append(o.Extra, 0)
	}
	for i := range u.objs {
		o.Ord = append(o.Ord, v.sorted(u.objs[i].obj.GetID())...)
	}
	_ = n
	logObs.TakeAll()
	v.sh(s).VerifRemoveGarbage()
	for _, e := range logObs.TakeAll() {
		code := 0
		switch {
		case strings.HasPrefix(e.Message, "removing an object without full locking check"):
			code = 2
		case strings.HasPrefix(e.Message, "skip an expired object with lock"):
			code = 1
		default:
			continue
		}
		for _, f := range e.Context {
			if f.Key == "addr" {
				str := f.String
				if f.Interface != nil {
					str = f.Interface.(interface{ String() string }).String()
				}
				var a oid.Address
				if err := a.DecodeString(str); err == nil {
					if i, ok := u.byID[a.Object()]; ok {
						o.Extra[i] = code
					}
				}
			}
		}
	}
	return o
}

// rank of the universe objects by raw object ID (the order of metabase iterations)
func (u *universe) rank() []int {
	idx := make([]int, len(u.objs))
	for i := range idx {
		idx[i] = i
	}
	sort.Slice(idx, func(a, b int) bool {
		x, y := u.objs[idx[a]].obj.GetID(), u.objs[idx[b]].obj.GetID()
		return string(x[:]) < string(y[:])
	})
	return idx
}

// genC08: histories over 2-3 shards mixing puts of objects, locks and tombstones with mode
// flips, put failures, GC passes and epoch advances. Every accepted-looking lock put is
// followed by a read of its target; targets are read again and again later.
func genC08(seed uint64, idx int) *plan {
	r := newRng(seed*1000003 + uint64(idx)*104729 + 8)
	p := &plan{idSeed: r.u64()}
	p.n = 2 + r.intn(2)
	p.thr = []int{0, 0, 0, 2, 3}[r.intn(5)]
	const maxEpoch = 5
	scripted := idx%3 == 0
	expiring := idx%6 == 3 // scripted variant: the locked object expires while its lock lives on
	forceFirst, forceExp = scripted, expiring
	p.u = newUniverse(r, 3, 1, 3, 3, maxEpoch)
	forceFirst, forceExp = false, false
	// make tombstones and locks collide on few targets
	nobj := len(p.u.objs)
	epoch := 0
	nops := 20 + r.intn(25)
	var locks, tss, data []int
	for i, x := range p.u.objs {
		switch x.Kind {
		case kLock:
			locks = append(locks, i)
		case kTS:
			tss = append(tss, i)
		default:
			data = append(data, i)
		}
	}
	if scripted {
		// the lock broadcast misses one shard (put failure or read-only), then a tombstone
		// for the same object is attempted, then every shard runs a GC pass
		sh := r.intn(p.n)
		// with three shards the lock sometimes misses two of them (a rollback then has
		// to undo the tombstone on more than one shard)
		sh2 := -1
		if p.n == 3 && r.coin(1, 2) {
			sh2 = (sh + 1) % p.n
		}
		p.ops = append(p.ops, absOp{op: "put", i: 0})
		if r.coin(1, 2) {
			p.ops = append(p.ops, absOp{op: "fault", i: sh, a: 0, b: 1})
		} else {
			p.ops = append(p.ops, absOp{op: "mode", i: sh, a: 1})
		}
		if sh2 >= 0 {
			p.ops = append(p.ops, absOp{op: "mode", i: sh2, a: 1})
		}
		p.ops = append(p.ops, absOp{op: "put", i: locks[0]}, absOp{op: "get", i: 0})
		p.ops = append(p.ops, absOp{op: "fault", i: sh}, absOp{op: "mode", i: sh, a: 0})
		if sh2 >= 0 {
			p.ops = append(p.ops, absOp{op: "mode", i: sh2, a: 0})
		}
		if expiring {
			// the object expires; only the engine-wide lock check keeps it
			epoch = 2
			p.ops = append(p.ops, absOp{op: "newepoch", a: epoch})
			for s := 0; s < p.n; s++ {
				p.ops = append(p.ops, absOp{op: "gcx", i: s})
			}
			p.ops = append(p.ops, absOp{op: "get", i: 0})
		}
		p.ops = append(p.ops, absOp{op: "put", i: tss[0]}, absOp{op: "get", i: 0})
		for s := 0; s < p.n; s++ {
			p.ops = append(p.ops, absOp{op: "gcx", i: s})
		}
		p.ops = append(p.ops, absOp{op: "get", i: 0})
	}
	for k := 0; k < nops; k++ {
		w := r.intn(100)
		switch {
		case w < 14:
			p.ops = append(p.ops, absOp{op: "put", i: data[r.intn(len(data))]})
		case w < 28:
			l := locks[r.intn(len(locks))]
			p.ops = append(p.ops, absOp{op: "put", i: l})
			p.ops = append(p.ops, absOp{op: "get", i: p.u.objs[l].Target})
		case w < 42:
			t := tss[r.intn(len(tss))]
			p.ops = append(p.ops, absOp{op: "put", i: t})
			if p.u.objs[t].Target < len(data) {
				p.ops = append(p.ops, absOp{op: "get", i: p.u.objs[t].Target})
			}
		case w < 58:
			p.ops = append(p.ops, absOp{op: "get", i: data[r.intn(len(data))]})
		case w < 62:
			p.ops = append(p.ops, absOp{op: "head", i: data[r.intn(len(data))]})
		case w < 74:
			m := []int{0, 0, 0, 1, 1, 3, 2}[r.intn(7)]
			p.ops = append(p.ops, absOp{op: "mode", i: r.intn(p.n), a: m, b: r.intn(2)})
		case w < 82:
			p.ops = append(p.ops, absOp{op: "fault", i: r.intn(p.n), a: 0, b: r.intn(2)})
		case w < 88:
			if epoch <= maxEpoch {
				epoch++
			}
			p.ops = append(p.ops, absOp{op: "newepoch", a: epoch})
		default:
			p.ops = append(p.ops, absOp{op: "gcx", i: r.intn(p.n)})
		}
	}
	for _, i := range data {
		p.ops = append(p.ops, absOp{op: "get", i: i})
	}
	_ = nobj
	return p
}

func c08Main() {
	count := 40
	if len(os.Args) > 2 {
		count, _ = strconv.Atoi(os.Args[2])
	}
	seed := seedFromEnv()
	for idx := 0; idx < count; idx++ {
		p := genC08(seed, idx)
		h := runPlan(p, -1)
		h.Rank = p.u.rank()
		emit(h)
	}
}

func c08Replay() {
	idx, _ := strconv.Atoi(os.Args[2])
	limit := -1
	if len(os.Args) > 3 {
		limit, _ = strconv.Atoi(os.Args[3])
	}
	p := genC08(seedFromEnv(), idx)
	h := runPlan(p, limit)
	h.Rank = p.u.rank()
	emit(h)
}
