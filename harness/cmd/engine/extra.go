//go:build verif

package main

// extraMain dispatches the subcommands of the other properties of the family.
func extraMain(cmd string) bool {
	switch cmd {
	default:
		return false
	}
}

// runExtra runs operations that only the C08 / C19 histories use.
func (v *env) runExtra(u *universe, a absOp, o *op) bool {
	return false
}
