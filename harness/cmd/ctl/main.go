//go:build verif

// Differential harness for C32: every method of both ControlServiceServers is called
// (found by reflection, so a new method cannot be missed) with requests that are
// unsigned / signed by a disallowed key / carry a corrupted or mismatching signature /
// correctly signed, against a real engine with one shard and recording fakes.
package main

import (
	"context"
	"crypto/ecdsa"
	"crypto/elliptic"
	"crypto/rand"
	"crypto/sha256"
	"encoding/json"
	"fmt"
	"os"
	"path/filepath"
	"reflect"
	"sort"
	"time"

	"github.com/nspcc-dev/neo-go/pkg/crypto/keys"
	"github.com/nspcc-dev/neo-go/pkg/util"
	"github.com/nspcc-dev/neofs-node/pkg/local_object_storage/blobstor/fstree"
	"github.com/nspcc-dev/neofs-node/pkg/local_object_storage/engine"
	meta "github.com/nspcc-dev/neofs-node/pkg/local_object_storage/metabase"
	"github.com/nspcc-dev/neofs-node/pkg/local_object_storage/shard"
	"github.com/nspcc-dev/neofs-node/pkg/local_object_storage/shard/mode"
	"github.com/nspcc-dev/neofs-node/pkg/services/control"
	ircontrol "github.com/nspcc-dev/neofs-node/pkg/services/control/ir"
	irsrv "github.com/nspcc-dev/neofs-node/pkg/services/control/ir/server"
	nodesrv "github.com/nspcc-dev/neofs-node/pkg/services/control/server"
	"github.com/nspcc-dev/neofs-node/pkg/services/object/placement"
	"github.com/nspcc-dev/neofs-node/pkg/services/replicator"
	"github.com/nspcc-dev/neofs-sdk-go/checksum"
	cidtest "github.com/nspcc-dev/neofs-sdk-go/container/id/test"
	neofscrypto "github.com/nspcc-dev/neofs-sdk-go/crypto"
	neofsecdsa "github.com/nspcc-dev/neofs-sdk-go/crypto/ecdsa"
	"github.com/nspcc-dev/neofs-sdk-go/object"
	oid "github.com/nspcc-dev/neofs-sdk-go/object/id"
	oidtest "github.com/nspcc-dev/neofs-sdk-go/object/id/test"
	usertest "github.com/nspcc-dev/neofs-sdk-go/user/test"
	"github.com/nspcc-dev/neofs-sdk-go/version"
	"go.uber.org/zap"
	"google.golang.org/grpc"
	"google.golang.org/grpc/codes"
	"google.golang.org/grpc/metadata"
	"google.golang.org/grpc/status"
)

type epochState struct{}

func (epochState) CurrentEpoch() uint64 { return 10 }

type counter struct{ n int }

type fakeHC struct{ c *counter }

func (f fakeHC) NetmapStatus() control.NetmapStatus { f.c.n++; return control.NetmapStatus_ONLINE }
func (f fakeHC) HealthStatus() control.HealthStatus { f.c.n++; return control.HealthStatus_READY }

type fakeIRHC struct{ c *counter }

func (f fakeIRHC) HealthStatus() ircontrol.HealthStatus { f.c.n++; return ircontrol.HealthStatus_READY }

type fakeNodeState struct{ c *counter }

func (f fakeNodeState) SetNetmapStatus(control.NetmapStatus) error { f.c.n++; return nil }
func (f fakeNodeState) IsLocalNodePublicKey([]byte) bool          { f.c.n++; return false }

type fakeNotary struct{ c *counter }

func (f fakeNotary) ListNotaryRequests() ([]util.Uint256, error) { f.c.n++; return nil, nil }
func (f fakeNotary) RequestNotary(string, ...[]byte) (util.Uint256, error) {
	f.c.n++
	return util.Uint256{}, nil
}
func (f fakeNotary) SignNotary(util.Uint256) error { f.c.n++; return nil }

type signed interface {
	ReadSignedData([]byte) ([]byte, error)
}

// signature kinds; model encoding in props/C32.py must match
var kinds = []string{"nosig", "disallowed", "allowed_badsig", "allowed_otherbody", "allowed_key_foreign_sig", "valid", "empty_sig_allowed_key", "garbage_key",
	// two-step sequences: a signature the server has already accepted is presented again
	"replay_sig_other_body", "replay_sig_other_method"}

// signature (over which body) of the last accepted request of the current / previous method
type savedSig struct {
	key, sign, body []byte
}

var lastValid, prevMethodValid *savedSig

type result struct {
	Server  string `json:"server"`
	Method  string `json:"method"`
	Kind    string `json:"kind"`
	Denied  bool   `json:"denied"`
	Code    string `json:"code"`
	Changed bool   `json:"changed"` // state digest or fake-call counters changed
	Panic   bool   `json:"panic"`
	BodyChg bool   `json:"body_changed"` // allowed_otherbody: did the body really change after signing
	Note    string `json:"note,omitempty"`
}

func mustKey() *ecdsa.PrivateKey {
	k, err := ecdsa.GenerateKey(elliptic.P256(), rand.Reader)
	if err != nil {
		panic(err)
	}
	return k
}

func pubBytes(k *ecdsa.PrivateKey) []byte { return (*keys.PublicKey)(&k.PublicKey).Bytes() }

func signBody(k *ecdsa.PrivateKey, body []byte) []byte {
	var sig neofscrypto.Signature
	if err := sig.Calculate(neofsecdsa.Signer(*k), body); err != nil {
		panic(err)
	}
	return sig.Value()
}

// setSig sets req.Signature = {Key, Sign} through reflection (works for both services)
func setSig(req reflect.Value, key, sign []byte) {
	f := req.Elem().FieldByName("Signature")
	s := reflect.New(f.Type().Elem())
	s.Elem().FieldByName("Key").SetBytes(key)
	s.Elem().FieldByName("Sign").SetBytes(sign)
	f.Set(s)
}

func applyKind(kind string, req reflect.Value, allowed, other *ecdsa.PrivateKey, mutate func()) (bodyChanged bool) {
	body, _ := req.Interface().(signed).ReadSignedData(nil)
	defer func() {
		after, _ := req.Interface().(signed).ReadSignedData(nil)
		bodyChanged = string(after) != string(body)
	}()
	switch kind {
	case "nosig":
	case "disallowed":
		setSig(req, pubBytes(other), signBody(other, body))
	case "allowed_badsig":
		s := signBody(allowed, body)
		s[len(s)/2] ^= 0x40
		setSig(req, pubBytes(allowed), s)
	case "allowed_otherbody":
		s := signBody(allowed, body)
		mutate() // body changes after signing
		setSig(req, pubBytes(allowed), s)
	case "allowed_key_foreign_sig":
		setSig(req, pubBytes(allowed), signBody(other, body))
	case "valid":
		sg := signBody(allowed, body)
		setSig(req, pubBytes(allowed), sg)
		lastValid = &savedSig{pubBytes(allowed), sg, body}
	case "empty_sig_allowed_key":
		setSig(req, pubBytes(allowed), []byte{})
	case "garbage_key":
		setSig(req, []byte{1, 2, 3}, signBody(allowed, body))
	case "replay_sig_other_body":
		if lastValid != nil {
			mutate()
			setSig(req, lastValid.key, lastValid.sign)
			after, _ := req.Interface().(signed).ReadSignedData(nil)
			return string(after) != string(lastValid.body)
		}
	case "replay_sig_other_method":
		if prevMethodValid != nil {
			setSig(req, prevMethodValid.key, prevMethodValid.sign)
			return string(body) != string(prevMethodValid.body)
		}
	}
	return
}

type env struct {
	dir     string
	eng     *engine.StorageEngine
	shardID []byte
	addr    oid.Address
	cnt     *counter
}

func newEnv() *env {
	dir, err := os.MkdirTemp("", "verif-ctl")
	if err != nil {
		panic(err)
	}
	e := engine.New(engine.WithLogger(zap.NewNop()))
	id, err := e.AddShard(
		shard.WithLogger(zap.NewNop()),
		shard.WithBlobstor(fstree.New(fstree.WithPath(filepath.Join(dir, "fstree")), fstree.WithDepth(1))),
		shard.WithMetaBaseOptions(meta.WithPath(filepath.Join(dir, "meta")), meta.WithPermissions(0o700),
			meta.WithEpochState(epochState{}), meta.WithMaxBatchDelay(time.Microsecond)),
	)
	if err != nil {
		panic(err)
	}
	if err := e.Init(); err != nil {
		panic(err)
	}
	obj := object.New(cidtest.ID(), usertest.ID())
	ver := version.Current()
	obj.SetVersion(&ver)
	obj.SetPayload([]byte("verif payload"))
	obj.SetPayloadSize(13)
	obj.SetPayloadChecksum(checksum.NewSHA256(sha256.Sum256(obj.Payload())))
	obj.SetID(oidtest.ID())
	if err := e.Put(context.Background(), obj, nil); err != nil {
		panic(err)
	}
	return &env{dir: dir, eng: e, shardID: id.Bytes(), addr: obj.Address(), cnt: &counter{}}
}

func (v *env) digest() string {
	var parts []string
	for _, sh := range v.eng.DumpInfo().Shards {
		parts = append(parts, fmt.Sprintf("mode=%v errs=%d", sh.Mode, sh.ErrorCount))
	}
	_, err := v.eng.Get(context.Background(), v.addr)
	parts = append(parts, fmt.Sprintf("objerr=%v", err != nil))
	ents, _ := os.ReadDir(v.dir)
	var names []string
	for _, e := range ents {
		names = append(names, e.Name())
	}
	sort.Strings(names)
	parts = append(parts, fmt.Sprint(names), fmt.Sprint("calls=", v.cnt.n))
	return fmt.Sprint(parts)
}

type fakeListStream struct {
	grpc.ServerStream
	v *env
}

func (f fakeListStream) Context() context.Context                 { return context.Background() }
func (f fakeListStream) Send(*control.ListObjectsResponse) error  { f.v.cnt.n++; return nil }
func (f fakeListStream) SetHeader(metadata.MD) error              { return nil }
func (f fakeListStream) SendHeader(metadata.MD) error             { return nil }
func (f fakeListStream) SetTrailer(metadata.MD)                   {}
func (f fakeListStream) SendMsg(any) error                        { f.v.cnt.n++; return nil }
func (f fakeListStream) RecvMsg(any) error                        { return nil }

// fillBody gives each known method a body that would have a visible effect if executed;
// unknown (new) methods get an empty body and are still checked for PermissionDenied.
func fillBody(v *env, method string, req reflect.Value, variant int) {
	bf := req.Elem().FieldByName("Body")
	if !bf.IsValid() {
		return
	}
	b := reflect.New(bf.Type().Elem())
	bf.Set(b)
	set := func(name string, val any) {
		f := b.Elem().FieldByName(name)
		if f.IsValid() {
			f.Set(reflect.ValueOf(val).Convert(f.Type()))
		}
	}
	switch method {
	case "DropObjects":
		set("AddressList", [][]byte{[]byte(v.addr.EncodeToString())})
	case "SetShardMode":
		set("Shard_ID", [][]byte{v.shardID})
		if variant == 0 {
			set("Mode", control.ShardMode_READ_ONLY)
		} else {
			set("Mode", control.ShardMode_DEGRADED_READ_ONLY)
		}
	case "DumpShard":
		set("Shard_ID", v.shardID)
		set("Filepath", filepath.Join(v.dir, fmt.Sprintf("dump%d", variant)))
	case "RestoreShard":
		set("Shard_ID", v.shardID)
		set("Filepath", filepath.Join(v.dir, "nonexistent"))
	case "EvacuateShard", "FlushCache":
		set("Shard_ID", [][]byte{v.shardID})
	case "ObjectStatus", "ReviveObject":
		set("ObjectAddress", v.addr.EncodeToString())
	case "SetNetmapStatus":
		if variant == 0 {
			set("Status", control.NetmapStatus_OFFLINE)
		} else {
			set("Status", control.NetmapStatus_MAINTENANCE)
		}
	case "NotaryRequest":
		set("Method", "removeNode")
		if variant == 1 {
			set("Method", "deleteContainer")
		}
	case "NotarySign":
		h := make([]byte, 32)
		h[0] = byte(variant)
		set("Hash", h)
	}
}

// deepVariants returns functions that each set one enum-like (int32) body field to a small
// value or one bool field to true; used to search for an input when a proof obligation broke.
func deepVariants(req reflect.Value) []func(reflect.Value) {
	var res []func(reflect.Value)
	bf := req.Elem().FieldByName("Body")
	if !bf.IsValid() || bf.IsNil() {
		return nil
	}
	bt := bf.Type().Elem()
	for i := 0; i < bt.NumField(); i++ {
		f := bt.Field(i)
		if !f.IsExported() {
			continue
		}
		idx := i
		switch f.Type.Kind() {
		case reflect.Int32:
			for val := int64(0); val < 6; val++ {
				vv := val
				res = append(res, func(r reflect.Value) { r.Elem().FieldByName("Body").Elem().Field(idx).SetInt(vv) })
			}
		case reflect.Bool:
			res = append(res, func(r reflect.Value) { r.Elem().FieldByName("Body").Elem().Field(idx).SetBool(true) })
		}
	}
	return res
}

func callAll(server string, srv any, v *env, allowed, other *ecdsa.PrivateKey, enc *json.Encoder) {
	deep := os.Getenv("VERIF_DEEP") == "1"
	sv := reflect.ValueOf(srv)
	st := sv.Type()
	for i := 0; i < st.NumMethod(); i++ {
		m := st.Method(i)
		mt := m.Type // receiver is arg 0
		if mt.NumIn() != 3 {
			continue
		}
		var reqT reflect.Type
		streaming := false
		if mt.In(1).Implements(reflect.TypeOf((*context.Context)(nil)).Elem()) && mt.In(2).Kind() == reflect.Ptr {
			reqT = mt.In(2)
		} else if mt.In(1).Kind() == reflect.Ptr && mt.In(2).Kind() == reflect.Interface {
			reqT = mt.In(1)
			streaming = true
		} else {
			continue
		}
		if _, ok := reflect.New(reqT.Elem()).Interface().(signed); !ok {
			continue
		}
		type job struct {
			kind string
			mut  func(reflect.Value)
		}
		var jobs []job
		prevMethodValid, lastValid = lastValid, nil
		for _, kind := range kinds {
			jobs = append(jobs, job{kind, nil})
		}
		if deep {
			probe := reflect.New(reqT.Elem())
			fillBody(v, m.Name, probe, 0)
			for _, mv := range deepVariants(probe) {
				jobs = append(jobs, job{"nosig", mv}, job{"disallowed", mv})
			}
		}
		for _, jb := range jobs {
			kind := jb.kind
			req := reflect.New(reqT.Elem())
			fillBody(v, m.Name, req, 0)
			if jb.mut != nil {
				jb.mut(req)
			}
			chg := applyKind(kind, req, allowed, other, func() { fillBody(v, m.Name, req, 1) })
			before := v.digest()
			r := result{Server: server, Method: m.Name, Kind: kind, BodyChg: chg}
			func() {
				defer func() {
					if p := recover(); p != nil {
						r.Panic = true
						r.Note = fmt.Sprint(p)
					}
				}()
				var out []reflect.Value
				if streaming {
					if m.Name != "ListObjects" {
						r.Note = "unsupported streaming method"
						return
					}
					out = sv.Method(i).Call([]reflect.Value{req, reflect.ValueOf(fakeListStream{v: v})})
				} else {
					out = sv.Method(i).Call([]reflect.Value{reflect.ValueOf(context.Background()), req})
				}
				errV := out[len(out)-1]
				if !errV.IsNil() {
					c := status.Code(errV.Interface().(error))
					r.Code = c.String()
					r.Denied = c == codes.PermissionDenied
				} else {
					r.Code = "OK"
				}
			}()
			r.Changed = v.digest() != before
			_ = enc.Encode(r)
		}
	}
}

func main() {
	enc := json.NewEncoder(os.Stdout)
	allowed, other := mustKey(), mustKey()

	// storage node control server
	v := newEnv()
	defer os.RemoveAll(v.dir)
	ns := nodesrv.New(mustKey(), [][]byte{pubBytes(allowed)}, fakeHC{v.cnt}, zap.NewNop())
	ns.MarkReady(v.eng, &placement.Service{}, &replicator.Replicator{}, fakeNodeState{v.cnt})
	callAll("node", ns, v, allowed, other, enc)
	_ = v.eng.Close()

	// inner ring control server (its own key is implicitly allowed)
	v2 := &env{dir: v.dir, eng: engine.New(), cnt: &counter{}}
	var prm irsrv.Prm
	irKey, _ := keys.NewPrivateKey()
	prm.SetPrivateKey(*irKey)
	prm.SetHealthChecker(fakeIRHC{v2.cnt})
	prm.SetNetworkManager(fakeNotary{v2.cnt})
	is := irsrv.New(prm, irsrv.WithAllowedKeys([][]byte{pubBytes(allowed)}))
	callAll("ir", is, v2, allowed, other, enc)
	_ = mode.ReadOnly
}
