//go:build verif

// C06: cursor listing at metabase, shard and engine level.
//
//	meta list <configs>
//
// One configuration = a real engine.StorageEngine over 1-4 real shards (fstree + bbolt
// metabase in a temp dir). Every shard's metabase is filled directly (meta.DB operations
// reached through the add-only hook shard.VerifListMetabase) from one catalog of objects
// over 1-5 containers, so that copies overlap; then random garbage marks (default and
// redundant, stored and unstored IDs), tombstones, container removals and deletions.
// Queries: page-size sequences 1..N from the nil cursor and from arbitrary cursors against
// DB.ListWithCursor, Shard.ListWithCursor and StorageEngine.ListWithCursor, each followed
// with the returned cursor until ErrEndOfListing. Printed per configuration: the dumped
// abstract state of every shard's metabase and, per query, the pages of
// (container, object, type, sorted holder shard indexes).
package main

import (
	"context"
	"encoding/json"
	"errors"
	"fmt"
	"os"
	"path/filepath"
	"sort"
	"time"

	"github.com/nspcc-dev/bbolt"
	objectcore "github.com/nspcc-dev/neofs-node/pkg/core/object"
	"github.com/nspcc-dev/neofs-node/pkg/local_object_storage/blobstor/common"
	"github.com/nspcc-dev/neofs-node/pkg/local_object_storage/blobstor/fstree"
	"github.com/nspcc-dev/neofs-node/pkg/local_object_storage/engine"
	meta "github.com/nspcc-dev/neofs-node/pkg/local_object_storage/metabase"
	"github.com/nspcc-dev/neofs-node/pkg/local_object_storage/shard"
	cid "github.com/nspcc-dev/neofs-sdk-go/container/id"
	"go.uber.org/zap"
)

const (
	lMaxCnr = 5
)

// object IDs of the listing universe: dense, with values beyond one byte so that the byte order
// of the keys (big endian) is exercised
var lOIDs = []int{1, 2, 3, 4, 5, 6, 7, 9, 255, 256, 257, 300}

type lNoPayments struct{}

func (lNoPayments) PaymentsDisabled() bool              { return true }
func (lNoPayments) UnpaidSince(cid.ID) (int64, error) { return -1, nil }

type LQuery struct {
	Level  string   `json:"level"` // meta | shard | engine
	Shard  int      `json:"shard"` // 1-based index for meta/shard
	Sizes  []int    `json:"sizes"` // page sizes, cycled
	Cur    [2]int   `json:"cur"`   // start cursor (0,0 = nil)
	Pages  [][][]int `json:"pages"` // per page: items [c, o, type, holders...]
	Ended  bool     `json:"ended"` // ErrEndOfListing seen
	Cursor [2]int   `json:"cursor"` // cursor returned with the last page (engine / shard), 0,0 if none
}

type LConfig struct {
	I       int      `json:"i"`
	NShards int      `json:"nshards"`
	States  []*Obs   `json:"states"` // per shard: only Epoch and Cnrs are filled
	Queries []LQuery `json:"queries"`
	Ops     int      `json:"ops"`
}

func lDump(db *meta.DB) *Obs {
	o := &Obs{}
	for c := 1; c <= lMaxCnr; c++ {
		o.Cnrs = append(o.Cnrs, dumpCnr(db, c))
	}
	return o
}

func lItems(res []objectcore.AddressWithAttributes, byID map[string]int) [][]int {
	out := [][]int{}
	for _, a := range res {
		it := []int{unCID(a.Address.Container()), unOID(a.Address.Object()), typeIdx(a.Type)}
		var hs []int
		for _, s := range a.ShardIDs {
			hs = append(hs, byID[s])
		}
		sort.Ints(hs)
		out = append(out, append(it, hs...))
	}
	return out
}

func runListConfig(seed uint64, i int) LConfig {
	r0 := &rng{s: seed}
	r1 := &rng{s: uint64(i)*0xA24BAED4963EE407 + 77}
	r := &rng{s: r0.next() ^ r1.next()}
	r.next()
	dir, err := os.MkdirTemp(tmpBase(), "verif-list-")
	must(err)
	defer os.RemoveAll(dir)

	n := 1 + r.n(4)
	ncnr := 1 + r.n(lMaxCnr)
	e := engine.New(engine.WithLogger(zap.NewNop()))
	ids := make([]string, n)
	byID := map[string]int{}
	es := &epochState{}
	for k := 0; k < n; k++ {
		d := filepath.Join(dir, fmt.Sprintf("s%d", k))
		id, err := e.AddShard(
			shard.WithLogger(zap.NewNop()),
			shard.WithBlobstor(fstree.New(fstree.WithPath(filepath.Join(d, "fstree")), fstree.WithNoSync(true), fstree.WithDepth(1))),
			shard.WithMetaBaseOptions(
				meta.WithPath(filepath.Join(d, "meta")),
				meta.WithPermissions(0o700),
				meta.WithEpochState(es),
				meta.WithLogger(zap.NewNop()),
				meta.WithMaxBatchDelay(time.Microsecond),
				meta.WithBoltDBOptions(&bbolt.Options{NoSync: true, NoFreelistSync: true, Timeout: time.Second}),
			),
			shard.WithWriteCache(false),
			shard.WithGCRemoverSleepInterval(time.Hour),
			shard.WithContainerPayments(lNoPayments{}),
		)
		must(err)
		ids[k] = id.String()
		byID[id.String()] = k + 1
	}
	must(e.Init())
	defer e.Close()
	_ = common.ID{}

	// catalog: header per (container, object)
	g := &gen{r: r, profile: "s1", ncnr: ncnr}
	cat := map[[2]int]*Obj{}
	for c := 1; c <= ncnr; c++ {
		for _, o := range lOIDs {
			t := []int{0, 0, 0, 0, 0, 0, 1, 2, 3}[r.n(9)]
			ob := g.plain(c, o, t)
			ob.Exp = -1
			if t == 1 || t == 2 {
				ob.Assoc = lOIDs[r.n(len(lOIDs))]
				if ob.Assoc == o {
					ob.Assoc = lOIDs[(r.n(len(lOIDs)-1)+1)%len(lOIDs)]
				}
				if ob.Assoc == o {
					t = 0
					ob = g.plain(c, o, 0)
					ob.Exp = -1
				}
			}
			if t == 0 && r.p(10) { // child carrying the header of a virtual (non-physical) parent
				ob.Par = &Obj{C: c, ID: 1000 + o, T: 0, Size: 7, Exp: -1, ECR: -1, ECI: -1}
				ob.ECR, ob.ECI = 0, r.n(3)
			}
			cat[[2]int{c, o}] = ob
		}
	}
	cfg := LConfig{I: i, NShards: n}
	dbs := make([]*meta.DB, n)
	shs := make([]*shard.Shard, n)
	density := 25 + r.n(60)
	for k := 0; k < n; k++ {
		shs[k] = e.VerifListShard(ids[k])
		dbs[k] = shard.VerifListMetabase(shs[k])
		db := dbs[k]
		for c := 1; c <= ncnr; c++ {
			if r.p(12) {
				continue // this shard has nothing of the container
			}
			for _, o := range lOIDs {
				if r.p(density) {
					_, _ = db.PutCounted(build(cat[[2]int{c, o}]))
					cfg.Ops++
				}
			}
		}
		nops := r.n(10)
		for j := 0; j < nops; j++ {
			c := 1 + r.n(ncnr)
			switch k := r.n(100); {
			case k < 55:
				m := 0
				if r.p(35) {
					m = 1
				}
				cnt := 1 + r.n(3)
				var os []int
				for x := 0; x < cnt; x++ {
					os = append(os, lOIDs[r.n(len(lOIDs))])
				}
				apply(db, es, Op{K: "mark", C: c, IDs: os, M: m})
			case k < 70:
				apply(db, es, Op{K: "inhc", C: c})
			case k < 85:
				apply(db, es, Op{K: "del", C: c, IDs: []int{lOIDs[r.n(len(lOIDs))]}})
			case k < 93:
				apply(db, es, Op{K: "rev", C: c, ID: lOIDs[r.n(len(lOIDs))]})
			default:
				apply(db, es, Op{K: "delc", C: c})
			}
			cfg.Ops++
		}
		cfg.States = append(cfg.States, lDump(db))
	}

	randSizes := func() []int {
		k := 1 + r.n(3)
		s := make([]int, k)
		for x := range s {
			switch r.n(10) {
			case 0:
				s[x] = 1
			case 1:
				s[x] = 100
			default:
				s[x] = 1 + r.n(7)
			}
		}
		return s
	}
	randCur := func() [2]int {
		if r.p(40) {
			return [2]int{0, 0}
		}
		c := r.n(ncnr + 2)
		o := 0
		switch r.n(4) {
		case 0:
			o = 0
		case 1:
			o = lOIDs[r.n(len(lOIDs))]
		default:
			o = r.n(310)
		}
		if c == 0 && o != 0 {
			c = 1
		}
		return [2]int{c, o}
	}
	nq := 6 + r.n(6)
	for q := 0; q < nq; q++ {
		lq := LQuery{Sizes: randSizes(), Cur: randCur(), Pages: [][][]int{}}
		switch x := r.n(10); {
		case x < 5:
			lq.Level = "engine"
		case x < 8:
			lq.Level = "shard"
			lq.Shard = 1 + r.n(n)
		default:
			lq.Level = "meta"
			lq.Shard = 1 + r.n(n)
		}
		nilCur := lq.Cur == [2]int{0, 0}
		switch lq.Level {
		case "engine":
			var cur *engine.Cursor
			if !nilCur {
				cur = engine.NewCursor(mkCID(lq.Cur[0]), mkOID(lq.Cur[1]))
			}
			for p := 0; p < 400; p++ {
				res, nc, err := e.ListWithCursor(context.Background(), uint32(lq.Sizes[p%len(lq.Sizes)]), cur)
				if errors.Is(err, engine.ErrEndOfListing) {
					lq.Ended = true
					break
				}
				must(err)
				lq.Pages = append(lq.Pages, lItems(res, byID))
				cur = nc
				lq.Cursor = [2]int{unCID(nc.ContainerID()), unOID(nc.ObjectID())}
			}
		default:
			var cur *meta.Cursor
			if !nilCur {
				cur = meta.NewCursor(mkCID(lq.Cur[0]), mkOID(lq.Cur[1]))
			}
			for p := 0; p < 400; p++ {
				var res []objectcore.AddressWithAttributes
				var nc *meta.Cursor
				var err error
				if lq.Level == "shard" {
					res, nc, err = shs[lq.Shard-1].ListWithCursor(lq.Sizes[p%len(lq.Sizes)], cur)
				} else {
					res, nc, err = dbs[lq.Shard-1].ListWithCursor(lq.Sizes[p%len(lq.Sizes)], cur)
				}
				if errors.Is(err, meta.ErrEndOfListing) {
					lq.Ended = true
					break
				}
				must(err)
				lq.Pages = append(lq.Pages, lItems(res, byID))
				cur = nc
				lq.Cursor = [2]int{unCID(nc.ContainerID()), unOID(nc.LastObjectID())}
			}
		}
		cfg.Queries = append(cfg.Queries, lq)
	}
	return cfg
}

func runList(n int, seed uint64) {
	out := make([]LConfig, n)
	sem := make(chan struct{}, 16)
	done := make(chan struct{}, n)
	for i := 0; i < n; i++ {
		sem <- struct{}{}
		go func(i int) {
			out[i] = runListConfig(seed, i)
			<-sem
			done <- struct{}{}
		}(i)
	}
	for i := 0; i < n; i++ {
		<-done
	}
	enc := json.NewEncoder(os.Stdout)
	for i := range out {
		must(enc.Encode(out[i]))
	}
}
