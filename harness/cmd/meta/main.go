//go:build verif

// Differential harness for the metabase family (C01, C02, later C06/C07/C18/C44).
// It drives a real meta.DB (real bbolt file in a temp dir) with histories of
// operations over a small dense universe and, after every operation, prints
//   - the result class of the operation (error enum, counter diffs),
//   - the raw abstract state of every universe container (dump through the
//     add-only hook VerifDumpContainer): stored headers, garbage marks,
//     container mark, counters,
//   - every view the properties talk about for every universe address.
//
// Built inside /repo's module through `go build -overlay` (see /verif/lib/vlib.py).
package main

import (
	"bufio"
	"encoding/base64"
	"encoding/json"
	"errors"
	"fmt"
	"os"
	"path/filepath"
	"runtime/pprof"
	"sort"
	"strconv"
	"sync"
	"sync/atomic"
	"time"

	"github.com/nspcc-dev/bbolt"
	iec "github.com/nspcc-dev/neofs-node/internal/ec"
	ierrors "github.com/nspcc-dev/neofs-node/internal/errors"
	objectcore "github.com/nspcc-dev/neofs-node/pkg/core/object"
	"github.com/nspcc-dev/neofs-node/pkg/local_object_storage/blobstor/common"
	meta "github.com/nspcc-dev/neofs-node/pkg/local_object_storage/metabase"
	"github.com/nspcc-dev/neofs-sdk-go/checksum"
	apistatus "github.com/nspcc-dev/neofs-sdk-go/client/status"
	cid "github.com/nspcc-dev/neofs-sdk-go/container/id"
	"github.com/nspcc-dev/neofs-sdk-go/object"
	oid "github.com/nspcc-dev/neofs-sdk-go/object/id"
	"github.com/nspcc-dev/neofs-sdk-go/user"
	"go.uber.org/zap"
)

// ---------------------------------------------------------------- universe

const (
	nCnr = 3
	nOID = 10
)

func mkOID(n int) oid.ID {
	var id oid.ID
	id[31] = byte(n)
	id[30] = byte(n >> 8)
	return id
}

func unOID(id oid.ID) int {
	for i := 0; i < 30; i++ {
		if id[i] != 0 {
			return -1
		}
	}
	return int(id[30])<<8 | int(id[31])
}

func mkCID(n int) cid.ID {
	var id cid.ID
	id[31] = byte(n)
	return id
}

func unCID(id cid.ID) int {
	for i := 0; i < 31; i++ {
		if id[i] != 0 {
			return -1
		}
	}
	return int(id[31])
}

func mkSplit(n int) *object.SplitID {
	b := make([]byte, 16)
	b[15] = byte(n)
	return object.NewSplitIDFromV2(b)
}

var owner = func() user.ID {
	var u user.ID
	u[0] = 0x35
	for i := 1; i < len(u); i++ {
		u[i] = byte(i)
	}
	return u
}()

type epochState struct{ e atomic.Uint64 }

func (s *epochState) CurrentEpoch() uint64 { return s.e.Load() }

// ---------------------------------------------------------------- ops

// Obj is an abstract object header. T: 0 regular, 1 tombstone, 2 lock, 3 link.
type Obj struct {
	C     int    `json:"c"`
	ID    int    `json:"id"`
	T     int    `json:"t"`
	Size  uint64 `json:"sz"`
	Exp   int64  `json:"exp"` // -1: none
	Assoc int    `json:"as"`  // 0: none
	ParID int    `json:"pid"` // parent ID without header (0: none); ignored when Par != nil
	First int    `json:"fi"`  // 0: none
	Split int    `json:"sp"`  // 0: none
	ECR   int    `json:"er"`  // -1: none
	ECI   int    `json:"ei"`  // -1: none
	Par   *Obj   `json:"par"`
}

type Op struct {
	K   string `json:"k"` // put batch mark inhc del rev epoch delc
	C   int    `json:"c,omitempty"`
	O   *Obj   `json:"o,omitempty"`
	Os  []*Obj `json:"os,omitempty"`
	IDs []int  `json:"ids,omitempty"`
	M   int    `json:"m,omitempty"`
	ID  int    `json:"id,omitempty"`
	E   uint64 `json:"e,omitempty"`
}

var types = []object.Type{object.TypeRegular, object.TypeTombstone, object.TypeLock, object.TypeLink}

func typeIdx(t object.Type) int {
	for i, x := range types {
		if x == t {
			return i
		}
	}
	return 9
}

var zeroSum = checksum.NewSHA256([32]byte{})

func build(o *Obj) *object.Object {
	res := object.New(mkCID(o.C), owner)
	res.SetID(mkOID(o.ID))
	res.SetPayloadChecksum(zeroSum)
	res.SetPayloadSize(o.Size)
	res.SetType(types[o.T])
	var attrs []object.Attribute
	if o.Exp >= 0 {
		attrs = append(attrs, object.NewAttribute(object.AttributeExpirationEpoch, strconv.FormatInt(o.Exp, 10)))
	}
	if o.Assoc > 0 {
		attrs = append(attrs, object.NewAttribute(object.AttributeAssociatedObject, mkOID(o.Assoc).EncodeToString()))
	}
	if o.ECR >= 0 {
		attrs = append(attrs, object.NewAttribute(iec.AttributeRuleIdx, strconv.Itoa(o.ECR)))
	}
	if o.ECI >= 0 {
		attrs = append(attrs, object.NewAttribute(iec.AttributePartIdx, strconv.Itoa(o.ECI)))
	}
	res.SetAttributes(attrs...)
	if o.First > 0 {
		res.SetFirstID(mkOID(o.First))
	}
	if o.Split > 0 {
		res.SetSplitID(mkSplit(o.Split))
	}
	if o.Par != nil {
		res.SetParent(build(o.Par))
	} else if o.ParID > 0 {
		res.SetParentID(mkOID(o.ParID))
	}
	return res
}

// ---------------------------------------------------------------- error classes

const (
	eOK = iota
	eAlreadyRemoved
	eExpired
	eLocked
	eLockNonRegular
	eLockRemoval
	eOther
)

func errClass(err error) int64 {
	var lnr apistatus.LockNonRegularObject
	switch {
	case err == nil:
		return eOK
	case errors.Is(err, apistatus.ErrObjectAlreadyRemoved):
		return eAlreadyRemoved
	case errors.Is(err, meta.ErrObjectIsExpired):
		return eExpired
	case errors.Is(err, apistatus.ErrObjectLocked):
		return eLocked
	case errors.As(err, &lnr), errors.As(err, new(*apistatus.LockNonRegularObject)):
		return eLockNonRegular
	case errors.Is(err, meta.ErrLockObjectRemoval):
		return eLockRemoval
	default:
		return eOther
	}
}

// view classes
const (
	vAbsent   = 0 // Exists: (false, nil)
	vOK       = 1
	vNotFound = 2
	vRemoved  = 3
	vExpired  = 4
	vSplit    = 5
	vECParent = 6
	vOther    = 7
)

func viewClass(err error) int {
	var parts iec.ErrParts
	var si *object.SplitInfoError
	switch {
	case err == nil:
		return vOK
	case errors.Is(err, apistatus.ErrObjectAlreadyRemoved):
		return vRemoved
	case errors.Is(err, meta.ErrObjectIsExpired):
		return vExpired
	case errors.As(err, &parts):
		return vECParent
	case errors.As(err, &si):
		return vSplit
	case errors.Is(err, ierrors.ErrParentObject):
		return vOther
	case errors.Is(err, apistatus.ErrObjectNotFound):
		return vNotFound
	default:
		return vOther
	}
}

// ---------------------------------------------------------------- observation

type DObj struct {
	ID    int    `json:"id"`
	T     int    `json:"t"`
	Size  uint64 `json:"sz"`
	Exp   int64  `json:"exp"`
	Assoc int    `json:"as"`
	ParID int    `json:"pid"`
	First int    `json:"fi"`
	Split int    `json:"sp"`
	ECR   int    `json:"er"`
	ECI   int    `json:"ei"`
	Phy   bool   `json:"phy"`
	Root  bool   `json:"root"`
}

type DCnr struct {
	C       int       `json:"c"`
	Present bool      `json:"present"`
	CGC     bool      `json:"cgc"`
	Objs    []DObj    `json:"objs"`
	Garb    [][2]int  `json:"garb"` // id, mark (0 default, 1 redundant, other: 2)
	Cnt     [7]uint64 `json:"cnt"`
	Recount [7]uint64 `json:"recount"`
	Info    [2]uint64 `json:"info"` // storage size, objects number
	Bad     int       `json:"bad"`  // inconsistencies found by the dump (0 expected)
}

type Obs struct {
	Epoch   uint64     `json:"epoch"`
	Cnrs    []DCnr     `json:"cnrs"`
	Total   [7]uint64  `json:"total"`
	Exists  [][]int    `json:"exists"`  // per container, per oid 1..nOID
	ExistsI [][]int    `json:"existsi"` // ignoreExpiration
	Get     [][]int    `json:"get"`
	GetRaw  [][]int    `json:"getraw"`
	Locked  [][]int    `json:"locked"`
	Search  [][]int    `json:"search"` // per container ordered ids
	SearchR [][]int    `json:"searchr"`
	EC      [][][]int  `json:"ec"`      // per container, per oid: for each probe class*10^6 + id*10^4 + link*100 + last
	List    [][3]int   `json:"list"`    // full listing (cnr, id, type)
	Pages   [][][3]int `json:"pages"`   // listing by pages of pageSize
	Expired [][][3]int `json:"expired"` // for each probe epoch: ordered (cnr, id, type)
	ExpEp   []uint64   `json:"expep"`
	Garbage [][][]int  `json:"garbage"` // per limit: bins [cnr, ids...]
	GarbLim []int      `json:"garblim"`
}

type Step struct {
	Res []int64 `json:"res"`
	Obs *Obs    `json:"obs,omitempty"`
}

type History struct {
	I     int    `json:"i"`
	Ops   []Op   `json:"ops"`
	Steps []Step `json:"steps"`
}

var ecProbes = [][2]int{{0, 0}, {0, 1}, {0, -1}, {1, 0}}

const pageSize = 4

func cnt7(c meta.ObjectCounters) [7]uint64 {
	return [7]uint64{c.Phy, c.Root, c.TS, c.Lock, c.Link, c.GC, c.Payload}
}

func diff7(d meta.CountersDiff) []int64 {
	return []int64{int64(d.Phy), int64(d.Root), int64(d.TS), int64(d.Lock), int64(d.Link), int64(d.GC), d.Payload}
}

func must(err error) {
	if err != nil {
		fmt.Fprintln(os.Stderr, "harness internal error:", err)
		os.Exit(3)
	}
}

func dumpCnr(db *meta.DB, c int) DCnr {
	d, err := db.VerifDumpContainer(mkCID(c))
	must(err)
	res := DCnr{C: c, Present: d.Present, CGC: d.CGC, Objs: []DObj{}, Garb: [][2]int{}}
	if !d.Consistent && d.Present {
		res.Bad++
		if os.Getenv("VERIF_DEBUG") != "" {
			fmt.Fprintln(os.Stderr, "inconsistent:", d.Why)
		}
	}
	res.Bad += d.Unknown
	byID := map[oid.ID]*DObj{}
	var order []oid.ID
	for _, id := range d.IDs {
		byID[id] = &DObj{ID: unOID(id), T: 9, Exp: -1, ECR: -1, ECI: -1}
		order = append(order, id)
	}
	for _, a := range d.Attrs {
		o := byID[a.ID]
		if o == nil {
			res.Bad++ // attribute without ID key
			continue
		}
		switch a.Key {
		case object.FilterType:
			var t object.Type
			if t.DecodeString(string(a.Val)) {
				o.T = typeIdx(t)
			}
		case object.FilterPayloadSize:
			o.Size, _ = strconv.ParseUint(string(a.Val), 10, 64)
		case object.AttributeExpirationEpoch:
			v, err := strconv.ParseUint(string(a.Val), 10, 63)
			if err == nil {
				o.Exp = int64(v)
			} else {
				res.Bad++
			}
		case object.AttributeAssociatedObject:
			if len(a.Val) == 32 {
				o.Assoc = unOID(oid.ID(a.Val))
			} else {
				res.Bad++
			}
		case object.FilterParentID:
			if len(a.Val) == 32 {
				o.ParID = unOID(oid.ID(a.Val))
			} else {
				res.Bad++
			}
		case object.FilterFirstSplitObject:
			if len(a.Val) == 32 {
				o.First = unOID(oid.ID(a.Val))
			} else {
				res.Bad++
			}
		case object.FilterSplitID:
			if len(a.Val) == 16 {
				o.Split = int(a.Val[15])
			} else {
				res.Bad++
			}
		case iec.AttributeRuleIdx:
			o.ECR, _ = strconv.Atoi(string(a.Val))
		case iec.AttributePartIdx:
			o.ECI, _ = strconv.Atoi(string(a.Val))
		case object.FilterPhysical:
			o.Phy = string(a.Val) == "1"
		case object.FilterRoot:
			o.Root = string(a.Val) == "1"
		}
	}
	for _, id := range order {
		res.Objs = append(res.Objs, *byID[id])
	}
	for _, g := range d.Garbage {
		m := 2
		if len(g.Mark) == 0 {
			m = 0
		} else if len(g.Mark) == 1 && g.Mark[0] == byte(meta.GarbageMarkRedundant) {
			m = 1
		}
		res.Garb = append(res.Garb, [2]int{unOID(g.ID), m})
	}
	res.Cnt = cnt7(d.Counters)
	rc, _, err := db.VerifRecount(mkCID(c))
	must(err)
	res.Recount = cnt7(rc)
	info, err := db.GetContainerInfo(mkCID(c))
	must(err)
	res.Info = [2]uint64{info.StorageSize, info.ObjectsNumber}
	return res
}

// selectIDs returns the ordered object IDs DB.Select reports. DB.Select asks DB.Search for
// math.MaxUint16 items per call, and the unfiltered search zeroes a result buffer of that size
// (3.6 MB) on every call, which was 60% of the harness CPU time. With viaSelect=false the same
// loop as in DB.Select (PreprocessSearchQuery -> DB.Search -> cursor) is run with a page of
// selectPage items; the last observation of every history goes through DB.Select itself and
// both ways are compared there.
const selectPage = 8

func selectIDs(db *meta.DB, c int, fs object.SearchFilters, viaSelect bool) []int {
	ids := []int{}
	if viaSelect {
		addrs, err := db.Select(mkCID(c), fs)
		must(err)
		for _, a := range addrs {
			ids = append(ids, unOID(a.Object()))
		}
		return ids
	}
	var attrs []string
	if len(fs) > 0 {
		attrs = append(attrs, fs[0].Header())
	}
	cursor := ""
	for n := 0; n < 1000; n++ {
		ofs, cur, err := objectcore.PreprocessSearchQuery(fs, attrs, cursor)
		must(err)
		res, newCursor, err := db.Search(mkCID(c), ofs, attrs, cur, selectPage)
		must(err)
		for i := range res {
			ids = append(ids, unOID(res[i].ID))
		}
		if len(newCursor) == 0 {
			break
		}
		cursor = base64.StdEncoding.EncodeToString(newCursor)
	}
	return ids
}

func sameInts(a, b []int) bool {
	if len(a) != len(b) {
		return false
	}
	for i := range a {
		if a[i] != b[i] {
			return false
		}
	}
	return true
}

func observe(db *meta.DB, es *epochState, viaSelect bool) *Obs {
	o := &Obs{Epoch: es.CurrentEpoch()}
	tot, err := db.ObjectCounters()
	must(err)
	o.Total = cnt7(tot)
	for c := 1; c <= nCnr; c++ {
		o.Cnrs = append(o.Cnrs, dumpCnr(db, c))
		var ex, exi, gt, gr, lk []int
		var ecs [][]int
		for i := 1; i <= nOID; i++ {
			addr := oid.NewAddress(mkCID(c), mkOID(i))
			ok, err := db.Exists(addr, false)
			cl := viewClass(err)
			if err == nil && !ok {
				cl = vAbsent
			}
			ex = append(ex, cl)
			ok, err = db.Exists(addr, true)
			cl = viewClass(err)
			if err == nil && !ok {
				cl = vAbsent
			}
			exi = append(exi, cl)
			_, err = db.Get(addr, false)
			gt = append(gt, viewClass(err))
			_, err = db.Get(addr, true)
			gr = append(gr, viewClass(err))
			l, err := db.IsLocked(addr)
			must(err)
			if l {
				lk = append(lk, 1)
			} else {
				lk = append(lk, 0)
			}
			var probe []int
			for _, p := range ecProbes {
				id, err := db.ResolveECPart(mkCID(c), mkOID(i), iec.PartInfo{RuleIndex: p[0], Index: p[1]})
				cl := viewClass(err)
				var link, last int
				var si *object.SplitInfoError
				if errors.As(err, &si) {
					link = unOID(si.SplitInfo().GetLink())
					last = unOID(si.SplitInfo().GetLastPart())
				}
				rid := 0
				if err == nil {
					rid = unOID(id)
				}
				probe = append(probe, cl*1000000+rid*10000+link*100+last)
			}
			ecs = append(ecs, probe)
		}
		o.Exists = append(o.Exists, ex)
		o.ExistsI = append(o.ExistsI, exi)
		o.Get = append(o.Get, gt)
		o.GetRaw = append(o.GetRaw, gr)
		o.Locked = append(o.Locked, lk)
		o.EC = append(o.EC, ecs)

		var fs object.SearchFilters
		fs.AddRootFilter()
		o.Search = append(o.Search, selectIDs(db, c, nil, viaSelect))
		o.SearchR = append(o.SearchR, selectIDs(db, c, fs, viaSelect))
		if viaSelect && (!sameInts(o.Search[c-1], selectIDs(db, c, nil, false)) || !sameInts(o.SearchR[c-1], selectIDs(db, c, fs, false))) {
			o.Cnrs[c-1].Bad++ // DB.Select and the paged DB.Search loop disagree
		}
	}
	// listing
	o.List = [][3]int{}
	res, _, err := db.ListWithCursor(10000, nil)
	if err != nil && !errors.Is(err, meta.ErrEndOfListing) {
		must(err)
	}
	for _, a := range res {
		o.List = append(o.List, [3]int{unCID(a.Address.Container()), unOID(a.Address.Object()), typeIdx(a.Type)})
	}
	o.Pages = [][][3]int{}
	var cur *meta.Cursor
	for n := 0; n < 1000; n++ {
		var page []objectcore.AddressWithAttributes
		page, cur, err = db.ListWithCursor(pageSize, cur)
		if errors.Is(err, meta.ErrEndOfListing) {
			break
		}
		must(err)
		p := [][3]int{}
		for _, a := range page {
			p = append(p, [3]int{unCID(a.Address.Container()), unOID(a.Address.Object()), typeIdx(a.Type)})
		}
		o.Pages = append(o.Pages, p)
	}
	// expired iteration at the current epoch and at two other epochs
	o.ExpEp = []uint64{o.Epoch, o.Epoch + 2, 100}
	for _, e := range o.ExpEp {
		l := [][3]int{}
		must(db.IterateExpired(e, func(a oid.Address, t object.Type) error {
			l = append(l, [3]int{unCID(a.Container()), unOID(a.Object()), typeIdx(t)})
			return nil
		}))
		o.Expired = append(o.Expired, l)
	}
	o.GarbLim = []int{10000, 3}
	for _, lim := range o.GarbLim {
		bins, err := db.GetGarbage(lim)
		must(err)
		bs := [][]int{}
		for _, b := range bins {
			x := []int{unCID(b.Container)}
			for _, id := range b.Objects {
				x = append(x, unOID(id))
			}
			bs = append(bs, x)
		}
		o.Garbage = append(o.Garbage, bs)
	}
	return o
}

// ---------------------------------------------------------------- running

func openDB(dir string, es *epochState) *meta.DB {
	db := meta.New(
		meta.WithPath(filepath.Join(dir, "meta.db")),
		meta.WithPermissions(0o600),
		meta.WithEpochState(es),
		meta.WithMaxBatchDelay(time.Microsecond),
		meta.WithLogger(zap.NewNop()),
		meta.WithBoltDBOptions(&bbolt.Options{NoSync: true, NoFreelistSync: true, Timeout: time.Second}),
	)
	must(db.Open(false))
	must(db.Init(common.ID{}))
	return db
}

func apply(db *meta.DB, es *epochState, op Op) []int64 {
	switch op.K {
	case "put":
		d, err := db.PutCounted(build(op.O))
		return append([]int64{errClass(err)}, diff7(d)...)
	case "batch":
		var objs []*object.Object
		for _, o := range op.Os {
			objs = append(objs, build(o))
		}
		err := db.PutBatch(objs)
		return []int64{errClass(err)}
	case "mark":
		ids := make([]oid.ID, len(op.IDs))
		for i, x := range op.IDs {
			ids[i] = mkOID(x)
		}
		d, err := db.MarkGarbage(mkCID(op.C), ids, meta.GarbageMark(op.M))
		return []int64{errClass(err), int64(d.NewGarbage), d.PayloadDiff}
	case "inhc":
		d, err := db.InhumeContainer(mkCID(op.C))
		return append([]int64{errClass(err)}, diff7(d)...)
	case "del":
		ids := make([]oid.ID, len(op.IDs))
		for i, x := range op.IDs {
			ids[i] = mkOID(x)
		}
		rem, d, err := db.Delete(mkCID(op.C), ids)
		r := append([]int64{errClass(err)}, diff7(d)...)
		for _, x := range rem {
			r = append(r, int64(unOID(x)))
		}
		return r
	case "rev":
		st, err := db.ReviveObject(oid.NewAddress(mkCID(op.C), mkOID(op.ID)))
		cl := int64(0)
		switch {
		case err == nil:
		case errors.Is(err, meta.ErrObjectWasNotRemoved):
			cl = 1
		case errors.Is(err, meta.ErrReviveFromContainerGarbage):
			cl = 2
		default:
			cl = 3
		}
		tomb := int64(0)
		if a := st.TombstoneAddress(); !a.Object().IsZero() {
			tomb = int64(unOID(a.Object()))
		}
		return []int64{cl, int64(st.StatusType()), tomb}
	case "epoch":
		es.e.Store(op.E)
		return []int64{}
	case "delc":
		err := db.DeleteContainer(mkCID(op.C))
		return []int64{errClass(err)}
	}
	fmt.Fprintln(os.Stderr, "unknown op", op.K)
	os.Exit(3)
	return nil
}

func tmpBase() string {
	if st, err := os.Stat("/dev/shm"); err == nil && st.IsDir() {
		return "/dev/shm"
	}
	return ""
}

func runHistory(i int, ops []Op, every int) History {
	dir, err := os.MkdirTemp(tmpBase(), "verif-meta-")
	must(err)
	defer os.RemoveAll(dir)
	es := &epochState{}
	db := openDB(dir, es)
	defer db.Close()
	h := History{I: i, Ops: ops}
	for k, op := range ops {
		st := Step{Res: apply(db, es, op)}
		if every <= 1 || (k+1)%every == 0 || k == len(ops)-1 {
			st.Obs = observe(db, es, k == len(ops)-1)
		}
		h.Steps = append(h.Steps, st)
	}
	return h
}

// ---------------------------------------------------------------- generator

type rng struct{ s uint64 }

func (r *rng) next() uint64 {
	r.s += 0x9e3779b97f4a7c15
	z := r.s
	z = (z ^ (z >> 30)) * 0xbf58476d1ce4e5b9
	z = (z ^ (z >> 27)) * 0x94d049bb133111eb
	return z ^ (z >> 31)
}
func (r *rng) n(k int) int       { return int(r.next() % uint64(k)) }
func (r *rng) p(pct int) bool    { return r.n(100) < pct }
func (r *rng) pick(xs []int) int { return xs[r.n(len(xs))] }

type gen struct {
	r       *rng
	profile string // "s1": no relations; "full"
	ncnr    int
	epoch   uint64
	cat     [nCnr + 1][nOID + 1]*Obj // an object ID always denotes the same header within a history
	// profile "s1c": operations mostly aim at objects that are (probably) stored, so that long
	// prefixes stay inside the fragment for which the counters are proved exact (C02)
	stored [nCnr + 1][nOID + 1]bool
}

func (g *gen) storedID(c int) int {
	var ids []int
	for id := 1; id <= nOID; id++ {
		if g.stored[c][id] {
			ids = append(ids, id)
		}
	}
	if len(ids) == 0 || g.r.p(8) {
		return g.oid()
	}
	return ids[g.r.n(len(ids))]
}

func (g *gen) oid() int { return 1 + g.r.n(nOID) }
func (g *gen) cnr() int {
	if g.r.p(70) {
		return 1
	}
	return 1 + g.r.n(g.ncnr)
}

func (g *gen) exp() int64 {
	if g.r.p(55) {
		return -1
	}
	return int64(g.r.n(9))
}

func (g *gen) size() uint64 {
	switch g.r.n(10) {
	case 0:
		return 0
	case 1:
		return 1 << 20
	default:
		return uint64(1 + g.r.n(9))
	}
}

func (g *gen) plain(c int, id int, t int) *Obj {
	o := &Obj{C: c, ID: id, T: t, Exp: g.exp(), ECR: -1, ECI: -1}
	switch t {
	case 0, 3:
		o.Size = g.size()
	case 1, 2:
		o.Assoc = g.oid()
		if o.Assoc == id { // an object cannot name itself (its ID is the hash of its header)
			o.Assoc = 1 + id%nOID
		}
		if g.r.p(2) {
			o.Assoc = 0 // malformed: no target
		}
	}
	return o
}

// shape draws the header of (c, id). The family relations are layered so that
// they cannot be cyclic (object IDs are header hashes; a cyclic family cannot
// exist and collectChildren would not terminate on one):
//
//	1..4   roots: plain objects, rarely with a parent among smaller roots
//	5..6   first children (the IDs used as split.first), parent among the roots
//	7..10  plain objects, EC parts (parent: any smaller ID), v2 split children
//	       and links (first in 5..6, parent among the roots), v1 split children
func (g *gen) shape(c, id int) *Obj {
	if g.profile == "s1" || g.profile == "s1c" || g.profile == "ml" {
		t := []int{0, 0, 0, 0, 1, 1, 2, 2, 3}[g.r.n(9)]
		return g.plain(c, id, t)
	}
	root := func() int { return 1 + g.r.n(4) }
	plain := func() *Obj {
		switch k := g.r.n(100); {
		case k < 50:
			return g.plain(c, id, 0)
		case k < 72:
			return g.plain(c, id, 1)
		case k < 94:
			return g.plain(c, id, 2)
		default:
			return g.plain(c, id, 3)
		}
	}
	if id <= 4 {
		o := plain()
		if id > 1 && g.r.p(12) {
			o.ParID = 1 + g.r.n(id-1)
			if g.r.p(50) {
				o.ECR, o.ECI = g.r.n(2), g.r.n(3)
			}
		}
		return o
	}
	if id <= 6 {
		o := g.plain(c, id, 0)
		if g.r.p(50) {
			o.ParID = root()
		}
		return o
	}
	switch k := g.r.n(100); {
	case k < 35:
		return plain()
	case k < 60: // EC part
		o := g.plain(c, id, 0)
		o.ParID = 1 + g.r.n(id-1)
		if g.r.p(70) {
			o.ParID = 1 + g.r.n(6)
		}
		o.ECR = g.r.n(2)
		o.ECI = g.r.n(3)
		if g.r.p(5) {
			o.ECI = -1
		}
		return o
	case k < 75: // v2 split child
		o := g.plain(c, id, 0)
		o.First = 5 + g.r.n(2)
		if g.r.p(55) {
			o.ParID = root()
		}
		return o
	case k < 85: // link object
		o := g.plain(c, id, 3)
		o.First = 5 + g.r.n(2)
		o.ParID = root()
		return o
	default: // v1 split child
		o := g.plain(c, id, 0)
		o.Split = 1 + g.r.n(2)
		if g.r.p(60) {
			o.ParID = root()
		}
		if g.r.p(20) {
			o.Size = 0
		}
		return o
	}
}

func (g *gen) mkCatalog() {
	for c := 1; c <= nCnr; c++ {
		for id := 1; id <= nOID; id++ {
			g.cat[c][id] = g.shape(c, id)
		}
	}
	// whether a child carries the parent's header (or only its ID) is a property of the child
	for c := 1; c <= nCnr; c++ {
		for id := 1; id <= nOID; id++ {
			o := g.cat[c][id]
			if o.ParID > 0 && o.ParID < id && g.r.p(80) {
				o.Par = g.cat[c][o.ParID]
			}
		}
	}
}

// materialize copies the header of (c,id) with embedded parent headers cut at
// depth d (the catalog may be cyclic).
func (g *gen) materialize(o *Obj, d int) *Obj {
	cp := *o
	if o.Par != nil {
		if d == 0 {
			cp.Par = nil // keep ParID only
		} else {
			cp.Par = g.materialize(o.Par, d-1)
		}
	}
	return &cp
}

func (g *gen) object(c int) *Obj {
	o := g.cat[c][g.oid()]
	if g.profile == "s1c" {
		for i := 0; i < 4 && o.T == 1 && !g.stored[c][o.Assoc%(nOID+1)]; i++ {
			o = g.cat[c][g.oid()] // tombstones preferably for stored targets
		}
		g.stored[c][o.ID] = true
	}
	d := 3
	if g.r.p(10) {
		d = g.r.n(3)
	}
	return g.materialize(o, d)
}

func (g *gen) ids1(c int) []int {
	if g.profile != "s1c" {
		return g.ids()
	}
	n := 1
	if g.r.p(30) {
		n = 2
	}
	var res []int
	for i := 0; i < n; i++ {
		res = append(res, g.storedID(c))
	}
	return res
}

func (g *gen) ids() []int {
	n := 1
	if g.r.p(35) {
		n = 2 + g.r.n(2)
	}
	var res []int
	for i := 0; i < n; i++ {
		res = append(res, g.oid())
	}
	return res
}

func (g *gen) anyStored(c int) bool {
	for id := 1; id <= nOID; id++ {
		if g.stored[c][id] {
			return true
		}
	}
	return false
}

func (g *gen) op() Op {
	k := g.r.n(100)
	if g.profile == "s1c" && k >= 45 && k < 86 && !g.anyStored(1) {
		k = 0 // nothing to mark / delete / revive yet: put
	}
	switch {
	case k < 42:
		c := g.cnr()
		return Op{K: "put", C: c, O: g.object(c)}
	case k < 45:
		c := g.cnr()
		n := 2 + g.r.n(2)
		var os []*Obj
		for i := 0; i < n; i++ {
			os = append(os, g.object(c))
		}
		return Op{K: "batch", C: c, Os: os}
	case k < 60:
		m := 0
		if g.r.p(35) {
			m = 1
		}
		c := g.cnr()
		return Op{K: "mark", C: c, IDs: g.ids1(c), M: m}
	case k < 62:
		return Op{K: "inhc", C: 1 + g.r.n(g.ncnr)}
	case k < 75:
		c := g.cnr()
		ids := g.ids1(c)
		for _, id := range ids {
			g.stored[c][id] = false
		}
		return Op{K: "del", C: c, IDs: ids}
	case k < 86:
		c := g.cnr()
		if g.profile == "s1c" {
			return Op{K: "rev", C: c, ID: g.storedID(c)}
		}
		return Op{K: "rev", C: c, ID: g.oid()}
	case k < 99:
		// mostly advance, sometimes jump anywhere in 0..10
		e := g.epoch + uint64(1+g.r.n(2))
		if g.r.p(15) || e > 10 {
			e = uint64(g.r.n(11))
		}
		g.epoch = e
		return Op{K: "epoch", E: e}
	default:
		return Op{K: "delc", C: 1 + g.r.n(g.ncnr)}
	}
}

func genHistory(seed uint64, i int, length int, profile string) []Op {
	r0 := &rng{s: seed}
	r1 := &rng{s: uint64(i) * 0xD1342543DE82EF95}
	r := &rng{s: r0.next() ^ r1.next()}
	r.next()
	g := &gen{r: r, profile: profile, ncnr: nCnr}
	g.mkCatalog()
	n := 1 + length/2 + r.n(length/2+1)
	if n > length {
		n = length
	}
	ops := make([]Op, 0, n+12)
	if profile == "ml" {
		ops = append(ops, g.multiLock(i)...)
		n += len(ops) / 2
	}
	for len(ops) < n {
		ops = append(ops, g.op())
	}
	return ops
}

// liveness kinds of an object associated with a target (multiLock)
const (
	aLive = iota // LOCK that stays unexpired at the epoch of the queries
	aExpd        // LOCK that has expired at the epoch of the queries (still stored)
	aMark        // LOCK carrying a default garbage mark (removed itself)
	aRedu        // LOCK carrying a redundant mark (still protects)
	aNonL        // not a LOCK at all: regular / link object with the association attribute
	aKinds
)

// multiLock (profile "ml") is the scripted opening "several associated objects on ONE
// target": object (1,1) gets the associated objects 3 < 5 < 7 whose liveness is mixed
// systematically in both ID orders (variant k), so that every view depending on "locked"
// is decided by a lock that is neither the first nor the only entry of the association
// index; 4 is the tombstone for the same target. Then the epoch moves past the early
// expirations (nothing collects the expired locks here) and the tombstone is attempted.
func (g *gen) multiLock(k int) []Op {
	r := g.r
	var kinds [3]int
	rnd := func() int { return r.n(aKinds) }
	switch k % 8 {
	case 0:
		kinds = [3]int{aExpd, aLive, rnd()}
	case 1:
		kinds = [3]int{aLive, aExpd, rnd()}
	case 2:
		kinds = [3]int{aMark, aLive, rnd()}
	case 3:
		kinds = [3]int{aLive, aMark, rnd()}
	case 4:
		kinds = [3]int{aNonL, aLive, rnd()}
	case 5:
		kinds = [3]int{aExpd, aMark, aLive}
	case 6:
		kinds = [3]int{aNonL, aExpd, aLive}
	default:
		kinds = [3]int{rnd(), rnd(), rnd()} // also: no live lock at all
	}
	tgt := &Obj{C: 1, ID: 1, T: 0, Size: 3, Exp: -1, ECR: -1, ECI: -1}
	if r.p(50) {
		tgt.Exp = 1 // the target itself expires: only a live lock keeps it visible
	}
	g.cat[1][1] = tgt
	g.cat[1][4] = &Obj{C: 1, ID: 4, T: 1, Exp: -1, Assoc: 1, ECR: -1, ECI: -1}
	ids := [3]int{3, 5, 7}
	var marks []Op
	for j, id := range ids {
		o := &Obj{C: 1, ID: id, T: 2, Exp: -1, Assoc: 1, ECR: -1, ECI: -1}
		switch kinds[j] {
		case aLive:
			if r.p(50) {
				o.Exp = int64(6 + r.n(3))
			}
		case aExpd:
			o.Exp = int64(1 + r.n(2))
		case aMark:
			marks = append(marks, Op{K: "mark", C: 1, IDs: []int{id}, M: 0})
		case aRedu:
			marks = append(marks, Op{K: "mark", C: 1, IDs: []int{id}, M: 1})
		case aNonL:
			o.T = []int{0, 3}[r.n(2)]
			o.Size = uint64(1 + r.n(5))
		}
		g.cat[1][id] = o
	}
	put := func(id int) Op {
		g.stored[1][id] = true
		return Op{K: "put", C: 1, O: g.materialize(g.cat[1][id], 3)}
	}
	ops := []Op{put(1)}
	perm := [][3]int{{0, 1, 2}, {0, 2, 1}, {1, 0, 2}, {1, 2, 0}, {2, 0, 1}, {2, 1, 0}}[r.n(6)]
	for _, j := range perm {
		ops = append(ops, put(ids[j]))
	}
	ops = append(ops, marks...)
	g.epoch = 3
	ops = append(ops, Op{K: "epoch", E: 3}, put(4))
	return ops
}

// ---------------------------------------------------------------- main

func runAll(hs [][]Op, every int) {
	out := make([]History, len(hs))
	var wg sync.WaitGroup
	sem := make(chan struct{}, 16)
	for i := range hs {
		wg.Add(1)
		sem <- struct{}{}
		go func(i int) {
			defer wg.Done()
			defer func() { <-sem }()
			out[i] = runHistory(i, hs[i], every)
		}(i)
	}
	wg.Wait()
	w := bufio.NewWriterSize(os.Stdout, 1<<20)
	enc := json.NewEncoder(w)
	for i := range out {
		must(enc.Encode(out[i]))
	}
	must(w.Flush())
}

func main() {
	if len(os.Args) < 2 {
		fmt.Fprintln(os.Stderr, "usage: meta consts | hist <n> <len> <profile> <every> | replay <every> < histories.json")
		os.Exit(2)
	}
	if pf := os.Getenv("VERIF_CPUPROFILE"); pf != "" {
		f, err := os.Create(pf)
		must(err)
		must(pprof.StartCPUProfile(f))
		defer pprof.StopCPUProfile()
	}
	switch os.Args[1] {
	case "consts":
		m := meta.VerifConsts()
		keys := make([]string, 0, len(m))
		for k := range m {
			keys = append(keys, k)
		}
		sort.Strings(keys)
		out := map[string]int{}
		for _, k := range keys {
			out[k] = m[k]
		}
		must(json.NewEncoder(os.Stdout).Encode(out))
	case "hist":
		n, _ := strconv.Atoi(os.Args[2])
		ln, _ := strconv.Atoi(os.Args[3])
		profile := os.Args[4]
		every, _ := strconv.Atoi(os.Args[5])
		seed, _ := strconv.ParseUint(os.Getenv("VERIF_SEED"), 10, 64)
		hs := make([][]Op, n)
		for i := range hs {
			hs[i] = genHistory(seed, i, ln, profile)
		}
		runAll(hs, every)
	case "list":
		n, _ := strconv.Atoi(os.Args[2])
		seed, _ := strconv.ParseUint(os.Getenv("VERIF_SEED"), 10, 64)
		runList(n, seed)
	case "replay":
		every, _ := strconv.Atoi(os.Args[2])
		var hs [][]Op
		dec := json.NewDecoder(bufio.NewReaderSize(os.Stdin, 1<<20))
		for dec.More() {
			var ops []Op
			must(dec.Decode(&ops))
			hs = append(hs, ops)
		}
		runAll(hs, every)
	default:
		fmt.Fprintln(os.Stderr, "unknown command")
		os.Exit(2)
	}
}
