//go:build verif

package putsvc

import (
	"bytes"
	"context"
	"errors"

	iec "github.com/nspcc-dev/neofs-node/internal/ec"
	apistatus "github.com/nspcc-dev/neofs-sdk-go/client/status"
	neofscrypto "github.com/nspcc-dev/neofs-sdk-go/crypto"
	"github.com/nspcc-dev/neofs-sdk-go/netmap"
	"github.com/nspcc-dev/neofs-sdk-go/object"
	"go.uber.org/zap"
)

// Add-only accessor for the /verif placement family (C25): runs the real
// distributedTarget placement (WriteHeader, Write, saveObject) of one REGULAR
// object over the given collaborators.

// VerifPlacePutPrm groups the collaborators of one PUT.
type VerifPlacePutPrm struct {
	Net           NeoFSNetwork
	Nodes         ContainerNodes
	Local         ObjectStorage
	Transport     Transport
	LocalSigner   neofscrypto.Signer
	SessionSigner neofscrypto.Signer // nil: object sealed by the client
	Initial       *netmap.InitialPlacementPolicy
	PostPlacement PostPlacementReplicator
	Object        *object.Object // with payload
}

// VerifPlacePut returns 0 on full success, 1 for an explicitly incomplete
// result, 2 for any other error.
func VerifPlacePut(prm VerifPlacePutPrm) int {
	t := &distributedTarget{
		opCtx:                   context.Background(),
		placementIterator:       placementIterator{log: zap.NewNop(), neoFSNet: prm.Net},
		containerNodes:          prm.Nodes,
		localNodeInContainer:    true,
		localNodeSigner:         prm.LocalSigner,
		sessionSigner:           prm.SessionSigner,
		localStorage:            prm.Local,
		transport:               prm.Transport,
		ecPart:                  iec.PartInfo{RuleIndex: -1, Index: -1},
		initialPolicy:           prm.Initial,
		postPlacementReplicator: prm.PostPlacement,
	}
	if prm.SessionSigner != nil {
		t.ecRules = prm.Nodes.ECRules()
	}
	t.ecSplitOnlyObject = len(prm.Nodes.PrimaryCounts()) == 0 && len(prm.Nodes.ECRules()) > 0

	payload := prm.Object.Payload()
	hdr := *prm.Object
	hdr.SetPayload(nil)
	if len(t.ecRules) > 0 {
		if err := t.modifyECParentObject(&hdr, bytes.NewReader(payload)); err != nil {
			return 2
		}
	}
	if err := t.WriteHeader(&hdr); err != nil {
		return 2
	}
	if _, err := t.Write(payload); err != nil {
		return 2
	}
	if !t.doNotEncodeOriginalObject(t.obj) {
		t.obj.SetPayload(t.encodedObject.b[t.encodedObject.pldOff:])
	}
	err := t.saveObject(*t.obj, t.encodedObject)
	switch {
	case err == nil:
		return 0
	case errors.Is(err, apistatus.ErrIncomplete):
		return 1
	default:
		return 2
	}
}
