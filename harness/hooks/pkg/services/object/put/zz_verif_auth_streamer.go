//go:build verif

package putsvc

import (
	"github.com/nspcc-dev/neofs-sdk-go/object"
	oid "github.com/nspcc-dev/neofs-sdk-go/object/id"
)

type verifBusyTarget struct{}

func (verifBusyTarget) WriteHeader(*object.Object) error { return errInitRecall }
func (verifBusyTarget) Write(p []byte) (int, error)      { return 0, errInitRecall }
func (verifBusyTarget) Close() (oid.ID, error)           { return oid.ID{}, errInitRecall }

// VerifBusyStreamer returns a Streamer whose Init fails cleanly ("init recall") instead of
// touching real placement/storage: reaching Init is the observable "the PUT passed access control".
func VerifBusyStreamer() *Streamer { return &Streamer{target: verifBusyTarget{}} }
