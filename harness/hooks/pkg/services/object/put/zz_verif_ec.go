//go:build verif

package putsvc

import (
	"context"
	"io"
	"slices"

	iec "github.com/nspcc-dev/neofs-node/internal/ec"
	"github.com/nspcc-dev/neofs-sdk-go/object"
	oid "github.com/nspcc-dev/neofs-sdk-go/object/id"
	"github.com/nspcc-dev/neofs-sdk-go/user"
)

// VerifECParent is what distributedTarget.modifyECParentObject left behind for
// one object of the split chain (add-only accessor for /verif, C21).
type VerifECParent struct {
	PayloadLen int        // hdr.PayloadSize() seen by the modifier
	Len, Cap   int        // len/cap of t.objectPayload at encoding time
	Payload    []byte     // t.objectPayload after all rules were encoded
	Parts      [][][]byte // t.encodedECParts after all rules were encoded
	Err        bool
}

type verifDiscardTarget struct{}

func (verifDiscardTarget) WriteHeader(*object.Object) error { return nil }
func (verifDiscardTarget) Write(p []byte) (int, error)     { return len(p), nil }
func (verifDiscardTarget) Close() (oid.ID, error)          { return oid.ID{}, nil }

// VerifECParentsViaSlicer streams payload in the given chunks through the real
// slicing target (SDK slicer configured exactly as slicingTarget.WriteHeader
// does) with distributedTarget.modifyECParentObject as split-chain modifier,
// using a fresh distributedTarget{ecRules: rules} per produced object.
func VerifECParentsViaSlicer(rules []iec.Rule, hdr object.Object, signer user.Signer, maxObjSize uint64, payload []byte, chunk int) ([]VerifECParent, error) {
	var res []VerifECParent
	mod := func(h *object.Object, r io.Reader) error {
		t := &distributedTarget{ecRules: rules}
		err := t.modifyECParentObject(h, r)
		if h.Type() != object.TypeRegular {
			return err
		}
		v := VerifECParent{PayloadLen: int(h.PayloadSize()), Len: len(t.objectPayload), Cap: cap(t.objectPayload), Err: err != nil}
		v.Payload = slices.Clone(t.objectPayload)
		for _, ps := range t.encodedECParts {
			cp := make([][]byte, len(ps))
			for i := range ps {
				cp[i] = slices.Clone(ps[i])
			}
			v.Parts = append(v.Parts, cp)
		}
		res = append(res, v)
		return err
	}
	tgt := newSlicingTarget(context.Background(), maxObjSize, signer, nil, nil, 10, verifDiscardTarget{}, mod)
	if err := tgt.WriteHeader(&hdr); err != nil {
		return nil, err
	}
	for off := 0; off < len(payload); off += chunk {
		end := min(off+chunk, len(payload))
		if _, err := tgt.Write(payload[off:end]); err != nil {
			return res, err
		}
	}
	if _, err := tgt.Close(); err != nil {
		return res, err
	}
	return res, nil
}
