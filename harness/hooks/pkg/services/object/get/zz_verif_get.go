//go:build verif

package getsvc

import (
	"bytes"
	"context"
	"crypto/ecdsa"
	"errors"
	"io"
	"sync"

	iec "github.com/nspcc-dev/neofs-node/internal/ec"
	"github.com/nspcc-dev/neofs-node/pkg/local_object_storage/blobstor/common"
	apistatus "github.com/nspcc-dev/neofs-sdk-go/client/status"
	cid "github.com/nspcc-dev/neofs-sdk-go/container/id"
	"github.com/nspcc-dev/neofs-sdk-go/netmap"
	"github.com/nspcc-dev/neofs-sdk-go/object"
	oid "github.com/nspcc-dev/neofs-sdk-go/object/id"
	sessionv2 "github.com/nspcc-dev/neofs-sdk-go/session/v2"
	"github.com/nspcc-dev/neofs-sdk-go/user"
	"go.uber.org/zap"
)

// VerifReq is one payload read issued to the fake local storage (add-only accessor for /verif, C23).
type VerifReq struct {
	ID     oid.ID
	EC     bool // EC part read (ID = parent)
	Part   int
	Head   bool
	Mode   common.PayloadRangeMode
	First  uint64
	Second uint64
}

// VerifStore is a local-only object storage: stored objects by ID, virtual
// (split) parents answering with split info, EC parts by (parent, rule, part).
type VerifStore struct {
	mu      sync.Mutex
	Objs    map[oid.ID]*object.Object
	Virtual map[oid.ID]*object.SplitInfo
	ECParts map[oid.ID]map[[2]int]*object.Object
	// Flaky EC parts (parent -> (rule, part) -> n): the part is stored, its header and full
	// stream are readable, but every payload *range* stream of it breaks after n bytes
	// (a node that dies in the middle of a range stream).
	Flaky map[oid.ID]map[[2]int]int
	Reqs  []VerifReq
}

// verifBrokenReader yields the bytes of r and then a non-EOF error.
type verifBrokenReader struct{ r io.Reader }

var errVerifBrokenStream = errors.New("verif: stream broken")

func (b verifBrokenReader) Read(p []byte) (int, error) {
	n, err := b.r.Read(p)
	if err == io.EOF {
		err = errVerifBrokenStream
	}
	return n, err
}

func VerifNewStore() *VerifStore {
	return &VerifStore{Objs: map[oid.ID]*object.Object{}, Virtual: map[oid.ID]*object.SplitInfo{}, ECParts: map[oid.ID]map[[2]int]*object.Object{},
		Flaky: map[oid.ID]map[[2]int]int{}}
}

func (st *VerifStore) record(r VerifReq) {
	st.mu.Lock()
	st.Reqs = append(st.Reqs, r)
	st.mu.Unlock()
}

func verifRange(payload []byte, rng common.PayloadRange) ([]byte, error) {
	off, ln, err := rng.Resolve(uint64(len(payload)))
	if err != nil {
		return nil, err
	}
	return payload[off : off+ln], nil
}

// localStorage.get
func (st *VerifStore) get(exec *execCtx) (*object.Object, io.ReadCloser, error) {
	id := exec.address().Object()
	if si, ok := st.Virtual[id]; ok && !exec.isRaw() {
		return nil, nil, object.NewSplitInfoError(si)
	}
	obj, ok := st.Objs[id]
	if !ok {
		return nil, nil, apistatus.ErrObjectNotFound
	}
	if exec.headOnly() {
		st.record(VerifReq{ID: id, Head: true})
		return obj.CutPayload(), nil, nil
	}
	st.record(VerifReq{ID: id, Mode: exec.payloadRange.Mode, First: exec.payloadRange.First, Second: exec.payloadRange.Second})
	pld := obj.Payload()
	if exec.hasPayloadRange() {
		var err error
		if pld, err = verifRange(pld, exec.payloadRange); err != nil {
			return nil, nil, err
		}
	}
	return obj.CutPayload(), io.NopCloser(bytes.NewReader(pld)), nil
}

type verifLocalObjects struct{ st *VerifStore }

func (l verifLocalObjects) part(parent oid.ID, pi iec.PartInfo) (*object.Object, error) {
	if si, ok := l.st.Virtual[parent]; ok {
		return nil, object.NewSplitInfoError(si)
	}
	m := l.st.ECParts[parent]
	if m == nil {
		return nil, apistatus.ErrObjectNotFound
	}
	p, ok := m[[2]int{pi.RuleIndex, pi.Index}]
	if !ok {
		return nil, apistatus.ErrObjectNotFound
	}
	return p, nil
}

func (l verifLocalObjects) GetECPart(_ context.Context, _ cid.ID, parent oid.ID, pi iec.PartInfo, _ bool) (object.Object, io.ReadCloser, error) {
	p, err := l.part(parent, pi)
	if err != nil {
		return object.Object{}, nil, err
	}
	l.st.record(VerifReq{ID: parent, EC: true, Part: pi.Index})
	return *p.CutPayload(), io.NopCloser(bytes.NewReader(p.Payload())), nil
}

func (l verifLocalObjects) GetECPartRange(_ context.Context, _ cid.ID, parent oid.ID, pi iec.PartInfo, rng common.PayloadRange, readHeader bool) (*object.Object, uint64, io.ReadCloser, error) {
	p, err := l.part(parent, pi)
	if err != nil {
		return nil, 0, nil, err
	}
	l.st.record(VerifReq{ID: parent, EC: true, Part: pi.Index, Mode: rng.Mode, First: rng.First, Second: rng.Second})
	pld, err := verifRange(p.Payload(), rng)
	if err != nil {
		return nil, 0, nil, err
	}
	var hdr *object.Object
	if readHeader {
		hdr = p.CutPayload()
	}
	var rd io.Reader = bytes.NewReader(pld)
	if n, ok := l.st.Flaky[parent][[2]int{pi.RuleIndex, pi.Index}]; ok && n < len(pld) {
		rd = verifBrokenReader{bytes.NewReader(pld[:n])}
	}
	return hdr, uint64(len(p.Payload())), io.NopCloser(rd), nil
}

func (l verifLocalObjects) ReadECPart(context.Context, cid.ID, oid.ID, iec.PartInfo, common.PayloadRange, []byte, func([]byte) error) (int, io.ReadCloser, error) {
	return 0, nil, errors.New("verif: unsupported")
}

func (l verifLocalObjects) ReadECPartRange(context.Context, cid.ID, oid.ID, iec.PartInfo, uint64, uint64, []byte, func([]byte) error) (io.ReadCloser, error) {
	return nil, errors.New("verif: unsupported")
}

func (l verifLocalObjects) Head(_ context.Context, addr oid.Address, raw bool) (*object.Object, error) {
	id := addr.Object()
	if si, ok := l.st.Virtual[id]; ok && !raw {
		return nil, object.NewSplitInfoError(si)
	}
	obj, ok := l.st.Objs[id]
	if !ok {
		return nil, apistatus.ErrObjectNotFound
	}
	l.st.record(VerifReq{ID: id, Head: true})
	return obj.CutPayload(), nil
}

func (l verifLocalObjects) ReadHeader(context.Context, oid.Address, bool, []byte) (int, error) {
	return 0, errors.New("verif: unsupported")
}

func (l verifLocalObjects) HeadECPart(_ context.Context, _ cid.ID, parent oid.ID, pi iec.PartInfo) (object.Object, error) {
	p, err := l.part(parent, pi)
	if err != nil {
		return object.Object{}, err
	}
	return *p.CutPayload(), nil
}

func (l verifLocalObjects) ReadECPartHeader(context.Context, cid.ID, oid.ID, iec.PartInfo, []byte) (int, error) {
	return 0, errors.New("verif: unsupported")
}

type verifConns struct{}

func (verifConns) InitGetObjectStream(context.Context, netmap.NodeInfo, ecdsa.PrivateKey, cid.ID, oid.ID, bool, bool, *object.Range, []string) (object.Object, io.ReadCloser, error) {
	return object.Object{}, nil, apistatus.ErrObjectNotFound
}

func (verifConns) Head(context.Context, netmap.NodeInfo, ecdsa.PrivateKey, cid.ID, oid.ID) (object.Object, error) {
	return object.Object{}, apistatus.ErrObjectNotFound
}

type verifKeys struct{ k *ecdsa.PrivateKey }

func (k verifKeys) GetKey(*user.ID) (*ecdsa.PrivateKey, error)                     { return k.k, nil }
func (k verifKeys) GetKeyBySubjects([]sessionv2.Target) (*ecdsa.PrivateKey, error) { return k.k, nil }

type verifClientCache struct{}

func (verifClientCache) get(context.Context, netmap.NodeInfo) (getClient, error) {
	return nil, errors.New("verif: no remote nodes")
}

// VerifNewService builds the real Service over the fake local storage.
func VerifNewService(st *VerifStore, net NeoFSNetwork, key *ecdsa.PrivateKey) *Service {
	s := New(net, WithLogger(zap.NewNop()))
	s.localStorage = st
	s.localObjects = verifLocalObjects{st}
	s.conns = verifConns{}
	s.clientCache = verifClientCache{}
	s.keyStore = verifKeys{key}
	return s
}
