//go:build verif

package getsvc

// Add-only accessors for the auth harness (C28): a fake object handler delivers a header
// through the writer / binary-header interceptor the Server installed, so that the
// Server's header-time eACL recheck runs as in production.

func (p Prm) VerifObjectWriter() ObjectWriter { return p.objWriter }

func (p HeadPrm) VerifObjectWriter() ObjectWriter { return p.objWriter }

func (p Prm) VerifInterceptHeaderBinary() func([]byte) error { return p.interceptHeaderBinaryFn }

// VerifBuffer returns the header buffer and the length callback of the local HEAD path.
func (p HeadPrm) VerifBuffer() ([]byte, func(int)) { return p.buffer, p.submitLenFn }
