//go:build verif

package object

import (
	"context"

	aclsvc "github.com/nspcc-dev/neofs-node/pkg/services/object/acl/v2"
	cid "github.com/nspcc-dev/neofs-sdk-go/container/id"
	oid "github.com/nspcc-dev/neofs-sdk-go/object/id"
	protoobject "github.com/nspcc-dev/neofs-sdk-go/proto/object"
	"google.golang.org/grpc/mem"
)

// VerifProxyGet feeds the GET proxy context (the code relaying a remote node's GET
// response stream to the client, get.go) with the given encoded GetResponse messages, as
// continueWithConn does, and reports how the relay ended. Add-only accessor.
func VerifProxyGet(srv *Server, base protoobject.ObjectService_GetServer, recheckEACL, payloadOnly bool,
	cnr cid.ID, id oid.ID, info aclsvc.RequestInfo, resps [][]byte) error {
	stream := &getStream{base: base, srv: srv, reqCID: cnr, reqOID: id, reqInfo: info,
		recheckEACL: recheckEACL, payloadOnly: payloadOnly}
	x := &getProxyContext{respStream: stream, suppressInit: payloadOnly}
	var prog getStreamProgress
	for _, b := range resps {
		buf := mem.BufferSlice{mem.SliceBuffer(b)}
		fin, _, err := x.handleGetResponse(context.Background(), false, &prog, buf)
		if err != nil {
			return err
		}
		if fin {
			break
		}
	}
	return nil
}
