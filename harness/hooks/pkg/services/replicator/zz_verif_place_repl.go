//go:build verif

package replicator

// VerifPlaceTaskQuantity exposes the number of copies a task asks for
// (add-only accessor for the /verif placement family).
func VerifPlaceTaskQuantity(t Task) uint32 { return t.quantity }
