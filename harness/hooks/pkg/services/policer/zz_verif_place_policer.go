//go:build verif

package policer

import (
	"context"
	"errors"
	"io"
	"time"

	objectcore "github.com/nspcc-dev/neofs-node/pkg/core/object"
	cid "github.com/nspcc-dev/neofs-sdk-go/container/id"
	neofscrypto "github.com/nspcc-dev/neofs-sdk-go/crypto"
	"github.com/nspcc-dev/neofs-sdk-go/netmap"
	"github.com/nspcc-dev/neofs-sdk-go/object"
	oid "github.com/nspcc-dev/neofs-sdk-go/object/id"
	"go.uber.org/zap"
)

// Add-only accessors for the /verif placement family (C26, C27): construct the
// real Policer over fakes and run its decision for one object synchronously.

// VerifLocalStorage is the policer's local storage interface.
type VerifLocalStorage = localStorage

// VerifReplicator is the policer's replicator interface.
type VerifReplicator = replicatorIface

// VerifHeadFunc answers remote header reads.
type VerifHeadFunc func(ctx context.Context, node netmap.NodeInfo, addr oid.Address, checkOID bool, xs []string) (object.Object, error)

type verifPlaceConns struct {
	head VerifHeadFunc
}

func (c verifPlaceConns) headObject(ctx context.Context, node netmap.NodeInfo, addr oid.Address, checkOID bool, xs []string) (object.Object, error) {
	return c.head(ctx, node, addr, checkOID, xs)
}

func (c verifPlaceConns) GetRange(context.Context, netmap.NodeInfo, cid.ID, oid.ID, uint64, uint64, []string) (io.ReadCloser, error) {
	return nil, errors.New("verif: remote range reads are not served")
}

// VerifPlaceNew builds a Policer with the given collaborators.
func VerifPlaceNew(signer neofscrypto.Signer, net Network, ls VerifLocalStorage, head VerifHeadFunc, r VerifReplicator) *Policer {
	p := New(signer, WithNetwork(net), WithLogger(zap.NewNop()), WithHeadTimeout(time.Minute))
	p.localStorage = ls
	p.apiConns = verifPlaceConns{head: head}
	p.replicator = r
	return p
}

// VerifPlaceProcessObject runs the policy check of one local object.
func (p *Policer) VerifPlaceProcessObject(ctx context.Context, obj objectcore.AddressWithAttributes) {
	p.processObject(ctx, obj)
}
