//go:build verif

package event

// Add-only accessors for the irproc harness (C34): feed a notary request to the real
// listener pipeline (prepare -> parser -> handler) synchronously, and classify the result of
// the real preparator.

import (
	"errors"

	"github.com/nspcc-dev/neo-go/pkg/neorpc/result"
	"github.com/nspcc-dev/neo-go/pkg/network/payload"
)

// VerifHandleNotary is what listenForNotary does with every request received from the chain.
func VerifHandleNotary(l Listener, nr *payload.P2PNotaryRequest) {
	l.(*listener).parseAndHandleNotary(&result.NotaryRequestEvent{NotaryRequest: nr})
}

// VerifPrepareClass runs the listener's preparator and returns the number of prepared calls
// and a small enum of the outcome (0 = prepared).
func VerifPrepareClass(l Listener, nr *payload.P2PNotaryRequest) (int, int) {
	evs, err := l.(*listener).notaryEventsPreparator.Prepare(nr)
	if err == nil {
		return len(evs), 0
	}
	for i, e := range []error{ErrTXAlreadyHandled, errUnexpectedWitnessAmount, errUnexpectedCosignersAmount, errIncorrectAlphabetSigner,
		errIncorrectAttributesAmount, errIncorrectAttribute, errIncorrectProxyWitnesses, errIncorrectAlphabet, errIncorrectInvokerWitnesses,
		errIncorrectNotaryPlaceholder, errIncorrectFBAttributesAmount, errIncorrectFBAttributes, ErrMainTXExpired, errNoValidCalls, ErrUnknownEvent} {
		if errors.Is(err, e) {
			return 0, i + 1
		}
	}
	return 0, 99 // script parsing and other errors
}
