//go:build verif

package innerring

import (
	"errors"
	"time"

	"github.com/nspcc-dev/neo-go/pkg/crypto/keys"
	"go.uber.org/zap"
)

type verifFetcher struct {
	keys keys.PublicKeys
	fail bool
}

func (f verifFetcher) InnerRingKeys() (keys.PublicKeys, error) {
	if f.fail {
		return nil, errors.New("verif: lookup failed")
	}
	return f.keys, nil
}

func (f verifFetcher) Committee() (keys.PublicKeys, error) {
	if f.fail {
		return nil, errors.New("verif: lookup failed")
	}
	return f.keys, nil
}

// VerifMembership evaluates the real membership getters of Server (state.go) over the
// real indexer (indexer.go) for the given lists and lookup failures. Add-only accessor.
func VerifMembership(own *keys.PublicKey, ir, alpha keys.PublicKeys, failIR, failAlpha bool) (isAlphabet, isActive bool, alphaIdx, irIdx, irSize int) {
	s := &Server{log: zap.NewNop()}
	s.statusIndex = newInnerRingIndexer(verifFetcher{alpha, failAlpha}, verifFetcher{ir, failIR}, own, 0)
	return s.IsAlphabet(), s.IsActive(), s.AlphabetIndex(), s.InnerRingIndex(), s.InnerRingSize()
}

// VerifMemberStep is one step of a history on ONE indexer instance (cache timeout one hour,
// so that only Reset forces a refresh, as a chain restart does).
type VerifMemberStep struct {
	Reset             bool
	IR, Alpha         keys.PublicKeys
	FailIR, FailAlpha bool
}

// VerifMemberObs is what the Server getters answer after a step.
type VerifMemberObs struct {
	IsAlphabet, IsActive     bool
	AlphaIdx, IRIdx, IRSize int
}

type verifMutFetcher struct {
	keys *keys.PublicKeys
	fail *bool
}

func (f verifMutFetcher) InnerRingKeys() (keys.PublicKeys, error) {
	if *f.fail {
		return nil, errors.New("verif: lookup failed")
	}
	return *f.keys, nil
}

func (f verifMutFetcher) Committee() (keys.PublicKeys, error) {
	if *f.fail {
		return nil, errors.New("verif: lookup failed")
	}
	return *f.keys, nil
}

// VerifMembershipSeq runs a history of lookups / resets on one Server + indexer.
func VerifMembershipSeq(own *keys.PublicKey, steps []VerifMemberStep) []VerifMemberObs {
	var ir, alpha keys.PublicKeys
	var failIR, failAlpha bool
	s := &Server{log: zap.NewNop()}
	idx := newInnerRingIndexer(verifMutFetcher{&alpha, &failAlpha}, verifMutFetcher{&ir, &failIR}, own, time.Hour)
	s.statusIndex = idx
	var out []VerifMemberObs
	for _, st := range steps {
		if st.Reset {
			idx.reset()
		}
		ir, alpha, failIR, failAlpha = st.IR, st.Alpha, st.FailIR, st.FailAlpha
		out = append(out, VerifMemberObs{s.IsAlphabet(), s.IsActive(), s.AlphabetIndex(), s.InnerRingIndex(), s.InnerRingSize()})
	}
	return out
}
