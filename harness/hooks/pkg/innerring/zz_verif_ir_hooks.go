//go:build verif

package innerring

import (
	"errors"

	"github.com/nspcc-dev/neo-go/pkg/crypto/keys"
	"go.uber.org/zap"
)

type verifFetcher struct {
	keys keys.PublicKeys
	fail bool
}

func (f verifFetcher) InnerRingKeys() (keys.PublicKeys, error) {
	if f.fail {
		return nil, errors.New("verif: lookup failed")
	}
	return f.keys, nil
}

func (f verifFetcher) Committee() (keys.PublicKeys, error) {
	if f.fail {
		return nil, errors.New("verif: lookup failed")
	}
	return f.keys, nil
}

// VerifMembership evaluates the real membership getters of Server (state.go) over the
// real indexer (indexer.go) for the given lists and lookup failures. Add-only accessor.
func VerifMembership(own *keys.PublicKey, ir, alpha keys.PublicKeys, failIR, failAlpha bool) (isAlphabet, isActive bool, alphaIdx, irIdx, irSize int) {
	s := &Server{log: zap.NewNop()}
	s.statusIndex = newInnerRingIndexer(verifFetcher{alpha, failAlpha}, verifFetcher{ir, failIR}, own, 0)
	return s.IsAlphabet(), s.IsActive(), s.AlphabetIndex(), s.InnerRingIndex(), s.InnerRingSize()
}
