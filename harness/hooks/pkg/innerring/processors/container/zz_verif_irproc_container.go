//go:build verif

package container

// Add-only accessors for the irproc harness (C37, C34): synchronous entry points into the
// real request processing (the exported handlers only enqueue into a worker pool), and the
// constants the Coq model imports.

import (
	"github.com/panjf2000/ants/v2"
	"sort"
	"time"

	containerEvent "github.com/nspcc-dev/neofs-node/pkg/morph/event/container"
	cid "github.com/nspcc-dev/neofs-sdk-go/container/id"
)

func (cp *Processor) VerifProcessPut(req containerEvent.CreateContainerRequest, id cid.ID) {
	cp.processContainerPut(req, id)
}

func (cp *Processor) VerifProcessCreateV2(req containerEvent.CreateContainerV2Request) {
	cp.processCreateContainerRequest(req)
}

func (cp *Processor) VerifProcessDelete(req containerEvent.RemoveContainerRequest) {
	cp.processContainerDelete(req)
}

func (cp *Processor) VerifProcessPutEACL(req containerEvent.PutContainerEACLRequest) {
	cp.processPutEACLRequest(req)
}

func (cp *Processor) VerifProcessSetAttribute(req containerEvent.SetAttributeRequest) {
	cp.processSetAttributeRequest(req)
}

func (cp *Processor) VerifProcessRemoveAttribute(req containerEvent.RemoveAttributeRequest) {
	cp.processRemoveAttributeRequest(req)
}

// VerifSetFlags switches the two configuration flags between cases.
func (cp *Processor) VerifSetFlags(metaEnabled, allowEC bool) {
	cp.metaEnabled = metaEnabled
	cp.allowEC = allowEC
}

// VerifSysAttrs returns the system attribute prefix, the chain-meta attribute and the sorted
// allow-list of system attributes.
func VerifSysAttrs() (string, string, []string) {
	var l []string
	for k := range allowedSystemAttributes {
		l = append(l, k)
	}
	sort.Strings(l)
	return sysAttrPrefix, sysAttrChainMeta, l
}

// VerifDrain waits until the worker pool (size 1 in the harness) has finished the submitted task.
func (cp *Processor) VerifDrain() {
	done := make(chan struct{})
	for cp.pool.Submit(func() { close(done) }) != nil {
		time.Sleep(20 * time.Microsecond)
	}
	<-done
}

// VerifBlockingPool replaces the non-blocking worker pool (which drops a task when its only worker
// has not yet been returned to the idle list) by a blocking one of size 1, so that a submitted
// task is never lost between two harness cases.
func (cp *Processor) VerifBlockingPool() {
	p, err := ants.NewPool(1)
	if err != nil {
		panic(err)
	}
	cp.pool = p
}
