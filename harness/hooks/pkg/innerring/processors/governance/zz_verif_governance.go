//go:build verif

package governance

import (
	"errors"

	"github.com/nspcc-dev/neo-go/pkg/crypto/keys"
)

// VerifNewAlphabetList calls newAlphabetList (C36). Like the original it sorts
// the passed slices in place. Status: 0 ok (list or nil), 1 errEmptyFSChain,
// 2 errNotEnoughKeys, 9 other error.
func VerifNewAlphabetList(fsChain, mainnet keys.PublicKeys) (keys.PublicKeys, int) {
	res, err := newAlphabetList(fsChain, mainnet)
	switch {
	case err == nil:
		return res, 0
	case errors.Is(err, errEmptyFSChain):
		return nil, 1
	case errors.Is(err, errNotEnoughKeys):
		return nil, 2
	}
	return nil, 9
}

// VerifUpdateInnerRing calls updateInnerRing (C36). Status: 0 ok, 1 errNotEqualLen, 9 other.
func VerifUpdateInnerRing(innerRing, before, after keys.PublicKeys) (keys.PublicKeys, int) {
	res, err := updateInnerRing(innerRing, before, after)
	switch {
	case err == nil:
		return res, 0
	case errors.Is(err, errNotEqualLen):
		return nil, 1
	}
	return nil, 9
}
