//go:build verif

package netmap

// Add-only accessors for the irproc harness (C34, C38).

import (
	"github.com/panjf2000/ants/v2"
	"time"

	netmapEvent "github.com/nspcc-dev/neofs-node/pkg/morph/event/netmap"
)

// VerifDrain waits until the worker pool (size 1 in the harness) has finished the submitted task.
func (np *Processor) VerifDrain() {
	done := make(chan struct{})
	for np.pool.Submit(func() { close(done) }) != nil {
		time.Sleep(20 * time.Microsecond)
	}
	<-done
}

// VerifBlockingPool replaces the non-blocking worker pool (which drops a task when its only worker
// has not yet been returned to the idle list) by a blocking one of size 1, so that a submitted
// task is never lost between two harness cases.
func (np *Processor) VerifBlockingPool() {
	p, err := ants.NewPool(1)
	if err != nil {
		panic(err)
	}
	np.pool = p
}

func (np *Processor) VerifProcessAddNode(ev netmapEvent.AddNode) { np.processAddNode(ev) }

func (np *Processor) VerifProcessUpdatePeer(ev netmapEvent.UpdatePeer) { np.processUpdatePeer(ev) }

func (np *Processor) VerifProcessNewEpoch(ev netmapEvent.NewEpoch) { np.processNewEpoch(ev) }

func (np *Processor) VerifProcessNewEpochTick() { np.processNewEpochTick() }
