//go:build verif

package netmap

// Add-only accessors for the irproc harness (C34, C38).

import (
	"time"

	netmapEvent "github.com/nspcc-dev/neofs-node/pkg/morph/event/netmap"
)

// VerifDrain waits until the worker pool (size 1 in the harness) has finished the submitted task.
func (np *Processor) VerifDrain() {
	done := make(chan struct{})
	for np.pool.Submit(func() { close(done) }) != nil {
		time.Sleep(20 * time.Microsecond)
	}
	<-done
}

func (np *Processor) VerifProcessAddNode(ev netmapEvent.AddNode) { np.processAddNode(ev) }

func (np *Processor) VerifProcessUpdatePeer(ev netmapEvent.UpdatePeer) { np.processUpdatePeer(ev) }

func (np *Processor) VerifProcessNewEpoch(ev netmapEvent.NewEpoch) { np.processNewEpoch(ev) }

func (np *Processor) VerifProcessNewEpochTick() { np.processNewEpochTick() }
