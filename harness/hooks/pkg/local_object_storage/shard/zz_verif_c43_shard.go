//go:build verif

// Add-only accessors for the /verif C43 harness (shard behaviour vs. reported mode).
package shard

import (
	"errors"

	meta "github.com/nspcc-dev/neofs-node/pkg/local_object_storage/metabase"
	"github.com/nspcc-dev/neofs-node/pkg/local_object_storage/writecache"
)

// VerifC43HandleMetabaseFailure runs the unexported metabase-failure path
// (read-only, else degraded-read-only) exactly as Open/Init call it.
func (s *Shard) VerifC43HandleMetabaseFailure() error {
	return s.handleMetabaseFailure("verif", errors.New("injected metabase failure"))
}

// VerifC43Metabase returns the shard's metabase.
func (s *Shard) VerifC43Metabase() *meta.DB { return s.metaBase }

// VerifC43WriteCache returns the shard's write-cache (nil without one).
func (s *Shard) VerifC43WriteCache() writecache.Cache {
	if !s.hasWriteCache() {
		return nil
	}
	return s.writeCache
}
