//go:build verif

// Add-only accessor for the /verif listing harness (C06); never part of a normal build.
package shard

import meta "github.com/nspcc-dev/neofs-node/pkg/local_object_storage/metabase"

// VerifListMetabase returns the shard's metabase.
func VerifListMetabase(s *Shard) *meta.DB { return s.metaBase }
