//go:build verif

// Add-only accessors for the /verif GC harness (C07, C44); never part of a normal build.
package shard

import (
	meta "github.com/nspcc-dev/neofs-node/pkg/local_object_storage/metabase"
)

// VerifGCPass runs one synchronous GC pass: exactly what the remover ticker calls.
func VerifGCPass(s *Shard) { s.removeGarbage() }

// VerifGCEvent runs the new-epoch event handler synchronously.
func VerifGCEvent(s *Shard, e uint64) { s.setEpochEventHandler(newEpoch{epoch: e}) }

// VerifGCEpochs returns the GC's current and processed epochs.
func VerifGCEpochs(s *Shard) (uint64, uint64) {
	return s.gc.currentEpoch.Load(), s.gc.processedEpoch.Load()
}

// VerifGCMetabase exposes the shard's metabase (state dump only).
func VerifGCMetabase(s *Shard) *meta.DB { return s.metaBase }

// VerifGCBatchSize is the configured size of one GC batch.
func VerifGCBatchSize(s *Shard) int { return s.rmBatchSize }
