//go:build verif

package shard

import "github.com/nspcc-dev/neofs-node/pkg/local_object_storage/writecache"

// VerifWCWriteCache exposes the shard's write-cache (nil if disabled) to the wc harness.
func VerifWCWriteCache(s *Shard) writecache.Cache {
	if !s.hasWriteCache() {
		return nil
	}
	return s.writeCache
}
