//go:build verif

// Add-only accessors for the /verif shard harness (never part of a normal build).
package shard

// VerifDumpMagic returns a copy of the dump file magic.
func VerifDumpMagic() []byte { return append([]byte(nil), dumpMagic...) }

// VerifRemoveGarbage runs one synchronous GC pass (what the remover ticker calls).
func (s *Shard) VerifRemoveGarbage() { s.removeGarbage() }

// VerifHandleEpoch runs the new-epoch event handler synchronously.
func (s *Shard) VerifHandleEpoch(e uint64) { s.setEpochEventHandler(newEpoch{epoch: e}) }
