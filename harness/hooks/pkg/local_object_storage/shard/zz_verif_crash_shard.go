//go:build verif

// Add-only accessors for the /verif crash-consistency harness (C15, C09).
package shard

import (
	meta "github.com/nspcc-dev/neofs-node/pkg/local_object_storage/metabase"
	"github.com/nspcc-dev/neofs-node/pkg/local_object_storage/writecache"
)

// VerifCrashWrapWriteCache replaces the shard's write-cache by f(cache). Must be
// called before Open. No-op if the write-cache is disabled.
func VerifCrashWrapWriteCache(s *Shard, f func(writecache.Cache) writecache.Cache) {
	if s.hasWriteCache() {
		s.writeCache = f(s.writeCache)
	}
}

// VerifCrashMetabase exposes the shard's metabase (fault injection, resync).
func VerifCrashMetabase(s *Shard) *meta.DB { return s.metaBase }

// VerifCrashRemoveGarbage runs one synchronous GC pass (what the remover ticker calls).
func VerifCrashRemoveGarbage(s *Shard) { s.removeGarbage() }

// VerifCrashHandleEpoch runs the new-epoch event handler synchronously.
func VerifCrashHandleEpoch(s *Shard, e uint64) { s.setEpochEventHandler(newEpoch{epoch: e}) }

// VerifCrashRmBatchSize is the configured size of one GC removal batch.
func VerifCrashRmBatchSize(s *Shard) int { return s.rmBatchSize }
