//go:build verif

package meta

// Add-only accessors for the /verif C43 harness.

// VerifC43ModeState reports db.mode and the state of boltDB: 0 nil, 1 opened
// read-only, 2 opened read-write.
func (db *DB) VerifC43ModeState() (uint32, int) {
	db.modeMtx.RLock()
	defer db.modeMtx.RUnlock()
	switch {
	case db.boltDB == nil:
		return uint32(db.mode), 0
	case db.boltDB.IsReadOnly():
		return uint32(db.mode), 1
	default:
		return uint32(db.mode), 2
	}
}
