//go:build verif

package meta

// Add-only accessors for the /verif resync/upgrade harness (C18, C42).
// Nothing here changes behaviour: constants and key names are only read.

import (
	"sort"

	"github.com/nspcc-dev/neofs-sdk-go/object"
)

// VerifResyncConsts returns the constants the Coq models of C18/C42 import.
func VerifResyncConsts() map[string]int {
	return map[string]int{
		"resync_batch_size":    resyncBatchSize,
		"current_meta_version": currentMetaVersion,
	}
}

// VerifMigrations returns the versions a migration exists for (sorted).
func VerifMigrations() []uint64 {
	var res []uint64
	for v := range migrateFrom {
		res = append(res, v)
	}
	sort.Slice(res, func(i, j int) bool { return res[i] < res[j] })
	return res
}

// VerifLayout names the buckets/keys the harness needs to write an
// older-format database directly with bbolt.
type VerifLayout struct {
	InfoBucket            []byte
	VersionKey            []byte
	OldPhyCounterKey      []byte
	OldLogicCounterKey    []byte
	ContainerVolumePrefix byte
	MetadataPrefix        byte
	PrefixAttrIDPlain     byte
	PrefixIDAttr          byte
	CounterPrefixes       []byte
	HomomorphicAttr       string
	AssociateAttr         string
}

// VerifGetLayout returns the key layout constants of this tree.
func VerifGetLayout() VerifLayout {
	return VerifLayout{
		InfoBucket:            append([]byte(nil), shardInfoBucket...),
		VersionKey:            append([]byte(nil), versionKey...),
		OldPhyCounterKey:      append([]byte(nil), objectPhyCounterKey...),
		OldLogicCounterKey:    append([]byte(nil), objectLogicCounterKey...),
		ContainerVolumePrefix: unusedContainerVolumePrefix,
		MetadataPrefix:        metadataPrefix,
		PrefixAttrIDPlain:     metaPrefixAttrIDPlain,
		PrefixIDAttr:          metaPrefixIDAttr,
		CounterPrefixes: []byte{metaPrefixPhyCounter, metaPrefixRootCounter, metaPrefixTSCounter, metaPrefixLockCounter,
			metaPrefixLinkCounter, metaPrefixGCCounter, metaPrefixPayloadCounter},
		HomomorphicAttr: object.FilterPayloadHomomorphicHash,
		AssociateAttr:   object.AttributeAssociatedObject,
	}
}
