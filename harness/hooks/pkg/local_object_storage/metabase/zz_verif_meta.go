//go:build verif

package meta

// Add-only accessors for the /verif metabase harness (C01, C02 and the
// properties that build on the metabase model). Nothing here changes
// behaviour; everything reads the container bucket through a View
// transaction or through an Update transaction that is always rolled back.

import (
	"bytes"
	"errors"
	"fmt"

	"github.com/nspcc-dev/bbolt"
	objectcore "github.com/nspcc-dev/neofs-node/pkg/core/object"
	cid "github.com/nspcc-dev/neofs-sdk-go/container/id"
	"github.com/nspcc-dev/neofs-sdk-go/object"
	oid "github.com/nspcc-dev/neofs-sdk-go/object/id"
)

// VerifAttr is one ID->attribute index entry (prefix 0x03) of a container bucket.
type VerifAttr struct {
	ID  oid.ID
	Key string
	Val []byte
}

// VerifGarbage is one garbage key (prefix 0x05) with its value.
type VerifGarbage struct {
	ID   oid.ID
	Mark []byte
}

// VerifDump is the raw content of one container bucket.
type VerifDump struct {
	Present    bool
	CGC        bool
	IDs        []oid.ID
	Attrs      []VerifAttr
	Garbage    []VerifGarbage
	Counters   ObjectCounters
	Consistent bool // attribute->ID indexes (0x01/0x02) agree with ID->attribute index (0x03)
	Unknown    int  // keys with a prefix that is none of the known ones
	Why        []string
}

// VerifDumpContainer returns everything stored for cnr.
func (db *DB) VerifDumpContainer(cnr cid.ID) (VerifDump, error) {
	var res VerifDump
	err := db.boltDB.View(func(tx *bbolt.Tx) error {
		b := tx.Bucket(metaBucketKey(cnr))
		if b == nil {
			return nil
		}
		res.Present = true
		res.Consistent = true
		res.Counters = getCountersByContainer(b)
		var nPlain, nIDAttr, nInt, nIntExpected int
		c := b.Cursor()
		for k, v := c.First(); k != nil; k, v = c.Next() {
			switch k[0] {
			case metaPrefixID:
				if len(k) == 1+oid.Size {
					res.IDs = append(res.IDs, oid.ID(k[1:]))
				} else {
					res.Unknown++
				}
			case metaPrefixAttrIDInt:
				nInt++
			case metaPrefixAttrIDPlain:
				nPlain++
				// ATTR 0x00 VAL 0x00 OID  ->  must exist as 0x03 OID ATTR 0x00 VAL
				if len(k) < 1+oid.Size+2 {
					res.Consistent = false
					continue
				}
				body := k[1 : len(k)-oid.Size-1]
				id := k[len(k)-oid.Size:]
				kk := bytes.Join([][]byte{{metaPrefixIDAttr}, id, body}, nil)
				if kc, _ := b.Cursor().Seek(kk); !bytes.Equal(kc, kk) {
					res.Consistent = false
					res.Why = append(res.Why, "plain key without id-attr key")
				}
			case metaPrefixIDAttr:
				nIDAttr++
				if len(k) < 1+oid.Size+2 {
					res.Unknown++
					continue
				}
				ak, av, ok := bytes.Cut(k[1+oid.Size:], objectcore.MetaAttributeDelimiter)
				if !ok {
					res.Unknown++
					continue
				}
				res.Attrs = append(res.Attrs, VerifAttr{ID: oid.ID(k[1 : 1+oid.Size]), Key: string(ak), Val: bytes.Clone(av)})
				// PHY/ROOT markers are written by putPlainAttribute only
				if _, isInt := parseInt(string(av)); isInt && string(ak) != object.FilterPhysical && string(ak) != object.FilterRoot {
					nIntExpected++
				}
			case metaPrefixContainerRemoved:
				res.CGC = true
			case metaPrefixGarbage:
				if len(k) == 1+oid.Size {
					res.Garbage = append(res.Garbage, VerifGarbage{ID: oid.ID(k[1:]), Mark: bytes.Clone(v)})
				} else {
					res.Unknown++
				}
			case metaPrefixPhyCounter, metaPrefixRootCounter, metaPrefixTSCounter, metaPrefixLockCounter,
				metaPrefixLinkCounter, metaPrefixGCCounter, metaPrefixPayloadCounter:
			default:
				res.Unknown++
			}
		}
		if nPlain != nIDAttr || nInt != nIntExpected {
			res.Consistent = false
			res.Why = append(res.Why, fmt.Sprintf("plain=%d idattr=%d int=%d intexp=%d", nPlain, nIDAttr, nInt, nIntExpected))
		}
		return nil
	})
	return res, err
}

var errVerifRollback = errors.New("verif: rollback")

// VerifRecount runs the forced counter synchronisation of syncContainerCounters
// for cnr inside a transaction that is rolled back and returns what it computed.
func (db *DB) VerifRecount(cnr cid.ID) (ObjectCounters, bool, error) {
	var (
		res     ObjectCounters
		present bool
	)
	err := db.boltDB.Update(func(tx *bbolt.Tx) error {
		b := tx.Bucket(metaBucketKey(cnr))
		if b == nil {
			return errVerifRollback
		}
		present = true
		if err := syncContainerCounters(b, true); err != nil {
			return err
		}
		res = getCountersByContainer(b)
		return errVerifRollback
	})
	if errors.Is(err, errVerifRollback) {
		err = nil
	}
	return res, present, err
}

// VerifConsts returns the unexported constants the Coq model imports.
func VerifConsts() map[string]int {
	return map[string]int{
		"status_available":        statusAvailable,
		"status_gc_marked":        statusGCMarked,
		"status_tombstoned":       statusTombstoned,
		"status_expired":          statusExpired,
		"max_object_nesting":      maxObjectNestingLevel,
		"garbage_mark_default":    int(GarbageMarkDefault),
		"garbage_mark_redundant":  int(GarbageMarkRedundant),
		"prefix_id":               int(metaPrefixID),
		"prefix_attr_id_int":      int(metaPrefixAttrIDInt),
		"prefix_attr_id_plain":    int(metaPrefixAttrIDPlain),
		"prefix_id_attr":          int(metaPrefixIDAttr),
		"prefix_container_gc":     int(metaPrefixContainerRemoved),
		"prefix_garbage":          int(metaPrefixGarbage),
		"prefix_phy_counter":      int(metaPrefixPhyCounter),
		"prefix_root_counter":     int(metaPrefixRootCounter),
		"prefix_ts_counter":       int(metaPrefixTSCounter),
		"prefix_lock_counter":     int(metaPrefixLockCounter),
		"prefix_link_counter":     int(metaPrefixLinkCounter),
		"prefix_gc_counter":       int(metaPrefixGCCounter),
		"prefix_payload_counter":  int(metaPrefixPayloadCounter),
		"metadata_bucket_prefix":  metadataPrefix,
		"revive_status_graveyard": int(ReviveStatusGraveyard),
		"revive_status_garbage":   int(ReviveStatusGarbage),
		"revive_status_error":     int(ReviveStatusError),
	}
}
