//go:build verif

package fstree

// VerifC43ReadOnly reports the flag set by Open (add-only accessor for the /verif C43 harness).
func (t *FSTree) VerifC43ReadOnly() bool { return t.readOnly }
