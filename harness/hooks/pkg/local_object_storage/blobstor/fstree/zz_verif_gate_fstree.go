//go:build verif

package fstree

// Add-only accessor for the /verif shard harness (C14): a slow disk under the harness's control.

import (
	oid "github.com/nspcc-dev/neofs-sdk-go/object/id"
)

// VerifGateWrites makes every physical write of the tree (writer.writeData / writeBatch, i.e.
// the part of Put / PutBatch that runs AFTER their own read-only check) call before(n) first,
// n = number of objects in the write; the function it returns (may be nil) is called when the
// physical write is over. To be called after Init (Init installs the OS-specific writer) and
// before any concurrent use of the tree.
func (t *FSTree) VerifGateWrites(before func(n int) func()) {
	t.writer = &verifGatedWriter{inner: t.writer, before: before}
}

type verifGatedWriter struct {
	inner  writer
	before func(n int) func()
}

func (w *verifGatedWriter) writeData(id oid.ID, p string, data []byte) error {
	after := w.before(1)
	err := w.inner.writeData(id, p, data)
	if after != nil {
		after()
	}
	return err
}

func (w *verifGatedWriter) writeBatch(units []writeDataUnit) error {
	after := w.before(len(units))
	err := w.inner.writeBatch(units)
	if after != nil {
		after()
	}
	return err
}

func (w *verifGatedWriter) finalize() error { return w.inner.finalize() }
