//go:build verif

package fstree

// Add-only accessors for the /verif harness (engine fstree; C10-C13, C41).

import (
	objectwire "github.com/nspcc-dev/neofs-node/internal/object"
	oid "github.com/nspcc-dev/neofs-sdk-go/object/id"
)

// Layout constants the Coq models import through coq/Gen/FSTreeConsts.v.
const (
	VerifCombinedPrefix    = combinedPrefix
	VerifCombinedIDOff     = combinedIDOff
	VerifCombinedLengthOff = combinedLengthOff
	VerifCombinedDataOff   = combinedDataOff
	VerifDirNameLen        = DirNameLen
)

// VerifTreePath is treePath.
func (t *FSTree) VerifTreePath(addr oid.Address) string { return t.treePath(addr) }

// VerifInitial runs the buffered head read exactly like GetRangeStream does and
// reports the length of the buffered head and whether a stream follows it.
func (t *FSTree) VerifInitial(addr oid.Address) (n int, hasStream bool, err error) {
	prefix, stream, err := t._readObject(addr, make([]byte, 2*objectwire.NonPayloadFieldsBufferLength))
	if err != nil {
		return 0, false, err
	}
	if stream != nil {
		_ = stream.Close()
	}
	return len(prefix), stream != nil, nil
}

// VerifUsesLinuxWriter tells whether Init selected the O_TMPFILE writer.
func (t *FSTree) VerifUsesLinuxWriter() bool {
	_, ok := t.writer.(*genericWriter)
	return !ok
}

// VerifForceGenericWriter switches to the portable writer (tmp file + rename).
func (t *FSTree) VerifForceGenericWriter() {
	t.writer = newGenericWriter(t.Permissions, t.noSync)
}
