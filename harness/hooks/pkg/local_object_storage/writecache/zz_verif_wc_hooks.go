//go:build verif

package writecache

import (
	"time"

	oid "github.com/nspcc-dev/neofs-sdk-go/object/id"
)

// VerifState exposes the unexported accounting state of a cache created by New:
// reported size, a copy of the address->size map, the in-flight set and the
// sizes of the files actually present in the cache directory.
func VerifState(c Cache) (size uint64, m map[oid.Address]uint64, inflight []oid.Address, dir map[oid.Address]uint64, err error) {
	cc := c.(*cache)
	size = cc.objCounters.Size()
	m = cc.objCounters.Map()
	cc.flushObjs.Range(func(k, _ any) bool {
		inflight = append(inflight, k.(oid.Address))
		return true
	})
	dir = map[oid.Address]uint64{}
	err = cc.fsTree.IterateSizes(func(a oid.Address, sz uint64) error {
		dir[a] = sz
		return nil
	}, false)
	return
}

// VerifConsts dumps the scheduler constants the Coq model imports.
func VerifConsts() map[string]uint64 {
	return map[string]uint64{
		"errorDelayMs":      uint64(defaultErrorDelay / time.Millisecond),
		"batchDelayMs":      uint64(defaultMaxBatchDelay / time.Millisecond),
		"workerCount":       defaultWorkerCount,
		"maxBatchSize":      defaultMaxBatchSize,
		"maxBatchCount":     defaultMaxBatchCount,
		"maxBatchThreshold": defaultMaxBatchTreshold,
		"maxCacheSize":      defaultMaxCacheSize,
	}
}

// VerifHasFile reports whether the cache directory holds a file for addr.
// known=false if the mode lock cannot be taken right now (mode switch in progress).
func VerifHasFile(c Cache, addr oid.Address) (has bool, known bool) {
	cc := c.(*cache)
	if !cc.modeMtx.TryRLock() {
		return false, false
	}
	defer cc.modeMtx.RUnlock()
	if cc.fsTree == nil {
		return false, false
	}
	ok, err := cc.fsTree.Exists(addr)
	return ok, err == nil
}
