//go:build verif

// Add-only accessors for the /verif crash-consistency harness (C15, C09).
package writecache

import (
	oid "github.com/nspcc-dev/neofs-sdk-go/object/id"
)

// VerifCrashManualFlush starts the cache without flush workers: the scheduler
// still runs but nobody takes its batches, so objects leave the cache only
// through VerifCrashFlushSingle / VerifCrashFlushBatch.
func VerifCrashManualFlush() Option {
	return func(o *options) { o.workersCount = 0 }
}

// VerifCrashFlushSingle does what a flush worker does with a one-address batch.
func VerifCrashFlushSingle(c Cache, addr oid.Address) error {
	cc := c.(*cache)
	cc.modeMtx.RLock()
	defer cc.modeMtx.RUnlock()
	if cc.readOnly() {
		return ErrReadOnly
	}
	return cc.flushSingle(addr, true)
}

// VerifCrashFlushBatch does what a flush worker does with a multi-address batch.
func VerifCrashFlushBatch(c Cache, addrs []oid.Address) error {
	cc := c.(*cache)
	cc.modeMtx.RLock()
	defer cc.modeMtx.RUnlock()
	if cc.readOnly() {
		return ErrReadOnly
	}
	return cc.flushBatch(addrs)
}
