//go:build verif

package writecache

// Add-only accessors for the /verif C43 harness.

import (
	oid "github.com/nspcc-dev/neofs-sdk-go/object/id"
)

// VerifC43ModeState reports cache.mode and whether the cache's FSTree is
// opened read-only.
func VerifC43ModeState(c Cache) (uint32, bool) {
	cc := c.(*cache)
	cc.modeMtx.RLock()
	defer cc.modeMtx.RUnlock()
	return uint32(cc.mode), cc.fsTree.VerifC43ReadOnly()
}

// VerifC43Holds reports whether Get would find the object in the cache
// (accounted and present in the tree).
func VerifC43Holds(c Cache, addr oid.Address) bool {
	cc := c.(*cache)
	if !cc.objCounters.HasAddress(addr) {
		return false
	}
	ok, err := cc.fsTree.Exists(addr)
	return err == nil && ok
}
