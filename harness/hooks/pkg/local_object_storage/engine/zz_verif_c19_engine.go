//go:build verif

// Add-only accessors for the /verif evacuation harness (C19); never part of a normal build.
package engine

import (
	"errors"

	"github.com/nspcc-dev/neofs-node/pkg/local_object_storage/shard"
)

// VerifEvacuateBatchSize is the page size Evacuate lists its source shards with.
func VerifEvacuateBatchSize() int { return defaultEvacuateBatchSize }

// VerifEvacErrClass projects an error returned by Evacuate to a small enum:
// 1 unknown shard, 2 shard not read-only, 3 no spare shard, 4 shard without metabase,
// 6 no shard accepted the object, 0 anything else.
func VerifEvacErrClass(err error) int {
	switch {
	case errors.Is(err, errShardNotFound):
		return 1
	case errors.Is(err, shard.ErrMustBeReadOnly):
		return 2
	case errors.Is(err, errMustHaveTwoShards):
		return 3
	case errors.Is(err, shard.ErrDegradedMode):
		return 4
	case errors.Is(err, errPutShard):
		return 6
	default:
		return 0
	}
}

// VerifRemoveShards detaches shards from the engine (what a configuration reload does with
// shards that disappeared from the configuration).
func (e *StorageEngine) VerifRemoveShards(ids ...string) { e.removeShards(ids...) }
