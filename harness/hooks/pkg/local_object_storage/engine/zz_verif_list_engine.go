//go:build verif

// Add-only accessor for the /verif listing harness (C06); never part of a normal build.
package engine

import "github.com/nspcc-dev/neofs-node/pkg/local_object_storage/shard"

// VerifListShard returns the shard with the given ID (nil if unknown).
func (e *StorageEngine) VerifListShard(id string) *shard.Shard {
	e.mtx.RLock()
	defer e.mtx.RUnlock()
	return e.shards[id].Shard
}
