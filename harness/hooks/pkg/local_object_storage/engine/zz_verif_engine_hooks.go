//go:build verif

// Add-only accessors for the /verif engine harness (never part of a normal build).
package engine

import (
	"github.com/nspcc-dev/neofs-node/pkg/local_object_storage/shard"
	oid "github.com/nspcc-dev/neofs-sdk-go/object/id"
)

// VerifSortedShardIDs returns the IDs of the shards in the order the engine visits
// them for the given object ID (the very function the engine uses).
func (e *StorageEngine) VerifSortedShardIDs(id oid.ID) []string {
	shs := e.sortedShards(id)
	res := make([]string, len(shs))
	for i := range shs {
		res[i] = shs[i].ID().String()
	}
	return res
}

// VerifErrorCount returns the error counter of the shard.
func (e *StorageEngine) VerifErrorCount(id string) uint32 {
	e.mtx.RLock()
	defer e.mtx.RUnlock()
	sh, ok := e.shards[id]
	if !ok {
		return 0
	}
	return sh.errorCount.Load()
}

// VerifShard returns the shard with the given ID (nil if unknown).
func (e *StorageEngine) VerifShard(id string) *shard.Shard {
	e.mtx.RLock()
	defer e.mtx.RUnlock()
	return e.shards[id].Shard
}
