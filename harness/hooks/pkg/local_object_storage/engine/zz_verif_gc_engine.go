//go:build verif

// Add-only accessor for the /verif GC harness (C07, C44); never part of a normal build.
package engine

import "github.com/nspcc-dev/neofs-node/pkg/local_object_storage/shard"

// VerifGCShards returns the engine's shards (the GC harness runs an engine with exactly
// one shard, so that the shard's expired-objects callback is the engine's own
// processExpiredObjects).
func (e *StorageEngine) VerifGCShards() []*shard.Shard {
	e.mtx.RLock()
	defer e.mtx.RUnlock()
	res := make([]*shard.Shard, 0, len(e.shards))
	for _, sh := range e.shards {
		res = append(res, sh.Shard)
	}
	return res
}
