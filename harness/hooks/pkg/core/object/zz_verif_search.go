//go:build verif

package objectcore

// Add-only accessors for the /verif harnesses (C03, C04, C05). Nothing here
// changes behaviour; the file is overlaid at build time and never committed.

// VerifSplitIntString exposes splitIntString.
func VerifSplitIntString(s string) (bool, string, error) { return splitIntString(s) }

// VerifCompareIntStrings exposes compareIntStrings.
func VerifCompareIntStrings(a, b string) (int, error) { return compareIntStrings(a, b) }

// VerifCompareNormalizedDigits exposes compareNormalizedDigits.
func VerifCompareNormalizedDigits(a, b string) int { return compareNormalizedDigits(a, b) }

// VerifMetaConsts returns the key-layout constants of the metadata bucket.
func VerifMetaConsts() (prefID, prefInt, prefPlain byte, delim []byte, intLen int, maxDigits, minDigits string) {
	return metaPrefixID, metaPrefixAttrIDInt, metaPrefixAttrIDPlain, MetaAttributeDelimiter, intValLen, maxSigned256Digits, minSigned256Digits
}
