//go:build verif

package objectcore

// Add-only accessor for the /verif harness of C24: the nesting limit of
// FormatValidator.validate (unexported constant).
func VerifMaxNesting() int { return maxObjectNestingLevel }
