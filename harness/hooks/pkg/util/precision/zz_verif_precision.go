//go:build verif

package precision

import "math/big"

// VerifFixed8Precision exposes the base precision constant (C39).
func VerifFixed8Precision() uint32 { return fixed8Precision }

// VerifFactor returns a copy of the cached conversion factor (C39).
func VerifFactor(c Fixed8Converter) *big.Int { return new(big.Int).Set(c.factor) }
