module xlate

go 1.23
