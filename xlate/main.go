// xlate: Go source -> Coq handler IR (DESIGN.md 4.3, tie "T3").
//
// Stdlib only (go/parser, go/ast, go/printer). Purely syntactic: no type
// information is used, so the translation is conservative: every call whose
// callee is not a function of the analysed package becomes an `Effect` named by
// the callee expression as written; calls to functions/methods of the analysed
// package become `Call` (inlined by the Coq side); recognised guard shapes become
// `GuardIf`. Constructs outside the fragment (goto, fallthrough) abort loudly.
package main

import (
	"bytes"
	"flag"
	"fmt"
	"go/ast"
	"go/parser"
	"go/printer"
	"go/token"
	"os"
	"path/filepath"
	"regexp"
	"sort"
	"strings"
)

type multi []string

func (m *multi) String() string     { return strings.Join(*m, ",") }
func (m *multi) Set(s string) error { *m = append(*m, s); return nil }

type fn struct {
	name string // pkg.Recv.Method or pkg.func
	recv string // receiver identifier ("" if none)
	rtyp string
	pkg  string
	decl *ast.FuncDecl
}

type condGuard struct {
	name string
	re   *regexp.Regexp
}

var condGuards []condGuard

var (
	fset       = token.NewFileSet()
	funcs      = map[string]*fn{}
	guardRe    *regexp.Regexp
	varGuardRe *regexp.Regexp // boolean variables whose negation guards a terminating branch
)

func exprStr(e ast.Expr) string {
	var b bytes.Buffer
	_ = printer.Fprint(&b, fset, e)
	s := b.String()
	s = strings.Join(strings.Fields(s), " ")
	return s
}

func q(s string) string { return "\"" + strings.ReplaceAll(s, "\"", "\"\"") + "\"" }

// ---- IR -------------------------------------------------------------------

type node struct {
	k    string // Skip Seq Effect Call GuardIf Branch Loop Return Jump Scope Func
	s, c string
	a, b *node
}

func skip() *node { return &node{k: "Skip"} }
func seq(xs ...*node) *node {
	var r *node
	for i := len(xs) - 1; i >= 0; i-- {
		if xs[i] == nil || xs[i].k == "Skip" {
			continue
		}
		if r == nil {
			r = xs[i]
		} else {
			r = &node{k: "Seq", a: xs[i], b: r}
		}
	}
	if r == nil {
		return skip()
	}
	return r
}

func (n *node) coq(b *strings.Builder) {
	switch n.k {
	case "Skip", "Return", "Jump":
		b.WriteString(n.k)
	case "Effect", "Call":
		fmt.Fprintf(b, "(%s %s)", n.k, q(n.s))
	case "GuardIf":
		fmt.Fprintf(b, "(GuardIf %s %s ", q(n.s), q(n.c))
		n.a.coq(b)
		b.WriteString(")")
	case "Seq", "Branch":
		fmt.Fprintf(b, "(%s ", n.k)
		n.a.coq(b)
		b.WriteString(" ")
		n.b.coq(b)
		b.WriteString(")")
	case "Loop", "Scope", "Func":
		fmt.Fprintf(b, "(%s ", n.k)
		n.a.coq(b)
		b.WriteString(")")
	default:
		panic("bad node " + n.k)
	}
}

// ---- translation ------------------------------------------------------------

type tr struct {
	f *fn
}

// guardName returns the guard label if call is a call to a guard function.
func guardName(call *ast.CallExpr) string {
	s := exprStr(call.Fun)
	if guardRe != nil && guardRe.MatchString(s) {
		m := guardRe.FindString(s)
		// label = last path component of the callee
		if i := strings.LastIndex(s, "."); i >= 0 {
			return s[i+1:]
		}
		_ = m
		return s
	}
	return ""
}

// calls returns the IR of all calls inside expression e in evaluation order.
func (t *tr) calls(e ast.Node) *node {
	if e == nil {
		return skip()
	}
	var out []*node
	var walk func(n ast.Node)
	walk = func(n ast.Node) {
		switch x := n.(type) {
		case nil:
			return
		case *ast.FuncLit:
			out = append(out, &node{k: "Func", a: t.block(x.Body.List)})
			return
		case *ast.CallExpr:
			// callee sub-expressions (x.f().g()) first, then args, then the call
			if sel, ok := x.Fun.(*ast.SelectorExpr); ok {
				walk(sel.X)
			} else if _, isLit := x.Fun.(*ast.FuncLit); isLit {
				// body is emitted once by t.call
			} else if _, ok := x.Fun.(*ast.Ident); !ok {
				walk(x.Fun)
			}
			for _, a := range x.Args {
				walk(a)
			}
			out = append(out, t.call(x))
			return
		}
		ast.Inspect(n, func(c ast.Node) bool {
			if c == n {
				return true
			}
			switch c.(type) {
			case *ast.FuncLit, *ast.CallExpr:
				walk(c)
				return false
			}
			return true
		})
	}
	walk(e)
	return seq(out...)
}

var builtins = map[string]bool{"len": true, "cap": true, "make": true, "new": true, "append": true, "copy": true,
	"delete": true, "min": true, "max": true, "clear": true, "close": true, "string": true, "int": true, "uint64": true,
	"uint32": true, "int64": true, "int32": true, "byte": true, "uint": true, "bool": true, "float64": true, "uint8": true,
	"uint16": true, "int8": true, "int16": true, "error": true, "any": true, "recover": true, "print": true, "println": true}

func (t *tr) call(x *ast.CallExpr) *node {
	switch f := x.Fun.(type) {
	case *ast.Ident:
		if f.Name == "panic" {
			return &node{k: "Return"}
		}
		if builtins[f.Name] {
			return skip()
		}
		if g, ok := funcs[t.f.pkg+"."+f.Name]; ok {
			return &node{k: "Call", s: g.name}
		}
		return &node{k: "Effect", s: f.Name}
	case *ast.SelectorExpr:
		if id, ok := f.X.(*ast.Ident); ok && t.f.recv != "" && id.Name == t.f.recv {
			if g, ok := funcs[t.f.pkg+"."+t.f.rtyp+"."+f.Sel.Name]; ok {
				return &node{k: "Call", s: g.name}
			}
		}
		return &node{k: "Effect", s: exprStr(x.Fun)}
	case *ast.ArrayType, *ast.MapType, *ast.StarExpr, *ast.InterfaceType, *ast.ChanType, *ast.FuncType:
		return skip() // conversion
	case *ast.ParenExpr:
		return skip() // conversion like (*T)(x)
	case *ast.IndexExpr, *ast.IndexListExpr:
		return &node{k: "Effect", s: exprStr(x.Fun)}
	case *ast.FuncLit:
		return &node{k: "Func", a: t.block(f.Body.List)}
	default:
		return &node{k: "Effect", s: exprStr(x.Fun)}
	}
}

func terminates(list []ast.Stmt) bool {
	if len(list) == 0 {
		return false
	}
	switch s := list[len(list)-1].(type) {
	case *ast.ReturnStmt:
		return true
	case *ast.ExprStmt:
		if c, ok := s.X.(*ast.CallExpr); ok {
			if id, ok := c.Fun.(*ast.Ident); ok && id.Name == "panic" {
				return true
			}
		}
	case *ast.BranchStmt:
		return s.Tok == token.CONTINUE || s.Tok == token.BREAK
	case *ast.BlockStmt:
		return terminates(s.List)
	}
	return false
}

// guardCall finds the (single) guard call directly in e (not inside func literals).
func guardCall(e ast.Node) (name string) {
	if e == nil {
		return ""
	}
	ast.Inspect(e, func(n ast.Node) bool {
		switch x := n.(type) {
		case *ast.FuncLit:
			return false
		case *ast.CallExpr:
			if g := guardName(x); g != "" && name == "" {
				name = g
			}
		}
		return true
	})
	return
}

func hasCall(n ast.Node) bool {
	found := false
	ast.Inspect(n, func(c ast.Node) bool {
		if _, ok := c.(*ast.CallExpr); ok {
			found = true
		}
		return !found
	})
	return found
}

// callsExceptGuard: IR of calls in e, leaving out the guard call itself (its
// evaluation is what GuardIf stands for) but keeping its arguments' calls.
func (t *tr) callsExceptGuard(e ast.Node) *node {
	saved := guardRe
	n := t.calls(e)
	_ = saved
	return stripGuardEffect(n)
}

func stripGuardEffect(n *node) *node {
	switch n.k {
	case "Effect", "Call":
		if guardRe != nil && guardRe.MatchString(n.s) {
			return skip()
		}
		return n
	case "Seq":
		return seq(stripGuardEffect(n.a), stripGuardEffect(n.b))
	}
	return n
}

func (t *tr) block(list []ast.Stmt) *node {
	var out []*node
	for i := 0; i < len(list); i++ {
		s := list[i]
		// shape A:  x, err := G(...)   followed by   if <cond on err> { ...terminates }
		if g := assignedGuard(s); g != "" && i+1 < len(list) {
			if ifs, ok := list[i+1].(*ast.IfStmt); ok && ifs.Init == nil && ifs.Else == nil && !hasCallOutsideErrorsIs(ifs.Cond) {
				if fail, shape, ok := t.guardBody(ifs); ok {
					out = append(out, t.callsExceptGuard(s))
					out = append(out, &node{k: "GuardIf", s: g, c: "assign; if " + shape, a: fail})
					i++
					continue
				}
			}
		}
		out = append(out, t.stmt(s))
	}
	return seq(out...)
}

func hasCallOutsideErrorsIs(e ast.Expr) bool {
	found := false
	ast.Inspect(e, func(c ast.Node) bool {
		if ce, ok := c.(*ast.CallExpr); ok {
			if id, isId := ce.Fun.(*ast.Ident); isId && builtins[id.Name] {
				return true
			}
			if exprStr(ce.Fun) != "errors.Is" {
				found = true
			}
		}
		return !found
	})
	return found
}

func assignedGuard(s ast.Stmt) string {
	switch x := s.(type) {
	case *ast.AssignStmt:
		if len(x.Rhs) == 1 {
			if c, ok := x.Rhs[0].(*ast.CallExpr); ok {
				return guardName(c)
			}
		}
	}
	return ""
}

// guardBody recognises the accepted shapes of the `if` that follows a guard
// evaluation and returns the IR of the failing branch (which must terminate).
func (t *tr) guardBody(ifs *ast.IfStmt) (*node, string, bool) {
	cond := exprStr(ifs.Cond)
	if terminates(ifs.Body.List) {
		return t.block(ifs.Body.List), cond, true
	}
	// if err != nil { if !errors.Is(err, X) { ...terminates }; <no calls> }
	if len(ifs.Body.List) >= 1 {
		if in, ok := ifs.Body.List[0].(*ast.IfStmt); ok && in.Init == nil && in.Else == nil &&
			strings.HasPrefix(exprStr(in.Cond), "!errors.Is(") && terminates(in.Body.List) {
			for _, r := range ifs.Body.List[1:] {
				if hasCall(r) {
					return nil, "", false
				}
			}
			return t.block(in.Body.List), cond + " { if " + exprStr(in.Cond) + " }", true
		}
	}
	return nil, "", false
}

func (t *tr) stmt(s ast.Stmt) *node {
	switch x := s.(type) {
	case nil:
		return skip()
	case *ast.BlockStmt:
		return t.block(x.List)
	case *ast.ExprStmt:
		return t.calls(x.X)
	case *ast.AssignStmt:
		var out []*node
		for _, r := range x.Rhs {
			out = append(out, t.calls(r))
		}
		for _, l := range x.Lhs {
			out = append(out, t.calls(l))
		}
		return seq(out...)
	case *ast.DeclStmt:
		return t.calls(x.Decl)
	case *ast.IncDecStmt:
		return t.calls(x.X)
	case *ast.SendStmt:
		return seq(t.calls(x.Chan), t.calls(x.Value), &node{k: "Effect", s: "chan<-"})
	case *ast.ReturnStmt:
		var out []*node
		for _, r := range x.Results {
			out = append(out, t.calls(r))
		}
		out = append(out, &node{k: "Return"})
		return seq(out...)
	case *ast.GoStmt:
		return seq(t.calls(x.Call))
	case *ast.DeferStmt:
		// conservative: the deferred call is analysed at its registration point
		return seq(t.calls(x.Call))
	case *ast.LabeledStmt:
		return t.stmt(x.Stmt)
	case *ast.EmptyStmt:
		return skip()
	case *ast.BranchStmt:
		switch x.Tok {
		case token.BREAK, token.CONTINUE:
			return &node{k: "Jump"}
		}
		fatal("unsupported branch statement %s at %s", x.Tok, fset.Position(x.Pos()))
	case *ast.IfStmt:
		// shape B: guard evaluated in the if header
		g := ""
		if x.Init != nil {
			g = guardCall(x.Init)
		}
		if g == "" {
			g = guardCall(x.Cond)
		}
		if g != "" && (x.Else == nil || terminates(x.Body.List)) {
			if fail, shape, ok := t.guardBody(x); ok {
				pre := seq(t.callsExceptGuard(x.Init), t.callsExceptGuard(x.Cond))
				hdr := ""
				if x.Init != nil {
					hdr = "init; "
				}
				gn := &node{k: "GuardIf", s: g, c: hdr + "if " + shapeOf(x.Cond, shape), a: fail}
				if x.Else != nil {
					// if G() { return } else <S>: S runs only when the check let the request through
					return seq(pre, gn, t.stmt(x.Else))
				}
				return seq(pre, gn)
			}
		}
		// condition-text guards (e.g. `if s.info.Mode != mode.ReadWrite { return }`)
		if x.Init == nil && terminates(x.Body.List) {
			ct := exprStr(x.Cond)
			for _, cg := range condGuards {
				if cg.re.MatchString(ct) {
					gn := &node{k: "GuardIf", s: cg.name, c: "if " + ct, a: t.block(x.Body.List)}
					if x.Else != nil {
						return seq(gn, t.stmt(x.Else))
					}
					return gn
				}
			}
		}
		if varGuardRe != nil && x.Init == nil && x.Else == nil && terminates(x.Body.List) {
			if u, ok := x.Cond.(*ast.UnaryExpr); ok && u.Op == token.NOT {
				if id, ok := u.X.(*ast.Ident); ok && varGuardRe.MatchString(id.Name) {
					return &node{k: "GuardIf", s: id.Name, c: "if !var", a: t.block(x.Body.List)}
				}
			}
		}
		if g != "" && x.Else != nil && x.Init != nil && exprStr(x.Cond) == "err != nil" && len(x.Body.List) == 1 {
			if in, ok := x.Body.List[0].(*ast.IfStmt); ok && in.Init == nil && in.Else == nil &&
				strings.HasPrefix(exprStr(in.Cond), "!errors.Is(err, ") && terminates(in.Body.List) {
				exc := strings.TrimSuffix(strings.TrimPrefix(exprStr(in.Cond), "!errors.Is(err, "), ")")
				pre := t.callsExceptGuard(x.Init)
				return seq(pre,
					&node{k: "GuardIf", s: g, c: "init; if err != nil { if " + exprStr(in.Cond) + " } else", a: t.block(in.Body.List)},
					&node{k: "Branch",
						a: &node{k: "GuardIf", s: g + ":" + exc, c: "exemption", a: &node{k: "Return"}},
						b: t.stmt(x.Else)})
			}
		}
		var els *node = skip()
		if x.Else != nil {
			els = t.stmt(x.Else)
		}
		return seq(t.stmt(x.Init), t.calls(x.Cond), &node{k: "Branch", a: t.block(x.Body.List), b: els})
	case *ast.ForStmt:
		return seq(t.stmt(x.Init), &node{k: "Loop", a: seq(t.calls(x.Cond), t.block(x.Body.List), t.stmt(x.Post))})
	case *ast.RangeStmt:
		return seq(t.calls(x.X), &node{k: "Loop", a: t.block(x.Body.List)})
	case *ast.SwitchStmt:
		return seq(t.stmt(x.Init), t.calls(x.Tag), &node{k: "Scope", a: t.cases(x.Body.List)})
	case *ast.TypeSwitchStmt:
		return seq(t.stmt(x.Init), t.stmt(x.Assign), &node{k: "Scope", a: t.cases(x.Body.List)})
	case *ast.SelectStmt:
		return &node{k: "Scope", a: t.cases(x.Body.List)}
	}
	fatal("unsupported statement %T at %s", s, fset.Position(s.Pos()))
	return nil
}

func shapeOf(cond ast.Expr, shape string) string {
	// replace the guard call's argument list by (...) so that harmless argument
	// renames do not change the recorded shape
	re := regexp.MustCompile(`\(([^()]|\([^()]*\))*\)`)
	_ = cond
	return re.ReplaceAllString(shape, "(..)")
}

func (t *tr) cases(list []ast.Stmt) *node {
	var r *node = skip() // no case taken
	for i := len(list) - 1; i >= 0; i-- {
		var body *node
		switch c := list[i].(type) {
		case *ast.CaseClause:
			var pre []*node
			for _, e := range c.List {
				pre = append(pre, t.calls(e))
			}
			for _, st := range c.Body {
				if b, ok := st.(*ast.BranchStmt); ok && b.Tok == token.FALLTHROUGH {
					fatal("fallthrough not supported at %s", fset.Position(b.Pos()))
				}
			}
			body = seq(seq(pre...), t.block(c.Body))
		case *ast.CommClause:
			body = seq(t.stmt(c.Comm), t.block(c.Body))
		}
		r = &node{k: "Branch", a: body, b: r}
	}
	return r
}

func fatal(f string, a ...any) {
	fmt.Fprintf(os.Stderr, "xlate: "+f+"\n", a...)
	os.Exit(3)
}

func recvInfo(d *ast.FuncDecl) (id, typ string) {
	if d.Recv == nil || len(d.Recv.List) == 0 {
		return "", ""
	}
	f := d.Recv.List[0]
	if len(f.Names) > 0 {
		id = f.Names[0].Name
	}
	e := f.Type
	if s, ok := e.(*ast.StarExpr); ok {
		e = s.X
	}
	if ix, ok := e.(*ast.IndexExpr); ok {
		e = ix.X
	}
	if i, ok := e.(*ast.Ident); ok {
		typ = i.Name
	}
	return
}

func main() {
	var dirs, ifaces, cgs multi
	var out, guards, varguards string
	flag.Var(&dirs, "dir", "package directory (repeatable); optional `alias=` prefix")
	flag.Var(&ifaces, "iface", "file.go:InterfaceName whose method names are emitted (repeatable)")
	flag.StringVar(&out, "out", "", "output .v file")
	flag.StringVar(&guards, "guards", "", "regexp matching guard callee expressions")
	flag.StringVar(&varguards, "varguards", "", "regexp matching boolean variables used as `if !v { return }` guards")
	flag.Var(&cgs, "condguard", "name=regexp: an `if` whose condition text matches and whose body terminates is a check named name (repeatable)")
	flag.Parse()
	for _, c := range cgs {
		i := strings.Index(c, "=")
		condGuards = append(condGuards, condGuard{c[:i], regexp.MustCompile(c[i+1:])})
	}
	if varguards != "" {
		varGuardRe = regexp.MustCompile("^(" + varguards + ")$")
	}
	if guards != "" {
		guardRe = regexp.MustCompile(guards)
	}
	for _, d := range dirs {
		alias := ""
		if i := strings.Index(d, "="); i >= 0 {
			alias, d = d[:i], d[i+1:]
		}
		pkgs, err := parser.ParseDir(fset, d, func(fi os.FileInfo) bool {
			return !strings.HasSuffix(fi.Name(), "_test.go") && !strings.HasPrefix(fi.Name(), "zz_verif")
		}, parser.SkipObjectResolution)
		if err != nil {
			fatal("parse %s: %v", d, err)
		}
		for pname, p := range pkgs {
			if alias != "" {
				pname = alias
			}
			var files []string
			for fnm := range p.Files {
				files = append(files, fnm)
			}
			sort.Strings(files)
			for _, fnm := range files {
				for _, dc := range p.Files[fnm].Decls {
					fd, ok := dc.(*ast.FuncDecl)
					if !ok || fd.Body == nil {
						continue
					}
					id, typ := recvInfo(fd)
					name := pname + "." + fd.Name.Name
					if typ != "" {
						name = pname + "." + typ + "." + fd.Name.Name
					}
					funcs[name] = &fn{name: name, recv: id, rtyp: typ, pkg: pname, decl: fd}
				}
			}
		}
	}
	var names []string
	for n := range funcs {
		names = append(names, n)
	}
	sort.Strings(names)
	var b strings.Builder
	b.WriteString("(* GENERATED by /verif/xlate from the Go sources; do not edit. *)\n")
	b.WriteString("From Coq Require Import String List.\nImport ListNotations.\nFrom NV Require Import Prog.IR.\nOpen Scope string_scope.\n\n")
	b.WriteString("Definition funcs : list (string * stmt) := [\n")
	for i, n := range names {
		f := funcs[n]
		t := &tr{f: f}
		body := t.block(f.decl.Body.List)
		fmt.Fprintf(&b, "  (%s, ", q(n))
		body.coq(&b)
		b.WriteString(")")
		if i < len(names)-1 {
			b.WriteString(";")
		}
		b.WriteString("\n")
	}
	b.WriteString("].\n\n")
	var ms []string
	for _, spec := range ifaces {
		i := strings.LastIndex(spec, ":")
		file, iname := spec[:i], spec[i+1:]
		af, err := parser.ParseFile(fset, file, nil, parser.SkipObjectResolution)
		if err != nil {
			fatal("parse %s: %v", file, err)
		}
		found := false
		ast.Inspect(af, func(n ast.Node) bool {
			ts, ok := n.(*ast.TypeSpec)
			if !ok || ts.Name.Name != iname {
				return true
			}
			it, ok := ts.Type.(*ast.InterfaceType)
			if !ok {
				return true
			}
			found = true
			for _, m := range it.Methods.List {
				for _, nm := range m.Names {
					if ast.IsExported(nm.Name) {
						ms = append(ms, nm.Name)
					}
				}
			}
			return false
		})
		if !found {
			fatal("interface %s not found in %s", iname, file)
		}
	}
	b.WriteString("Definition iface_methods : list string := [")
	for i, m := range ms {
		if i > 0 {
			b.WriteString("; ")
		}
		b.WriteString(q(m))
	}
	b.WriteString("].\n")
	if out == "" {
		fmt.Print(b.String())
		return
	}
	_ = os.MkdirAll(filepath.Dir(out), 0o755)
	old, _ := os.ReadFile(out)
	if string(old) != b.String() {
		if err := os.WriteFile(out, []byte(b.String()), 0o644); err != nil {
			fatal("%v", err)
		}
	}
}
