(* C03: the handler's per-object check in ID-iteration mode equals the
   reference predicate `sat_all` (conjunction of the filters, each evaluated
   directly on the object's attributes), for queries without numeric matchers. *)
From Coq Require Import List NArith ZArith Bool Arith Lia.
Import ListNotations.
From NV Require Import Gen.S256Consts Gen.SearchConsts S256.S256 Search.Search Search.SearchProofs
  Search.MergeLoop Search.MergeLoopProofs Search.ChainProofs.
Local Open Scope N_scope.

(* what PreprocessSearchQuery produces when no filter is numeric (wrapSearchFilters) *)
Definition wrap (fs : list filter) : list ofilter := map (fun f => OFilter f false []) fs.
Definition plain_filter (f : filter) : bool := negb (is_int_op (fst (convert_filter f))).
Definition blind_filter (f : filter) : bool := matcher_eqb (f_op f) M_NOT_PRESENT && is_prefix obj_prefix (f_key f).

Section Sat.
Variable cd : codecs.

(* one filter against the value found for its attribute; None = error *)
Definition fstep (attr : bytes) (dbVal : option bytes) (f : filter) : option bool :=
  let '(m, val) := convert_filter f in
  match dbVal with
  | None => Some (matcher_eqb m M_NOT_PRESENT)
  | Some dv =>
    if matcher_eqb m M_NOT_PRESENT then Some false
    else match combine_values cd attr dv val with
         | None => None
         | Some (a, b) => Some (match_values a m b)
         end
  end.

Lemma sec_inner_cons_plain attr dbv fj f r : plain_filter f = true ->
  sec_inner cd attr dbv fj (OFilter f false [] :: r) =
  if negb fj && negb (bytes_eqb (f_key f) attr) then sec_inner cd attr dbv false r
  else match fstep attr dbv f with
       | None => V_Err
       | Some true => sec_inner cd attr dbv false r
       | Some false => V_Skip
       end.
Proof.
  intros Hp. cbn [sec_inner of_f]. destruct (negb fj && negb (bytes_eqb (f_key f) attr)); [reflexivity|].
  unfold fstep, plain_filter in *. destruct (convert_filter f) as [m v]. cbn [fst] in Hp.
  apply negb_true_iff in Hp. rewrite Hp.
  destruct dbv as [dv|]; destruct (matcher_eqb m M_NOT_PRESENT); reflexivity.
Qed.

Lemma sat_plain f o : plain_filter f = true -> blind_filter f = false ->
  sat cd f o = fstep (f_key f) (lookup (f_key f) (o_attrs o)) f.
Proof.
  intros Hp Hb. unfold sat, fstep, plain_filter, blind_filter in *.
  assert (matcher_eqb (fst (convert_filter f)) M_NOT_PRESENT && is_prefix obj_prefix (f_key f) = false) as Hc.
  { unfold convert_filter. destruct (bytes_eqb (f_key f) key_root || bytes_eqb (f_key f) key_phy); [reflexivity|exact Hb]. }
  destruct (convert_filter f) as [m v]. cbn [fst] in *. rewrite Hc.
  apply negb_true_iff in Hp. rewrite Hp.
  destruct (lookup (f_key f) (o_attrs o)); reflexivity.
Qed.

Lemma inner_false_iff attr dbv : forall l, forallb plain_filter l = true ->
  (sec_inner cd attr dbv false (wrap l) = V_Match <->
   forall f, In f l -> f_key f = attr -> fstep attr dbv f = Some true).
Proof.
  induction l as [|x r IH]; intros Hp.
  - cbn. split; [intros _ f []|reflexivity].
  - cbn [forallb] in Hp. apply andb_true_iff in Hp. destruct Hp as [Hx Hr].
    cbn [wrap map]. fold (wrap r). rewrite (sec_inner_cons_plain attr dbv false x (wrap r) Hx). cbn [negb andb].
    destruct (bytes_eqb (f_key x) attr) eqn:Ek; cbn [negb].
    + apply bytes_eqb_iff in Ek.
      destruct (fstep attr dbv x) as [[|]|] eqn:Es.
      * rewrite (IH Hr). split.
        -- intros H f [<-|Hin] Hf; [exact Es|now apply H].
        -- intros H f Hin Hf. apply H; [now right|exact Hf].
      * split; [discriminate|]. intros H. specialize (H x (or_introl eq_refl) Ek). congruence.
      * split; [discriminate|]. intros H. specialize (H x (or_introl eq_refl) Ek). congruence.
    + apply bytes_eqb_false in Ek. rewrite (IH Hr). split.
      * intros H f [<-|Hin] Hf; [congruence|now apply H].
      * intros H f Hin Hf. apply H; [now right|exact Hf].
Qed.

Lemma inner_head attr dbv fj x r : plain_filter x = true -> f_key x = attr ->
  sec_inner cd attr dbv fj (wrap (x :: r)) = sec_inner cd attr dbv false (wrap (x :: r)).
Proof.
  intros Hx Hk. cbn [wrap map]. rewrite !(sec_inner_cons_plain attr dbv _ x _ Hx).
  assert (bytes_eqb (f_key x) attr = true) as -> by now apply bytes_eqb_iff.
  cbn [negb andb]. now rewrite andb_false_r.
Qed.

Definition fok (o : obj) (f : filter) : Prop :=
  fstep (f_key f) (lookup (f_key f) (o_attrs o)) f = Some true.

Lemma check_iff k o : forall l fi, forallb plain_filter l = true ->
  (sec_check cd true k o fi (wrap l) = V_Match <-> forall f, In f l -> fok o f).
Proof.
  induction l as [|x r IH]; intros fi Hp.
  - cbn. split; [intros _ f []|reflexivity].
  - pose proof Hp as Hp'. cbn [forallb] in Hp. apply andb_true_iff in Hp. destruct Hp as [Hx Hr].
    cbn [wrap map sec_check of_f]. cbn [negb andb]. fold (wrap r).
    change (OFilter x false [] :: wrap r) with (wrap (x :: r)).
    rewrite (inner_head (f_key x) (lookup (f_key x) (o_attrs o)) fi x r Hx eq_refl).
    pose proof (inner_false_iff (f_key x) (lookup (f_key x) (o_attrs o)) (x :: r) Hp') as Hin.
    destruct (sec_inner cd (f_key x) (lookup (f_key x) (o_attrs o)) false (wrap (x :: r))) eqn:Ei.
    + rewrite (IH false Hr). destruct Hin as [Hin _]. specialize (Hin eq_refl). split.
      * intros H f [<-|Hf]; [apply (Hin x (or_introl eq_refl) eq_refl)|now apply H].
      * intros H f Hf. apply H. now right.
    + split; [discriminate|]. intros H. destruct Hin as [_ Hin].
      assert (V_Skip = V_Match); [|discriminate]. apply Hin. intros f Hf Hk. unfold fok in H.
      specialize (H f Hf). now rewrite Hk in H.
    + split; [discriminate|]. intros H. destruct Hin as [_ Hin].
      assert (V_Stop = V_Match); [|discriminate]. apply Hin. intros f Hf Hk. unfold fok in H.
      specialize (H f Hf). now rewrite Hk in H.
    + split; [discriminate|]. intros H. destruct Hin as [_ Hin].
      assert (V_Err = V_Match); [|discriminate]. apply Hin. intros f Hf Hk. unfold fok in H.
      specialize (H f Hf). now rewrite Hk in H.
Qed.

Lemma sat_all_iff o : forall fs, forallb plain_filter fs = true -> existsb blind_filter fs = false ->
  (sat_all cd fs o = true <-> forall f, In f fs -> fok o f).
Proof.
  induction fs as [|x r IH]; intros Hp Hb.
  - cbn. split; [intros _ f []|reflexivity].
  - cbn [forallb] in Hp. apply andb_true_iff in Hp. destruct Hp as [Hx Hr].
    cbn [existsb] in Hb. apply orb_false_iff in Hb. destruct Hb as [Bx Br].
    cbn [sat_all]. rewrite (sat_plain x o Hx Bx). fold (fok o x).
    destruct (fstep (f_key x) (lookup (f_key x) (o_attrs o)) x) as [[|]|] eqn:Es.
    + rewrite (IH Hr Br). split.
      * intros H f [<-|Hf]; [exact Es|now apply H].
      * intros H f Hf. apply H. now right.
    + split; [discriminate|]. intros H. specialize (H x (or_introl eq_refl)). unfold fok in H. congruence.
    + split; [discriminate|]. intros H. specialize (H x (or_introl eq_refl)). unfold fok in H. congruence.
Qed.

(* the handler's per-object predicate (ID-iteration mode) = available and all filters satisfied *)
Theorem ematch_sat_plain fs e : forallb plain_filter fs = true -> existsb blind_filter fs = false ->
  ematch cd (wrap fs) e = o_avail (e_obj e) && sat_all cd fs (e_obj e).
Proof.
  intros Hp Hb. unfold ematch.
  pose proof (check_iff (f0key_of (wrap fs)) (e_obj e) fs true Hp) as H1.
  pose proof (sat_all_iff (e_obj e) fs Hp Hb) as H2.
  destruct (sat_all cd fs (e_obj e)) eqn:Es.
  - assert (sec_check cd true (f0key_of (wrap fs)) (e_obj e) true (wrap fs) = V_Match) as -> by (apply H1, H2; reflexivity).
    now rewrite andb_true_r.
  - rewrite andb_false_r.
    destruct (sec_check cd true (f0key_of (wrap fs)) (e_obj e) true (wrap fs)) eqn:Ec; try reflexivity.
    assert (false = true); [|discriminate]. apply H2, H1. reflexivity.
Qed.

Lemma filter_len_le {A} (g : A -> bool) (l : list A) : (length (List.filter g l) <= length l)%nat.
Proof. induction l as [|x r IH]; cbn [List.filter length]; [lia|]. destruct (g x); cbn [length]; lia. Qed.

(* string-matcher queries listed in ID order: the pages obtained by following the
   cursor are exactly the available entries satisfying all filters *)
Theorem listing_chain_sat fs count ip fuel l :
  forallb plain_filter fs = true -> existsb blind_filter fs = false ->
  tsorted l -> Forall (eclean cd (wrap fs)) l -> (0 < count)%nat ->
  (length l < fuel)%nat ->
  let ps := pages cd (wrap fs) count ip fuel l in
  concat ps = map id_item (List.filter (fun e => o_avail (e_obj e) && sat_all cd fs (e_obj e)) l) /\
  ps <> [] /\ Forall (fun p => length p = count) (removelast ps) /\ (length (last ps []) <= count)%nat.
Proof.
  intros Hp Hb Hs Hc Hcnt Hf.
  assert (forall e, ematch cd (wrap fs) e = o_avail (e_obj e) && sat_all cd fs (e_obj e)) as He
    by (intros e; now apply ematch_sat_plain).
  rewrite <- (filter_ext _ _ He l).
  apply idlist_chain; auto.
  eapply Nat.le_lt_trans; [apply filter_len_le|exact Hf].
Qed.

End Sat.
