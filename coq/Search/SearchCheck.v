(* Executable comparison functions of the C03 correspondence check. *)
From Coq Require Import List NArith ZArith Bool Arith.
Import ListNotations.
From NV Require Import Gen.S256Consts Gen.SearchConsts S256.S256 S256.S256Check Search.Search.
Local Open Scope N_scope.

(* codec tables observed from the real libraries: (class, input, output);
   class 0 = base58, 1 = hex, 2 = uuid *)
Definition table := list (N * bytes * bytes).

Fixpoint tlookup (c : N) (k : bytes) (t : table) : option bytes :=
  match t with
  | [] => None
  | (c', k', v) :: r => if (c =? c') && bytes_eqb k k' then Some v else tlookup c k r
  end.

Definition poison : bytes := [0; 0; 0; 0; 0].
Definition tenc (c : N) (t : table) (raw : bytes) : bytes :=
  match raw with
  | [] => []
  | _ => match tlookup c raw t with Some v => v | None => poison end
  end.

Definition mk_codecs (enc dec : table) : codecs :=
  Codecs (tenc 0 enc) (fun s => tlookup 0 s dec)
         (tenc 1 enc) (fun s => tlookup 1 s dec)
         (tenc 2 enc) (fun s => tlookup 2 s dec).

Record corpus := Corpus { c_objs : list obj; c_enc : table; c_dec : table }.

Inductive obs := O_Page (items : list item) (cursor : option bytes) | O_Error | O_Rejected | O_Unreach.

Record scase := SCase {
  s_corpus : corpus;
  s_filters : list filter;
  s_attrs : list bytes;
  s_count : nat;
  s_obs : list obs
}.

Fixpoint list_eqb_by {A} (eq : A -> A -> bool) (a b : list A) : bool :=
  match a, b with
  | [], [] => true
  | x :: a', y :: b' => eq x y && list_eqb_by eq a' b'
  | _, _ => false
  end.

Definition item_eqb (a b : item) : bool :=
  bytes_eqb (it_id a) (it_id b) && list_eqb_by bytes_eqb (it_attrs a) (it_attrs b).

Definition obs_of (r : sres) : obs :=
  match r with
  | R_Page its c => O_Page its c
  | R_Error => O_Error
  | R_Rejected => O_Rejected
  | R_Unreachable => O_Unreach
  end.

Definition obs_eqb (a b : obs) : bool :=
  match a, b with
  | O_Page i1 c1, O_Page i2 c2 => list_eqb_by item_eqb i1 i2 && opt_eqb bytes_eqb c1 c2
  | O_Error, O_Error | O_Rejected, O_Rejected | O_Unreach, O_Unreach => true
  | _, _ => false
  end.

Definition case_codecs (c : scase) := mk_codecs (c_enc (s_corpus c)) (c_dec (s_corpus c)).

(* implementation = model: every page and every cursor along the chain *)
Definition search_model_ok (c : scase) : bool :=
  let objs := c_objs (s_corpus c) in
  list_eqb_by obs_eqb
    (map obs_of (search_all (case_codecs c) (S (S (S (length objs)))) objs (s_filters c) (s_attrs c) None (s_count c)))
    (s_obs c).

(* may PreprocessSearchQuery refuse the query: a numeric filter whose value is
   not an in-range integer, or a primary filter value that is not the text
   form of its system attribute *)
Definition ref_may_reject (cd : codecs) (fs : list filter) (attrs : list bytes) : bool :=
  existsb (fun f => let '(m, v) := convert_filter f in
                    is_int_op m && match spec_read v with Some _ => false | None => true end) fs
  || match fs, attrs with
     | f0 :: _, _ :: _ =>
       let '(m, v) := convert_filter f0 in
       negb (matcher_eqb m M_NE) && negb (is_int_op m) && negb (matcher_eqb m M_NOT_PRESENT) &&
       match class_of (f_key f0) with
       | C_PLAIN => false
       | C_OWNER | C_OID => match dec_b58 cd v with None => true | _ => false end
       | C_SUM | C_HOMO => match dec_hex cd v with None => true | _ => false end
       | C_SPLIT => match dec_uuid cd v with None => true | _ => false end
       end
     | _, _ => false
     end.

Fixpoint pages_of (l : list obs) : option (list (list item * option bytes)) :=
  match l with
  | [] => Some []
  | O_Page i c :: r => match pages_of r with Some ps => Some ((i, c) :: ps) | None => None end
  | _ :: _ => None
  end.

Fixpoint pages_shape_ok (count : nat) (ps : list (list item * option bytes)) : bool :=
  match ps with
  | [] => false
  | [(i, c)] => Nat.leb (length i) count && (match c with None => true | Some _ => false end)
  | (i, c) :: r => Nat.eqb (length i) count && (match c with Some _ => true | None => false end)
                   && pages_shape_ok count r
  end.

(* implementation satisfies the property: the pages, glued together, are the
   matching available objects in (primary attribute, ID) order with their
   attribute values; pages are full except the last; the chain ends *)
Definition search_ref_ok (c : scase) : bool :=
  let cd := case_codecs c in
  let objs := c_objs (s_corpus c) in
  let expected := ref_search cd objs (s_filters c) (s_attrs c) in
  match s_obs c with
  | [O_Rejected] => ref_may_reject cd (s_filters c) (s_attrs c)
  | [O_Unreach] => match expected with [] => true | _ => false end
  | l =>
    match pages_of l with
    | None => false
    | Some ps =>
      negb (ref_may_reject cd (s_filters c) (s_attrs c))
      && list_eqb_by item_eqb (flat_map fst ps) expected
      && pages_shape_ok (s_count c) ps
    end
  end.

Definition search_model_mismatches := mism_from search_model_ok 0.
Definition search_ref_mismatches := mism_from search_ref_ok 0.

(* the known class: more than one filter on the primary attribute while the
   scan runs over that attribute's index *)
Definition multi_primary (fs : list filter) (attrs : list bytes) : bool :=
  match fs, attrs with
  | f0 :: r, _ :: _ =>
    negb (matcher_eqb (fst (convert_filter f0)) M_NOT_PRESENT)
    && existsb (fun f => bytes_eqb (f_key f) (f_key f0)) r
  | _, _ => false
  end.
Definition multi_primary_cases (cs : list scase) : list nat :=
  mism_from (fun c => negb (multi_primary (s_filters c) (s_attrs c))) 0 cs.

(* second known class: COMMON_PREFIX on a base58-typed primary attribute
   (owner, parent, first part, associate): the seek key is the decoded prefix
   text, which is not a prefix of the stored bytes *)
Definition b58_prefix_primary (fs : list filter) (attrs : list bytes) : bool :=
  match fs, attrs with
  | f0 :: _, _ :: _ =>
    matcher_eqb (fst (convert_filter f0)) M_PREFIX
    && match class_of (f_key f0) with C_OWNER | C_OID => true | _ => false end
  | _, _ => false
  end.
Definition b58_prefix_cases (cs : list scase) : list nat :=
  mism_from (fun c => negb (b58_prefix_primary (s_filters c) (s_attrs c))) 0 cs.

(* integer detection: which attribute values get an entry in the integer index and how
   the shard prints them (one object per value, query "N >= min") *)
Record icase := ICase { ic_val : bytes; ic_indexed : bool; ic_text : bytes }.
Definition int_obs_ok (r : option sint) (c : icase) : bool :=
  match r with
  | Some z => ic_indexed c && bytes_eqb (ic_text c) (to_string z)
  | None => negb (ic_indexed c)
  end.
Definition int_model_ok (c : icase) : bool := int_obs_ok (set_from_decimal (ic_val c)) c.
Definition int_ref_ok (c : icase) : bool := int_obs_ok (spec_read (ic_val c)) c.
Definition int_model_mismatches := mism_from int_model_ok 0.
Definition int_ref_mismatches := mism_from int_ref_ok 0.
