(* C03: the chain of pages for ID-ordered listing queries (filters, no requested
   attributes, or a NOT_PRESENT primary filter): following the returned cursor
   -- Seek(cursor) + "skip the key equal to the cursor" of searchTx, then the
   handler -- with a positive page size enumerates the matching available
   entries exactly once, in index order, full pages except the last, and stops.
   Stated over any index whose keys are strictly increasing (bbolt bucket). *)
From Coq Require Import List NArith ZArith Bool Arith Lia.
Import ListNotations.
From NV Require Import Gen.S256Consts Gen.SearchConsts S256.S256 S256.BytesProofs Search.Search Search.SearchProofs.
Local Open Scope N_scope.

(* keys strictly increasing *)
Fixpoint tsorted (l : list entry) : Prop :=
  match l with
  | [] => True
  | x :: r => Forall (fun y => lex_compare (e_tail x) (e_tail y) = Lt) r /\ tsorted r
  end.

Lemma seek_after_Forall (P : entry -> Prop) t : forall l, Forall P l -> Forall P (seek_after t l).
Proof.
  induction l as [|x r IH]; intros H; cbn [seek_after]; [constructor|].
  inversion H; subst. destruct (lex_compare (e_tail x) t); auto.
Qed.

Lemma seek_after_sorted t : forall l, tsorted l -> tsorted (seek_after t l).
Proof.
  induction l as [|x r IH]; intros H; cbn [seek_after]; [exact I|].
  destruct (lex_compare (e_tail x) t); [apply H|apply IH, H|exact H].
Qed.

Lemma last_in {A} (l : list A) d : l <> [] -> In (last l d) l.
Proof.
  induction l as [|x r IH]; intros H; [congruence|]. destruct r as [|y r']; [now left|].
  right. apply IH. discriminate.
Qed.

Lemma firstn_nonempty {A} (l : list A) n : (0 < n)%nat -> l <> [] -> firstn n l <> [].
Proof. destruct n; [lia|]. destruct l; [congruence|]. discriminate. Qed.

Section Chain.
Variable cd : codecs.
Variable f : entry -> bool.

(* the part of the index after the last item of a page holds exactly the remaining matches *)
Lemma seek_after_page : forall l count, tsorted l -> (0 < count)%nat ->
  (count < length (List.filter f l))%nat ->
  List.filter f (seek_after (last (map e_tail (firstn count (List.filter f l))) []) l)
  = skipn count (List.filter f l).
Proof.
  induction l as [|x r IH]; intros count Hs Hc Hlen; [cbn in Hlen; lia|].
  destruct Hs as [Hf Hs]. cbn [List.filter] in *.
  assert (forall c ms, ms = List.filter f r -> (0 < c)%nat -> (c <= length ms)%nat ->
            lex_compare (e_tail x) (last (map e_tail (firstn c ms)) []) = Lt) as Hlt.
  { intros c ms -> Hc0 Hcl.
    assert (firstn c (List.filter f r) <> []) as Hne.
    { apply firstn_nonempty; [exact Hc0|]. destruct (List.filter f r); [cbn in Hcl; lia|discriminate]. }
    assert (In (last (map e_tail (firstn c (List.filter f r))) []) (map e_tail (firstn c (List.filter f r)))) as Hin.
    { apply last_in. destruct (firstn c (List.filter f r)); [congruence|discriminate]. }
    apply in_map_iff in Hin. destruct Hin as (y & <- & Hy).
    rewrite Forall_forall in Hf. apply Hf.
    assert (In y (List.filter f r)) as Hy2.
    { rewrite <- (firstn_skipn c (List.filter f r)). apply in_or_app. now left. }
    apply filter_In in Hy2. apply Hy2. }
  destruct (f x) eqn:Efx.
  - cbn [length] in Hlen. destruct count as [|[|c]]; [lia| |].
    + cbn [firstn map last seek_after skipn]. rewrite lex_compare_refl. reflexivity.
    + rewrite firstn_cons, map_cons, skipn_cons.
      assert (firstn (S c) (List.filter f r) <> []) as Hne.
      { apply firstn_nonempty; [lia|]. destruct (List.filter f r); [cbn in Hlen; lia|discriminate]. }
      assert (last (e_tail x :: map e_tail (firstn (S c) (List.filter f r))) []
              = last (map e_tail (firstn (S c) (List.filter f r))) []) as ->.
      { destruct (firstn (S c) (List.filter f r)); [congruence|reflexivity]. }
      cbn [seek_after]. rewrite (Hlt (S c) _ eq_refl) by lia.
      apply IH; auto; lia.
  - cbn [seek_after]. rewrite (Hlt count _ eq_refl) by lia. apply IH; auto.
Qed.

End Chain.

Section Pages.
Variable cd : codecs.
Variable ofs : list ofilter.
Variable count : nat.
Variable ip : bool.

(* searchTx called again and again with the cursor it returned; l = the keys
   after the current seek position *)
Fixpoint pages (fuel : nat) (l : list entry) : list (list item) :=
  match fuel with
  | O => []
  | S fl =>
    let st := scan cd ofs [] count true ip h0 l in
    if h_more st then rev (h_items st) :: pages fl (seek_after (h_last st) l)
    else [rev (h_items st)]
  end.

Theorem idlist_chain : forall fuel l, tsorted l -> Forall (eclean cd ofs) l -> (0 < count)%nat ->
  (length (List.filter (ematch cd ofs) l) < fuel)%nat ->
  let ps := pages fuel l in
  concat ps = map id_item (List.filter (ematch cd ofs) l) /\
  ps <> [] /\
  Forall (fun p => length p = count) (removelast ps) /\
  (length (last ps []) <= count)%nat.
Proof.
  induction fuel as [|fuel IH]; intros l Hs Hc Hcnt Hf; [lia|].
  cbn zeta. cbn [pages].
  destruct (idlist_page cd ofs count ip l Hc) as (I1 & I2 & _ & I4). cbn zeta in I1, I2, I4.
  set (ms := List.filter (ematch cd ofs) l) in *.
  destruct (h_more (scan cd ofs [] count true ip h0 l)) eqn:Em.
  - symmetry in I2. apply Nat.ltb_lt in I2. specialize (I4 eq_refl).
    assert (List.filter (ematch cd ofs) (seek_after (h_last (scan cd ofs [] count true ip h0 l)) l) = skipn count ms) as Hrest.
    { rewrite I4. apply seek_after_page; auto. }
    destruct (IH (seek_after (h_last (scan cd ofs [] count true ip h0 l)) l)) as (J1 & J2 & J3 & J4).
    + now apply seek_after_sorted.
    + now apply seek_after_Forall.
    + exact Hcnt.
    + rewrite Hrest, skipn_length. lia.
    + cbn zeta in J1, J2, J3, J4. rewrite Hrest in J1.
      set (rest := pages fuel (seek_after (h_last (scan cd ofs [] count true ip h0 l)) l)) in *.
      split; [|split; [discriminate|split]].
      * cbn [concat]. rewrite I1, J1, <- map_app, firstn_skipn. reflexivity.
      * destruct rest as [|p ps']; [congruence|]. cbn [removelast]. constructor; [|exact J3].
        rewrite I1, map_length, firstn_length. lia.
      * destruct rest as [|p ps']; [congruence|]. exact J4.
  - symmetry in I2. apply Nat.ltb_ge in I2.
    split; [|split; [discriminate|split]].
    + cbn [concat]. rewrite app_nil_r, I1. f_equal. now apply firstn_all2.
    + constructor.
    + cbn [last]. rewrite I1, map_length, firstn_length. lia.
Qed.

End Pages.
