(* C04: the premise "the comparator MergeSearchResults uses agrees with the
   index order" of the merge theorem, established per primary attribute class.

   The result items that can reach one merge are described by a catalogue:
   every object ID has one returned text (`text id`, Attributes[0]) and one
   stored value (`raw id`, the value part of the index key); copies of an
   object on several shards / nodes carry the same ones. *)
From Coq Require Import List NArith ZArith Bool Arith Lia.
Import ListNotations.
From NV Require Import Gen.S256Consts Gen.SearchConsts S256.S256 S256.BytesProofs S256.CodecProofs S256.DecimalProofs
  S256.ReadersProofs Search.Search Search.MergeLoop Search.MergeLoopProofs.
Local Open Scope N_scope.

Definition cat_U (text : bytes -> bytes) (ok : bytes -> Prop) (x : ritem) : Prop :=
  ok (r_id x) /\ r_attr x = text (r_id x).
Definition cat_raw (raw : bytes -> bytes) (x : ritem) : bytes := raw (r_id x).

Lemma cat_id_inj text (ok : bytes -> Prop) a b : cat_U text ok a -> cat_U text ok b -> r_id a = r_id b -> a = b.
Proof.
  destruct a as [ia aa], b as [ib ab]. unfold cat_U. cbn [r_id r_attr]. intros [_ ->] [_ ->] ->. reflexivity.
Qed.

Definition is_oid_key (k : bytes) : bool := bytes_eqb k key_parent || bytes_eqb k key_first || bytes_eqb k key_associate.

Section Classes.
Variable dec_oid dec_usr : bytes -> option bytes.

(* ID-ordered results (no attribute requested, or the merge is told firstAttr = ""):
   the index is the ID index, there is no value part *)
Lemma agree_id cmp_int text (ok : bytes -> Prop) a b : cat_U text ok a -> cat_U text ok b -> r_id a <> r_id b ->
  attr_cmp dec_oid dec_usr [] cmp_int (r_attr a) (r_attr b)
  = Some (lex_compare (cat_raw (fun _ => []) a) (cat_raw (fun _ => []) b)).
Proof. reflexivity. Qed.

(* numeric primary filter: the shard returns String() of the stored integer;
   compareIntStrings on the texts = byte order of the 33-byte encodings (C05) *)
Lemma spec_parse_to_string z : canonical z -> spec_parse (to_string z) = Some (val z).
Proof.
  intros Hz. pose proof (parse_print z Hz) as H. rewrite set_from_decimal_spec in H.
  unfold spec_read in H. destruct (spec_parse (to_string z)) as [v|]; [|discriminate].
  destruct (in_range v); [|discriminate]. injection H as <-. now rewrite val_of_Z.
Qed.

Lemma agree_int first_attr (zof : bytes -> sint) a b : first_attr <> [] ->
  let U := cat_U (fun i => to_string (zof i)) (fun i => canonical (zof i)) in
  U a -> U b -> r_id a <> r_id b ->
  attr_cmp dec_oid dec_usr first_attr true (r_attr a) (r_attr b)
  = Some (lex_compare (cat_raw (fun i => encode (zof i)) a) (cat_raw (fun i => encode (zof i)) b)).
Proof.
  intros Hne U [Ha Ta] [Hb Tb] _. unfold attr_cmp, cat_raw. destruct first_attr; [congruence|].
  rewrite Ta, Tb, compare_int_strings_spec, !spec_parse_to_string by assumption.
  now rewrite encode_order.
Qed.

Lemma precheck_int (zof : bytes -> sint) a :
  cat_U (fun i => to_string (zof i)) (fun i => canonical (zof i)) a -> split_int_string (r_attr a) <> None.
Proof.
  intros [Ha Ta] E. pose proof (split_int_string_spec (r_attr a)) as H. rewrite E, Ta in H.
  rewrite spec_parse_to_string in H by assumption. discriminate.
Qed.

(* text-compared attributes (the default branch of the switch): user attributes
   with a non-numeric primary matcher, $Object:version, $Object:objectType,
   creation epoch / payload length with string matchers (text = stored value),
   and payload checksum / homomorphic hash / split ID, whose texts (hex, UUID)
   are compared as strings: agreement needs the encoder to be order preserving *)
Lemma agree_text first_attr (text raw : bytes -> bytes) (ok : bytes -> Prop) a b : first_attr <> [] ->
  is_oid_key first_attr = false -> bytes_eqb first_attr key_owner = false ->
  (forall i j, ok i -> ok j -> lex_compare (text i) (text j) = lex_compare (raw i) (raw j)) ->
  cat_U text ok a -> cat_U text ok b -> r_id a <> r_id b ->
  attr_cmp dec_oid dec_usr first_attr false (r_attr a) (r_attr b)
  = Some (lex_compare (cat_raw raw a) (cat_raw raw b)).
Proof.
  intros Hne Ho Hw Hm [Ha Ta] [Hb Tb] _. unfold attr_cmp, cat_raw. destruct first_attr as [|c k]; [congruence|].
  unfold is_oid_key in Ho. rewrite Ho, Hw, Ta, Tb. now rewrite Hm.
Qed.

(* object-ID valued attributes: parent, first part, associated object *)
Lemma agree_oid first_attr (text raw : bytes -> bytes) a b :
  is_oid_key first_attr = true ->
  let U := cat_U text (fun i => dec_oid (text i) = Some (raw i)) in
  U a -> U b -> r_id a <> r_id b ->
  attr_cmp dec_oid dec_usr first_attr false (r_attr a) (r_attr b)
  = Some (lex_compare (cat_raw raw a) (cat_raw raw b)).
Proof.
  intros Ho U [Ha Ta] [Hb Tb] _. unfold attr_cmp, cat_raw, dec_cmp.
  destruct first_attr as [|c k]; [discriminate|]. unfold is_oid_key in Ho. now rewrite Ho, Ta, Tb, Ha, Hb.
Qed.

(* owner *)
Lemma agree_owner (text raw : bytes -> bytes) a b :
  let U := cat_U text (fun i => dec_usr (text i) = Some (raw i)) in
  U a -> U b -> r_id a <> r_id b ->
  attr_cmp dec_oid dec_usr key_owner false (r_attr a) (r_attr b)
  = Some (lex_compare (cat_raw raw a) (cat_raw raw b)).
Proof.
  intros U [Ha Ta] [Hb Tb] _. unfold attr_cmp, cat_raw, dec_cmp. rewrite Ta, Tb, Ha, Hb. reflexivity.
Qed.

End Classes.

(* where the agreement does NOT hold in the model (and in the code): a primary
   filter NOT_PRESENT on an ID-valued user attribute (__NEOFS__ASSOCIATE) with
   requested attributes: the shards run an ID-ordered scan and return the empty
   text for Attributes[0], but the engine passes firstAttr = the attribute, so
   the merge tries to decode "" as an object ID *)
Lemma associate_absent_refuted (dec_oid dec_usr : bytes -> option bytes) : dec_oid [] = None ->
  merge_results dec_oid dec_usr 10 key_associate false
    [[RItem [1] []]; [RItem [2] []]] [false; false] = None.
Proof. intros H. vm_compute. now rewrite H. Qed.
