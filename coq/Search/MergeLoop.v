(* C04: model of objectcore.MergeSearchResults (pkg/core/object/metadata.go) as
   written: the special cases (lim = 0, no sets, one set), calcMaxUniqueSearchResults,
   the k-way merge loop with its inner "select the minimal head" loop, the
   comparator choice (cmpInt / switch firstAttr), de-duplication by ID and the
   `more` computation.  Definitions only.

   uint16 arithmetic is not modelled: `lim` and all set lengths are taken < 2^16
   (the API limits count to 1000).  oid.ID.DecodeString / user.ID.DecodeString
   (SDK, outside the repo) are parameters. *)
From Coq Require Import List NArith ZArith Bool Arith.
Import ListNotations.
From NV Require Import Gen.S256Consts Gen.SearchConsts S256.S256 Search.Search.
Local Open Scope N_scope.

(* client.SearchResultItem as far as the merge looks at it: ID, Attributes[0] *)
Record ritem := RItem { r_id : bytes; r_attr : bytes }.

Inductive sel := S_None | S_Err | S_Min (i : nat) (x : ritem).

Section Loop.
Variable dec_oid : bytes -> option bytes.   (* oid.ID.DecodeString *)
Variable dec_usr : bytes -> option bytes.   (* user.ID.DecodeString *)
Variable first_attr : bytes.                (* firstAttr ("" = compare IDs only) *)
Variable cmp_int : bool.                    (* cmpInt *)

Definition dec_cmp (dec : bytes -> option bytes) (a b : bytes) : option comparison :=
  match dec a with
  | None => None
  | Some x => match dec b with None => None | Some y => Some (lex_compare x y) end
  end.

(* comparison of Attributes[0] of the current head (a) with the minimal one (b):
   "if cmpInt {compareIntStrings} else switch firstAttr {...}"; None = error *)
Definition attr_cmp (a b : bytes) : option comparison :=
  match first_attr with
  | [] => Some Eq                              (* firstAttr == "": attributes are not looked at *)
  | _ =>
    if cmp_int then compare_int_strings a b
    else if bytes_eqb first_attr key_parent || bytes_eqb first_attr key_first || bytes_eqb first_attr key_associate
    then dec_cmp dec_oid a b
    else if bytes_eqb first_attr key_owner then dec_cmp dec_usr a b
    else Some (lex_compare a b)                (* strings.Compare *)
  end.

(* one iteration of "for i := range sets" of the inner loop *)
Definition sel_step (acc : sel) (i : nat) (s : list ritem) : sel :=
  match acc, s with
  | S_Err, _ => S_Err
  | _, [] => acc
  | S_None, x :: _ =>
    if cmp_int then match split_int_string (r_attr x) with None => S_Err | Some _ => S_Min i x end
    else S_Min i x
  | S_Min mi m, x :: _ =>
    match lex_compare (r_id x) (r_id m) with
    | Eq => acc
    | cid =>
      match attr_cmp (r_attr x) (r_attr m) with
      | None => S_Err
      | Some Lt => S_Min i x
      | Some Gt => acc
      | Some Eq => match cid with Lt => S_Min i x | _ => acc end
      end
    end
  end.

Fixpoint select_from (i : nat) (acc : sel) (sets : list (list ritem)) : sel :=
  match sets with
  | [] => acc
  | s :: r => select_from (S i) (sel_step acc i s) r
  end.

(* "for j := range sets[i] { if sets[i][j].ID == id { sets[i] = sets[i][j+1:]; break } }" *)
Fixpoint drop_through (id : bytes) (l : list ritem) : option (list ritem) :=
  match l with
  | [] => None
  | y :: r => if bytes_eqb (r_id y) id then Some r else drop_through id r
  end.

Fixpoint advance_from (i mi : nat) (x : ritem) (sets : list (list ritem)) : list (list ritem) :=
  match sets with
  | [] => []
  | s :: r =>
    (if Nat.eqb i mi then tl s
     else match drop_through (r_id x) s with Some s' => s' | None => s end)
    :: advance_from (S i) mi x r
  end.

(* is there an item with another ID in a set other than the minimal one *)
Fixpoint other_from (i mi : nat) (x : ritem) (sets : list (list ritem)) : bool :=
  match sets with
  | [] => false
  | s :: r =>
    (negb (Nat.eqb i mi) && existsb (fun y => negb (bytes_eqb (r_id y) (r_id x))) s)
    || other_from (S i) mi x r
  end.

Definition any_true (l : list bool) : bool := existsb (fun b => b) l.

(* `more` once len(res) == lim *)
Definition more_at (mi : nat) (x : ritem) (sets : list (list ritem)) (mores : list bool) : bool :=
  Nat.ltb 1 (length (nth mi sets [])) || any_true mores || other_from 0 mi x sets.

(* the outer loop; n = len(res) before this iteration; the fuel is only there
   for Coq (every iteration removes the head of a set) *)
Fixpoint mloop (fuel lim n : nat) (mores : list bool) (sets : list (list ritem)) : option (list ritem * bool) :=
  match fuel with
  | O => Some ([], false)
  | S f =>
    match select_from 0 S_None sets with
    | S_Err => None
    | S_None => Some ([], false)
    | S_Min mi x =>
      if Nat.eqb (S n) lim then Some ([x], more_at mi x sets mores)
      else match mloop f lim (S n) mores (advance_from 0 mi x sets) with
           | Some (r, m) => Some (x :: r, m)
           | None => None
           end
    end
  end.

End Loop.

(* calcMaxUniqueSearchResults *)
Definition id_in (id : bytes) (sets : list (list ritem)) : bool :=
  existsb (existsb (fun z => bytes_eqb (r_id z) id)) sets.

(* items of one later set; n = lim means "already returned" *)
Fixpoint cmu_set (lim : nat) (prev : list (list ritem)) (s : list ritem) (n : nat) : nat :=
  match s with
  | [] => n
  | y :: r =>
    if Nat.eqb n lim then n
    else if id_in (r_id y) prev then cmu_set lim prev r n
    else cmu_set lim prev r (S n)
  end.

Fixpoint cmu_sets (lim : nat) (prev rest : list (list ritem)) (n : nat) : nat :=
  match rest with
  | [] => n
  | s :: r => cmu_sets lim (prev ++ [s]) r (cmu_set lim prev s n)
  end.

Definition calc_max_unique (lim : nat) (sets : list (list ritem)) : nat :=
  match sets with
  | [] => 0%nat
  | s0 :: r => if Nat.leb lim (length s0) then lim else cmu_sets lim [s0] r (length s0)
  end.

(* MergeSearchResults; None = error *)
Definition merge_results (dec_oid dec_usr : bytes -> option bytes) (lim : nat) (first_attr : bytes) (cmp_int : bool)
  (sets : list (list ritem)) (mores : list bool) : option (list ritem * bool) :=
  match lim, sets with
  | O, _ => Some ([], false)
  | _, [] => Some ([], false)
  | _, [s] => Some (firstn (Nat.min (length s) lim) s,
                    Nat.ltb lim (length s) || (Nat.eqb (length s) lim && any_true mores))
  | _, _ =>
    mloop dec_oid dec_usr first_attr cmp_int (S (length (concat sets))) (calc_max_unique lim sets) 0 mores sets
  end.

(* StorageEngine.Search (pkg/local_object_storage/engine/select.go): how the
   arguments of MergeSearchResults are chosen from the query (after the repair
   that passes no attribute for a NOT_PRESENT primary filter), one shard is
   passed through *)
Definition engine_first_attr (fs : list filter) (attrs : list bytes) : bytes :=
  match fs, attrs with
  | f0 :: _, _ :: _ => if matcher_eqb (f_op f0) M_NOT_PRESENT then [] else f_key f0
  | _, _ => []
  end.
Definition engine_cmp_int (fs : list filter) (attrs : list bytes) : bool :=
  match engine_first_attr fs attrs, fs with
  | _ :: _, f0 :: _ => is_int_op (f_op f0)
  | _, _ => false
  end.
Definition engine_merge (dec_oid dec_usr : bytes -> option bytes) (count : nat) (fs : list filter) (attrs : list bytes)
  (sets : list (list ritem)) (mores : list bool) : option (list ritem * bool) :=
  match sets with
  | [] => Some ([], false)
  | [s] => Some (s, hd false mores)
  | _ => merge_results dec_oid dec_usr count (engine_first_attr fs attrs) (engine_cmp_int fs attrs) sets mores
  end.
