(* C04: model of objectcore.CalculateCursor (after fixes 4584b6d, 868e279) and
   the declarative reference for MergeSearchResults.  Definitions only.
   The k-way merge loop itself is not modelled; the implementation is compared
   with the reference directly (see SearchCheck/MergeCheck). *)
From Coq Require Import List NArith ZArith Bool Arith.
Import ListNotations.
From NV Require Import Gen.S256Consts Gen.SearchConsts S256.S256 Search.Search.
Local Open Scope N_scope.

Section WithCodecs.
Variable cd : codecs.

(* how CalculateCursor turns Attributes[0] back into the value part of the key *)
Inductive cursor_class := CC_ID | CC_INT | CC_B58 | CC_HEX (ln : nat) | CC_UUID | CC_TEXT.

Definition cursor_class_of (attr : bytes) (op : matcher) : cursor_class :=
  if matcher_eqb op M_NOT_PRESENT then CC_ID
  else match class_of attr with
       | C_OWNER | C_OID => CC_B58
       | C_SUM => CC_HEX 32
       | C_HOMO => CC_HEX 64
       | C_SPLIT => CC_UUID
       | C_PLAIN =>
         if bytes_eqb attr key_version || bytes_eqb attr key_type then CC_TEXT
         else if is_int_op op then CC_INT else CC_TEXT
       end.

(* CalculateCursor(filt, lastItem) with lastItem = (id, Attributes); None = error *)
Definition calc_cursor (attr : bytes) (op : matcher) (id : bytes) (attrs : list bytes) : option bytes :=
  match attrs with
  | [] => Some id
  | text :: _ =>
    match cursor_class_of attr op with
    | CC_ID => Some id
    | CC_INT =>
      match set_from_decimal text with
      | None => None
      | Some z => Some (attr ++ delim ++ encode z ++ id)
      end
    | CC_B58 =>
      match dec_b58 cd text with
      | None => None
      | Some v => Some (attr ++ delim ++ v ++ delim ++ id)
      end
    | CC_HEX ln =>
      if negb (Nat.eqb (Nat.div2 (length text)) ln) then None else
      match dec_hex cd text with
      | None => None
      | Some v => Some (attr ++ delim ++ v ++ delim ++ id)
      end
    | CC_UUID =>
      match dec_uuid cd text with
      | None => None
      | Some v => Some (attr ++ delim ++ v ++ delim ++ id)
      end
    | CC_TEXT => Some (attr ++ delim ++ text ++ delim ++ id)
    end
  end.

(* the index key (without its first byte) of an object whose primary attribute
   has the stored value `raw` -- what a shard returns as cursor (Search.cursor_bytes) *)
Definition index_key (attr : bytes) (int_index : bool) (raw id : bytes) : bytes :=
  if int_index then attr ++ delim ++ raw ++ id else attr ++ delim ++ raw ++ delim ++ id.

End WithCodecs.

(* ---------- reference for MergeSearchResults ---------- *)

(* an item of a per-shard result: ID, stored value of the primary attribute *)
Record mitem := MItem { m_id : bytes; m_raw : bytes }.

Definition mitem_le (a b : mitem) : bool :=
  match lex_compare (m_raw a) (m_raw b) with
  | Lt => true
  | Gt => false
  | Eq => match lex_compare (m_id a) (m_id b) with Gt => false | _ => true end
  end.

Fixpoint m_insert (x : mitem) (l : list mitem) : list mitem :=
  match l with
  | [] => [x]
  | y :: r => if mitem_le x y then x :: l else y :: m_insert x r
  end.

Fixpoint m_dedup (seen : list bytes) (l : list mitem) : list mitem :=
  match l with
  | [] => []
  | x :: r => if existsb (bytes_eqb (m_id x)) seen then m_dedup seen r else x :: m_dedup (m_id x :: seen) r
  end.

(* the page a single search over the union would give: objects of all sets,
   one per ID, in (stored value, ID) order, first lim *)
Definition ref_union (sets : list (list mitem)) : list mitem :=
  fold_right m_insert [] (m_dedup [] (concat sets)).
Definition ref_merge (lim : nat) (sets : list (list mitem)) (mores : list bool) : list mitem * bool :=
  let u := ref_union sets in
  (firstn lim u, Nat.ltb lim (length u) || (existsb (fun b => b) mores && Nat.leb lim (length u))).
