(* C03 proofs: what is proved about the scan of MetaDataKVHandler.
   - ID-ordered listing queries (no requested attributes): the handler never
     stops early, a page is exactly the first `count` matching available
     entries after the seek point, `more`/cursor are exact.
   - integer index entries exist exactly for in-range decimal values (via C05).
   - the full-strength statement is refuted by a concrete query with two
     filters on the primary attribute. *)
From Coq Require Import List NArith ZArith Bool Arith Lia.
Import ListNotations.
From NV Require Import Gen.S256Consts Gen.SearchConsts S256.S256 S256.DecimalProofs Search.Search.
Local Open Scope N_scope.

Section Proofs.
Variable cd : codecs.

Lemma sec_inner_no_stop attr dbv : forall ofs firstj, sec_inner cd attr dbv firstj ofs <> V_Stop.
Proof.
  induction ofs as [|o r IH]; intros firstj; cbn [sec_inner]; [discriminate|].
  destruct (negb firstj && negb (bytes_eqb (f_key (of_f o)) attr)); [apply IH|].
  destruct (convert_filter (of_f o)) as [m v].
  destruct dbv as [dv|].
  - destruct (matcher_eqb m M_NOT_PRESENT); [discriminate|].
    match goal with |- context [match ?x with Some _ => _ | None => _ end] => destruct x as [[|]|] end;
      try discriminate. apply IH.
  - destruct (matcher_eqb m M_NOT_PRESENT); [apply IH|discriminate].
Qed.

Lemma sec_check_no_stop id_iter f0key o : forall ofs firsti, sec_check cd id_iter f0key o firsti ofs <> V_Stop.
Proof.
  induction ofs as [|x r IH]; intros firsti; cbn [sec_check]; [discriminate|].
  destruct (negb id_iter && (firsti || bytes_eqb (f_key (of_f x)) f0key)); [apply IH|].
  pose proof (sec_inner_no_stop (f_key (of_f x)) (lookup (f_key (of_f x)) (o_attrs o)) (x :: r) firsti) as H.
  destruct (sec_inner cd (f_key (of_f x)) (lookup (f_key (of_f x)) (o_attrs o)) firsti (x :: r)); try discriminate; [apply IH|congruence].
Qed.

Definition f0key_of (ofs : list ofilter) : bytes := match ofs with o :: _ => f_key (of_f o) | [] => [] end.

(* the handler's per-object predicate in ID-iteration mode *)
Definition ematch (ofs : list ofilter) (e : entry) : bool :=
  match sec_check cd true (f0key_of ofs) (e_obj e) true ofs with
  | V_Match => o_avail (e_obj e)
  | _ => false
  end.
Definition eclean (ofs : list ofilter) (e : entry) : Prop :=
  sec_check cd true (f0key_of ofs) (e_obj e) true ofs <> V_Err.

Definition id_item (e : entry) : item := Item (o_id (e_obj e)) [].

Lemma last_nonempty {A} (l : list A) : forall b d1 d2, last (b :: l) d1 = last (b :: l) d2.
Proof. induction l as [|x l IH]; intros b d1 d2; [reflexivity|]. cbn [last] in *. apply (IH x). Qed.

Lemma handle_id ofs count ip n was items lst e :
  handle cd ofs [] count true ip (HState n was items lst false false) e =
  match sec_check cd true (f0key_of ofs) (e_obj e) true ofs with
  | V_Match => if negb (o_avail (e_obj e)) then (HState n was items lst false false, true)
               else if Nat.eqb n count then (HState n was items lst true false, false)
               else (HState (S n) was (id_item e :: items) (e_tail e) false false, true)
  | V_Skip => (HState n was items lst false false, true)
  | V_Stop => (HState n was items lst false false, false)
  | V_Err => (HState n was items lst false true, false)
  end.
Proof.
  reflexivity.
Qed.

Lemma scan_idlist ofs count ip : forall l n was items lst,
  Forall (eclean ofs) l -> (n <= count)%nat ->
  let ms := List.filter (ematch ofs) l in
  let st' := scan cd ofs [] count true ip (HState n was items lst false false) l in
  h_items st' = rev (map id_item (firstn (count - n) ms)) ++ items /\
  h_more st' = Nat.ltb (count - n) (length ms) /\
  h_err st' = false /\
  h_last st' = last (map e_tail (firstn (count - n) ms)) lst.
Proof.
  induction l as [|e r IH]; intros n was items lst Hc Hn; cbn zeta.
  - cbn. rewrite firstn_nil. cbn. repeat split.
  - inversion Hc as [|? ? He Hr]; subst. cbn [scan List.filter].
    rewrite handle_id. unfold eclean in He.
    assert (ematch ofs e = match sec_check cd true (f0key_of ofs) (e_obj e) true ofs with
                           | V_Match => o_avail (e_obj e) | _ => false end) as Hm by reflexivity.
    rewrite Hm. clear Hm.
    pose proof (sec_check_no_stop true (f0key_of ofs) (e_obj e) ofs true) as Hs.
    destruct (sec_check cd true (f0key_of ofs) (e_obj e) true ofs) eqn:Es; try congruence.
    + destruct (o_avail (e_obj e)) eqn:Ea; cbn [negb].
      * destruct (Nat.eqb_spec n count) as [E|NE].
        -- subst n. rewrite Nat.sub_diag. cbn. repeat split.
        -- specialize (IH (S n) was (id_item e :: items) (e_tail e) Hr ltac:(lia)). cbn zeta in IH.
           destruct IH as (I1 & I2 & I3 & I4).
           replace (count - n)%nat with (S (count - S n)) by lia.
           cbn [firstn map rev length].
           rewrite I1, I2, I3, I4. repeat split.
           ++ rewrite <- app_assoc. reflexivity.
           ++ cbn [last]. destruct (map e_tail (firstn (count - S n) (List.filter (ematch ofs) r))) eqn:Em; [reflexivity|apply last_nonempty].
      * apply (IH n was items lst Hr Hn).
    + apply (IH n was items lst Hr Hn).
Qed.

(* page form: starting a fresh scan *)
Theorem idlist_page ofs count ip l : Forall (eclean ofs) l ->
  let ms := List.filter (ematch ofs) l in
  let st := scan cd ofs [] count true ip h0 l in
  rev (h_items st) = map id_item (firstn count ms) /\
  h_more st = Nat.ltb count (length ms) /\
  h_err st = false /\
  (h_more st = true -> h_last st = last (map e_tail (firstn count ms)) []).
Proof.
  intros Hc. cbn zeta. unfold h0.
  destruct (scan_idlist ofs count ip l 0 false [] [] Hc ltac:(lia)) as (I1 & I2 & I3 & I4).
  cbn zeta in *. rewrite Nat.sub_0_r in *. rewrite I1, I2, I3, I4, app_nil_r, rev_involutive.
  repeat split.
Qed.

(* integer index entries: exactly the attribute values that are in-range
   optionally signed decimals (C05_accept_exact) *)
Theorem int_entries_iff attr o e :
  In e (obj_entries K_INT attr o) <->
  exists k v z, In (k, v) (o_attrs o) /\ bytes_eqb k attr = true /\ spec_read v = Some z /\
                e = Entry (encode z ++ o_id o) (encode z) o.
Proof.
  unfold obj_entries. rewrite in_flat_map. split.
  - intros ([k v] & Hin & He). cbn [fst snd] in He.
    destruct (bytes_eqb k attr) eqn:Ek; [|contradiction].
    rewrite set_from_decimal_spec in He.
    destruct (spec_read v) as [z|] eqn:Ez; [|contradiction].
    destruct He as [He|[]]. exists k, v, z. repeat split; auto.
  - intros (k & v & z & Hin & Ek & Ez & He). exists (k, v). split; [exact Hin|].
    cbn [fst snd]. rewrite Ek, set_from_decimal_spec, Ez. left. now symmetry.
Qed.

End Proofs.

(* ---------- refutation of the full-strength page statement ---------- *)

Definition id_codecs : codecs :=
  Codecs (fun b => b) (fun b => Some b) (fun b => b) (fun b => Some b) (fun b => b) (fun b => Some b).

Definition mk_oid (b : N) : bytes := repeat 0 31 ++ [b].
Definition key_N : bytes := [78].
Definition wobj (i : N) (v : bytes) : obj :=
  Obj (mk_oid i) [(key_N, v); (key_phy, [49])] true.
(* N = 5, 12, 15, 30 *)
Definition wobjs : list obj := [wobj 1 [53]; wobj 2 [49; 50]; wobj 3 [49; 53]; wobj 4 [51; 48]].
Definition f_le20 := Filter key_N M_LE [50; 48].
Definition f_ge10 := Filter key_N M_GE [49; 48].

Lemma refuted_witness :
  search id_codecs wobjs [f_le20; f_ge10] [key_N] None 10 = R_Page [] None /\
  ref_search id_codecs wobjs [f_le20; f_ge10] [key_N]
    = [Item (mk_oid 2) [[49; 50]]; Item (mk_oid 3) [[49; 53]]] /\
  search id_codecs wobjs [f_ge10; f_le20] [key_N] None 10
    = R_Page [Item (mk_oid 2) [[49; 50]]; Item (mk_oid 3) [[49; 53]]] None.
Proof. vm_compute. repeat split. Qed.
