(* Executable comparison functions of the C04 correspondence check. *)
From Coq Require Import List NArith ZArith Bool Arith.
Import ListNotations.
From NV Require Import Gen.S256Consts Gen.SearchConsts S256.S256 S256.S256Check Search.Search Search.SearchCheck Search.Merge.
Local Open Scope N_scope.

Record ccase := CCase {
  cc_attr : bytes; cc_op : matcher; cc_id : bytes; cc_text : bytes; cc_raw : bytes; cc_int : bool;
  cc_cursor : option bytes;   (* CalculateCursor output, None = error *)
  cc_accepted : bool          (* PreprocessSearchQuery accepts it *)
}.

(* the codec behaviour observed for this very value *)
Definition ccase_codecs (c : ccase) : codecs :=
  mk_codecs [] [(0, cc_text c, cc_raw c); (1, cc_text c, cc_raw c); (2, cc_text c, cc_raw c)].

Definition cursor_model_ok (c : ccase) : bool :=
  opt_eqb bytes_eqb (calc_cursor (ccase_codecs c) (cc_attr c) (cc_op c) (cc_id c) [cc_text c]) (cc_cursor c).
Definition cursor_ref_ok (c : ccase) : bool :=
  opt_eqb bytes_eqb (cc_cursor c) (Some (index_key (cc_attr c) (cc_int c) (cc_raw c) (cc_id c))) && cc_accepted c.

Record mcase := MCase {
  mc_lim : nat; mc_sets : list (list mitem); mc_mores : list bool; mc_sorted : bool;
  mc_err : bool; mc_res : list mitem; mc_more : bool
}.

Definition mitem_eqb (a b : mitem) : bool := bytes_eqb (m_id a) (m_id b) && bytes_eqb (m_raw a) (m_raw b).

Definition merge_ref_ok (c : mcase) : bool :=
  if negb (mc_sorted c) then true else
  let '(r, more) := ref_merge (mc_lim c) (mc_sets c) (mc_mores c) in
  negb (mc_err c) && list_eqb_by mitem_eqb (mc_res c) r && Bool.eqb (mc_more c) more.

Definition cursor_model_mismatches := mism_from cursor_model_ok 0.
Definition cursor_ref_mismatches := mism_from cursor_ref_ok 0.
Definition merge_ref_mismatches := mism_from merge_ref_ok 0.
